/-
  JdProofs.MapOrder — property C15, map-iteration half: the results of the model do not depend on the
  order in which the members of a Go map are visited.

  A Go `map[string]JsonNode` has unique keys and no iteration order. The model represents it by an
  association list that the driver keeps sorted by key (`sortKvs`, `keysSorted`). Some Go functions sort
  the keys before iterating (hashCode, diff, encoding/json, readMergeInto); the following ones RANGE OVER
  THE MAP DIRECTLY. For each of them the model function is shown to return the same result for every
  permutation (`List.Perm`) of the association list it iterates over; where the argument is used as a
  finite map (looked up by key) the hypothesis is that the keys are pairwise distinct
  (`(kvs.map Prod.fst).Nodup`), which is what a Go map guarantees.

    Go                                   model                    theorem
    jsonObject.Equals (range o1, o2[k])  equalsKvs / equals       equalsKvs_perm, equalsKvs_perm_right,
                                                                  equalsKvs_perm_both, equals_obj_perm
                                                                  (alookup_perm, equalsKvs_eq_all)
    readMetadata (range o)               readMetadataM            readMetadataM_perm
    jsonObject.pathIdent (range path     restrictKeys/pathIdent   restrictKeys_perm, pathIdent_perm
      object, build a new map, hash it)                           (+ restrictKeys_perm_left,
                                                                   hashCode_obj_canonical)
    newPathSetKeys (range the option     newPathSetKeys           newPathSetKeys_perm, setKeysObj_perm
      slice, assign into a map)                                   (ainsert_comm, ainsert_idem)
    NewJsonNode(map) / jsonObject.raw    sortKvs (driver)         sortKvs_perm, keysSorted_sortKvs,
      (build a map member by member)                              alookup_sortKvs, sortKvs_of_sorted,
                                                                  sortKvs_eq_of_perm_sorted, perm_sortKvs
    readMergeInto (keys sorted after     readMergeDoc             readMergeDoc_sortKvs_perm,
      the fix)                                                    readMergeInto_sortKvs_perm

  `sortKvs` here is literally the definition of `Jd.Wire.sortKvs` (Driver/Wire.lean; the driver library is
  not imported by the proof library): `kvs.foldl (fun acc kv => ainsert kv.1 kv.2 acc) []`.

  Section 6 instantiates the permutation theorems at `sortKvs`: running the model on the sorted
  representatives gives the result of visiting the members in ANY order.

  Scope: the permutation is of the members of the object the function ranges over (one level); nested
  objects are values and are not permuted (in the model they are already canonical).
  `readMetadataM` models the error CLASS and the Merge flag only, not the error text (the Go text
  "unknown metadata <k>" names the first offending member visited, so with two or more offending members
  the TEXT of the error does depend on the iteration order; the model does not cover it).
-/
import JdModel
import JdSpec
import JdProofs.EqualsList
import JdProofs.StrictPatch
import JdProofs.MergeProofs
import JdProofs.NativeRoundTrip

namespace Jd.MapOrder
open Jd

/-! ### 0. lookups in permuted association lists -/

/-- the key list of an association list -/
abbrev keys {β} (kvs : List (String × β)) : List String := kvs.map Prod.fst

theorem keys_perm {β} {l₁ l₂ : List (String × β)} (p : l₁.Perm l₂) : (keys l₁).Perm (keys l₂) :=
  p.map Prod.fst

theorem nodup_keys_perm {β} {l₁ l₂ : List (String × β)} (p : l₁.Perm l₂) :
    (keys l₁).Nodup ↔ (keys l₂).Nodup :=
  (keys_perm p).nodup_iff

theorem alookup_none_iff {β} (k : String) :
    ∀ l : List (String × β), alookup k l = none ↔ k ∉ keys l
  | [] => by simp [alookup]
  | (k0, v0) :: r => by
    simp only [alookup, keys, List.map_cons, List.mem_cons, not_or]
    split
    · rename_i h; simp [h]
    · rename_i h
      rw [alookup_none_iff k r]
      simp [h, keys]

theorem alookup_isSome_iff {β} (k : String) (l : List (String × β)) :
    (alookup k l).isSome = true ↔ k ∈ keys l := by
  cases h : alookup k l with
  | none => simpa using (alookup_none_iff k l).1 h
  | some v =>
    have : ¬ alookup k l = none := by simp [h]
    simpa using Classical.not_not.1 (fun hk => this ((alookup_none_iff k l).2 hk))

/-- with distinct keys, a member is found by its key -/
theorem alookup_of_mem_nodup {β} {k : String} {v : β} :
    ∀ {l : List (String × β)}, (keys l).Nodup → (k, v) ∈ l → alookup k l = some v
  | [], _, h => by simp at h
  | (k0, v0) :: r, hn, h => by
    simp only [keys, List.map_cons, List.nodup_cons] at hn
    rcases List.mem_cons.1 h with e | hm
    · cases e; simp [alookup]
    · have hne : k ≠ k0 := by
        intro e; subst e
        exact hn.1 (List.mem_map.2 ⟨(k, v), hm, rfl⟩)
      simp only [alookup, hne, if_false]
      exact alookup_of_mem_nodup hn.2 hm

theorem mem_of_alookup_some {β} {k : String} {v : β} :
    ∀ {l : List (String × β)}, alookup k l = some v → (k, v) ∈ l
  | [], h => by simp [alookup] at h
  | (k0, v0) :: r, h => by
    simp only [alookup] at h
    split at h
    · rename_i e; cases h; subst e; exact List.mem_cons_self
    · exact List.mem_cons_of_mem _ (mem_of_alookup_some h)

/-- **`alookup` depends only on the key → value function**: permuting an association list with
    distinct keys does not change any lookup -/
theorem alookup_perm {β} {l₁ l₂ : List (String × β)} (p : l₁.Perm l₂) (hn : (keys l₁).Nodup)
    (k : String) : alookup k l₁ = alookup k l₂ := by
  have hn₂ : (keys l₂).Nodup := (nodup_keys_perm p).1 hn
  cases h : alookup k l₁ with
  | none =>
    have h1 := (alookup_none_iff k l₁).1 h
    have h2 : k ∉ keys l₂ := fun hm => h1 ((keys_perm p).mem_iff.2 hm)
    exact ((alookup_none_iff k l₂).2 h2).symm
  | some v =>
    exact (alookup_of_mem_nodup hn₂ (p.mem_iff.1 (mem_of_alookup_some h))).symm

/-- presence of a key does not even need distinct keys -/
theorem alookup_isSome_perm {β} {l₁ l₂ : List (String × β)} (p : l₁.Perm l₂) (k : String) :
    (alookup k l₁).isSome = (alookup k l₂).isSome := by
  rw [Bool.eq_iff_iff, alookup_isSome_iff, alookup_isSome_iff]
  exact (keys_perm p).mem_iff

/-! ### 1. `jsonObject.Equals` : `for key1, val1 := range o1 { val2, ok := o2[key1] … }` -/

/-- the test made for one member of the receiver: `val2, ok := o2[key1]; ok && val1.Equals(val2)` -/
def memberEq (o : Opts) (v : Json) : Option Json → Bool
  | some v' => equals o v v'
  | none => false

theorem equalsKvs_cons (o : Opts) (k : String) (v : Json) (r kvs' : List (String × Json)) :
    equalsKvs o ((k, v) :: r) kvs' = (memberEq o v (alookup k kvs') && equalsKvs o r kvs') := by
  simp only [equalsKvs]
  cases alookup k kvs' <;> rfl

theorem equalsKvs_nil (o : Opts) (kvs' : List (String × Json)) : equalsKvs o [] kvs' = true := by
  simp only [equalsKvs]

/-- `equalsKvs` is the conjunction of the member tests -/
theorem equalsKvs_eq_all (o : Opts) (kvs' : List (String × Json)) :
    ∀ kvs : List (String × Json),
      equalsKvs o kvs kvs' = kvs.all (fun kv => memberEq o kv.2 (alookup kv.1 kvs'))
  | [] => by rw [equalsKvs_nil]; rfl
  | (k, v) :: r => by rw [equalsKvs_cons, equalsKvs_eq_all o kvs' r]; rfl

/-- the order in which the members of the receiver are visited is irrelevant
    (no hypothesis: the result is a conjunction over the members) -/
theorem equalsKvs_perm (o : Opts) {kvs₁ kvs₂ : List (String × Json)} (p : kvs₁.Perm kvs₂)
    (kvs' : List (String × Json)) : equalsKvs o kvs₁ kvs' = equalsKvs o kvs₂ kvs' := by
  rw [equalsKvs_eq_all, equalsKvs_eq_all, p.all_eq]

/-- the argument is used through its lookups only -/
theorem equalsKvs_congr_lookup (o : Opts) {kvs'₁ kvs'₂ : List (String × Json)}
    (h : ∀ k, alookup k kvs'₁ = alookup k kvs'₂) :
    ∀ kvs : List (String × Json), equalsKvs o kvs kvs'₁ = equalsKvs o kvs kvs'₂
  | [] => by rw [equalsKvs_nil, equalsKvs_nil]
  | (k, v) :: r => by
    rw [equalsKvs_cons, equalsKvs_cons, h k, equalsKvs_congr_lookup o h r]

/-- the internal order of the map that is looked up is irrelevant -/
theorem equalsKvs_perm_right (o : Opts) (kvs : List (String × Json))
    {kvs'₁ kvs'₂ : List (String × Json)} (p : kvs'₁.Perm kvs'₂) (hn : (keys kvs'₁).Nodup) :
    equalsKvs o kvs kvs'₁ = equalsKvs o kvs kvs'₂ :=
  equalsKvs_congr_lookup o (alookup_perm p hn) kvs

theorem equalsKvs_perm_both (o : Opts) {kvs₁ kvs₂ kvs'₁ kvs'₂ : List (String × Json)}
    (p : kvs₁.Perm kvs₂) (p' : kvs'₁.Perm kvs'₂) (hn' : (keys kvs'₁).Nodup) :
    equalsKvs o kvs₁ kvs'₁ = equalsKvs o kvs₂ kvs'₂ :=
  (equalsKvs_perm o p kvs'₁).trans (equalsKvs_perm_right o kvs₂ p' hn')

/-- **`jsonObject.Equals` does not depend on the iteration order of either map.**
    Only the looked-up map needs distinct keys. -/
theorem equals_obj_perm (o : Opts) {kvs₁ kvs₂ kvs'₁ kvs'₂ : List (String × Json)}
    (p : kvs₁.Perm kvs₂) (p' : kvs'₁.Perm kvs'₂) (hn' : (keys kvs'₁).Nodup) :
    equals o (.obj kvs₁) (.obj kvs'₁) = equals o (.obj kvs₂) (.obj kvs'₂) := by
  simp only [equals]
  rw [equalsKvs_perm_both o p p' hn', p.length_eq, p'.length_eq]

/-- against a non-object the receiver's members are not visited at all -/
theorem equals_obj_perm_left (o : Opts) {kvs₁ kvs₂ : List (String × Json)} (p : kvs₁.Perm kvs₂)
    (b : Json) (hb : ∀ kvs', b = .obj kvs' → (keys kvs').Nodup) :
    equals o (.obj kvs₁) b = equals o (.obj kvs₂) b := by
  cases b with
  | obj kvs' => exact equals_obj_perm o p (List.Perm.refl _) (hb kvs' rfl)
  | _ => simp [equals]

/-! ### 2. `readMetadata` : `for k, v := range o { switch k { case "Merge": … default: error } }` -/

/-- both the error class and the Merge flag are independent of the order of the members
    (`all` / `any` over the members; no hypothesis on the keys) -/
theorem readMetadataM_perm {kvs₁ kvs₂ : List (String × Json)} (p : kvs₁.Perm kvs₂) :
    readMetadataM (.obj kvs₁) = readMetadataM (.obj kvs₂) := by
  simp only [readMetadataM]
  rw [p.all_eq, p.any_eq]

/-! ### 3. `jsonObject.pathIdent` : `for k := range pathObject { keys = append(keys, k) }` -/

/-- the path object is used as a key SET only (no hypothesis on its keys) -/
theorem restrictKeys_congr_keys (kvs : List (String × Json)) {po₁ po₂ : List (String × Json)}
    (h : ∀ k, k ∈ keys po₁ ↔ k ∈ keys po₂) : restrictKeys kvs po₁ = restrictKeys kvs po₂ := by
  unfold restrictKeys
  apply List.filter_congr
  intro kv _
  rw [Bool.eq_iff_iff, alookup_isSome_iff, alookup_isSome_iff]
  exact h kv.1

theorem restrictKeys_perm (kvs : List (String × Json)) {po₁ po₂ : List (String × Json)}
    (p : po₁.Perm po₂) : restrictKeys kvs po₁ = restrictKeys kvs po₂ :=
  restrictKeys_congr_keys kvs (fun _ => (keys_perm p).mem_iff)

/-- **`pathIdent` does not depend on the iteration order of the path object** -/
theorem pathIdent_perm (o : Opts) (kvs : List (String × Json)) {po₁ po₂ : List (String × Json)}
    (p : po₁.Perm po₂) : pathIdent o kvs po₁ = pathIdent o kvs po₂ := by
  unfold pathIdent
  rw [restrictKeys_perm kvs p]

/-- the stated form (distinct keys are not needed) -/
theorem pathIdent_perm_nodup (o : Opts) (kvs : List (String × Json)) {po₁ po₂ : List (String × Json)}
    (p : po₁.Perm po₂) (_hn : (keys po₁).Nodup) : pathIdent o kvs po₁ = pathIdent o kvs po₂ :=
  pathIdent_perm o kvs p

/-- the restriction commutes with permuting the receiver (the new map `id` has the same members) -/
theorem restrictKeys_perm_left {kvs₁ kvs₂ : List (String × Json)} (p : kvs₁.Perm kvs₂)
    (po : List (String × Json)) : (restrictKeys kvs₁ po).Perm (restrictKeys kvs₂ po) :=
  p.filter _

theorem keysSorted_filter {β} (f : String × β → Bool) :
    ∀ {l : List (String × β)}, keysSorted l = true → keysSorted (l.filter f) = true
  | [], _ => rfl
  | (k, v) :: r, h => by
    obtain ⟨hl, hs⟩ := Merge.keysSorted_cons_iff.1 h
    have ih := keysSorted_filter f hs
    simp only [List.filter_cons]
    split
    · refine Merge.keysSorted_cons_iff.2 ⟨?_, ih⟩
      intro k' v' hm
      exact hl k' v' (List.mem_filter.1 hm).1
    · exact ih

/-- the restricted object is again in canonical (sorted) form: the model of `NewJsonNode(id)` -/
theorem keysSorted_restrictKeys {kvs : List (String × Json)} (h : keysSorted kvs = true)
    (po : List (String × Json)) : keysSorted (restrictKeys kvs po) = true :=
  keysSorted_filter _ h

/-! ### 4. `newPathSetKeys` : `for _, k := range *setKeys { key[k] = … }` -/

/-- insertions under different keys commute (no sortedness hypothesis) -/
theorem ainsert_comm {β} {k k' : String} (v v' : β) (hne : k ≠ k') (l : List (String × β)) :
    ainsert k v (ainsert k' v' l) = ainsert k' v' (ainsert k v l) := by
  induction l with
  | nil => grind [ainsert]
  | cons kv r ih => grind [ainsert]

/-- inserting the same member twice is inserting it once -/
theorem ainsert_idem {β} (k : String) (v : β) (l : List (String × β)) :
    ainsert k v (ainsert k v l) = ainsert k v l := by
  induction l with
  | nil => grind [ainsert]
  | cons kv r ih => grind [ainsert]

/-- when the value is a function of the key, any two insertions commute -/
theorem ainsert_fn_comm {β} (g : String → β) (k k' : String) (l : List (String × β)) :
    ainsert k (g k) (ainsert k' (g k') l) = ainsert k' (g k') (ainsert k (g k) l) := by
  by_cases h : k = k'
  · subst h; rfl
  · exact ainsert_comm _ _ h l

/-- **`foldl ainsert` with key-determined values is order independent** (duplicates allowed) -/
theorem foldl_ainsert_fn_perm {β} (g : String → β) {ks₁ ks₂ : List String} (p : ks₁.Perm ks₂)
    (init : List (String × β)) :
    ks₁.foldl (fun acc k => ainsert k (g k) acc) init =
      ks₂.foldl (fun acc k => ainsert k (g k) acc) init :=
  p.foldl_eq' (fun x _ y _ z => ainsert_fn_comm g y x z) init

/-- a duplicated key in the option list changes nothing -/
theorem foldl_ainsert_fn_dup {β} (g : String → β) (k : String) (ks : List String)
    (init : List (String × β)) :
    (k :: k :: ks).foldl (fun acc k => ainsert k (g k) acc) init =
      (k :: ks).foldl (fun acc k => ainsert k (g k) acc) init := by
  simp only [List.foldl_cons, ainsert_idem]

/-- the value stored under a key of the SetKeys option: `o[k]`, or `jsonNull{}` when absent -/
def keyVal (kvs : List (String × Json)) (k : String) : Json :=
  match alookup k kvs with
  | some v => v
  | none => .null

/-- the key object of `newPathSetKeys` -/
def setKeysObj (ks : List String) (kvs : List (String × Json)) : List (String × Json) :=
  ks.foldl (fun acc k => ainsert k (keyVal kvs k) acc) []

theorem setKeysObj_perm {ks₁ ks₂ : List String} (p : ks₁.Perm ks₂) (kvs : List (String × Json)) :
    setKeysObj ks₁ kvs = setKeysObj ks₂ kvs :=
  foldl_ainsert_fn_perm (keyVal kvs) p []

theorem newPathSetKeys_of_keysOf {o : Opts} {ks : List String} (h : keysOf o = some ks)
    (kvs : List (String × Json)) : newPathSetKeys o kvs = .setKeys (setKeysObj ks kvs) := by
  simp only [newPathSetKeys, h]
  rfl

theorem newPathSetKeys_setKeys (ks : List String) (rest : Opts) (kvs : List (String × Json)) :
    newPathSetKeys (.setKeys ks :: rest) kvs = .setKeys (setKeysObj ks kvs) :=
  newPathSetKeys_of_keysOf rfl kvs

/-- **`newPathSetKeys` does not depend on the order (or multiplicity pattern) in which the keys of the
    SetKeys option are inserted into the key object** -/
theorem newPathSetKeys_perm {ks₁ ks₂ : List String} (p : ks₁.Perm ks₂) (rest : Opts)
    (kvs : List (String × Json)) :
    newPathSetKeys (.setKeys ks₁ :: rest) kvs = newPathSetKeys (.setKeys ks₂ :: rest) kvs := by
  rw [newPathSetKeys_setKeys, newPathSetKeys_setKeys, setKeysObj_perm p]

/-- for any option list: only the key list found by `getOption[setKeysOption]` matters -/
theorem newPathSetKeys_perm_opts {o₁ o₂ : Opts} {ks₁ ks₂ : List String}
    (h₁ : keysOf o₁ = some ks₁) (h₂ : keysOf o₂ = some ks₂) (p : ks₁.Perm ks₂)
    (kvs : List (String × Json)) : newPathSetKeys o₁ kvs = newPathSetKeys o₂ kvs := by
  rw [newPathSetKeys_of_keysOf h₁, newPathSetKeys_of_keysOf h₂, setKeysObj_perm p]

/-- the receiver is only looked up (with a SetKeys option; without one the receiver itself is the key
    object and is kept as it is) -/
theorem newPathSetKeys_perm_obj (o : Opts) {ks : List String} (h : keysOf o = some ks)
    {kvs₁ kvs₂ : List (String × Json)} (p : kvs₁.Perm kvs₂) (hn : (keys kvs₁).Nodup) :
    newPathSetKeys o kvs₁ = newPathSetKeys o kvs₂ := by
  rw [newPathSetKeys_of_keysOf h, newPathSetKeys_of_keysOf h]
  have : keyVal kvs₁ = keyVal kvs₂ := by
    funext k; simp only [keyVal, alookup_perm p hn k]
  simp only [setKeysObj, this]

theorem keysSorted_foldl_ainsert {α β} (fk : α → String) (fv : α → β) :
    ∀ (l : List α) {init : List (String × β)}, keysSorted init = true →
      keysSorted (l.foldl (fun acc a => ainsert (fk a) (fv a) acc) init) = true
  | [], _, h => h
  | a :: r, _, h => by
    simp only [List.foldl_cons]
    exact keysSorted_foldl_ainsert fk fv r (Merge.keysSorted_ainsert _ _ h)

/-- the key object is in canonical form -/
theorem keysSorted_setKeysObj (ks : List String) (kvs : List (String × Json)) :
    keysSorted (setKeysObj ks kvs) = true :=
  keysSorted_foldl_ainsert (fun k => k) _ ks rfl

/-! ### 5. canonical form: building a map member by member (`NewJsonNode`, `jsonObject.raw`, driver) -/

/-- the definition of `Jd.Wire.sortKvs` (Driver/Wire.lean) -/
def sortKvs (kvs : List (String × Json)) : List (String × Json) :=
  kvs.foldl (fun acc kv => ainsert kv.1 kv.2 acc) []

/-- **the canonical form is the same for all permutations of a list with distinct keys** -/
theorem sortKvs_perm {kvs₁ kvs₂ : List (String × Json)} (p : kvs₁.Perm kvs₂)
    (hn : (keys kvs₁).Nodup) : sortKvs kvs₁ = sortKvs kvs₂ := by
  unfold sortKvs
  refine p.foldl_eq' ?_ []
  intro x hx y hy z
  by_cases h : x.1 = y.1
  · have hxy : x = y := by
      have h1 := alookup_of_mem_nodup (k := x.1) (v := x.2) hn hx
      have h2 := alookup_of_mem_nodup (k := y.1) (v := y.2) hn hy
      rw [h] at h1
      have : x.2 = y.2 := Option.some.inj (h1.symm.trans h2)
      exact Prod.ext h this
    subst hxy; rfl
  · exact ainsert_comm _ _ (Ne.symm h) z

/-- **the canonical form has strictly increasing keys** (no hypothesis) -/
theorem keysSorted_sortKvs (kvs : List (String × Json)) : keysSorted (sortKvs kvs) = true :=
  keysSorted_foldl_ainsert Prod.fst Prod.snd kvs rfl

theorem alookup_foldl_ainsert (j : String) :
    ∀ (l init : List (String × Json)), (keys l).Nodup →
      alookup j (l.foldl (fun acc kv => ainsert kv.1 kv.2 acc) init) =
        match alookup j l with
        | some v => some v
        | none => alookup j init
  | [], _, _ => rfl
  | (k, v) :: r, init, hn => by
    simp only [keys, List.map_cons, List.nodup_cons] at hn
    simp only [List.foldl_cons]
    rw [alookup_foldl_ainsert j r _ hn.2]
    by_cases hj : j = k
    · subst hj
      have : alookup j r = none := (alookup_none_iff j r).2 hn.1
      simp [this, alookup, Merge.alookup_ainsert_self]
    · simp only [alookup, hj, if_false, Merge.alookup_ainsert_ne v hj init]

/-- **the canonical form has the same lookups as the input** (distinct keys) -/
theorem alookup_sortKvs {kvs : List (String × Json)} (hn : (keys kvs).Nodup) (j : String) :
    alookup j (sortKvs kvs) = alookup j kvs := by
  unfold sortKvs
  rw [alookup_foldl_ainsert j kvs [] hn]
  cases alookup j kvs <;> rfl

/-- a sorted list is its own canonical form -/
theorem sortKvs_of_sorted {kvs : List (String × Json)} (h : keysSorted kvs = true) :
    sortKvs kvs = kvs :=
  Merge.kvs_ext (keysSorted_sortKvs kvs) h (alookup_sortKvs (keysSorted_nodup h))

/-- **a Go map is represented by exactly one sorted association list**: every enumeration of the members
    of the map whose sorted list is `s` is canonicalised to `s` -/
theorem sortKvs_eq_of_perm_sorted {kvs s : List (String × Json)} (p : kvs.Perm s)
    (hs : keysSorted s = true) : sortKvs kvs = s := by
  have hn : (keys kvs).Nodup := (nodup_keys_perm p).2 (keysSorted_nodup hs)
  rw [sortKvs_perm p hn, sortKvs_of_sorted hs]

/-- two sorted lists with the same members are equal -/
theorem sorted_perm_eq {s₁ s₂ : List (String × Json)} (p : s₁.Perm s₂) (h₁ : keysSorted s₁ = true)
    (h₂ : keysSorted s₂ = true) : s₁ = s₂ := by
  rw [← sortKvs_of_sorted h₁, sortKvs_eq_of_perm_sorted p h₂]

theorem perm_ainsert_of_not_mem {β} {k : String} (v : β) :
    ∀ {l : List (String × β)}, k ∉ keys l → (ainsert k v l).Perm ((k, v) :: l)
  | [], _ => by simp [ainsert]
  | (k0, v0) :: r, h => by
    simp only [keys, List.map_cons, List.mem_cons, not_or] at h
    simp only [ainsert]
    split
    · exact List.Perm.refl _
    · split
      · exact absurd ‹k = k0› h.1
      · exact ((perm_ainsert_of_not_mem v h.2).cons (k0, v0)).trans (List.Perm.swap _ _ _)

theorem perm_foldl_ainsert :
    ∀ (l init : List (String × Json)), (keys (l ++ init)).Nodup →
      (l.foldl (fun acc kv => ainsert kv.1 kv.2 acc) init).Perm (l ++ init)
  | [], _, _ => List.Perm.refl _
  | (k, v) :: r, init, hn => by
    simp only [keys, List.cons_append, List.map_cons, List.nodup_cons, List.map_append,
      List.mem_append, not_or] at hn
    obtain ⟨⟨hkr, hki⟩, hn'⟩ := hn
    have hp : (ainsert k v init).Perm ((k, v) :: init) := perm_ainsert_of_not_mem v hki
    have hn2 : (keys (r ++ ainsert k v init)).Nodup := by
      have : (r ++ ainsert k v init).Perm (r ++ (k, v) :: init) := List.Perm.append_left r hp
      rw [nodup_keys_perm this]
      have : (r ++ (k, v) :: init).Perm ((k, v) :: (r ++ init)) := List.perm_middle
      rw [nodup_keys_perm this]
      simp only [keys, List.map_cons, List.nodup_cons, List.map_append, List.mem_append, not_or]
      exact ⟨⟨hkr, hki⟩, hn'⟩
    simp only [List.foldl_cons, List.cons_append]
    exact (perm_foldl_ainsert r _ hn2).trans
      ((List.Perm.append_left r hp).trans List.perm_middle)

/-- the canonical form has the same members as the input (distinct keys) -/
theorem perm_sortKvs {kvs : List (String × Json)} (hn : (keys kvs).Nodup) :
    (sortKvs kvs).Perm kvs := by
  have := perm_foldl_ainsert kvs [] (by simpa using hn)
  simpa [sortKvs] using this

theorem nodup_keys_sortKvs (kvs : List (String × Json)) : (keys (sortKvs kvs)).Nodup :=
  keysSorted_nodup (keysSorted_sortKvs kvs)

/-- merge reader: the hunks read from a merge patch object do not depend on the order in which the
    members of the patch object were produced (the keys are sorted before iterating) -/
theorem readMergeInto_sortKvs_perm {kvs₁ kvs₂ : List (String × Json)} (p : kvs₁.Perm kvs₂)
    (hn : (keys kvs₁).Nodup) (path : Path) :
    readMergeInto path (.obj (sortKvs kvs₁)) = readMergeInto path (.obj (sortKvs kvs₂)) := by
  rw [sortKvs_perm p hn]

theorem readMergeDoc_sortKvs_perm {kvs₁ kvs₂ : List (String × Json)} (p : kvs₁.Perm kvs₂)
    (hn : (keys kvs₁).Nodup) :
    readMergeDoc (.obj (sortKvs kvs₁)) = readMergeDoc (.obj (sortKvs kvs₂)) := by
  rw [sortKvs_perm p hn]

/-- in terms of the sorted representative: whatever enumeration of the map is canonicalised, the reader
    sees the sorted list -/
theorem readMergeDoc_of_perm_sorted {kvs s : List (String × Json)} (p : kvs.Perm s)
    (hs : keysSorted s = true) : readMergeDoc (.obj (sortKvs kvs)) = readMergeDoc (.obj s) := by
  rw [sortKvs_eq_of_perm_sorted p hs]

/-! ### 6. the model on sorted representatives = any visiting order -/

/-- `Equals` computed on the sorted representatives is `Equals` computed by visiting the members in the
    given (arbitrary) order -/
theorem equals_obj_sortKvs (o : Opts) {kvs kvs' : List (String × Json)} (hn : (keys kvs).Nodup)
    (hn' : (keys kvs').Nodup) :
    equals o (.obj (sortKvs kvs)) (.obj (sortKvs kvs')) = equals o (.obj kvs) (.obj kvs') :=
  equals_obj_perm o (perm_sortKvs hn) (perm_sortKvs hn') (nodup_keys_sortKvs kvs')

theorem readMetadataM_sortKvs {kvs : List (String × Json)} (hn : (keys kvs).Nodup) :
    readMetadataM (.obj (sortKvs kvs)) = readMetadataM (.obj kvs) :=
  readMetadataM_perm (perm_sortKvs hn)

theorem pathIdent_sortKvs_path (o : Opts) (kvs : List (String × Json)) {po : List (String × Json)}
    (hn : (keys po).Nodup) : pathIdent o kvs (sortKvs po) = pathIdent o kvs po :=
  pathIdent_perm o kvs (perm_sortKvs hn)

/-- hashing canonicalises: the hash of the restricted map built from any enumeration of the receiver is
    the hash of the model's restricted list -/
theorem hashCode_obj_canonical (o : Opts) {kvs s : List (String × Json)} (p : kvs.Perm s)
    (hs : keysSorted s = true) (po : List (String × Json)) :
    hashCode o (.obj (sortKvs (restrictKeys kvs po))) = pathIdent o s po := by
  unfold pathIdent
  rw [sortKvs_eq_of_perm_sorted (restrictKeys_perm_left p po) (keysSorted_restrictKeys hs po)]

end Jd.MapOrder

#print axioms Jd.MapOrder.alookup_perm
#print axioms Jd.MapOrder.equalsKvs_perm
#print axioms Jd.MapOrder.equalsKvs_perm_right
#print axioms Jd.MapOrder.equals_obj_perm
#print axioms Jd.MapOrder.readMetadataM_perm
#print axioms Jd.MapOrder.restrictKeys_perm
#print axioms Jd.MapOrder.pathIdent_perm
#print axioms Jd.MapOrder.ainsert_comm
#print axioms Jd.MapOrder.ainsert_idem
#print axioms Jd.MapOrder.foldl_ainsert_fn_perm
#print axioms Jd.MapOrder.newPathSetKeys_perm
#print axioms Jd.MapOrder.newPathSetKeys_perm_opts
#print axioms Jd.MapOrder.newPathSetKeys_perm_obj
#print axioms Jd.MapOrder.sortKvs_perm
#print axioms Jd.MapOrder.keysSorted_sortKvs
#print axioms Jd.MapOrder.alookup_sortKvs
#print axioms Jd.MapOrder.sortKvs_of_sorted
#print axioms Jd.MapOrder.sortKvs_eq_of_perm_sorted
#print axioms Jd.MapOrder.perm_sortKvs
#print axioms Jd.MapOrder.readMergeDoc_sortKvs_perm
#print axioms Jd.MapOrder.readMergeInto_sortKvs_perm
#print axioms Jd.MapOrder.equals_obj_sortKvs
#print axioms Jd.MapOrder.hashCode_obj_canonical
