/-
  JdProofs.V1ListDiffPatch — property C17 (v1 API `lib/`), LIST mode, strict strategy:

    patching `a` with `a.Diff(b, m...)` yields a document that `Equals` `b`, and the diff is empty
    exactly when `Equals` holds.

  Everything is about the LIBRARY functions of the v1 model (`Jd.V1.diffM`, `Jd.V1.patchM`,
  `Jd.V1.equals`); no reference interpreter in between. Namespace `Jd.V1P`.

  STAGE REACHED: C (full nesting: lists in lists, objects, scalars), all three items, no open goals.

  Domain
    * metadata `ListMode m`: no SET, no MULTISET, no MERGE, precision 0 or absent; a `setkeys`
      metadata is allowed (`V1.dispatchTag` looks at SET / MULTISET only: `Setkeys` alone leaves
      arrays as lists in v1);
    * documents: `listDoc` (array nodes are `jsonArray` / `jsonList`), `wf` (sorted unique keys),
      `finiteNums` (reflexivity of `Equals` on numbers: the patch code checks the old value),
      `vfree` (no void array element, no void object member; `DPL.memOK` only excludes void
      members: a void ARRAY ELEMENT would make the positional diff emit `old = []`, which
      `jsonList.patch` reads as an INSERTION — the statement is false there, but a reader never
      produces such a document);
    * `FloatLaws` (IEEE-754 reflexivity / symmetry of `|x - y| ≤ eps`), and — new for v1 —
      `IdxLaws N` with `lenLe N a`: v1 list indices are `jsonNumber`s, the diff writes
      `float64(i)` and the patch reads `int(jn)`; `Float` is opaque to the kernel, so the
      exactness of that round trip (true for `i < 2^53`) and of `-1` is an explicit hypothesis,
      used only for indices `< N` where every array of `a` has at most `N` elements.
    NO hash hypothesis: v1 list mode never hashes (positional diff, `Equals` pointwise).

  Main results
    1. `v1_equals_eq` : `ListMode m → a.listDoc → V1.equals m a b = Jd.equals [] a b`
       (so the v2 theorems transfer), `v1_equals_eq_specEq`, `v1_equals_refl`, `v1_equals_symm`.
    2. `v1_diff_patch_list` :
         ∃ r, V1.patchM a (V1.diffM m a b) = .ok r ∧ V1.equals m r b = true ∧ specEq r b = true ∧
              specEq b r = true ∧ r.listDoc = true
       (`v1_diff_patch_list_untag`: the same with `untag` on both sides), from the mutual induction
       `diff_correct` over the v1 diff (`v1_induct`: structural induction on the source document
       with only the branches reachable in list mode).
    3. `v1_diff_empty_iff_equals` : `V1.diffM m a b = [] ↔ V1.equals m a b = true` for `a.rawDoc`
       (what the readers produce), `b.listDoc`, both `wf`. For a `jsonList`-typed array in `a`
       against a plain `jsonArray` in `b` the MODEL gives a one-hunk diff although `Equals` holds
       (`tag_witness`); such a pair cannot be built through the public API (`NewJsonNode` /
       `ReadJson*` only make `jsonArray`), so this is a restriction of the statement, not a defect.

  Structure: unfolding equations of `V1.diffNode / diffKvs / diffElems` in list mode and the
  induction principle `v1_induct`; the path argument is a prefix (`diff_shift`) and the hunks have
  plain paths and at most one old / new value (`diff_hunks`); one hunk of `V1.patchNode` below a key
  (`ap_key`), below an index (`ap_idx`), deleting (`ap_delete`), appending with -1 (`ap_append`), at
  the root (`patchNode_root`); frame lemmas for hunk sequences (`patchAll_key_frame`,
  `patchAll_idx_frame`); the non-recursive loops (`apply_appends`, `apply_dels`: deletions from the
  back, each checking the element it removes; `apply_adds`); the main induction `diff_correct`
  with the list invariant "the hunks for the indices of a segment turn that segment of `a` into
  values equal to the corresponding segment of `b` and touch nothing else", proved for both hunk
  orders (increasing index when the list grows, decreasing after the deletions otherwise).
-/
import JdModel
import JdSpec
import JdProofs.EqualsList
import JdProofs.StrictPatch
import JdProofs.DiffPatchList
import JdProofs.Common
import JdProofs.PatchRender

namespace Jd.V1P
open Jd Jd.Spec Jd.DPL

/-! ## 0. list mode -/

/-- v1 metadata of the theorems: no SET, no MULTISET, no MERGE, precision 0 or absent; a `setkeys`
    metadata is allowed (alone it leaves arrays as lists in v1) -/
structure ListMode (m : V1.Metas) : Prop where
  noSet : V1.hasSet m = false
  noMset : V1.hasMset m = false
  noMerge : V1.hasMerge m = false
  prec0 : V1.precOf m = 0

theorem ListMode.nil : ListMode [] := ⟨rfl, rfl, rfl, rfl⟩

theorem ListMode.setkeys (ks : List String) : ListMode [.setkeys ks] := ⟨rfl, rfl, rfl, rfl⟩

theorem ListMode.tag {m : V1.Metas} (hm : ListMode m) : V1.dispatchTag m = .list := by
  simp [V1.dispatchTag, hm.noSet, hm.noMset]

abbrev okTag (t : Tag) : Prop := (t == .raw || t == .list) = true

theorem effTag_ok {m : V1.Metas} (hm : ListMode m) {t : Tag} (ht : okTag t) :
    V1.effTag m t = .list := by
  cases t <;> simp_all [V1.effTag, hm.tag, okTag]

theorem dispatch_listDoc {m : V1.Metas} (hm : ListMode m) {b : Json} (hb : b.listDoc = true) :
    (V1.dispatch m b).listDoc = true := by
  cases b with
  | arr t ys => cases t <;> simp_all [V1.dispatch, hm.tag, Json.listDoc]
  | _ => simpa [V1.dispatch] using hb

/-! ## 1. the v1 `Equals` in list mode is the v2 `Equals` without options -/

theorem v1_equals_arr {m : V1.Metas} (hm : ListMode m) {t : Tag} (ht : okTag t) (xs : List Json)
    (b : Json) :
    V1.equals m (.arr t xs) b =
      match b with
      | .arr .raw ys => V1.equalsList m xs ys
      | .arr .list ys => V1.equalsList m xs ys
      | _ => false := by
  rw [V1.equals.eq_def]
  simp only [effTag_ok hm ht]
  cases b with
  | arr t' ys => cases t' <;> simp [V1.dispatch, hm.tag]
  | _ => simp [V1.dispatch]

theorem v2_equals_arr {t : Tag} (ht : okTag t) (xs : List Json) (b : Json) :
    equals [] (.arr t xs) b =
      match b with
      | .arr .raw ys => equalsList [] xs ys
      | .arr .list ys => equalsList [] xs ys
      | _ => false := by
  rw [equals.eq_def]
  have : effTag [] t = .list := by cases t <;> simp_all [effTag, dispatchTag, okTag]
  simp only [this]
  cases b with
  | arr t' ys => cases t' <;> simp [Json.dispatch, dispatchTag]
  | _ => simp [Json.dispatch]

mutual
theorem v1_equals_eq {m : V1.Metas} (hm : ListMode m) :
    ∀ (a b : Json), a.listDoc = true → V1.equals m a b = equals [] a b
  | .void, b, _ => by simp [V1.equals, equals]
  | .null, b, _ => by simp [V1.equals, equals]
  | .bool x, b, _ => by cases b <;> simp [V1.equals, equals]
  | .num x, b, _ => by cases b <;> simp [V1.equals, equals, hm.prec0, precOf]
  | .str x, b, _ => by cases b <;> simp [V1.equals, equals]
  | .arr t xs, b, ha => by
    simp only [Json.listDoc, Bool.and_eq_true] at ha
    rw [v1_equals_arr hm ha.1, v2_equals_arr ha.1]
    cases b with
    | arr t' ys => cases t' <;> simp [v1_equalsList_eq hm xs ys ha.2]
    | _ => rfl
  | .obj kvs, b, ha => by
    simp only [Json.listDoc] at ha
    cases b with
    | obj kvs' => simp [V1.equals, equals, v1_equalsKvs_eq hm kvs kvs' ha]
    | _ => simp [V1.equals, equals]
theorem v1_equalsList_eq {m : V1.Metas} (hm : ListMode m) :
    ∀ (xs ys : List Json), listDocList xs = true → V1.equalsList m xs ys = equalsList [] xs ys
  | [], ys, _ => by cases ys <;> simp [V1.equalsList, equalsList]
  | x :: xs, [], _ => by simp [V1.equalsList, equalsList]
  | x :: xs, y :: ys, ha => by
    simp only [listDocList, Bool.and_eq_true] at ha
    simp [V1.equalsList, equalsList, v1_equals_eq hm x y ha.1, v1_equalsList_eq hm xs ys ha.2]
theorem v1_equalsKvs_eq {m : V1.Metas} (hm : ListMode m) :
    ∀ (kvs kvs' : List (String × Json)), listDocKvs kvs = true →
      V1.equalsKvs m kvs kvs' = equalsKvs [] kvs kvs'
  | [], _, _ => by simp [V1.equalsKvs, equalsKvs]
  | (k, v) :: r, kvs', ha => by
    simp only [listDocKvs, Bool.and_eq_true] at ha
    rw [V1.equalsKvs, equalsKvs, v1_equalsKvs_eq hm r kvs' ha.2]
    cases hl : alookup k kvs' with
    | none => rfl
    | some v' => simp [v1_equals_eq hm v v' ha.1]
end

/-- the v1 `Equals` in list mode decides structural equality (`specEq`, array tags ignored) -/
theorem v1_equals_eq_specEq {m : V1.Metas} (hm : ListMode m) {a b : Json}
    (ha : a.listDoc = true) (hb : b.listDoc = true) : V1.equals m a b = specEq a b := by
  rw [v1_equals_eq hm a b ha, specEq_eq_equals ha hb]

/-- reflexivity of the v1 `Equals` in list mode -/
theorem v1_equals_refl (L : FloatLaws) {m : V1.Metas} (hm : ListMode m) (a : Json)
    (h1 : a.listDoc = true) (h2 : a.wf = true) (h3 : a.finiteNums = true) :
    V1.equals m a a = true := by
  rw [v1_equals_eq hm a a h1]
  exact equals_refl_list L [] rfl nonnegBits_zero a h1 h2 h3

/-- symmetry of the v1 `Equals` in list mode -/
theorem v1_equals_symm (L : FloatLaws) {m : V1.Metas} (hm : ListMode m) (a b : Json)
    (ha : a.listDoc = true) (hb : b.listDoc = true) (hwa : a.wf = true) (hwb : b.wf = true) :
    V1.equals m a b = V1.equals m b a := by
  rw [v1_equals_eq hm a b ha, v1_equals_eq hm b a hb]
  exact equals_symm_list L [] rfl a b ha hb hwa hwb

/-! ## 2. unfolding equations of the v1 diff in list mode, strict strategy -/

/-- prefix the path of a hunk -/
def shift (p : List Json) (h : V1.Hunk) : V1.Hunk := { h with path := p ++ h.path }

/-- the positional list diff of `jsonList.diff` -/
def listDiff (m : V1.Metas) (p : List Json) (xs ys : List Json) : V1.VDiff :=
  if xs.length < ys.length then
    (V1.diffElems m false p 0 ys xs).flatten ++ (ys.drop xs.length).map (fun y =>
      { path := p ++ [V1.numNeg1], old := [], new := y.nodeList })
  else
    ((xs.drop ys.length).zipIdx ys.length).reverse.map (fun xi =>
      { path := p ++ [V1.numOfNat xi.2], old := xi.1.nodeList, new := [] }) ++
    (V1.diffElems m false p 0 ys xs).reverse.flatten

theorem diffNode_arr_arr {m : V1.Metas} (hm : ListMode m) {t t' : Tag} (xs ys : List Json)
    (ht : okTag t) (ht' : okTag t') (htt : t = .raw ∨ t' = .list) (p : List Json) :
    V1.diffNode m false (.arr t xs) (.arr t' ys) p = listDiff m p xs ys := by
  rw [V1.diffNode.eq_def]
  simp only [effTag_ok hm ht, listDiff]
  cases t <;> cases t' <;> simp_all [V1.dispatch, hm.tag, okTag]

theorem diffNode_arr_other {m : V1.Metas} (hm : ListMode m) {t : Tag} (xs : List Json) (b : Json)
    (ht : okTag t)
    (hb : (∀ t' ys, b ≠ .arr t' ys) ∨ (t = .list ∧ ∃ ys, b = .arr .raw ys)) (p : List Json) :
    V1.diffNode m false (.arr t xs) b p =
      [{ path := p, old := [Json.arr .list xs], new := b.nodeList }] := by
  rw [V1.diffNode.eq_def]
  simp only [effTag_ok hm ht]
  rcases hb with hb | ⟨rfl, ys, rfl⟩
  · cases t <;> cases b <;> simp_all [V1.dispatch, Json.nodeList, Json.isVoid, okTag]
  · simp [Json.nodeList, Json.isVoid]

theorem diffNode_obj_obj (m : V1.Metas) (kvs kvs' : List (String × Json)) (p : List Json) :
    V1.diffNode m false (.obj kvs) (.obj kvs') p =
      V1.diffKvs m false p kvs' kvs ++
        (kvs'.filter (fun kv => (alookup kv.1 kvs).isNone)).map (fun kv =>
          { path := p ++ [.str kv.1], old := [], new := kv.2.nodeList }) := by
  rw [V1.diffNode.eq_def]
  simp

theorem diffNode_obj_other (m : V1.Metas) (kvs : List (String × Json)) (b : Json)
    (hb : ∀ kvs', b ≠ .obj kvs') (p : List Json) :
    V1.diffNode m false (.obj kvs) b p = [{ path := p, old := [Json.obj kvs], new := [b] }] := by
  rw [V1.diffNode.eq_def]
  cases b <;> simp_all

theorem diffNode_scalar (m : V1.Metas) (a b : Json) (ha : ∀ t xs, a ≠ .arr t xs)
    (ha' : ∀ kvs, a ≠ .obj kvs) (p : List Json) :
    V1.diffNode m false a b p = V1.diffCommon m false a b p := by
  rw [V1.diffNode.eq_def]
  cases a <;> simp_all

theorem diffKvs_nil (m : V1.Metas) (p : List Json) (kvs' : List (String × Json)) :
    V1.diffKvs m false p kvs' [] = [] := by
  rw [V1.diffKvs.eq_def]

theorem diffKvs_cons (m : V1.Metas) (p : List Json) (kvs' : List (String × Json)) (k : String)
    (v : Json) (r : List (String × Json)) :
    V1.diffKvs m false p kvs' ((k, v) :: r) =
      (match alookup k kvs' with
       | some v' => V1.diffNode m false v v' (p ++ [.str k])
       | none => [{ path := p ++ [.str k], old := v.nodeList, new := [] }]) ++
        V1.diffKvs m false p kvs' r := by
  rw [V1.diffKvs.eq_def]
  simp only [Bool.false_eq_true, if_false]
  rfl

theorem diffElems_nil (m : V1.Metas) (p : List Json) (i : Nat) (ys : List Json) :
    V1.diffElems m false p i ys [] = [] := by
  rw [V1.diffElems.eq_def]

theorem diffElems_nil' (m : V1.Metas) (p : List Json) (i : Nat) (xs : List Json) :
    V1.diffElems m false p i [] xs = [] := by
  rw [V1.diffElems.eq_def]
  cases xs <;> rfl

theorem diffElems_cons (m : V1.Metas) (p : List Json) (i : Nat) (x y : Json) (xs ys : List Json) :
    V1.diffElems m false p i (y :: ys) (x :: xs) =
      V1.diffNode m false x (V1.dispatch m y) (p ++ [V1.numOfNat i]) ::
        V1.diffElems m false p (i + 1) ys xs := by
  rw [V1.diffElems.eq_def]

/-! ### induction principle: only the branches reachable in list mode on list documents -/

section Induct
set_option linter.unusedSectionVars false
variable (m : V1.Metas) (hm : ListMode m)
  (mN : Json → Json → Prop) (mK : List (String × Json) → List (String × Json) → Prop)
  (mE : List Json → List Json → Prop)
  (arr_arr : ∀ t t' xs ys, okTag t → okTag t' → (t = .raw ∨ t' = .list) →
    listDocList xs = true → listDocList ys = true → mE ys xs → mN (.arr t xs) (.arr t' ys))
  (arr_other : ∀ t xs b, okTag t → listDocList xs = true → b.listDoc = true →
    ((∀ t' ys, b ≠ .arr t' ys) ∨ (t = .list ∧ ∃ ys, b = .arr .raw ys)) → mN (.arr t xs) b)
  (obj_obj : ∀ kvs kvs', listDocKvs kvs = true → listDocKvs kvs' = true → mK kvs' kvs →
    mN (.obj kvs) (.obj kvs'))
  (obj_other : ∀ kvs b, listDocKvs kvs = true → b.listDoc = true → (∀ kvs', b ≠ .obj kvs') →
    mN (.obj kvs) b)
  (scalar : ∀ a b, (∀ t xs, a ≠ .arr t xs) → (∀ kvs, a ≠ .obj kvs) → b.listDoc = true → mN a b)
  (kvs_nil : ∀ kvs', mK kvs' [])
  (kvs_cons : ∀ kvs' k v r, listDocKvs kvs' = true → v.listDoc = true → listDocKvs r = true →
    (∀ v', v'.listDoc = true → mN v v') → mK kvs' r → mK kvs' ((k, v) :: r))
  (el_nil : ∀ ys, mE ys [])
  (el_nil' : ∀ x xs, mE [] (x :: xs))
  (el_cons : ∀ x xs y ys, x.listDoc = true → listDocList xs = true → y.listDoc = true →
    listDocList ys = true → mN x (V1.dispatch m y) → mE ys xs → mE (y :: ys) (x :: xs))
include hm arr_arr arr_other obj_obj obj_other scalar kvs_nil kvs_cons el_nil el_nil' el_cons

mutual
theorem ind_node : ∀ (a b : Json), a.listDoc = true → b.listDoc = true → mN a b
  | .void, b, _, hb => scalar _ b (fun _ _ h => by cases h) (fun _ h => by cases h) hb
  | .null, b, _, hb => scalar _ b (fun _ _ h => by cases h) (fun _ h => by cases h) hb
  | .bool _, b, _, hb => scalar _ b (fun _ _ h => by cases h) (fun _ h => by cases h) hb
  | .num _, b, _, hb => scalar _ b (fun _ _ h => by cases h) (fun _ h => by cases h) hb
  | .str _, b, _, hb => scalar _ b (fun _ _ h => by cases h) (fun _ h => by cases h) hb
  | .arr t xs, b, ha, hb => by
    simp only [Json.listDoc, Bool.and_eq_true] at ha
    cases b with
    | arr t' ys =>
      have hb' := hb
      simp only [Json.listDoc, Bool.and_eq_true] at hb'
      by_cases htt : t = .raw ∨ t' = .list
      · exact arr_arr t t' xs ys ha.1 hb'.1 htt ha.2 hb'.2 (ind_elems xs ys ha.2 hb'.2)
      · refine arr_other t xs _ ha.1 ha.2 hb (.inr ?_)
        have h1 := ha.1; have h2 := hb'.1
        cases t <;> cases t' <;> simp_all [okTag]
    | _ => exact arr_other t xs _ ha.1 ha.2 hb (.inl (fun _ _ h => by cases h))
  | .obj kvs, b, ha, hb => by
    simp only [Json.listDoc] at ha
    cases b with
    | obj kvs' =>
      exact obj_obj kvs kvs' ha (by simpa [Json.listDoc] using hb)
        (ind_kvs kvs kvs' ha (by simpa [Json.listDoc] using hb))
    | _ => exact obj_other kvs _ ha hb (fun _ h => by cases h)
theorem ind_elems : ∀ (xs ys : List Json), listDocList xs = true → listDocList ys = true → mE ys xs
  | [], ys, _, _ => el_nil ys
  | x :: xs, [], _, _ => el_nil' x xs
  | x :: xs, y :: ys, ha, hb => by
    simp only [listDocList, Bool.and_eq_true] at ha hb
    exact el_cons x xs y ys ha.1 ha.2 hb.1 hb.2
      (ind_node x (V1.dispatch m y) ha.1 (dispatch_listDoc hm hb.1)) (ind_elems xs ys ha.2 hb.2)
theorem ind_kvs : ∀ (kvs kvs' : List (String × Json)), listDocKvs kvs = true →
    listDocKvs kvs' = true → mK kvs' kvs
  | [], kvs', _, _ => kvs_nil kvs'
  | (k, v) :: r, kvs', ha, hb => by
    simp only [listDocKvs, Bool.and_eq_true] at ha
    exact kvs_cons kvs' k v r hb ha.1 ha.2 (fun v' hv' => ind_node v v' ha.1 hv')
      (ind_kvs r kvs' ha.2 hb)
end

theorem v1_induct :
    (∀ a b, a.listDoc = true → b.listDoc = true → mN a b) ∧
    (∀ kvs' kvs, listDocKvs kvs' = true → listDocKvs kvs = true → mK kvs' kvs) ∧
    (∀ ys xs, listDocList ys = true → listDocList xs = true → mE ys xs) :=
  ⟨ind_node m hm mN mK mE arr_arr arr_other obj_obj obj_other scalar kvs_nil kvs_cons el_nil el_nil'
      el_cons,
   fun kvs' kvs h' h => ind_kvs m hm mN mK mE arr_arr arr_other obj_obj obj_other scalar kvs_nil
      kvs_cons el_nil el_nil' el_cons kvs kvs' h h',
   fun ys xs h' h => ind_elems m hm mN mK mE arr_arr arr_other obj_obj obj_other scalar kvs_nil
      kvs_cons el_nil el_nil' el_cons xs ys h h'⟩

end Induct

/-! ## 3. the path argument of the diff is only a prefix; shape of the hunks -/

theorem shift_shift (p q : List Json) (h : V1.Hunk) : shift p (shift q h) = shift (p ++ q) h := by
  simp [shift]

theorem diffCommon_shift (m : V1.Metas) (p q : List Json) (a b : Json) :
    V1.diffCommon m false a b (p ++ q) = (V1.diffCommon m false a b q).map (shift p) := by
  unfold V1.diffCommon
  split <;> simp [shift]

theorem listDiff_shift (m : V1.Metas) (p q : List Json) (xs ys : List Json)
    (h : ∀ i, V1.diffElems m false (p ++ q) i ys xs =
      (V1.diffElems m false q i ys xs).map (List.map (shift p))) :
    listDiff m (p ++ q) xs ys = (listDiff m q xs ys).map (shift p) := by
  unfold listDiff
  rw [h 0]
  split
  · simp [List.map_flatten, shift, Function.comp_def]
  · simp [List.map_flatten, List.map_reverse, shift, Function.comp_def]

theorem diff_shift (m : V1.Metas) (hm : ListMode m) :
    (∀ a b, a.listDoc = true → b.listDoc = true → ∀ p q,
      V1.diffNode m false a b (p ++ q) = (V1.diffNode m false a b q).map (shift p)) ∧
    (∀ kvs' kvs, listDocKvs kvs' = true → listDocKvs kvs = true → ∀ p q,
      V1.diffKvs m false (p ++ q) kvs' kvs = (V1.diffKvs m false q kvs' kvs).map (shift p)) ∧
    (∀ ys xs, listDocList ys = true → listDocList xs = true → ∀ i p q,
      V1.diffElems m false (p ++ q) i ys xs =
        (V1.diffElems m false q i ys xs).map (List.map (shift p))) := by
  apply v1_induct m hm
    (mN := fun a b => ∀ p q,
      V1.diffNode m false a b (p ++ q) = (V1.diffNode m false a b q).map (shift p))
    (mK := fun kvs' kvs => ∀ p q,
      V1.diffKvs m false (p ++ q) kvs' kvs = (V1.diffKvs m false q kvs' kvs).map (shift p))
    (mE := fun ys xs => ∀ i p q,
      V1.diffElems m false (p ++ q) i ys xs =
        (V1.diffElems m false q i ys xs).map (List.map (shift p)))
  · intro t t' xs ys ht ht' htt _ _ ih p q
    rw [diffNode_arr_arr hm xs ys ht ht' htt, diffNode_arr_arr hm xs ys ht ht' htt]
    exact listDiff_shift m p q xs ys (fun i => ih i p q)
  · intro t xs b ht _ _ hb p q
    rw [diffNode_arr_other hm xs b ht hb, diffNode_arr_other hm xs b ht hb]
    simp [shift]
  · intro kvs kvs' _ _ ih p q
    rw [diffNode_obj_obj, diffNode_obj_obj, ih]
    simp [shift, List.map_map, Function.comp_def]
  · intro kvs b _ _ hb p q
    rw [diffNode_obj_other m kvs b hb, diffNode_obj_other m kvs b hb]
    simp [shift]
  · intro a b h1 h2 _ p q
    rw [diffNode_scalar m a b h1 h2, diffNode_scalar m a b h1 h2, diffCommon_shift]
  · intro kvs' p q
    simp [diffKvs_nil]
  · intro kvs' k v r hl' _ _ ihN ihK p q
    rw [diffKvs_cons, diffKvs_cons, ihK, List.map_append]
    congr 1
    cases hlk : alookup k kvs' with
    | none => simp [shift]
    | some v' =>
      simp only []
      rw [List.append_assoc, ihN v' (alookup_listDoc hlk hl')]
  · intro ys i p q
    simp [diffElems_nil]
  · intro x xs i p q
    simp [diffElems_nil']
  · intro x xs y ys _ _ _ _ ihN ihE i p q
    rw [diffElems_cons, diffElems_cons, List.append_assoc, ihN, ihE]
    simp

/-- the diff computed under a path element is the diff computed at the root, moved -/
theorem diffNode_at {m : V1.Metas} (hm : ListMode m) (a b : Json) (ha : a.listDoc = true)
    (hb : b.listDoc = true) (e : Json) :
    V1.diffNode m false a b ([] ++ [e]) = (V1.diffNode m false a b []).map (shift [e]) := by
  have := (diff_shift m hm).1 a b ha hb [e] []
  simpa using this

/-- a path made of object keys and list indices -/
def plain : List Json → Bool
  | [] => true
  | .str _ :: r => plain r
  | .num _ :: r => plain r
  | _ => false

/-- a hunk the strict patch code accepts: plain path, at most one old and one new value -/
structure HOK (h : V1.Hunk) : Prop where
  plain : plain h.path = true
  old : h.old.length ≤ 1
  new : h.new.length ≤ 1

/-- a hunk that can be moved below a list index: it addresses something inside the element, or
    it replaces the element as a whole by another value -/
def FOK (h : V1.Hunk) : Prop :=
  h.path ≠ [] ∨ ∃ o n, h.old = [o] ∧ h.new = [n] ∧ o.isVoid = false ∧ n.isVoid = false

theorem nodeList_length (x : Json) : x.nodeList.length ≤ 1 := by
  unfold Json.nodeList; split <;> simp

theorem nodeList_of_notVoid {x : Json} (h : x.isVoid = false) : x.nodeList = [x] := by
  simp [Json.nodeList, h]

theorem HOK.shift_str {h : V1.Hunk} (hh : HOK h) (k : String) : HOK (shift [.str k] h) :=
  ⟨by simpa [shift, V1P.plain] using hh.plain, hh.old, hh.new⟩

theorem HOK.shift_num {h : V1.Hunk} (hh : HOK h) (b : UInt64) : HOK (shift [.num b] h) :=
  ⟨by simpa [shift, V1P.plain] using hh.plain, hh.old, hh.new⟩

theorem shift_path_ne_nil (e : Json) (h : V1.Hunk) : (shift [e] h).path ≠ [] := by
  simp [shift]

theorem diff_hunks (m : V1.Metas) (hm : ListMode m) :
    (∀ a b, a.listDoc = true → b.listDoc = true → ∀ h ∈ V1.diffNode m false a b [],
      HOK h ∧ (a.isVoid = false → b.isVoid = false → FOK h)) ∧
    (∀ kvs' kvs, listDocKvs kvs' = true → listDocKvs kvs = true →
      ∀ h ∈ V1.diffKvs m false [] kvs' kvs, HOK h ∧ h.path ≠ []) ∧
    (∀ ys xs, listDocList ys = true → listDocList xs = true → ∀ i,
      ∀ d ∈ V1.diffElems m false [] i ys xs, ∀ h ∈ d, HOK h ∧ h.path ≠ []) := by
  apply v1_induct m hm
    (mN := fun a b => ∀ h ∈ V1.diffNode m false a b [],
      HOK h ∧ (a.isVoid = false → b.isVoid = false → FOK h))
    (mK := fun kvs' kvs => ∀ h ∈ V1.diffKvs m false [] kvs' kvs, HOK h ∧ h.path ≠ [])
    (mE := fun ys xs => ∀ i, ∀ d ∈ V1.diffElems m false [] i ys xs, ∀ h ∈ d, HOK h ∧ h.path ≠ [])
  · intro t t' xs ys ht ht' htt _ _ ih h hmem
    rw [diffNode_arr_arr hm xs ys ht ht' htt] at hmem
    have key : HOK h ∧ h.path ≠ [] := by
      unfold listDiff at hmem
      split at hmem
      · rcases List.mem_append.1 hmem with hmem | hmem
        · obtain ⟨d, hd, hh⟩ := List.mem_flatten.1 hmem
          exact ih 0 d hd h hh
        · obtain ⟨y, _, rfl⟩ := List.mem_map.1 hmem
          exact ⟨⟨by simp [plain, V1.numNeg1], by simp, nodeList_length y⟩, by simp⟩
      · rcases List.mem_append.1 hmem with hmem | hmem
        · obtain ⟨xi, _, rfl⟩ := List.mem_map.1 hmem
          exact ⟨⟨by simp [plain, V1.numOfNat], nodeList_length _, by simp⟩, by simp⟩
        · obtain ⟨d, hd, hh⟩ := List.mem_flatten.1 hmem
          exact ih 0 d (List.mem_reverse.1 hd) h hh
    exact ⟨key.1, fun _ _ => .inl key.2⟩
  · intro t xs b ht _ _ hb h hmem
    rw [diffNode_arr_other hm xs b ht hb] at hmem
    simp only [List.mem_singleton] at hmem
    subst hmem
    refine ⟨⟨rfl, by simp, nodeList_length b⟩, fun _ hbv => .inr ⟨.arr .list xs, b, rfl, ?_, rfl, hbv⟩⟩
    exact nodeList_of_notVoid hbv
  · intro kvs kvs' _ _ ih h hmem
    rw [diffNode_obj_obj] at hmem
    have key : HOK h ∧ h.path ≠ [] := by
      rcases List.mem_append.1 hmem with hmem | hmem
      · exact ih h hmem
      · obtain ⟨kv, _, rfl⟩ := List.mem_map.1 hmem
        exact ⟨⟨by simp [plain], by simp, nodeList_length _⟩, by simp⟩
    exact ⟨key.1, fun _ _ => .inl key.2⟩
  · intro kvs b _ _ hb h hmem
    rw [diffNode_obj_other m kvs b hb] at hmem
    simp only [List.mem_singleton] at hmem
    subst hmem
    exact ⟨⟨rfl, by simp, by simp⟩, fun _ hbv => .inr ⟨.obj kvs, b, rfl, rfl, rfl, hbv⟩⟩
  · intro a b h1 h2 _ h hmem
    rw [diffNode_scalar m a b h1 h2] at hmem
    unfold V1.diffCommon at hmem
    split at hmem
    · cases hmem
    · simp only [Bool.false_eq_true, if_false, List.mem_singleton] at hmem
      subst hmem
      exact ⟨⟨rfl, nodeList_length a, nodeList_length b⟩, fun hav hbv =>
        .inr ⟨a, b, nodeList_of_notVoid hav, nodeList_of_notVoid hbv, hav, hbv⟩⟩
  · intro kvs' h hmem
    simp [diffKvs_nil] at hmem
  · intro kvs' k v r hl' hv _ ihN ihK h hmem
    rw [diffKvs_cons] at hmem
    rcases List.mem_append.1 hmem with hmem | hmem
    · cases hlk : alookup k kvs' with
      | none =>
        rw [hlk] at hmem
        simp only [List.mem_singleton] at hmem
        subst hmem
        exact ⟨⟨by simp [plain], nodeList_length v, by simp⟩, by simp⟩
      | some v' =>
        rw [hlk] at hmem
        simp only [] at hmem
        rw [diffNode_at hm v v' hv (alookup_listDoc hlk hl')] at hmem
        obtain ⟨h0, hh0, rfl⟩ := List.mem_map.1 hmem
        exact ⟨(ihN v' (alookup_listDoc hlk hl') h0 hh0).1.shift_str k, shift_path_ne_nil _ _⟩
    · exact ihK h hmem
  · intro ys i d hd
    simp [diffElems_nil] at hd
  · intro x xs i d hd
    simp [diffElems_nil'] at hd
  · intro x xs y ys hx _ hy _ ihN ihE i d hd h hh
    rw [diffElems_cons] at hd
    rcases List.mem_cons.1 hd with rfl | hd
    · rw [diffNode_at hm x _ hx (dispatch_listDoc hm hy)] at hh
      obtain ⟨h0, hh0, rfl⟩ := List.mem_map.1 hh
      exact ⟨(ihN h0 hh0).1.shift_num _, shift_path_ne_nil _ _⟩
    · exact ihE (i + 1) d hd h hh

/-! ## 4. one hunk of the v1 patch code on a plain path (strict strategy) -/

/-- apply one hunk, strict strategy -/
def ap (n : Json) (h : V1.Hunk) : Outcome Json :=
  V1.patchNode false n (V1.liftPath h.path) h.old h.new

theorem pathIsMerge_plain : ∀ {p : List Json}, plain p = true →
    V1.pathIsMerge (V1.liftPath p) = false
  | [], _ => rfl
  | .str _ :: _, _ => rfl
  | .num _ :: _, _ => rfl
  | .void :: _, h => by simp [plain] at h
  | .null :: _, h => by simp [plain] at h
  | .bool _ :: _, h => by simp [plain] at h
  | .arr _ _ :: _, h => by simp [plain] at h
  | .obj _ :: _, h => by simp [plain] at h

theorem patchAll_nil (n : Json) : V1.patchAll n [] = .ok n := rfl

theorem patchAll_cons (n : Json) (h : V1.Hunk) (d : V1.VDiff) (hh : HOK h) :
    V1.patchAll n (h :: d) = (ap n h >>= fun n' => V1.patchAll n' d) := by
  simp only [V1.patchAll, V1.liftDiff, List.map_cons, V1.patchAllP, V1.Hunk.toP,
    pathIsMerge_plain hh.plain, ap]
  cases V1.patchNode false n (V1.liftPath h.path) h.old h.new <;> rfl

theorem patchAll_append (n : Json) (d1 d2 : V1.VDiff) :
    V1.patchAll n (d1 ++ d2) = (V1.patchAll n d1 >>= fun n' => V1.patchAll n' d2) := by
  induction d1 generalizing n with
  | nil => rfl
  | cons h d ih =>
    simp only [V1.patchAll, V1.liftDiff, List.map_cons, List.cons_append, V1.patchAllP] at ih ⊢
    cases V1.patchNode (V1.pathIsMerge h.toP.path) n h.toP.path h.toP.old h.toP.new with
    | ok n' => exact ih n'
    | err => rfl
    | panic => rfl

theorem patchObjChild_eq (merge : Bool) (k : String) (rest : V1.PPath) (old new : List Json) :
    ∀ (kvs : List (String × Json)) (v : Json), alookup k kvs = some v →
      V1.patchObjChild merge kvs k rest old new = V1.patchNode merge v rest old new
  | [], _, h => by simp [alookup] at h
  | (k', v') :: r, v, h => by
    rw [V1.patchObjChild.eq_def]
    simp only [alookup] at h
    simp only
    split
    · rename_i hk; rw [if_pos hk] at h; cases h; rfl
    · rename_i hk; rw [if_neg hk] at h
      exact patchObjChild_eq merge k rest old new r v h

theorem patchListChild_eq (rest : V1.PPath) (old new : List Json) :
    ∀ (xs : List Json) (i : Nat) (x : Json), xs[i]? = some x →
      V1.patchListChild i rest old new xs = V1.patchNode false x rest old new
  | [], _, _, h => by simp at h
  | y :: r, 0, x, h => by
    rw [V1.patchListChild.eq_def]; simp at h; subst h; rfl
  | y :: r, i + 1, x, h => by
    rw [V1.patchListChild.eq_def]
    simp only [List.getElem?_cons_succ] at h
    exact patchListChild_eq rest old new r i x h

theorem patchNode_void (pa : V1.PPath) (old new : List Json) :
    V1.patchNode false .void pa old new = V1.patchCommon false .void pa old new := by
  rw [V1.patchNode.eq_def]

theorem v1_effTag_nil {t : Tag} (ht : okTag t) : V1.effTag [] t = .list := effTag_ok ListMode.nil ht

theorem v1_equals_arr_tag {t : Tag} (ht : okTag t) (xs : List Json) (o : Json) :
    V1.equals [] (.arr .list xs) o = V1.equals [] (.arr t xs) o := by
  rw [v1_equals_arr ListMode.nil (t := .list) rfl, v1_equals_arr ListMode.nil ht]

/-- a hunk addressed to the node itself: the old value is checked, the new value is the result -/
theorem patchNode_root (n : Json) (old new : List Json) (hn : n.listDoc = true)
    (h1 : old.length ≤ 1) (h2 : new.length ≤ 1) :
    V1.patchNode false n [] old new =
      if V1.equals [] n (Json.singleValue old) then .ok (Json.singleValue new) else .err := by
  have e : (decide (old.length > 1) || decide (new.length > 1)) = false := by
    simp only [Bool.or_eq_false_iff, decide_eq_false_iff_not]; omega
  cases n with
  | arr t xs =>
    simp only [Json.listDoc, Bool.and_eq_true] at hn
    rw [V1.patchNode.eq_def]
    simp only [V1.pathNext, V1.pathNextAux, v1_effTag_nil hn.1, e, Bool.false_eq_true, if_false,
      List.isEmpty_nil, if_true, v1_equals_arr_tag hn.1]
  | obj kvs =>
    rw [V1.patchNode.eq_def]
    simp [e, V1.pathIsLeaf]
  | _ =>
    rw [V1.patchNode.eq_def]
    simp only []
    rw [V1.patchCommon.eq_def]
    simp [e, V1.pathIsLeaf]

/-- a hunk below an object key: applied to the member (void when absent), the member is updated -/
theorem ap_key (kvs : List (String × Json)) (k : String) (h : V1.Hunk) :
    ap (.obj kvs) (shift [.str k] h) =
      (ap ((alookup k kvs).getD .void) h >>= fun v => .ok (.obj (aput k v kvs))) := by
  unfold ap
  simp only [shift, List.cons_append, List.nil_append, V1.liftPath, List.map_cons]
  rw [V1.patchNode.eq_def]
  simp only [List.isEmpty_cons, Bool.false_and, Bool.false_eq_true, if_false, V1.pathIsLeaf,
    V1.pathNext, V1.pathNextAux, V1.asKey]
  cases hl : alookup k kvs with
  | some c =>
    simp only [Option.getD_some]
    rw [patchObjChild_eq false k _ _ _ kvs c hl]
    cases V1.patchNode false c (List.map V1.PElem.node h.path) h.old h.new with
    | ok v => simp only [Outcome.bind_ok, aput]; split <;> rfl
    | err => rfl
    | panic => rfl
  | none =>
    simp only [Option.getD_none, patchNode_void, V1.patchMissing, Bool.false_and,
      Bool.false_eq_true, if_false]
    cases V1.patchCommon false .void (List.map V1.PElem.node h.path) h.old h.new with
    | ok v => simp only [Outcome.bind_ok, aput]; split <;> rfl
    | err => rfl
    | panic => rfl

/-- the list case of `patchNode` on a path starting with a number, strict strategy -/
theorem patchNode_list {t : Tag} (ht : okTag t) (xs : List Json) (bits : UInt64) (rest : V1.PPath)
    (old new : List Json) (h1 : old.length ≤ 1) (h2 : new.length ≤ 1) (i : Int)
    (hi : (if V1.floatToInt bits == -1 then (xs.length : Int) else V1.floatToInt bits) = i) :
    V1.patchNode false (.arr t xs) (.node (.num bits) :: rest) old new =
      (let oldV := Json.singleValue old
       let newV := Json.singleValue new
       let len : Int := xs.length
       if newV.isVoid then
         if i < 0 then .panic
         else do
           let r ← (if len > i then V1.patchListChild i.toNat rest old new xs
                    else V1.patchCommon false .void rest old new)
           if i ≥ len then .err
           else if rest.isEmpty then pure (.arr .list (xs.eraseIdx i.toNat))
           else pure (.arr .list (xs.set i.toNat r))
       else if oldV.isVoid then
         if len > i && !rest.isEmpty && i < 0 then .panic
         else do
           let r ← (if len > i && !rest.isEmpty then V1.patchListChild i.toNat rest old new xs
                    else V1.patchCommon false .void rest old new)
           if i < 0 || i > len then .err
           else if i == len then pure (.arr .list (xs ++ [r]))
           else if rest.isEmpty then pure (.arr .list (xs.take i.toNat ++ r :: xs.drop i.toNat))
           else pure (.arr .list (xs.set i.toNat r))
       else
         if i < 0 then .panic
         else do
           let r ← (if len > i then V1.patchListChild i.toNat rest old new xs
                    else V1.patchCommon false .void rest old new)
           let l ← setAtP xs i r
           pure (.arr .list l)) := by
  have e : (decide (old.length > 1) || decide (new.length > 1)) = false := by
    simp only [Bool.or_eq_false_iff, decide_eq_false_iff_not]; omega
  rw [V1.patchNode.eq_def]
  simp only [V1.pathNext, V1.pathNextAux, v1_effTag_nil ht, e, Bool.false_eq_true, if_false,
    List.isEmpty_cons, V1.asIndexBits, hi]

theorem natCast_beq_neg1 (k : Nat) : ((k : Int) == -1) = false := by
  simp only [beq_eq_false_iff_ne, ne_eq]; omega

theorem lt_of_getElem? {α} {l : List α} {k : Nat} {x : α} (hx : l[k]? = some x) : k < l.length := by
  rcases Nat.lt_or_ge k l.length with h | h
  · exact h
  · rw [List.getElem?_eq_none h] at hx; cases hx

/-- a hunk below a list index: applied to the element, which is replaced by the result -/
theorem ap_idx {t : Tag} (ht : okTag t) (xs : List Json) (bits : UInt64) (k : Nat) (x : Json)
    (h : V1.Hunk) (hh : HOK h) (hf : FOK h) (hx : xs[k]? = some x)
    (hb : V1.floatToInt bits = (k : Int)) :
    ap (.arr t xs) (shift [.num bits] h) =
      (ap x h >>= fun r => .ok (.arr .list (xs.set k r))) := by
  have hk := lt_of_getElem? hx
  unfold ap
  simp only [shift, List.cons_append, List.nil_append, V1.liftPath, List.map_cons]
  rw [patchNode_list ht xs bits _ _ _ hh.old hh.new k (by rw [hb, natCast_beq_neg1]; rfl)]
  have h1 : ((xs.length : Int) > (k : Int)) := by omega
  have h2 : ¬ ((k : Int) < 0) := by omega
  have h3 : ¬ ((k : Int) ≥ (xs.length : Int)) := by omega
  have h4 : ¬ ((k : Int) > (xs.length : Int)) := by omega
  have h5 : ((k : Int) == (xs.length : Int)) = false := by
    simp only [beq_eq_false_iff_ne, ne_eq]; omega
  have hset : ∀ r, setAtP xs (k : Int) r = .ok (xs.set k r) := by
    intro r
    simp only [setAtP, Int.toNat_natCast]
    rw [if_neg]
    simp only [Bool.or_eq_true, decide_eq_true_eq, not_or]
    omega
  simp only [h1, h2, h3, h4, h5, if_true, if_false, Int.toNat_natCast, patchListChild_eq _ _ _ xs k x hx,
    decide_true, decide_false, Bool.true_and, Bool.and_false, Bool.false_eq_true, Bool.or_self, hset]
  rcases hf with hp | ⟨o, n, ho, hn, hov, hnv⟩
  · have hne : (List.map V1.PElem.node h.path).isEmpty = false := by
      cases hq : h.path with
      | nil => exact absurd hq hp
      | cons _ _ => rfl
    simp only [hne, Bool.false_eq_true, if_false, Bool.not_false, if_true]
    cases V1.patchNode false x (List.map V1.PElem.node h.path) h.old h.new <;>
      (split <;> try split) <;> rfl
  · simp only [ho, hn, Json.singleValue, hov, hnv, Bool.false_eq_true, if_false]
    cases V1.patchNode false x (List.map V1.PElem.node h.path) [o] [n] <;> rfl

/-- the deletion hunk of the positional list diff: the removed element is checked -/
theorem ap_delete {t : Tag} (ht : okTag t) (xs : List Json) (bits : UInt64) (k : Nat) (x o : Json)
    (hx : xs[k]? = some x) (hl : x.listDoc = true) (hb : V1.floatToInt bits = (k : Int)) :
    ap (.arr t xs) { path := [.num bits], old := [o], new := [] } =
      if V1.equals [] x o then .ok (.arr .list (xs.eraseIdx k)) else .err := by
  have hk := lt_of_getElem? hx
  unfold ap
  simp only [V1.liftPath, List.map_cons, List.map_nil]
  rw [patchNode_list ht xs bits _ _ _ (by simp) (by simp) k (by rw [hb, natCast_beq_neg1]; rfl)]
  have h1 : ((xs.length : Int) > (k : Int)) := by omega
  have h2 : ¬ ((k : Int) < 0) := by omega
  have h3 : ¬ ((k : Int) ≥ (xs.length : Int)) := by omega
  have e1 : (Json.singleValue ([] : List Json)).isVoid = true := rfl
  simp only [e1, if_true, h1, h2, h3, if_false, Int.toNat_natCast,
    patchListChild_eq _ _ _ xs k x hx, List.isEmpty_nil]
  rw [patchNode_root x [o] [] hl (by simp) (by simp)]
  by_cases hc : V1.equals [] x o = true
  · rw [if_pos hc, if_pos (show V1.equals [] x (Json.singleValue [o]) = true from hc)]; rfl
  · rw [if_neg hc, if_neg (show ¬ V1.equals [] x (Json.singleValue [o]) = true from hc)]; rfl

/-- the append hunk of the positional list diff (index -1) -/
theorem ap_append {t : Tag} (ht : okTag t) (xs : List Json) (bits : UInt64) (y : Json)
    (hy : y.isVoid = false) (hb : V1.floatToInt bits = -1) :
    ap (.arr t xs) { path := [.num bits], old := [], new := [y] } = .ok (.arr .list (xs ++ [y])) := by
  unfold ap
  simp only [V1.liftPath, List.map_cons, List.map_nil]
  rw [patchNode_list ht xs bits _ _ _ (by simp) (by simp) (xs.length : Int) (by rw [hb]; rfl)]
  have h1 : ¬ ((xs.length : Int) > (xs.length : Int)) := by omega
  have h2 : ¬ ((xs.length : Int) < 0) := by omega
  have hv : Json.isVoid .void = true := rfl
  simp only [Json.singleValue, hy, Bool.false_eq_true, if_false, hv, if_true, h1, h2,
    decide_false, Bool.false_and, Bool.or_self, beq_self_eq_true]
  rw [← patchNode_void, patchNode_root .void [] [y] rfl (by simp) (by simp)]
  simp [Json.singleValue, V1.equals, Json.isVoid]
  rfl

/-! ## 5. frame lemmas: a sequence of hunks below an object key / a list index -/

theorem patchAll_key_frame (D : V1.VDiff) (hD : ∀ h ∈ D, HOK h) (k : String) :
    ∀ (cur : List (String × Json)) (x : Json), keysSorted cur = true →
      alookup k cur = (if x.isVoid then none else some x) →
      ∀ r, V1.patchAll x D = .ok r →
      ∃ cur', V1.patchAll (.obj cur) (D.map (shift [.str k])) = .ok (.obj cur') ∧
        keysSorted cur' = true ∧ (∀ k0, k0 ≠ k → alookup k0 cur' = alookup k0 cur) ∧
        alookup k cur' = (if r.isVoid then none else some r) := by
  induction D with
  | nil =>
    intro cur x hs hx r hr
    simp only [patchAll_nil, Outcome.ok.injEq] at hr
    subst hr
    exact ⟨cur, rfl, hs, fun _ _ => rfl, hx⟩
  | cons h D ih =>
    intro cur x hs hx r hr
    have hh := hD h List.mem_cons_self
    rw [patchAll_cons _ _ _ hh] at hr
    have hget : (alookup k cur).getD .void = x := by
      rw [hx]; split
      · next hv => cases x <;> simp_all [Json.isVoid]
      · rfl
    cases hv : ap x h with
    | err => rw [hv] at hr; cases hr
    | panic => rw [hv] at hr; cases hr
    | ok v =>
      rw [hv] at hr
      simp only [Outcome.bind_ok] at hr
      have hs1 := keysSorted_aput k v cur hs
      have hx1 : alookup k (aput k v cur) = (if v.isVoid then none else some v) := by
        unfold aput; split
        · exact alookup_aerase_self k cur hs
        · rw [alookup_ainsert, if_pos rfl]
      obtain ⟨cur', h1, h2, h3, h4⟩ :=
        ih (fun h' hm => hD h' (List.mem_cons_of_mem _ hm)) (aput k v cur) v hs1 hx1 r hr
      refine ⟨cur', ?_, h2, fun k0 hne => by rw [h3 k0 hne, alookup_aput_ne hne], h4⟩
      rw [List.map_cons, patchAll_cons _ _ _ (hh.shift_str k), ap_key, hget, hv]
      simp only [Outcome.bind_ok]
      exact h1

theorem patchAll_idx_frame (D : V1.VDiff) (hD : ∀ h ∈ D, HOK h ∧ FOK h) (bits : UInt64) (k : Nat)
    (hb : V1.floatToInt bits = (k : Int)) :
    ∀ (t : Tag) (l : List Json) (x : Json), okTag t → l[k]? = some x →
      ∀ r, V1.patchAll x D = .ok r →
      ∃ t', okTag t' ∧
        V1.patchAll (.arr t l) (D.map (shift [.num bits])) = .ok (.arr t' (l.set k r)) := by
  induction D with
  | nil =>
    intro t l x ht hx r hr
    simp only [patchAll_nil, Outcome.ok.injEq] at hr
    subst hr
    refine ⟨t, ht, ?_⟩
    have hk := lt_of_getElem? hx
    rw [List.getElem?_eq_getElem hk] at hx
    cases hx
    simp [patchAll_nil, List.set_getElem_self]
  | cons h D ih =>
    intro t l x ht hx r hr
    have hh := hD h List.mem_cons_self
    rw [patchAll_cons _ _ _ hh.1] at hr
    cases hv : ap x h with
    | err => rw [hv] at hr; cases hr
    | panic => rw [hv] at hr; cases hr
    | ok v =>
      rw [hv] at hr
      simp only [Outcome.bind_ok] at hr
      have hk := lt_of_getElem? hx
      obtain ⟨t', ht', h'⟩ := ih (fun h' hm => hD h' (List.mem_cons_of_mem _ hm)) .list (l.set k v) v
        rfl (List.getElem?_set_self hk) r hr
      refine ⟨t', ht', ?_⟩
      rw [List.map_cons, patchAll_cons _ _ _ (hh.1.shift_num bits), ap_idx ht l bits k x h hh.1 hh.2 hx hb,
        hv]
      simp only [Outcome.bind_ok]
      rw [h', List.set_set]

/-- a hunk at the root: replace the value -/
theorem patch_root (a : Json) (old new : List Json) (ha : a.listDoc = true) (h1 : old.length ≤ 1)
    (h2 : new.length ≤ 1) (h : V1.equals [] a (Json.singleValue old) = true) :
    V1.patchAll a [{ path := [], old := old, new := new }] = .ok (Json.singleValue new) := by
  rw [patchAll_cons _ _ _ ⟨rfl, h1, h2⟩]
  unfold ap
  simp only [V1.liftPath, List.map_nil]
  rw [patchNode_root a old new ha h1 h2, if_pos h]
  rfl

/-! ## 6. the domain -/

mutual
/-- no void inside the document: no void array element, no void object member (void stands for
    "absent"; a reader never produces one inside a document) -/
def vfree : Json → Bool
  | .arr _ xs => vfreeList xs
  | .obj kvs => vfreeKvs kvs
  | _ => true
def vfreeList : List Json → Bool
  | [] => true
  | x :: r => !x.isVoid && vfree x && vfreeList r
def vfreeKvs : List (String × Json) → Bool
  | [] => true
  | (_, v) :: r => !v.isVoid && vfree v && vfreeKvs r
end

mutual
/-- every array of the document has at most `N` elements -/
def lenLe (N : Nat) : Json → Bool
  | .arr _ xs => decide (xs.length ≤ N) && lenLeList N xs
  | .obj kvs => lenLeKvs N kvs
  | _ => true
def lenLeList (N : Nat) : List Json → Bool
  | [] => true
  | x :: r => lenLe N x && lenLeList N r
def lenLeKvs (N : Nat) : List (String × Json) → Bool
  | [] => true
  | (_, v) :: r => lenLe N v && lenLeKvs N r
end

/-- the laws of the float64 ↔ int conversions of list indices (`jsonNumber(i)` in the diff,
    `int(jn)` in the patch; `Float` is opaque to the kernel): exact below `N` (IEEE-754: true for
    `N = 2^53`), and for the append index -1 -/
structure IdxLaws (N : Nat) : Prop where
  nat : ∀ i : Nat, i < N → V1.floatToInt (Float.ofNat i).toBits = (i : Int)
  neg1 : V1.floatToInt (Float.ofInt (-1)).toBits = -1

mutual
theorem memOK_of_vfree : ∀ (a : Json), vfree a = true → memOK a = true
  | .arr _ xs, h => by simp only [vfree] at h; simp only [memOK]; exact memOKList_of_vfree xs h
  | .obj kvs, h => by simp only [vfree] at h; simp only [memOK]; exact memOKKvs_of_vfree kvs h
  | .void, _ => rfl
  | .null, _ => rfl
  | .bool _, _ => rfl
  | .num _, _ => rfl
  | .str _, _ => rfl
theorem memOKList_of_vfree : ∀ (xs : List Json), vfreeList xs = true → memOKList xs = true
  | [], _ => rfl
  | x :: r, h => by
    simp only [vfreeList, Bool.and_eq_true] at h
    simp [memOKList, memOK_of_vfree x h.1.2, memOKList_of_vfree r h.2]
theorem memOKKvs_of_vfree : ∀ (kvs : List (String × Json)), vfreeKvs kvs = true →
    memOKKvs kvs = true
  | [], _ => rfl
  | (_, v) :: r, h => by
    simp only [vfreeKvs, Bool.and_eq_true] at h
    simp only [memOKKvs, Bool.and_eq_true]
    exact ⟨⟨h.1.1, memOK_of_vfree v h.1.2⟩, memOKKvs_of_vfree r h.2⟩
end

/-- the documents of the theorems -/
structure Dom (x : Json) : Prop where
  good : Good x
  vf : vfree x = true

structure DomL (xs : List Json) : Prop where
  good : GoodL xs
  vf : vfreeList xs = true

structure DomK (kvs : List (String × Json)) : Prop where
  good : GoodK kvs
  vf : vfreeKvs kvs = true

theorem Dom.mk' {x : Json} (h1 : x.listDoc = true) (h2 : x.wf = true) (h3 : x.finiteNums = true)
    (h4 : vfree x = true) : Dom x :=
  ⟨⟨h1, h2, h3, memOK_of_vfree x h4⟩, h4⟩

theorem domL_cons {x : Json} {r : List Json} :
    DomL (x :: r) ↔ (Dom x ∧ x.isVoid = false) ∧ DomL r := by
  constructor
  · rintro ⟨hg, hv⟩
    simp only [vfreeList, Bool.and_eq_true, Bool.not_eq_true'] at hv
    have := goodL_cons.1 hg
    exact ⟨⟨⟨this.1, hv.1.2⟩, hv.1.1⟩, ⟨this.2, hv.2⟩⟩
  · rintro ⟨⟨⟨hg, hv⟩, hn⟩, ⟨hg', hv'⟩⟩
    exact ⟨goodL_cons.2 ⟨hg, hg'⟩, by simp [vfreeList, hn, hv, hv']⟩

theorem DomL.nil : DomL [] := ⟨GoodL.nil, rfl⟩

theorem dom_arr {t : Tag} {xs : List Json} : Dom (.arr t xs) ↔ okTag t ∧ DomL xs := by
  constructor
  · rintro ⟨hg, hv⟩
    have := good_arr.1 hg
    exact ⟨this.1, ⟨this.2, by simpa [vfree] using hv⟩⟩
  · rintro ⟨ht, ⟨hg, hv⟩⟩
    exact ⟨good_arr.2 ⟨ht, hg⟩, by simpa [vfree] using hv⟩

theorem dom_obj {kvs : List (String × Json)} :
    Dom (.obj kvs) ↔ keysSorted kvs = true ∧ DomK kvs := by
  constructor
  · rintro ⟨hg, hv⟩
    have := good_obj.1 hg
    exact ⟨this.1, ⟨this.2, by simpa [vfree] using hv⟩⟩
  · rintro ⟨hs, ⟨hg, hv⟩⟩
    exact ⟨good_obj.2 ⟨hs, hg⟩, by simpa [vfree] using hv⟩

theorem domK_cons {k : String} {v : Json} {r : List (String × Json)} :
    DomK ((k, v) :: r) ↔ (Dom v ∧ v.isVoid = false) ∧ DomK r := by
  constructor
  · rintro ⟨hg, hv⟩
    simp only [vfreeKvs, Bool.and_eq_true, Bool.not_eq_true'] at hv
    have := goodK_cons.1 hg
    exact ⟨⟨⟨this.1.1, hv.1.2⟩, hv.1.1⟩, ⟨this.2, hv.2⟩⟩
  · rintro ⟨⟨⟨hg, hv⟩, hn⟩, ⟨hg', hv'⟩⟩
    exact ⟨goodK_cons.2 ⟨⟨hg, hn⟩, hg'⟩, by simp [vfreeKvs, hn, hv, hv']⟩

theorem DomK.of_mem {kvs : List (String × Json)} (h : DomK kvs) {k : String} {v : Json}
    (hm : (k, v) ∈ kvs) : Dom v ∧ v.isVoid = false := by
  induction kvs with
  | nil => cases hm
  | cons kv r ih =>
    obtain ⟨k', v'⟩ := kv
    rw [domK_cons] at h
    rcases List.mem_cons.1 hm with e | hm
    · cases e; exact h.1
    · exact ih h.2 hm

theorem DomK.lookup {kvs : List (String × Json)} (h : DomK kvs) {k : String} {v : Json}
    (hl : alookup k kvs = some v) : Dom v ∧ v.isVoid = false :=
  h.of_mem (mem_of_alookup hl)

theorem DomL.append {xs ys : List Json} (h1 : DomL xs) (h2 : DomL ys) : DomL (xs ++ ys) := by
  induction xs with
  | nil => exact h2
  | cons x r ih =>
    rw [List.cons_append, domL_cons]
    rw [domL_cons] at h1
    exact ⟨h1.1, ih h1.2⟩

theorem domL_append {xs ys : List Json} : DomL (xs ++ ys) ↔ DomL xs ∧ DomL ys := by
  induction xs with
  | nil => exact ⟨fun h => ⟨DomL.nil, h⟩, fun h => h.2⟩
  | cons x r ih =>
    rw [List.cons_append, domL_cons, domL_cons, ih]
    exact ⟨fun h => ⟨⟨h.1, h.2.1⟩, h.2.2⟩, fun h => ⟨h.1.1, h.1.2, h.2⟩⟩

theorem DomL.drop {xs : List Json} (h : DomL xs) : ∀ n, DomL (xs.drop n) := by
  induction xs with
  | nil => intro n; simpa using h
  | cons x r ih =>
    intro n
    cases n with
    | zero => exact h
    | succ n => exact ih (domL_cons.1 h).2 n

theorem Dom.dispatch {m : V1.Metas} (hm : ListMode m) {y : Json} (h : Dom y) :
    Dom (V1.dispatch m y) := by
  cases y with
  | arr t ys =>
    rw [dom_arr] at h
    cases t <;> simp only [V1.dispatch, hm.tag] <;> first | exact dom_arr.2 ⟨rfl, h.2⟩ | exact dom_arr.2 h
  | _ => exact h

theorem dispatch_isVoid (m : V1.Metas) (y : Json) : (V1.dispatch m y).isVoid = y.isVoid := by
  cases y with
  | arr t ys => cases t <;> rfl
  | _ => rfl

/-- `dispatch` only changes the Go dynamic type of the array node -/
theorem rel_dispatch (L : FloatLaws) {m : V1.Metas} (hm : ListMode m) {y : Json} (h : Dom y) :
    Rel (V1.dispatch m y) y := by
  cases y with
  | arr t ys =>
    have hl := (good_arr.1 h.good).2
    cases t <;> simp only [V1.dispatch, hm.tag] <;> exact Rel.arr (RelL.refl L hl) _ _
  | _ => exact Rel.refl L h.good

theorem rel_trans_untag {r y' y : Json} (h1 : Rel r y') (h2 : untag y' = untag y) : Rel r y := by
  constructor
  · have := h1.1
    rw [← specEq_untag_right] at this ⊢
    rwa [← h2]
  · have := h1.2
    rw [← specEq_untag_left] at this ⊢
    rwa [← h2]

theorem untag_dispatch (m : V1.Metas) (y : Json) : untag (V1.dispatch m y) = untag y := by
  cases y with
  | arr t ys => cases t <;> simp [V1.dispatch, untag]
  | _ => rfl

theorem v1_equals_self (L : FloatLaws) {x : Json} (h : Dom x) : V1.equals [] x x = true :=
  v1_equals_refl L ListMode.nil x h.good.listDoc h.good.wf h.good.fin

/-! ## 7. the loops of the diff that do not recurse: appends, deletions, added members -/

theorem relL_append {zs ys zs' ys' : List Json} (h1 : RelL zs ys) (h2 : RelL zs' ys') :
    RelL (zs ++ zs') (ys ++ ys') := by
  induction h1 with
  | nil => exact h2
  | cons h _ ih => exact .cons h ih

/-- the hunk appending an element (index -1) -/
def appHunk (y : Json) : V1.Hunk := { path := [] ++ [V1.numNeg1], old := [], new := y.nodeList }

/-- the hunk deleting an element: the element is the old value -/
def delHunk (xi : Json × Nat) : V1.Hunk :=
  { path := [] ++ [V1.numOfNat xi.2], old := xi.1.nodeList, new := [] }

/-- the hunk adding a member -/
def addHunk (kv : String × Json) : V1.Hunk :=
  { path := [] ++ [.str kv.1], old := [], new := kv.2.nodeList }

theorem apply_appends {N : Nat} (I : IdxLaws N) :
    ∀ (ws l : List Json) (t : Tag), okTag t → (∀ w ∈ ws, w.isVoid = false) →
      ∃ t', okTag t' ∧ V1.patchAll (.arr t l) (ws.map appHunk) = .ok (.arr t' (l ++ ws))
  | [], l, t, ht, _ => ⟨t, ht, by simp [patchAll_nil]⟩
  | w :: ws, l, t, ht, hw => by
    have hwv := hw w List.mem_cons_self
    obtain ⟨t', ht', h⟩ := apply_appends I ws (l ++ [w]) .list rfl
      (fun w' hm => hw w' (List.mem_cons_of_mem _ hm))
    refine ⟨t', ht', ?_⟩
    rw [List.map_cons, patchAll_cons _ _ _ ⟨rfl, by simp [appHunk], by simp [appHunk, nodeList_length]⟩]
    have e : appHunk w = { path := [.num (Float.ofInt (-1)).toBits], old := [], new := [w] } := by
      simp [appHunk, V1.numNeg1, nodeList_of_notVoid hwv]
    rw [e, ap_append ht l _ w hwv I.neg1]
    simp only [Outcome.bind_ok]
    rw [h]
    simp

theorem apply_dels (L : FloatLaws) {N : Nat} (I : IdxLaws N) :
    ∀ (n : Nat) (ds keep : List Json) (t : Tag), ds.length = n → okTag t → DomL ds →
      keep.length + ds.length ≤ N →
      ∃ t', okTag t' ∧
        V1.patchAll (.arr t (keep ++ ds)) ((ds.zipIdx keep.length).reverse.map delHunk) =
          .ok (.arr t' keep)
  | 0, ds, keep, t, hn, ht, _, _ => by
    have : ds = [] := List.length_eq_zero_iff.1 hn
    subst this
    exact ⟨t, ht, by simp [patchAll_nil]⟩
  | n + 1, ds, keep, t, hn, ht, hd, hN => by
    rcases List.eq_nil_or_concat ds with rfl | ⟨ds', d, rfl⟩
    · simp at hn
    · rw [List.concat_eq_append] at hn hd hN ⊢
      simp only [List.length_append, List.length_cons, List.length_nil] at hn hN
      have hd' : DomL ds' ∧ Dom d ∧ d.isVoid = false := by
        have := domL_append.1 hd
        exact ⟨this.1, (domL_cons.1 this.2).1⟩
      obtain ⟨t', ht', h⟩ := apply_dels L I n ds' keep .list (by omega) rfl hd'.1 (by omega)
      refine ⟨t', ht', ?_⟩
      rw [List.zipIdx_append, List.reverse_append, List.map_append]
      simp only [List.zipIdx_cons, List.zipIdx_nil, List.reverse_cons, List.reverse_nil, List.nil_append,
        List.map_cons, List.map_nil, List.singleton_append]
      have hk : keep.length + ds'.length < N := by omega
      rw [patchAll_cons _ _ _ ⟨rfl, by simp [delHunk, nodeList_length], by simp [delHunk]⟩]
      have e : delHunk (d, keep.length + ds'.length) =
          { path := [.num (Float.ofNat (keep.length + ds'.length)).toBits], old := [d], new := [] } := by
        simp [delHunk, V1.numOfNat, nodeList_of_notVoid hd'.2.2]
      have hx : (keep ++ (ds' ++ [d]))[keep.length + ds'.length]? = some d := by
        rw [← List.append_assoc, ← List.length_append]
        simp
      rw [e, ap_delete ht _ _ (keep.length + ds'.length) d d hx hd'.2.1.good.listDoc (I.nat _ hk),
        if_pos (v1_equals_self L hd'.2.1)]
      simp only [Outcome.bind_ok]
      have her : (keep ++ (ds' ++ [d])).eraseIdx (keep.length + ds'.length) = keep ++ ds' := by
        rw [← List.append_assoc, ← List.length_append,
          List.eraseIdx_append_of_length_le (Nat.le_refl _)]
        simp
      rw [her]
      exact h

/-- the second loop of `jsonObject.diff`: members of the target that the source does not have -/
theorem apply_adds (P : String → Bool) :
    ∀ (kvs' : List (String × Json)), keysSorted kvs' = true → DomK kvs' →
      ∀ (cur : List (String × Json)), keysSorted cur = true →
      (∀ k v', (k, v') ∈ kvs' → P k = true → alookup k cur = none) →
      ∃ cur', V1.patchAll (.obj cur) ((kvs'.filter (fun kv => P kv.1)).map addHunk) =
          .ok (.obj cur') ∧ keysSorted cur' = true ∧
        (∀ k0, (∀ v', (k0, v') ∈ kvs' → P k0 = false) → alookup k0 cur' = alookup k0 cur) ∧
        (∀ k v', (k, v') ∈ kvs' → P k = true → alookup k cur' = some v')
  | [], _, _, cur, hs, _ => ⟨cur, by simp [patchAll_nil], hs, fun _ _ => rfl, fun _ _ h => by cases h⟩
  | (k, v') :: r, hs', hg, cur, hs, hnone => by
    have hs'r := keysSorted_cons_iff.1 hs'
    have hg' := domK_cons.1 hg
    by_cases hP : P k = true
    · -- the member is added
      have hx : alookup k cur = (if Json.void.isVoid then none else some Json.void) := by
        simpa [Json.isVoid] using hnone k v' List.mem_cons_self hP
      have hok : HOK { path := [], old := [], new := v'.nodeList } := ⟨rfl, by simp, nodeList_length v'⟩
      have hv : V1.patchAll Json.void [{ path := [], old := [], new := v'.nodeList }] = .ok v' := by
        rw [patch_root .void [] v'.nodeList rfl (by simp) (nodeList_length v')
          (by simp [Json.singleValue, V1.equals, Json.isVoid])]
        exact congrArg _ (single_nodeList v')
      obtain ⟨cur1, h1, h2, h3, h4⟩ := patchAll_key_frame _
        (fun h hm => by simp only [List.mem_singleton] at hm; subst hm; exact hok) k cur .void hs hx v' hv
      rw [hg'.1.2] at h4
      simp only [Bool.false_eq_true, if_false] at h4
      obtain ⟨cur', g1, g2, g3, g4⟩ := apply_adds P r hs'r.2 hg'.2 cur1 h2 (fun k1 v1 hm hP1 => by
        have hne : k1 ≠ k := fun e => String.lt_irrefl k (e ▸ hs'r.1 k1 v1 hm)
        rw [h3 k1 hne]
        exact hnone k1 v1 (List.mem_cons_of_mem _ hm) hP1)
      refine ⟨cur', ?_, g2, ?_, ?_⟩
      · simp only [List.filter_cons, hP, if_true, List.map_cons]
        have e : addHunk (k, v') :: List.map addHunk (List.filter (fun kv => P kv.1) r) =
            List.map (shift [.str k]) [{ path := [], old := [], new := v'.nodeList }] ++
            List.map addHunk (List.filter (fun kv => P kv.1) r) := by
          simp [shift, addHunk]
        rw [e, patchAll_append, h1]
        exact g1
      · intro k0 hk0
        have hne : k0 ≠ k := fun e => by
          have := hk0 v' (e ▸ List.mem_cons_self); simp [e, hP] at this
        rw [g3 k0 (fun v1 hm => hk0 v1 (List.mem_cons_of_mem _ hm)), h3 k0 hne]
      · intro k1 v1 hm hP1
        rcases List.mem_cons.1 hm with e | hm
        · cases e
          rw [g3 k (fun v2 hm2 => absurd (hs'r.1 k v2 hm2) (String.lt_irrefl k)), h4]
        · exact g4 k1 v1 hm hP1
    · -- the source has the member: no hunk
      obtain ⟨cur', g1, g2, g3, g4⟩ := apply_adds P r hs'r.2 hg'.2 cur hs (fun k1 v1 hm hP1 =>
        hnone k1 v1 (List.mem_cons_of_mem _ hm) hP1)
      refine ⟨cur', ?_, g2, ?_, ?_⟩
      · simp only [List.filter_cons, hP, Bool.false_eq_true, if_false]
        exact g1
      · intro k0 hk0
        exact g3 k0 (fun v1 hm => hk0 v1 (List.mem_cons_of_mem _ hm))
      · intro k1 v1 hm hP1
        rcases List.mem_cons.1 hm with e | hm
        · cases e; exact absurd hP1 hP
        · exact g4 k1 v1 hm hP1

/-! ## 8. the main induction -/

theorem DomL.of_mem {xs : List Json} (h : DomL xs) {x : Json} (hx : x ∈ xs) :
    Dom x ∧ x.isVoid = false := by
  induction xs with
  | nil => cases hx
  | cons y r ih =>
    rw [domL_cons] at h
    rcases List.mem_cons.1 hx with rfl | hx
    · exact h.1
    · exact ih h.2 hx

theorem getElem?_mid' (pre : List Json) (x : Json) (post : List Json) :
    (pre ++ x :: post)[pre.length]? = some x := by
  simp

theorem set_mid' (pre : List Json) (x r : Json) (post : List Json) :
    (pre ++ x :: post).set pre.length r = pre ++ r :: post := by
  simp

theorem listDoc_arr {t : Tag} {zs : List Json} (ht : okTag t) (h : listDocList zs = true) :
    (Json.arr t zs).listDoc = true := by
  simp only [Json.listDoc, Bool.and_eq_true]
  exact ⟨ht, h⟩

theorem diff_correct (L : FloatLaws) {N : Nat} (I : IdxLaws N) (m : V1.Metas) (hm : ListMode m) :
    (∀ a b, a.listDoc = true → b.listDoc = true → Dom a → Dom b → lenLe N a = true →
      ∃ r, V1.patchAll a (V1.diffNode m false a b []) = .ok r ∧ Rel r b ∧ r.listDoc = true) ∧
    (∀ kvs' kvs, listDocKvs kvs' = true → listDocKvs kvs = true →
      DomK kvs → DomK kvs' → lenLeKvs N kvs = true →
      keysSorted kvs = true → ∀ cur, keysSorted cur = true →
      (∀ k v, (k, v) ∈ kvs → alookup k cur = some v) →
      ∃ cur', V1.patchAll (.obj cur) (V1.diffKvs m false [] kvs' kvs) = .ok (.obj cur') ∧
        keysSorted cur' = true ∧
        (∀ k0, (∀ v, (k0, v) ∉ kvs) → alookup k0 cur' = alookup k0 cur) ∧
        (∀ k v, (k, v) ∈ kvs → match alookup k kvs' with
          | none => alookup k cur' = none
          | some v' => ∃ z, alookup k cur' = some z ∧ Rel z v' ∧ z.listDoc = true)) ∧
    (∀ ys xs, listDocList ys = true → listDocList xs = true →
      DomL xs → DomL ys → lenLeList N xs = true →
      ∃ zs, RelL zs (ys.take xs.length) ∧ listDocList zs = true ∧
        ∀ i pre post t, okTag t → pre.length = i → i + xs.length ≤ N →
          (∃ t', okTag t' ∧
            V1.patchAll (.arr t (pre ++ (xs.take ys.length ++ post)))
              (V1.diffElems m false [] i ys xs).flatten = .ok (.arr t' (pre ++ (zs ++ post)))) ∧
          (∃ t', okTag t' ∧
            V1.patchAll (.arr t (pre ++ (xs.take ys.length ++ post)))
              (V1.diffElems m false [] i ys xs).reverse.flatten =
                .ok (.arr t' (pre ++ (zs ++ post))))) := by
  apply v1_induct m hm
    (mN := fun a b => Dom a → Dom b → lenLe N a = true →
      ∃ r, V1.patchAll a (V1.diffNode m false a b []) = .ok r ∧ Rel r b ∧ r.listDoc = true)
    (mK := fun kvs' kvs => DomK kvs → DomK kvs' → lenLeKvs N kvs = true →
      keysSorted kvs = true → ∀ cur, keysSorted cur = true →
      (∀ k v, (k, v) ∈ kvs → alookup k cur = some v) →
      ∃ cur', V1.patchAll (.obj cur) (V1.diffKvs m false [] kvs' kvs) = .ok (.obj cur') ∧
        keysSorted cur' = true ∧
        (∀ k0, (∀ v, (k0, v) ∉ kvs) → alookup k0 cur' = alookup k0 cur) ∧
        (∀ k v, (k, v) ∈ kvs → match alookup k kvs' with
          | none => alookup k cur' = none
          | some v' => ∃ z, alookup k cur' = some z ∧ Rel z v' ∧ z.listDoc = true))
    (mE := fun ys xs => DomL xs → DomL ys → lenLeList N xs = true →
      ∃ zs, RelL zs (ys.take xs.length) ∧ listDocList zs = true ∧
        ∀ i pre post t, okTag t → pre.length = i → i + xs.length ≤ N →
          (∃ t', okTag t' ∧
            V1.patchAll (.arr t (pre ++ (xs.take ys.length ++ post)))
              (V1.diffElems m false [] i ys xs).flatten = .ok (.arr t' (pre ++ (zs ++ post)))) ∧
          (∃ t', okTag t' ∧
            V1.patchAll (.arr t (pre ++ (xs.take ys.length ++ post)))
              (V1.diffElems m false [] i ys xs).reverse.flatten =
                .ok (.arr t' (pre ++ (zs ++ post)))))
  · -- list against list: positional
    intro t t' xs ys ht ht' htt hlx hly ih ha hb hlen
    rw [diffNode_arr_arr hm xs ys ht ht' htt]
    have ha' := dom_arr.1 ha
    have hb' := dom_arr.1 hb
    simp only [lenLe, Bool.and_eq_true, decide_eq_true_eq] at hlen
    obtain ⟨zs, hrel, hld, hstep⟩ := ih ha'.2 hb'.2 hlen.2
    unfold listDiff
    split
    · next hlt =>
      -- the list grows: sub-diffs by increasing index, then the appends
      obtain ⟨⟨t1, ht1, hf⟩, _⟩ := hstep 0 [] [] t ht rfl (by omega)
      simp only [List.nil_append, List.append_nil] at hf
      rw [List.take_of_length_le (by omega)] at hf
      obtain ⟨t3, ht3, happ⟩ := apply_appends I (ys.drop xs.length) zs t1 ht1
        (fun w hw => ((hb'.2.drop _).of_mem hw).2)
      refine ⟨.arr t3 (zs ++ ys.drop xs.length), ?_, ?_, ?_⟩
      · rw [patchAll_append, hf]
        exact happ
      · have : RelL (zs ++ ys.drop xs.length) (ys.take xs.length ++ ys.drop xs.length) :=
          relL_append hrel (RelL.refl L (hb'.2.drop _).good)
        rw [List.take_append_drop] at this
        exact Rel.arr this _ _
      · exact listDoc_arr ht3 (listDocList_append.2 ⟨hld, (hb'.2.drop _).good.listDoc⟩)
    · next hge =>
      -- the list does not grow: deletions from the back, then the sub-diffs by decreasing index
      have hle : ys.length ≤ xs.length := by omega
      obtain ⟨t3, ht3, hdel⟩ := apply_dels L I _ (xs.drop ys.length) (xs.take ys.length) t rfl ht
        (ha'.2.drop _) (by simp; omega)
      rw [List.take_append_drop, List.length_take, Nat.min_eq_left hle] at hdel
      obtain ⟨_, ⟨t4, ht4, hr⟩⟩ := hstep 0 [] [] t3 ht3 rfl (by omega)
      simp only [List.nil_append, List.append_nil] at hr
      refine ⟨.arr t4 zs, ?_, ?_, listDoc_arr ht4 hld⟩
      · rw [patchAll_append]
        have e : V1.patchAll (.arr t xs) (List.map (fun xi : Json × Nat =>
            ({ path := [] ++ [V1.numOfNat xi.2], old := xi.1.nodeList, new := [] } : V1.Hunk))
            ((xs.drop ys.length).zipIdx ys.length).reverse) = .ok (.arr t3 (xs.take ys.length)) := hdel
        rw [e]
        exact hr
      · rw [List.take_of_length_le hle] at hrel
        exact Rel.arr hrel _ _
  · -- list against something else: replaced as a whole
    intro t xs b ht hlx _ hb' ha hb _
    rw [diffNode_arr_other hm xs b ht hb']
    refine ⟨b, ?_, Rel.refl L hb.good, hb.good.listDoc⟩
    have he : V1.equals [] (.arr t xs) (Json.singleValue [Json.arr .list xs]) = true := by
      show V1.equals [] (.arr t xs) (.arr .list xs) = true
      rw [v1_equals_eq_specEq ListMode.nil ha.good.listDoc (listDoc_arr rfl hlx)]
      exact (Rel.arr (RelL.refl L (good_arr.1 ha.good).2) t .list).1
    rw [patch_root (.arr t xs) [.arr .list xs] b.nodeList ha.good.listDoc (by simp)
      (nodeList_length b) he]
    exact congrArg _ (single_nodeList b)
  · -- object against object
    intro kvs kvs' _ _ ih ha hb hlen
    have ha' := dom_obj.1 ha
    have hb' := dom_obj.1 hb
    simp only [lenLe] at hlen
    rw [diffNode_obj_obj]
    obtain ⟨cur1, h1, hs1, hother1, hmem1⟩ := ih ha'.2 hb'.2 hlen ha'.1 kvs ha'.1
      (fun k v hm => alookup_of_mem ha'.1 hm)
    obtain ⟨cur2, h2, hs2, hother2, hmem2⟩ := apply_adds (fun k => (alookup k kvs).isNone) kvs'
      hb'.1 hb'.2 cur1 hs1 (fun k v' _ hP => by
        have hk : alookup k kvs = none := by simpa using hP
        rw [hother1 k (fun v hm => by rw [alookup_of_mem ha'.1 hm] at hk; cases hk), hk])
    have hfin : ∀ k, match alookup k kvs' with
        | none => alookup k cur2 = none
        | some v' => ∃ z, alookup k cur2 = some z ∧ Rel z v' ∧ z.listDoc = true := ?_
    · refine ⟨.obj cur2, ?_, Rel.obj hs2 hb'.1 (fun k => ?_), ?_⟩
      · rw [patchAll_append, h1]
        exact h2
      · have := hfin k
        cases hlk' : alookup k kvs' with
        | none => rw [hlk'] at this; exact this
        | some v' =>
          rw [hlk'] at this
          obtain ⟨z, hz, hr, _⟩ := this
          exact ⟨z, hz, hr⟩
      · simp only [Json.listDoc]
        refine listDocKvs_of_lookup cur2 hs2 (fun k z hz => ?_)
        have := hfin k
        cases hlk' : alookup k kvs' with
        | none => rw [hlk'] at this; rw [this] at hz; cases hz
        | some v' =>
          rw [hlk'] at this
          obtain ⟨z', hz', _, hl⟩ := this
          rw [hz] at hz'; cases hz'; exact hl
    · intro k
      cases hlk' : alookup k kvs' with
      | some v' =>
        simp only []
        have hm' := mem_of_alookup hlk'
        cases hlk : alookup k kvs with
        | none =>
          exact ⟨v', hmem2 k v' hm' (by simp [hlk]), Rel.refl L (hb'.2.of_mem hm').1.good,
            (hb'.2.of_mem hm').1.good.listDoc⟩
        | some v =>
          have := hmem1 k v (mem_of_alookup hlk)
          rw [hlk'] at this
          obtain ⟨z, hz, hr⟩ := this
          refine ⟨z, ?_, hr⟩
          rw [hother2 k (fun _ _ => by simp [hlk]), hz]
      | none =>
        simp only []
        rw [hother2 k (fun v' hm => by rw [alookup_of_mem hb'.1 hm] at hlk'; cases hlk')]
        cases hlk : alookup k kvs with
        | none =>
          rw [hother1 k (fun v hm => by rw [alookup_of_mem ha'.1 hm] at hlk; cases hlk), hlk]
        | some v =>
          have := hmem1 k v (mem_of_alookup hlk)
          rw [hlk'] at this
          exact this
  · -- object against something else
    intro kvs b _ _ hb' ha hb _
    rw [diffNode_obj_other m kvs b hb']
    refine ⟨b, ?_, Rel.refl L hb.good, hb.good.listDoc⟩
    rw [patch_root (.obj kvs) [.obj kvs] [b] ha.good.listDoc (by simp) (by simp)
      (by simpa [Json.singleValue] using v1_equals_self L ha)]
    rfl
  · -- scalars
    intro a b h1 h2 _ ha hb _
    rw [diffNode_scalar m a b h1 h2]
    unfold V1.diffCommon
    split
    · next he =>
      refine ⟨a, rfl, ?_, ha.good.listDoc⟩
      have e1 : specEq a b = true := by
        rw [← v1_equals_eq_specEq hm ha.good.listDoc hb.good.listDoc]; exact he
      exact ⟨e1, by rw [DPL.specEq_symm L hb.good ha.good]; exact e1⟩
    · refine ⟨b, ?_, Rel.refl L hb.good, hb.good.listDoc⟩
      simp only [Bool.false_eq_true, if_false]
      rw [patch_root a a.nodeList b.nodeList ha.good.listDoc (nodeList_length a) (nodeList_length b)
        (by rw [show Json.singleValue a.nodeList = a from single_nodeList a]; exact v1_equals_self L ha)]
      exact congrArg _ (single_nodeList b)
  · -- no member left
    intro kvs' _ _ _ _ cur hs _
    exact ⟨cur, by simp [diffKvs_nil, patchAll_nil], hs, fun _ _ => rfl, fun _ _ h => by cases h⟩
  · -- one member of the source
    intro kvs' k v r hl' hv _ ihN ihK ha hb hlen hsk cur hs hcur
    have ha' := domK_cons.1 ha
    have hsk' := keysSorted_cons_iff.1 hsk
    simp only [lenLeKvs, Bool.and_eq_true] at hlen
    have hx : alookup k cur = (if v.isVoid then none else some v) := by
      rw [hcur k v List.mem_cons_self, ha'.1.2]; rfl
    have hknr : ∀ w, (k, w) ∉ r := fun w hm => String.lt_irrefl k (hsk'.1 k w hm)
    -- the hunks for this member are hunks on the member, moved below the key
    have step : ∀ (D0 : V1.VDiff) (r0 : Json), (∀ h ∈ D0, HOK h) → V1.patchAll v D0 = .ok r0 →
        ((r0 = .void ∧ alookup k kvs' = none) ∨
          ∃ v', alookup k kvs' = some v' ∧ Rel r0 v' ∧ r0.listDoc = true) →
        ∃ cur', V1.patchAll (.obj cur)
            (D0.map (shift [.str k]) ++ V1.diffKvs m false [] kvs' r) = .ok (.obj cur') ∧
          keysSorted cur' = true ∧
          (∀ k0, (∀ v_1, (k0, v_1) ∉ (k, v) :: r) → alookup k0 cur' = alookup k0 cur) ∧
          (∀ k_1 v_1, (k_1, v_1) ∈ (k, v) :: r → match alookup k_1 kvs' with
            | none => alookup k_1 cur' = none
            | some v' => ∃ z, alookup k_1 cur' = some z ∧ Rel z v' ∧ z.listDoc = true) := by
      intro D0 r0 hD0 hr0 hres
      obtain ⟨cur1, g1, g2, g3, g4⟩ := patchAll_key_frame D0 hD0 k cur v hs hx r0 hr0
      obtain ⟨cur', f1, f2, f3, f4⟩ := ihK ha'.2 hb hlen.2 hsk'.2 cur1 g2 (fun k1 v1 hm => by
        have hne : k1 ≠ k := fun e => String.lt_irrefl k (e ▸ hsk'.1 k1 v1 hm)
        rw [g3 k1 hne]
        exact hcur k1 v1 (List.mem_cons_of_mem _ hm))
      refine ⟨cur', ?_, f2, ?_, ?_⟩
      · rw [patchAll_append, g1]
        exact f1
      · intro k0 hk0
        have hne : k0 ≠ k := fun e => hk0 v (e ▸ List.mem_cons_self)
        rw [f3 k0 (fun w hm => hk0 w (List.mem_cons_of_mem _ hm)), g3 k0 hne]
      · intro k1 v1 hm
        rcases List.mem_cons.1 hm with e | hm
        · cases e
          rw [f3 k hknr, g4]
          rcases hres with ⟨rfl, hlk⟩ | ⟨v', hlk, hres, hld⟩
          · rw [hlk]; rfl
          · rw [hlk]
            have hnv : r0.isVoid = false := by rw [hres.isVoid_eq]; exact (hb.lookup hlk).2
            exact ⟨r0, by rw [hnv]; rfl, hres, hld⟩
        · exact f4 k1 v1 hm
    rw [diffKvs_cons]
    cases hlk : alookup k kvs' with
    | some v' =>
      have hv'l := alookup_listDoc hlk hl'
      obtain ⟨r0, h1, h2, h2'⟩ := ihN v' hv'l ha'.1.1 (hb.lookup hlk).1 hlen.1
      simp only []
      rw [diffNode_at hm v v' hv hv'l]
      exact step _ r0 (fun h hmem => ((diff_hunks m hm).1 v v' hv hv'l h hmem).1) h1
        (.inr ⟨v', hlk, h2, h2'⟩)
    | none =>
      simp only []
      have h1 : V1.patchAll v [{ path := [], old := v.nodeList, new := [] }] = .ok .void := by
        rw [patch_root v v.nodeList [] hv (nodeList_length v) (by simp)
          (by rw [show Json.singleValue v.nodeList = v from single_nodeList v]
              exact v1_equals_self L ha'.1.1)]
        rfl
      have := step _ .void (fun h hmem => by
        simp only [List.mem_singleton] at hmem; subst hmem
        exact ⟨rfl, nodeList_length v, by simp⟩) h1 (.inl ⟨rfl, hlk⟩)
      simpa [shift] using this
  · -- no element left in the source
    intro ys _ _ _
    refine ⟨[], by simpa using RelL.nil, rfl, ?_⟩
    intro i pre post t ht _ _
    simp only [diffElems_nil, List.flatten_nil, List.reverse_nil, patchAll_nil, List.take_nil,
      List.nil_append]
    exact ⟨⟨t, ht, rfl⟩, ⟨t, ht, rfl⟩⟩
  · -- no element left in the target
    intro x xs _ _ _
    refine ⟨[], by simpa using RelL.nil, rfl, ?_⟩
    intro i pre post t ht _ _
    simp only [diffElems_nil', List.flatten_nil, List.reverse_nil, patchAll_nil, List.length_nil,
      List.take_zero, List.nil_append]
    exact ⟨⟨t, ht, rfl⟩, ⟨t, ht, rfl⟩⟩
  · -- elements at the same index
    intro x xs y ys hx _ hy _ ihN ihE ha hb hlen
    have ha' := domL_cons.1 ha
    have hb' := domL_cons.1 hb
    simp only [lenLeList, Bool.and_eq_true] at hlen
    have hy' := dispatch_listDoc hm hy
    obtain ⟨r, hr, hrel0, hldr⟩ := ihN ha'.1.1 (hb'.1.1.dispatch hm) hlen.1
    obtain ⟨zs, hrel, hld, hstep⟩ := ihE ha'.2 hb'.2 hlen.2
    have hrel1 : Rel r y := rel_trans_untag hrel0 (untag_dispatch m y)
    have hD0 : ∀ h ∈ V1.diffNode m false x (V1.dispatch m y) [], HOK h ∧ FOK h := by
      intro h hmem
      have := (diff_hunks m hm).1 x _ hx hy' h hmem
      exact ⟨this.1, this.2 ha'.1.2 (by rw [dispatch_isVoid]; exact hb'.1.2)⟩
    refine ⟨r :: zs, by simpa using RelL.cons hrel1 hrel, by simp [listDocList, hldr, hld], ?_⟩
    intro i pre post t ht hi hN
    simp only [List.length_cons] at hN
    have hb : V1.floatToInt (Float.ofNat i).toBits = (i : Int) := I.nat i (by omega)
    rw [diffElems_cons, diffNode_at hm x _ hx hy']
    simp only [List.length_cons, List.take_succ_cons, List.cons_append, List.flatten_cons,
      List.reverse_cons, List.flatten_append, List.flatten_nil, List.append_nil]
    constructor
    · -- increasing index: this element first
      obtain ⟨t1, ht1, h1⟩ := patchAll_idx_frame _ hD0 _ i hb t
        (pre ++ x :: (xs.take ys.length ++ post)) x ht (by rw [← hi]; exact getElem?_mid' _ _ _) r hr
      rw [← hi, set_mid'] at h1
      obtain ⟨⟨t2, ht2, h2⟩, _⟩ := hstep (i + 1) (pre ++ [r]) post t1 ht1 (by simp [hi]) (by omega)
      refine ⟨t2, ht2, ?_⟩
      rw [patchAll_append]
      have e : V1.numOfNat i = .num (Float.ofNat i).toBits := rfl
      rw [e, ← hi, h1]
      simp only [Outcome.bind_ok]
      simpa [hi, List.append_assoc] using h2
    · -- decreasing index: this element last
      obtain ⟨_, ⟨t1, ht1, h1⟩⟩ := hstep (i + 1) (pre ++ [x]) post t ht (by simp [hi]) (by omega)
      obtain ⟨t2, ht2, h2⟩ := patchAll_idx_frame _ hD0 _ i hb t1
        (pre ++ x :: (zs ++ post)) x ht1 (by rw [← hi]; exact getElem?_mid' _ _ _) r hr
      rw [← hi, set_mid'] at h2
      refine ⟨t2, ht2, ?_⟩
      rw [patchAll_append]
      have e : V1.numOfNat i = .num (Float.ofNat i).toBits := rfl
      have h1' : V1.patchAll (.arr t (pre ++ x :: (xs.take ys.length ++ post)))
          (V1.diffElems m false [] (i + 1) ys xs).reverse.flatten =
          .ok (.arr t1 (pre ++ x :: (zs ++ post))) := by
        simpa [List.append_assoc] using h1
      rw [h1']
      simp only [Outcome.bind_ok]
      rw [e, ← hi]
      exact h2

/-! ## 9. C17, list mode: patching `a` with the v1 diff of `a` and `b` yields a document equal to `b` -/

/-- **C17 (v1 API, list mode, strict strategy, full nesting).** For list documents `a`, `b`
    (well-formed, finite numbers, no void inside), metadata without SET / MULTISET / MERGE and with
    precision 0 or absent: `a.Patch(a.Diff(b, m...))` succeeds and its result `Equals` `b` (with the
    metadata), and is structurally equal to `b` (`specEq`: array tags ignored).
    `IdxLaws N` / `lenLe N a`: list indices travel through float64 (`jsonNumber(i)` → `int(jn)`);
    the conversion is exact for the indices of arrays with at most `N` elements. -/
theorem v1_diff_patch_list (L : FloatLaws) {N : Nat} (I : IdxLaws N) (m : V1.Metas)
    (hm : ListMode m) (a b : Json)
    (ha1 : a.listDoc = true) (ha2 : a.wf = true) (ha3 : a.finiteNums = true) (ha4 : vfree a = true)
    (ha5 : lenLe N a = true)
    (hb1 : b.listDoc = true) (hb2 : b.wf = true) (hb3 : b.finiteNums = true) (hb4 : vfree b = true) :
    ∃ r, V1.patchM a (V1.diffM m a b) = .ok r ∧ V1.equals m r b = true ∧ specEq r b = true ∧
      specEq b r = true ∧ r.listDoc = true := by
  obtain ⟨r, h1, h2, h3⟩ := (diff_correct L I m hm).1 a b ha1 hb1 (Dom.mk' ha1 ha2 ha3 ha4)
    (Dom.mk' hb1 hb2 hb3 hb4) ha5
  refine ⟨r, ?_, ?_, h2.1, h2.2, h3⟩
  · simp only [V1.patchM, V1.diffM, hm.noMerge]
    exact h1
  · rw [v1_equals_eq_specEq hm h3 hb1]
    exact h2.1

/-- the same, stated with `untag` (the result and the target differ at most in the Go dynamic type
    of array nodes, and in the representation of numbers that `Equals` identifies) -/
theorem v1_diff_patch_list_untag (L : FloatLaws) {N : Nat} (I : IdxLaws N) (m : V1.Metas)
    (hm : ListMode m) (a b : Json)
    (ha1 : a.listDoc = true) (ha2 : a.wf = true) (ha3 : a.finiteNums = true) (ha4 : vfree a = true)
    (ha5 : lenLe N a = true)
    (hb1 : b.listDoc = true) (hb2 : b.wf = true) (hb3 : b.finiteNums = true) (hb4 : vfree b = true) :
    ∃ r, V1.patchM a (V1.diffM m a b) = .ok r ∧ specEq (untag r) (untag b) = true := by
  obtain ⟨r, h1, _, h2, _⟩ := v1_diff_patch_list L I m hm a b ha1 ha2 ha3 ha4 ha5 hb1 hb2 hb3 hb4
  exact ⟨r, h1, by rw [specEq_untag_left, specEq_untag_right]; exact h2⟩

/-! ## 10. the v1 diff is empty exactly when `Equals` holds -/

theorem v1_equalsList_length (m : V1.Metas) :
    ∀ (xs ys : List Json), V1.equalsList m xs ys = true → xs.length = ys.length
  | [], [], _ => rfl
  | [], _ :: _, h => by simp [V1.equalsList] at h
  | _ :: _, [], h => by simp [V1.equalsList] at h
  | x :: xs, y :: ys, h => by
    simp only [V1.equalsList, Bool.and_eq_true] at h
    simp [v1_equalsList_length m xs ys h.2]

theorem v1_equalsKvs_keys (m : V1.Metas) (kvs' : List (String × Json)) :
    ∀ (kvs : List (String × Json)), V1.equalsKvs m kvs kvs' = true →
      ∀ k, k ∈ kvs.map Prod.fst → k ∈ kvs'.map Prod.fst
  | [], _, _, hk => by cases hk
  | (k0, v) :: r, h, k, hk => by
    rw [V1.equalsKvs, Bool.and_eq_true] at h
    rcases List.mem_cons.1 hk with rfl | hk
    · rw [mem_keys_iff_lookup]
      cases hl : alookup k kvs' with
      | none => rw [hl] at h; simp at h
      | some _ => rfl
    · exact v1_equalsKvs_keys m kvs' r h.2 k hk

theorem dispatch_wf (m : V1.Metas) (y : Json) : (V1.dispatch m y).wf = y.wf := by
  cases y with
  | arr t ys => cases t <;> simp [V1.dispatch, Json.wf]
  | _ => rfl

theorem v1_equals_dispatch {m : V1.Metas} (hm : ListMode m) {x y : Json} (hx : x.listDoc = true)
    (hy : y.listDoc = true) : V1.equals m x (V1.dispatch m y) = V1.equals m x y := by
  rw [v1_equals_eq_specEq hm hx (dispatch_listDoc hm hy), v1_equals_eq_specEq hm hx hy,
    ← specEq_untag_right, untag_dispatch, specEq_untag_right]

theorem filter_isNone_eq_nil_iff (kvs kvs' : List (String × Json)) :
    kvs'.filter (fun kv => (alookup kv.1 kvs).isNone) = [] ↔
      ∀ k, k ∈ kvs'.map Prod.fst → k ∈ kvs.map Prod.fst := by
  rw [List.filter_eq_nil_iff]
  constructor
  · intro h k hk
    obtain ⟨⟨k0, v⟩, hm, rfl⟩ := List.mem_map.1 hk
    rw [mem_keys_iff_lookup]
    have := h (k0, v) hm
    cases hl : alookup k0 kvs with
    | none => simp [hl] at this
    | some _ => rfl
  · intro h kv hm
    have := h kv.1 (List.mem_map.2 ⟨kv, hm, rfl⟩)
    rw [mem_keys_iff_lookup] at this
    cases hl : alookup kv.1 kvs with
    | none => rw [hl] at this; cases this
    | some _ => simp

theorem diff_empty (m : V1.Metas) (hm : ListMode m) :
    (∀ a b, a.listDoc = true → b.listDoc = true → a.rawDoc = true → a.wf = true → b.wf = true →
      (V1.diffNode m false a b [] = [] ↔ V1.equals m a b = true)) ∧
    (∀ kvs' kvs, listDocKvs kvs' = true → listDocKvs kvs = true →
      rawDocKvs kvs = true → wfKvs kvs = true → wfKvs kvs' = true →
      (V1.diffKvs m false [] kvs' kvs = [] ↔ V1.equalsKvs m kvs kvs' = true)) ∧
    (∀ ys xs, listDocList ys = true → listDocList xs = true →
      rawDocList xs = true → wfList xs = true → wfList ys = true → xs.length = ys.length →
      ∀ i, ((∀ d ∈ V1.diffElems m false [] i ys xs, d = []) ↔ V1.equalsList m xs ys = true)) := by
  apply v1_induct m hm
    (mN := fun a b => a.rawDoc = true → a.wf = true → b.wf = true →
      (V1.diffNode m false a b [] = [] ↔ V1.equals m a b = true))
    (mK := fun kvs' kvs => rawDocKvs kvs = true → wfKvs kvs = true → wfKvs kvs' = true →
      (V1.diffKvs m false [] kvs' kvs = [] ↔ V1.equalsKvs m kvs kvs' = true))
    (mE := fun ys xs => rawDocList xs = true → wfList xs = true → wfList ys = true →
      xs.length = ys.length →
      ∀ i, ((∀ d ∈ V1.diffElems m false [] i ys xs, d = []) ↔ V1.equalsList m xs ys = true))
  · -- list against list
    intro t t' xs ys ht ht' htt _ _ ih hr hw hw'
    simp only [Json.rawDoc, Bool.and_eq_true] at hr
    simp only [Json.wf] at hw hw'
    rw [diffNode_arr_arr hm xs ys ht ht' htt, v1_equals_arr hm ht]
    have hrhs : (match Json.arr t' ys with
        | .arr .raw ys => V1.equalsList m xs ys
        | .arr .list ys => V1.equalsList m xs ys
        | _ => false) = V1.equalsList m xs ys := by
      cases t' <;> simp_all [okTag]
    rw [hrhs]
    unfold listDiff
    split
    · next hlt =>
      constructor
      · intro h
        have := (List.append_eq_nil_iff.1 h).2
        rw [List.map_eq_nil_iff, List.drop_eq_nil_iff] at this
        omega
      · intro h
        have := v1_equalsList_length m xs ys h
        omega
    · next hge =>
      constructor
      · intro h
        have h' := List.append_eq_nil_iff.1 h
        have h1 := h'.1
        rw [List.map_eq_nil_iff, List.reverse_eq_nil_iff] at h1
        have hlen : xs.length = ys.length := by
          have : ((xs.drop ys.length).zipIdx ys.length).length = 0 := by rw [h1]; rfl
          simp only [List.length_zipIdx, List.length_drop] at this
          omega
        refine (ih hr.2 hw hw' hlen 0).1 (fun d hd => ?_)
        exact List.flatten_eq_nil_iff.1 h'.2 d (List.mem_reverse.2 hd)
      · intro h
        have hlen := v1_equalsList_length m xs ys h
        have h2 := (ih hr.2 hw hw' hlen 0).2 h
        rw [List.append_eq_nil_iff]
        constructor
        · rw [List.drop_of_length_le (by omega)]; rfl
        · exact List.flatten_eq_nil_iff.2 (fun d hd => h2 d (List.mem_reverse.1 hd))
  · -- list against something else
    intro t xs b ht _ _ hb' hr _ _
    simp only [Json.rawDoc, Bool.and_eq_true, beq_iff_eq] at hr
    rw [diffNode_arr_other hm xs b ht hb', v1_equals_arr hm ht]
    rcases hb' with hb' | ⟨rfl, _⟩
    · cases b with
      | arr t' ys => exact absurd rfl (hb' t' ys)
      | _ => simp
    · cases hr.1
  · -- object against object
    intro kvs kvs' _ _ ih hr hw hw'
    simp only [Json.rawDoc] at hr
    simp only [Json.wf, Bool.and_eq_true] at hw hw'
    rw [diffNode_obj_obj, V1.equals, List.append_eq_nil_iff, List.map_eq_nil_iff, Bool.and_eq_true,
      ih hr hw.2 hw'.2, filter_isNone_eq_nil_iff, beq_iff_eq]
    constructor
    · rintro ⟨h1, h2⟩
      refine ⟨?_, h1⟩
      have l1 := nodup_subset_length_le _ _ (keysSorted_nodup hw.1) (v1_equalsKvs_keys m kvs' kvs h1)
      have l2 := nodup_subset_length_le _ _ (keysSorted_nodup hw'.1) h2
      simp only [List.length_map] at l1 l2
      omega
    · rintro ⟨h1, h2⟩
      refine ⟨h2, ?_⟩
      exact subset_of_nodup_subset_length _ _ (keysSorted_nodup hw.1) (v1_equalsKvs_keys m kvs' kvs h2)
        (by simp [h1])
  · -- object against something else
    intro kvs b _ _ hb' _ _ _
    rw [diffNode_obj_other m kvs b hb']
    cases b with
    | obj kvs' => exact absurd rfl (hb' kvs')
    | _ => simp [V1.equals]
  · -- scalars
    intro a b h1 h2 _ _ _ _
    rw [diffNode_scalar m a b h1 h2]
    unfold V1.diffCommon
    split
    · next he => simp [he]
    · next he => simp [he]
  · intro kvs' _ _ _
    simp [diffKvs_nil, V1.equalsKvs]
  · intro kvs' k v r hl' hv _ ihN ihK hr hw hw'
    simp only [rawDocKvs, wfKvs, Bool.and_eq_true] at hr hw
    rw [diffKvs_cons, V1.equalsKvs, List.append_eq_nil_iff, Bool.and_eq_true, ihK hr.2 hw.2 hw']
    cases hlk : alookup k kvs' with
    | none => simp
    | some v' =>
      simp only []
      rw [diffNode_at hm v v' hv (alookup_listDoc hlk hl'), List.map_eq_nil_iff,
        ihN v' (alookup_listDoc hlk hl') hr.1 hw.1 (alookup_wf hlk hw')]
  · intro ys _ _ _ hlen i
    have : ys = [] := List.length_eq_zero_iff.1 hlen.symm
    subst this
    simp [diffElems_nil, V1.equalsList]
  · intro x xs _ _ _ hlen
    simp at hlen
  · intro x xs y ys hx _ hy _ ihN ihE hr hw hw' hlen i
    simp only [rawDocList, wfList, Bool.and_eq_true] at hr hw hw'
    simp only [List.length_cons, Nat.add_right_cancel_iff] at hlen
    rw [diffElems_cons, V1.equalsList, Bool.and_eq_true, List.forall_mem_cons,
      ihE hr.2 hw.2 hw'.2 hlen (i + 1), diffNode_at hm x _ hx (dispatch_listDoc hm hy),
      List.map_eq_nil_iff, ihN hr.1 hw.1 (by rw [dispatch_wf]; exact hw'.1),
      v1_equals_dispatch hm hx hy]

/-- **C17, second half (v1 API, list mode).** For documents as the readers produce them (`a` with
    plain `jsonArray` nodes only, `b` a list document), well-formed: the diff is empty exactly when
    `Equals` holds. No hypothesis on numbers, void or lengths. -/
theorem v1_diff_empty_iff_equals (m : V1.Metas) (hm : ListMode m) (a b : Json)
    (ha1 : a.rawDoc = true) (ha2 : a.wf = true) (hb1 : b.listDoc = true) (hb2 : b.wf = true) :
    V1.diffM m a b = [] ↔ V1.equals m a b = true := by
  simp only [V1.diffM, hm.noMerge]
  exact (diff_empty m hm).1 a b (rawDoc_listDoc a ha1) hb1 ha1 ha2 hb2

/-! ## 11. witnesses, non-vacuity -/

/-- a `jsonList` against the same elements as a plain `jsonArray`: the model's diff is one
    replacement hunk although `Equals` holds (not constructible through the public API) -/
theorem tag_witness :
    V1.diffM [] (.arr .list []) (.arr .raw []) ≠ [] ∧
      V1.equals [] (.arr .list []) (.arr .raw []) = true := by
  constructor
  · simp only [V1.diffM, V1.hasMerge]
    rw [diffNode_arr_other ListMode.nil [] _ rfl (.inr ⟨rfl, [], rfl⟩)]
    simp
  · rw [v1_equals_arr ListMode.nil rfl]
    simp [V1.equalsList]

namespace Example

def one : Json := .num 0x3FF0000000000000
def two : Json := .num 0x4000000000000000
/-- `[true, 1, [1], null, {"a":[1,2,2],"b":1}, 2, 2]` -/
def exA : Json := .arr .raw [.bool true, one, .arr .raw [one], .null,
  .obj [("a", .arr .raw [one, two, two]), ("b", one)], two, two]
/-- `[false, 1, [1, 1], null, {"a":[2],"c":{}}]` -/
def exB : Json := .arr .raw [.bool false, one, .arr .raw [one, one], .null,
  .obj [("a", .arr .raw [two]), ("c", .obj [])]]

-- shrinking at the root (deletions `[6]`, `[5]` first, then sub-diffs by decreasing index), a nested
-- shrink below `[4,"a"]`, member removed / added, a nested append `[2,-1]`, a replacement at `[0]`
#eval (V1.diffM [] exA exB).map (fun h => (h.path, h.old, h.new))
#eval V1.patchM exA (V1.diffM [] exA exB)
#eval (V1.diffM [] exB exA).map (fun h => (h.path, h.old, h.new))
#eval V1.patchM exB (V1.diffM [] exB exA)

-- the index laws on samples (they are facts about IEEE-754 binary64, opaque to the kernel)
#eval (List.range 3000).all (fun i => V1.floatToInt (Float.ofNat i).toBits == (i : Int))
#eval V1.floatToInt (Float.ofNat (2 ^ 53 - 1)).toBits == ((2 ^ 53 - 1 : Nat) : Int)
#eval V1.floatToInt (Float.ofInt (-1)).toBits

-- a void ARRAY ELEMENT (outside the domain: `vfree`) is read as an insertion by `jsonList.patch`
#eval V1.patchM (.arr .raw [.void]) (V1.diffM [] (.arr .raw [.void]) (.arr .raw [one]))

set_option maxRecDepth 8000 in
/-- the hypotheses of `v1_diff_patch_list` hold for this pair, in both directions -/
theorem hyps :
    exA.listDoc = true ∧ exA.wf = true ∧ exA.finiteNums = true ∧ vfree exA = true ∧
    lenLe 8 exA = true ∧
    exB.listDoc = true ∧ exB.wf = true ∧ exB.finiteNums = true ∧ vfree exB = true ∧
    lenLe 8 exB = true := by
  decide

example (L : FloatLaws) (I : IdxLaws 8) :
    ∃ r, V1.patchM exA (V1.diffM [.setkeys ["a"]] exA exB) = .ok r ∧
      V1.equals [.setkeys ["a"]] r exB = true := by
  obtain ⟨h1, h2, h3, h4, h5, h6, h7, h8, h9, _⟩ := hyps
  obtain ⟨r, hr, e, _⟩ :=
    v1_diff_patch_list L I _ (ListMode.setkeys ["a"]) exA exB h1 h2 h3 h4 h5 h6 h7 h8 h9
  exact ⟨r, hr, e⟩

end Example

/-! ### axioms -/

#print axioms v1_equals_eq
#print axioms v1_equals_refl
#print axioms v1_equals_symm
#print axioms diff_correct
#print axioms v1_diff_patch_list
#print axioms v1_diff_patch_list_untag
#print axioms v1_diff_empty_iff_equals
#print axioms tag_witness
#print axioms Example.hyps

end Jd.V1P
