/-
  JdProofs.RealDiffSet — property C07 ("a diff reports only real differences: no no-op, no redundant
  hunk") in the SET and MULTISET readings of the v2 library: strict strategy, no SetKeys, no
  Precision.  Everything lives in the namespace `Jd.RealS`.  (LIST reading: JdProofs.RealDiff.)

  STAGE REACHED: all four items, at full depth (arrays nested in objects and in arrays; hunks below
  keys and below keyed set members), for every option list `o` with `DES.SetReading o`
  (`dispatchTag o = .set ∧ keysOf o = none`, or `dispatchTag o = .mset`), `precOf o = 0`,
  `isMerge o = false` — in particular `o = [.set]` and `o = [.mset]` (`c07_setmodes`).
  All theorems are about the library functions of the model (`diffM` / `diffNode`, `patchAll`,
  `equals`, `identOf`, `hashCode`).

  NAVIGATION.  `navS o a q` follows a path `q` made of object keys and `PathSetKeys` elements
  (`navPath q`): `.key k` enters the member `k` of an object; `.setKeys po`, on an array, enters the
  LAST member that has the identity (`identOf`, = hash code when there is no SetKeys option) of the
  object `po`, provided it is an object — this is the member `jsonSet.diff` matched (the Go map
  `map[[8]byte]JsonNode` built by ranging over the slice keeps the last bearer of a hash code).
  On key paths `navS` is `Real.getAt` (`navS_keys`).

  MAIN THEOREMS
  (1)+(2) `hunk_real` / `diffM_hunk_real`: every hunk `h` of `diffNode o false a b p` (of `a.Diff(b)`)
      is `HunkReal o a b p h`, i.e. one of
        * `value q`: `h.path = p ++ q`, no context, and `h` replaces what `a` holds at `q` by what `b`
          holds at `q` (`Real.RealOpt`: at most one value each way; the removed value is LITERALLY
          what `a` holds (`lit`), the added value is what `b` holds; nothing is removed / added only
          when nothing (or void) is held; the removed value is not `Equals` to the added one);
        * `set q xs ys`: `h.path = p ++ q ++ [{}]`, `a` holds the plain array `xs` at `q`, `b` holds `ys`,
          and `SetHunkReal o xs ys h`: every removed value is a member of `xs` (literally: `z ∈ xs`),
          every added value a member of `ys`; the identities of the removed values are exactly the
          identities present in `xs` and absent from `ys`, each once; symmetrically for the added
          values; the hunk is not empty;
        * `mset q xs ys`: the same with `[[]]` and `MsetHunkReal`: removed values are members of `xs`,
          added values members of `ys`, and for every hash code `c` the hunk removes exactly
          `count c xs - count c ys` values with that hash code and adds `count c ys - count c xs`.
      Hypotheses: `a.rawDoc`, `a.wf`, `b.rawDoc`, `b.wf`.  NO hash hypothesis, NO float hypothesis.
      `diffM_set_hunk_members`, `diffM_mset_hunk_members`: the same read off the hunk's own path
      `q ++ [{}]` / `q ++ [[]]`.
  (2) `SetHunkReal.apart`, `MsetHunkReal.apart`: no removed value has the identity (hash code) of an
      added value of the same hunk — no hypothesis.  `HunkReal.not_equals` (`FloatEq0`, `DocOk`
      documents): no removed value is `Equals` to an added value, for every kind of hunk.
      `SetHunkReal.no_counterpart`: a removed member is `Equals` to NO member of the other array (and
      an added member to none of the first) (`FloatEq0`, `DocOk` members; this is membership "up to
      `Equals`" — it uses only "`Equals` ⇒ same hash code", which holds without any no-collision
      hypothesis); `MsetHunkReal.surplus`: a removed member's hash code is in surplus in `xs`.
      `HunkReal.nonempty`: no hunk is empty (`DPL.memOK a`, `DPL.memOK b`: no void object member;
      `Witness.empty_hunk_void_member` shows the model-only exception).
  (3) `equal_subdoc_not_mentioned`, `diffM_equal_subdoc_not_mentioned`, `equal_member_not_mentioned`:
      if `a` and `b` hold `Equals` values `v`, `v'` at a location `q` (`navPath q`: keys AND keyed set
      members, any depth), no hunk has a path that starts with `p ++ q`.
      Hypotheses: `rawDoc`, `wf` on both documents and `DES.DiffFaithful o (subterms v) (subterms v')`
      on the two equal values only.
  (4) `no_redundant_hunk`: if `diffM o a b = d1 ++ h :: d2` and `patchAll sw a (d1 ++ d2) = .ok r` (either
      behaviour `sw` of the keyed-member branch) then `equals o r b = false`.  ALL documents as read
      from text (arrays of anything, nested anywhere), not only arrays of scalars below keys.
      Hypotheses: `rawDoc`, `wf` on both, `DES.DiffFaithful o (subterms a) (subterms b)`.  No float
      hypothesis.  `no_redundant_hunk_hashFaithful`: the same under `setDoc`, `HashFaithful`,
      `FloatEq0` (the hypothesis family of JdProofs.SetDiffPatch).
      Proof: under `DiffFaithful` a set diff has no sub-diff (`subs_nil`), so every hunk sits at a
      key path, possibly followed by `{}` / `[]`, where `a` and `b` do not agree (`hunk_differ`, via
      `DES.diffNode_nil_of_equals`); two hunks of one diff diverge — common keys, then two different
      keys (`diff_pairwise`); a hunk whose path diverges from `q` leaves what the document holds at
      `q` untouched (`patchNode_frame`, `patchAll_frame`: about the library's `patchNode`); and
      `Equals` documents agree at every key path (`agree_of_equals`).
  `c07_setmodes`: the four items for `o = [.set]` / `o = [.mset]`.

  WHICH HASH HYPOTHESES, AND WHY (`DES.DiffFaithful o SA SB`, decidable: `DES.diffFaithful_of_check`;
  for a node of `SA` and a node of `SB` with the same hash code: two arrays were hashed from the same
  member hash codes — no FNV collision —, and, SET reading only, two objects are `Equals` — no
  collision and no alias between object members of sets):
    * (1), (2): none.  The diff picks the values it reports out of the two arrays, and compares
      identities; whatever aliasing there is, the reported values are members and their identities
      are apart.  With an alias between two OBJECT members (`{"a":""}` / `{"a":[]}`) the set diff
      descends into the matched pair and reports a hunk below a `PathSetKeys` element; that hunk is
      real as well (`value` at `q = [{"a":""}, a]`; `Example`, last keyed example).
    * (3) is FALSE without it — `Witness.equal_member_mentioned_alias` (KF-C04-alias class, the Go
      code behaves the same): the members at `m` of `{"m":[{"a":""}]}` and `{"m":[{"a":[]}]}` are
      `Equals` under SET and the diff has a hunk below `m`.  (A genuine FNV collision gives the same:
      `DES.Witness.fnv_collision_breaks_converse`, both readings.)
    * (4) is FALSE without it — `Witness.redundant_hunk_alias` (KF-C04-alias class: the one hunk of
      `[{"a":""}]` → `[{"a":[]}]` under SET is redundant, the empty patch already gives a document
      `Equals` to the target) and `Witness.redundant_hunk_fnv_collision` (no alias: the genuine
      FNV-1a 64 collision `["aedb68afb","b7cdeb749"]` / `["a568b3ad2","b76a57d20"]`, SET and
      MULTISET: the single hunk is redundant).  Both are consequences of the known findings
      (`Equals` compares hash codes of arrays), not new defects.  All three witnesses were replayed
      on the Go library (v2, `ReadJsonString` / `Diff` / `Patch` / `Equals` with `jd.SET`,
      `jd.MULTISET`): `Equals` = true, one hunk, and the leave-one-out result `Equals` the target.
  OTHER HYPOTHESES
    * `a.rawDoc`, `b.rawDoc`: documents as read from text (a typed `jsonSet` / `jsonList` node on
      either side is replaced wholesale or makes `Equals` and the diff disagree:
      `DES.Witness.typed_set_left_is_excluded`).
    * `a.wf`, `b.wf`: strictly increasing keys, the model's invariant standing for Go maps.
    * `FloatEq0` (`|x - y| ≤ +0` only for `x = y`), `DocOk` (`docOk_of_setDoc`: plain arrays, sorted
      keys, finite numbers, no `-0`): only for the `Equals` forms of (2).
    * `DPL.memOK`: only for "no hunk is empty".
  No statement of the task was found false inside the domain with its hypotheses.
  NON-VACUITY: `Example` (a pair with four hunks in each reading: a set / multiset hunk two keys
  deep next to an equal object member of the set, a replaced string, a removed array, an added
  member; every main theorem is instantiated, and the `#eval`s show that leave-one-out sub-diffs do
  apply).
-/
import JdProofs.RealDiff
import JdProofs.SetDiffPatch
import JdProofs.DiffEmptySet

namespace Jd.RealS
open Jd Jd.Spec Jd.SetDP

/-! ## 1. navigation as the set diff addresses members -/

/-- the path elements through which the diff descends in the set readings: object keys and, inside
    an array read as a set, the object member designated by a `PathSetKeys` element -/
def navPath : Path → Bool
  | [] => true
  | .key _ :: r => navPath r
  | .setKeys _ :: r => navPath r
  | _ => false

/-- navigation by object keys and keyed set members: `.setKeys po` designates the LAST member of the
    array that has the identity of the object `po` (the map `map[[8]byte]JsonNode` built by ranging
    over the slice), and that member has to be an object -/
def navS (o : Opts) : Json → Path → Option Json
  | n, [] => some n
  | .obj kvs, .key k :: r => (alookup k kvs).bind (fun v => navS o v r)
  | .arr _ xs, .setKeys po :: r =>
    match identLookup o (identOf o (.obj po)) xs with
    | some (.obj kvs) => navS o (.obj kvs) r
    | _ => none
  | _, _ => none

theorem navS_nil (o : Opts) (n : Json) : navS o n [] = some n := by
  cases n <;> rfl

theorem navS_key (o : Opts) (kvs : List (String × Json)) (k : String) (r : Path) :
    navS o (.obj kvs) (.key k :: r) = (alookup k kvs).bind (fun v => navS o v r) := rfl

theorem navS_setKeys (o : Opts) (t : Tag) (xs : List Json) (po : List (String × Json)) (r : Path) :
    navS o (.arr t xs) (.setKeys po :: r) =
      match identLookup o (identOf o (.obj po)) xs with
      | some (.obj kvs) => navS o (.obj kvs) r
      | _ => none := rfl

/-- on key paths `navS` is the navigation of JdProofs.RealDiff -/
theorem navS_keys (o : Opts) : ∀ (q : Path), Real.keysOnly q = true → ∀ n : Json,
    navS o n q = Real.getAt n q
  | [], _, n => by rw [navS_nil]; cases n <;> rfl
  | .key k :: r, hq, n => by
    simp only [Real.keysOnly] at hq
    cases n with
    | obj kvs =>
      rw [navS_key]
      simp only [Real.getAt]
      cases alookup k kvs with
      | none => rfl
      | some v => exact navS_keys o r hq v
    | _ => rfl
  | .idx _ :: _, hq, _ => by simp [Real.keysOnly] at hq
  | .set :: _, hq, _ => by simp [Real.keysOnly] at hq
  | .mset :: _, hq, _ => by simp [Real.keysOnly] at hq
  | .setKeys _ :: _, hq, _ => by simp [Real.keysOnly] at hq
  | .msetKeys _ :: _, hq, _ => by simp [Real.keysOnly] at hq

/-! ## 2. one array: what the set hunk and the multiset hunk hold -/

/-- a set hunk describes a real difference between the arrays `xs` and `ys` -/
structure SetHunkReal (o : Opts) (xs ys : List Json) (h : Hunk) : Prop where
  merge : h.merge = false
  before : h.before = []
  after : h.after = []
  rem_mem : ∀ z ∈ h.remove, z ∈ xs
  add_mem : ∀ z ∈ h.add, z ∈ ys
  rem_ids : ∀ c, c ∈ h.remove.map (identOf o) ↔ c ∈ xs.map (identOf o) ∧ c ∉ ys.map (identOf o)
  add_ids : ∀ c, c ∈ h.add.map (identOf o) ↔ c ∈ ys.map (identOf o) ∧ c ∉ xs.map (identOf o)
  rem_nodup : (h.remove.map (identOf o)).Nodup
  add_nodup : (h.add.map (identOf o)).Nodup
  nonempty : h.remove ≠ [] ∨ h.add ≠ []

/-- a multiset hunk describes a real difference between the arrays `xs` and `ys` -/
structure MsetHunkReal (o : Opts) (xs ys : List Json) (h : Hunk) : Prop where
  merge : h.merge = false
  before : h.before = []
  after : h.after = []
  rem_mem : ∀ z ∈ h.remove, z ∈ xs
  add_mem : ∀ z ∈ h.add, z ∈ ys
  rem_count : ∀ c, (h.remove.map (hashCode o)).count c =
    (xs.map (hashCode o)).count c - (ys.map (hashCode o)).count c
  add_count : ∀ c, (h.add.map (hashCode o)).count c =
    (ys.map (hashCode o)).count c - (xs.map (hashCode o)).count c
  nonempty : h.remove ≠ [] ∨ h.add ≠ []

/-- the removed members of a set diff, with no hypothesis on the sub-diffs -/
theorem rem_spec (o : Opts) (p : Path) (ys : List Json) :
    ∀ (xs : List Json),
      (∀ z ∈ (diffSetElems o false p ys xs).filterMap remOf, z ∈ xs) ∧
      (((diffSetElems o false p ys xs).filterMap remOf).map (identOf o)).Nodup ∧
      (∀ h, h ∈ ((diffSetElems o false p ys xs).filterMap remOf).map (identOf o) ↔
        h ∈ xs.map (identOf o) ∧ h ∉ ys.map (identOf o))
  | [] => by simp [diffSetElems_nil]
  | x :: r => by
    obtain ⟨b, c, d⟩ := rem_spec o p ys r
    rw [diffSetElems_cons]
    by_cases hc : (r.map (identOf o)).contains (identOf o x) = true
    · rw [if_pos hc]
      have hc' : identOf o x ∈ r.map (identOf o) := by simpa using hc
      refine ⟨fun z hz => List.mem_cons_of_mem _ (b z hz), c, fun h => ?_⟩
      rw [d h]
      simp only [List.map_cons, List.mem_cons]
      constructor
      · rintro ⟨h1, h2⟩; exact ⟨Or.inr h1, h2⟩
      · rintro ⟨h1 | h1, h2⟩
        · exact ⟨h1 ▸ hc', h2⟩
        · exact ⟨h1, h2⟩
    · rw [if_neg hc]
      have hc' : identOf o x ∉ r.map (identOf o) := by simpa using hc
      cases e : identLookup o (identOf o x) ys with
      | none =>
        have hny := identLookup_none.1 e
        simp only []
        refine ⟨?_, ?_, ?_⟩
        · intro z hz
          simp only [List.filterMap_cons, remOf, List.mem_cons] at hz
          rcases hz with rfl | hz
          · exact List.mem_cons_self
          · exact List.mem_cons_of_mem _ (b z hz)
        · simp only [List.filterMap_cons, remOf, List.map_cons, List.nodup_cons]
          refine ⟨fun hm => hc' ((d _).1 hm).1, c⟩
        · intro h
          simp only [List.filterMap_cons, remOf, List.map_cons, List.mem_cons]
          rw [d h]
          constructor
          · rintro (rfl | ⟨h1, h2⟩)
            · exact ⟨Or.inl rfl, hny⟩
            · exact ⟨Or.inr h1, h2⟩
          · rintro ⟨h1 | h1, h2⟩
            · exact Or.inl h1
            · exact Or.inr ⟨h1, h2⟩
      | some y =>
        obtain ⟨hy, hyi⟩ := identLookup_some e
        have hin : identOf o x ∈ ys.map (identOf o) := hyi ▸ List.mem_map_of_mem hy
        have hd : ∀ h, h ∈ ((diffSetElems o false p ys r).filterMap remOf).map (identOf o) ↔
            h ∈ (x :: r).map (identOf o) ∧ h ∉ ys.map (identOf o) := by
          intro h
          rw [d h]
          simp only [List.map_cons, List.mem_cons]
          constructor
          · rintro ⟨h1, h2⟩; exact ⟨Or.inr h1, h2⟩
          · rintro ⟨h1 | h1, h2⟩
            · exact absurd (h1 ▸ hin) h2
            · exact ⟨h1, h2⟩
        simp only []
        split
        · refine ⟨?_, ?_, ?_⟩
          · intro z hz
            simp only [List.filterMap_cons, remOf] at hz
            exact List.mem_cons_of_mem _ (b z hz)
          · simpa only [List.filterMap_cons, remOf] using c
          · intro h
            simp only [List.filterMap_cons, remOf]
            exact hd h
        · exact ⟨fun z hz => List.mem_cons_of_mem _ (b z hz), c, hd⟩

/-- the same after sorting the parts by identity -/
theorem rem_spec_sorted (o : Opts) (p : Path) (xs ys : List Json) :
    (∀ z ∈ (ksort (diffSetElems o false p ys xs)).filterMap remOf, z ∈ xs) ∧
    (((ksort (diffSetElems o false p ys xs)).filterMap remOf).map (identOf o)).Nodup ∧
    (∀ h, h ∈ ((ksort (diffSetElems o false p ys xs)).filterMap remOf).map (identOf o) ↔
      h ∈ xs.map (identOf o) ∧ h ∉ ys.map (identOf o)) := by
  obtain ⟨b, c, d⟩ := rem_spec o p ys xs
  have hp := ksort_perm (diffSetElems o false p ys xs)
  have hp' := hp.filterMap remOf
  refine ⟨fun z hz => b z (hp'.mem_iff.1 hz), ?_, fun h => ?_⟩
  · exact ((hp'.map (identOf o)).nodup_iff).2 c
  · rw [(hp'.map (identOf o)).mem_iff]; exact d h

/-- the identities of the added members of a set diff are distinct -/
theorem setAdd_nodup (o : Opts) (xs ys : List Json) : ((setAdd o xs ys).map (identOf o)).Nodup := by
  have hmem : ∀ h, h ∈ hsort (hdedup ((ys.map (identOf o)).filter
      (fun h => !(xs.map (identOf o)).contains h))) → h ∈ ys.map (identOf o) := by
    intro h hh
    rw [(hsort_perm _).mem_iff, mem_hdedup, List.mem_filter] at hh
    exact hh.1
  obtain ⟨h1, _⟩ := filterMap_identLookup (o := o) (ys := ys) _ hmem
  unfold setAdd
  rw [h1]
  exact (hsort_perm _).nodup_iff.2 (nodup_hdedup _)

/-- **one array, SET reading**: the hunk addressed to the array itself is real -/
theorem set_hunk_real (o : Opts) (p : Path) (xs ys : List Json) {h : Hunk}
    (hm : h ∈ (if ((ksort (diffSetElems o false p ys xs)).filterMap remOf).isEmpty &&
            (setAdd o xs ys).isEmpty then []
         else [{ path := p ++ [.set],
                 remove := (ksort (diffSetElems o false p ys xs)).filterMap remOf,
                 add := setAdd o xs ys : Hunk }])) :
    h.path = p ++ [.set] ∧ SetHunkReal o xs ys h := by
  split at hm
  · cases hm
  · next hne =>
    simp only [List.mem_singleton] at hm
    subst hm
    obtain ⟨r1, r2, r3⟩ := rem_spec_sorted o p xs ys
    obtain ⟨a1, a2⟩ := setAdd_spec o xs ys
    refine ⟨rfl, ⟨rfl, rfl, rfl, r1, a1, r3, a2, r2, setAdd_nodup o xs ys, ?_⟩⟩
    simp only [Bool.and_eq_true, List.isEmpty_iff, not_and] at hne
    by_cases h1 : (ksort (diffSetElems o false p ys xs)).filterMap remOf = []
    · exact .inr (hne h1)
    · exact .inl h1

/-- **one array, MULTISET reading**: the hunk is real -/
theorem mset_hunk_real {o : Opts} (hd : dispatchTag o = .mset) (p : Path) (xs ys : List Json)
    {h : Hunk} (hm : h ∈ diffNode o false (.arr .raw xs) (.arr .raw ys) p) :
    h.path = p ++ [.mset] ∧ MsetHunkReal o xs ys h := by
  rw [diffNode_mset_mset hd] at hm
  split at hm
  · cases hm
  · next hne =>
    simp only [List.mem_singleton] at hm
    subst hm
    obtain ⟨r1, r2⟩ := bagSurplus_spec o xs ys
    obtain ⟨a1, a2⟩ := bagSurplus_spec o ys xs
    refine ⟨rfl, ⟨rfl, rfl, rfl, r1, a1, r2, a2, ?_⟩⟩
    simp only [Bool.and_eq_true, List.isEmpty_iff, not_and] at hne
    by_cases h1 : bagSurplus o xs ys = []
    · exact .inr (hne h1)
    · exact .inl h1

/-- in a set hunk no removed member has the identity of an added member -/
theorem SetHunkReal.apart {o : Opts} {xs ys : List Json} {h : Hunk} (H : SetHunkReal o xs ys h) :
    ∀ r ∈ h.remove, ∀ w ∈ h.add, identOf o r ≠ identOf o w := by
  intro r hr w hw e
  have h1 := ((H.rem_ids _).1 (List.mem_map_of_mem (f := identOf o) hr)).2
  have h2 := ((H.add_ids _).1 (List.mem_map_of_mem (f := identOf o) hw)).1
  exact h1 (e ▸ h2)

/-- in a multiset hunk no removed member has the hash code of an added member -/
theorem MsetHunkReal.apart {o : Opts} {xs ys : List Json} {h : Hunk} (H : MsetHunkReal o xs ys h) :
    ∀ r ∈ h.remove, ∀ w ∈ h.add, hashCode o r ≠ hashCode o w := by
  intro r hr w hw e
  have h1 : 0 < (h.remove.map (hashCode o)).count (hashCode o r) :=
    List.count_pos_iff.2 (List.mem_map_of_mem hr)
  have h2 : 0 < (h.add.map (hashCode o)).count (hashCode o r) :=
    List.count_pos_iff.2 (e ▸ List.mem_map_of_mem hw)
  rw [H.rem_count] at h1
  rw [H.add_count] at h2
  omega

/-! ## 3. every hunk, at any depth, describes a real difference -/

theorem identLookup_cons_of_some {o : Opts} {c : UInt64} {x z : Json} {r : List Json}
    (h : identLookup o c r = some z) : identLookup o c (x :: r) = some z := by
  simp only [identLookup, h]

theorem identLookup_cons_last {o : Opts} {x : Json} {r : List Json}
    (h : identOf o x ∉ r.map (identOf o)) : identLookup o (identOf o x) (x :: r) = some x := by
  simp only [identLookup, identLookup_none.2 h, beq_self_eq_true, if_true]

/-- a sub-diff among the parts of a set diff: the LAST bearers of one identity on either side, both
    objects -/
theorem sub_origin_last (o : Opts) (p : Path) (ys : List Json) :
    ∀ (xs : List Json) (c : UInt64) (d : Diff), (c, SetPart.sub d) ∈ diffSetElems o false p ys xs →
      ∃ kvs kvs', c = identOf o (.obj kvs) ∧ identLookup o c xs = some (.obj kvs) ∧
        identLookup o c ys = some (.obj kvs') ∧
        d = diffNode o false (.obj kvs) (.obj kvs') (p ++ [newPathSetKeys o kvs])
  | [], c, d, hm => by simp [diffSetElems_nil] at hm
  | x :: r, c, d, hm => by
    have lift : (c, SetPart.sub d) ∈ diffSetElems o false p ys r →
        ∃ kvs kvs', c = identOf o (.obj kvs) ∧ identLookup o c (x :: r) = some (.obj kvs) ∧
          identLookup o c ys = some (.obj kvs') ∧
          d = diffNode o false (.obj kvs) (.obj kvs') (p ++ [newPathSetKeys o kvs]) := fun hh => by
      obtain ⟨kvs, kvs', h1, h2, h3⟩ := sub_origin_last o p ys r c d hh
      exact ⟨kvs, kvs', h1, identLookup_cons_of_some h2, h3⟩
    rw [diffSetElems_cons] at hm
    split at hm
    · exact lift hm
    · next hc =>
      have hc' : identOf o x ∉ r.map (identOf o) := by simpa using hc
      split at hm
      · rcases List.mem_cons.1 hm with he | hm
        · simp at he
        · exact lift hm
      · next y e =>
        split at hm
        · next kvs kvs' =>
          rcases List.mem_cons.1 hm with he | hm
          · simp only [Prod.mk.injEq, SetPart.sub.injEq] at he
            obtain ⟨rfl, rfl⟩ := he
            exact ⟨kvs, kvs', rfl, identLookup_cons_last hc', e, rfl⟩
          · exact lift hm
        · exact lift hm

/-- the hunk `h` of `diffNode o false a b p` describes a real difference between `a` and `b`:
    * `value`: it is addressed to the location `q` (keys and keyed set members below `p`) and replaces
      what `a` holds there by what `b` holds there (`Real.RealOpt`: at most one value each way, the
      removed value is what `a` holds — an array is reported plain —, the added value is what `b`
      holds, nothing is removed / added only if nothing (or void) is held, and the two are not
      `Equals`); at least one of the two documents holds something there, and they do not both hold
      void; `lit`: in these readings the removed value is LITERALLY what `a` holds (a plain array
      is reported as a plain array);
    * `set` / `mset`: it is addressed to the array both documents hold at `q`, read as a set / multiset,
      and is a real set / multiset hunk of these two arrays. -/
inductive HunkReal (o : Opts) (a b : Json) (p : Path) (h : Hunk) : Prop
  | value (q : Path) (hq : navPath q = true) (hpath : h.path = p ++ q) (hm : h.merge = false)
      (hb : h.before = []) (ha : h.after = [])
      (loc : (navS o a q).isSome = true ∨ (navS o b q).isSome = true)
      (ne : ¬ (navS o a q = some .void ∧ navS o b q = some .void))
      (lit : ∀ v, h.remove = [v] → navS o a q = some v)
      (real : Real.RealOpt o (navS o a q) (navS o b q) h)
  | set (q : Path) (xs ys : List Json) (hq : navPath q = true) (hpath : h.path = p ++ q ++ [.set])
      (na : navS o a q = some (.arr .raw xs)) (nb : navS o b q = some (.arr .raw ys))
      (real : SetHunkReal o xs ys h)
  | mset (q : Path) (xs ys : List Json) (hq : navPath q = true) (hpath : h.path = p ++ q ++ [.mset])
      (na : navS o a q = some (.arr .raw xs)) (nb : navS o b q = some (.arr .raw ys))
      (real : MsetHunkReal o xs ys h)

theorem HunkReal.root {o : Opts} {a b : Json} {p : Path} {h : Hunk} (hpath : h.path = p)
    (hm : h.merge = false) (hb : h.before = []) (ha : h.after = [])
    (ne : ¬ (a = .void ∧ b = .void)) (lit : ∀ v, h.remove = [v] → a = v)
    (real : Real.RealOpt o (some a) (some b) h) : HunkReal o a b p h :=
  .value [] rfl (by simp [hpath]) hm hb ha (.inl (by simp [navS_nil]))
    (by simpa [navS_nil] using ne) (by simpa [navS_nil] using lit) (by simpa [navS_nil] using real)

theorem HunkReal.lift_key {o : Opts} {kvs kvs' : List (String × Json)} {k : String} {v v' : Json}
    {p : Path} {h : Hunk} (hl : alookup k kvs = some v) (hl' : alookup k kvs' = some v')
    (H : HunkReal o v v' (p ++ [.key k]) h) : HunkReal o (.obj kvs) (.obj kvs') p h := by
  have e1 : ∀ q, navS o (.obj kvs) (.key k :: q) = navS o v q := fun q => by
    rw [navS_key, hl]; rfl
  have e2 : ∀ q, navS o (.obj kvs') (.key k :: q) = navS o v' q := fun q => by
    rw [navS_key, hl']; rfl
  cases H with
  | value q hq hpath hm hb ha loc ne lit real =>
    exact .value (.key k :: q) (by simpa [navPath] using hq) (by simpa using hpath) hm hb ha
      (by rw [e1, e2]; exact loc) (by rw [e1, e2]; exact ne) (by rw [e1]; exact lit)
      (by rw [e1, e2]; exact real)
  | set q xs ys hq hpath na nb real =>
    exact .set (.key k :: q) xs ys (by simpa [navPath] using hq) (by simpa using hpath)
      (by rw [e1]; exact na) (by rw [e2]; exact nb) real
  | mset q xs ys hq hpath na nb real =>
    exact .mset (.key k :: q) xs ys (by simpa [navPath] using hq) (by simpa using hpath)
      (by rw [e1]; exact na) (by rw [e2]; exact nb) real

theorem HunkReal.lift_member {o : Opts} {t t' : Tag} {xs ys : List Json}
    {kvs kvs' : List (String × Json)} {p : Path} {h : Hunk}
    (hx : identLookup o (identOf o (.obj kvs)) xs = some (.obj kvs))
    (hy : identLookup o (identOf o (.obj kvs)) ys = some (.obj kvs'))
    (H : HunkReal o (.obj kvs) (.obj kvs') (p ++ [.setKeys kvs]) h) :
    HunkReal o (.arr t xs) (.arr t' ys) p h := by
  have e1 : ∀ q, navS o (.arr t xs) (.setKeys kvs :: q) = navS o (.obj kvs) q := fun q => by
    rw [navS_setKeys, hx]
  have e2 : ∀ q, navS o (.arr t' ys) (.setKeys kvs :: q) = navS o (.obj kvs') q := fun q => by
    rw [navS_setKeys, hy]
  cases H with
  | value q hq hpath hm hb ha loc ne lit real =>
    exact .value (.setKeys kvs :: q) (by simpa [navPath] using hq) (by simpa using hpath) hm hb ha
      (by rw [e1, e2]; exact loc) (by rw [e1, e2]; exact ne) (by rw [e1]; exact lit)
      (by rw [e1, e2]; exact real)
  | set q xs0 ys0 hq hpath na nb real =>
    exact .set (.setKeys kvs :: q) xs0 ys0 (by simpa [navPath] using hq) (by simpa using hpath)
      (by rw [e1]; exact na) (by rw [e2]; exact nb) real
  | mset q xs0 ys0 hq hpath na nb real =>
    exact .mset (.setKeys kvs :: q) xs0 ys0 (by simpa [navPath] using hq) (by simpa using hpath)
      (by rw [e1]; exact na) (by rw [e2]; exact nb) real

theorem nodeList_single {a v : Json} (h : a.nodeList = [v]) : a = v := by
  rcases Real.nodeList_cases a with ⟨_, e⟩ | ⟨_, e⟩ <;> rw [e] at h
  · cases h
  · cases h; rfl

theorem diffCommon_fields {a b : Json} {p : Path} {h : Hunk} (hm : h ∈ diffCommon false a b p) :
    h.path = p ∧ h.merge = false ∧ h.before = [] ∧ h.after = [] := by
  unfold diffCommon at hm
  split at hm
  · cases hm
  · simp only [Bool.false_eq_true, if_false, List.mem_singleton] at hm
    subst hm
    exact ⟨rfl, rfl, rfl, rfl⟩

theorem scalar_hunk_real {o : Opts} (hp : precOf o = 0) {a b : Json} {p : Path} {h : Hunk}
    (h1 : ∀ t xs, a ≠ .arr t xs) (h2 : ∀ kvs, a ≠ .obj kvs)
    (hm : h ∈ diffNode o false a b p) : HunkReal o a b p h := by
  have real := Real.root_scalar_real hp h1 h2 hm
  rw [DPL.diffNode_scalar o a b h1 h2] at hm
  obtain ⟨e1, e2, e3, e4⟩ := diffCommon_fields hm
  refine .root e1 e2 e3 e4 ?_ ?_ real
  · rintro ⟨rfl, rfl⟩
    simp [diffCommon, equals, Json.isVoid] at hm
  · intro v hv
    unfold diffCommon at hm
    split at hm
    · cases hm
    · simp only [Bool.false_eq_true, if_false, List.mem_singleton] at hm
      subst hm
      exact nodeList_single hv

/-- an array against a value that is not an array: one hunk replacing the value -/
theorem arr_other_hunk_real {o : Opts} (hd : dispatchTag o = .set ∨ dispatchTag o = .mset)
    (xs : List Json) (b : Json) (hb : ∀ t ys, b ≠ .arr t ys) {p : Path} {h : Hunk}
    (hm : h ∈ diffNode o false (.arr .raw xs) b p) : HunkReal o (.arr .raw xs) b p h := by
  rw [diffNode_arr_other hd xs b hb] at hm
  simp only [List.mem_singleton] at hm
  subst hm
  refine .root rfl rfl rfl rfl (fun e => by cases e.1) (fun v hv => by cases hv; rfl)
    (Real.realOpt_both (.inl rfl) (.inl rfl) ?_ ?_)
  · rcases hd with hd | hd <;> cases b <;>
      first | exact absurd rfl (hb _ _) | simp [equals, effTag, hd, Json.dispatch]
  · cases b <;> first | exact absurd rfl (hb _ _) | simp [Real.asList, equals, effTag, Json.dispatch]

/-- an object against a value that is not an object: one hunk replacing the value -/
theorem obj_other_hunk_real {o : Opts} (kvs : List (String × Json)) (b : Json)
    (hb : ∀ kvs', b ≠ .obj kvs') {p : Path} {h : Hunk}
    (hm : h ∈ diffNode o false (.obj kvs) b p) : HunkReal o (.obj kvs) b p h := by
  rw [DPL.diffNode_obj_other o kvs b hb] at hm
  simp only [List.mem_singleton] at hm
  subst hm
  refine .root rfl rfl rfl rfl (fun e => by cases e.1) (fun v hv => by cases hv; rfl)
    (Real.realOpt_both (.inl rfl) (.inr rfl) ?_ ?_)
  · cases b <;> first | exact absurd rfl (hb _) | simp [equals]
  · cases b <;> first | exact absurd rfl (hb _) | simp [Real.asList, equals]

/-- the first loop of the object diff: every hunk belongs to one binding of the first object -/
theorem mem_diffKvs (o : Opts) (p : Path) (kvs' : List (String × Json)) :
    ∀ {kvs : List (String × Json)} {h : Hunk}, h ∈ diffKvs o false p kvs' kvs →
      ∃ k v, (k, v) ∈ kvs ∧
        ((∃ v', alookup k kvs' = some v' ∧ h ∈ diffNode o false v v' (p ++ [.key k])) ∨
         (alookup k kvs' = none ∧ h = { path := p ++ [.key k], remove := v.nodeList }))
  | [], h, hm => by simp [DE.diffKvs_nil] at hm
  | (k, v) :: r, h, hm => by
    rw [DE.diffKvs_cons] at hm
    rcases List.mem_append.1 hm with hm | hm
    · refine ⟨k, v, List.mem_cons_self, ?_⟩
      cases hlk : alookup k kvs' with
      | none =>
        simp only [hlk, Bool.false_eq_true, if_false, List.mem_singleton] at hm
        exact .inr ⟨rfl, hm⟩
      | some v' =>
        simp only [hlk] at hm
        exact .inl ⟨v', rfl, hm⟩
    · obtain ⟨k0, v0, hmem, hk⟩ := mem_diffKvs o p kvs' hm
      exact ⟨k0, v0, List.mem_cons_of_mem _ hmem, hk⟩

/-- **C07 (1)+(2), SET and MULTISET readings, any depth**: every hunk of `diffNode o false a b p`
    describes a real difference (`HunkReal`) -/
theorem hunk_real {o : Opts} (hm : DES.SetReading o) (hp : precOf o = 0) :
    ∀ a : Json, a.rawDoc = true → a.wf = true → ∀ b : Json, b.rawDoc = true → b.wf = true →
      ∀ p, ∀ h ∈ diffNode o false a b p, HunkReal o a b p h := by
  have hd' : dispatchTag o = .set ∨ dispatchTag o = .mset := by
    rcases hm with ⟨hd, _⟩ | hd
    · exact .inl hd
    · exact .inr hd
  intro a
  induction a using jsonInd with
  | void =>
    intro _ _ b _ _ p h hh
    exact scalar_hunk_real hp (fun _ _ e => by cases e) (fun _ e => by cases e) hh
  | null =>
    intro _ _ b _ _ p h hh
    exact scalar_hunk_real hp (fun _ _ e => by cases e) (fun _ e => by cases e) hh
  | bool x =>
    intro _ _ b _ _ p h hh
    exact scalar_hunk_real hp (fun _ _ e => by cases e) (fun _ e => by cases e) hh
  | num x =>
    intro _ _ b _ _ p h hh
    exact scalar_hunk_real hp (fun _ _ e => by cases e) (fun _ e => by cases e) hh
  | str x =>
    intro _ _ b _ _ p h hh
    exact scalar_hunk_real hp (fun _ _ e => by cases e) (fun _ e => by cases e) hh
  | arr t xs ih =>
    intro hr hw b hrb hwb p h hh
    simp only [Json.rawDoc, Bool.and_eq_true, beq_iff_eq] at hr
    obtain ⟨rfl, hrx⟩ := hr
    simp only [Json.wf] at hw
    by_cases hb : ∃ t' ys, b = .arr t' ys
    · obtain ⟨t', ys, rfl⟩ := hb
      simp only [Json.rawDoc, Bool.and_eq_true, beq_iff_eq] at hrb
      obtain ⟨rfl, hry⟩ := hrb
      simp only [Json.wf] at hwb
      rcases hm with ⟨hd, hk⟩ | hd
      · rw [diffNode_set_set hd] at hh
        rcases List.mem_append.1 hh with hh | hh
        · obtain ⟨⟨c, part⟩, hkp, hin⟩ := List.mem_flatMap.1 hh
          cases part with
          | removed z => simp [subOf] at hin
          | sub d =>
            simp only [subOf] at hin
            obtain ⟨kvs, kvs', rfl, hx, hy, rfl⟩ :=
              sub_origin_last o p ys xs c d ((ksort_perm _).mem_iff.1 hkp)
            have hxm := (identLookup_some hx).1
            have hym := (identLookup_some hy).1
            have hnp : newPathSetKeys o kvs = .setKeys kvs := by simp [newPathSetKeys, hk]
            rw [hnp] at hin
            exact .lift_member hx hy (ih _ hxm (DES.rawDocList_mem hrx hxm) (DES.wfList_mem hw hxm) _
              (DES.rawDocList_mem hry hym) (DES.wfList_mem hwb hym) _ h hin)
        · obtain ⟨e, real⟩ := set_hunk_real o p xs ys hh
          exact .set [] xs ys rfl (by simpa using e) (navS_nil _ _) (navS_nil _ _) real
      · obtain ⟨e, real⟩ := mset_hunk_real hd p xs ys hh
        exact .mset [] xs ys rfl (by simpa using e) (navS_nil _ _) (navS_nil _ _) real
    · exact arr_other_hunk_real hd' xs b (fun t' ys e => hb ⟨t', ys, e⟩) hh
  | obj kvs ih =>
    intro hr hw b hrb hwb p h hh
    by_cases hb : ∃ kvs', b = .obj kvs'
    · obtain ⟨kvs', rfl⟩ := hb
      simp only [Json.rawDoc] at hr hrb
      simp only [Json.wf, Bool.and_eq_true] at hw hwb
      rw [DE.diffNode_obj_obj] at hh
      rcases List.mem_append.1 hh with hh | hh
      · obtain ⟨k, v, hmem, hcase⟩ := mem_diffKvs o p kvs' hh
        have hl := alookup_of_mem hw.1 hmem
        rcases hcase with ⟨v', hl', hin⟩ | ⟨hn, rfl⟩
        · have hmem' := mem_of_alookup hl'
          exact .lift_key hl hl' (ih k v hmem (DES.rawDocKvs_mem hr hmem) (DES.wfKvs_mem hw.2 hmem) v'
            (DES.rawDocKvs_mem hrb hmem') (DES.wfKvs_mem hwb.2 hmem') _ h hin)
        · refine .value [.key k] rfl rfl rfl rfl rfl (.inl ?_) ?_ ?_ ?_
          · rw [navS_key, hl]; rfl
          · rintro ⟨_, e⟩
            rw [navS_key, hn] at e
            cases e
          · intro v0 hv0
            rw [navS_key, hl, nodeList_single hv0]; rfl
          · have e1 : navS o (.obj kvs) [.key k] = some v := by rw [navS_key, hl]; rfl
            have e2 : navS o (.obj kvs') [.key k] = none := by rw [navS_key, hn]; rfl
            rw [e1, e2]
            exact Real.realOpt_removeOnly rfl rfl
      · obtain ⟨kv, hkv, rfl⟩ := List.mem_map.1 hh
        simp only [List.mem_filter, Option.isNone_iff_eq_none] at hkv
        have hl' := alookup_of_mem hwb.1 (show (kv.1, kv.2) ∈ kvs' from hkv.1)
        have e1 : navS o (.obj kvs) [.key kv.1] = none := by rw [navS_key, hkv.2]; rfl
        have e2 : navS o (.obj kvs') [.key kv.1] = some kv.2 := by rw [navS_key, hl']; rfl
        refine .value [.key kv.1] rfl rfl rfl rfl rfl (.inr (by rw [e2]; rfl))
          (by rw [e1]; rintro ⟨e, _⟩; cases e) (fun v hv => by cases hv) ?_
        rw [e1, e2]
        exact Real.realOpt_addOnly rfl rfl
    · exact obj_other_hunk_real kvs b (fun kvs' e => hb ⟨kvs', e⟩) hh

/-! ## 4. corollaries: `a.Diff(b)`, membership up to `Equals`, no empty hunk -/

/-- **C07 (1)+(2) for `a.Diff(b)`** in the SET / MULTISET readings (strict strategy) -/
theorem diffM_hunk_real {o : Opts} (hm : DES.SetReading o) (hp : precOf o = 0)
    (hmg : isMerge o = false) {a b : Json} (hr : a.rawDoc = true) (hw : a.wf = true)
    (hrb : b.rawDoc = true) (hwb : b.wf = true) : ∀ h ∈ diffM o a b, HunkReal o a b [] h := by
  rw [diffM, hmg]
  exact hunk_real hm hp a hr hw b hrb hwb []

/-- what navigation reaches is a node of the document -/
theorem navS_subterm (o : Opts) : ∀ (q : Path) (a v : Json), navS o a q = some v → v ∈ subterms a
  | [], a, v, h => by
    rw [navS_nil] at h
    cases h
    exact mem_subterms_self _
  | .key k :: r, a, v, h => by
    cases a with
    | obj kvs =>
      rw [navS_key] at h
      cases hl : alookup k kvs with
      | none => rw [hl] at h; cases h
      | some u =>
        rw [hl] at h
        exact subterms_val_sub (mem_of_alookup hl) (navS_subterm o r u v h)
    | _ => cases h
  | .setKeys po :: r, a, v, h => by
    cases a with
    | arr t xs =>
      rw [navS_setKeys] at h
      split at h
      · next kvs e =>
        exact subterms_elem_sub (identLookup_some e).1 (navS_subterm o r _ v h)
      · cases h
    | _ => cases h
  | .idx _ :: _, a, _, h => by cases a <;> cases h
  | .set :: _, a, _, h => by cases a <;> cases h
  | .mset :: _, a, _, h => by cases a <;> cases h
  | .msetKeys _ :: _, a, _, h => by cases a <;> cases h

theorem memOKList_mem : ∀ {xs : List Json} {x : Json}, DPL.memOKList xs = true → x ∈ xs →
    DPL.memOK x = true
  | [], _, _, h => by cases h
  | y :: r, x, hl, h => by
    simp only [DPL.memOKList, Bool.and_eq_true] at hl
    rcases List.mem_cons.1 h with rfl | h
    · exact hl.1
    · exact memOKList_mem hl.2 h

theorem memOKKvs_mem : ∀ {kvs : List (String × Json)} {k : String} {v : Json},
    DPL.memOKKvs kvs = true → (k, v) ∈ kvs → v.isVoid = false ∧ DPL.memOK v = true
  | [], _, _, _, h => by cases h
  | (k', v') :: r, k, v, hl, h => by
    simp only [DPL.memOKKvs, Bool.and_eq_true, Bool.not_eq_true'] at hl
    rcases List.mem_cons.1 h with e | h
    · cases e; exact ⟨hl.1.1, hl.1.2⟩
    · exact memOKKvs_mem hl.2 h

/-- without void object members, navigation reaches void only at a void root -/
theorem navS_void (o : Opts) : ∀ (q : Path) (a : Json), DPL.memOK a = true →
    navS o a q = some .void → q = [] ∧ a = .void
  | [], a, _, h => by
    rw [navS_nil] at h
    cases h
    exact ⟨rfl, rfl⟩
  | .key k :: r, a, hm, h => by
    cases a with
    | obj kvs =>
      rw [navS_key] at h
      cases hl : alookup k kvs with
      | none => rw [hl] at h; cases h
      | some u =>
        rw [hl] at h
        obtain ⟨h1, h2⟩ := memOKKvs_mem (by simpa [DPL.memOK] using hm) (mem_of_alookup hl)
        obtain ⟨_, rfl⟩ := navS_void o r u h2 h
        simp [Json.isVoid] at h1
    | _ => cases h
  | .setKeys po :: r, a, hm, h => by
    cases a with
    | arr t xs =>
      rw [navS_setKeys] at h
      split at h
      · next kvs e =>
        have := navS_void o r _
          (memOKList_mem (by simpa [DPL.memOK] using hm) (identLookup_some e).1) h
        cases this.2
      · cases h
    | _ => cases h
  | .idx _ :: _, a, _, h => by cases a <;> cases h
  | .set :: _, a, _, h => by cases a <;> cases h
  | .mset :: _, a, _, h => by cases a <;> cases h
  | .msetKeys _ :: _, a, _, h => by cases a <;> cases h

/-- **C07 (2), no hunk is empty**: documents without void object members (void stands for "absent";
    the readers never produce it) -/
theorem HunkReal.nonempty {o : Opts} {a b : Json} {p : Path} {h : Hunk}
    (ha : DPL.memOK a = true) (hb : DPL.memOK b = true) (H : HunkReal o a b p h) :
    h.remove ≠ [] ∨ h.add ≠ [] := by
  cases H with
  | set q xs ys hq hpath na nb real => exact real.nonempty
  | mset q xs ys hq hpath na nb real => exact real.nonempty
  | value q hq hpath hm hbf haf loc ne lit real =>
    obtain ⟨_, _, _, _, r5, r6, _⟩ := real
    apply Classical.byContradiction
    intro hcon
    have h1 : h.remove = [] := Classical.byContradiction fun e => hcon (.inl e)
    have h2 : h.add = [] := Classical.byContradiction fun e => hcon (.inr e)
    have key : ∀ {x y : Json}, DPL.memOK x = true → (∀ u, navS o x q = some u → u = .void) →
        (∀ u, navS o y q = some u → u = .void) → (navS o x q).isSome = true →
        navS o x q = some .void ∧ navS o y q = some .void := by
      intro x y hx hxv hyv hs
      obtain ⟨u, hu⟩ := Option.isSome_iff_exists.1 hs
      have := hxv u hu
      subst this
      obtain ⟨rfl, rfl⟩ := navS_void o q x hx hu
      refine ⟨hu, ?_⟩
      rw [navS_nil]
      rw [hyv y (navS_nil o y)]
    rcases loc with hs | hs
    · exact ne (key ha (r5 h1) (r6 h2) hs)
    · exact ne (key hb (r6 h2) (r5 h1) hs).symm

theorem docOk_subterm {a v : Json} (h : DocOk a) (hv : v ∈ subterms a) : DocOk v :=
  fun z hz => h z (DES.subterms_trans hz a hv)

/-- **C07 (2), up to `Equals`**: no removed value is `Equals` to an added value of the same hunk
    (`FloatEq0`: numbers that are `Equals` have the same hash code) -/
theorem HunkReal.not_equals (F : FloatEq0) {o : Opts}
    (hd : dispatchTag o = .set ∨ dispatchTag o = .mset) (hk : keysOf o = none) (hp : precOf o = 0)
    {a b : Json} {p : Path} {h : Hunk} (da : DocOk a) (db : DocOk b) (H : HunkReal o a b p h) :
    ∀ r ∈ h.remove, ∀ w ∈ h.add, equals o r w = false := by
  intro r hr w hw
  cases H with
  | value q hq hpath hmg hbf haf loc ne lit real =>
    obtain ⟨l1, l2, _, _, _, _, r7⟩ := real
    have e1 : h.remove = [r] := by
      match hrm : h.remove, l1, hr with
      | [x], _, hr => simp only [List.mem_singleton] at hr; rw [hr]
    have e2 : h.add = [w] := by
      match hrm : h.add, l2, hw with
      | [x], _, hw => simp only [List.mem_singleton] at hw; rw [hw]
    exact r7 r w e1 e2
  | set q xs ys hq hpath na nb real =>
    have dr : DocOk r := (docOk_subterm da (navS_subterm o q a _ na)).elem (real.rem_mem r hr)
    have dw : DocOk w := (docOk_subterm db (navS_subterm o q b _ nb)).elem (real.add_mem w hw)
    cases he : equals o r w with
    | false => rfl
    | true =>
      have := DES.hash_eq_of_equals F hd hp r w dr dw he
      rw [← identOf_eq_hashCode hk, ← identOf_eq_hashCode hk] at this
      exact absurd this (real.apart r hr w hw)
  | mset q xs ys hq hpath na nb real =>
    have dr : DocOk r := (docOk_subterm da (navS_subterm o q a _ na)).elem (real.rem_mem r hr)
    have dw : DocOk w := (docOk_subterm db (navS_subterm o q b _ nb)).elem (real.add_mem w hw)
    cases he : equals o r w with
    | false => rfl
    | true => exact absurd (DES.hash_eq_of_equals F hd hp r w dr dw he) (real.apart r hr w hw)

theorem navPath_snoc_set (q : Path) : navPath (q ++ [PathElem.set]) = false := by
  induction q with
  | nil => rfl
  | cons e r ih => cases e <;> simp [navPath, ih]

theorem navPath_snoc_mset (q : Path) : navPath (q ++ [PathElem.mset]) = false := by
  induction q with
  | nil => rfl
  | cons e r ih => cases e <;> simp [navPath, ih]

/-- **C07 (1), SET reading, a hunk located by its own path**: a hunk of `a.Diff(b)` whose path is
    `q ++ [{}]` is addressed to the arrays that `a` and `b` hold at `q`; every value it removes is a
    member of the first, every value it adds a member of the second (`SetHunkReal`) -/
theorem diffM_set_hunk_members {o : Opts} (hm : DES.SetReading o) (hp : precOf o = 0)
    (hmg : isMerge o = false) {a b : Json} (hr : a.rawDoc = true) (hw : a.wf = true)
    (hrb : b.rawDoc = true) (hwb : b.wf = true) {h : Hunk} (hh : h ∈ diffM o a b) {q : Path}
    (hpath : h.path = q ++ [.set]) :
    ∃ xs ys, navS o a q = some (.arr .raw xs) ∧ navS o b q = some (.arr .raw ys) ∧
      SetHunkReal o xs ys h := by
  cases diffM_hunk_real hm hp hmg hr hw hrb hwb h hh with
  | value q0 hq e _ _ _ _ _ _ _ =>
    rw [hpath, List.nil_append] at e
    rw [← e, navPath_snoc_set] at hq
    cases hq
  | set q0 xs ys hq e na nb real =>
    rw [hpath, List.nil_append] at e
    have := List.append_inj_left' e rfl
    subst this
    exact ⟨xs, ys, na, nb, real⟩
  | mset q0 xs ys hq e na nb real =>
    rw [hpath, List.nil_append] at e
    have := List.append_inj_right' e rfl
    cases this

/-- **C07 (1), MULTISET reading, a hunk located by its own path** -/
theorem diffM_mset_hunk_members {o : Opts} (hm : DES.SetReading o) (hp : precOf o = 0)
    (hmg : isMerge o = false) {a b : Json} (hr : a.rawDoc = true) (hw : a.wf = true)
    (hrb : b.rawDoc = true) (hwb : b.wf = true) {h : Hunk} (hh : h ∈ diffM o a b) {q : Path}
    (hpath : h.path = q ++ [.mset]) :
    ∃ xs ys, navS o a q = some (.arr .raw xs) ∧ navS o b q = some (.arr .raw ys) ∧
      MsetHunkReal o xs ys h := by
  cases diffM_hunk_real hm hp hmg hr hw hrb hwb h hh with
  | value q0 hq e _ _ _ _ _ _ _ =>
    rw [hpath, List.nil_append] at e
    rw [← e, navPath_snoc_mset] at hq
    cases hq
  | set q0 xs ys hq e na nb real =>
    rw [hpath, List.nil_append] at e
    have := List.append_inj_right' e rfl
    cases this
  | mset q0 xs ys hq e na nb real =>
    rw [hpath, List.nil_append] at e
    have := List.append_inj_left' e rfl
    subst this
    exact ⟨xs, ys, na, nb, real⟩

/-! ## 5. equal sub-documents are never mentioned -/

theorem snoc_prefix_unique {p l : Path} {e e' : PathElem} (h1 : (p ++ [e]) <+: l)
    (h2 : (p ++ [e']) <+: l) : e = e' := by
  have h3 := List.prefix_of_prefix_length_le h1 h2 (by simp)
  have h4 := h3.eq_of_length (by simp)
  have h5 := List.append_cancel_left h4
  simpa using h5

theorem prefix_snoc_of_prefix_cons {p q l : Path} {e : PathElem} (h : (p ++ e :: q) <+: l) :
    (p ++ [e]) <+: l :=
  List.IsPrefix.trans ⟨q, by simp⟩ h

/-- **C07 (3), SET and MULTISET readings**: if `a` and `b` hold `Equals` values at the location `q`
    (object keys and keyed set members), no hunk of the diff lies at or below `p ++ q`.
    `DiffFaithful` on the nodes of the two equal values: no FNV collision between array nodes, no
    collision / alias between object members of sets (JdProofs.DiffEmptySet). -/
theorem equal_subdoc_not_mentioned {o : Opts} (hm : DES.SetReading o) (hp : precOf o = 0) :
    ∀ (q : Path), navPath q = true → ∀ (a b : Json), a.rawDoc = true → a.wf = true →
      b.rawDoc = true → b.wf = true →
      ∀ v v', navS o a q = some v → navS o b q = some v' → equals o v v' = true →
      DES.DiffFaithful o (subterms v) (subterms v') →
      ∀ p, ∀ h ∈ diffNode o false a b p, ¬ (p ++ q) <+: h.path
  | [], _, a, b, hr, hw, _, hwb, v, v', hv, hv', he, FH, p, h, hh => by
    rw [navS_nil] at hv hv'
    cases hv; cases hv'
    rw [DES.diffNode_nil_of_equals hm hp false FH a hr hw (DES.within_subterms a) b hwb
      (DES.within_subterms b) he p] at hh
    cases hh
  | .key k :: q', hq, a, b, hr, hw, hrb, hwb, v, v', hv, hv', he, FH, p, h, hh => by
    simp only [navPath] at hq
    intro hpre
    have hpre1 := prefix_snoc_of_prefix_cons hpre
    cases a with
    | obj kvs =>
      cases b with
      | obj kvs' =>
        simp only [Json.rawDoc] at hr hrb
        simp only [Json.wf, Bool.and_eq_true] at hw hwb
        rw [navS_key] at hv hv'
        cases hu : alookup k kvs with
        | none => rw [hu] at hv; cases hv
        | some u =>
          cases hu' : alookup k kvs' with
          | none => rw [hu'] at hv'; cases hv'
          | some u' =>
            rw [hu] at hv
            rw [hu'] at hv'
            have hmu := mem_of_alookup hu
            have hmu' := mem_of_alookup hu'
            rw [DE.diffNode_obj_obj] at hh
            rcases List.mem_append.1 hh with hh | hh
            · obtain ⟨k0, v0, hmem, hcase⟩ := mem_diffKvs o p kvs' hh
              have hpre0 : (p ++ [PathElem.key k0]) <+: h.path := by
                rcases hcase with ⟨w, _, hin⟩ | ⟨_, rfl⟩
                · exact Real.diff_paths_extend_general o false v0 w _ h hin
                · exact List.prefix_refl _
              have hk : k0 = k := PathElem.key.inj (snoc_prefix_unique hpre0 hpre1)
              subst hk
              have hv0 := alookup_of_mem hw.1 hmem
              rw [hu] at hv0
              cases hv0
              rcases hcase with ⟨w, hw', hin⟩ | ⟨hn, _⟩
              · rw [hu'] at hw'
                cases hw'
                exact equal_subdoc_not_mentioned hm hp q' hq u u' (DES.rawDocKvs_mem hr hmu)
                  (DES.wfKvs_mem hw.2 hmu) (DES.rawDocKvs_mem hrb hmu') (DES.wfKvs_mem hwb.2 hmu')
                  v v' hv hv' he FH _ h hin (by simpa using hpre)
              · rw [hu'] at hn; cases hn
            · obtain ⟨kv, hkv, rfl⟩ := List.mem_map.1 hh
              simp only [List.mem_filter, Option.isNone_iff_eq_none] at hkv
              have hk : kv.1 = k :=
                PathElem.key.inj (snoc_prefix_unique (List.prefix_refl _) hpre1)
              rw [hk, hu] at hkv
              cases hkv.2
      | _ => cases hv'
    | _ => cases hv
  | .setKeys po :: q', hq, a, b, hr, hw, hrb, hwb, v, v', hv, hv', he, FH, p, h, hh => by
    simp only [navPath] at hq
    intro hpre
    have hpre1 := prefix_snoc_of_prefix_cons hpre
    cases a with
    | arr t xs =>
      cases b with
      | arr t' ys =>
        simp only [Json.rawDoc, Bool.and_eq_true, beq_iff_eq] at hr hrb
        obtain ⟨rfl, hrx⟩ := hr
        obtain ⟨rfl, hry⟩ := hrb
        simp only [Json.wf] at hw hwb
        rw [navS_setKeys] at hv hv'
        split at hv
        · next kx ex =>
          split at hv'
          · next ky ey =>
            have hm' := hm
            rcases hm with ⟨hd, hk⟩ | hd
            · rw [diffNode_set_set hd] at hh
              rcases List.mem_append.1 hh with hh | hh
              · obtain ⟨⟨c, part⟩, hkp, hin⟩ := List.mem_flatMap.1 hh
                cases part with
                | removed z => simp [subOf] at hin
                | sub d =>
                  simp only [subOf] at hin
                  obtain ⟨kvs, kvs', rfl, hx, hy, rfl⟩ :=
                    sub_origin_last o p ys xs c d ((ksort_perm _).mem_iff.1 hkp)
                  have hnp : newPathSetKeys o kvs = .setKeys kvs := by simp [newPathSetKeys, hk]
                  rw [hnp] at hin
                  have hpre0 := Real.diff_paths_extend_general o false _ _ _ h hin
                  have hkk : kvs = po := PathElem.setKeys.inj (snoc_prefix_unique hpre0 hpre1)
                  subst hkk
                  rw [ex] at hx
                  rw [ey] at hy
                  cases hx; cases hy
                  have hxm := (identLookup_some ex).1
                  have hym := (identLookup_some ey).1
                  exact equal_subdoc_not_mentioned hm' hp q' hq _ _ (DES.rawDocList_mem hrx hxm)
                    (DES.wfList_mem hw hxm) (DES.rawDocList_mem hry hym) (DES.wfList_mem hwb hym)
                    v v' hv hv' he FH _ h hin (by simpa using hpre)
              · obtain ⟨e, _⟩ := set_hunk_real o p xs ys hh
                rw [e] at hpre1
                have := snoc_prefix_unique hpre1 (List.prefix_refl _)
                cases this
            · obtain ⟨e, _⟩ := mset_hunk_real hd p xs ys hh
              rw [e] at hpre1
              have := snoc_prefix_unique hpre1 (List.prefix_refl _)
              cases this
          · cases hv'
        · cases hv
      | _ => cases hv'
    | _ => cases hv
  | .idx _ :: _, hq, _, _, _, _, _, _, _, _, _, _, _, _, _, _, _ => by simp [navPath] at hq
  | .set :: _, hq, _, _, _, _, _, _, _, _, _, _, _, _, _, _, _ => by simp [navPath] at hq
  | .mset :: _, hq, _, _, _, _, _, _, _, _, _, _, _, _, _, _, _ => by simp [navPath] at hq
  | .msetKeys _ :: _, hq, _, _, _, _, _, _, _, _, _, _, _, _, _, _, _ => by simp [navPath] at hq

/-- the same for `a.Diff(b)` -/
theorem diffM_equal_subdoc_not_mentioned {o : Opts} (hm : DES.SetReading o) (hp : precOf o = 0)
    (hmg : isMerge o = false) {a b : Json} (hr : a.rawDoc = true) (hw : a.wf = true)
    (hrb : b.rawDoc = true) (hwb : b.wf = true) {q : Path} (hq : navPath q = true) {v v' : Json}
    (hv : navS o a q = some v) (hv' : navS o b q = some v') (he : equals o v v' = true)
    (FH : DES.DiffFaithful o (subterms v) (subterms v')) :
    ∀ h ∈ diffM o a b, ¬ q <+: h.path := by
  rw [diffM, hmg]
  simpa using equal_subdoc_not_mentioned hm hp q hq a b hr hw hrb hwb v v' hv hv' he FH []

/-- the advertised one-level form: a member with `Equals` values on both sides is not mentioned -/
theorem equal_member_not_mentioned {o : Opts} (hm : DES.SetReading o) (hp : precOf o = 0)
    {kvs kvs' : List (String × Json)} (hr : (Json.obj kvs).rawDoc = true)
    (hw : (Json.obj kvs).wf = true) (hrb : (Json.obj kvs').rawDoc = true)
    (hwb : (Json.obj kvs').wf = true) {k : String} {v v' : Json}
    (hl : alookup k kvs = some v) (hl' : alookup k kvs' = some v') (he : equals o v v' = true)
    (FH : DES.DiffFaithful o (subterms v) (subterms v')) (p : Path) :
    ∀ h ∈ diffNode o false (.obj kvs) (.obj kvs') p, ¬ (p ++ [PathElem.key k]) <+: h.path :=
  equal_subdoc_not_mentioned hm hp [.key k] rfl _ _ hr hw hrb hwb v v'
    (by rw [navS_key, hl]; rfl) (by rw [navS_key, hl']; rfl) he FH p

/-! ## 6. no hunk is redundant -/

/-- the two paths run along the same keys and then continue with two different keys -/
def diverge : Path → Path → Bool
  | .key k :: r, .key k' :: r' => if k = k' then diverge r r' else true
  | _, _ => false

theorem diverge_symm : ∀ (x y : Path), diverge x y = diverge y x
  | [], [] => rfl
  | [], _ :: _ => by simp [diverge]
  | _ :: _, [] => by simp [diverge]
  | e :: r, e' :: r' => by
    cases e <;> cases e' <;> simp only [diverge]
    next k k' =>
      by_cases hk : k = k'
      · subst hk; simp only [if_true]; exact diverge_symm r r'
      · have hk' : ¬ k' = k := fun e => hk e.symm
        simp [hk, hk']

theorem diverge_append_left : ∀ (p : Path), Real.keysOnly p = true → ∀ x y,
    diverge (p ++ x) (p ++ y) = diverge x y
  | [], _, _, _ => rfl
  | .key k :: r, hp, x, y => by
    simp only [Real.keysOnly] at hp
    simp only [List.cons_append, diverge, if_true]
    exact diverge_append_left r hp x y
  | .idx _ :: _, hp, _, _ => by simp [Real.keysOnly] at hp
  | .set :: _, hp, _, _ => by simp [Real.keysOnly] at hp
  | .mset :: _, hp, _, _ => by simp [Real.keysOnly] at hp
  | .setKeys _ :: _, hp, _, _ => by simp [Real.keysOnly] at hp
  | .msetKeys _ :: _, hp, _, _ => by simp [Real.keysOnly] at hp

/-- what follows the keys of a hunk path in the set readings: nothing, `{}` or `[]` -/
def isTail (tl : Path) : Prop := tl = [] ∨ tl = [.set] ∨ tl = [.mset]

theorem diverge_tail_right : ∀ (q : Path), Real.keysOnly q = true → ∀ (tl : Path), isTail tl →
    ∀ x, diverge x (q ++ tl) = diverge x q
  | [], _, tl, ht, x => by
    rcases ht with rfl | rfl | rfl <;> cases x <;> simp [diverge] <;>
      (rename_i e _; cases e <;> simp [diverge])
  | .key k :: r, hq, tl, ht, x => by
    simp only [Real.keysOnly] at hq
    cases x with
    | nil => simp [diverge]
    | cons e x' =>
      cases e <;> simp only [List.cons_append, diverge]
      next k' =>
        by_cases hk : k' = k
        · simp only [hk, if_true]; exact diverge_tail_right r hq tl ht x'
        · simp [hk]
  | .idx _ :: _, hp, _, _, _ => by simp [Real.keysOnly] at hp
  | .set :: _, hp, _, _, _ => by simp [Real.keysOnly] at hp
  | .mset :: _, hp, _, _, _ => by simp [Real.keysOnly] at hp
  | .setKeys _ :: _, hp, _, _, _ => by simp [Real.keysOnly] at hp
  | .msetKeys _ :: _, hp, _, _, _ => by simp [Real.keysOnly] at hp

/-- the objects met along the key path `q` have strictly increasing keys -/
def SortedAlong : Json → Path → Prop
  | .obj kvs, .key k :: r => keysSorted kvs = true ∧ ∀ v, alookup k kvs = some v → SortedAlong v r
  | _, _ => True

theorem sortedAlong_of_wf : ∀ (q : Path) (a : Json), a.wf = true → SortedAlong a q
  | [], a, _ => by cases a <;> simp [SortedAlong]
  | e :: r, a, hw => by
    cases a with
    | obj kvs =>
      cases e with
      | key k =>
        simp only [Json.wf, Bool.and_eq_true] at hw
        exact ⟨hw.1, fun v hv => sortedAlong_of_wf r v (alookup_wf hv hw.2)⟩
      | _ => simp [SortedAlong]
    | _ => simp [SortedAlong]

/-- the two documents hold `Equals` values at a location, or both hold nothing there -/
def Agree (o : Opts) : Option Json → Option Json → Prop
  | some x, some y => equals o x y = true
  | none, none => True
  | _, _ => False

theorem equals_obj_right {o : Opts} {r : Json} {kvs' : List (String × Json)}
    (h : equals o r (.obj kvs') = true) : ∃ kvs, r = .obj kvs := by
  cases r with
  | obj kvs => exact ⟨kvs, rfl⟩
  | arr t xs =>
    simp only [equals, Json.dispatch] at h
    split at h <;> simp_all
  | _ => simp [equals, Json.isVoid, Json.isNull] at h

theorem equals_obj_left {o : Opts} {b : Json} {kvs : List (String × Json)}
    (h : equals o (.obj kvs) b = true) : ∃ kvs', b = .obj kvs' := by
  cases b <;> simp [equals] at h
  exact ⟨_, rfl⟩

/-- `Equals` documents agree at every key path along which both have sorted keys -/
theorem agree_of_equals (o : Opts) : ∀ (q : Path), Real.keysOnly q = true → ∀ (r b : Json),
    SortedAlong r q → SortedAlong b q → equals o r b = true →
    Agree o (Real.getAt r q) (Real.getAt b q)
  | [], _, r, b, _, _, he => by
    have e1 : Real.getAt r [] = some r := by cases r <;> rfl
    have e2 : Real.getAt b [] = some b := by cases b <;> rfl
    rw [e1, e2]; exact he
  | .key k :: q', hq, r, b, sr, sb, he => by
    simp only [Real.keysOnly] at hq
    by_cases hr : ∃ kr, r = .obj kr
    · obtain ⟨kr, rfl⟩ := hr
      obtain ⟨kb, rfl⟩ := equals_obj_left he
      simp only [SortedAlong] at sr sb
      obtain ⟨h1, h2⟩ := (equals_obj_iff o sr.1 sb.1).1 he
      simp only [Real.getAt]
      cases hl : alookup k kr with
      | some x =>
        obtain ⟨y, hy, hxy⟩ := h1 k x (mem_of_alookup hl)
        rw [hy]
        exact agree_of_equals o q' hq x y (sr.2 x hl) (sb.2 y hy) hxy
      | none =>
        cases hl' : alookup k kb with
        | none => trivial
        | some y =>
          have := h2 k y (mem_of_alookup hl')
          rw [hl] at this
          cases this
    · have hb : ¬ ∃ kb, b = .obj kb := by
        rintro ⟨kb, rfl⟩
        exact hr (equals_obj_right he)
      have e1 : Real.getAt r (.key k :: q') = none := by
        cases r <;> first | rfl | exact absurd ⟨_, rfl⟩ hr
      have e2 : Real.getAt b (.key k :: q') = none := by
        cases b <;> first | rfl | exact absurd ⟨_, rfl⟩ hb
      rw [e1, e2]; trivial
  | .idx _ :: _, hp, _, _, _, _, _ => by simp [Real.keysOnly] at hp
  | .set :: _, hp, _, _, _, _, _ => by simp [Real.keysOnly] at hp
  | .mset :: _, hp, _, _, _, _, _ => by simp [Real.keysOnly] at hp
  | .setKeys _ :: _, hp, _, _, _, _, _ => by simp [Real.keysOnly] at hp
  | .msetKeys _ :: _, hp, _, _, _, _, _ => by simp [Real.keysOnly] at hp

/-- a path that starts with a key addresses nothing in a value that is not an object -/
theorem patchNode_key_nonobj (sw : Bool) (n : Json) (hn : ∀ kvs, n ≠ .obj kvs) (k : String)
    (rest : Path) (bf rm ad af : List Json) (r : Json) :
    patchNode sw false n (.key k :: rest) bf rm ad af ≠ .ok r := by
  rw [patchNode.eq_def]
  cases n with
  | obj kvs => exact absurd rfl (hn kvs)
  | arr t xs => cases t <;> simp [effTag, pathMeta, dispatchTag]
  | _ => simp [patchFresh, Path.isLeaf]

theorem alookup_aput_self (k : String) (v : Json) (cur : List (String × Json))
    (hs : keysSorted cur = true) :
    alookup k (DPL.aput k v cur) = (if v.isVoid then none else some v) := by
  unfold DPL.aput; split
  · exact DPL.alookup_aerase_self k cur hs
  · rw [DPL.alookup_ainsert, if_pos rfl]

theorem diverge_nil_right (x : Path) : diverge x [] = false := by
  cases x with
  | nil => rfl
  | cons e r => cases e <;> rfl

/-- **frame**: a hunk whose path diverges from the key path `q` leaves what the document holds at `q`
    untouched -/
theorem patchNode_frame (sw : Bool) : ∀ (q pa : Path) (n n' : Json) (bf rm ad af : List Json),
    diverge pa q = true → SortedAlong n q → patchNode sw false n pa bf rm ad af = .ok n' →
    Real.getAt n' q = Real.getAt n q ∧ SortedAlong n' q
  | [], pa, _, _, _, _, _, _, hd, _, _ => by rw [diverge_nil_right] at hd; cases hd
  | .idx _ :: _, pa, _, _, _, _, _, _, hd, _, _ => by cases pa <;> simp [diverge] at hd
  | .set :: _, pa, _, _, _, _, _, _, hd, _, _ => by cases pa <;> simp [diverge] at hd
  | .mset :: _, pa, _, _, _, _, _, _, hd, _, _ => by cases pa <;> simp [diverge] at hd
  | .setKeys _ :: _, pa, _, _, _, _, _, _, hd, _, _ => by cases pa <;> simp [diverge] at hd
  | .msetKeys _ :: _, pa, _, _, _, _, _, _, hd, _, _ => by cases pa <;> simp [diverge] at hd
  | .key k :: q2, pa, n, n', bf, rm, ad, af, hd, hs, hp => by
    cases pa with
    | nil => simp [diverge] at hd
    | cons e rest =>
      cases e with
      | key k' =>
        by_cases hn : ∃ kvs, n = .obj kvs
        · obtain ⟨kvs, rfl⟩ := hn
          rw [patchNode_obj_key] at hp
          cases hv : patchNode sw false ((alookup k' kvs).getD .void) rest bf rm ad af with
          | err => rw [hv] at hp; cases hp
          | panic => rw [hv] at hp; cases hp
          | ok v =>
            rw [hv] at hp
            simp only [Outcome.ok.injEq] at hp
            subst hp
            simp only [SortedAlong] at hs
            have hs1 := DPL.keysSorted_aput k' v kvs hs.1
            by_cases hk : k' = k
            · subst hk
              simp only [diverge, if_true] at hd
              have hchild : SortedAlong ((alookup k' kvs).getD .void) q2 := by
                cases hl : alookup k' kvs with
                | none => simp [SortedAlong]
                | some c => exact hs.2 c hl
              obtain ⟨ih1, ih2⟩ := patchNode_frame sw q2 rest _ v bf rm ad af hd hchild hv
              obtain ⟨e2, q3, rfl⟩ : ∃ e2 q3, q2 = e2 :: q3 := by
                cases q2 with
                | nil => rw [diverge_nil_right] at hd; cases hd
                | cons e2 q3 => exact ⟨e2, q3, rfl⟩
              have hvoid : Real.getAt .void (e2 :: q3) = none := by cases e2 <;> rfl
              have hrhs : (alookup k' kvs).bind (fun v => Real.getAt v (e2 :: q3)) =
                  Real.getAt ((alookup k' kvs).getD .void) (e2 :: q3) := by
                cases alookup k' kvs with
                | none => exact hvoid.symm
                | some c => rfl
              refine ⟨?_, hs1, ?_⟩
              · simp only [Real.getAt]
                rw [hrhs, ← ih1, alookup_aput_self k' v kvs hs.1]
                by_cases hvv : v.isVoid = true
                · rw [if_pos hvv]
                  cases v <;> simp [Json.isVoid] at hvv
                  exact hvoid.symm
                · rw [if_neg hvv]; rfl
              · intro w hw
                rw [alookup_aput_self k' v kvs hs.1] at hw
                split at hw
                · cases hw
                · cases hw; exact ih2
            · have hne : k ≠ k' := fun e => hk e.symm
              refine ⟨?_, hs1, ?_⟩
              · simp only [Real.getAt, DPL.alookup_aput_ne hne]
              · intro w hw
                rw [DPL.alookup_aput_ne hne] at hw
                exact hs.2 w hw
        · exact absurd hp (patchNode_key_nonobj sw n (fun kvs e => hn ⟨kvs, e⟩) k' rest _ _ _ _ n')
      | _ => simp [diverge] at hd

theorem patchAll_frame (sw : Bool) (q : Path) : ∀ (D : Diff) (n r : Json),
    (∀ h ∈ D, h.merge = false ∧ diverge h.path q = true) → SortedAlong n q →
    patchAll sw n D = .ok r → Real.getAt r q = Real.getAt n q ∧ SortedAlong r q
  | [], n, r, _, hs, hp => by
    simp only [patchAll, Outcome.ok.injEq] at hp
    subst hp
    exact ⟨rfl, hs⟩
  | h :: D, n, r, hD, hs, hp => by
    obtain ⟨hmg, hdv⟩ := hD h List.mem_cons_self
    simp only [patchAll, hmg] at hp
    cases hv : patchNode sw false n h.path h.before h.remove h.add h.after with
    | err => rw [hv] at hp; cases hp
    | panic => rw [hv] at hp; cases hp
    | ok n1 =>
      rw [hv] at hp
      simp only at hp
      obtain ⟨f1, f2⟩ := patchNode_frame sw q h.path n n1 _ _ _ _ hdv hs hv
      obtain ⟨g1, g2⟩ := patchAll_frame sw q D n1 r
        (fun h' hh' => hD h' (List.mem_cons_of_mem _ hh')) f2 hp
      exact ⟨g1.trans f1, g2⟩

/-- under `DiffFaithful`, members of the two arrays with the same identity have an empty diff: the
    set diff has no sub-diff -/
theorem subs_nil {o : Opts} (hd : dispatchTag o = .set) (hk : keysOf o = none) (hp : precOf o = 0)
    {SA SB : List Json} (FH : DES.DiffFaithful o SA SB) {xs ys : List Json}
    (hrx : rawDocList xs = true) (hwx : wfList xs = true) (hwy : wfList ys = true)
    (wa : Within SA (.arr .raw xs)) (wb : Within SB (.arr .raw ys)) (p : Path) :
    (ksort (diffSetElems o false p ys xs)).flatMap subOf = [] := by
  apply DES.subs_nil_of
  intro kvs kvs' hx hy e q
  rw [identOf_eq_hashCode hk, identOf_eq_hashCode hk] at e
  have hok := FH _ (wa.elem hx).self _ (wb.elem hy).self e.symm
  simp only [DES.pairOK, hd] at hok
  have : (Tag.set == Tag.mset) = false := rfl
  rw [this, Bool.false_or] at hok
  exact DES.diffNode_nil_of_equals (.inl ⟨hd, hk⟩) hp false FH _ (DES.rawDocList_mem hrx hx)
    (DES.wfList_mem hwx hx) (wa.elem hx) _ (DES.wfList_mem hwy hy) (wb.elem hy) hok q

theorem getAt_nil (n : Json) : Real.getAt n [] = some n := by cases n <;> rfl

/-- the hunks of two values that are not both objects: addressed to the value itself (or to the array
    read as a set / multiset), and the two values are not `Equals` -/
theorem leaf_hunk {o : Opts} (hm : DES.SetReading o) (hp : precOf o = 0) {SA SB : List Json}
    (FH : DES.DiffFaithful o SA SB) {a b : Json} (hr : a.rawDoc = true) (hw : a.wf = true)
    (wa : Within SA a) (hrb : b.rawDoc = true) (hwb : b.wf = true) (wb : Within SB b)
    (hno : ¬ ((∃ kvs, a = .obj kvs) ∧ ∃ kvs', b = .obj kvs')) (p : Path) :
    (diffNode o false a b p).length ≤ 1 ∧
    ∀ h ∈ diffNode o false a b p, (∃ tl, isTail tl ∧ h.path = p ++ tl) ∧ h.merge = false ∧
      ¬ Agree o (Real.getAt a []) (Real.getAt b []) := by
  have hd' : dispatchTag o = .set ∨ dispatchTag o = .mset := by
    rcases hm with ⟨hd, _⟩ | hd
    · exact .inl hd
    · exact .inr hd
  have hdiff : ∀ h ∈ diffNode o false a b p, ¬ Agree o (Real.getAt a []) (Real.getAt b []) := by
    intro h hh hag
    rw [getAt_nil, getAt_nil] at hag
    rw [DES.diffNode_nil_of_equals hm hp false FH a hr hw wa b hwb wb hag p] at hh
    cases hh
  have fin : (diffNode o false a b p).length ≤ 1 ∧
      ∀ h ∈ diffNode o false a b p, (∃ tl, isTail tl ∧ h.path = p ++ tl) ∧ h.merge = false := by
    by_cases ha : ∃ kvs, a = .obj kvs
    · obtain ⟨kvs, rfl⟩ := ha
      have hb : ∀ kvs', b ≠ .obj kvs' := fun kvs' e => hno ⟨⟨kvs, rfl⟩, kvs', e⟩
      rw [DPL.diffNode_obj_other o kvs b hb]
      refine ⟨by simp, fun h hh => ?_⟩
      simp only [List.mem_singleton] at hh
      subst hh
      exact ⟨⟨[], .inl rfl, by simp⟩, rfl⟩
    · by_cases ha2 : ∃ t xs, a = .arr t xs
      · obtain ⟨t, xs, rfl⟩ := ha2
        simp only [Json.rawDoc, Bool.and_eq_true, beq_iff_eq] at hr
        obtain ⟨rfl, hrx⟩ := hr
        simp only [Json.wf] at hw
        by_cases hb : ∃ t' ys, b = .arr t' ys
        · obtain ⟨t', ys, rfl⟩ := hb
          simp only [Json.rawDoc, Bool.and_eq_true, beq_iff_eq] at hrb
          obtain ⟨rfl, hry⟩ := hrb
          simp only [Json.wf] at hwb
          rcases hm with ⟨hd, hk⟩ | hd
          · rw [diffNode_set_set hd, subs_nil hd hk hp FH hrx hw hwb wa wb p, List.nil_append]
            refine ⟨by split <;> simp, fun h hh => ?_⟩
            obtain ⟨e, real⟩ := set_hunk_real o p xs ys hh
            exact ⟨⟨[.set], .inr (.inl rfl), e⟩, real.merge⟩
          · refine ⟨by rw [diffNode_mset_mset hd]; split <;> simp, fun h hh => ?_⟩
            obtain ⟨e, real⟩ := mset_hunk_real hd p xs ys hh
            exact ⟨⟨[.mset], .inr (.inr rfl), e⟩, real.merge⟩
        · rw [diffNode_arr_other hd' xs b (fun t' ys e => hb ⟨t', ys, e⟩)]
          refine ⟨by simp, fun h hh => ?_⟩
          simp only [List.mem_singleton] at hh
          subst hh
          exact ⟨⟨[], .inl rfl, by simp⟩, rfl⟩
      · rw [DPL.diffNode_scalar o a b (fun t xs e => ha2 ⟨t, xs, e⟩) (fun kvs e => ha ⟨kvs, e⟩)]
        refine ⟨by unfold diffCommon; split <;> simp, fun h hh => ?_⟩
        obtain ⟨e1, e2, _, _⟩ := diffCommon_fields hh
        exact ⟨⟨[], .inl rfl, by simp [e1]⟩, e2⟩
  exact ⟨fin.1, fun h hh => ⟨(fin.2 h hh).1, (fin.2 h hh).2, hdiff h hh⟩⟩

/-- **every hunk sits at a key path where the two documents do not agree** (documents without
    harmful collision): its path is a key path `q` below `p`, possibly followed by `{}` / `[]`, and
    what `a` and `b` hold at `q` is not `Equals` (or only one of them holds something there) -/
theorem hunk_differ {o : Opts} (hm : DES.SetReading o) (hp : precOf o = 0) {SA SB : List Json}
    (FH : DES.DiffFaithful o SA SB) :
    ∀ a : Json, a.rawDoc = true → a.wf = true → Within SA a →
      ∀ b : Json, b.rawDoc = true → b.wf = true → Within SB b →
      ∀ p, ∀ h ∈ diffNode o false a b p,
        ∃ q tl, Real.keysOnly q = true ∧ isTail tl ∧ h.path = p ++ q ++ tl ∧ h.merge = false ∧
          ¬ Agree o (Real.getAt a q) (Real.getAt b q) := by
  intro a
  induction a using jsonInd with
  | obj kvs ih =>
    intro hr hw wa b hrb hwb wb p h hh
    by_cases hb : ∃ kvs', b = .obj kvs'
    · obtain ⟨kvs', rfl⟩ := hb
      have hr' := hr
      have hrb' := hrb
      have hw' := hw
      have hwb' := hwb
      simp only [Json.rawDoc] at hr' hrb'
      simp only [Json.wf, Bool.and_eq_true] at hw' hwb'
      rw [DE.diffNode_obj_obj] at hh
      rcases List.mem_append.1 hh with hh | hh
      · obtain ⟨k, v, hmem, hcase⟩ := mem_diffKvs o p kvs' hh
        have hl := alookup_of_mem hw'.1 hmem
        rcases hcase with ⟨v', hl', hin⟩ | ⟨hn, rfl⟩
        · have hmem' := mem_of_alookup hl'
          obtain ⟨q, tl, hq, ht, hpath, hmg, hag⟩ := ih k v hmem (DES.rawDocKvs_mem hr' hmem)
            (DES.wfKvs_mem hw'.2 hmem) (wa.val hmem) v' (DES.rawDocKvs_mem hrb' hmem')
            (DES.wfKvs_mem hwb'.2 hmem') (wb.val hmem') _ h hin
          refine ⟨.key k :: q, tl, by simpa [Real.keysOnly] using hq, ht, by simpa using hpath, hmg,
            ?_⟩
          simpa [Real.getAt, hl, hl'] using hag
        · refine ⟨[.key k], [], rfl, .inl rfl, by simp, rfl, ?_⟩
          simp [Real.getAt, hl, hn, Agree]
      · obtain ⟨kv, hkv, rfl⟩ := List.mem_map.1 hh
        simp only [List.mem_filter, Option.isNone_iff_eq_none] at hkv
        have hl' := alookup_of_mem hwb'.1 (show (kv.1, kv.2) ∈ kvs' from hkv.1)
        refine ⟨[.key kv.1], [], rfl, .inl rfl, by simp, rfl, ?_⟩
        simp [Real.getAt, hl', hkv.2, Agree]
    · obtain ⟨⟨tl, ht, hpath⟩, hmg, hag⟩ := (leaf_hunk hm hp FH hr hw wa hrb hwb wb
        (fun hc => hb hc.2) p).2 h hh
      exact ⟨[], tl, rfl, ht, by simpa using hpath, hmg, hag⟩
  | arr t xs _ =>
    intro hr hw wa b hrb hwb wb p h hh
    obtain ⟨⟨tl, ht, hpath⟩, hmg, hag⟩ := (leaf_hunk hm hp FH hr hw wa hrb hwb wb
      (fun hc => by obtain ⟨⟨_, e⟩, _⟩ := hc; cases e) p).2 h hh
    exact ⟨[], tl, rfl, ht, by simpa using hpath, hmg, hag⟩
  | void =>
    intro hr hw wa b hrb hwb wb p h hh
    obtain ⟨⟨tl, ht, hpath⟩, hmg, hag⟩ := (leaf_hunk hm hp FH hr hw wa hrb hwb wb
      (fun hc => by obtain ⟨⟨_, e⟩, _⟩ := hc; cases e) p).2 h hh
    exact ⟨[], tl, rfl, ht, by simpa using hpath, hmg, hag⟩
  | null =>
    intro hr hw wa b hrb hwb wb p h hh
    obtain ⟨⟨tl, ht, hpath⟩, hmg, hag⟩ := (leaf_hunk hm hp FH hr hw wa hrb hwb wb
      (fun hc => by obtain ⟨⟨_, e⟩, _⟩ := hc; cases e) p).2 h hh
    exact ⟨[], tl, rfl, ht, by simpa using hpath, hmg, hag⟩
  | bool x =>
    intro hr hw wa b hrb hwb wb p h hh
    obtain ⟨⟨tl, ht, hpath⟩, hmg, hag⟩ := (leaf_hunk hm hp FH hr hw wa hrb hwb wb
      (fun hc => by obtain ⟨⟨_, e⟩, _⟩ := hc; cases e) p).2 h hh
    exact ⟨[], tl, rfl, ht, by simpa using hpath, hmg, hag⟩
  | num x =>
    intro hr hw wa b hrb hwb wb p h hh
    obtain ⟨⟨tl, ht, hpath⟩, hmg, hag⟩ := (leaf_hunk hm hp FH hr hw wa hrb hwb wb
      (fun hc => by obtain ⟨⟨_, e⟩, _⟩ := hc; cases e) p).2 h hh
    exact ⟨[], tl, rfl, ht, by simpa using hpath, hmg, hag⟩
  | str x =>
    intro hr hw wa b hrb hwb wb p h hh
    obtain ⟨⟨tl, ht, hpath⟩, hmg, hag⟩ := (leaf_hunk hm hp FH hr hw wa hrb hwb wb
      (fun hc => by obtain ⟨⟨_, e⟩, _⟩ := hc; cases e) p).2 h hh
    exact ⟨[], tl, rfl, ht, by simpa using hpath, hmg, hag⟩

theorem keysOnly_snoc : ∀ {p : Path}, Real.keysOnly p = true → ∀ k,
    Real.keysOnly (p ++ [PathElem.key k]) = true
  | [], _, _ => rfl
  | .key _ :: r, h, k => by
    simp only [Real.keysOnly] at h
    simp only [List.cons_append, Real.keysOnly]
    exact keysOnly_snoc h k
  | .idx _ :: _, h, _ => by simp [Real.keysOnly] at h
  | .set :: _, h, _ => by simp [Real.keysOnly] at h
  | .mset :: _, h, _ => by simp [Real.keysOnly] at h
  | .setKeys _ :: _, h, _ => by simp [Real.keysOnly] at h
  | .msetKeys _ :: _, h, _ => by simp [Real.keysOnly] at h

theorem pairwise_of_length_le_one {α} {R : α → α → Prop} : ∀ {l : List α}, l.length ≤ 1 →
    l.Pairwise R
  | [], _ => List.Pairwise.nil
  | [_], _ => List.pairwise_singleton _ _
  | _ :: _ :: _, h => by simp at h

theorem diverge_of_under_keys {p x y : Path} (hp : Real.keysOnly p = true) {k k' : String}
    (hne : k ≠ k') (hx : (p ++ [PathElem.key k]) <+: x) (hy : (p ++ [PathElem.key k']) <+: y) :
    diverge x y = true := by
  obtain ⟨t, rfl⟩ := hx
  obtain ⟨t', rfl⟩ := hy
  rw [List.append_assoc, List.append_assoc, diverge_append_left p hp]
  simp [diverge, hne]

/-- the hunks of the first loop of the object diff sit below a key of the first object -/
theorem diffKvs_under_key (o : Opts) (p : Path) (kvs' : List (String × Json))
    {kvs : List (String × Json)} {h : Hunk} (hh : h ∈ diffKvs o false p kvs' kvs) :
    ∃ k v, (k, v) ∈ kvs ∧ (p ++ [PathElem.key k]) <+: h.path := by
  obtain ⟨k, v, hmem, hcase⟩ := mem_diffKvs o p kvs' hh
  refine ⟨k, v, hmem, ?_⟩
  rcases hcase with ⟨w, _, hin⟩ | ⟨_, rfl⟩
  · exact Real.diff_paths_extend_general o false v w _ h hin
  · exact List.prefix_refl _

/-- **two hunks of one diff diverge**: their paths run along common keys and then take two
    different keys (documents without harmful collision) -/
theorem diff_pairwise {o : Opts} (hm : DES.SetReading o) (hp : precOf o = 0) {SA SB : List Json}
    (FH : DES.DiffFaithful o SA SB) :
    ∀ a : Json, a.rawDoc = true → a.wf = true → Within SA a →
      ∀ b : Json, b.rawDoc = true → b.wf = true → Within SB b →
      ∀ p, Real.keysOnly p = true →
        (diffNode o false a b p).Pairwise (fun h h' => diverge h.path h'.path = true) := by
  intro a
  induction a using jsonInd with
  | obj kvs ih =>
    intro hr hw wa b hrb hwb wb p hpk
    by_cases hb : ∃ kvs', b = .obj kvs'
    · obtain ⟨kvs', rfl⟩ := hb
      have hr' := hr
      have hrb' := hrb
      have hw' := hw
      have hwb' := hwb
      simp only [Json.rawDoc] at hr' hrb'
      simp only [Json.wf, Bool.and_eq_true] at hw' hwb'
      rw [DE.diffNode_obj_obj, List.pairwise_append]
      refine ⟨?_, ?_, ?_⟩
      · -- the first loop
        have key : ∀ r : List (String × Json), keysSorted r = true → (∀ kv ∈ r, kv ∈ kvs) →
            (diffKvs o false p kvs' r).Pairwise (fun h h' => diverge h.path h'.path = true) := by
          intro r
          induction r with
          | nil => intro _ _; rw [DE.diffKvs_nil]; exact List.Pairwise.nil
          | cons kv r ihr =>
            obtain ⟨k, v⟩ := kv
            intro hsr hsub
            have hmem : (k, v) ∈ kvs := hsub _ List.mem_cons_self
            rw [DE.diffKvs_cons, List.pairwise_append]
            refine ⟨?_, ihr (keysSorted_tail hsr) (fun kv hh => hsub kv (List.mem_cons_of_mem _ hh)),
              ?_⟩
            · cases hl' : alookup k kvs' with
              | none =>
                simp only [Bool.false_eq_true, if_false]
                exact List.pairwise_singleton _ _
              | some v' =>
                have hmem' := mem_of_alookup hl'
                exact ih k v hmem (DES.rawDocKvs_mem hr' hmem) (DES.wfKvs_mem hw'.2 hmem)
                  (wa.val hmem) v' (DES.rawDocKvs_mem hrb' hmem') (DES.wfKvs_mem hwb'.2 hmem')
                  (wb.val hmem') _ (keysOnly_snoc hpk k)
            · intro h hh h' hh'
              have hx : (p ++ [PathElem.key k]) <+: h.path := by
                cases hl' : alookup k kvs' with
                | none =>
                  simp only [hl', Bool.false_eq_true, if_false, List.mem_singleton] at hh
                  subst hh
                  exact List.prefix_refl _
                | some v' =>
                  simp only [hl'] at hh
                  exact Real.diff_paths_extend_general o false v v' _ h hh
              obtain ⟨k0, v0, hm0, hy⟩ := diffKvs_under_key o p kvs' hh'
              have hlt := keysSorted_head_lt hsr k0 v0 hm0
              have hne : k ≠ k0 := fun e => String.lt_irrefl k0 (e ▸ hlt)
              exact diverge_of_under_keys hpk hne hx hy
        exact key kvs hw'.1 (fun _ hh => hh)
      · -- the added keys
        rw [List.pairwise_map]
        have hnd := keysSorted_nodup hwb'.1
        rw [List.Nodup, List.pairwise_map] at hnd
        refine (hnd.sublist List.filter_sublist).imp ?_
        intro kv kv' hne
        exact diverge_of_under_keys hpk hne (List.prefix_refl _) (List.prefix_refl _)
      · intro h hh h' hh'
        obtain ⟨k0, v0, hm0, hx⟩ := diffKvs_under_key o p kvs' hh
        obtain ⟨kv, hkv, rfl⟩ := List.mem_map.1 hh'
        simp only [List.mem_filter, Option.isNone_iff_eq_none] at hkv
        have hl0 := alookup_of_mem hw'.1 hm0
        have hne : k0 ≠ kv.1 := fun e => by rw [e, hkv.2] at hl0; cases hl0
        exact diverge_of_under_keys hpk hne hx (List.prefix_refl _)
    · exact pairwise_of_length_le_one (leaf_hunk hm hp FH hr hw wa hrb hwb wb
        (fun hc => hb hc.2) p).1
  | arr t xs _ =>
    intro hr hw wa b hrb hwb wb p _
    exact pairwise_of_length_le_one (leaf_hunk hm hp FH hr hw wa hrb hwb wb
      (fun hc => by obtain ⟨⟨_, e⟩, _⟩ := hc; cases e) p).1
  | void =>
    intro hr hw wa b hrb hwb wb p _
    exact pairwise_of_length_le_one (leaf_hunk hm hp FH hr hw wa hrb hwb wb
      (fun hc => by obtain ⟨⟨_, e⟩, _⟩ := hc; cases e) p).1
  | null =>
    intro hr hw wa b hrb hwb wb p _
    exact pairwise_of_length_le_one (leaf_hunk hm hp FH hr hw wa hrb hwb wb
      (fun hc => by obtain ⟨⟨_, e⟩, _⟩ := hc; cases e) p).1
  | bool x =>
    intro hr hw wa b hrb hwb wb p _
    exact pairwise_of_length_le_one (leaf_hunk hm hp FH hr hw wa hrb hwb wb
      (fun hc => by obtain ⟨⟨_, e⟩, _⟩ := hc; cases e) p).1
  | num x =>
    intro hr hw wa b hrb hwb wb p _
    exact pairwise_of_length_le_one (leaf_hunk hm hp FH hr hw wa hrb hwb wb
      (fun hc => by obtain ⟨⟨_, e⟩, _⟩ := hc; cases e) p).1
  | str x =>
    intro hr hw wa b hrb hwb wb p _
    exact pairwise_of_length_le_one (leaf_hunk hm hp FH hr hw wa hrb hwb wb
      (fun hc => by obtain ⟨⟨_, e⟩, _⟩ := hc; cases e) p).1

/-- **C07 (4), SET and MULTISET readings: no hunk is redundant.**  Leave any single hunk `h` out of
    `a.Diff(b)`: whatever the remaining hunks make of `a` (if they apply at all) is not `Equals` to
    `b`.  All documents as read from text (arrays nested anywhere); `DiffFaithful`: no FNV collision
    between array nodes of `a` and `b`, no collision / alias between object nodes (set reading). -/
theorem no_redundant_hunk {o : Opts} (hm : DES.SetReading o) (hp : precOf o = 0)
    (hmg : isMerge o = false) {a b : Json} (hr : a.rawDoc = true) (hw : a.wf = true)
    (hrb : b.rawDoc = true) (hwb : b.wf = true)
    (FH : DES.DiffFaithful o (subterms a) (subterms b))
    (d1 d2 : Diff) (h : Hunk) (hd : diffM o a b = d1 ++ h :: d2) (sw : Bool) (r : Json)
    (hres : patchAll sw a (d1 ++ d2) = .ok r) : equals o r b = false := by
  rw [diffM, hmg] at hd
  have wa := DES.within_subterms a
  have wb := DES.within_subterms b
  have hmem : h ∈ diffNode o false a b [] := by rw [hd]; simp
  obtain ⟨q, tl, hq, ht, hpath, _, hag⟩ := hunk_differ hm hp FH a hr hw wa b hrb hwb wb [] h hmem
  simp only [List.nil_append] at hpath
  have hpw := diff_pairwise hm hp FH a hr hw wa b hrb hwb wb [] rfl
  rw [hd, List.pairwise_append, List.pairwise_cons] at hpw
  obtain ⟨_, ⟨h2, _⟩, h3⟩ := hpw
  have hrest : ∀ h' ∈ d1 ++ d2, h'.merge = false ∧ diverge h'.path q = true := by
    intro h' hh'
    have hm' : h' ∈ diffNode o false a b [] := by
      rw [hd]
      rcases List.mem_append.1 hh' with e | e
      · exact List.mem_append_left _ e
      · exact List.mem_append_right _ (List.mem_cons_of_mem _ e)
    obtain ⟨_, _, _, _, _, hmg', _⟩ := hunk_differ hm hp FH a hr hw wa b hrb hwb wb [] h' hm'
    refine ⟨hmg', ?_⟩
    have : diverge h'.path h.path = true := by
      rcases List.mem_append.1 hh' with e | e
      · exact h3 h' e h List.mem_cons_self
      · rw [diverge_symm]; exact h2 h' e
    rwa [hpath, diverge_tail_right q hq tl ht] at this
  obtain ⟨f1, f2⟩ := patchAll_frame sw q (d1 ++ d2) a r hrest (sortedAlong_of_wf q a hw) hres
  cases he : equals o r b with
  | false => rfl
  | true =>
    have := agree_of_equals o q hq r b f2 (sortedAlong_of_wf q b hwb) he
    rw [f1] at this
    exact absurd this hag

/-- (4) under the hypothesis family of JdProofs.EqualsSet / SetDiffPatch: `setDoc` documents (finite
    numbers, no `-0`), `HashFaithful` (equal hash codes only for equivalent nodes), `FloatEq0` -/
theorem no_redundant_hunk_hashFaithful (F : FloatEq0) {o : Opts} (hm : DES.SetReading o)
    (hp : precOf o = 0) (hmg : isMerge o = false) {a b : Json} (ha : a.setDoc = true)
    (hb : b.setDoc = true) (HF : HashFaithful o (subterms a ++ subterms b))
    (d1 d2 : Diff) (h : Hunk) (hd : diffM o a b = d1 ++ h :: d2) (sw : Bool) (r : Json)
    (hres : patchAll sw a (d1 ++ d2) = .ok r) : equals o r b = false := by
  have hm' : dispatchTag o = .set ∨ dispatchTag o = .mset := by
    rcases hm with ⟨h, _⟩ | h
    · exact .inl h
    · exact .inr h
  have ha' := ha
  have hb' := hb
  simp only [Json.setDoc, Bool.and_eq_true] at ha' hb'
  exact no_redundant_hunk hm hp hmg ha'.1.1.1 ha'.1.1.2 hb'.1.1.1 hb'.1.1.2
    (DES.diffFaithful_of_hashFaithful F hm' hp (docOk_of_setDoc ha) (docOk_of_setDoc hb) HF)
    d1 d2 h hd sw r hres

/-! ## 7. the four items together, for `[.set]` and `[.mset]` -/

/-- a removed member of a set hunk has no counterpart in the second array, an added member none in
    the first: no member there is `Equals` to it (`FloatEq0`: `Equals` numbers hash alike) -/
theorem SetHunkReal.no_counterpart (F : FloatEq0) {o : Opts} (hd : dispatchTag o = .set)
    (hk : keysOf o = none) (hp : precOf o = 0) {xs ys : List Json} {h : Hunk}
    (dx : ∀ x ∈ xs, DocOk x) (dy : ∀ y ∈ ys, DocOk y) (H : SetHunkReal o xs ys h) :
    (∀ z ∈ h.remove, ∀ y ∈ ys, equals o z y = false) ∧
    (∀ z ∈ h.add, ∀ x ∈ xs, equals o x z = false) := by
  constructor
  · intro z hz y hy
    cases he : equals o z y with
    | false => rfl
    | true =>
      have e := DES.hash_eq_of_equals F (.inl hd) hp z y (dx z (H.rem_mem z hz)) (dy y hy) he
      rw [← identOf_eq_hashCode hk, ← identOf_eq_hashCode hk] at e
      exact absurd (e ▸ List.mem_map_of_mem (f := identOf o) hy)
        ((H.rem_ids _).1 (List.mem_map_of_mem (f := identOf o) hz)).2
  · intro z hz x hx
    cases he : equals o x z with
    | false => rfl
    | true =>
      have e := DES.hash_eq_of_equals F (.inl hd) hp x z (dx x hx) (dy z (H.add_mem z hz)) he
      rw [← identOf_eq_hashCode hk, ← identOf_eq_hashCode hk] at e
      exact absurd (e ▸ List.mem_map_of_mem (f := identOf o) hx)
        ((H.add_ids _).1 (List.mem_map_of_mem (f := identOf o) hz)).2

/-- a removed member of a multiset hunk is in surplus in the first array, an added member in the
    second (occurrences counted by hash code, as the code does) -/
theorem MsetHunkReal.surplus {o : Opts} {xs ys : List Json} {h : Hunk} (H : MsetHunkReal o xs ys h) :
    (∀ z ∈ h.remove, (ys.map (hashCode o)).count (hashCode o z) <
      (xs.map (hashCode o)).count (hashCode o z)) ∧
    (∀ z ∈ h.add, (xs.map (hashCode o)).count (hashCode o z) <
      (ys.map (hashCode o)).count (hashCode o z)) := by
  constructor
  · intro z hz
    have h1 : 0 < (h.remove.map (hashCode o)).count (hashCode o z) :=
      List.count_pos_iff.2 (List.mem_map_of_mem hz)
    rw [H.rem_count] at h1
    omega
  · intro z hz
    have h1 : 0 < (h.add.map (hashCode o)).count (hashCode o z) :=
      List.count_pos_iff.2 (List.mem_map_of_mem hz)
    rw [H.add_count] at h1
    omega

/-- **property C07 in the SET and MULTISET readings** (`o = [.set]` or `o = [.mset]`, strict
    strategy, documents as read from text):
    (1)+(2) every hunk is real (`HunkReal`: located, members of the addressed arrays, removed and
        added apart, not empty for a set / multiset hunk);
    (2')    no hunk is empty (no void object member);
    (3)     `Equals` sub-documents are never mentioned (no harmful collision inside them);
    (4)     no hunk is redundant (no harmful collision between the two documents). -/
theorem c07_setmodes {o : Opts} (ho : o = [.set] ∨ o = [.mset]) {a b : Json}
    (hr : a.rawDoc = true) (hw : a.wf = true) (hrb : b.rawDoc = true) (hwb : b.wf = true) :
    (∀ h ∈ diffM o a b, HunkReal o a b [] h) ∧
    (DPL.memOK a = true → DPL.memOK b = true → ∀ h ∈ diffM o a b, h.remove ≠ [] ∨ h.add ≠ []) ∧
    (∀ q v v', navPath q = true → navS o a q = some v → navS o b q = some v' →
      equals o v v' = true → DES.DiffFaithful o (subterms v) (subterms v') →
      ∀ h ∈ diffM o a b, ¬ q <+: h.path) ∧
    (DES.DiffFaithful o (subterms a) (subterms b) →
      ∀ d1 h d2, diffM o a b = d1 ++ h :: d2 →
      ∀ sw r, patchAll sw a (d1 ++ d2) = .ok r → equals o r b = false) := by
  have hm : DES.SetReading o := by
    rcases ho with rfl | rfl
    · exact .inl ⟨rfl, rfl⟩
    · exact .inr rfl
  have hp : precOf o = 0 := by rcases ho with rfl | rfl <;> rfl
  have hmg : isMerge o = false := by rcases ho with rfl | rfl <;> rfl
  refine ⟨diffM_hunk_real hm hp hmg hr hw hrb hwb, ?_, ?_, ?_⟩
  · intro ma mb h hh
    exact (diffM_hunk_real hm hp hmg hr hw hrb hwb h hh).nonempty ma mb
  · intro q v v' hq hv hv' he FH
    exact diffM_equal_subdoc_not_mentioned hm hp hmg hr hw hrb hwb hq hv hv' he FH
  · intro FH d1 h d2 hd sw r hres
    exact no_redundant_hunk hm hp hmg hr hw hrb hwb FH d1 d2 h hd sw r hres

/-! ## 8. the hypotheses are needed: where the unhypothesised statements are false -/

namespace Witness
open DES.Witness

/-- the diff of `[{"a":""}]` and `[{"a":[]}]` read as sets: the two members have the same hash code
    (KF-C04-alias: the empty string and the empty set hash alike), are matched, and are then
    diffed member by member -/
theorem alias_diff (p : Path) :
    diffNode [.set] false wa wb p =
      [{ path := p ++ [.setKeys [("a", .str "")]] ++ [.key "a"], remove := [.str ""],
         add := [.arr .raw []] }] := by
  have e : identOf [.set] (.obj [("a", .arr .raw [])]) = identOf [.set] (.obj [("a", .str "")]) := by
    decide +kernel
  unfold wa wb
  rw [diffNode_set_set rfl, diffSetElems_cons, diffSetElems_nil]
  have h1 : identLookup [.set] (identOf [.set] (.obj [("a", .str "")])) [.obj [("a", .arr .raw [])]]
      = some (.obj [("a", .arr .raw [])]) := by
    simp [identLookup, e]
  have h2 : setAdd [.set] [.obj [("a", .str "")]] [.obj [("a", .arr .raw [])]] = [] := by
    rw [DES.add_nil_iff]
    intro h hh
    simpa [e] using hh
  simp only [List.map_nil, List.contains_nil, Bool.false_eq_true, if_false, h1, h2]
  rw [DE.diffNode_obj_obj, DE.diffKvs_cons, DE.diffKvs_nil]
  simp only [alookup, if_true]
  rw [DE.diffNode_scalar _ _ _ _ (fun _ _ e => by cases e) (fun _ e => by cases e)]
  simp [diffCommon, equals, ksort, kinsert, subOf, remOf, newPathSetKeys, keysOf, Json.nodeList,
    Json.isVoid]

/-- `{"m":[{"a":""}]}` -/
def ma : Json := .obj [("m", wa)]
/-- `{"m":[{"a":[]}]}` -/
def mb : Json := .obj [("m", wb)]

/-- **(3) is FALSE without `DiffFaithful`** (consequence of the known finding KF-C04-alias; the Go
    code behaves the same): the members at key `m` of `{"m":[{"a":""}]}` and `{"m":[{"a":[]}]}` are
    `Equals` under SET, the documents are as read from text, and yet the diff has a hunk below `m` -/
theorem equal_member_mentioned_alias :
    ma.rawDoc = true ∧ ma.wf = true ∧ mb.rawDoc = true ∧ mb.wf = true ∧
    navS [.set] ma [.key "m"] = some wa ∧ navS [.set] mb [.key "m"] = some wb ∧
    equals [.set] wa wb = true ∧
    ∃ h ∈ diffM [.set] ma mb, [PathElem.key "m"] <+: h.path := by
  refine ⟨by decide, by decide, by decide, by decide, rfl, rfl, by decide +kernel, ?_⟩
  refine ⟨{ path := [.key "m", .setKeys [("a", .str "")], .key "a"], remove := [.str ""],
            add := [.arr .raw []] }, ?_, ⟨[.setKeys [("a", .str "")], .key "a"], rfl⟩⟩
  unfold diffM ma mb
  simp only [isMerge]
  rw [DE.diffNode_obj_obj, DE.diffKvs_cons, DE.diffKvs_nil]
  simp only [alookup, if_true]
  rw [alias_diff]
  simp

/-- **(4) is FALSE without `DiffFaithful`, alias class** (KF-C04-alias): the diff of `[{"a":""}]` and
    `[{"a":[]}]` under SET is one hunk, and leaving it out — applying nothing — already gives a
    document `Equals` to the target -/
theorem redundant_hunk_alias (sw : Bool) :
    ∃ h, diffM [.set] wa wb = [] ++ h :: [] ∧ patchAll sw wa ([] ++ []) = .ok wa ∧
      equals [.set] wa wb = true := by
  refine ⟨{ path := [.setKeys [("a", .str "")], .key "a"], remove := [.str ""],
            add := [.arr .raw []] }, ?_, rfl, by decide +kernel⟩
  unfold diffM
  simp only [isMerge]
  rw [alias_diff]
  rfl

/-- the diff of two arrays without object members is at most one hunk -/
theorem scalar_arrays_one_hunk {o : Opts} (hm : DES.SetReading o) (xs ys : List Json)
    (hx : ∀ kvs, Json.obj kvs ∉ xs) (p : Path) :
    (diffNode o false (.arr .raw xs) (.arr .raw ys) p).length ≤ 1 := by
  rcases hm with ⟨hd, _⟩ | hd
  · rw [diffNode_set_set hd,
      DES.subs_nil_of o false p xs ys (fun kvs _ h => absurd h (hx kvs)), List.nil_append]
    split <;> simp
  · rw [diffNode_mset_mset hd]
    split <;> simp

/-- **(4) is FALSE without `DiffFaithful`, outright** (a genuine FNV-1a 64 collision, no alias): the
    diff of `["aedb68afb","b7cdeb749"]` and `["a568b3ad2","b76a57d20"]` is one hunk under SET and
    under MULTISET (two members removed, two added), and leaving it out gives a document `Equals`
    to the target: the two arrays have the same hash code -/
theorem redundant_hunk_fnv_collision (sw : Bool) : ∀ o ∈ [[Opt.set], [Opt.mset]],
    ∃ h, diffM o ca cb = [] ++ h :: [] ∧ patchAll sw ca ([] ++ []) = .ok ca ∧
      equals o ca cb = true := by
  intro o ho
  have ho' : o ∈ DES.setOptions := by
    simp only [List.mem_cons, List.not_mem_nil, or_false] at ho
    rcases ho with rfl | rfl <;> simp [DES.setOptions]
  obtain ⟨he, hne⟩ := fnv_collision_breaks_converse.2.2.2.2 o ho'
  have hm : DES.SetReading o ∧ isMerge o = false := by
    simp only [List.mem_cons, List.not_mem_nil, or_false] at ho
    rcases ho with rfl | rfl
    · exact ⟨.inl ⟨rfl, rfl⟩, rfl⟩
    · exact ⟨.inr rfl, rfl⟩
  have hlen : (diffM o ca cb).length ≤ 1 := by
    rw [diffM, hm.2]
    exact scalar_arrays_one_hunk hm.1 _ _ (by simp) []
  match hd : diffM o ca cb, hne, hlen with
  | [h], _, _ => exact ⟨h, rfl, rfl, he⟩

/-- why `memOK` in "no hunk is empty" (model only: void is not a JSON value and the readers never
    produce it): a void object member that the other side lacks gives a hunk that removes nothing
    and adds nothing -/
theorem empty_hunk_void_member (o : Opts) :
    diffNode o false (.obj [("k", .void)]) (.obj []) [] = [{ path := [.key "k"] }] := by
  rw [DE.diffNode_obj_obj, DE.diffKvs_cons, DE.diffKvs_nil]
  simp [alookup, Json.nodeList, Json.isVoid]

end Witness

/-! ## 9. non-vacuity: concrete documents satisfying every hypothesis -/

namespace Example

/-- `{"e":["p","q"],"n":{"s":["a","b",{"k":["x"]}]},"t":"u","v":"old","x":["k"]}` -/
def exA : Json :=
  .obj [("e", .arr .raw [.str "p", .str "q"]),
        ("n", .obj [("s", .arr .raw [.str "a", .str "b", .obj [("k", .arr .raw [.str "x"])]])]),
        ("t", .str "u"), ("v", .str "old"), ("x", .arr .raw [.str "k"])]
/-- `{"e":["q","p"],"n":{"s":[{"k":["x"]},"b","d"]},"t":"u","v":"new","y":"added"}` -/
def exB : Json :=
  .obj [("e", .arr .raw [.str "q", .str "p"]),
        ("n", .obj [("s", .arr .raw [.obj [("k", .arr .raw [.str "x"])], .str "b", .str "d"])]),
        ("t", .str "u"), ("v", .str "new"), ("y", .str "added")]

theorem ex_docs : exA.rawDoc = true ∧ exA.wf = true ∧ exB.rawDoc = true ∧ exB.wf = true ∧
    DPL.memOK exA = true ∧ DPL.memOK exB = true ∧ exA.setDoc = true ∧ exB.setDoc = true := by
  decide

theorem ex_faithful_set : DES.DiffFaithful [.set] (subterms exA) (subterms exB) :=
  DES.diffFaithful_of_check (by decide +kernel)
theorem ex_faithful_mset : DES.DiffFaithful [.mset] (subterms exA) (subterms exB) :=
  DES.diffFaithful_of_check (by decide +kernel)

/-- the diffs are not empty (four hunks each: a set / multiset hunk two keys deep, a replaced
    string, a removed member, an added member; see the `#eval`s) -/
theorem ex_diff_ne : diffM [.set] exA exB ≠ [] ∧ diffM [.mset] exA exB ≠ [] := by
  refine ⟨fun h => ?_, fun h => ?_⟩
  · have := DES.equals_of_diffM_nil _ (.inl ⟨rfl, rfl⟩) rfl exA exB ex_docs.1 ex_docs.2.1
      ex_docs.2.2.2.1 h
    exact absurd this (by decide +kernel)
  · have := DES.equals_of_diffM_nil _ (.inr rfl) rfl exA exB ex_docs.1 ex_docs.2.1
      ex_docs.2.2.2.1 h
    exact absurd this (by decide +kernel)

#eval diffM [.set] exA exB
#eval diffM [.mset] exA exB

/-- `hunk_real` / `diffM_hunk_real`, `HunkReal.nonempty`, `HunkReal.not_equals` on the pair -/
example (F : FloatEq0) : ∀ h ∈ diffM [.set] exA exB,
    HunkReal [.set] exA exB [] h ∧ (h.remove ≠ [] ∨ h.add ≠ []) ∧
      ∀ r ∈ h.remove, ∀ w ∈ h.add, equals [.set] r w = false := fun h hh =>
  have H := diffM_hunk_real (.inl ⟨rfl, rfl⟩) rfl rfl ex_docs.1 ex_docs.2.1 ex_docs.2.2.1
    ex_docs.2.2.2.1 h hh
  ⟨H, H.nonempty ex_docs.2.2.2.2.1 ex_docs.2.2.2.2.2.1,
    H.not_equals F (.inl rfl) rfl rfl (docOk_of_setDoc ex_docs.2.2.2.2.2.2.1)
      (docOk_of_setDoc ex_docs.2.2.2.2.2.2.2)⟩

example (F : FloatEq0) : ∀ h ∈ diffM [.mset] exA exB,
    HunkReal [.mset] exA exB [] h ∧ (h.remove ≠ [] ∨ h.add ≠ []) ∧
      ∀ r ∈ h.remove, ∀ w ∈ h.add, equals [.mset] r w = false := fun h hh =>
  have H := diffM_hunk_real (.inr rfl) rfl rfl ex_docs.1 ex_docs.2.1 ex_docs.2.2.1
    ex_docs.2.2.2.1 h hh
  ⟨H, H.nonempty ex_docs.2.2.2.2.1 ex_docs.2.2.2.2.2.1,
    H.not_equals F (.inr rfl) rfl rfl (docOk_of_setDoc ex_docs.2.2.2.2.2.2.1)
      (docOk_of_setDoc ex_docs.2.2.2.2.2.2.2)⟩

/-- `diffM_set_hunk_members`: the set hunk at `n.s` removes members of `["a","b",{"k":["x"]}]` and adds
    members of `[{"k":["x"]},"b","d"]` -/
example {h : Hunk} (hh : h ∈ diffM [.set] exA exB)
    (hpath : h.path = [.key "n", .key "s"] ++ [.set]) :
    ∃ xs ys, navS [.set] exA [.key "n", .key "s"] = some (.arr .raw xs) ∧
      navS [.set] exB [.key "n", .key "s"] = some (.arr .raw ys) ∧ SetHunkReal [.set] xs ys h :=
  diffM_set_hunk_members (.inl ⟨rfl, rfl⟩) rfl rfl ex_docs.1 ex_docs.2.1 ex_docs.2.2.1
    ex_docs.2.2.2.1 hh hpath

/-- keyed descent: the hunk of `[{"a":""}]` against `[{"a":[]}]` (path `[{"a":""}, a]`) is real: it
    replaces what the designated member holds at `a` -/
example : ∀ h ∈ diffM [.set] DES.Witness.wa DES.Witness.wb,
    HunkReal [.set] DES.Witness.wa DES.Witness.wb [] h :=
  diffM_hunk_real (.inl ⟨rfl, rfl⟩) rfl rfl (by decide) (by decide) (by decide) (by decide)

/-- `diffM_equal_subdoc_not_mentioned`: the members at `e` (`["p","q"]`, `["q","p"]`) are `Equals` in
    both readings and are not mentioned; likewise the object member `{"k":["x"]}` of the set at `n.s` -/
example : ∀ h ∈ diffM [.set] exA exB, ¬ [PathElem.key "e"] <+: h.path :=
  diffM_equal_subdoc_not_mentioned (.inl ⟨rfl, rfl⟩) rfl rfl ex_docs.1 ex_docs.2.1 ex_docs.2.2.1
    ex_docs.2.2.2.1 (q := [.key "e"]) rfl (v := .arr .raw [.str "p", .str "q"])
    (v' := .arr .raw [.str "q", .str "p"]) rfl rfl (by decide +kernel)
    (DES.diffFaithful_of_check (by decide +kernel))

example : ∀ h ∈ diffM [.mset] exA exB, ¬ [PathElem.key "e"] <+: h.path :=
  diffM_equal_subdoc_not_mentioned (.inr rfl) rfl rfl ex_docs.1 ex_docs.2.1 ex_docs.2.2.1
    ex_docs.2.2.2.1 (q := [.key "e"]) rfl (v := .arr .raw [.str "p", .str "q"])
    (v' := .arr .raw [.str "q", .str "p"]) rfl rfl (by decide +kernel)
    (DES.diffFaithful_of_check (by decide +kernel))

theorem ex_navA : navS [.set] exA [.key "n", .key "s", .setKeys [("k", .arr .raw [.str "x"])]] =
    some (.obj [("k", .arr .raw [.str "x"])]) := by
  simp [exA, navS_key, alookup, navS_setKeys, identLookup, navS_nil]

theorem ex_navB : navS [.set] exB [.key "n", .key "s", .setKeys [("k", .arr .raw [.str "x"])]] =
    some (.obj [("k", .arr .raw [.str "x"])]) := by
  have h1 : (identOf [.set] (.str "d") == identOf [.set] (.obj [("k", .arr .raw [.str "x"])]))
      = false := by decide +kernel
  have h2 : (identOf [.set] (.str "b") == identOf [.set] (.obj [("k", .arr .raw [.str "x"])]))
      = false := by decide +kernel
  simp [exB, navS_key, alookup, navS_setKeys, identLookup, h1, h2, navS_nil]

example : ∀ h ∈ diffM [.set] exA exB,
    ¬ [PathElem.key "n", .key "s", .setKeys [("k", .arr .raw [.str "x"])]] <+: h.path :=
  diffM_equal_subdoc_not_mentioned (.inl ⟨rfl, rfl⟩) rfl rfl ex_docs.1 ex_docs.2.1 ex_docs.2.2.1
    ex_docs.2.2.2.1 (q := [.key "n", .key "s", .setKeys [("k", .arr .raw [.str "x"])]]) rfl
    ex_navA ex_navB (by decide +kernel) (DES.diffFaithful_of_check (by decide +kernel))

/-- `no_redundant_hunk` on the pair, both readings, whatever hunk is left out -/
example (d1 d2 : Diff) (h : Hunk) (hd : diffM [.set] exA exB = d1 ++ h :: d2) (sw : Bool) (r : Json)
    (hres : patchAll sw exA (d1 ++ d2) = .ok r) : equals [.set] r exB = false :=
  no_redundant_hunk (.inl ⟨rfl, rfl⟩) rfl rfl ex_docs.1 ex_docs.2.1 ex_docs.2.2.1 ex_docs.2.2.2.1
    ex_faithful_set d1 d2 h hd sw r hres

example (d1 d2 : Diff) (h : Hunk) (hd : diffM [.mset] exA exB = d1 ++ h :: d2) (sw : Bool) (r : Json)
    (hres : patchAll sw exA (d1 ++ d2) = .ok r) : equals [.mset] r exB = false :=
  no_redundant_hunk (.inr rfl) rfl rfl ex_docs.1 ex_docs.2.1 ex_docs.2.2.1 ex_docs.2.2.2.1
    ex_faithful_mset d1 d2 h hd sw r hres

-- the remaining hunks do apply on the example: the statement is not vacuous (leave out the first
-- hunk, or the last)
#eval (patchAll true exA ((diffM [.set] exA exB).drop 1)).isOk
#eval (patchAll true exA ((diffM [.set] exA exB).take 3)).isOk
#eval (patchAll true exA ((diffM [.mset] exA exB).drop 1)).isOk

/-- `c07_setmodes` on the pair -/
example := (c07_setmodes (o := [.set]) (.inl rfl) ex_docs.1 ex_docs.2.1 ex_docs.2.2.1
  ex_docs.2.2.2.1).2.2.2 ex_faithful_set
example := (c07_setmodes (o := [.mset]) (.inr rfl) ex_docs.1 ex_docs.2.1 ex_docs.2.2.1
  ex_docs.2.2.2.1).2.2.2 ex_faithful_mset

end Example

/-! ## axioms -/

#print axioms hunk_real
#print axioms diffM_hunk_real
#print axioms diffM_set_hunk_members
#print axioms diffM_mset_hunk_members
#print axioms SetHunkReal.apart
#print axioms MsetHunkReal.apart
#print axioms SetHunkReal.no_counterpart
#print axioms MsetHunkReal.surplus
#print axioms HunkReal.nonempty
#print axioms HunkReal.not_equals
#print axioms equal_subdoc_not_mentioned
#print axioms diffM_equal_subdoc_not_mentioned
#print axioms equal_member_not_mentioned
#print axioms hunk_differ
#print axioms diff_pairwise
#print axioms patchAll_frame
#print axioms no_redundant_hunk
#print axioms no_redundant_hunk_hashFaithful
#print axioms c07_setmodes
#print axioms Witness.alias_diff
#print axioms Witness.equal_member_mentioned_alias
#print axioms Witness.redundant_hunk_alias
#print axioms Witness.redundant_hunk_fnv_collision
#print axioms Witness.empty_hunk_void_member
#print axioms Example.ex_docs
#print axioms Example.ex_faithful_set
#print axioms Example.ex_diff_ne

end Jd.RealS
