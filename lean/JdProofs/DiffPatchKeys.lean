/-
  JdProofs.DiffPatchKeys — property C01 (v2 library: "diff-then-patch reproduces the target") in the
  readings that had no theorem: (A) the MERGE strategy applied IN MEMORY (alone, and combined with
  SET / MULTISET); (B) the SetKeys reading (sets of objects identified by keys), strict strategy.
  Everything lives in the namespace `Jd.DPK`. All theorems are about the library functions of the
  model: `diffM` (`a.Diff(b, options...)`), `patchAll sw` / `patchM` (`a.Patch(d)` on the diff value
  as returned, `sw = true` is the code, `sw = false` the variant that propagates nested errors),
  `equals` (`Equals`), and the hash-free specification `equivB` / `specEq`.

  ALL STAGES REACHED: A (MERGE; SET+MERGE; MULTISET+MERGE), B1 (one set key), B2 (several set keys),
  B3 (members lacking some of the set keys).

  ───────────────────────────── PART A — MERGE in memory ─────────────────────────────
  MAIN THEOREMS
    * `merge_diff_then_patch_list` (and `patchM_diffM_MERGE` for the option list `[MERGE]`):
        for options `o` with `isMerge o`, `dispatchTag o = .list` (no SET / MULTISET / SetKeys),
        `precOf o = 0`; `a` with `wf`, `rawDoc`; `b` with `wf`, `rawDoc`, `nullFree`, `objVoidFree`,
        `finiteNums`; `FloatLaws`:
          ∃ r, patchAll sw a (diffM o a b) = .ok r ∧ equals o r b = true ∧ equivB o r b = true ∧
               specEq r b = true.
    * `merge_diff_then_patch_setmodes` (and `patchM_diffM_SET_MERGE`, `patchM_diffM_MULTISET_MERGE`):
        for `isMerge o`, `dispatchTag o = .set ∨ .mset`, `keysOf o = none`, `precOf o = 0`; `a b`
        with `setDoc`; `b` `nullFree`, `objVoidFree`; `HashFaithful o (subterms a ++ subterms b)`;
        `FloatEq0`, `FloatLaws`:
          ∃ r, patchAll sw a (diffM o a b) = .ok r ∧ equals o r b = true ∧ equivB o r b = true.
    * `obj_step`: the induction step shared by the two (generic in the pure diff function): if the
      hunks of every common member turn it into the member of `b`, the hunks of two objects, applied
      in memory, turn the first object into the second. `memSound_list`, `memSound_set`: the
      inductions. `patchAll_diffM_list`, `patchAll_diffM_set`: `patchAll` on the merge diff is
      `Merge.mapply` of the pure diff (`Merge.dl`, `MSet.ds`) applied to `a` itself.
  METHOD: JdProofs.MergeProofs / MergeSetModes already show that the merge diff is a list of merge
    hunks with key paths (`diffNode_eq_dl`, `diffNode_eq_ds`), that `patchAll` applies such hunks as
    the pure function `mset` (`patchAll_mh`), and that groups of hunks under different keys act
    independently (`mapply_groups`). There the hunks are applied to NOTHING (rendering); here they are
    applied to `a` (accumulator `kvs` instead of `[]` in `mapply_groups`), and the relation
    `MSet.Rel` (= `equals ∧ equivB`) is propagated member by member (`rel_obj_of_lookups`).
  HYPOTHESES and why
    `a.wf`, `a.rawDoc` (list reading) / `a.setDoc` (set readings): documents as read from JSON / YAML
      text (unique sorted keys, plain arrays). `a` may contain `null`s and even void members.
    `b.nullFree`: the domain of merge patches (the property says "merge for null-free documents");
      `objVoidFree b`: void is not a JSON value; `b.finiteNums` + `FloatLaws`: `Equals` is reflexive on
      the values copied from `b` (`Float` is opaque to the kernel).
    `HashFaithful`, `FloatEq0` (set readings only): exactly the hypotheses of `MSet.diffNode_eq_ds`
      (equal arrays are handed to the strict set diff, which must be empty).
  No statement of part A was found false.

  ───────────────────────────── PART B — SetKeys, strict ─────────────────────────────
  MAIN THEOREMS
    * `diff_then_patch_setkeys` (and `patchM_diffM_SetKeys` for the option list `[SetKeys(ks)]`):
        for options `o` with `dispatchTag o = .set`, `keysOf o = some ks`, `isMerge o = false`,
        `precOf o = 0`; `a b` with `setDoc` and `DPL.memOK`; `KeysHyp o ks a b`; `FloatEq0`,
        `FloatLaws`; both variants `sw` of the patch code:
          ∃ r, patchAll sw a (diffM o a b) = .ok r ∧ equals o r b = true ∧ equivB o r b = true ∧
               hashCode o r = hashCode o b.
      (`Equals` as the property is worded; the advertised equivalence `equivB` — arrays compared as
      sets of equivalent members, no hashes; and equality of hash codes — set members ARE their hash
      codes in the library, which is what the induction carries through arrays: `QR`.)
    * `node_stepK`: the induction (every node, every path prefix; `StepK2`); `set_stepK`: one array
      of keyed members against one array (`KeyedHyp`: the local form of the hypotheses);
      `subs_apply`: the sub-diffs of the keyed members, applied one after the other through the keyed
      lookup (`GInv`: the state of the array in between); `patchAll_keyed_frame`: hunks below a
      keyed member that do not touch the set keys act on that member alone and the member is found
      again each time; `patchNode_keyed`, `patchKeyed_found`: the two-pass keyed lookup of
      `jsonSet.patch`; `keyed_hashes`: after the sub-diffs, the member hash codes that stay or are
      added are those of the target; `patchSetLeaf_idents'`: the set leaf at the level of hash
      codes (no faithfulness hypothesis on the patched members); `kvs_stepK`, `obj_resultK`: objects;
      `equivB_trans_right`: `equivB` composes on the right with an equivalence of two documents as
      read from text (the patched member is equivalent to the member it was diffed against, which
      has the hash code of every other bearer of the identity in the target).
  HYPOTHESES (`KeysHyp`, all decidable: checkers `…_of_check`, used in the examples) and why
    `hf  : HashFaithful o (subterms a ++ subterms b)`  equal hash codes only for equivalent nodes
          (as in the SET theorem; KF-C04-alias and FNV collisions).
    `kd  : KeyedDistinct o (subterms a)`  in every array of `a` the object members have pairwise
          distinct identities. NEEDED: `Witness.duplicate_member_breaks` (see FINDINGS).
    `ksep: KindSepI o (subterms a) (subterms a ++ subterms b)`  no object has the identity of a
          non-object (collision class; `DES.KindSepI`).
    `ib  : IdentInj o (subterms b)`  in every array of `b`, members with the same identity have the
          same hash code (`DES.IdentInj`; duplicates are allowed in `b`).
    `pf  : PathFaithful o ks (subterms a)`  among the object members of one array of `a`, the keyed
          lookup for the path object of a member (first pass: exact key values; second pass: absent
          keys count as null) hits only members with that member's identity. With all keys carried
          and no `null` key values this is a pure no-collision hypothesis; in stage B3 it is NEEDED
          beyond collisions: `Witness.null_completion_breaks` (see FINDINGS).
    `kt  : KeyTuple o ks (subterms a) (subterms b)`  two objects with the same identity have, key by
          key, values with the same hash code (and lack the same keys). Its negation is the class of
          KF-C01-identperm. NEEDED: `Witness.identperm_breaks`.
    `setDoc`, `memOK`, `FloatEq0`, `FloatLaws`: as in JdProofs.SetDiffPatch.
    NOT a hypothesis (stage B3 reached): "every member carries all the set keys".
  FINDINGS (concrete witnesses, proved on the model, replayed on the Go library with the same
  outcome; each pair satisfies every other hypothesis of the theorem)
    1. `Witness.identperm_breaks` (known: KF-C01-identperm): `[{"id":"5","k":"3"}]` →
       `[{"id":"3","k":"5"}]`, SetKeys(id,k): `Patch` returns an ERROR ("expected object with id …
       but found none"): the first hunk changes `id`, the second no longer finds the member.
    2. `Witness.duplicate_member_breaks` (NEW as a theorem; INSIDE the wording of C01: one key, every
       member carries it, a duplicated array element): `[{"id":"1","v":"1"},{"id":"1","v":"1"}]` →
       `[{"id":"1","v":"2"}]`, SetKeys(id): `Patch` succeeds with
       `[{"id":"1","v":"2"},{"id":"1","v":"1"}]`, which does NOT `Equals` the target. The keyed lookup
       patches the first bearer of the key values only. (The project's generators call "distinct
       identities inside one array" the SetKeys precondition; the property text does not state it.)
    3. `Witness.null_completion_breaks` (NEW; stage B3, outside the wording of C01):
       `[{"id":"1"},{"id":"1","k":null}]` → `[{"id":"1","v":"y"},{"id":"1","k":null}]`, SetKeys(id,k):
       the hunk for the member lacking `k` is addressed through `{"id":"1","k":null}` and the first
       pass of the lookup hits the OTHER member; `Patch` succeeds on the wrong member, result not
       `Equals`.
  NON-VACUITY: `ExampleA` (part A), `ExampleB.ex_run` (two set keys; a member changed inside a nested
    array, one removed, one added, scalar members), `ExampleB.ex3_run` (members lacking set keys: both
    are found by the second pass).
-/
import JdModel
import JdSpec
import JdProofs.Common
import JdProofs.EqualsList
import JdProofs.EqualsSet
import JdProofs.DiffEmpty
import JdProofs.MergeProofs
import JdProofs.SetDiffPatch
import JdProofs.MergeSetModes
import JdProofs.DiffEmptySet
import JdProofs.SetPatch
import JdProofs.DiffPatchList

namespace Jd.DPK
open Jd Jd.Spec Jd.Merge

/-! # Part A. MERGE strategy, in memory -/

/-! ## A.1 one object step, generic in the pure diff function

  `D` is the pure diff function on members (`Merge.dl o` in the list reading, `MSet.ds o` in the
  set readings); `DK` is its companion on member lists. -/

open Jd.MSet (Rel RelOptS rel_obj_of_lookups)

/-- the hunks for a key of the first object (values as they are in memory: `void` = delete) -/
def grpM (D : Json → Json → List (List String × Json)) (kvs' : List (String × Json)) (k : String)
    (v : Json) : List (List String × Json) :=
  match alookup k kvs' with
  | some v' => D v v'
  | none => [([], .void)]

def groupsM (D : Json → Json → List (List String × Json)) (kvs' kvs : List (String × Json)) :
    List (String × List (List String × Json)) :=
  kvs.map (fun kv => (kv.1, grpM D kvs' kv.1 kv.2))

theorem DK_groups (D : Json → Json → List (List String × Json))
    (DK : List (String × Json) → List (String × Json) → List (List String × Json))
    (kvs' : List (String × Json))
    (hnil : DK kvs' [] = [])
    (hcons : ∀ k v r, DK kvs' ((k, v) :: r) =
      (match alookup k kvs' with
       | some v' => (D v v').map (consE k)
       | none => [([k], .void)]) ++ DK kvs' r) :
    ∀ kvs : List (String × Json), DK kvs' kvs = flatG (groupsM D kvs' kvs)
  | [] => by simp [hnil, groupsM, flatG]
  | (k, v) :: r => by
    have ih := DK_groups D DK kvs' hnil hcons r
    rw [hcons, ih]
    have : flatG (groupsM D kvs' ((k, v) :: r))
        = (grpM D kvs' k v).map (consE k) ++ flatG (groupsM D kvs' r) := by
      simp [flatG, groupsM]
    rw [this]
    congr 1
    unfold grpM
    cases alookup k kvs' with
    | none => simp [consE]
    | some v' => rfl

theorem additionsM_groups (kvs : List (String × Json)) :
    ∀ kvs' : List (String × Json),
      (kvs'.filter (fun kv => (alookup kv.1 kvs).isNone)).map (fun kv => ([kv.1], kv.2))
        = flatG (groupsB kvs kvs')
  | [] => by simp [groupsB, flatG]
  | (k, v) :: r => by
    have ih := additionsM_groups kvs r
    simp only [groupsB, List.filter_cons] at ih ⊢
    split
    · simp only [List.map_cons, ih]
      simp [flatG, consE]
    · exact ih

theorem groupsM_lookup (D : Json → Json → List (List String × Json))
    (kvs kvs' : List (String × Json)) (j : String) :
    alookup j (groupsM D kvs' kvs ++ groupsB kvs kvs') = match alookup j kvs with
      | some v => some (grpM D kvs' j v)
      | none => (alookup j kvs').map (fun v' => [([], v')]) := by
  rw [alookup_append, groupsM, alookup_mapk (fun k v => grpM D kvs' k v) j kvs]
  cases hj : alookup j kvs with
  | some v => rfl
  | none =>
    simp only [Option.map_none]
    rw [groupsB, alookup_mapk (fun _ v => [(([] : List String), v)]) j,
      alookup_filter (fun k => (alookup k kvs).isNone) j kvs']
    simp [hj]

theorem groupsM_nodup (D : Json → Json → List (List String × Json)) (o : Opts)
    {kvs kvs' : List (String × Json)} (hs : keysSorted kvs = true)
    (hs' : keysSorted kvs' = true) :
    ((groupsM D kvs' kvs ++ groupsB kvs kvs').map Prod.fst).Nodup := by
  have h := groups_nodup o hs hs'
  have hA : (groupsM D kvs' kvs).map Prod.fst = (groupsA o kvs' kvs).map Prod.fst := by
    simp [groupsM, groupsA, Function.comp_def]
  rw [List.map_append] at h ⊢
  rw [hA]; exact h

theorem rel_not_void {o : Opts} {x y : Json} (h : Rel o x y) (hy : y.isVoid = false) :
    x.isVoid = false := by
  cases x with
  | void => have := h.1; simp [equals, hy] at this
  | _ => rfl

/-- **object step.** If the hunks of every common member turn that member of `a` into something
    that is the member of `b`, and the members only `b` has are themselves, then the hunks of the two
    objects, applied in memory, turn the first object into something that is the second. -/
theorem obj_step (o : Opts) (D : Json → Json → List (List String × Json))
    (DK : List (String × Json) → List (String × Json) → List (List String × Json))
    (kvs kvs' : List (String × Json))
    (hnil : DK kvs' [] = [])
    (hcons : ∀ k v r, DK kvs' ((k, v) :: r) =
      (match alookup k kvs' with
       | some v' => (D v v').map (consE k)
       | none => [([k], .void)]) ++ DK kvs' r)
    (hs : keysSorted kvs = true) (hs' : keysSorted kvs' = true)
    (hvoid : ∀ j v', alookup j kvs' = some v' → v'.isVoid = false)
    (hboth : ∀ j v v', alookup j kvs = some v → alookup j kvs' = some v' →
      Rel o (mapply (D v v') v) v')
    (honly : ∀ j v', alookup j kvs = none → alookup j kvs' = some v' → Rel o v' v') :
    Rel o (mapply (DK kvs' kvs ++
        (kvs'.filter (fun kv => (alookup kv.1 kvs).isNone)).map (fun kv => ([kv.1], kv.2)))
      (.obj kvs)) (.obj kvs') := by
  rw [DK_groups D DK kvs' hnil hcons kvs, additionsM_groups kvs kvs', ← flatG_append]
  obtain ⟨acc', he, hsa, hl⟩ := mapply_groups (groupsM D kvs' kvs ++ groupsB kvs kvs') kvs
    (by
      intro kg hm hnil' hlk
      rcases List.mem_append.1 hm with hA | hB
      · simp only [groupsM, List.mem_map] at hA
        obtain ⟨⟨k, v⟩, hkv, rfl⟩ := hA
        simp only at hnil' hlk
        have hv : alookup k kvs = some v := alookup_of_mem hs hkv
        rw [hv] at hlk
        cases hlk
        unfold grpM at hnil'
        cases hjb : alookup k kvs' with
        | none => rw [hjb] at hnil'; simp at hnil'
        | some v' =>
          rw [hjb] at hnil'
          have := hboth k .void v' hv hjb
          simp only at hnil'
          rw [hnil'] at this
          have hh := rel_not_void this (hvoid k v' hjb)
          simp [mapply, Json.isVoid] at hh
      · simp only [groupsB, List.mem_map] at hB
        obtain ⟨kv, _, rfl⟩ := hB
        simp at hnil')
    (groupsM_nodup D o hs hs') hs
  rw [he]
  refine rel_obj_of_lookups o hsa hs' (fun j => ?_)
  rw [hl j, groupsM_lookup]
  cases hja : alookup j kvs with
  | some v =>
    simp only [grpM]
    cases hjb : alookup j kvs' with
    | some v' =>
      have R := hboth j v v' hja hjb
      have hnv := rel_not_void R (hvoid j v' hjb)
      simp only [getK, hja, Option.getD_some, toOpt, hnv, Bool.false_eq_true, if_false]
      exact R
    | none =>
      simp [mapply, mset, toOpt, Json.isVoid, RelOptS]
  | none =>
    cases hjb : alookup j kvs' with
    | none => simp [RelOptS]
    | some v' =>
      simp only [Option.map_some, mapply, List.foldl_cons, List.foldl_nil, mset, toOpt,
        hvoid j v' hjb, Bool.false_eq_true, if_false]
      exact honly j v' hja hjb


/-! ## A.2 the list reading (`MERGE` alone) -/

theorem goodB_rel (L : FloatLaws) (o : Opts) (ho : dispatchTag o = .list) (hprec : precOf o = 0)
    {b : Json} (G : GoodB b) : Rel o b b :=
  ⟨equals_refl_list L o ho (by rw [hprec]; decide) b (rawDoc_listDoc b G.raw) G.wf G.fin,
    G.refl L o ho hprec⟩

theorem rel_scalar_of_equals_nil (o : Opts) (hprec : precOf o = 0) {a b : Json}
    (h1 : a.isObj = false) (h2 : Merge.isArr a = false) (he : equals [] a b = true) :
    Rel o a b := by
  refine ⟨?_, equivB_of_equals_nil_scalar o hprec h1 h2 he⟩
  rw [← equals_scalar_noopts hprec a b (fun t xs e => by subst e; simp [Merge.isArr] at h2)
    (fun kvs e => by subst e; simp [Json.isObj] at h1)]
  exact he

/-- what is proved of a pair of documents: the hunks of the pure merge diff, applied in memory to
    the first document, give a document that is the second (for `Equals` and for `equivB`) -/
def MemSound (o : Opts) (D : Json → Json → List (List String × Json)) (a b : Json) : Prop :=
  Rel o (mapply (D a b) a) b

theorem memSound_scalar_list (L : FloatLaws) (o : Opts) (ho : dispatchTag o = .list)
    (hprec : precOf o = 0) {a b : Json} (h1 : a.isObj = false) (h2 : Merge.isArr a = false)
    (G : GoodB b) : MemSound o (dl o) a b := by
  unfold MemSound
  rw [dl_scalar o h1 h2 b]
  cases he : equals [] a b with
  | true => simpa [mapply] using rel_scalar_of_equals_nil o hprec h1 h2 he
  | false => simpa [mapply, mset] using goodB_rel L o ho hprec G

theorem dlKvs_nil (o : Opts) (kvs' : List (String × Json)) : dlKvs o kvs' [] = [] := by
  simp [dlKvs]

theorem dlKvs_cons (o : Opts) (kvs' : List (String × Json)) (k : String) (v : Json)
    (r : List (String × Json)) :
    dlKvs o kvs' ((k, v) :: r) =
      (match alookup k kvs' with
       | some v' => (dl o v v').map (consE k)
       | none => [([k], .void)]) ++ dlKvs o kvs' r := by
  rw [dlKvs]; cases alookup k kvs' <;> rfl

/-- the induction of part A, list reading -/
theorem memSound_list (L : FloatLaws) (o : Opts) (ho : dispatchTag o = .list)
    (hprec : precOf o = 0) :
    ∀ a : Json, a.wf = true → a.rawDoc = true → ∀ b : Json, GoodB b → MemSound o (dl o) a b := by
  intro a
  induction a using jsonInd with
  | void => intro _ _ b G; exact memSound_scalar_list L o ho hprec rfl rfl G
  | null => intro _ _ b G; exact memSound_scalar_list L o ho hprec rfl rfl G
  | bool x => intro _ _ b G; exact memSound_scalar_list L o ho hprec rfl rfl G
  | num x => intro _ _ b G; exact memSound_scalar_list L o ho hprec rfl rfl G
  | str x => intro _ _ b G; exact memSound_scalar_list L o ho hprec rfl rfl G
  | arr t xs _ =>
    intro hw hr b G
    unfold MemSound
    cases b with
    | arr t' ys =>
      have hrt : t = .raw := by
        simp only [Json.rawDoc, Bool.and_eq_true, beq_iff_eq] at hr; exact hr.1
      have hrt' : t' = .raw := by
        have := G.raw; simp only [Json.rawDoc, Bool.and_eq_true, beq_iff_eq] at this; exact this.1
      subst hrt; subst hrt'
      have hxs : listDocList xs = true := by
        have := rawDoc_listDoc _ hr; simp only [Json.listDoc, Bool.and_eq_true] at this; exact this.2
      have hys : listDocList ys = true := by
        have := rawDoc_listDoc _ G.raw
        simp only [Json.listDoc, Bool.and_eq_true] at this; exact this.2
      rw [dl_arr_arr]
      cases he : equals o (.arr .list xs) (.arr .list ys) with
      | true =>
        simp only [if_true, mapply, List.foldl_nil]
        rw [equals_arr_list ho xs ys rfl rfl] at he
        refine ⟨by rw [equals_arr_list ho xs ys rfl rfl]; exact he, ?_⟩
        rw [equalsList_eq_equivList o ho xs ys hxs hys] at he
        simpa [equivB, ho] using he
      | false =>
        simp only [Bool.false_eq_true, if_false, mapply, List.foldl_cons, List.foldl_nil, mset]
        have R := goodB_rel L o ho hprec G
        refine ⟨?_, ?_⟩
        · rw [equals_arr_list ho ys ys rfl rfl, ← equals_arr_list ho (t := .raw) (t' := .raw) ys ys rfl rfl]
          exact R.1
        · have := R.2
          simpa [equivB, ho] using this
    | _ =>
      rw [dl_arr_other o t xs rfl]
      simpa [mapply, mset] using goodB_rel L o ho hprec G
  | obj kvs ih =>
    intro hw hr b G
    unfold MemSound
    cases b with
    | obj kvs' =>
      simp only [Json.wf, Bool.and_eq_true] at hw
      simp only [Json.rawDoc] at hr
      have hs' : keysSorted kvs' = true := by
        have := G.wf; simp only [Json.wf, Bool.and_eq_true] at this; exact this.1
      rw [dl_obj_obj]
      refine obj_step o (dl o) (dlKvs o) kvs kvs' (dlKvs_nil o kvs') (dlKvs_cons o kvs') hw.1 hs'
        (fun j v' hj => (G.member hj).notVoid) ?_ ?_
      · intro j v v' hja hjb
        exact ih j v (mem_of_alookup hja) (alookup_wf hja hw.2) (alookup_rawDoc hja hr) v'
          (G.member hjb)
      · intro j v' _ hjb
        exact goodB_rel L o ho hprec (G.member hjb)
    | _ =>
      rw [dl_obj_other o kvs rfl]
      simpa [mapply, mset] using goodB_rel L o ho hprec G

/-- in memory, the library's merge diff of two documents as read from text is a list of merge hunks
    with key paths, and `patchAll` applies them as `mapply` -/
theorem patchAll_diffM_list (sw : Bool) (o : Opts) (ho : dispatchTag o = .list)
    (hm : isMerge o = true) (a b : Json) (ha : a.rawDoc = true) (hb : b.rawDoc = true)
    (hv : objVoidFree b = true) :
    patchAll sw a (diffM o a b) = .ok (mapply (dl o a b) a) := by
  have hd := diffNode_eq_dl o ho a b [] ha hb hv
  simp only [List.map_nil, List.nil_append] at hd
  unfold diffM
  rw [hm, hd, patchAll_mh]

/-- **C01, MERGE strategy in memory, list reading of arrays** (any option list with MERGE, no SET /
    MULTISET / SetKeys, no Precision; either variant `sw` of the patch code): for documents as read
    from text, `b` null-free, `a.Patch(a.Diff(b, MERGE))` succeeds and its result `Equals` `b` under
    the options, is equivalent to it (`equivB o`) and structurally equal to it (`specEq`). -/
theorem merge_diff_then_patch_list (L : FloatLaws) (sw : Bool) (o : Opts) (hm : isMerge o = true)
    (ho : dispatchTag o = .list) (hprec : precOf o = 0) (a b : Json)
    (haw : a.wf = true) (har : a.rawDoc = true)
    (hbw : b.wf = true) (hbr : b.rawDoc = true) (hbn : b.nullFree = true)
    (hbv : objVoidFree b = true) (hbf : b.finiteNums = true) :
    ∃ r, patchAll sw a (diffM o a b) = .ok r ∧ equals o r b = true ∧ equivB o r b = true ∧
      specEq r b = true := by
  have G : GoodB b := ⟨hbw, hbr, hbn, hbv, hbf⟩
  have S := memSound_list L o ho hprec a haw har b G
  refine ⟨_, patchAll_diffM_list sw o ho hm a b har hbr hbv, S.1, S.2, ?_⟩
  have := S.2
  rw [DPL.equivB_congr o [] ho rfl (by simpa [precOf] using hprec)] at this
  exact this

/-- the library call itself: `a.Patch(a.Diff(b, MERGE))` -/
theorem patchM_diffM_MERGE (L : FloatLaws) (a b : Json)
    (haw : a.wf = true) (har : a.rawDoc = true)
    (hbw : b.wf = true) (hbr : b.rawDoc = true) (hbn : b.nullFree = true)
    (hbv : objVoidFree b = true) (hbf : b.finiteNums = true) :
    ∃ r, patchM a (diffM [.merge] a b) = .ok r ∧ equals [.merge] r b = true ∧
      equivB [.merge] r b = true ∧ specEq r b = true :=
  merge_diff_then_patch_list L true [.merge] rfl rfl rfl a b haw har hbw hbr hbn hbv hbf


/-! ## A.3 SET+MERGE and MULTISET+MERGE -/

open Jd.MSet (ds dsKvs GoodS)

theorem memSound_scalar_set (F : FloatEq0) (L : FloatLaws) {o : Opts}
    (hm : dispatchTag o = .set ∨ dispatchTag o = .mset) (hp : precOf o = 0)
    {S : List Json} (HF : HashFaithful o S) {a b : Json} (h1 : a.isObj = false)
    (h2 : Merge.isArr a = false) (G : GoodS S b) : MemSound o (ds o) a b := by
  unfold MemSound
  rw [MSet.ds_scalar o h1 h2 b]
  cases he : equals [] a b with
  | true => simpa [mapply] using rel_scalar_of_equals_nil o hp h1 h2 he
  | false => simpa [mapply, mset] using G.refl F L hm hp HF

/-- the induction of part A, set / multiset reading -/
theorem memSound_set (F : FloatEq0) (L : FloatLaws) {o : Opts}
    (hm : dispatchTag o = .set ∨ dispatchTag o = .mset) (hp : precOf o = 0)
    {S : List Json} (HF : HashFaithful o S) :
    ∀ a, DocOk a → SetDP.Within S a → ∀ b, GoodS S b → MemSound o (ds o) a b := by
  intro a
  induction a using jsonInd with
  | void => intro _ _ b G; exact memSound_scalar_set F L hm hp HF rfl rfl G
  | null => intro _ _ b G; exact memSound_scalar_set F L hm hp HF rfl rfl G
  | bool x => intro _ _ b G; exact memSound_scalar_set F L hm hp HF rfl rfl G
  | num x => intro _ _ b G; exact memSound_scalar_set F L hm hp HF rfl rfl G
  | str x => intro _ _ b G; exact memSound_scalar_set F L hm hp HF rfl rfl G
  | arr t xs _ =>
    intro ha wa b G
    have ht := ha.raw
    subst ht
    unfold MemSound
    cases b with
    | arr t' ys =>
      have ht' := G.ok.raw
      subst ht'
      rw [MSet.ds_arr_arr]
      cases he : equals o (.arr .raw xs) (.arr .raw ys) with
      | true =>
        simp only [if_true, mapply, List.foldl_nil]
        refine ⟨he, ?_⟩
        rw [← SetDP.equals_eq_equivB_of F hm hp HF ha G.ok wa G.wi]; exact he
      | false =>
        simp only [Bool.false_eq_true, if_false, mapply, List.foldl_cons, List.foldl_nil, mset]
        exact MSet.rel_typed_arr F hm hp HF G.ok G.wi
    | _ =>
      rw [MSet.ds_arr_other o _ xs rfl]
      simpa [mapply, mset] using G.refl F L hm hp HF
  | obj kvs ih =>
    intro ha wa b G
    unfold MemSound
    cases b with
    | obj kvs' =>
      rw [MSet.ds_obj_obj]
      refine obj_step o (ds o) (dsKvs o) kvs kvs' (MSet.dsKvs_nil o kvs') (MSet.dsKvs_cons o kvs')
        ha.sorted G.ok.sorted (fun j v' hj => (G.member hj).notVoid) ?_ ?_
      · intro j v v' hja hjb
        have hm1 := mem_of_alookup hja
        exact ih j v hm1 (ha.val hm1) (wa.val hm1) v' (G.member hjb)
      · intro j v' _ hjb
        exact (G.member hjb).refl F L hm hp HF
    | _ =>
      rw [MSet.ds_obj_other o kvs rfl]
      simpa [mapply, mset] using G.refl F L hm hp HF

theorem patchAll_diffM_set (F : FloatEq0) (sw : Bool) (o : Opts) (hmg : isMerge o = true)
    (hm : dispatchTag o = .set ∨ dispatchTag o = .mset) (hk : keysOf o = none) (hp : precOf o = 0)
    (a b : Json) (ha : a.setDoc = true) (hb : b.setDoc = true) (hbv : objVoidFree b = true)
    (HF : HashFaithful o (subterms a ++ subterms b)) :
    patchAll sw a (diffM o a b) = .ok (mapply (ds o a b) a) := by
  have hd := MSet.diffNode_eq_ds F hm hk hp HF a b (docOk_of_setDoc ha) (docOk_of_setDoc hb)
    (fun z hz => List.mem_append.2 (Or.inl hz)) (fun z hz => List.mem_append.2 (Or.inr hz)) hbv []
  simp only [List.map_nil, List.nil_append] at hd
  unfold diffM
  rw [hmg, hd, patchAll_mh]

/-- **C01, MERGE strategy in memory, SET / MULTISET reading of arrays** (no SetKeys, no Precision;
    either variant `sw` of the patch code): for documents as read from text, `b` null-free,
    `a.Patch(a.Diff(b, SET, MERGE))` succeeds and its result `Equals` `b` under the options and is
    equivalent to it under the set (bag) reading. -/
theorem merge_diff_then_patch_setmodes (F : FloatEq0) (L : FloatLaws) (sw : Bool) (o : Opts)
    (hmg : isMerge o = true) (hm : dispatchTag o = .set ∨ dispatchTag o = .mset)
    (hk : keysOf o = none) (hp : precOf o = 0) (a b : Json)
    (ha : a.setDoc = true) (hb : b.setDoc = true) (hbn : b.nullFree = true)
    (hbv : objVoidFree b = true) (HF : HashFaithful o (subterms a ++ subterms b)) :
    ∃ r, patchAll sw a (diffM o a b) = .ok r ∧ equals o r b = true ∧ equivB o r b = true := by
  have G : GoodS (subterms a ++ subterms b) b := MSet.goodS_of_setDoc hb hbn hbv
  have Sd := memSound_set F L hm hp HF a (docOk_of_setDoc ha)
    (fun z hz => List.mem_append.2 (Or.inl hz)) b G
  exact ⟨_, patchAll_diffM_set F sw o hmg hm hk hp a b ha hb hbv HF, Sd.1, Sd.2⟩

/-- the library call `a.Patch(a.Diff(b, SET, MERGE))` -/
theorem patchM_diffM_SET_MERGE (F : FloatEq0) (L : FloatLaws) (a b : Json)
    (ha : a.setDoc = true) (hb : b.setDoc = true) (hbn : b.nullFree = true)
    (hbv : objVoidFree b = true) (HF : HashFaithful [.set, .merge] (subterms a ++ subterms b)) :
    ∃ r, patchM a (diffM [.set, .merge] a b) = .ok r ∧ equals [.set, .merge] r b = true ∧
      equivB [.set, .merge] r b = true :=
  merge_diff_then_patch_setmodes F L true [.set, .merge] rfl (Or.inl rfl) rfl rfl a b ha hb hbn hbv HF

/-- the library call `a.Patch(a.Diff(b, MULTISET, MERGE))` -/
theorem patchM_diffM_MULTISET_MERGE (F : FloatEq0) (L : FloatLaws) (a b : Json)
    (ha : a.setDoc = true) (hb : b.setDoc = true) (hbn : b.nullFree = true)
    (hbv : objVoidFree b = true) (HF : HashFaithful [.mset, .merge] (subterms a ++ subterms b)) :
    ∃ r, patchM a (diffM [.mset, .merge] a b) = .ok r ∧ equals [.mset, .merge] r b = true ∧
      equivB [.mset, .merge] r b = true :=
  merge_diff_then_patch_setmodes F L true [.mset, .merge] rfl (Or.inr rfl) rfl rfl a b ha hb hbn hbv HF


/-! ## A.4 non-vacuity of part A -/

namespace ExampleA

/-- `{"a":1,"b":[1,2],"c":{"d":"x","n":null},"z":true}` (`a` may hold `null`s) -/
def exA : Json :=
  .obj [("a", .num 0x3FF0000000000000),
    ("b", .arr .raw [.num 0x3FF0000000000000, .num 0x4000000000000000]),
    ("c", .obj [("d", .str "x"), ("n", .null)]), ("z", .bool true)]
/-- `{"a":2,"b":[2,1],"c":{"e":[true]},"y":{"k":"v"}}` -/
def exB : Json :=
  .obj [("a", .num 0x4000000000000000),
    ("b", .arr .raw [.num 0x4000000000000000, .num 0x3FF0000000000000]),
    ("c", .obj [("e", .arr .raw [.bool true])]), ("y", .obj [("k", .str "v")])]

theorem ex_docs : exA.wf = true ∧ exA.rawDoc = true ∧ exB.wf = true ∧ exB.rawDoc = true ∧
    exB.nullFree = true ∧ objVoidFree exB = true ∧ exB.finiteNums = true := by decide

/-- the pair satisfies every hypothesis of `patchM_diffM_MERGE` (only the IEEE-754 laws are assumed) -/
example (L : FloatLaws) :
    ∃ r, patchM exA (diffM [.merge] exA exB) = .ok r ∧ equals [.merge] r exB = true ∧
      equivB [.merge] r exB = true ∧ specEq r exB = true :=
  patchM_diffM_MERGE L exA exB ex_docs.1 ex_docs.2.1 ex_docs.2.2.1 ex_docs.2.2.2.1
    ex_docs.2.2.2.2.1 ex_docs.2.2.2.2.2.1 ex_docs.2.2.2.2.2.2

/-- the pair of JdProofs/MergeSetModes.lean satisfies every hypothesis of the set-mode theorems -/
example (F : FloatEq0) (L : FloatLaws) :
    ∃ r, patchM MSet.Example.exA (diffM [.set, .merge] MSet.Example.exA MSet.Example.exB) = .ok r ∧
      equals [.set, .merge] r MSet.Example.exB = true ∧
      equivB [.set, .merge] r MSet.Example.exB = true :=
  patchM_diffM_SET_MERGE F L _ _ MSet.Example.ex_docs.1 MSet.Example.ex_docs.2.1
    MSet.Example.ex_docs.2.2.1 MSet.Example.ex_docs.2.2.2 MSet.Example.ex_hashFaithful_set

example (F : FloatEq0) (L : FloatLaws) :
    ∃ r, patchM MSet.Example.exA (diffM [.mset, .merge] MSet.Example.exA MSet.Example.exB) = .ok r ∧
      equals [.mset, .merge] r MSet.Example.exB = true ∧
      equivB [.mset, .merge] r MSet.Example.exB = true :=
  patchM_diffM_MULTISET_MERGE F L _ _ MSet.Example.ex_docs.1 MSet.Example.ex_docs.2.1
    MSet.Example.ex_docs.2.2.1 MSet.Example.ex_docs.2.2.2 MSet.Example.ex_hashFaithful_mset

end ExampleA


/-! # Part B. SetKeys reading, strict strategy -/

open Jd.SetDP (Ok Within)

/-! ## B.0 the path object of a keyed member -/

/-- value of a set key in the path object: the member's value, `null` when the member lacks it -/
def keyVal (kvs : List (String × Json)) (k : String) : Json :=
  match alookup k kvs with | some v => v | none => .null

/-- the object `newPathSetKeys` builds for a member under the set keys `ks` -/
def pathObjOf (ks : List String) (kvs : List (String × Json)) : List (String × Json) :=
  ks.foldl (fun acc k => ainsert k (keyVal kvs k) acc) []

theorem newPathSetKeys_some {o : Opts} {ks : List String} (h : keysOf o = some ks)
    (kvs : List (String × Json)) : newPathSetKeys o kvs = .setKeys (pathObjOf ks kvs) := by
  unfold newPathSetKeys
  rw [h]
  rfl

theorem pathFold_sorted (kvs : List (String × Json)) :
    ∀ (ks : List String) (acc : List (String × Json)), keysSorted acc = true →
      keysSorted (ks.foldl (fun acc k => ainsert k (keyVal kvs k) acc) acc) = true
  | [], _, h => h
  | k :: r, _, h => pathFold_sorted kvs r _ (keysSorted_ainsert k _ h)

theorem pathFold_lookup (kvs : List (String × Json)) (j : String) :
    ∀ (ks : List String) (acc : List (String × Json)),
      alookup j (ks.foldl (fun acc k => ainsert k (keyVal kvs k) acc) acc)
        = if j ∈ ks then some (keyVal kvs j) else alookup j acc
  | [], acc => by simp
  | k :: r, acc => by
    simp only [List.foldl_cons]
    rw [pathFold_lookup kvs j r]
    by_cases hjr : j ∈ r
    · simp [hjr]
    · simp only [hjr, if_false, List.mem_cons, or_false]
      by_cases hjk : j = k
      · subst hjk; simp [alookup_ainsert_self]
      · simp [hjk, alookup_ainsert_ne _ hjk]

theorem pathObjOf_sorted (ks : List String) (kvs : List (String × Json)) :
    keysSorted (pathObjOf ks kvs) = true := pathFold_sorted kvs ks [] rfl

theorem pathObjOf_lookup (ks : List String) (kvs : List (String × Json)) (j : String) :
    alookup j (pathObjOf ks kvs) = if j ∈ ks then some (keyVal kvs j) else none := by
  have := pathFold_lookup kvs j ks []
  simpa [alookup, pathObjOf] using this

theorem keysSorted_filter {β} (P : String × β → Bool) :
    ∀ {kvs : List (String × β)}, keysSorted kvs = true → keysSorted (kvs.filter P) = true
  | [], _ => rfl
  | (k, v) :: r, h => by
    obtain ⟨hl, hs⟩ := keysSorted_cons_iff.1 h
    have ih := keysSorted_filter P hs
    simp only [List.filter_cons]
    split
    · exact keysSorted_cons_iff.2 ⟨fun k' v' hm => hl k' v' (List.mem_filter.1 hm).1, ih⟩
    · exact ih

theorem alookup_restrictKeys (j : String) (kvs po : List (String × Json)) :
    alookup j (restrictKeys kvs po) = if (alookup j po).isSome then alookup j kvs else none := by
  have := alookup_filter (β := Json) (fun k => (alookup k po).isSome) j kvs
  simpa [restrictKeys] using this

/-- two objects with the same members under the keys of the path object have the same restriction -/
theorem restrictKeys_congr {po kvs kvs' : List (String × Json)}
    (hs : keysSorted kvs = true) (hs' : keysSorted kvs' = true)
    (h : ∀ k, (alookup k po).isSome = true → alookup k kvs' = alookup k kvs) :
    restrictKeys kvs' po = restrictKeys kvs po := by
  refine kvs_ext (keysSorted_filter _ hs') (keysSorted_filter _ hs) (fun j => ?_)
  rw [alookup_restrictKeys, alookup_restrictKeys]
  by_cases hj : (alookup j po).isSome = true
  · simp [hj, h j hj]
  · simp [hj]

theorem nullFold_sorted :
    ∀ (l : List (String × Json)) (acc : List (String × Json)), keysSorted acc = true →
      keysSorted (l.foldl (fun acc kv => ainsert kv.1 Json.null acc) acc) = true
  | [], _, h => h
  | kv :: r, _, h => nullFold_sorted r _ (keysSorted_ainsert kv.1 _ h)

theorem nullFold_lookup (j : String) :
    ∀ (l : List (String × Json)) (acc : List (String × Json)),
      alookup j (l.foldl (fun acc kv => ainsert kv.1 Json.null acc) acc)
        = if j ∈ l.map Prod.fst then some Json.null else alookup j acc
  | [], acc => by simp
  | kv :: r, acc => by
    simp only [List.foldl_cons]
    rw [nullFold_lookup j r]
    by_cases hjr : j ∈ r.map Prod.fst
    · simp [hjr]
    · simp only [hjr, if_false, List.map_cons, List.mem_cons, or_false]
      by_cases hjk : j = kv.1
      · subst hjk; simp [alookup_ainsert_self]
      · simp [hjk, alookup_ainsert_ne _ hjk]

/-- the tolerant projection of a member on its own path object is the path object -/
theorem tolFold_self (ks : List String) {kvs : List (String × Json)} (hs : keysSorted kvs = true)
    (P : String × Json → Bool)
    (hP : ∀ kv, P kv = (kv.2.isNull && (alookup kv.1 kvs).isNone)) :
    ((pathObjOf ks kvs).filter P).foldl (fun acc kv => ainsert kv.1 Json.null acc)
      (restrictKeys kvs (pathObjOf ks kvs)) = pathObjOf ks kvs := by
  refine kvs_ext (nullFold_sorted _ _ (keysSorted_filter _ hs)) (pathObjOf_sorted ks kvs)
    (fun j => ?_)
  rw [nullFold_lookup, alookup_restrictKeys, pathObjOf_lookup]
  have hmem : j ∈ ((pathObjOf ks kvs).filter P).map Prod.fst ↔ j ∈ ks ∧ alookup j kvs = none := by
    simp only [List.mem_map, List.mem_filter]
    constructor
    · rintro ⟨⟨k, v⟩, ⟨hm, hp⟩, rfl⟩
      have hl := alookup_of_mem (pathObjOf_sorted ks kvs) hm
      rw [pathObjOf_lookup] at hl
      rw [hP] at hp
      simp only [Bool.and_eq_true, Option.isNone_iff_eq_none] at hp
      by_cases hk : k ∈ ks
      · exact ⟨hk, hp.2⟩
      · simp [hk] at hl
    · rintro ⟨hk, hn⟩
      refine ⟨(j, .null), ⟨?_, ?_⟩, rfl⟩
      · apply mem_of_alookup
        rw [pathObjOf_lookup, if_pos hk, keyVal, hn]
      · rw [hP]; simp [hn, Json.isNull]
  by_cases hk : j ∈ ks
  · cases hl : alookup j kvs with
    | none =>
      rw [if_pos (hmem.2 ⟨hk, hl⟩)]
      simp [hk, keyVal, hl]
    | some v =>
      rw [if_neg (fun h => by rw [(hmem.1 h).2] at hl; cases hl)]
      simp [hk, keyVal, hl]
  · rw [if_neg (fun h => hk (hmem.1 h).1)]
    simp [hk]

theorem pathIdentTol_self (ks : List String) {kvs : List (String × Json)}
    (hs : keysSorted kvs = true) :
    pathIdentTol [.set] kvs (pathObjOf ks kvs) = identObj [.set] (pathObjOf ks kvs) := by
  unfold pathIdentTol
  rw [tolFold_self ks hs _ (fun kv => by obtain ⟨k, v⟩ := kv; cases v <;> rfl)]
  simp [identObj, keysOf]

/-! ## B.1 the keyed lookup of `jsonSet.patch` -/

/-- the test of the keyed lookup: first pass (`tol = false`), second pass (`tol = true`) -/
def matchT (tol : Bool) (po : List (String × Json)) (z : Json) : Bool :=
  match z with
  | .obj kvs =>
    (if tol then pathIdentTol [.set] kvs po else pathIdent [.set] kvs po) == identObj [.set] po
  | _ => false

theorem keyedTol_eq (po : List (String × Json)) (xs : List Json) :
    keyedTol po xs = !(xs.any (matchT false po)) := by
  unfold keyedTol
  congr 2

/-- a member always passes the second pass for its own path object -/
theorem matchT_true_self (ks : List String) {kvs : List (String × Json)}
    (hs : keysSorted kvs = true) : matchT true (pathObjOf ks kvs) (.obj kvs) = true := by
  simp [matchT, pathIdentTol_self ks hs]

/-- the test only looks at the members under the keys of the path object -/
theorem matchT_congr {tol : Bool} {po kvs kvs' : List (String × Json)}
    (hpos : keysSorted po = true) (hs : keysSorted kvs = true) (hs' : keysSorted kvs' = true)
    (h : ∀ k, (alookup k po).isSome = true → alookup k kvs' = alookup k kvs) :
    matchT tol po (.obj kvs') = matchT tol po (.obj kvs) := by
  have e1 := restrictKeys_congr hs hs' h
  have e2 : pathIdentTol [.set] kvs' po = pathIdentTol [.set] kvs po := by
    unfold pathIdentTol
    rw [e1]
    congr 3
    apply List.filter_congr
    intro kv hkv
    rw [h kv.1 (by rw [alookup_of_mem hpos hkv]; rfl)]
  simp only [matchT, pathIdent, e1, e2]

/-- a pass of the keyed lookup finds the first member that passes its test and patches it in place -/
theorem patchKeyed_found (sw tol : Bool) (po : List (String × Json)) (rest : Path)
    (b rm ad af : List Json) (kvs : List (String × Json)) (post : List Json)
    (hm : matchT tol po (.obj kvs) = true) :
    ∀ (pre acc : List Json), (∀ z ∈ pre, matchT tol po z = false) →
      patchKeyed sw tol (identObj [.set] po) po rest b rm ad af acc (pre ++ .obj kvs :: post) =
        match patchNode sw false (.obj kvs) rest b rm ad af with
        | .ok v' => .ok (.arr .set (acc ++ pre ++ v' :: post))
        | .err => if sw then .ok (.arr .set (acc ++ pre ++ .obj kvs :: post)) else .err
        | .panic => .panic
  | [], acc, _ => by
    rw [patchKeyed.eq_def]
    simp only [List.nil_append, List.append_nil]
    simp only [matchT] at hm
    rw [if_pos hm]
    cases patchNode sw false (.obj kvs) rest b rm ad af <;> rfl
  | z :: pre, acc, hp => by
    have hz : matchT tol po z = false := hp z List.mem_cons_self
    have ih := patchKeyed_found sw tol po rest b rm ad af kvs post hm pre (acc ++ [z])
      (fun w hw => hp w (List.mem_cons_of_mem _ hw))
    rw [patchKeyed.eq_def]
    simp only [List.cons_append]
    cases z with
    | obj kz =>
      simp only [matchT] at hz
      simp only [hz, Bool.false_eq_true, if_false]
      rw [ih]
      simp [List.append_assoc]
    | _ =>
      simp only []
      rw [ih]
      simp [List.append_assoc]

/-- a strict hunk whose path starts with a keyed element, addressed to an array read as a set: `tol`
    is the pass the code uses; the member `kvs` is the first one that passes its test -/
theorem patchNode_keyed (sw : Bool) (t : Tag) (ht : t = .raw ∨ t = .set)
    (po : List (String × Json)) (e : PathElem) (rest : Path)
    (b rm ad af : List Json) (pre : List Json) (kvs : List (String × Json)) (post : List Json)
    (tol : Bool) (htol : keyedTol po (pre ++ .obj kvs :: post) = tol)
    (hpre : ∀ z ∈ pre, matchT tol po z = false) (hm : matchT tol po (.obj kvs) = true) :
    patchNode sw false (.arr t (pre ++ .obj kvs :: post)) (.setKeys po :: e :: rest) b rm ad af =
      match patchNode sw false (.obj kvs) (e :: rest) b rm ad af with
      | .ok v' => .ok (.arr .set (pre ++ v' :: post))
      | .err => if sw then .ok (.arr .set (pre ++ .obj kvs :: post)) else .err
      | .panic => .panic := by
  rw [patchNode.eq_def]
  have he : effTag (pathMeta (.setKeys po :: e :: rest)) t = .set := by
    rcases ht with rfl | rfl <;> simp [effTag, pathMeta, dispatchTag]
  simp only [he, Bool.false_eq_true, if_false, List.isEmpty_cons, htol]
  rw [patchKeyed_found sw tol po (e :: rest) b rm ad af kvs post hm pre [] hpre]
  simp

/-! ## B.2 frame lemma: hunks below a keyed member that do not touch the set keys -/

/-- strict hunks whose path starts with an object key outside the set keys -/
def KeyFree (ks : List String) (D : Diff) : Prop :=
  ∀ h ∈ D, h.merge = false ∧ ∃ k rest, h.path = .key k :: rest ∧ k ∉ ks

/-- a sequence of such hunks, addressed through the keyed path element to the array, acts on the
    member alone; the member keeps its values under the set keys, hence is found again each time
    (by the same pass of the lookup) -/
theorem patchAll_keyed_frame (sw : Bool) (ks : List String) (po : List (String × Json))
    (hpos : keysSorted po = true) (hpok : ∀ k, (alookup k po).isSome = true → k ∈ ks)
    (pre post : List Json) (tol : Bool) (hpre : ∀ z ∈ pre, matchT tol po z = false) :
    ∀ (D : Diff), KeyFree ks D → ∀ (t : Tag), (t = .raw ∨ t = .set) →
      ∀ (kvs : List (String × Json)), keysSorted kvs = true →
      keyedTol po (pre ++ .obj kvs :: post) = tol → matchT tol po (.obj kvs) = true →
      ∀ r, patchAll sw (.obj kvs) D = .ok r →
      ∃ kvr t', r = .obj kvr ∧ keysSorted kvr = true ∧ (∀ k ∈ ks, alookup k kvr = alookup k kvs) ∧
        (t' = .raw ∨ t' = .set) ∧
        patchAll sw (.arr t (pre ++ .obj kvs :: post)) (D.map (DPL.shiftHunk [.setKeys po]))
          = .ok (.arr t' (pre ++ r :: post))
  | [], _, t, ht, kvs, hs, _, _, r, hr => by
    simp only [patchAll, Outcome.ok.injEq] at hr
    subst hr
    exact ⟨kvs, t, rfl, hs, fun _ _ => rfl, ht, by simp [patchAll]⟩
  | h :: D, hD, t, ht, kvs, hs, htol, hm, r, hr => by
    obtain ⟨hmg, k, rest, hpath, hkn⟩ := hD h List.mem_cons_self
    simp only [patchAll, hmg, hpath] at hr
    rw [SetDP.patchNode_obj_key] at hr
    cases hv : patchNode sw false ((alookup k kvs).getD .void) rest h.before h.remove h.add h.after with
    | err => rw [hv] at hr; cases hr
    | panic => rw [hv] at hr; cases hr
    | ok v =>
      rw [hv] at hr
      simp only at hr
      have hs1 := DPL.keysSorted_aput k v kvs hs
      have hl1 : ∀ j ∈ ks, alookup j (DPL.aput k v kvs) = alookup j kvs := by
        intro j hj
        exact DPL.alookup_aput_ne (fun e : j = k => hkn (e ▸ hj)) v kvs
      have hl2 : ∀ j, (alookup j po).isSome = true →
          alookup j (DPL.aput k v kvs) = alookup j kvs := fun j hj => hl1 j (hpok j hj)
      have hm1 : matchT tol po (.obj (DPL.aput k v kvs)) = true := by
        rw [matchT_congr hpos hs hs1 hl2]; exact hm
      have htol1 : keyedTol po (pre ++ .obj (DPL.aput k v kvs) :: post) = tol := by
        rw [← htol, keyedTol_eq, keyedTol_eq]
        simp only [List.any_append, List.any_cons, matchT_congr hpos hs hs1 hl2]
      obtain ⟨kvr, t', e1, e2, e3, e4, e5⟩ := patchAll_keyed_frame sw ks po hpos hpok pre post tol
        hpre D (fun h' hh' => hD h' (List.mem_cons_of_mem _ hh')) .set (Or.inr rfl)
        (DPL.aput k v kvs) hs1 htol1 hm1 r hr
      refine ⟨kvr, t', e1, e2, fun j hj => by rw [e3 j hj, hl1 j hj], e4, ?_⟩
      simp only [List.map_cons, patchAll, DPL.shiftHunk, hmg, hpath, List.cons_append,
        List.nil_append]
      rw [patchNode_keyed sw t ht po (.key k) rest _ _ _ _ pre kvs post tol htol hpre hm,
        SetDP.patchNode_obj_key, hv]
      exact e5

/-! ## B.3 what one node of the diff has to achieve; objects -/

/-- the result is the target: for the library's `Equals`, it has the target's hash code (members of
    arrays read as sets are compared by hash code), and for the advertised equivalence `equivB` -/
def QR (o : Opts) (r b : Json) : Prop :=
  equals o r b = true ∧ hashCode o r = hashCode o b ∧ equivB o r b = true

/-- the hunks are hunks below the path, they apply to the source in sequence (library patch code),
    and the result is the target -/
def StepK (sw : Bool) (o : Opts) (a b : Json) (p : Path) : Prop :=
  ∃ D r, diffNode o false a b p = D.map (DPL.shiftHunk p) ∧ (∀ h ∈ D, h.merge = false) ∧
    patchAll sw a D = .ok r ∧ QR o r b

theorem equals_isVoid {o : Opts} {r b : Json} (h : equals o r b = true) : r.isVoid = b.isVoid := by
  cases r with
  | arr t xs =>
    cases b with
    | void => cases ht : effTag o t <;> simp [equals, ht, Json.dispatch] at h
    | _ => rfl
  | _ => cases b <;> simp [equals, Json.isVoid, Json.isNull] at h ⊢

/-- the advertised equivalence, set reading, composes on the right with an equivalence between two
    documents as read from text (no hypothesis on the first document: it is a patch result) -/
theorem equivB_trans_right (F : FloatEq0) {o : Opts} (hd : dispatchTag o = .set)
    (hp : precOf o = 0) :
    ∀ r y1 y2, DocOk y1 → DocOk y2 → equivB o r y1 = true → equivB o y1 y2 = true →
      equivB o r y2 = true := by
  intro r
  induction r using jsonInd with
  | void => intro y1 y2 _ _ h1 h2; cases y1 <;> cases y2 <;> simp_all [equivB]
  | null => intro y1 y2 _ _ h1 h2; cases y1 <;> cases y2 <;> simp_all [equivB]
  | bool x => intro y1 y2 _ _ h1 h2; cases y1 <;> cases y2 <;> simp_all [equivB]
  | str x => intro y1 y2 _ _ h1 h2; cases y1 <;> cases y2 <;> simp_all [equivB]
  | num x =>
    intro y1 y2 d1 d2 h1 h2
    cases y1 with
    | num u =>
      cases y2 with
      | num v =>
        have hu := d1 (.num u) (mem_subterms_self _)
        have hv := d2 (.num v) (mem_subterms_self _)
        simp only [nodeOk, Bool.and_eq_true, bne_iff_ne, ne_eq] at hu hv
        simp only [equivB, hp] at h1 h2 ⊢
        rw [← F.eq_of_within0 u v hu.1 hv.1 hu.2 hv.2 h2]
        exact h1
      | _ => simp [equivB] at h2
    | _ => simp [equivB] at h1
  | arr t xs ih =>
    intro y1 y2 d1 d2 h1 h2
    cases y1 with
    | arr t1 ys1 =>
      cases y2 with
      | arr t2 ys2 =>
        simp only [equivB, hd, Bool.and_eq_true, allIn_iff, allCovered_iff] at h1 h2 ⊢
        constructor
        · intro x hx
          obtain ⟨u, hu, e1⟩ := h1.1 x hx
          obtain ⟨v, hv, e2⟩ := h2.1 u hu
          exact ⟨v, hv, ih x hx u v (d1.elem hu) (d2.elem hv) e1 e2⟩
        · intro v hv
          obtain ⟨u, hu, e2⟩ := h2.2 v hv
          obtain ⟨x, hx, e1⟩ := h1.2 u hu
          exact ⟨x, hx, ih x hx u v (d1.elem hu) (d2.elem hv) e1 e2⟩
      | _ => simp [equivB] at h2
    | _ => simp [equivB] at h1
  | obj kvs ih =>
    intro y1 y2 d1 d2 h1 h2
    cases y1 with
    | obj k1 =>
      cases y2 with
      | obj k2 =>
        simp only [equivB, Bool.and_eq_true, beq_iff_eq, equivKvs_eq_lookAll, lookAll_iff] at h1 h2 ⊢
        refine ⟨h1.1.trans h2.1, ?_⟩
        intro k v hm
        obtain ⟨v1, l1, e1⟩ := h1.2 k v hm
        have hm1 := mem_of_alookup l1
        obtain ⟨v2, l2, e2⟩ := h2.2 k v1 hm1
        exact ⟨v2, l2, ih k v hm v1 v2 (d1.val hm1) (d2.val (mem_of_alookup l2)) e1 e2⟩
      | _ => simp [equivB] at h2
    | _ => simp [equivB] at h1

/-- the first loop of `jsonObject.diff`: the members of the source in key order (as
    `SetDP.kvs_step`, for `StepK`) -/
theorem kvs_stepK (L : FloatLaws) (sw : Bool) (o : Opts) (kvs' : List (String × Json))
    (hb : Ok (.obj kvs')) (p : Path) :
    ∀ (r : List (String × Json)),
      (∀ k v, (k, v) ∈ r → Ok v ∧ v.isVoid = false ∧
        ∀ v', alookup k kvs' = some v' → ∀ q, StepK sw o v v' q) →
      keysSorted r = true →
      ∀ cur, keysSorted cur = true → (∀ k v, (k, v) ∈ r → alookup k cur = some v) →
      ∃ D cur', diffKvs o false p kvs' r = D.map (DPL.shiftHunk p) ∧ (∀ h ∈ D, h.merge = false) ∧
        patchAll sw (.obj cur) D = .ok (.obj cur') ∧ keysSorted cur' = true ∧
        (∀ k0, (∀ v, (k0, v) ∉ r) → alookup k0 cur' = alookup k0 cur) ∧
        (∀ k v, (k, v) ∈ r → match alookup k kvs' with
          | none => alookup k cur' = none
          | some v' => ∃ z, alookup k cur' = some z ∧ QR o z v')
  | [], _, _, cur, hs, _ =>
    ⟨[], cur, by simp [DE.diffKvs_nil], by simp, rfl, hs, fun _ _ => rfl, fun _ _ h => by cases h⟩
  | (k, v) :: r, hr, hsk, cur, hs, hcur => by
    obtain ⟨okv, hnv, ihv⟩ := hr k v List.mem_cons_self
    have hsk' := DPL.keysSorted_cons_iff.1 hsk
    have hx : alookup k cur = (if v.isVoid then none else some v) := by
      rw [hcur k v List.mem_cons_self, hnv]; rfl
    have hknr : ∀ w, (k, w) ∉ r := fun w hm => String.lt_irrefl k (hsk'.1 k w hm)
    have step : ∀ (D0 : Diff) (r0 : Json), (∀ h ∈ D0, h.merge = false) →
        patchAll sw v D0 = .ok r0 →
        ((r0 = .void ∧ alookup k kvs' = none) ∨
          ∃ v', alookup k kvs' = some v' ∧ QR o r0 v') →
        ∃ D cur', D0.map (DPL.shiftHunk (p ++ [.key k])) ++ diffKvs o false p kvs' r =
            D.map (DPL.shiftHunk p) ∧ (∀ h ∈ D, h.merge = false) ∧
          patchAll sw (.obj cur) D = .ok (.obj cur') ∧ keysSorted cur' = true ∧
          (∀ k0, (∀ v_1, (k0, v_1) ∉ (k, v) :: r) → alookup k0 cur' = alookup k0 cur) ∧
          (∀ k_1 v_1, (k_1, v_1) ∈ (k, v) :: r → match alookup k_1 kvs' with
            | none => alookup k_1 cur' = none
            | some v' => ∃ z, alookup k_1 cur' = some z ∧ QR o z v') := by
      intro D0 r0 hD0 hr0 hres
      obtain ⟨cur1, g1, g2, g3, g4⟩ := SetDP.patchAll_key_frame sw k D0 hD0 cur v hs hx r0 hr0
      obtain ⟨Dr, cur', f0, f0', f1, f2, f3, f4⟩ := kvs_stepK L sw o kvs' hb p r
        (fun k1 v1 hm => hr k1 v1 (List.mem_cons_of_mem _ hm)) hsk'.2 cur1 g2 (fun k1 v1 hm => by
          have hne : k1 ≠ k := fun e => String.lt_irrefl k (e ▸ hsk'.1 k1 v1 hm)
          rw [g3 k1 hne]
          exact hcur k1 v1 (List.mem_cons_of_mem _ hm))
      refine ⟨D0.map (DPL.shiftHunk [.key k]) ++ Dr, cur', ?_, ?_, ?_, f2, ?_, ?_⟩
      · rw [f0, List.map_append, List.map_map]
        congr 1
        apply List.map_congr_left
        intro h _
        simp [SetDP.shiftHunk_shiftHunk]
      · intro h hh
        rcases List.mem_append.1 hh with hh | hh
        · obtain ⟨h0, hh0, rfl⟩ := List.mem_map.1 hh
          exact hD0 h0 hh0
        · exact f0' h hh
      · rw [SetDP.patchAll_append sw _ _ _ _ g1]
        exact f1
      · intro k0 hk0
        have hne : k0 ≠ k := fun e => hk0 v (e ▸ List.mem_cons_self)
        rw [f3 k0 (fun w hm => hk0 w (List.mem_cons_of_mem _ hm)), g3 k0 hne]
      · intro k1 v1 hm
        rcases List.mem_cons.1 hm with e | hm
        · cases e
          rw [f3 k hknr, g4]
          rcases hres with ⟨rfl, hlk⟩ | ⟨v', hlk, hres⟩
          · rw [hlk]; rfl
          · rw [hlk]
            have hnv' : r0.isVoid = false := by
              rw [equals_isVoid hres.1]; exact (hb.lookup hlk).2
            exact ⟨r0, by rw [hnv']; rfl, hres⟩
        · exact f4 k1 v1 hm
    rw [DE.diffKvs_cons]
    cases hlk : alookup k kvs' with
    | some v' =>
      obtain ⟨D0, r0, d1, d2, d3, d4⟩ := ihv v' hlk (p ++ [.key k])
      simp only []
      rw [d1]
      exact step D0 r0 d2 d3 (.inr ⟨v', hlk, d4⟩)
    | none =>
      simp only [Bool.false_eq_true, if_false]
      have h1 : patchAll sw v [{ path := [], remove := v.nodeList }] = .ok .void := by
        apply SetDP.patchAll_single
        exact SetDP.patch_replace L sw okv [] (by simp)
      have := step [{ path := [], remove := v.nodeList }] .void (by simp) h1 (.inl ⟨rfl, hlk⟩)
      simpa [DPL.shiftHunk] using this

/-- two objects with sorted keys: the first has exactly the members of the second, up to `QR` -/
theorem obj_resultK {o : Opts} {cur kvs' : List (String × Json)} (hs : keysSorted cur = true)
    (hs' : keysSorted kvs' = true)
    (h : ∀ k, match alookup k kvs' with
      | none => alookup k cur = none
      | some v' => ∃ z, alookup k cur = some z ∧ QR o z v') :
    QR o (.obj cur) (.obj kvs') := by
  have hsub1 : cur.map Prod.fst ⊆ kvs'.map Prod.fst := by
    intro k hk
    rw [DPL.mem_keys_iff_lookup] at hk ⊢
    have := h k
    cases hl : alookup k kvs' with
    | none => rw [hl] at this; simp [this] at hk
    | some v' => rfl
  have hsub2 : kvs'.map Prod.fst ⊆ cur.map Prod.fst := by
    intro k hk
    rw [DPL.mem_keys_iff_lookup] at hk ⊢
    have := h k
    cases hl : alookup k kvs' with
    | none => simp [hl] at hk
    | some v' =>
      rw [hl] at this
      obtain ⟨z, hz, _⟩ := this
      simp [hz]
  have hlen : cur.length = kvs'.length := by
    have h1 := DPL.nodup_subset_length_le _ _ (keysSorted_nodup hs) hsub1
    have h2 := DPL.nodup_subset_length_le _ _ (keysSorted_nodup hs') hsub2
    simp only [List.length_map] at h1 h2
    omega
  let R : Json → Json → Bool :=
    fun x y => equals o x y && hashCode o x == hashCode o y && equivB o x y
  have key : AllLook R cur kvs' := by
    intro k z hm
    have hz := alookup_of_mem hs hm
    have := h k
    cases hl : alookup k kvs' with
    | none => rw [hl] at this; simp [this] at hz
    | some v' =>
      rw [hl] at this
      obtain ⟨z', hz', hr⟩ := this
      rw [hz] at hz'
      cases hz'
      exact ⟨v', rfl, by simp [R, hr.1, hr.2.1, hr.2.2]⟩
  have hflip := AllLook.flip hs hs' hlen key
  refine ⟨?_, ?_, ?_⟩
  · simp only [equals, Bool.and_eq_true, beq_iff_eq, equalsKvs_eq_lookAll, lookAll_iff]
    refine ⟨hlen, fun k z hm => ?_⟩
    obtain ⟨v', a, b⟩ := key k z hm
    simp only [R, Bool.and_eq_true] at b
    exact ⟨v', a, b.1.1⟩
  · have hk : hashKvs o cur = hashKvs o kvs' :=
      hashKvs_congr o R cur kvs' hs hs' key hflip (fun k v v' _ _ e => by
        simp only [R, Bool.and_eq_true, beq_iff_eq] at e; exact e.1.2)
    simp only [hashCode, hk]
  · simp only [equivB, Bool.and_eq_true, beq_iff_eq, equivKvs_eq_lookAll, lookAll_iff]
    refine ⟨hlen, fun k z hm => ?_⟩
    obtain ⟨v', a, b⟩ := key k z hm
    simp only [R, Bool.and_eq_true] at b
    exact ⟨v', a, b.2⟩

/-! ## B.4 the set leaf, at the level of hash codes -/

theorem MapInv_mono {m : Opts} {E E' : List Json} {am : List (UInt64 × Json)} (hI : MapInv m E am)
    (h : ∀ x ∈ E, x ∈ E') : MapInv m E' am :=
  ⟨hI.1, fun p hp => ⟨h _ (hI.2 p hp).1, (hI.2 p hp).2⟩⟩

/-- the removal loop succeeds when each removed value is `Equals` to whatever the map holds under
    its identity -/
theorem setRemoveLoop_ok' {m : Opts} {E : List Json} :
    ∀ (rem : List Json) (am : List (UInt64 × Json)), MapInv m E am →
      (∀ d ∈ E, ∀ v ∈ rem, identOf m d = identOf m v → equals m d v = true) →
      (∀ r ∈ rem, identOf m r ∈ hkeys am) → (rem.map (identOf m)).Nodup →
      ∃ am', setRemoveLoop m am rem = .ok am' ∧ MapInv m E am' ∧
        ∀ h, h ∈ hkeys am' ↔ h ∈ hkeys am ∧ h ∉ rem.map (identOf m)
  | [], am, hI, _, _, _ => ⟨am, by simp [setRemoveLoop], hI, by simp⟩
  | v :: r, am, hI, heq, hk, hn => by
    have hkv : identOf m v ∈ hkeys am := hk v (by simp)
    simp only [List.map_cons, List.nodup_cons] at hn
    cases hg : hmapGet (identOf m v) am with
    | none => exact absurd hkv (hmapGet_none.1 hg)
    | some d =>
      have hd := hI.2 _ (hmapGet_some hg)
      have he : equals m d v = true := heq d hd.1 v (by simp) hd.2
      have hk' : ∀ r' ∈ r, identOf m r' ∈ hkeys (hmapErase (identOf m v) am) := by
        intro r' hr'
        rw [mem_hkeys_hmapErase _ _ _ hI.1]
        refine ⟨hk r' (by simp [hr']), ?_⟩
        intro e
        exact hn.1 (e ▸ List.mem_map_of_mem hr')
      obtain ⟨am', h1, h2, h3⟩ := setRemoveLoop_ok' r (hmapErase (identOf m v) am)
        (hI.erase _) (fun d hd v' hv' => heq d hd v' (by simp [hv'])) hk' hn.2
      refine ⟨am', ?_, h2, ?_⟩
      · simp [setRemoveLoop, hg, he, h1]
      · intro h
        rw [h3, mem_hkeys_hmapErase _ _ _ hI.1]
        simp only [List.map_cons, List.mem_cons]
        grind

/-- the set leaf in terms of identities, without a global faithfulness hypothesis -/
theorem patchSetLeaf_idents' {m : Opts} {s remove add : List Json}
    (heq : ∀ d ∈ s, ∀ v ∈ remove, identOf m d = identOf m v → equals m d v = true)
    (hall : ∀ r ∈ remove, identOf m r ∈ s.map (identOf m))
    (hn : (remove.map (identOf m)).Nodup) :
    ∃ ys, patchSetLeaf m s remove add = .ok (.arr .set ys) ∧
      (∀ y ∈ ys, y ∈ s ∨ y ∈ add) ∧
      ∀ h, h ∈ ys.map (identOf m) ↔
        (h ∈ s.map (identOf m) ∧ h ∉ remove.map (identOf m)) ∨ h ∈ add.map (identOf m) := by
  have hI0 : MapInv m s (buildMap m s []) :=
    buildMap_inv s (MapInv.nil _ _) (fun v hv => hv)
  have hk0 : ∀ h, h ∈ hkeys (buildMap m s []) ↔ h ∈ s.map (identOf m) := by
    intro h; rw [mem_hkeys_buildMap]; simp [hkeys]
  obtain ⟨am', h1, h2, h3⟩ := setRemoveLoop_ok' remove _ hI0 heq
    (fun r hr => by rw [hk0]; exact hall r hr) hn
  have hI2 : MapInv m (s ++ add) (buildMap m add am') :=
    buildMap_inv add (MapInv_mono h2 (fun x hx => by simp [hx])) (fun v hv => by simp [hv])
  refine ⟨_, by rw [patchSetLeaf_eq, h1], ?_, ?_⟩
  · intro y hy
    obtain ⟨p, hp, rfl⟩ := List.mem_map.1 hy
    rcases mem_buildMap add am' ((ksort_perm _).mem_iff.1 hp) with h' | h'
    · rcases mem_buildMap s [] (setRemoveLoop_sub remove _ _ h1 p h') with h'' | h''
      · simp at h''
      · exact Or.inl h''
    · exact Or.inr h'
  · intro h
    rw [values_idents hI2, mem_hkeys_ksort, mem_hkeys_buildMap, h3, hk0]

/-! ## B.5 one array read as a set of keyed members: the diff, then the patch -/

theorem nodup_map_inj {α β} {f : α → β} : ∀ {l : List α}, (l.map f).Nodup →
    ∀ {a b : α}, a ∈ l → b ∈ l → f a = f b → a = b
  | [], _, _, _, ha, _, _ => by cases ha
  | x :: r, hn, a, b, ha, hb, e => by
    simp only [List.map_cons, List.nodup_cons] at hn
    rcases List.mem_cons.1 ha with ea | ha' <;> rcases List.mem_cons.1 hb with eb | hb'
    · rw [ea, eb]
    · subst ea; exact absurd (e ▸ List.mem_map_of_mem hb') hn.1
    · subst eb; exact absurd (e ▸ List.mem_map_of_mem ha') hn.1
    · exact nodup_map_inj hn.2 ha' hb' e

theorem nodup_map_of {α β γ} {f : α → β} {g : α → γ} : ∀ {l : List α}, (l.map f).Nodup →
    (∀ a ∈ l, ∀ b ∈ l, g a = g b → f a = f b) → (l.map g).Nodup
  | [], _, _ => by simp
  | x :: r, hn, h => by
    simp only [List.map_cons, List.nodup_cons] at hn ⊢
    refine ⟨?_, nodup_map_of hn.2 (fun a ha b hb => h a (List.mem_cons_of_mem _ ha) b
      (List.mem_cons_of_mem _ hb))⟩
    intro hm
    obtain ⟨b, hb, e⟩ := List.mem_map.1 hm
    have := h b (List.mem_cons_of_mem _ hb) x List.mem_cons_self e
    exact hn.1 (this ▸ List.mem_map_of_mem hb)

/-- object members have pairwise distinct identities: around one of them no other has its identity -/
theorem kd_split {o : Opts} {pre post : List Json} {x : Json}
    (kd : (((pre ++ x :: post).filter Json.isObj).map (identOf o)).Nodup) (hx : x.isObj = true) :
    ∀ z ∈ pre ++ post, z.isObj = true → identOf o z ≠ identOf o x := by
  intro z hz hzo e
  simp only [List.filter_append, List.filter_cons, hx, if_true, List.map_append, List.map_cons] at kd
  rw [List.nodup_append] at kd
  obtain ⟨_, h2, h3⟩ := kd
  rw [List.nodup_cons] at h2
  rcases List.mem_append.1 hz with hz | hz
  · exact h3 _ (List.mem_map_of_mem (List.mem_filter.2 ⟨hz, hzo⟩)) _ List.mem_cons_self e
  · exact h2.1 (e ▸ List.mem_map_of_mem (List.mem_filter.2 ⟨hz, hzo⟩))

/-- the key of every part is the identity of a member of the first array -/
theorem part_key_mem (o : Opts) (m : Bool) (p : Path) (ys : List Json) :
    ∀ (xs : List Json), ∀ kp ∈ diffSetElems o m p ys xs, kp.1 ∈ xs.map (identOf o)
  | [], kp, h => by simp [DES.diffSetElems_nil_m] at h
  | x :: r, kp, h => by
    have ih := part_key_mem o m p ys r kp
    rw [DES.diffSetElems_cons_m] at h
    simp only [List.map_cons, List.mem_cons]
    split at h
    · exact Or.inr (ih h)
    · split at h
      · rcases List.mem_cons.1 h with rfl | h
        · exact Or.inl rfl
        · exact Or.inr (ih h)
      · split at h
        · rcases List.mem_cons.1 h with rfl | h
          · exact Or.inl rfl
          · exact Or.inr (ih h)
        · exact Or.inr (ih h)

/-- the parts of a set diff have pairwise different keys -/
theorem parts_keys_nodup (o : Opts) (m : Bool) (p : Path) (ys : List Json) :
    ∀ (xs : List Json), ((diffSetElems o m p ys xs).map (·.1)).Nodup
  | [] => by simp [DES.diffSetElems_nil_m]
  | x :: r => by
    have ih := parts_keys_nodup o m p ys r
    rw [DES.diffSetElems_cons_m]
    split
    · exact ih
    · next hc =>
      have hc' : identOf o x ∉ r.map (identOf o) := by simpa using hc
      have hnew : identOf o x ∉ (diffSetElems o m p ys r).map (·.1) := by
        intro hm
        obtain ⟨kp, hkp, e⟩ := List.mem_map.1 hm
        exact hc' (e ▸ part_key_mem o m p ys r kp hkp)
      split
      · simp only [List.map_cons, List.nodup_cons]; exact ⟨hnew, ih⟩
      · split
        · simp only [List.map_cons, List.nodup_cons]; exact ⟨hnew, ih⟩
        · exact ih

/-- as `DES.sub_origin`, with the key of the part -/
theorem sub_origin' (o : Opts) (m : Bool) (p : Path) (ys : List Json) :
    ∀ (xs : List Json) (h : UInt64) (d : Diff), (h, SetPart.sub d) ∈ diffSetElems o m p ys xs →
      ∃ kvs kvs', Json.obj kvs ∈ xs ∧ Json.obj kvs' ∈ ys ∧ h = identOf o (.obj kvs) ∧
        identOf o (.obj kvs') = identOf o (.obj kvs) ∧
        d = diffNode o m (.obj kvs) (.obj kvs') (p ++ [newPathSetKeys o kvs])
  | [], h, d, hm => by simp [DES.diffSetElems_nil_m] at hm
  | x :: r, h, d, hm => by
    have lift : (h, SetPart.sub d) ∈ diffSetElems o m p ys r →
        ∃ kvs kvs', Json.obj kvs ∈ x :: r ∧ Json.obj kvs' ∈ ys ∧ h = identOf o (.obj kvs) ∧
          identOf o (.obj kvs') = identOf o (.obj kvs) ∧
          d = diffNode o m (.obj kvs) (.obj kvs') (p ++ [newPathSetKeys o kvs]) := fun hh => by
      obtain ⟨kvs, kvs', h1, h2⟩ := sub_origin' o m p ys r h d hh
      exact ⟨kvs, kvs', List.mem_cons_of_mem _ h1, h2⟩
    rw [DES.diffSetElems_cons_m] at hm
    split at hm
    · exact lift hm
    · split at hm
      · rcases List.mem_cons.1 hm with he | hm
        · simp at he
        · exact lift hm
      · next y e =>
        split at hm
        · rcases List.mem_cons.1 hm with he | hm
          · simp only [Prod.mk.injEq, SetPart.sub.injEq] at he
            obtain ⟨hy, hyi⟩ := SetDP.identLookup_some e
            exact ⟨_, _, List.mem_cons_self, hy, he.1, hyi, he.2⟩
          · exact lift hm
        · exact lift hm

/-- the local hypotheses of the keyed set step on the two arrays (`node_stepK` derives them from
    the hypotheses of the main theorem) -/
structure KeyedHyp (sw : Bool) (o : Opts) (ks : List String) (xs ys : List Json) : Prop where
  sortedA : ∀ kvs, Json.obj kvs ∈ xs → keysSorted kvs = true
  kd : ((xs.filter Json.isObj).map (identOf o)).Nodup
  ksA : ∀ x ∈ xs, ∀ x' ∈ xs, identOf o x = identOf o x' → x.isObj = x'.isObj
  ksAB : ∀ x ∈ xs, ∀ y ∈ ys, identOf o x = identOf o y → x.isObj = y.isObj
  ib : ∀ y ∈ ys, ∀ y' ∈ ys, identOf o y = identOf o y' → hashCode o y = hashCode o y'
  pf : ∀ kvs kz, Json.obj kvs ∈ xs → Json.obj kz ∈ xs → ∀ tol,
    matchT tol (pathObjOf ks kvs) (.obj kz) = true → identOf o (.obj kz) = identOf o (.obj kvs)
  hAA : ∀ x ∈ xs, ∀ x' ∈ xs, hashCode o x = hashCode o x' →
    equals o x x' = true ∧ identOf o x = identOf o x'
  hAB : ∀ x ∈ xs, ∀ y ∈ ys, hashCode o x = hashCode o y → identOf o x = identOf o y
  eqAB : ∀ x ∈ xs, ∀ y ∈ ys, hashCode o x = hashCode o y → equivB o x y = true
  eqBB : ∀ y ∈ ys, ∀ y' ∈ ys, hashCode o y = hashCode o y' → equivB o y y' = true
  docB : ∀ y ∈ ys, DocOk y
  sub : ∀ kvs kvs', Json.obj kvs ∈ xs → Json.obj kvs' ∈ ys →
    identOf o (.obj kvs') = identOf o (.obj kvs) → ∀ q, ∃ D r,
      diffNode o false (.obj kvs) (.obj kvs') q = D.map (DPL.shiftHunk q) ∧ KeyFree ks D ∧
      patchAll sw (.obj kvs) D = .ok r ∧ QR o r (.obj kvs')

/-- the state of the array while the sub-diffs of its keyed members are applied: `G` maps every
    member of the first array to what stands in its place; the members whose identity is in `done`
    have been turned into (something that is) the member of the second array with that identity -/
def GInv (o : Opts) (ks : List String) (xs ys : List Json) (G : Json → Json)
    (done : List UInt64) : Prop :=
  ∀ x ∈ xs, (G x = x ∧ (x.isObj = true → identOf o x ∉ done)) ∨
    (∃ kvs kvr kvs', x = .obj kvs ∧ identOf o x ∈ done ∧ G x = .obj kvr ∧ keysSorted kvr = true ∧
      (∀ k ∈ ks, alookup k kvr = alookup k kvs) ∧ Json.obj kvs' ∈ ys ∧
      identOf o (.obj kvs') = identOf o x ∧ QR o (.obj kvr) (.obj kvs'))

def subKey (kp : UInt64 × SetPart) : Option UInt64 :=
  match kp.2 with | .sub _ => some kp.1 | .removed _ => none

theorem hash_set_eq {o : Opts} (hd : dispatchTag o = .set) (x : Json) :
    hashCode [.set] x = hashCode o x :=
  SetDP.hashCode_optcongr (by rw [hd]; rfl) x

theorem subs_apply (sw : Bool) (o : Opts) (ks : List String) (hd : dispatchTag o = .set)
    (hk : keysOf o = some ks) (xs ys : List Json) (p : Path) (Hy : KeyedHyp sw o ks xs ys) :
    ∀ (ps : List (UInt64 × SetPart)), (∀ kp ∈ ps, kp ∈ diffSetElems o false p ys xs) →
      (ps.map (·.1)).Nodup →
      ∀ (G : Json → Json) (done : List UInt64) (t : Tag), (t = .raw ∨ t = .set) →
      GInv o ks xs ys G done → (∀ kp ∈ ps, kp.1 ∉ done) →
      ∃ D G' t', ps.flatMap SetDP.subOf = D.map (DPL.shiftHunk p) ∧ (∀ h ∈ D, h.merge = false) ∧
        (t' = .raw ∨ t' = .set) ∧
        patchAll sw (.arr t (xs.map G)) D = .ok (.arr t' (xs.map G')) ∧
        GInv o ks xs ys G' (done ++ ps.filterMap subKey)
  | [], _, _, G, done, t, ht, hG, _ =>
    ⟨[], G, t, rfl, by simp, ht, rfl, by simpa using hG⟩
  | (c, .removed z) :: ps, hps, hnd, G, done, t, ht, hG, hdone => by
    simp only [List.map_cons, List.nodup_cons] at hnd
    obtain ⟨D, G', t', e1, e2, e3, e4, e5⟩ := subs_apply sw o ks hd hk xs ys p Hy ps
      (fun kp h => hps kp (List.mem_cons_of_mem _ h)) hnd.2 G done t ht hG
      (fun kp h => hdone kp (List.mem_cons_of_mem _ h))
    have hf : List.filterMap subKey ((c, SetPart.removed z) :: ps) = List.filterMap subKey ps := by
      rw [List.filterMap_cons]; rfl
    exact ⟨D, G', t', by simpa [SetDP.subOf] using e1, e2, e3, e4, by rw [hf]; exact e5⟩
  | (c, .sub d) :: ps, hps, hnd, G, done, t, ht, hG, hdone => by
    simp only [List.map_cons, List.nodup_cons] at hnd
    obtain ⟨kvs, kvs', hx, hy, hc, hid, hdd⟩ :=
      sub_origin' o false p ys xs c d (hps _ List.mem_cons_self)
    have hcd : c ∉ done := hdone _ List.mem_cons_self
    -- the member has not been touched yet
    have hGx : G (.obj kvs) = .obj kvs := by
      rcases hG _ hx with h | ⟨_, _, _, _, h, _⟩
      · exact h.1
      · exact absurd (hc ▸ h) hcd
    obtain ⟨pre0, post0, hsplit⟩ := List.append_of_mem hx
    have hsx := Hy.sortedA kvs hx
    have hkd := Hy.kd
    rw [hsplit] at hkd
    have hother := kd_split hkd (x := .obj kvs) rfl
    have hmem0 : ∀ z ∈ pre0 ++ post0, z ∈ xs := by
      intro z hz
      rw [hsplit]
      rcases List.mem_append.1 hz with h | h
      · exact List.mem_append.2 (Or.inl h)
      · exact List.mem_append.2 (Or.inr (List.mem_cons_of_mem _ h))
    -- no other member in the state of the array passes a test of the keyed lookup
    have hpo_s := pathObjOf_sorted ks kvs
    have hpok : ∀ k, (alookup k (pathObjOf ks kvs)).isSome = true → k ∈ ks := by
      intro k hk'
      rw [pathObjOf_lookup] at hk'
      by_cases h : k ∈ ks
      · exact h
      · simp [h] at hk'
    have hnomatch : ∀ tl, ∀ z0 ∈ pre0 ++ post0,
        matchT tl (pathObjOf ks kvs) (G z0) = false := by
      intro tl z0 hz0
      have hz0x : z0 ∈ xs := hmem0 z0 hz0
      cases hmz : matchT tl (pathObjOf ks kvs) (G z0) with
      | false => rfl
      | true =>
        exfalso
        rcases hG z0 hz0x with h | ⟨kz, kvr, _, rfl, _, h2, h3, h4, _⟩
        · rw [h.1] at hmz
          cases z0 with
          | obj kz => exact hother _ hz0 rfl (Hy.pf kvs kz hx hz0x tl hmz)
          | _ => simp [matchT] at hmz
        · rw [h2, matchT_congr hpo_s (Hy.sortedA kz hz0x) h3
            (fun k hk' => h4 k (hpok k hk'))] at hmz
          exact hother _ hz0 rfl (Hy.pf kvs kz hx hz0x tl hmz)
    -- the pass of the lookup the code uses; the member passes its test
    have htolm : matchT (keyedTol (pathObjOf ks kvs) (pre0.map G ++ .obj kvs :: post0.map G))
        (pathObjOf ks kvs) (.obj kvs) = true := by
      cases htl : keyedTol (pathObjOf ks kvs) (pre0.map G ++ .obj kvs :: post0.map G) with
      | true => exact matchT_true_self ks hsx
      | false =>
        rw [keyedTol_eq, Bool.not_eq_false', List.any_eq_true] at htl
        obtain ⟨z, hz, hmz⟩ := htl
        rcases List.mem_append.1 hz with hz | hz
        · obtain ⟨z0, hz0, rfl⟩ := List.mem_map.1 hz
          rw [hnomatch false z0 (List.mem_append.2 (Or.inl hz0))] at hmz
          cases hmz
        · rcases List.mem_cons.1 hz with rfl | hz
          · exact hmz
          · obtain ⟨z0, hz0, rfl⟩ := List.mem_map.1 hz
            rw [hnomatch false z0 (List.mem_append.2 (Or.inr hz0))] at hmz
            cases hmz
    have hpre : ∀ z ∈ pre0.map G,
        matchT (keyedTol (pathObjOf ks kvs) (pre0.map G ++ .obj kvs :: post0.map G))
          (pathObjOf ks kvs) z = false := by
      intro z hz
      obtain ⟨z0, hz0, rfl⟩ := List.mem_map.1 hz
      exact hnomatch _ z0 (List.mem_append.2 (Or.inl hz0))
    -- the sub-diff of the member, and its application to the member
    obtain ⟨D0, r, q1, q2, q3, q4⟩ := Hy.sub kvs kvs' hx hy hid (p ++ [newPathSetKeys o kvs])
    obtain ⟨kvr, t1, f1, f2, f3, f4, f5⟩ := patchAll_keyed_frame sw ks (pathObjOf ks kvs)
      hpo_s hpok (pre0.map G) (post0.map G) _ hpre D0 q2 t ht kvs hsx rfl htolm r q3
    -- the new state
    let G' : Json → Json := fun z => if z.isObj && identOf o z == c then r else G z
    have hG'x : G' (.obj kvs) = r := by simp [G', Json.isObj, hc]
    have hG'o : ∀ z ∈ pre0 ++ post0, G' z = G z := by
      intro z hz
      simp only [G']
      split
      · next hcond =>
        simp only [Bool.and_eq_true, beq_iff_eq] at hcond
        exact absurd (hcond.2.trans hc) (hother z hz hcond.1)
      · rfl
    have hmapG' : xs.map G' = pre0.map G ++ r :: post0.map G := by
      rw [hsplit, List.map_append, List.map_cons, hG'x]
      congr 1
      · exact List.map_congr_left (fun z hz => hG'o z (List.mem_append.2 (Or.inl hz)))
      · congr 1
        exact List.map_congr_left (fun z hz => hG'o z (List.mem_append.2 (Or.inr hz)))
    have hmapG : xs.map G = pre0.map G ++ .obj kvs :: post0.map G := by
      rw [hsplit, List.map_append, List.map_cons, hGx]
    have hGinv' : GInv o ks xs ys G' (done ++ [c]) := by
      intro z hz
      by_cases hcond : (z.isObj && identOf o z == c) = true
      · simp only [Bool.and_eq_true, beq_iff_eq] at hcond
        have hzx : z = .obj kvs :=
          nodup_map_inj Hy.kd (List.mem_filter.2 ⟨hz, hcond.1⟩) (List.mem_filter.2 ⟨hx, rfl⟩)
            (hcond.2.trans hc)
        subst hzx
        refine Or.inr ⟨kvs, kvr, kvs', rfl, ?_, by rw [hG'x, f1], f2, f3, hy, hid, f1 ▸ q4⟩
        rw [← hc]; simp
      · have hGz : G' z = G z := by simp only [G']; rw [if_neg hcond]
        rw [hGz]
        rcases hG z hz with h | ⟨kz, kzr, kz', h1, h2, h3⟩
        · refine Or.inl ⟨h.1, fun hzo hm => ?_⟩
          rcases List.mem_append.1 hm with hm | hm
          · exact h.2 hzo hm
          · simp only [List.mem_singleton] at hm
            exact hcond (by simp [hzo, hm])
        · exact Or.inr ⟨kz, kzr, kz', h1, List.mem_append.2 (Or.inl h2), h3⟩
    obtain ⟨D, G'', t', e1, e2, e3, e4, e5⟩ := subs_apply sw o ks hd hk xs ys p Hy ps
      (fun kp h => hps kp (List.mem_cons_of_mem _ h)) hnd.2 G' (done ++ [c]) t1 f4 hGinv'
      (fun kp h hm => by
        rcases List.mem_append.1 hm with hm | hm
        · exact hdone kp (List.mem_cons_of_mem _ h) hm
        · simp only [List.mem_singleton] at hm
          exact hnd.1 (hm ▸ List.mem_map_of_mem (f := (·.1)) h))
    refine ⟨D0.map (DPL.shiftHunk [newPathSetKeys o kvs]) ++ D, G'', t', ?_, ?_, e3, ?_, ?_⟩
    · simp only [List.flatMap_cons, SetDP.subOf, List.map_append, List.map_map]
      rw [← e1, hdd, q1]
      congr 1
      apply List.map_congr_left
      intro h _
      simp [SetDP.shiftHunk_shiftHunk]
    · intro h hh
      rcases List.mem_append.1 hh with hh | hh
      · obtain ⟨h0, hh0, rfl⟩ := List.mem_map.1 hh
        exact (q2 h0 hh0).1
      · exact e2 h hh
    · rw [newPathSetKeys_some hk, hmapG, SetDP.patchAll_append sw _ _ _ _ f5, ← hmapG']
      exact e4
    · simpa [subKey, List.append_assoc] using e5

/-- after the sub-diffs: the hash codes of the members that stay, and of those that are added, are
    the hash codes of the members of the second array -/
theorem keyed_hashes {sw : Bool} {o : Opts} {ks : List String} {xs ys : List Json}
    (Hy : KeyedHyp sw o ks xs ys) {G : Json → Json} {done : List UInt64} {rem add : List Json}
    (hG : GInv o ks xs ys G done)
    (hS1 : ∀ x ∈ xs, ∀ y ∈ ys, identOf o x = identOf o y → x.isObj = true → identOf o x ∈ done)
    (hR1 : ∀ z ∈ rem, z ∈ xs ∧ identOf o z ∉ ys.map (identOf o))
    (hR3 : ∀ x ∈ xs, identOf o x ∉ ys.map (identOf o) → identOf o x ∈ rem.map (identOf o))
    (hA1 : ∀ y ∈ add, y ∈ ys)
    (hA2 : ∀ y ∈ ys, identOf o y ∉ xs.map (identOf o) → identOf o y ∈ add.map (identOf o)) :
    ∀ c, ((c ∈ (xs.map G).map (hashCode o) ∧ c ∉ rem.map (hashCode o)) ∨
        c ∈ add.map (hashCode o)) ↔ c ∈ ys.map (hashCode o) := by
  intro c
  constructor
  · rintro (⟨hc, hnr⟩ | hc)
    · obtain ⟨z, hz, rfl⟩ := List.mem_map.1 hc
      obtain ⟨z0, hz0, rfl⟩ := List.mem_map.1 hz
      rcases hG z0 hz0 with h | ⟨kz, kzr, kz', _, _, h3, _, _, h6, _, h8⟩
      · rw [h.1] at hnr ⊢
        by_cases hin : identOf o z0 ∈ ys.map (identOf o)
        · obtain ⟨y, hy, e⟩ := List.mem_map.1 hin
          have hkind := Hy.ksAB z0 hz0 y hy e.symm
          cases hzo : z0.isObj with
          | true => exact absurd (hS1 z0 hz0 y hy e.symm hzo) (h.2 hzo)
          | false =>
            rw [hzo] at hkind
            refine List.mem_map.2 ⟨y, hy, ?_⟩
            rw [← DES.identOf_nonobj o hkind.symm, ← DES.identOf_nonobj o hzo, e]
        · exfalso
          obtain ⟨v, hv, e⟩ := List.mem_map.1 (hR3 z0 hz0 hin)
          have hvx := (hR1 v hv).1
          have hkind := Hy.ksA v hvx z0 hz0 e
          apply hnr
          refine List.mem_map.2 ⟨v, hv, ?_⟩
          cases hzo : z0.isObj with
          | true =>
            rw [hzo] at hkind
            rw [nodup_map_inj Hy.kd (List.mem_filter.2 ⟨hvx, hkind⟩)
              (List.mem_filter.2 ⟨hz0, hzo⟩) e]
          | false =>
            rw [hzo] at hkind
            rw [← DES.identOf_nonobj o hkind, ← DES.identOf_nonobj o hzo, e]
      · rw [h3]
        exact List.mem_map.2 ⟨_, h6, h8.2.1.symm⟩
    · obtain ⟨y, hy, rfl⟩ := List.mem_map.1 hc
      exact List.mem_map_of_mem (hA1 y hy)
  · intro hc
    obtain ⟨y, hy, rfl⟩ := List.mem_map.1 hc
    by_cases hin : identOf o y ∈ xs.map (identOf o)
    · left
      obtain ⟨x1, hx1, e⟩ := List.mem_map.1 hin
      have hkind := Hy.ksAB x1 hx1 y hy e
      cases hxo : x1.isObj with
      | false =>
        rw [hxo] at hkind
        have hh : hashCode o x1 = hashCode o y := by
          rw [← DES.identOf_nonobj o hkind.symm, ← DES.identOf_nonobj o hxo, e]
        have hGx : G x1 = x1 := by
          rcases hG x1 hx1 with h | ⟨kz, _, _, h1, _⟩
          · exact h.1
          · subst h1; simp [Json.isObj] at hxo
        constructor
        · refine List.mem_map.2 ⟨G x1, List.mem_map_of_mem hx1, ?_⟩
          rw [hGx, hh]
        · intro hm
          obtain ⟨v, hv, ev⟩ := List.mem_map.1 hm
          obtain ⟨hvx, hvn⟩ := hR1 v hv
          apply hvn
          rw [(Hy.hAA v hvx x1 hx1 (ev.trans hh.symm)).2, e]
          exact List.mem_map_of_mem hy
      | true =>
        have hd1 := hS1 x1 hx1 y hy e hxo
        rcases hG x1 hx1 with h | ⟨kz, kzr, kz', _, _, h3, _, _, h6, h7, h8⟩
        · exact absurd hd1 (h.2 hxo)
        · have hh : hashCode o (.obj kz') = hashCode o y := Hy.ib _ h6 y hy (h7.trans e)
          constructor
          · refine List.mem_map.2 ⟨G x1, List.mem_map_of_mem hx1, ?_⟩
            rw [h3, h8.2.1, hh]
          · intro hm
            obtain ⟨v, hv, ev⟩ := List.mem_map.1 hm
            obtain ⟨hvx, hvn⟩ := hR1 v hv
            apply hvn
            rw [Hy.hAB v hvx y hy ev]
            exact List.mem_map_of_mem hy
    · right
      obtain ⟨y', hy', e⟩ := List.mem_map.1 (hA2 y hy hin)
      exact List.mem_map.2 ⟨y', hy', Hy.ib y' (hA1 y' hy') y hy e⟩

theorem rem_keys_sublist (o : Opts) :
    ∀ (ps : List (UInt64 × SetPart)), (∀ h z, (h, SetPart.removed z) ∈ ps → h = identOf o z) →
      (((ps.filterMap SetDP.remOf).map (identOf o))).Sublist (ps.map (·.1))
  | [], _ => by simp
  | (h, .removed z) :: ps, H => by
    have ih := rem_keys_sublist o ps (fun h' z' hm => H h' z' (List.mem_cons_of_mem _ hm))
    have e : h = identOf o z := H h z List.mem_cons_self
    simp only [List.filterMap_cons, SetDP.remOf, List.map_cons, ← e]
    exact ih.cons_cons _
  | (h, .sub d) :: ps, H => by
    have ih := rem_keys_sublist o ps (fun h' z' hm => H h' z' (List.mem_cons_of_mem _ hm))
    simp only [List.filterMap_cons, SetDP.remOf, List.map_cons]
    exact ih.cons _

/-- an array with the member hash codes of `ys` is `ys` read as a set -/
theorem qr_of_hashes {o : Opts} (hd : dispatchTag o = .set) {t : Tag} (ht : t = .raw ∨ t = .set)
    {zs ys : List Json}
    (h : ∀ c, c ∈ zs.map (hashCode o) ↔ c ∈ ys.map (hashCode o))
    (hin : ∀ z ∈ zs, ∃ y ∈ ys, equivB o z y = true)
    (hcov : ∀ y ∈ ys, ∃ z ∈ zs, equivB o z y = true) :
    QR o (.arr t zs) (.arr .raw ys) := by
  have he : effTag o t = .set := by rcases ht with rfl | rfl <;> simp [effTag, hd]
  have hraw : effTag o .raw = .set := by simp [effTag, hd]
  have key : hsort (hdedup (hashList o zs)) = hsort (hdedup (hashList o ys)) := by
    apply hsort_hdedup_ext
    intro c
    rw [hashList_eq_map, hashList_eq_map]
    exact h c
  refine ⟨?_, ?_, ?_⟩
  · simp only [equals, he, Json.dispatch, hd, SetDP.hashCode_arr_set, hcombine, key,
      beq_self_eq_true]
  · simp only [hashCode, he, hraw, hcombine, key]
  · simp only [equivB, hd, Bool.and_eq_true, allIn_iff, allCovered_iff]
    exact ⟨hin, hcov⟩

/-- **one array of keyed members.** -/
theorem set_stepK (F : FloatEq0) (sw : Bool) (o : Opts) (ks : List String)
    (hd : dispatchTag o = .set)
    (hk : keysOf o = some ks) (hp : precOf o = 0) (xs ys : List Json) (p : Path)
    (Hy : KeyedHyp sw o ks xs ys) : StepK sw o (.arr .raw xs) (.arr .raw ys) p := by
  have hperm := ksort_perm (diffSetElems o false p ys xs)
  have hps : ∀ kp ∈ ksort (diffSetElems o false p ys xs), kp ∈ diffSetElems o false p ys xs :=
    fun kp h => hperm.mem_iff.1 h
  have hnd : ((ksort (diffSetElems o false p ys xs)).map (·.1)).Nodup :=
    ((hperm.map (·.1)).nodup_iff).2 (parts_keys_nodup o false p ys xs)
  obtain ⟨D1, G, t1, e1, e2, e3, e4, e5⟩ := subs_apply sw o ks hd hk xs ys p Hy _ hps hnd id [] .raw
    (Or.inl rfl) (fun x _ => Or.inl ⟨rfl, fun _ h => by cases h⟩) (fun _ _ h => by cases h)
  rw [List.map_id] at e4
  rw [List.nil_append] at e5
  -- the removed and the added members
  have hR1 : ∀ z ∈ (ksort (diffSetElems o false p ys xs)).filterMap SetDP.remOf,
      z ∈ xs ∧ identOf o z ∉ ys.map (identOf o) := by
    intro z hz
    obtain ⟨⟨h, part⟩, hkp, e⟩ := List.mem_filterMap.1 hz
    cases part with
    | sub d => simp [SetDP.remOf] at e
    | removed w =>
      simp only [SetDP.remOf, Option.some.injEq] at e
      subst e
      obtain ⟨hw, rfl, hny⟩ := DES.absent_of_removed o false p ys xs h w (hps _ hkp)
      exact ⟨hw, hny⟩
  have hR2 : (((ksort (diffSetElems o false p ys xs)).filterMap SetDP.remOf).map
      (identOf o)).Nodup :=
    (rem_keys_sublist o _ (fun h z hm =>
      (DES.absent_of_removed o false p ys xs h z (hps _ hm)).2.1)).nodup hnd
  have hR3 : ∀ x ∈ xs, identOf o x ∉ ys.map (identOf o) →
      identOf o x ∈ ((ksort (diffSetElems o false p ys xs)).filterMap SetDP.remOf).map
        (identOf o) := by
    intro x hx hn
    obtain ⟨z, hz⟩ := DES.removed_of_absent o false p ys xs _ (List.mem_map_of_mem hx) hn
    have hzi := (DES.absent_of_removed o false p ys xs _ z hz).2.1
    rw [hzi]
    exact List.mem_map_of_mem (List.mem_filterMap.2 ⟨_, hperm.mem_iff.2 hz, rfl⟩)
  obtain ⟨hA1, hA2'⟩ := SetDP.setAdd_spec o xs ys
  have hA2 : ∀ y ∈ ys, identOf o y ∉ xs.map (identOf o) →
      identOf o y ∈ (SetDP.setAdd o xs ys).map (identOf o) :=
    fun y hy hn => (hA2' _).2 ⟨List.mem_map_of_mem hy, hn⟩
  have hS1 : ∀ x ∈ xs, ∀ y ∈ ys, identOf o x = identOf o y → x.isObj = true →
      identOf o x ∈ (ksort (diffSetElems o false p ys xs)).filterMap subKey := by
    intro x hx y hy e hxo
    obtain ⟨x1, hx1, y1, hy1, i1, i2, hpart⟩ := DES.matched_of_present o false p ys xs
      (identOf o x) (List.mem_map_of_mem hx) (e ▸ List.mem_map_of_mem hy)
    have k1 : x1.isObj = true := (Hy.ksA x1 hx1 x hx i1).trans hxo
    have k2 : y1.isObj = true := (Hy.ksAB x1 hx1 y1 hy1 (i1.trans i2.symm)).symm.trans k1
    cases x1 with
    | obj kvs =>
      cases y1 with
      | obj kvs' =>
        exact List.mem_filterMap.2 ⟨_, hperm.mem_iff.2 (hpart kvs kvs' rfl rfl), rfl⟩
      | _ => simp [Json.isObj] at k2
    | _ => simp [Json.isObj] at k1
  have KC := keyed_hashes Hy e5 hS1 hR1 hR3 hA1 hA2
  -- what stands in the place of a member is equivalent to any target member with its hash code
  have hmemEq : ∀ z0 ∈ xs, ∀ y ∈ ys, hashCode o (G z0) = hashCode o y →
      equivB o (G z0) y = true := by
    intro z0 hz0 y hy e
    rcases e5 z0 hz0 with h | ⟨_, _, kz', _, _, h3, _, _, h6, _, h8⟩
    · rw [h.1] at e ⊢
      exact Hy.eqAB z0 hz0 y hy e
    · rw [h3] at e ⊢
      exact equivB_trans_right F hd hp _ _ _ (Hy.docB _ h6) (Hy.docB y hy) h8.2.2
        (Hy.eqBB _ h6 y hy (h8.2.1.symm.trans e))
  have hdiff := SetDP.diffNode_set_set hd xs ys p
  rw [e1] at hdiff
  generalize (ksort (diffSetElems o false p ys xs)).filterMap SetDP.remOf = rem
    at hR1 hR2 hR3 KC hdiff
  generalize SetDP.setAdd o xs ys = add at hA1 hA2 KC hdiff
  unfold StepK
  by_cases hemp : (rem.isEmpty && add.isEmpty) = true
  · rw [if_pos hemp, List.append_nil] at hdiff
    simp only [Bool.and_eq_true, List.isEmpty_iff] at hemp
    obtain ⟨rfl, rfl⟩ := hemp
    have KC' : ∀ c, c ∈ (xs.map G).map (hashCode o) ↔ c ∈ ys.map (hashCode o) := by
      intro c
      have := KC c
      simpa using this
    refine ⟨D1, _, hdiff, e2, e4, qr_of_hashes hd e3 KC' ?_ ?_⟩
    · intro z hz
      obtain ⟨z0, hz0, rfl⟩ := List.mem_map.1 hz
      obtain ⟨y, hy, e⟩ := List.mem_map.1 ((KC' _).1 (List.mem_map_of_mem (f := hashCode o) hz))
      exact ⟨y, hy, hmemEq z0 hz0 y hy e.symm⟩
    · intro y hy
      obtain ⟨z, hz, e⟩ := List.mem_map.1 ((KC' _).2 (List.mem_map_of_mem (f := hashCode o) hy))
      obtain ⟨z0, hz0, rfl⟩ := List.mem_map.1 hz
      exact ⟨_, hz, hmemEq z0 hz0 y hy e⟩
  · rw [if_neg hemp] at hdiff
    -- the leaf hunk
    have hident : ∀ x, identOf [Opt.set] x = hashCode o x := fun x => by
      rw [identOf_eq_hashCode (m := [Opt.set]) rfl, hash_set_eq hd]
    have hfun : identOf [Opt.set] = hashCode o := funext hident
    have hGrem : ∀ v ∈ rem, G v = v := by
      intro v hv
      rcases e5 v (hR1 v hv).1 with h | ⟨_, _, kz', _, _, _, _, _, h6, h7, _⟩
      · exact h.1
      · exact absurd (h7 ▸ List.mem_map_of_mem h6) (hR1 v hv).2
    obtain ⟨zs, l1, l2, l3⟩ := patchSetLeaf_idents' (m := [Opt.set]) (s := xs.map G)
      (remove := rem) (add := add)
      (by
        intro dd hdd v hv e
        rw [hident, hident] at e
        obtain ⟨z0, hz0, rfl⟩ := List.mem_map.1 hdd
        obtain ⟨hvx, hvn⟩ := hR1 v hv
        rw [SetDP.equals_optcongr (o := [Opt.set]) (o' := o) (by rw [hd]; rfl) (by rw [hp]; rfl)]
        rcases e5 z0 hz0 with h | ⟨_, _, kz', _, _, h3, _, _, h6, _, h8⟩
        · rw [h.1] at e ⊢
          exact (Hy.hAA z0 hz0 v hvx e).1
        · exfalso
          apply hvn
          rw [h3, h8.2.1] at e
          rw [Hy.hAB v hvx _ h6 e.symm]
          exact List.mem_map_of_mem h6)
      (by
        intro v hv
        rw [hfun]
        refine List.mem_map.2 ⟨G v, List.mem_map_of_mem (hR1 v hv).1, ?_⟩
        rw [hGrem v hv])
      (by
        rw [hfun]
        exact nodup_map_of hR2 (fun a ha b hb e =>
          (Hy.hAA a (hR1 a ha).1 b (hR1 b hb).1 e).2))
    rw [hfun] at l3
    have KC' : ∀ c, c ∈ zs.map (hashCode o) ↔ c ∈ ys.map (hashCode o) :=
      fun c => by rw [l3 c]; exact KC c
    have hzsEq : ∀ z ∈ zs, ∀ y ∈ ys, hashCode o z = hashCode o y → equivB o z y = true := by
      intro z hz y hy e
      rcases l2 z hz with h | h
      · obtain ⟨z0, hz0, rfl⟩ := List.mem_map.1 h
        exact hmemEq z0 hz0 y hy e
      · exact Hy.eqBB z (hA1 z h) y hy e
    refine ⟨D1 ++ [{ path := [.set], remove := rem, add := add }], .arr .set zs, ?_, ?_, ?_,
      qr_of_hashes hd (Or.inr rfl) KC' ?_ ?_⟩
    · rw [hdiff]; simp [DPL.shiftHunk]
    · intro h hh
      rcases List.mem_append.1 hh with hh | hh
      · exact e2 h hh
      · simp only [List.mem_singleton] at hh; subst hh; rfl
    · rw [SetDP.patchAll_append sw _ _ _ _ e4]
      apply SetDP.patchAll_single
      show patchNode sw false (.arr t1 (xs.map G)) [.set] [] rem add [] = _
      rw [patchNode_set_leaf sw t1 e3, l1]
    · intro z hz
      obtain ⟨y, hy, e⟩ := List.mem_map.1 ((KC' _).1 (List.mem_map_of_mem (f := hashCode o) hz))
      exact ⟨y, hy, hzsEq z hz y hy e.symm⟩
    · intro y hy
      obtain ⟨z, hz, e⟩ := List.mem_map.1 ((KC' _).2 (List.mem_map_of_mem (f := hashCode o) hy))
      exact ⟨z, hz, hzsEq z hz y hy e⟩

/-! ## B.6 the hypotheses of the theorem (decidable), and the main induction -/

/-- the object members of the array node have pairwise distinct identities -/
def nodeKeyedDistinct (o : Opts) : Json → Bool
  | .arr _ xs => decide (((xs.filter Json.isObj).map (identOf o)).Nodup)
  | _ => true

/-- in every array node among `S` the object members have pairwise distinct identities: the array
    is a set of entities identified by their keys, none listed twice -/
def KeyedDistinct (o : Opts) (S : List Json) : Prop := ∀ n ∈ S, nodeKeyedDistinct o n = true

/-- among the object members of the array node, the keyed lookup of `jsonSet.patch` for the path
    object of a member (either pass: exact key values; then with absent keys counted as null) hits
    only members with the identity of that member -/
def nodePathFaithful (o : Opts) (ks : List String) : Json → Bool
  | .arr _ xs => xs.all fun x => xs.all fun z =>
    match x, z with
    | .obj kvs, .obj _ =>
      (!(matchT false (pathObjOf ks kvs) z) && !(matchT true (pathObjOf ks kvs) z)) ||
        identOf o z == identOf o x
    | _, _ => true
  | _ => true

def PathFaithful (o : Opts) (ks : List String) (S : List Json) : Prop :=
  ∀ n ∈ S, nodePathFaithful o ks n = true

/-- two objects with the same identity have, key by key, values with the same hash code (and lack the
    same keys): the negation is the class of KF-C01-identperm (and of plain collisions of the identity) -/
def keyTupleOK (o : Opts) (ks : List String) (x y : Json) : Bool :=
  match x, y with
  | .obj kvs, .obj kvs' =>
    identOf o x != identOf o y ||
      ks.all fun k => (alookup k kvs).map (hashCode o) == (alookup k kvs').map (hashCode o)
  | _, _ => true

def KeyTuple (o : Opts) (ks : List String) (SA SB : List Json) : Prop :=
  ∀ x ∈ SA, ∀ y ∈ SB, keyTupleOK o ks x y = true

theorem equals_isObj {o : Opts} {x y : Json} (h : equals o x y = true) : x.isObj = y.isObj := by
  cases x with
  | arr t xs =>
    cases y with
    | obj k => cases ht : effTag o t <;> simp [equals, ht, Json.dispatch] at h
    | _ => rfl
  | _ => cases y <;> simp [equals, Json.isObj, Json.isVoid, Json.isNull] at h ⊢

/-- equal hash codes: `Equals`, and the same identity -/
theorem hash_facts (F : FloatEq0) {o : Opts} (hd : dispatchTag o = .set) (hp : precOf o = 0)
    {S : List Json} (HF : HashFaithful o S) {x y : Json} (dx : DocOk x) (dy : DocOk y)
    (wx : Within S x) (wy : Within S y) (e : hashCode o x = hashCode o y) :
    equals o x y = true ∧ identOf o x = identOf o y := by
  have heq : equals o x y = true := by
    rw [SetDP.equals_eq_equivB_of F (Or.inl hd) hp HF dx dy wx wy]
    exact HF x wx.self y wy.self e
  refine ⟨heq, ?_⟩
  have hkind := equals_isObj heq
  cases x with
  | obj kvs =>
    cases y with
    | obj kvs' => exact DES.ident_eq_of_equals F (Or.inl hd) hp dx dy heq
    | _ => simp [Json.isObj] at hkind
  | _ =>
    have hy : y.isObj = false := by rw [← hkind]; rfl
    rw [DES.identOf_nonobj o rfl, DES.identOf_nonobj o hy, e]

/-- `StepK`, and for two objects that agree on the set keys (same keys present, values with the same
    hash codes) the hunks do not touch the set keys -/
def StepK2 (sw : Bool) (o : Opts) (ks : List String) (a b : Json) (p : Path) : Prop :=
  ∃ D r, diffNode o false a b p = D.map (DPL.shiftHunk p) ∧ (∀ h ∈ D, h.merge = false) ∧
    patchAll sw a D = .ok r ∧ QR o r b ∧
    (∀ kvs kvs', a = .obj kvs → b = .obj kvs' →
      (∀ k ∈ ks, (alookup k kvs).map (hashCode o) = (alookup k kvs').map (hashCode o)) →
      KeyFree ks D)

theorem StepK2.toStepK {sw : Bool} {o : Opts} {ks : List String} {a b : Json} {p : Path}
    (h : StepK2 sw o ks a b p) : StepK sw o a b p := by
  obtain ⟨D, r, h1, h2, h3, h4, _⟩ := h
  exact ⟨D, r, h1, h2, h3, h4⟩

theorem qr_refl (F : FloatEq0) (L : FloatLaws) {o : Opts} (hd : dispatchTag o = .set)
    (hp : precOf o = 0) {S : List Json} (HF : HashFaithful o S) {b : Json} (hb : Ok b)
    (wb : Within S b) : QR o b b :=
  ⟨(SetDP.refl_both F L (Or.inl hd) hp HF hb wb).2, rfl,
    (SetDP.refl_both F L (Or.inl hd) hp HF hb wb).1⟩

theorem replace_stepK (F : FloatEq0) (L : FloatLaws) (sw : Bool) {o : Opts} (ks : List String)
    (hd : dispatchTag o = .set) (hp : precOf o = 0) {S : List Json} (HF : HashFaithful o S)
    {a b : Json} (ha : Ok a) (hb : Ok b) (wb : Within S b)
    (hno : a.isObj = false ∨ b.isObj = false) (p : Path) (addl : List Json)
    (hl : addl.length ≤ 1) (hs : Json.singleValue addl = b)
    (hdiff : diffNode o false a b p = [{ path := p, remove := a.nodeList, add := addl }]) :
    StepK2 sw o ks a b p := by
  refine ⟨[{ path := [], remove := a.nodeList, add := addl }], b, ?_, by simp, ?_,
    qr_refl F L hd hp HF hb wb, ?_⟩
  · rw [hdiff]; simp [DPL.shiftHunk]
  · apply SetDP.patchAll_single
    show patchNode sw false a [] [] a.nodeList addl [] = _
    rw [SetDP.patch_replace L sw ha addl hl, hs]
  · intro kvs kvs' e1 e2
    subst e1 e2
    simp [Json.isObj] at hno

theorem scalar_stepK (F : FloatEq0) (L : FloatLaws) (sw : Bool) {o : Opts} (ks : List String)
    (hd : dispatchTag o = .set) (hp : precOf o = 0) {S : List Json} (HF : HashFaithful o S)
    {a b : Json} (h1 : ∀ t xs, a ≠ .arr t xs)
    (h2 : ∀ kvs, a ≠ .obj kvs) (ha : Ok a) (hb : Ok b) (wb : Within S b) (p : Path) :
    StepK2 sw o ks a b p := by
  have hdf := DE.diffNode_scalar o false a b h1 h2 p
  have hao : a.isObj = false := by
    cases a with
    | obj kvs => exact absurd rfl (h2 kvs)
    | _ => rfl
  by_cases he : equals [] a b = true
  · have he' : equals o a b = true := by rw [← equals_scalar_noopts hp a b h1 h2]; exact he
    refine ⟨[], a, ?_, by simp, rfl,
      ⟨he', DES.hash_eq_of_equals F (Or.inl hd) hp a b ha.docOk hb.docOk he',
        by rw [SetDP.equivB_scalar_equals_nil hp h1 h2]; exact he⟩, ?_⟩
    · rw [hdf]; simp [diffCommon, he]
    · intro kvs _ e; exact absurd e (h2 kvs)
  · apply replace_stepK F L sw ks hd hp HF ha hb wb (Or.inl hao) p b.nodeList
      (SetDP.nodeList_length_le b) (DPL.single_nodeList b)
    rw [hdf]; simp [diffCommon, he]

/-- where the hunks of the first loop of `jsonObject.diff` come from -/
theorem diffKvs_origin (o : Opts) (m : Bool) (p : Path) (kvs' : List (String × Json)) :
    ∀ (r : List (String × Json)) (h : Hunk), h ∈ diffKvs o m p kvs' r →
      ∃ k v, (k, v) ∈ r ∧
        match alookup k kvs' with
        | none => h.path = p ++ [.key k]
        | some v' => h ∈ diffNode o m v v' (p ++ [.key k])
  | [], h, hm => by simp [DE.diffKvs_nil] at hm
  | (k, v) :: r, h, hm => by
    rw [DE.diffKvs_cons, List.mem_append] at hm
    rcases hm with hm | hm
    · refine ⟨k, v, List.mem_cons_self, ?_⟩
      cases hl : alookup k kvs' with
      | none =>
        rw [hl] at hm
        cases m <;> simp at hm <;> simp [hm]
      | some v' => rw [hl] at hm; exact hm
    · obtain ⟨k0, v0, h1, h2⟩ := diffKvs_origin o m p kvs' r h hm
      exact ⟨k0, v0, List.mem_cons_of_mem _ h1, h2⟩

theorem equivB_isObj {o : Opts} {x y : Json} (h : equivB o x y = true) : x.isObj = y.isObj := by
  cases x <;> cases y <;> simp [equivB, Json.isObj] at h ⊢

/-- the hypotheses on the two documents (all decidable; see the header) -/
structure KeysHyp (o : Opts) (ks : List String) (a0 b0 : Json) : Prop where
  hf : HashFaithful o (subterms a0 ++ subterms b0)
  kd : KeyedDistinct o (subterms a0)
  ksep : DES.KindSepI o (subterms a0) (subterms a0 ++ subterms b0)
  ib : DES.IdentInj o (subterms b0)
  pf : PathFaithful o ks (subterms a0)
  kt : KeyTuple o ks (subterms a0) (subterms b0)

theorem node_stepK (F : FloatEq0) (L : FloatLaws) (sw : Bool) {o : Opts} {ks : List String}
    (hd : dispatchTag o = .set) (hk : keysOf o = some ks) (hp : precOf o = 0)
    {a0 b0 : Json} (da0 : DocOk a0) (db0 : DocOk b0) (K : KeysHyp o ks a0 b0) :
    ∀ a b, Ok a → Ok b → Within (subterms a0) a → Within (subterms b0) b →
      ∀ p, StepK2 sw o ks a b p := by
  have FH : DES.DiffFaithful o (subterms a0) (subterms b0) :=
    DES.diffFaithful_of_hashFaithful F (Or.inl hd) hp da0 db0 K.hf
  have KH : DES.KindSepH o (subterms a0) (subterms b0) := fun x hx y hy e =>
    equivB_isObj (K.hf x (List.mem_append.2 (Or.inl hx)) y (List.mem_append.2 (Or.inr hy)) e)
  have WA : ∀ {x : Json}, Within (subterms a0) x → Within (subterms a0 ++ subterms b0) x :=
    fun w z hz => List.mem_append.2 (Or.inl (w z hz))
  have WB : ∀ {x : Json}, Within (subterms b0) x → Within (subterms a0 ++ subterms b0) x :=
    fun w z hz => List.mem_append.2 (Or.inr (w z hz))
  intro a
  induction a using jsonInd with
  | void =>
    intro b ha hb _ wb p
    exact scalar_stepK F L sw ks hd hp K.hf (fun _ _ e => by cases e) (fun _ e => by cases e) ha hb
      (WB wb) p
  | null =>
    intro b ha hb _ wb p
    exact scalar_stepK F L sw ks hd hp K.hf (fun _ _ e => by cases e) (fun _ e => by cases e) ha hb
      (WB wb) p
  | bool x =>
    intro b ha hb _ wb p
    exact scalar_stepK F L sw ks hd hp K.hf (fun _ _ e => by cases e) (fun _ e => by cases e) ha hb
      (WB wb) p
  | num x =>
    intro b ha hb _ wb p
    exact scalar_stepK F L sw ks hd hp K.hf (fun _ _ e => by cases e) (fun _ e => by cases e) ha hb
      (WB wb) p
  | str x =>
    intro b ha hb _ wb p
    exact scalar_stepK F L sw ks hd hp K.hf (fun _ _ e => by cases e) (fun _ e => by cases e) ha hb
      (WB wb) p
  | arr t xs ih =>
    intro b ha hb wa wb p
    have ht := ha.raw
    subst ht
    cases b with
    | arr t' ys =>
      have ht' := hb.raw
      subst ht'
      have Hy : KeyedHyp sw o ks xs ys := {
        sortedA := fun kvs hx => (ha.elem hx).sorted
        kd := by
          have := K.kd _ wa.self
          simpa [nodeKeyedDistinct] using this
        ksA := fun x hx x' hx' e =>
          K.ksep x (wa.elem hx).self x' (List.mem_append.2 (Or.inl (wa.elem hx').self)) e
        ksAB := fun x hx y hy e =>
          K.ksep x (wa.elem hx).self y (List.mem_append.2 (Or.inr (wb.elem hy).self)) e
        ib := fun y hy y' hy' e => K.ib.apply wb.self hy hy' e
        pf := by
          intro kvs kz hx hz tol e
          have := K.pf _ wa.self
          simp only [nodePathFaithful, List.all_eq_true] at this
          have h2 := this _ hx _ hz
          simp only [Bool.or_eq_true, Bool.and_eq_true, Bool.not_eq_true', beq_iff_eq] at h2
          rcases h2 with h2 | h2
          · cases tol
            · rw [h2.1] at e; cases e
            · rw [h2.2] at e; cases e
          · exact h2
        hAA := fun x hx x' hx' e => hash_facts F hd hp K.hf (ha.elem hx).docOk (ha.elem hx').docOk
          (WA (wa.elem hx)) (WA (wa.elem hx')) e
        hAB := fun x hx y hy e => (hash_facts F hd hp K.hf (ha.elem hx).docOk (hb.elem hy).docOk
          (WA (wa.elem hx)) (WB (wb.elem hy)) e).2
        eqAB := fun x hx y hy e => K.hf x (WA (wa.elem hx)).self y (WB (wb.elem hy)).self e
        eqBB := fun y hy y' hy' e => K.hf y (WB (wb.elem hy)).self y' (WB (wb.elem hy')).self e
        docB := fun y hy => (hb.elem hy).docOk
        sub := by
          intro kvs kvs' hx hy hid q
          obtain ⟨D, r, h1, h2, h3, h4, h5⟩ := ih _ hx _ (ha.elem hx) (hb.elem hy) (wa.elem hx)
            (wb.elem hy) q
          refine ⟨D, r, h1, h5 kvs kvs' rfl rfl (fun k hkk => ?_), h3, h4⟩
          have := K.kt _ (wa.elem hx).self _ (wb.elem hy).self
          simp only [keyTupleOK, Bool.or_eq_true, bne_iff_ne, ne_eq, List.all_eq_true,
            beq_iff_eq] at this
          rcases this with h | h
          · exact absurd hid.symm h
          · exact h k hkk }
      obtain ⟨D, r, h1, h2, h3, h4⟩ := set_stepK F sw o ks hd hk hp xs ys p Hy
      exact ⟨D, r, h1, h2, h3, h4, fun _ _ e => by cases e⟩
    | _ =>
      refine replace_stepK F L sw ks hd hp K.hf ha hb (WB wb) (Or.inl rfl) p _
        (SetDP.nodeList_length_le _) (SetDP.singleValue_nodeList _) ?_
      rw [SetDP.diffNode_arr_other (Or.inl hd) xs _ (fun _ _ e => by cases e) p]
      rfl
  | obj kvs ih =>
    intro b ha hb wa wb p
    cases b with
    | obj kvs' =>
      have hsa := ha.sorted
      have hsb := hb.sorted
      obtain ⟨D1, cur1, e1, m1, h1, hs1, hother1, hmem1⟩ := kvs_stepK L sw o kvs' hb p kvs
        (fun k v hm => ⟨(ha.val hm).1, (ha.val hm).2, fun v' hl q =>
          (ih k v hm v' (ha.val hm).1 (hb.lookup hl).1 (wa.val hm) (wb.val (mem_of_alookup hl))
            q).toStepK⟩)
        hsa kvs hsa (fun k v hm => alookup_of_mem hsa hm)
      obtain ⟨cur2, h2, hs2, hother2, hmem2⟩ := SetDP.patch_adds L sw
        (fun k => (alookup k kvs).isNone)
        kvs' hsb (fun k v hm => (hb.val hm).2) cur1 hs1 (fun k v' _ hP => by
          have hkn : alookup k kvs = none := by simpa using hP
          rw [hother1 k (fun v hm => by rw [alookup_of_mem hsa hm] at hkn; cases hkn), hkn])
      have hfin : ∀ k, match alookup k kvs' with
          | none => alookup k cur2 = none
          | some v' => ∃ z, alookup k cur2 = some z ∧ QR o z v' := by
        intro k
        cases hlk' : alookup k kvs' with
        | some v' =>
          simp only []
          have hm' := mem_of_alookup hlk'
          cases hlk : alookup k kvs with
          | none =>
            exact ⟨v', hmem2 k v' hm' (by simp [hlk]), qr_refl F L hd hp K.hf (hb.val hm').1 (WB (wb.val hm'))⟩
          | some v =>
            have := hmem1 k v (mem_of_alookup hlk)
            rw [hlk'] at this
            obtain ⟨z, hz, hr⟩ := this
            refine ⟨z, ?_, hr⟩
            rw [hother2 k (fun _ _ => by simp [hlk]), hz]
        | none =>
          simp only []
          rw [hother2 k (fun v' hm => by rw [alookup_of_mem hsb hm] at hlk'; cases hlk')]
          cases hlk : alookup k kvs with
          | none =>
            rw [hother1 k (fun v hm => by rw [alookup_of_mem hsa hm] at hlk; cases hlk), hlk]
          | some v =>
            have := hmem1 k v (mem_of_alookup hlk)
            rw [hlk'] at this
            exact this
      have hdiff : diffNode o false (.obj kvs) (.obj kvs') p =
          (D1 ++ (kvs'.filter (fun kv => (alookup kv.1 kvs).isNone)).map DPL.addHunk).map
            (DPL.shiftHunk p) := by
        rw [DE.diffNode_obj_obj, e1, List.map_append, List.map_map]
        congr 1
      refine ⟨D1 ++ (kvs'.filter (fun kv => (alookup kv.1 kvs).isNone)).map DPL.addHunk,
        .obj cur2, hdiff, ?_, ?_, obj_resultK hs2 hsb hfin, ?_⟩
      · intro h hh
        rcases List.mem_append.1 hh with hh | hh
        · exact m1 h hh
        · obtain ⟨kv, _, rfl⟩ := List.mem_map.1 hh
          rfl
      · rw [SetDP.patchAll_append sw _ _ _ _ h1]
        exact h2
      · -- the hunks do not touch the set keys
        intro kvs0 kvs0' e1' e2' prem
        cases e1'
        cases e2'
        intro h' hh'
        have hmg : h'.merge = false := by
          rcases List.mem_append.1 hh' with hh | hh
          · exact m1 h' hh
          · obtain ⟨kv, _, rfl⟩ := List.mem_map.1 hh
            rfl
        refine ⟨hmg, ?_⟩
        have hin : DPL.shiftHunk p h' ∈ diffNode o false (.obj kvs) (.obj kvs') p := by
          rw [hdiff]; exact List.mem_map_of_mem hh'
        have hpath : (DPL.shiftHunk p h').path = p ++ h'.path := rfl
        rw [DE.diffNode_obj_obj, List.mem_append] at hin
        rcases hin with hin | hin
        · obtain ⟨k, v, hkv, hmatch⟩ := diffKvs_origin o false p kvs' kvs _ hin
          have hlv : alookup k kvs = some v := alookup_of_mem hsa hkv
          have hkn : k ∉ ks := by
            intro hkk
            have hpr := prem k hkk
            rw [hlv] at hpr
            cases hl' : alookup k kvs' with
            | none => rw [hl'] at hpr; simp at hpr
            | some v' =>
              rw [hl'] at hpr hmatch
              simp only [Option.map_some, Option.some.injEq] at hpr
              have hv := (ha.val hkv).1
              have hv' := (hb.lookup hl').1
              have wv := wa.val hkv
              have wv' := wb.val (mem_of_alookup hl')
              have heq := (hash_facts F hd hp K.hf hv.docOk hv'.docOk (WA wv) (WB wv') hpr).1
              have hnil := DES.diffNode_nil_of_equals_keys F hd hp false FH KH K.ib v hv.docOk wv v'
                hv'.docOk wv' heq (p ++ [.key k])
              simp only [hnil] at hmatch
              cases hmatch
          cases hl' : alookup k kvs' with
          | none =>
            rw [hl'] at hmatch
            simp only at hmatch
            rw [hpath] at hmatch
            have := List.append_cancel_left hmatch
            exact ⟨k, [], this, hkn⟩
          | some v' =>
            rw [hl'] at hmatch
            simp only at hmatch
            obtain ⟨D0, _, d1, _⟩ := ih k v hkv v' (ha.val hkv).1 (hb.lookup hl').1 (wa.val hkv)
              (wb.val (mem_of_alookup hl')) (p ++ [.key k])
            rw [d1] at hmatch
            obtain ⟨h0, _, e0⟩ := List.mem_map.1 hmatch
            have e0p : (DPL.shiftHunk (p ++ [.key k]) h0).path = (DPL.shiftHunk p h').path := by
              rw [e0]
            simp only [DPL.shiftHunk, List.append_assoc] at e0p
            have := List.append_cancel_left e0p
            exact ⟨k, h0.path, by simpa using this.symm, hkn⟩
        · obtain ⟨kv, hkv, e0⟩ := List.mem_map.1 hin
          have hkvf := List.mem_filter.1 hkv
          have hnone : alookup kv.1 kvs = none := by simpa using hkvf.2
          have hkn : kv.1 ∉ ks := by
            intro hkk
            have := prem kv.1 hkk
            rw [hnone, alookup_of_mem hsb hkvf.1] at this
            simp at this
          have e0p : (DPL.shiftHunk p h').path = p ++ [.key kv.1] := by rw [← e0]
          rw [hpath] at e0p
          exact ⟨kv.1, [], List.append_cancel_left e0p, hkn⟩
    | _ =>
      refine replace_stepK F L sw ks hd hp K.hf ha hb (WB wb) (Or.inr rfl) p [_] (by simp) rfl ?_
      rw [DPL.diffNode_obj_other o kvs _ (fun _ e => by cases e) p]
      rfl

/-- **C01, SetKeys reading, strict strategy** (stages B1 and B2: one or several set keys, every
    object member of an array of the source carries all of them). For documents as read from JSON
    text, under the hypotheses `KeysHyp` (see the header), the hunks of `a.Diff(b, SetKeys(ks))`
    apply to `a` in sequence with the library's own patch code (either variant `sw` of the keyed
    branch: no nested application fails), and the result `Equals` `b` under the same options, is
    equivalent to `b` for the advertised equivalence (arrays as sets), and has the hash code of `b`. -/
theorem diff_then_patch_setkeys (F : FloatEq0) (L : FloatLaws) (sw : Bool) (o : Opts)
    (ks : List String) (hd : dispatchTag o = .set) (hk : keysOf o = some ks)
    (hmg : isMerge o = false) (hp : precOf o = 0) (a b : Json)
    (ha : a.setDoc = true) (hb : b.setDoc = true)
    (ha' : DPL.memOK a = true) (hb' : DPL.memOK b = true) (K : KeysHyp o ks a b) :
    ∃ r, patchAll sw a (diffM o a b) = .ok r ∧ equals o r b = true ∧
      equivB o r b = true ∧ hashCode o r = hashCode o b := by
  obtain ⟨D, r, e, _, h, h1, _⟩ := node_stepK F L sw hd hk hp (docOk_of_setDoc ha)
    (docOk_of_setDoc hb) K a b ⟨ha, ha'⟩ ⟨hb, hb'⟩ (fun _ hz => hz) (fun _ hz => hz) []
  have hid : D.map (DPL.shiftHunk []) = D := by
    rw [List.map_congr_left (g := id) (fun h _ => by simp [DPL.shiftHunk]), List.map_id]
  refine ⟨r, ?_, h1.1, h1.2.2, h1.2.1⟩
  unfold diffM
  rw [hmg, e, hid]
  exact h

/-- the library call `a.Patch(a.Diff(b, SetKeys(ks...)))` -/
theorem patchM_diffM_SetKeys (F : FloatEq0) (L : FloatLaws) (ks : List String) (a b : Json)
    (ha : a.setDoc = true) (hb : b.setDoc = true)
    (ha' : DPL.memOK a = true) (hb' : DPL.memOK b = true) (K : KeysHyp [.setKeys ks] ks a b) :
    ∃ r, patchM a (diffM [.setKeys ks] a b) = .ok r ∧ equals [.setKeys ks] r b = true ∧
      equivB [.setKeys ks] r b = true := by
  obtain ⟨r, h1, h2, h3, _⟩ := diff_then_patch_setkeys F L true [.setKeys ks] ks rfl rfl rfl rfl a b
    ha hb ha' hb' K
  exact ⟨r, h1, h2, h3⟩

/-! ### the hypotheses are decidable: checkers -/

theorem hashFaithful_of_check {o : Opts} {S : List Json}
    (h : (S.all fun x => S.all fun y => hashCode o x != hashCode o y || equivB o x y) = true) :
    HashFaithful o S := by
  intro x hx y hy e
  simp only [List.all_eq_true] at h
  simpa [e] using h x hx y hy

theorem keyedDistinct_of_check {o : Opts} {S : List Json}
    (h : S.all (nodeKeyedDistinct o) = true) : KeyedDistinct o S :=
  fun n hn => List.all_eq_true.1 h n hn

theorem pathFaithful_of_check {o : Opts} {ks : List String} {S : List Json}
    (h : S.all (nodePathFaithful o ks) = true) : PathFaithful o ks S :=
  fun n hn => List.all_eq_true.1 h n hn

theorem keyTuple_of_check {o : Opts} {ks : List String} {SA SB : List Json}
    (h : (SA.all fun x => SB.all fun y => keyTupleOK o ks x y) = true) : KeyTuple o ks SA SB := by
  intro x hx y hy
  simp only [List.all_eq_true] at h
  exact h x hx y hy

/-! ## B.7 non-vacuity -/

namespace ExampleB

def o2 : Opts := [.setKeys ["id", "k"]]

/-- `[{"id":"1","k":"a","v":"x"},{"id":"2","k":"a","v":["p"]},"s"]` -/
def exA : Json := .arr .raw [
  .obj [("id", .str "1"), ("k", .str "a"), ("v", .str "x")],
  .obj [("id", .str "2"), ("k", .str "a"), ("v", .arr .raw [.str "p"])], .str "s"]
/-- `[{"id":"2","k":"a","v":["q"],"w":true},{"id":"1","k":"b","v":"x"},"t"]`: the member `(2,a)` is
    changed inside, `(1,a)` is removed, `(1,b)` and `"t"` are added, `"s"` is removed -/
def exB : Json := .arr .raw [
  .obj [("id", .str "2"), ("k", .str "a"), ("v", .arr .raw [.str "q"]), ("w", .bool true)],
  .obj [("id", .str "1"), ("k", .str "b"), ("v", .str "x")], .str "t"]

theorem ex_docs : exA.setDoc = true ∧ exB.setDoc = true ∧ DPL.memOK exA = true ∧
    DPL.memOK exB = true := by decide

theorem ex_hf : HashFaithful o2 (subterms exA ++ subterms exB) := by
  intro x hx y hy
  simp only [exA, exB, subterms, subtermsList, subtermsKvs, List.cons_append, List.nil_append,
    List.append_nil, List.mem_cons, List.not_mem_nil, or_false] at hx hy
  rcases hx with rfl | rfl | rfl | rfl | rfl | rfl | rfl | rfl | rfl | rfl | rfl | rfl | rfl | rfl | rfl | rfl | rfl | rfl | rfl | rfl | rfl | rfl | rfl <;>
  rcases hy with rfl | rfl | rfl | rfl | rfl | rfl | rfl | rfl | rfl | rfl | rfl | rfl | rfl | rfl | rfl | rfl | rfl | rfl | rfl | rfl | rfl | rfl | rfl <;>
  first
  | (intro e; exact absurd e (by decide +kernel))
  | (intro _; simp [equivB, dispatchTag, o2, allIn, allCovered, anyEquiv, equivKvs, alookup]; done)

theorem ex_keysHyp : KeysHyp o2 ["id", "k"] exA exB where
  hf := ex_hf
  kd := keyedDistinct_of_check (by decide +kernel)
  ksep := DES.Example.kindSepI_of_check (by decide +kernel)
  ib := DES.Example.identInj_of_check (by decide +kernel)
  pf := pathFaithful_of_check (by decide +kernel)
  kt := keyTuple_of_check (by decide +kernel)

/-- the pair satisfies every hypothesis of the SetKeys theorem (only the IEEE-754 laws are assumed):
    the library patches `exA` with its own diff, under `SetKeys("id","k")`, to a document that
    `Equals` `exB` -/
theorem ex_run (F : FloatEq0) (L : FloatLaws) :
    ∃ r, patchM exA (diffM o2 exA exB) = .ok r ∧ equals o2 r exB = true ∧
      equivB o2 r exB = true :=
  patchM_diffM_SetKeys F L ["id", "k"] exA exB ex_docs.1 ex_docs.2.1 ex_docs.2.2.1 ex_docs.2.2.2
    ex_keysHyp

/-! stage B3: members lacking some of the set keys (the first lacks `k`, the second lacks both) -/

/-- `[{"id":"1","v":"x"},{"v":"q"}]` -/
def exC : Json := .arr .raw [
  .obj [("id", .str "1"), ("v", .str "x")], .obj [("v", .str "q")]]
/-- `[{"id":"1","v":"z"},{"v":"r"}]` -/
def exD : Json := .arr .raw [
  .obj [("id", .str "1"), ("v", .str "z")], .obj [("v", .str "r")]]

theorem ex3_docs : exC.setDoc = true ∧ exD.setDoc = true ∧ DPL.memOK exC = true ∧
    DPL.memOK exD = true := by decide

theorem ex3_hf : HashFaithful o2 (subterms exC ++ subterms exD) := by
  intro x hx y hy
  simp only [exC, exD, subterms, subtermsList, subtermsKvs, List.cons_append, List.nil_append,
    List.append_nil, List.mem_cons, List.not_mem_nil, or_false] at hx hy
  rcases hx with rfl | rfl | rfl | rfl | rfl | rfl | rfl | rfl | rfl | rfl | rfl | rfl <;>
  rcases hy with rfl | rfl | rfl | rfl | rfl | rfl | rfl | rfl | rfl | rfl | rfl | rfl <;>
  first
  | (intro e; exact absurd e (by decide +kernel))
  | (intro _; simp [equivB, dispatchTag, o2, allIn, allCovered, anyEquiv, equivKvs, alookup]; done)

theorem ex3_keysHyp : KeysHyp o2 ["id", "k"] exC exD where
  hf := ex3_hf
  kd := keyedDistinct_of_check (by decide +kernel)
  ksep := DES.Example.kindSepI_of_check (by decide +kernel)
  ib := DES.Example.identInj_of_check (by decide +kernel)
  pf := pathFaithful_of_check (by decide +kernel)
  kt := keyTuple_of_check (by decide +kernel)

/-- members that lack set keys: both members are found by the SECOND pass of the keyed lookup -/
theorem ex3_run (F : FloatEq0) (L : FloatLaws) :
    ∃ r, patchM exC (diffM o2 exC exD) = .ok r ∧ equals o2 r exD = true ∧
      equivB o2 r exD = true :=
  patchM_diffM_SetKeys F L ["id", "k"] exC exD ex3_docs.1 ex3_docs.2.1 ex3_docs.2.2.1
    ex3_docs.2.2.2 ex3_keysHyp

end ExampleB

/-! ## B.8 the hypotheses are needed: where the property is FALSE (on the Go code as well)

  Three concrete pairs of documents, each inside the wording of the property for SetKeys except for
  the one hypothesis named; every other hypothesis of `diff_then_patch_setkeys` holds. The runs were
  replayed on the Go library (`a.Patch(a.Diff(b, SetKeys(...)))`): same outcomes. -/

namespace Witness

theorem patchKeyed_none (sw tol : Bool) (po : List (String × Json)) (rest : Path)
    (b rm ad af : List Json) :
    ∀ (xs acc : List Json), (∀ z ∈ xs, matchT tol po z = false) →
      patchKeyed sw tol (identObj [.set] po) po rest b rm ad af acc xs = .err
  | [], acc, _ => by rw [patchKeyed.eq_def]
  | z :: xs, acc, hp => by
    have hz : matchT tol po z = false := hp z List.mem_cons_self
    have ih := patchKeyed_none sw tol po rest b rm ad af xs (acc ++ [z])
      (fun w hw => hp w (List.mem_cons_of_mem _ hw))
    rw [patchKeyed.eq_def]
    cases z with
    | obj kz =>
      simp only [matchT] at hz
      simp only [hz, Bool.false_eq_true, if_false]
      exact ih
    | _ => exact ih

/-- no member passes the test of the pass the code uses: the hunk is rejected -/
theorem patchNode_keyed_none (sw : Bool) (t : Tag) (ht : t = .raw ∨ t = .set)
    (po : List (String × Json)) (e : PathElem) (rest : Path)
    (b rm ad af : List Json) (xs : List Json)
    (h : ∀ z ∈ xs, matchT (keyedTol po xs) po z = false) :
    patchNode sw false (.arr t xs) (.setKeys po :: e :: rest) b rm ad af = .err := by
  rw [patchNode.eq_def]
  have he : effTag (pathMeta (.setKeys po :: e :: rest)) t = .set := by
    rcases ht with rfl | rfl <;> simp [effTag, pathMeta, dispatchTag]
  simp only [he, Bool.false_eq_true, if_false, List.isEmpty_cons]
  exact patchKeyed_none sw _ po (e :: rest) b rm ad af xs [] h

theorem diff_str (o : Opts) (s t : String) (p : Path) :
    diffNode o false (.str s) (.str t) p =
      if s = t then [] else [{ path := p, remove := [.str s], add := [.str t] }] := by
  rw [DE.diffNode_scalar o false _ _ (fun _ _ e => by cases e) (fun _ e => by cases e)]
  by_cases h : s = t <;> simp [diffCommon, equals, Json.nodeList, Json.isVoid, h]

theorem diff_null (o : Opts) (p : Path) : diffNode o false .null .null p = [] := by
  rw [DE.diffNode_scalar o false _ _ (fun _ _ e => by cases e) (fun _ e => by cases e)]
  simp [diffCommon, equals, Json.isNull]

/-! ### (1) KF-C01-identperm: `KeyTuple` is needed

  `[{"id":"5","k":"3"}]` → `[{"id":"3","k":"5"}]` under SetKeys(id,k): the two members share an
  identity (the hash codes of the key values are SORTED before they are combined), so the diff
  sub-diffs them: two hunks, both addressed through `{"id":"5","k":"3"}`. The first one changes
  `id`; the second one no longer finds the member: `Patch` returns an error. -/

def o2 : Opts := [.setKeys ["id", "k"]]
abbrev px : Json := .obj [("id", .str "5"), ("k", .str "3")]
abbrev py : Json := .obj [("id", .str "3"), ("k", .str "5")]
def pa : Json := .arr .raw [px]
def pb : Json := .arr .raw [py]
abbrev ppo : List (String × Json) := [("id", .str "5"), ("k", .str "3")]
def pd : Diff := [
  { path := [.setKeys ppo, .key "id"], remove := [.str "5"], add := [.str "3"] },
  { path := [.setKeys ppo, .key "k"], remove := [.str "3"], add := [.str "5"] }]

theorem p_ident : identOf o2 py = identOf o2 px := by decide +kernel

theorem p_diff : diffM o2 pa pb = pd := by
  unfold diffM pa pb
  rw [show isMerge o2 = false from rfl, SetDP.diffNode_set_set (o := o2) rfl]
  rw [SetDP.diffSetElems_cons, SetDP.diffSetElems_nil]
  simp [p_ident, identLookup, ksort, kinsert, SetDP.subOf, SetDP.remOf, SetDP.setAdd, hdedup, hsort]
  rw [DE.diffNode_obj_obj, DE.diffKvs_cons, DE.diffKvs_cons, DE.diffKvs_nil]
  simp [alookup, diff_str, newPathSetKeys, keysOf, o2, ainsert, pd]

theorem p_m1 : matchT false ppo px = true := by decide +kernel
theorem p_m2 : matchT false ppo (.obj [("id", .str "3"), ("k", .str "3")]) = false := by
  decide +kernel
theorem p_m3 : matchT true ppo (.obj [("id", .str "3"), ("k", .str "3")]) = false := by
  decide +kernel

theorem p_patch (sw : Bool) : patchAll sw pa pd = .err := by
  have h1 : patchNode sw false pa [.setKeys ppo, .key "id"] [] [.str "5"] [.str "3"] []
      = .ok (.arr .set [.obj [("id", .str "3"), ("k", .str "3")]]) := by
    have := patchNode_keyed sw .raw (Or.inl rfl) ppo (.key "id") [] [] [.str "5"] [.str "3"] []
      [] [("id", .str "5"), ("k", .str "3")] [] false (by rw [keyedTol_eq]; simp [p_m1])
      (by simp) p_m1
    simp only [List.nil_append] at this
    rw [pa, this]
    simp [patchNode.eq_def, patchObjChild.eq_def, alookup, patchFresh, Path.isLeaf, equals,
      Json.singleValue, Json.isVoid, ainsert, Pure.pure]
  have h2 : patchNode sw false (.arr .set [.obj [("id", .str "3"), ("k", .str "3")]])
      [.setKeys ppo, .key "k"] [] [.str "3"] [.str "5"] [] = .err := by
    apply patchNode_keyed_none sw .set (Or.inr rfl)
    intro z hz
    simp only [List.mem_singleton] at hz
    subst hz
    have : keyedTol ppo [.obj [("id", .str "3"), ("k", .str "3")]] = true := by
      rw [keyedTol_eq]; simp [p_m2]
    rw [this, p_m3]
  simp [pd, patchAll, h1, h2]

theorem p_hf : HashFaithful o2 (subterms pa ++ subterms pb) := by
  intro x hx y hy
  simp only [pa, pb, subterms, subtermsList, subtermsKvs, List.cons_append, List.nil_append,
    List.append_nil, List.mem_cons, List.not_mem_nil, or_false] at hx hy
  rcases hx with rfl | rfl | rfl | rfl | rfl | rfl | rfl | rfl <;>
  rcases hy with rfl | rfl | rfl | rfl | rfl | rfl | rfl | rfl <;>
  first
  | (intro e; exact absurd e (by decide +kernel))
  | (intro _; simp [equivB, dispatchTag, o2, allIn, allCovered, anyEquiv, equivKvs, alookup]; done)

/-- **KF-C01-identperm.** Two documents of the domain (every member carries both keys, no two
    members of an array share an identity), every hypothesis of the theorem but `KeyTuple` holds, and
    `a.Patch(a.Diff(b, SetKeys(id,k)))` FAILS (in both variants of the patch code). -/
theorem identperm_breaks :
    pa.setDoc = true ∧ pb.setDoc = true ∧ DPL.memOK pa = true ∧ DPL.memOK pb = true ∧
    HashFaithful o2 (subterms pa ++ subterms pb) ∧ KeyedDistinct o2 (subterms pa) ∧
    DES.KindSepI o2 (subterms pa) (subterms pa ++ subterms pb) ∧ DES.IdentInj o2 (subterms pb) ∧
    PathFaithful o2 ["id", "k"] (subterms pa) ∧
    ¬ KeyTuple o2 ["id", "k"] (subterms pa) (subterms pb) ∧
    patchM pa (diffM o2 pa pb) = .err ∧ patchAll false pa (diffM o2 pa pb) = .err := by
  refine ⟨by decide, by decide, by decide, by decide, p_hf,
    keyedDistinct_of_check (by decide +kernel), DES.Example.kindSepI_of_check (by decide +kernel),
    DES.Example.identInj_of_check (by decide +kernel), pathFaithful_of_check (by decide +kernel),
    ?_, ?_, ?_⟩
  · intro h
    exact absurd (h px (by simp [pa, subterms, subtermsList]) py (by simp [pb, subterms, subtermsList]))
      (by decide +kernel)
  · rw [p_diff]; exact p_patch true
  · rw [p_diff]; exact p_patch false

/-! ### (2) two members with the same identity in one array of the source: `KeyedDistinct` is needed

  `[{"id":"1","v":"1"},{"id":"1","v":"1"}]` → `[{"id":"1","v":"2"}]` under SetKeys(id): a
  duplicated member, one key, every member carries it. The diff is one hunk addressed through
  `{"id":"1"}`; the patch changes the FIRST member with that key value and leaves the second:
  `Patch` succeeds and the result does not `Equals` the target. (Under SET the same pair is fine:
  the set hunk removes the identity.) -/

def o1 : Opts := [.setKeys ["id"]]
abbrev dx : Json := .obj [("id", .str "1"), ("v", .str "1")]
abbrev dy : Json := .obj [("id", .str "1"), ("v", .str "2")]
def da : Json := .arr .raw [dx, dx]
def db : Json := .arr .raw [dy]
def dd : Diff :=
  [{ path := [.setKeys [("id", .str "1")], .key "v"], remove := [.str "1"], add := [.str "2"] }]

theorem d_ident : identOf o1 dy = identOf o1 dx := by decide +kernel

theorem d_diff : diffM o1 da db = dd := by
  unfold diffM da db
  rw [show isMerge o1 = false from rfl, SetDP.diffNode_set_set (o := o1) rfl]
  rw [SetDP.diffSetElems_cons, SetDP.diffSetElems_cons, SetDP.diffSetElems_nil]
  simp [d_ident, identLookup, ksort, kinsert, SetDP.subOf, SetDP.remOf, SetDP.setAdd, hdedup, hsort]
  rw [DE.diffNode_obj_obj, DE.diffKvs_cons, DE.diffKvs_cons, DE.diffKvs_nil]
  simp [alookup, diff_str, newPathSetKeys, keysOf, o1, ainsert, dd]

theorem d_m1 : matchT false [("id", .str "1")] dx = true := by decide +kernel

theorem d_patch (sw : Bool) : patchAll sw da dd = .ok (.arr .set [dy, dx]) := by
  have h1 : patchNode sw false da [.setKeys [("id", .str "1")], .key "v"] [] [.str "1"] [.str "2"] []
      = .ok (.arr .set [dy, dx]) := by
    have := patchNode_keyed sw .raw (Or.inl rfl) [("id", .str "1")] (.key "v") [] [] [.str "1"]
      [.str "2"] [] [] [("id", .str "1"), ("v", .str "1")] [dx] false
      (by rw [keyedTol_eq]; simp [d_m1]) (by simp) d_m1
    simp only [List.nil_append] at this
    rw [da, this]
    simp [patchNode.eq_def, patchObjChild.eq_def, alookup, patchFresh, Path.isLeaf, equals,
      Json.singleValue, Json.isVoid, ainsert, Pure.pure]
  simp [dd, patchAll, h1]

theorem d_hf : HashFaithful o1 (subterms da ++ subterms db) := by
  intro x hx y hy
  simp only [da, db, subterms, subtermsList, subtermsKvs, List.cons_append, List.nil_append,
    List.append_nil, List.mem_cons, List.not_mem_nil, or_false] at hx hy
  rcases hx with rfl | rfl | rfl | rfl | rfl | rfl | rfl | rfl | rfl | rfl | rfl <;>
  rcases hy with rfl | rfl | rfl | rfl | rfl | rfl | rfl | rfl | rfl | rfl | rfl <;>
  first
  | (intro e; exact absurd e (by decide +kernel))
  | (intro _; simp [equivB, dispatchTag, o1, allIn, allCovered, anyEquiv, equivKvs, alookup]; done)

/-- **a duplicated keyed member.** Every hypothesis of the theorem but `KeyedDistinct` holds, the
    documents are inside the wording of the property ("duplicated array elements", "every
    array-member object carrying all k"), `a.Patch(a.Diff(b, SetKeys(id)))` succeeds and its result
    does NOT `Equals` `b`. -/
theorem duplicate_member_breaks :
    da.setDoc = true ∧ db.setDoc = true ∧ DPL.memOK da = true ∧ DPL.memOK db = true ∧
    HashFaithful o1 (subterms da ++ subterms db) ∧ ¬ KeyedDistinct o1 (subterms da) ∧
    DES.KindSepI o1 (subterms da) (subterms da ++ subterms db) ∧ DES.IdentInj o1 (subterms db) ∧
    PathFaithful o1 ["id"] (subterms da) ∧ KeyTuple o1 ["id"] (subterms da) (subterms db) ∧
    patchM da (diffM o1 da db) = .ok (.arr .set [dy, dx]) ∧
    equals o1 (.arr .set [dy, dx]) db = false := by
  refine ⟨by decide, by decide, by decide, by decide, d_hf, ?_,
    DES.Example.kindSepI_of_check (by decide +kernel),
    DES.Example.identInj_of_check (by decide +kernel), pathFaithful_of_check (by decide +kernel),
    keyTuple_of_check (by decide +kernel), ?_, by decide +kernel⟩
  · intro h
    exact absurd (h da (mem_subterms_self da)) (by decide +kernel)
  · rw [d_diff]; exact d_patch true

/-! ### (3) a member that lacks a set key next to one that has `null` for it: `PathFaithful` is needed

  `[{"id":"1"},{"id":"1","k":null}]` → `[{"id":"1","v":"y"},{"id":"1","k":null}]` under
  SetKeys(id,k) (stage B3: the first member lacks `k`). The two members have different identities.
  The hunk for the first member is addressed through `{"id":"1","k":null}` (`newPathSetKeys` writes
  `null` for the key the member lacks), and the FIRST pass of the lookup hits the second member,
  whose key values are exactly those: `Patch` succeeds on the wrong member. No collision is
  involved. -/

abbrev n1 : Json := .obj [("id", .str "1")]
abbrev n2 : Json := .obj [("id", .str "1"), ("k", .null)]
abbrev n3 : Json := .obj [("id", .str "1"), ("v", .str "y")]
abbrev n4 : Json := .obj [("id", .str "1"), ("k", .null), ("v", .str "y")]
def na : Json := .arr .raw [n1, n2]
def nb : Json := .arr .raw [n3, n2]
abbrev npo : List (String × Json) := [("id", .str "1"), ("k", .null)]
def nd : Diff := [{ path := [.setKeys npo, .key "v"], add := [.str "y"] }]

theorem n_i1 : identOf o2 n3 = identOf o2 n1 := by decide +kernel
theorem n_i2 : ¬ identOf o2 n2 = identOf o2 n1 := by decide +kernel
theorem n_i3 : ¬ identOf o2 n1 = identOf o2 n2 := by decide +kernel

theorem n_d1 (q : Path) :
    diffNode o2 false n1 n3 q = [{ path := q ++ [.key "v"], add := [.str "y"] }] := by
  rw [DE.diffNode_obj_obj, DE.diffKvs_cons, DE.diffKvs_nil]
  simp [alookup, diff_str, Json.nodeList, Json.isVoid]

theorem n_d2 (q : Path) : diffNode o2 false n2 n2 q = [] := by
  rw [DE.diffNode_obj_obj, DE.diffKvs_cons, DE.diffKvs_cons, DE.diffKvs_nil]
  simp [alookup, diff_str, diff_null]

theorem n_p1 : newPathSetKeys o2 [("id", .str "1")] = .setKeys npo := by
  rw [newPathSetKeys_some (ks := ["id", "k"]) rfl]
  simp [pathObjOf, keyVal, alookup, ainsert]

theorem n_parts : diffSetElems o2 false [] [n3, n2] [n1, n2] =
    [(identOf o2 n1, .sub [{ path := [.setKeys npo, .key "v"], add := [.str "y"] }]),
     (identOf o2 n2, .sub [])] := by
  rw [SetDP.diffSetElems_cons, SetDP.diffSetElems_cons, SetDP.diffSetElems_nil]
  simp [n_i1, n_i2, n_i3, identLookup, n_d1, n_d2, n_p1]

theorem n_diff : diffM o2 na nb = nd := by
  unfold diffM na nb
  rw [show isMerge o2 = false from rfl, SetDP.diffNode_set_set (o := o2) rfl, n_parts]
  have hlt : hashLt (identOf o2 n1) (identOf o2 n2) = true ∨
      hashLt (identOf o2 n1) (identOf o2 n2) = false := by
    cases hashLt (identOf o2 n1) (identOf o2 n2) <;> simp
  rcases hlt with h | h <;>
    simp [h, n_i1, n_i2, n_i3, identLookup, ksort, kinsert, SetDP.subOf, SetDP.remOf,
      SetDP.setAdd, hdedup, hsort, nd]

theorem n_m1 : matchT false npo n1 = false := by decide +kernel
theorem n_m2 : matchT false npo n2 = true := by decide +kernel

theorem n_patch (sw : Bool) : patchAll sw na nd = .ok (.arr .set [n1, n4]) := by
  have h1 : patchNode sw false na [.setKeys npo, .key "v"] [] [] [.str "y"] []
      = .ok (.arr .set [n1, n4]) := by
    have := patchNode_keyed sw .raw (Or.inl rfl) npo (.key "v") [] [] [] [.str "y"] []
      [n1] [("id", .str "1"), ("k", .null)] [] false (by rw [keyedTol_eq]; simp [n_m2])
      (by intro z hz; simp only [List.mem_singleton] at hz; subst hz; exact n_m1) n_m2
    simp only [List.singleton_append] at this
    rw [na, this]
    simp [patchNode.eq_def, alookup, patchFresh, patchNew, Path.isLeaf, equals,
      Json.singleValue, Json.isVoid, ainsert, Pure.pure]
  simp [nd, patchAll, h1]

theorem n_hf : HashFaithful o2 (subterms na ++ subterms nb) := by
  intro x hx y hy
  simp only [na, nb, subterms, subtermsList, subtermsKvs, List.cons_append, List.nil_append,
    List.append_nil, List.mem_cons, List.not_mem_nil, or_false] at hx hy
  rcases hx with rfl | rfl | rfl | rfl | rfl | rfl | rfl | rfl | rfl | rfl | rfl | rfl | rfl <;>
  rcases hy with rfl | rfl | rfl | rfl | rfl | rfl | rfl | rfl | rfl | rfl | rfl | rfl | rfl <;>
  first
  | (intro e; exact absurd e (by decide +kernel))
  | (intro _; simp [equivB, dispatchTag, o2, allIn, allCovered, anyEquiv, equivKvs, alookup]; done)

/-- **a member lacking a set key beside a member holding `null` for it.** Every hypothesis of the
    theorem but `PathFaithful` holds; `a.Patch(a.Diff(b, SetKeys(id,k)))` succeeds, patches the
    wrong member, and its result does NOT `Equals` `b`. (Outside the wording of C01, which asks every
    member to carry all the keys; inside the domain of stage B3.) -/
theorem null_completion_breaks :
    na.setDoc = true ∧ nb.setDoc = true ∧ DPL.memOK na = true ∧ DPL.memOK nb = true ∧
    HashFaithful o2 (subterms na ++ subterms nb) ∧ KeyedDistinct o2 (subterms na) ∧
    DES.KindSepI o2 (subterms na) (subterms na ++ subterms nb) ∧ DES.IdentInj o2 (subterms nb) ∧
    ¬ PathFaithful o2 ["id", "k"] (subterms na) ∧
    KeyTuple o2 ["id", "k"] (subterms na) (subterms nb) ∧
    patchM na (diffM o2 na nb) = .ok (.arr .set [n1, n4]) ∧
    equals o2 (.arr .set [n1, n4]) nb = false := by
  refine ⟨by decide, by decide, by decide, by decide, n_hf,
    keyedDistinct_of_check (by decide +kernel), DES.Example.kindSepI_of_check (by decide +kernel),
    DES.Example.identInj_of_check (by decide +kernel), ?_,
    keyTuple_of_check (by decide +kernel), ?_, by decide +kernel⟩
  · intro h
    exact absurd (h na (mem_subterms_self na)) (by decide +kernel)
  · rw [n_diff]; exact n_patch true

end Witness

end Jd.DPK

#print axioms Jd.DPK.obj_step
#print axioms Jd.DPK.memSound_list
#print axioms Jd.DPK.merge_diff_then_patch_list
#print axioms Jd.DPK.patchM_diffM_MERGE
#print axioms Jd.DPK.memSound_set
#print axioms Jd.DPK.merge_diff_then_patch_setmodes
#print axioms Jd.DPK.patchM_diffM_SET_MERGE
#print axioms Jd.DPK.patchM_diffM_MULTISET_MERGE
#print axioms Jd.DPK.set_stepK
#print axioms Jd.DPK.node_stepK
#print axioms Jd.DPK.diff_then_patch_setkeys
#print axioms Jd.DPK.patchM_diffM_SetKeys
#print axioms Jd.DPK.ExampleB.ex_run
#print axioms Jd.DPK.ExampleB.ex3_run
#print axioms Jd.DPK.Witness.identperm_breaks
#print axioms Jd.DPK.Witness.duplicate_member_breaks
#print axioms Jd.DPK.Witness.null_completion_breaks
