/-
  JdProofs.V1JsonText (namespace `Jd.V1T`) — property C18 (v1 library `lib/`) at the level of the JSON
  TEXT: the strings that `Diff.RenderMerge()` / `Diff.RenderPatch()` return and that
  `ReadMergeString` / `ReadPatchString` parse. The existing C18 theorems (JdProofs/V1MergeRender.lean,
  V1PatchRender.lean) stop at the patch DOCUMENT (`V1.renderMergeDoc`, `V1.renderPatchOps`); here they
  are composed with the print / parse round trip of the model's JSON codec
  (JdProofs/JsonTextRoundTrip.lean, `Jd.JText`, v1 twins `Jd.JText.V1T`).

  Library functions of the theorems: `V1.diffM`, `V1.renderMergeM nc` (= `RenderMerge`, text),
  `V1.readMergeM nc` (= `ReadMergeString`), `V1.renderPatchM nc` (= `RenderPatch`, text),
  `V1.readPatchM nc` (= `ReadPatchString`), `V1.patchM` / `V1.patchP` (= `Patch`), `V1.equals m`,
  `parseJson nc` (= `json.Unmarshal` into a document). Independent specifications: `Spec.mergePatch`
  (RFC 7386), `Spec.opsOfJson` + `Spec.eval` (RFC 6902: decoding of a parsed patch document into
  operations and their evaluation, JdSpec/Rfc6902.lean — shares nothing with jd's reader), `specEq`.

  STAGE REACHED: both targets, both clauses, all inputs of the stated domains; no open goal.

  ═══ MAIN THEOREMS ═══
   JSON Merge Patch (domain of `V1M.v1_merge_render_readback`: `MergeMode m`; `a`: `wf`, `rawDoc`;
   `b`: `wf`, `rawDoc`, `nullFree`, `finiteNums`; PLUS the two text hypotheses on `b` below)
     `v1_merge_text_rfc`       (`V1.equals m a b = false`)  ∃ text p,
          V1.renderMergeM nc (liftDiff (V1.diffM m a b)) = .ok (some text) ∧ parseJson nc text = some p ∧
          p not void, not null ∧ specEq (mergePatch a p) b = true
     `v1_merge_text_readback`  (additionally `a.isObj ∨ b ≠ {}`)  ∃ text p d r,
          … = .ok (some text) ∧ parseJson nc text = some p ∧ V1.readMergeM nc text = .ok d ∧
          V1.patchM a d = .ok r ∧ r = mergePatch a p ∧ V1.equals m r b = true ∧ specEq r b = true ∧
          r.listDoc = true
     `v1_merge_text_rfc_obj`, `v1_merge_text_readback_obj`   the same without "that differ" when `a` is
          an object (the empty diff is the text `{}`: `empty_object_text`).
     `merge_text_core`         the text of a non-empty merge diff is produced, and both `parseJson` and
          `ReadMergeString` get `untag (V1M.pdoc a b)` out of it (the rendered document with every
          array a plain `jsonArray`: the renderer stores a replaced array as a `jsonList`).
     `v1_text_witness_readback_nonobj_to_empty_object`   the exclusion `a.isObj ∨ b ≠ {}` at the text
          level, for EVERY non-object `a` and EVERY codec: the text is `{}`, RFC 7386 gives `{}` = `b`,
          `ReadMergeString("{}")` is the empty diff, `Patch` returns `a` (KF-C12-emptyobj, class (a)).
   JSON Patch (domain of `V1R.v1_render_read_patch`: `ListMode m`; `a`, `b`: `listDoc`, `wf`,
   `finiteNums`; `lenLe N a`, `IdxLaws N`, `FloatLaws`; no diff path with the key "-"; PLUS the two text
   hypotheses on `a` AND `b`: removed values of `a` are printed in `test` / `remove`)
     `v1_patch_text_rfc` (`…_noDash`)   ∃ text doc sops r,
          V1.renderPatchM nc (liftDiff (V1.diffM m a b)) = .ok (some text) ∧ parseJson nc text = some doc ∧
          Spec.opsOfJson doc = some sops ∧ (every op is test / remove / add) ∧
          eval a sops = some r ∧ specEq r b = true ∧ specEq b r = true
     `v1_patch_text_readback` (`…_noDash`; `N ≤ 2^63`)   ∃ text d' r,
          … = .ok (some text) ∧ V1.readPatchM nc text = .ok d' ∧ V1.patchP a d' = .ok r ∧
          V1.equals m r b = true ∧ specEq r b = true ∧ specEq b r = true
     `patch_core`              what the two share: the text parses to the array of the operation objects
          (`renderPatchM_parse`), the operations come back with their values `untag`ged
          (`mnorm_listDoc`), these are exactly the operations rendered from the diff with its values
          untagged (`renderPatchOps_untag`), and that diff patches `a` like the original one
          (`V1S.sim_patchAll`, JdProofs/V1SetDiffPatch.lean) — so the two value-level theorems
          (`V1R.diff_sim`, `V1R.diff_readBack`) apply to it.

  ═══ WHICH CODEC FACTS ARE HYPOTHESES, WHICH ARE PROVED ═══
   PROVED (JsonTextRoundTrip, reused): strings — every `String`, all escapes; structure — arrays, objects
   (keys re-inserted in sorted order), `null` / `true` / `false`; white space; the fuel of the parser;
   integers of magnitude below 10^15 are `numOK` for EVERY codec (`JText.numOK_int`).
   PROVED HERE: the values that are printed are parts of the inputs — `diff_valsP` (every predicate
   inherited by parts and blind to array tags that holds of `a` and `b` holds of every value of a
   list-mode v1 diff), `tok_pdoc` (the same for the rendered merge document), so that the codec
   hypotheses are about the INPUT documents, not about the diff; what the reader gets back is `untag`
   of what was printed (`rawNorm_listDoc`, `mnorm_listDoc`); `untag` commutes with RFC 7386
   (`untag_mergePatch`) and does not change `objVoidFree`, `Merge.Clean` (`clean_untag`);
   `Spec.opsOfJson` on the parsed document (`opsOfJson_opDocs`).
   HYPOTHESES (Bool-valued functions of the inputs):
    `JText.NumOK nc x`  every number `n` of `x` satisfies `JText.numOK nc n`: `fmtNum nc n = some s`, `s`
        is ONE token of the JSON number grammar and `parseNumToken nc s = some n`. `nc : NumCodec` is the
        graph of `strconv.FormatFloat` / `ParseFloat` on the tokens at hand, supplied by the harness: a
        parameter of the model, so this cannot be a theorem. NECESSARY: `Witness.numOK_needed_merge`,
        `Witness.numOK_needed_patch`, `Witness.numOK_a_needed_patch` (`null → 10^15`, `10^15 → null` with the codec that knows no token: the text is
        produced and the model's readers reject it; a remark on the model, not on Go).
    `Yaml.voidFree x`   no void node inside `x` and `x` is not void (what every reader produces). The
        value-level theorems need only `objVoidFree b` (merge) / `V1P.vfree` (patch: void allowed at the
        root). NECESSARY for the merge half beyond `objVoidFree`: `Witness.voidFree_needed_merge`
        (`b = [void]`: the text is `[""]`, RFC 7386 then yields `[""]`). For the patch half the
        difference to `vfree` is only "the root is not void" (`a` or `b` = "no document"); I did not
        decide whether the text theorems hold there — such an `a` is not the parse of any text.
   All other hypotheses are those of the value-level theorems (see their headers for witnesses).

  NOT PROVED: non-integral numbers (`NumOK` is a hypothesis for them); SET / MULTISET metadata; reading
  texts the model did not print; `a` or `b` void in the patch half.
-/
import JdModel
import JdSpec
import JdProofs.JsonTextRoundTrip
import JdProofs.V1MergeRender
import JdProofs.V1PatchRender
import JdProofs.V1SetDiffPatch

set_option linter.deprecated false
set_option linter.unusedVariables false

namespace Jd.V1T
open Jd Jd.Spec

/-! ## 1. what the text layer does to a list document: `untag` -/

mutual
theorem rawNorm_listDoc : ∀ v : Json, v.listDoc = true → V1.rawNorm v = untag v
  | .void, _ => rfl
  | .null, _ => rfl
  | .bool _, _ => rfl
  | .num _, _ => rfl
  | .str _, _ => rfl
  | .arr t xs, h => by
    simp only [Json.listDoc, Bool.and_eq_true] at h
    have ih := rawNormList_listDoc xs h.2
    cases t <;> simp_all [V1.rawNorm, untag]
  | .obj kvs, h => by
    simp only [Json.listDoc] at h
    simp [V1.rawNorm, untag, rawNormKvs_listDoc kvs h]
theorem rawNormList_listDoc : ∀ xs : List Json, listDocList xs = true → V1.rawNormList xs = untagList xs
  | [], _ => rfl
  | x :: r, h => by
    simp only [listDocList, Bool.and_eq_true] at h
    simp [V1.rawNormList, untagList, rawNorm_listDoc x h.1, rawNormList_listDoc r h.2]
theorem rawNormKvs_listDoc : ∀ kvs : List (String × Json), listDocKvs kvs = true →
    V1.rawNormKvs kvs = untagKvs kvs
  | [], _ => rfl
  | (k, v) :: r, h => by
    simp only [listDocKvs, Bool.and_eq_true] at h
    simp [V1.rawNormKvs, untagKvs, rawNorm_listDoc v h.1, rawNormKvs_listDoc r h.2]
end

mutual
theorem mnorm_listDoc : ∀ v : Json, v.listDoc = true → Yaml.voidFree v = true →
    JText.V1T.mnorm v = untag v
  | .void, _, h => by simp [Yaml.voidFree] at h
  | .null, _, _ => rfl
  | .bool _, _, _ => rfl
  | .num _, _, _ => rfl
  | .str _, _, _ => rfl
  | .arr t xs, h, hv => by
    simp only [Json.listDoc, Bool.and_eq_true] at h
    simp only [Yaml.voidFree] at hv
    simp [JText.V1T.mnorm, untag, mnormList_listDoc xs h.2 hv]
  | .obj kvs, h, _ => by
    simp only [JText.V1T.mnorm]
    exact rawNorm_listDoc _ h
theorem mnormList_listDoc : ∀ xs : List Json, listDocList xs = true → Yaml.voidFreeList xs = true →
    JText.V1T.mnormList xs = untagList xs
  | [], _, _ => rfl
  | x :: r, h, hv => by
    simp only [listDocList, Bool.and_eq_true] at h
    simp only [Yaml.voidFreeList, Bool.and_eq_true] at hv
    simp [JText.V1T.mnormList, untagList, mnorm_listDoc x h.1 hv.1, mnormList_listDoc r h.2 hv.2]
end

mutual
theorem vfree_of_voidFree : ∀ v : Json, Yaml.voidFree v = true → V1P.vfree v = true
  | .void, h => by simp [Yaml.voidFree] at h
  | .null, _ => rfl
  | .bool _, _ => rfl
  | .num _, _ => rfl
  | .str _, _ => rfl
  | .arr t xs, h => by
    simp only [Yaml.voidFree] at h
    simp only [V1P.vfree]; exact vfreeList_of_voidFree xs h
  | .obj kvs, h => by
    simp only [Yaml.voidFree] at h
    simp only [V1P.vfree]; exact vfreeKvs_of_voidFree kvs h
theorem vfreeList_of_voidFree : ∀ xs : List Json, Yaml.voidFreeList xs = true →
    V1P.vfreeList xs = true
  | [], _ => rfl
  | x :: r, h => by
    simp only [Yaml.voidFreeList, Bool.and_eq_true] at h
    have hx : x.isVoid = false := by
      cases x <;> simp_all [Yaml.voidFree, Json.isVoid]
    simp [V1P.vfreeList, hx, vfree_of_voidFree x h.1, vfreeList_of_voidFree r h.2]
theorem vfreeKvs_of_voidFree : ∀ kvs : List (String × Json), Yaml.voidFreeKvs kvs = true →
    V1P.vfreeKvs kvs = true
  | [], _ => rfl
  | (k, x) :: r, h => by
    simp only [Yaml.voidFreeKvs, Bool.and_eq_true] at h
    have hx : x.isVoid = false := by
      cases x <;> simp_all [Yaml.voidFree, Json.isVoid]
    simp [V1P.vfreeKvs, hx, vfree_of_voidFree x h.1, vfreeKvs_of_voidFree r h.2]
end

theorem voidFree_notVoid {v : Json} (h : Yaml.voidFree v = true) : v.isVoid = false := by
  cases v <;> simp_all [Yaml.voidFree, Json.isVoid]


/-! ## 2. JSON Patch: the diff with its values untagged -/

section Patch
open Jd.V1P Jd.V1R Jd.V1S

mutual
theorem finiteNums_untag : ∀ v : Json, (untag v).finiteNums = v.finiteNums
  | .void => rfl
  | .null => rfl
  | .bool _ => rfl
  | .num _ => rfl
  | .str _ => rfl
  | .arr t xs => by simp [untag, Json.finiteNums, finiteNumsList_untag xs]
  | .obj kvs => by simp [untag, Json.finiteNums, finiteNumsKvs_untag kvs]
theorem finiteNumsList_untag : ∀ xs : List Json, finiteNumsList (untagList xs) = finiteNumsList xs
  | [] => rfl
  | x :: r => by simp [untagList, finiteNumsList, finiteNums_untag x, finiteNumsList_untag r]
theorem finiteNumsKvs_untag : ∀ kvs : List (String × Json),
    finiteNumsKvs (untagKvs kvs) = finiteNumsKvs kvs
  | [] => rfl
  | (k, v) :: r => by simp [untagKvs, finiteNumsKvs, finiteNums_untag v, finiteNumsKvs_untag r]
end

/-- the hunk with its values through `untag` -/
def untagH (h : V1.Hunk) : V1.Hunk :=
  { path := h.path, old := h.old.map untag, new := h.new.map untag }

theorem singleValue_map_untag (l : List Json) :
    Json.singleValue (l.map untag) = untag (Json.singleValue l) := by
  cases l <;> rfl

theorem hk_untagH {h : V1.Hunk} (hk : HK h) : HK (untagH h) where
  hok := ⟨hk.hok.plain, by simpa [untagH] using hk.hok.old, by simpa [untagH] using hk.hok.new⟩
  nodash := hk.nodash
  ne := by
    simp only [untagH, singleValue_map_untag, untag_isVoid]
    exact hk.ne
  oldOK := by
    intro o ho
    simp only [untagH, List.mem_map] at ho
    obtain ⟨o', ho', rfl⟩ := ho
    obtain ⟨h1, h2, h3, h4⟩ := hk.oldOK o' ho'
    exact ⟨untag_listDoc o', by rw [untag_wf]; exact h2, by rw [finiteNums_untag]; exact h3,
      by rw [untag_isVoid]; exact h4⟩
  newOK := by
    intro o ho
    simp only [untagH, List.mem_map] at ho
    obtain ⟨o', ho', rfl⟩ := ho
    obtain ⟨h1, h2⟩ := hk.newOK o' ho'
    exact ⟨untag_listDoc o', by rw [untag_wf]; exact h2⟩
  newV := by
    rcases hk.newV with h | h
    · left
      intro o ho
      simp only [untagH, List.mem_map] at ho
      obtain ⟨o', ho', rfl⟩ := ho
      rw [untag_isVoid]; exact h o' ho'
    · right; exact h

theorem renderPatchHunk_untag (p : V1.PPath) (old new : List Json) (ops : List PatchOp)
    (e : V1.renderPatchHunk { path := p, old := old, new := new } = .ok ops) :
    V1.renderPatchHunk { path := p, old := old.map untag, new := new.map untag } =
      .ok (ops.map JText.untagOp) := by
  simp only [V1.renderPatchHunk] at e ⊢
  cases hw : V1.writePointer p with
  | err => rw [hw] at e; cases e
  | panic => rw [hw] at e; cases e
  | ok s =>
    rw [hw] at e
    simp only [Outcome.bind_ok, List.length_map, List.isEmpty_map] at e ⊢
    split at e
    · cases e
    · rename_i h1
      rw [if_neg h1]
      split at e
      · cases e
      · rename_i h2
        rw [if_neg h2]
        split at e
        · cases e
        · rename_i h3
          rw [if_neg h3]
          cases e
          match old, new with
          | [], [] => rfl
          | [], [v] => cases hv : v.isVoid <;> simp [JText.untagOp, untag_isVoid, hv] <;> rfl
          | [], _ :: _ :: _ => rfl
          | [o], [] => cases ho : o.isVoid <;> simp [JText.untagOp, untag_isVoid, ho] <;> rfl
          | [o], [v] =>
            cases ho : o.isVoid <;> cases hv : v.isVoid <;>
              simp [JText.untagOp, untag_isVoid, ho, hv] <;> rfl
          | [o], _ :: _ :: _ => cases ho : o.isVoid <;> simp [JText.untagOp, untag_isVoid, ho] <;> rfl
          | _ :: _ :: _, [] => rfl
          | _ :: _ :: _, [v] => cases hv : v.isVoid <;> simp [JText.untagOp, untag_isVoid, hv] <;> rfl
          | _ :: _ :: _, _ :: _ :: _ => rfl

theorem renderPatchOps_untag : ∀ (d : V1.VDiff) (ops : List PatchOp),
    V1.renderPatchOps (V1.liftDiff d) = .ok ops →
    V1.renderPatchOps (V1.liftDiff (d.map untagH)) = .ok (ops.map JText.untagOp)
  | [], ops, e => by
    simp only [V1.liftDiff, List.map_nil, V1.renderPatchOps, Outcome.ok.injEq] at e
    subst e; rfl
  | h :: d, ops, e => by
    simp only [V1.liftDiff, List.map_cons, V1.renderPatchOps] at e ⊢
    cases h1 : V1.renderPatchHunk h.toP with
    | err => rw [h1] at e; cases e
    | panic => rw [h1] at e; cases e
    | ok a =>
      rw [h1] at e
      simp only [Outcome.bind_ok] at e
      cases h2 : V1.renderPatchOps (List.map V1.Hunk.toP d) with
      | err => rw [h2] at e; cases e
      | panic => rw [h2] at e; cases e
      | ok b =>
        rw [h2] at e
        cases e
        have e1 := renderPatchHunk_untag _ _ _ a h1
        have e2 := renderPatchOps_untag d b h2
        simp only [V1.liftDiff] at e2
        have : (untagH h).toP = ⟨V1.liftPath h.path, h.old.map untag, h.new.map untag⟩ := rfl
        rw [this, e1, e2]
        simp only [Outcome.bind_ok, List.map_append]
        rfl


/-- a predicate on documents inherited by the parts of a document, whatever the array tags -/
structure Closed (P : Json → Prop) : Prop where
  elem : ∀ {t xs x}, P (.arr t xs) → x ∈ xs → P x
  member : ∀ {kvs k v}, P (.obj kvs) → (k, v) ∈ kvs → P v
  retag : ∀ {t xs} (t' : Tag), P (.arr t xs) → P (.arr t' xs)

theorem Closed.dispatch {P : Json → Prop} (C : Closed P) (m : V1.Metas) {y : Json} (h : P y) :
    P (V1.dispatch m y) := by
  cases y with
  | arr t ys => cases t <;> first | exact h | exact C.retag _ h
  | _ => exact h

/-- every value of the hunk satisfies `P` -/
def VP (P : Json → Prop) (h : V1.Hunk) : Prop := (∀ v ∈ h.old, P v) ∧ (∀ v ∈ h.new, P v)

theorem VP.shift {P : Json → Prop} {h : V1.Hunk} (g : VP P h) (p : List Json) : VP P (shift p h) := g

theorem vp_nodeList {P : Json → Prop} {a b : Json} (ha : a.isVoid = false → P a)
    (hb : b.isVoid = false → P b) (p : List Json) :
    VP P { path := p, old := a.nodeList, new := b.nodeList } :=
  ⟨fun v hv => by obtain ⟨rfl, h⟩ := nodeList_mem hv; exact ha h,
   fun v hv => by obtain ⟨rfl, h⟩ := nodeList_mem hv; exact hb h⟩

/-- **the values of a list-mode diff are parts of the two documents**: every predicate inherited by
    parts (and blind to array tags) that holds of `a` and `b` holds of every value of `a.Diff(b)` -/
theorem diff_valsP (P : Json → Prop) (C : Closed P) (m : V1.Metas) (hm : ListMode m) :
    (∀ a b, a.listDoc = true → b.listDoc = true → P a → P b →
      ∀ h ∈ V1.diffNode m false a b [], VP P h) ∧
    (∀ kvs' kvs, listDocKvs kvs' = true → listDocKvs kvs = true → (∀ k v, (k, v) ∈ kvs' → P v) →
      (∀ k v, (k, v) ∈ kvs → P v) → ∀ h ∈ V1.diffKvs m false [] kvs' kvs, VP P h) ∧
    (∀ ys xs, listDocList ys = true → listDocList xs = true → (∀ y ∈ ys, P y) →
      (∀ x ∈ xs, P x) → ∀ i, ∀ d ∈ V1.diffElems m false [] i ys xs, ∀ h ∈ d, VP P h) := by
  have := V1P.v1_induct m hm
    (mN := fun a b => P a → P b → ∀ h ∈ V1.diffNode m false a b [], VP P h)
    (mK := fun kvs' kvs => (∀ k v, (k, v) ∈ kvs' → P v) → (∀ k v, (k, v) ∈ kvs → P v) →
      ∀ h ∈ V1.diffKvs m false [] kvs' kvs, VP P h)
    (mE := fun ys xs => (∀ y ∈ ys, P y) → (∀ x ∈ xs, P x) →
      ∀ i, ∀ d ∈ V1.diffElems m false [] i ys xs, ∀ h ∈ d, VP P h)
    ?_ ?_ ?_ ?_ ?_ ?_ ?_ ?_ ?_ ?_
  · exact ⟨fun a b ha hb => this.1 a b ha hb, fun kvs' kvs h' h => this.2.1 kvs' kvs h' h,
      fun ys xs h' h => this.2.2 ys xs h' h⟩
  · intro t t' xs ys ht ht' htt hlx hly ih pa pb h hmem
    have pxs : ∀ x ∈ xs, P x := fun x hx => C.elem pa hx
    have pys : ∀ y ∈ ys, P y := fun y hy => C.elem pb hy
    rw [V1P.diffNode_arr_arr hm xs ys ht ht' htt] at hmem
    unfold V1P.listDiff at hmem
    split at hmem
    · rcases List.mem_append.1 hmem with hmem | hmem
      · obtain ⟨d, hd, hh⟩ := List.mem_flatten.1 hmem
        exact ih pys pxs 0 d hd h hh
      · obtain ⟨y, hy, rfl⟩ := List.mem_map.1 hmem
        have hy' := List.mem_of_mem_drop hy
        have := vp_nodeList (P := P) (a := .void) (b := y) (by simp [Json.isVoid])
          (fun _ => pys y hy') ([] ++ [V1.numNeg1])
        simpa [Json.nodeList, Json.isVoid] using this
    · rcases List.mem_append.1 hmem with hmem | hmem
      · obtain ⟨xi, hxi, rfl⟩ := List.mem_map.1 hmem
        have hx' : xi.1 ∈ xs := by
          have := List.mem_reverse.1 hxi
          exact List.mem_of_mem_drop (List.fst_mem_of_mem_zipIdx this)
        have := vp_nodeList (P := P) (a := xi.1) (b := .void) (fun _ => pxs _ hx')
          (by simp [Json.isVoid]) ([] ++ [V1.numOfNat xi.2])
        simpa [Json.nodeList, Json.isVoid] using this
      · obtain ⟨d, hd, hh⟩ := List.mem_flatten.1 hmem
        exact ih pys pxs 0 d (List.mem_reverse.1 hd) h hh
  · intro t xs b ht hlx hb hbb pa pb h hmem
    rw [V1P.diffNode_arr_other hm xs b ht hbb] at hmem
    simp only [List.mem_singleton] at hmem
    subst hmem
    have := vp_nodeList (P := P) (a := .arr .list xs) (b := b) (fun _ => C.retag _ pa)
      (fun _ => pb) []
    simpa [Json.nodeList, Json.isVoid] using this
  · intro kvs kvs' hl hl' ih pa pb h hmem
    rw [V1P.diffNode_obj_obj] at hmem
    rcases List.mem_append.1 hmem with hmem | hmem
    · exact ih (fun k v hkv => C.member pb hkv) (fun k v hkv => C.member pa hkv) h hmem
    · obtain ⟨kv, hkv, rfl⟩ := List.mem_map.1 hmem
      have hm' := (List.mem_filter.1 hkv).1
      have := vp_nodeList (P := P) (a := .void) (b := kv.2) (by simp [Json.isVoid])
        (fun _ => C.member pb hm') ([] ++ [.str kv.1])
      simpa [Json.nodeList, Json.isVoid] using this
  · intro kvs b hl hb hbb pa pb h hmem
    rw [V1P.diffNode_obj_other m kvs b hbb] at hmem
    simp only [List.mem_singleton] at hmem
    subst hmem
    exact ⟨fun v hv => by simp only [List.mem_singleton] at hv; subst hv; exact pa,
      fun v hv => by simp only [List.mem_singleton] at hv; subst hv; exact pb⟩
  · intro a b h1 h2 hb pa pb h hmem
    rw [V1P.diffNode_scalar m a b h1 h2] at hmem
    unfold V1.diffCommon at hmem
    split at hmem
    · cases hmem
    · simp only [Bool.false_eq_true, if_false, List.mem_singleton] at hmem
      subst hmem
      exact vp_nodeList (fun _ => pa) (fun _ => pb) []
  · intro kvs' _ _ h hmem
    simp [V1P.diffKvs_nil] at hmem
  · intro kvs' k v r hl' hv hlr ihN ihK pk' pk h hmem
    rw [V1P.diffKvs_cons] at hmem
    rcases List.mem_append.1 hmem with hmem | hmem
    · cases hlk : alookup k kvs' with
      | none =>
        rw [hlk] at hmem
        simp only [List.mem_singleton] at hmem
        subst hmem
        have := vp_nodeList (P := P) (a := v) (b := .void) (fun _ => pk k v List.mem_cons_self)
          (by simp [Json.isVoid]) ([] ++ [.str k])
        simpa [Json.nodeList, Json.isVoid] using this
      | some v' =>
        rw [hlk] at hmem
        simp only [] at hmem
        rw [V1P.diffNode_at hm v v' hv (alookup_listDoc hlk hl')] at hmem
        obtain ⟨h0, hh0, rfl⟩ := List.mem_map.1 hmem
        exact (ihN v' (alookup_listDoc hlk hl') (pk k v List.mem_cons_self)
          (pk' k v' (mem_of_alookup hlk)) h0 hh0).shift _
    · exact ihK pk' (fun k' v' hkv => pk k' v' (List.mem_cons_of_mem _ hkv)) h hmem
  · intro ys _ _ i d hd
    simp [V1P.diffElems_nil] at hd
  · intro x xs _ _ i d hd
    simp [V1P.diffElems_nil'] at hd
  · intro x xs y ys hx hlx hy hly ihN ihE pys pxs i d hd h hh
    rw [V1P.diffElems_cons] at hd
    rcases List.mem_cons.1 hd with rfl | hd
    · rw [V1P.diffNode_at hm x _ hx (V1P.dispatch_listDoc hm hy)] at hh
      obtain ⟨h0, hh0, rfl⟩ := List.mem_map.1 hh
      exact (ihN (pxs x List.mem_cons_self) (C.dispatch m (pys y List.mem_cons_self)) h0 hh0).shift _
    · exact ihE (fun y' hy' => pys y' (List.mem_cons_of_mem _ hy'))
        (fun x' hx' => pxs x' (List.mem_cons_of_mem _ hx')) (i + 1) d hd h hh


/-- the part of the codec domain that is inherited by parts: no void inside, every number
    round-trips through the number codec -/
def TOK (nc : NumCodec) (v : Json) : Prop := Yaml.voidFree v = true ∧ JText.NumOK nc v = true

theorem voidFreeList_mem : ∀ {xs : List Json} {x : Json}, Yaml.voidFreeList xs = true → x ∈ xs →
    Yaml.voidFree x = true
  | y :: r, x, h, hx => by
    simp only [Yaml.voidFreeList, Bool.and_eq_true] at h
    rcases List.mem_cons.1 hx with rfl | hx
    · exact h.1
    · exact voidFreeList_mem h.2 hx

theorem voidFreeKvs_mem : ∀ {kvs : List (String × Json)} {k : String} {x : Json},
    Yaml.voidFreeKvs kvs = true → (k, x) ∈ kvs → Yaml.voidFree x = true
  | (k', y) :: r, k, x, h, hx => by
    simp only [Yaml.voidFreeKvs, Bool.and_eq_true] at h
    rcases List.mem_cons.1 hx with e | hx
    · cases e; exact h.1
    · exact voidFreeKvs_mem h.2 hx

theorem numOKList_mem (nc : NumCodec) : ∀ {xs : List Json} {x : Json},
    JText.NumOKList nc xs = true → x ∈ xs → JText.NumOK nc x = true
  | y :: r, x, h, hx => by
    simp only [JText.NumOKList, Bool.and_eq_true] at h
    rcases List.mem_cons.1 hx with rfl | hx
    · exact h.1
    · exact numOKList_mem nc h.2 hx

theorem numOKKvs_mem (nc : NumCodec) : ∀ {kvs : List (String × Json)} {k : String} {x : Json},
    JText.NumOKKvs nc kvs = true → (k, x) ∈ kvs → JText.NumOK nc x = true
  | (k', y) :: r, k, x, h, hx => by
    simp only [JText.NumOKKvs, Bool.and_eq_true] at h
    rcases List.mem_cons.1 hx with e | hx
    · cases e; exact h.1
    · exact numOKKvs_mem nc h.2 hx

theorem TOK.closed (nc : NumCodec) : Closed (TOK nc) where
  elem := by
    intro t xs x h hx
    simp only [TOK, Yaml.voidFree, JText.NumOK] at h
    exact ⟨voidFreeList_mem h.1 hx, numOKList_mem nc h.2 hx⟩
  member := by
    intro kvs k v h hx
    simp only [TOK, Yaml.voidFree, JText.NumOK] at h
    exact ⟨voidFreeKvs_mem h.1 hx, numOKKvs_mem nc h.2 hx⟩
  retag := by
    intro t xs t' h
    simpa only [TOK, Yaml.voidFree, JText.NumOK] using h

/-- the values of the operations are values of the hunks -/
theorem renderPatchHunk_vals {Q : Json → Prop} (p : V1.PPath) (old new : List Json)
    (ops : List PatchOp) (e : V1.renderPatchHunk { path := p, old := old, new := new } = .ok ops)
    (ho : ∀ v ∈ old, Q v) (hn : ∀ v ∈ new, Q v) : ∀ o ∈ ops, Q o.value := by
  simp only [V1.renderPatchHunk] at e
  cases hw : V1.writePointer p with
  | err => rw [hw] at e; cases e
  | panic => rw [hw] at e; cases e
  | ok s =>
    rw [hw] at e
    simp only [Outcome.bind_ok] at e
    split at e
    · cases e
    · split at e
      · cases e
      · split at e
        · cases e
        · cases e
          intro o hmem
          rcases List.mem_append.1 hmem with hmem | hmem
          · match old, ho with
            | [], _ => simp at hmem
            | [v], ho =>
              have hq := ho v (by simp)
              simp only at hmem
              split at hmem
              · simp at hmem
              · simp only [List.mem_cons, List.not_mem_nil, or_false] at hmem
                rcases hmem with rfl | rfl <;> exact hq
            | _ :: _ :: _, _ => simp at hmem
          · match new, hn with
            | [], _ => simp at hmem
            | [v], hn =>
              have hq := hn v (by simp)
              simp only at hmem
              split at hmem
              · simp at hmem
              · simp only [List.mem_cons, List.not_mem_nil, or_false] at hmem
                rcases hmem with rfl; exact hq
            | _ :: _ :: _, _ => simp at hmem

theorem renderPatchOps_vals {Q : Json → Prop} : ∀ (d : V1.VDiff) (ops : List PatchOp),
    V1.renderPatchOps (V1.liftDiff d) = .ok ops → (∀ h ∈ d, VP Q h) → ∀ o ∈ ops, Q o.value
  | [], ops, e, _ => by
    simp only [V1.liftDiff, List.map_nil, V1.renderPatchOps, Outcome.ok.injEq] at e
    subst e; simp
  | h :: d, ops, e, hd => by
    simp only [V1.liftDiff, List.map_cons, V1.renderPatchOps] at e
    cases h1 : V1.renderPatchHunk h.toP with
    | err => rw [h1] at e; cases e
    | panic => rw [h1] at e; cases e
    | ok a =>
      rw [h1] at e
      simp only [Outcome.bind_ok] at e
      cases h2 : V1.renderPatchOps (List.map V1.Hunk.toP d) with
      | err => rw [h2] at e; cases e
      | panic => rw [h2] at e; cases e
      | ok b =>
        rw [h2] at e
        cases e
        intro o ho
        rcases List.mem_append.1 ho with ho | ho
        · exact renderPatchHunk_vals _ _ _ a h1 (hd h List.mem_cons_self).1
            (hd h List.mem_cons_self).2 o ho
        · exact renderPatchOps_vals d b h2 (fun h' hh' => hd h' (List.mem_cons_of_mem _ hh')) o ho

/-- the independent decoder of a JSON Patch document (`Spec.opsOfJson`, JdSpec/Rfc6902.lean) on the
    document the printed text parses to -/
theorem opsOfJson_opDocs (ops : List PatchOp) :
    Spec.opsOfJson (.arr .raw (ops.map JText.V1T.opDoc)) =
      some ((ops.map JText.V1T.normOp).map PatchOp.toSpec) := by
  simp only [Spec.opsOfJson]
  induction ops with
  | nil => rfl
  | cons p r ih =>
    simp only [List.map_cons, List.mapM_cons, ih]
    simp [JText.V1T.opDoc, JText.V1T.normOp, alookup, PatchOp.toSpec]


/-- the printed JSON Patch text and what it parses to -/
theorem renderPatchM_parse (nc : NumCodec) (d : V1.PDiff) (ops : List PatchOp)
    (hops : V1.renderPatchOps d = .ok ops) (hok : ∀ p ∈ ops, JText.mOK nc p.value = true) :
    ∃ text, V1.renderPatchM nc d = .ok (some text) ∧
      parseJson nc text = some (.arr .raw (ops.map JText.V1T.opDoc)) := by
  have hp : JText.preOK nc (.arr .raw (ops.map JText.V1T.opDoc)) = true := by
    simp only [JText.preOK]; exact JText.V1T.preOKList_opDocs nc ops hok
  have hr : (Json.arr .raw (ops.map JText.V1T.opDoc)).rawDoc = true := by
    simp [Json.rawDoc, JText.V1T.rawDocList_opDocs]
  obtain ⟨text, ht⟩ := JText.jsonText_some nc _ hp
  exact ⟨text, by rw [JText.V1T.renderPatchM_eq, hops]; simp only [ht],
    JText.parseJson_text' nc _ text hp hr ht⟩

/-- everything the two text-level theorems share -/
theorem patch_core (L : FloatLaws) {N : Nat} (I : IdxLaws N) (nc : NumCodec)
    (m : V1.Metas) (hm : ListMode m) (a b : Json)
    (ha1 : a.listDoc = true) (ha2 : a.wf = true) (ha3 : a.finiteNums = true)
    (ha4 : Yaml.voidFree a = true) (ha5 : lenLe N a = true) (ha6 : JText.NumOK nc a = true)
    (hb1 : b.listDoc = true) (hb2 : b.wf = true) (hb3 : b.finiteNums = true)
    (hb4 : Yaml.voidFree b = true) (hb6 : JText.NumOK nc b = true)
    (hdash : ∀ h ∈ V1.diffM m a b, noDashP h.path = true) :
    ∃ ops text r0 r',
      V1.renderPatchOps (V1.liftDiff (V1.diffM m a b)) = .ok ops ∧
      V1.renderPatchM nc (V1.liftDiff (V1.diffM m a b)) = .ok (some text) ∧
      parseJson nc text = some (.arr .raw (ops.map JText.V1T.opDoc)) ∧
      ops.map JText.V1T.normOp = ops.map JText.untagOp ∧
      V1.renderPatchOps (V1.liftDiff ((V1.diffM m a b).map untagH)) = .ok (ops.map JText.untagOp) ∧
      V1.patchAll a (V1.diffM m a b) = .ok r0 ∧
      V1.patchAll a ((V1.diffM m a b).map untagH) = .ok r' ∧
      untag r' = untag r0 ∧ r'.listDoc = true ∧ specEq r0 b = true ∧ specEq b r0 = true ∧
      (∀ h ∈ (V1.diffM m a b).map untagH, HK h ∧ V1R.idxP N h.path) := by
  have hd : V1.diffM m a b = V1.diffNode m false a b [] := by
    unfold V1.diffM; rw [hm.noMerge]
  have va := vfree_of_voidFree a ha4
  have vb := vfree_of_voidFree b hb4
  have hbv := voidFree_notVoid hb4
  rw [hd] at hdash ⊢
  have hHK : ∀ h ∈ V1.diffNode m false a b [], HK h ∧ V1R.idxP N h.path := fun h hh =>
    diff_HK m hm a b ha1 ha2 ha3 va ha5 hb1 hb2 hb3 vb h hh (hdash h hh)
  have hVH : ∀ h ∈ V1.diffNode m false a b [], HOK h ∧ VH h := fun h hh =>
    ⟨(hHK h hh).1.hok, (diff_vals m hm).1 a b ha1 hb1 va vb hbv h hh⟩
  have hT : ∀ h ∈ V1.diffNode m false a b [], VP (TOK nc) h :=
    (diff_valsP (TOK nc) (TOK.closed nc) m hm).1 a b ha1 hb1 ⟨ha4, ha6⟩ ⟨hb4, hb6⟩
  obtain ⟨r0, p1, p2, p3⟩ := (diff_correct L I m hm).1 a b ha1 hb1 (Dom.mk' ha1 ha2 ha3 va)
    (Dom.mk' hb1 hb2 hb3 vb) ha5
  obtain ⟨ops, hr, _, _, _, _⟩ := diff_sim L _ ha1 ha2 rfl (fun h hh => (hHK h hh).1) p1
  -- the values of the operations
  have hQ : ∀ h ∈ V1.diffNode m false a b [],
      VP (fun v => v.listDoc = true ∧ v.wf = true ∧ TOK nc v) h := by
    intro h hh
    have hk := (hHK h hh).1
    exact ⟨fun v hv => ⟨(hk.oldOK v hv).1, (hk.oldOK v hv).2.1, (hT h hh).1 v hv⟩,
      fun v hv => ⟨(hk.newOK v hv).1, (hk.newOK v hv).2, (hT h hh).2 v hv⟩⟩
  have hvals := renderPatchOps_vals _ ops hr hQ
  have hok : ∀ p ∈ ops, JText.mOK nc p.value = true := by
    intro p hp
    obtain ⟨_, h2, h3, h4⟩ := hvals p hp
    apply JText.mOK_of_preOK
    rw [JText.preOK_iff, h2, h3, h4]; rfl
  obtain ⟨text, ht1, ht2⟩ := renderPatchM_parse nc _ ops hr hok
  have hnorm : ops.map JText.V1T.normOp = ops.map JText.untagOp := by
    apply List.map_congr_left
    intro p hp
    obtain ⟨h1, _, h3, _⟩ := hvals p hp
    simp only [JText.V1T.normOp, JText.untagOp, mnorm_listDoc _ h1 h3]
  -- the untagged diff
  have hnd : normDiff (V1.diffNode m false a b []) = (V1.diffNode m false a b []).map untagH := by
    unfold normDiff
    apply List.map_congr_left
    intro h hh
    rw [normHunk_plain (hVH h hh).1 (hVH h hh).2]; rfl
  have hs := sim_patchAll _ hVH a a ⟨rfl, ha1, ha1⟩
  rw [p1, hnd] at hs
  cases hp : V1.patchAll a ((V1.diffNode m false a b []).map untagH) with
  | err => rw [hp] at hs; exact absurd hs (by simp [RelO])
  | panic => rw [hp] at hs; exact absurd hs (by simp [RelO])
  | ok r' =>
    rw [hp] at hs
    have hs' : Rl r0 r' := hs
    refine ⟨ops, text, r0, r', hr, ht1, ht2, hnorm, renderPatchOps_untag _ ops hr, p1, rfl,
      hs'.1.symm, hs'.2.2, p2.1, p2.2, ?_⟩
    intro h hh
    obtain ⟨h0, hh0, rfl⟩ := List.mem_map.1 hh
    exact ⟨hk_untagH (hHK h0 hh0).1, (hHK h0 hh0).2⟩


/-- **C18, JSON Patch half, clause 1 at the TEXT level.** The text `Diff.RenderPatch()` returns for a
    list-mode v1 diff is produced (`.ok (some text)`), parses (`parseJson` = `json.Unmarshal`) to a
    document which the INDEPENDENT decoder `Spec.opsOfJson` reads as a list of RFC 6902 operations, and
    the independent evaluator `Spec.eval` applied to `a` yields a document structurally equal to `b`. -/
theorem v1_patch_text_rfc (L : FloatLaws) {N : Nat} (I : IdxLaws N) (nc : NumCodec)
    (m : V1.Metas) (hm : ListMode m) (a b : Json)
    (ha1 : a.listDoc = true) (ha2 : a.wf = true) (ha3 : a.finiteNums = true)
    (ha4 : Yaml.voidFree a = true) (ha5 : lenLe N a = true) (ha6 : JText.NumOK nc a = true)
    (hb1 : b.listDoc = true) (hb2 : b.wf = true) (hb3 : b.finiteNums = true)
    (hb4 : Yaml.voidFree b = true) (hb6 : JText.NumOK nc b = true)
    (hdash : ∀ h ∈ V1.diffM m a b, noDashP h.path = true) :
    ∃ text doc sops r,
      V1.renderPatchM nc (V1.liftDiff (V1.diffM m a b)) = .ok (some text) ∧
      parseJson nc text = some doc ∧ Spec.opsOfJson doc = some sops ∧
      (∀ o ∈ sops, o.op = "test" ∨ o.op = "remove" ∨ o.op = "add") ∧
      eval a sops = some r ∧ specEq r b = true ∧ specEq b r = true := by
  obtain ⟨ops, text, r0, r', hr, ht1, ht2, hnorm, hru, p1, hp', hu, hl', s1, s2, hHK⟩ :=
    patch_core L I nc m hm a b ha1 ha2 ha3 ha4 ha5 ha6 hb1 hb2 hb3 hb4 hb6 hdash
  obtain ⟨ops', hr', hwf, _, _, r, hev, hur⟩ := diff_sim L _ ha1 ha2 rfl
    (fun h hh => (hHK h hh).1) hp'
  rw [hru] at hr'
  cases hr'
  refine ⟨text, _, _, r, ht1, ht2, opsOfJson_opDocs ops, ?_, by rw [hnorm]; exact hev, ?_, ?_⟩
  · intro o ho
    rw [hnorm] at ho
    obtain ⟨o', ho', rfl⟩ := List.mem_map.1 ho
    exact hwf o' ho'
  · rw [← specEq_untag_left, hur, hu, specEq_untag_left]; exact s1
  · rw [← specEq_untag_right, hur, hu, specEq_untag_right]; exact s2

/-- **C18, JSON Patch half, clause 2 at the TEXT level.** `ReadPatchString` of the text
    `Diff.RenderPatch()` returns succeeds, and `a.Patch` of the diff read succeeds with a document
    that the v1 `Equals` (and `specEq`) identifies with `b`. -/
theorem v1_patch_text_readback (L : FloatLaws) {N : Nat} (I : IdxLaws N) (hN : N ≤ 2 ^ 63)
    (nc : NumCodec) (m : V1.Metas) (hm : ListMode m) (a b : Json)
    (ha1 : a.listDoc = true) (ha2 : a.wf = true) (ha3 : a.finiteNums = true)
    (ha4 : Yaml.voidFree a = true) (ha5 : lenLe N a = true) (ha6 : JText.NumOK nc a = true)
    (hb1 : b.listDoc = true) (hb2 : b.wf = true) (hb3 : b.finiteNums = true)
    (hb4 : Yaml.voidFree b = true) (hb6 : JText.NumOK nc b = true)
    (hdash : ∀ h ∈ V1.diffM m a b, noDashP h.path = true) :
    ∃ text d' r,
      V1.renderPatchM nc (V1.liftDiff (V1.diffM m a b)) = .ok (some text) ∧
      V1.readPatchM nc text = .ok d' ∧ V1.patchP a d' = .ok r ∧
      V1.equals m r b = true ∧ specEq r b = true ∧ specEq b r = true := by
  obtain ⟨ops, text, r0, r', hr, ht1, ht2, hnorm, hru, p1, hp', hu, hl', s1, s2, hHK⟩ :=
    patch_core L I nc m hm a b ha1 ha2 ha3 ha4 ha5 ha6 hb1 hb2 hb3 hb4 hb6 hdash
  obtain ⟨ops', hr', hrd, hpp⟩ := diff_readBack L I hN _ ha1 ha2 hHK hp'
  rw [hru] at hr'
  cases hr'
  have hloop := hrd.loop ((ops.map JText.untagOp).length + 1) [] (Nat.lt_succ_of_le hrd.length_le)
  have s1' : specEq r' b = true := by rw [← specEq_untag_left, hu, specEq_untag_left]; exact s1
  refine ⟨text, _, r', ht1, ?_, hpp, ?_, s1', ?_⟩
  · simp only [V1.readPatchM, ht2, V1.readPatchDoc, V1.patchOpsOfJson,
      JText.V1T.patchOpsOfJson_go_opDocs, hnorm]
    simpa using hloop
  · rw [v1_equals_eq_specEq hm hl' hb1]; exact s1'
  · rw [← specEq_untag_right, hu, specEq_untag_right]; exact s2

end Patch


/-! ## 3. JSON Merge Patch -/

section Merge
open Jd.Merge Jd.V1M

/-! ### 3.1 `untag` on merge patch documents -/

theorem untag_isNull (v : Json) : (untag v).isNull = v.isNull := by
  cases v <;> rfl

theorem objKvs_untag (t : Json) : objKvs (untag t) = untagKvs (objKvs t) := by
  cases t <;> simp [objKvs, untag, untagKvs]

mutual
theorem untag_mergePatch : ∀ (p t : Json), untag (mergePatch t p) = mergePatch (untag t) (untag p)
  | .obj pkvs, t => by
    have e : untag (Json.obj pkvs) = .obj (untagKvs pkvs) := by simp [untag]
    rw [e, mergePatch_obj, mergePatch_obj, objKvs_untag, ← untagKvs_mergeMembers pkvs (objKvs t)]
    simp [untag]
  | .arr tg xs, t => by simp [mergePatch, untag]
  | .void, _ => by simp [mergePatch, untag]
  | .null, _ => by simp [mergePatch, untag]
  | .bool _, _ => by simp [mergePatch, untag]
  | .num _, _ => by simp [mergePatch, untag]
  | .str _, _ => by simp [mergePatch, untag]
theorem untagKvs_mergeMembers : ∀ (pkvs t : List (String × Json)),
    untagKvs (mergeMembers t pkvs) = mergeMembers (untagKvs t) (untagKvs pkvs)
  | [], t => by simp [mergeMembers, untagKvs]
  | (k, v) :: r, t => by
    have e : untagKvs ((k, v) :: r) = (k, untag v) :: untagKvs r := by simp [untagKvs]
    rw [e, mergeMembers_cons, mergeMembers_cons, untag_isNull, untagKvs_mergeMembers r]
    split
    · rw [untagKvs_aerase]
    · rw [untagKvs_ainsert, untag_mergePatch v, V1S.untag_getK]
end

mutual
theorem objVoidFree_untag : ∀ v : Json, objVoidFree (untag v) = objVoidFree v
  | .void => rfl
  | .null => rfl
  | .bool _ => rfl
  | .num _ => rfl
  | .str _ => rfl
  | .arr _ _ => by simp [untag, objVoidFree]
  | .obj kvs => by simp [untag, objVoidFree, objVoidFreeKvs_untag kvs]
theorem objVoidFreeKvs_untag : ∀ kvs : List (String × Json),
    objVoidFreeKvs (untagKvs kvs) = objVoidFreeKvs kvs
  | [] => rfl
  | (k, v) :: r => by simp [untagKvs, objVoidFreeKvs, objVoidFree_untag v, objVoidFreeKvs_untag r]
end

theorem untagKvs_isEmpty (kvs : List (String × Json)) : (untagKvs kvs).isEmpty = kvs.isEmpty := by
  cases kvs with
  | nil => rfl
  | cons kv r => obtain ⟨k, v⟩ := kv; simp [untagKvs]

mutual
theorem cleanIn_untag : ∀ (p t : Json), cleanIn t (untag p) = cleanIn t p
  | .obj pkvs, t => by
    have e : untag (Json.obj pkvs) = .obj (untagKvs pkvs) := by simp [untag]
    rw [e, cleanIn, cleanIn, untagKvs_isEmpty, cleanKvs_untag pkvs]
  | .arr _ _, _ => by simp [untag, cleanIn]
  | .void, _ => rfl
  | .null, _ => rfl
  | .bool _, _ => rfl
  | .num _, _ => rfl
  | .str _, _ => rfl
theorem cleanKvs_untag : ∀ (pkvs tkvs : List (String × Json)),
    cleanKvs tkvs (untagKvs pkvs) = cleanKvs tkvs pkvs
  | [], _ => rfl
  | (k, v) :: r, tkvs => by
    simp only [untagKvs, cleanKvs, cleanIn_untag v, cleanKvs_untag r]
end

theorem clean_untag (t p : Json) : Clean t (untag p) = Clean t p := by
  cases p with
  | obj pkvs =>
    cases pkvs with
    | nil => rfl
    | cons kv r =>
      obtain ⟨k, v⟩ := kv
      have := cleanIn_untag (.obj ((k, v) :: r)) t
      simpa [Clean, untag, untagKvs] using this
  | arr _ _ => simp [untag, Clean, cleanIn]
  | void => rfl
  | null => rfl
  | bool _ => rfl
  | num _ => rfl
  | str _ => rfl


/-! ### 3.2 the rendered patch document is made of parts of `b` -/

theorem tok_of_members (nc : NumCodec) : ∀ (kvs : List (String × Json)),
    (∀ k v, (k, v) ∈ kvs → TOK nc v) → TOK nc (.obj kvs)
  | [], _ => ⟨rfl, rfl⟩
  | (k, v) :: r, h => by
    have h1 := h k v List.mem_cons_self
    have h2 := tok_of_members nc r (fun k' v' hm => h k' v' (List.mem_cons_of_mem _ hm))
    simp only [TOK, Yaml.voidFree, JText.NumOK] at h2
    simp only [TOK, Yaml.voidFree, Yaml.voidFreeKvs, JText.NumOK, JText.NumOKKvs, h1.1, h1.2,
      h2.1, h2.2, Bool.and_self]
    exact ⟨trivial, trivial⟩

theorem tok_null (nc : NumCodec) : TOK nc .null := ⟨rfl, rfl⟩

theorem tok_putKvs (nc : NumCodec) (k : String) {c : Json} {kvs : List (String × Json)}
    (hc : c.isVoid = false → TOK nc c) (h : TOK nc (.obj kvs)) : TOK nc (.obj (putKvs k c kvs)) := by
  apply tok_of_members
  intro k' v' hm
  unfold putKvs at hm
  split at hm
  · exact (TOK.closed nc).member h (mem_aerase hm)
  · rename_i hv
    rcases mem_ainsert hm with e | hm'
    · cases e; exact hc (by simpa using hv)
    · exact (TOK.closed nc).member h hm'

theorem tok_getK (nc : NumCodec) (k : String) {kvs : List (String × Json)}
    (h : TOK nc (.obj kvs)) (hv : (getK k kvs).isVoid = false) : TOK nc (getK k kvs) := by
  unfold getK at hv ⊢
  cases hl : alookup k kvs with
  | none => rw [hl] at hv; simp [Json.isVoid] at hv
  | some v => exact (TOK.closed nc).member h (mem_of_alookup hl)

theorem tok_nest (nc : NumCodec) : ∀ (ks : List String) {v : Json}, TOK nc v → TOK nc (nest ks v)
  | [], _, h => h
  | k :: rest, v, h => by
    simp only [nest]
    exact tok_putKvs nc k (fun _ => tok_nest nc rest h) (tok_of_members nc [] (by simp))

theorem tok_mset (nc : NumCodec) : ∀ (ks : List String) (t : Json) {v : Json},
    (∀ kvs, t = .obj kvs → TOK nc t) → TOK nc v → TOK nc (mset t ks v)
  | [], t, v, _, hv => by cases t <;> simpa [mset] using hv
  | k :: rest, t, v, ht, hv => by
    cases t with
    | obj kvs =>
      have hk := ht kvs rfl
      simp only [mset]
      apply tok_putKvs nc k _ hk
      intro _
      apply tok_mset nc rest _ _ hv
      intro kvs2 e
      exact tok_getK nc k hk (by rw [e]; rfl)
    | arr tg xs => simpa [mset] using tok_nest nc (k :: rest) hv
    | void => simpa [mset] using tok_nest nc (k :: rest) hv
    | null => simpa [mset] using tok_nest nc (k :: rest) hv
    | bool _ => simpa [mset] using tok_nest nc (k :: rest) hv
    | num _ => simpa [mset] using tok_nest nc (k :: rest) hv
    | str _ => simpa [mset] using tok_nest nc (k :: rest) hv

theorem tok_mapply (nc : NumCodec) : ∀ (l : List (List String × Json)) (t : Json),
    (∀ kvs, t = .obj kvs → TOK nc t) → (∀ e ∈ l, TOK nc e.2) → l ≠ [] → TOK nc (mapply l t)
  | [], _, _, _, hne => absurd rfl hne
  | e :: l, t, ht, hl, _ => by
    have h1 := tok_mset nc e.1 t ht (hl e List.mem_cons_self)
    simp only [mapply, List.foldl_cons]
    cases l with
    | nil => exact h1
    | cons e' l' =>
      exact tok_mapply nc (e' :: l') _ (fun _ _ => h1)
        (fun x hx => hl x (List.mem_cons_of_mem _ hx)) (by simp)

mutual
theorem dl_vals (nc : NumCodec) (o : Opts) : ∀ (a b : Json), TOK nc b →
    ∀ e ∈ dl o a b, e.2.isVoid = true ∨ TOK nc e.2
  | .obj kvs, b, hb, e, he => by
    cases b with
    | obj kvs' =>
      rw [dl_obj_obj] at he
      rcases List.mem_append.1 he with he | he
      · exact dlKvs_vals nc o kvs' (fun k v hm => (TOK.closed nc).member hb hm) kvs e he
      · obtain ⟨kv, hkv, rfl⟩ := List.mem_map.1 he
        exact .inr ((TOK.closed nc).member hb (List.mem_filter.1 hkv).1)
    | _ =>
      rw [dl_obj_other o kvs rfl] at he
      simp only [List.mem_singleton] at he
      subst he; exact .inr hb
  | .arr t xs, b, hb, e, he => by
    cases b with
    | arr t' ys =>
      rw [dl_arr_arr] at he
      split at he
      · cases he
      · simp only [List.mem_singleton] at he
        subst he; exact .inr ((TOK.closed nc).retag _ hb)
    | _ =>
      rw [dl_arr_other o t xs rfl] at he
      simp only [List.mem_singleton] at he
      subst he; exact .inr hb
  | .void, b, hb, e, he => by
    rw [dl_scalar o rfl rfl] at he
    split at he
    · cases he
    · simp only [List.mem_singleton] at he; subst he; exact .inr hb
  | .null, b, hb, e, he => by
    rw [dl_scalar o rfl rfl] at he
    split at he
    · cases he
    · simp only [List.mem_singleton] at he; subst he; exact .inr hb
  | .bool _, b, hb, e, he => by
    rw [dl_scalar o rfl rfl] at he
    split at he
    · cases he
    · simp only [List.mem_singleton] at he; subst he; exact .inr hb
  | .num _, b, hb, e, he => by
    rw [dl_scalar o rfl rfl] at he
    split at he
    · cases he
    · simp only [List.mem_singleton] at he; subst he; exact .inr hb
  | .str _, b, hb, e, he => by
    rw [dl_scalar o rfl rfl] at he
    split at he
    · cases he
    · simp only [List.mem_singleton] at he; subst he; exact .inr hb
theorem dlKvs_vals (nc : NumCodec) (o : Opts) (kvs' : List (String × Json))
    (hb : ∀ k v, (k, v) ∈ kvs' → TOK nc v) : ∀ (kvs : List (String × Json)),
    ∀ e ∈ dlKvs o kvs' kvs, e.2.isVoid = true ∨ TOK nc e.2
  | [], e, he => by simp [dlKvs] at he
  | (k, v) :: r, e, he => by
    simp only [dlKvs] at he
    rcases List.mem_append.1 he with he | he
    · cases hl : alookup k kvs' with
      | none =>
        rw [hl] at he
        simp only [List.mem_singleton] at he
        subst he; exact .inl rfl
      | some v' =>
        rw [hl] at he
        obtain ⟨e0, he0, rfl⟩ := List.mem_map.1 he
        exact dl_vals nc o v v' (hb k v' (mem_of_alookup hl)) e0 he0
    · exact dlKvs_vals nc o kvs' hb r e he
end

theorem tok_pdoc (nc : NumCodec) (a b : Json) (hb : TOK nc b) (hd : dl [] a b ≠ []) :
    TOK nc (pdoc a b) := by
  unfold pdoc rl
  apply tok_mapply nc _ _ (fun kvs e => by cases e)
  · intro e he
    obtain ⟨e0, he0, rfl⟩ := List.mem_map.1 he
    rcases dl_vals nc [] a b hb e0 he0 with h | h
    · simp only [nulE, h, if_true]; exact tok_null nc
    · have : e0.2.isVoid = false := voidFree_notVoid h.1
      simp only [nulE, this]; exact h
  · simpa using hd


/-! ### 3.3 the text-level theorems -/

mutual
theorem objVoidFree_of_voidFree : ∀ v : Json, Yaml.voidFree v = true → objVoidFree v = true
  | .void, h => by simp [Yaml.voidFree] at h
  | .null, _ => rfl
  | .bool _, _ => rfl
  | .num _, _ => rfl
  | .str _, _ => rfl
  | .arr _ _, _ => rfl
  | .obj kvs, h => by
    simp only [Yaml.voidFree] at h
    simp only [objVoidFree]; exact objVoidFreeKvs_of_voidFree kvs h
theorem objVoidFreeKvs_of_voidFree : ∀ kvs : List (String × Json), Yaml.voidFreeKvs kvs = true →
    objVoidFreeKvs kvs = true
  | [], _ => rfl
  | (k, v) :: r, h => by
    simp only [Yaml.voidFreeKvs, Bool.and_eq_true] at h
    simp [objVoidFreeKvs, objVoidFree_of_voidFree v h.1, objVoidFreeKvs_of_voidFree r h.2]
end

/-- the text of a NON-EMPTY v1 merge diff: it is produced, it is the JSON text of the rendered patch
    document `pdoc a b`, and both `json.Unmarshal` and `ReadMergeString` get `untag (pdoc a b)` (the
    same document with every array a plain `jsonArray`) out of it -/
theorem merge_text_core (L : FloatLaws) (nc : NumCodec) {m : V1.Metas} (hm : MergeMode m)
    (a b : Json) (haw : a.wf = true) (har : a.rawDoc = true)
    (hbw : b.wf = true) (hbr : b.rawDoc = true) (hbn : b.nullFree = true)
    (hbf : b.finiteNums = true) (hbv : Yaml.voidFree b = true) (hbN : JText.NumOK nc b = true)
    (hd : dl [] a b ≠ []) :
    ∃ text, V1.renderMergeM nc (V1.liftDiff (V1.diffM m a b)) = .ok (some text) ∧
      parseJson nc text = some (untag (pdoc a b)) ∧
      V1.readMergeM nc text = .ok (V1.readMergeDoc (untag (pdoc a b))) := by
  have hov := objVoidFree_of_voidFree b hbv
  have G : GoodB b := ⟨hbw, hbr, hbn, hov, hbf⟩
  have Qp := xnode L a haw har b G hd
  have hT := tok_pdoc nc a b ⟨hbv, hbN⟩ hd
  have hp : JText.preOK nc (pdoc a b) = true := by rw [JText.preOK_iff, Qp.wf, hT.1, hT.2]; rfl
  have hrd : V1.renderMergeDoc (V1.liftDiff (V1.diffM m a b)) = .ok (pdoc a b) := by
    rw [renderMergeDoc_diffM hm a b har haw (rawDoc_listDoc b hbr) hbw hov, if_neg hd]; rfl
  have hne : (V1.liftDiff (V1.diffM m a b)).isEmpty = false := by
    rw [diffM_eq_dl hm a b har haw (rawDoc_listDoc b hbr) hbw hov]
    cases h : dl [] a b with
    | nil => exact absurd h hd
    | cons e l => simp [V1.liftDiff]
  obtain ⟨s, h1, h2⟩ := JText.V1T.readMergeM_renderMergeM nc _ _ hrd (Or.inr hp)
  obtain ⟨s', j1, j2⟩ := JText.V1T.jsonM_parse nc (pdoc a b) Qp.wf hT.1 hT.2
  have hss : s = s' := by
    have := v1_renderMergeM_eq nc _ _ hrd hne
    rw [h1, j1] at this
    cases this; rfl
  subst hss
  rw [rawNorm_listDoc _ Qp.ld] at h2 j2
  exact ⟨s, h1, j2, h2⟩

theorem mergePatch_untag_right {a : Json} (har : a.rawDoc = true) (p : Json) :
    mergePatch a (untag p) = untag (mergePatch a p) := by
  rw [untag_mergePatch, V1S.untag_rawDoc a har]

/-- **C18, merge half, clause 1 at the TEXT level.** For documents as read from JSON text, `b`
    null-free, that the v1 `Equals` tells apart: `Diff.RenderMerge()` returns a text, that text parses
    (`parseJson` = `json.Unmarshal`) to a document `p` (not void, not `null`), and RFC 7386
    `MergePatch(a, p)` is `b`. -/
theorem v1_merge_text_rfc (L : FloatLaws) (nc : NumCodec) {m : V1.Metas} (hm : MergeMode m)
    (a b : Json) (haw : a.wf = true) (har : a.rawDoc = true)
    (hbw : b.wf = true) (hbr : b.rawDoc = true) (hbn : b.nullFree = true)
    (hbf : b.finiteNums = true) (hbv : Yaml.voidFree b = true) (hbN : JText.NumOK nc b = true)
    (hne : V1.equals m a b = false) :
    ∃ text p, V1.renderMergeM nc (V1.liftDiff (V1.diffM m a b)) = .ok (some text) ∧
      parseJson nc text = some p ∧ p.isVoid = false ∧ p.isNull = false ∧
      specEq (mergePatch a p) b = true := by
  have hov := objVoidFree_of_voidFree b hbv
  have G : GoodB b := ⟨hbw, hbr, hbn, hov, hbf⟩
  have hd := dl_ne_nil_of_ne L hm haw har G hne
  have S := (sound L [] rfl rfl a haw har b G).2 hd
  obtain ⟨text, h1, h2, _⟩ := merge_text_core L nc hm a b haw har hbw hbr hbn hbf hbv hbN hd
  refine ⟨text, _, h1, h2, ?_, ?_, ?_⟩
  · rw [untag_isVoid]; exact S.1
  · rw [untag_isNull]; exact S.2.1
  · rw [mergePatch_untag_right har, specEq_untag_left]; exact S.2.2

/-- **C18, merge half, clause 2 at the TEXT level.** Under the same hypotheses and not (`a` a
    non-object and `b = {}`): `ReadMergeString` of the text `Diff.RenderMerge()` returns succeeds, and
    `a.Patch` of the diff read succeeds with EXACTLY RFC 7386 `MergePatch(a, p)` for the parsed patch
    document `p`, which the v1 `Equals` (and `specEq`) identifies with `b`. -/
theorem v1_merge_text_readback (L : FloatLaws) (nc : NumCodec) {m : V1.Metas} (hm : MergeMode m)
    (a b : Json) (haw : a.wf = true) (har : a.rawDoc = true)
    (hbw : b.wf = true) (hbr : b.rawDoc = true) (hbn : b.nullFree = true)
    (hbf : b.finiteNums = true) (hbv : Yaml.voidFree b = true) (hbN : JText.NumOK nc b = true)
    (hne : V1.equals m a b = false) (hab : a.isObj = true ∨ b ≠ .obj []) :
    ∃ text p d r, V1.renderMergeM nc (V1.liftDiff (V1.diffM m a b)) = .ok (some text) ∧
      parseJson nc text = some p ∧
      V1.readMergeM nc text = .ok d ∧ V1.patchM a d = .ok r ∧ r = mergePatch a p ∧
      V1.equals m r b = true ∧ specEq r b = true ∧ r.listDoc = true := by
  have hov := objVoidFree_of_voidFree b hbv
  have G : GoodB b := ⟨hbw, hbr, hbn, hov, hbf⟩
  have hd := dl_ne_nil_of_ne L hm haw har G hne
  have S := (sound L [] rfl rfl a haw har b G).2 hd
  obtain ⟨c1, c2, c3, c4⟩ := pdoc_clean L a b haw har G hd hab
  obtain ⟨text, h1, h2, h3⟩ := merge_text_core L nc hm a b haw har hbw hbr hbn hbf hbv hbN hd
  have hs : specEq (mergePatch a (untag (pdoc a b))) b = true := by
    rw [mergePatch_untag_right har, specEq_untag_left]; exact S.2.2
  have hl : (mergePatch a (untag (pdoc a b))).listDoc = true := by
    rw [mergePatch_untag_right har]; exact untag_listDoc _
  refine ⟨text, _, _, _, h1, h2, h3, ?_, rfl, ?_, hs, hl⟩
  · exact v1_merge_read_apply a _ haw (by rw [untag_wf]; exact c1)
      (by rw [objVoidFree_untag]; exact c2) (by rw [clean_untag]; exact c4)
  · rw [equals_eq_equivB hm hl (rawDoc_listDoc b hbr)]; exact hs

end Merge


/-! ## 4. decidable input conditions, witnesses, non-vacuity -/

section Final
open Jd.Merge Jd.V1M Jd.V1P Jd.V1R

/-- clause 1 of the JSON Patch half with the decidable key condition on the inputs -/
theorem v1_patch_text_rfc_noDash (L : FloatLaws) {N : Nat} (I : IdxLaws N) (nc : NumCodec)
    (m : V1.Metas) (hm : ListMode m) (a b : Json)
    (ha1 : a.listDoc = true) (ha2 : a.wf = true) (ha3 : a.finiteNums = true)
    (ha4 : Yaml.voidFree a = true) (ha5 : lenLe N a = true) (ha6 : JText.NumOK nc a = true)
    (hb1 : b.listDoc = true) (hb2 : b.wf = true) (hb3 : b.finiteNums = true)
    (hb4 : Yaml.voidFree b = true) (hb6 : JText.NumOK nc b = true)
    (hda : noDash a = true) (hdb : noDash b = true) :
    ∃ text doc sops r,
      V1.renderPatchM nc (V1.liftDiff (V1.diffM m a b)) = .ok (some text) ∧
      parseJson nc text = some doc ∧ Spec.opsOfJson doc = some sops ∧
      (∀ o ∈ sops, o.op = "test" ∨ o.op = "remove" ∨ o.op = "add") ∧
      eval a sops = some r ∧ specEq r b = true ∧ specEq b r = true :=
  v1_patch_text_rfc L I nc m hm a b ha1 ha2 ha3 ha4 ha5 ha6 hb1 hb2 hb3 hb4 hb6
    (noDash_diffM m hm a b ha1 hb1 hda hdb)

/-- clause 2 of the JSON Patch half with the decidable key condition on the inputs -/
theorem v1_patch_text_readback_noDash (L : FloatLaws) {N : Nat} (I : IdxLaws N) (hN : N ≤ 2 ^ 63)
    (nc : NumCodec) (m : V1.Metas) (hm : ListMode m) (a b : Json)
    (ha1 : a.listDoc = true) (ha2 : a.wf = true) (ha3 : a.finiteNums = true)
    (ha4 : Yaml.voidFree a = true) (ha5 : lenLe N a = true) (ha6 : JText.NumOK nc a = true)
    (hb1 : b.listDoc = true) (hb2 : b.wf = true) (hb3 : b.finiteNums = true)
    (hb4 : Yaml.voidFree b = true) (hb6 : JText.NumOK nc b = true)
    (hda : noDash a = true) (hdb : noDash b = true) :
    ∃ text d' r,
      V1.renderPatchM nc (V1.liftDiff (V1.diffM m a b)) = .ok (some text) ∧
      V1.readPatchM nc text = .ok d' ∧ V1.patchP a d' = .ok r ∧
      V1.equals m r b = true ∧ specEq r b = true ∧ specEq b r = true :=
  v1_patch_text_readback L I hN nc m hm a b ha1 ha2 ha3 ha4 ha5 ha6 hb1 hb2 hb3 hb4 hb6
    (noDash_diffM m hm a b ha1 hb1 hda hdb)

/-! ### witnesses -/

namespace Witness
open Jd.NativeRT (exCodec)

/-- 10^15 as a binary64: printed by the model itself, read back only through the codec -/
def big : Json := .num 0x430C6BF526340000

theorem dl_null (b : Json) (hb : b ≠ .null) (hv : b.isVoid = false) :
    dl [] .null b = [([], b)] := by
  cases b <;> simp_all [dl, equals, Json.isVoid, Json.isNull]

theorem merge_doc_big : V1.renderMergeDoc (V1.liftDiff (V1.diffM [.merge] .null big)) = .ok big := by
  rw [renderMergeDoc_diffM MergeMode.single .null _ rfl rfl rfl rfl rfl]
  have h := dl_null big (by simp [big]) rfl
  simp only [rl, h]
  simp [nulE, mapply, mset, Json.isVoid, big]

theorem merge_nonempty (b : Json) (hb : b ≠ .null) (hv : b.isVoid = false)
    (h1 : b.listDoc = true) (h2 : b.wf = true) (h3 : objVoidFree b = true) :
    (V1.liftDiff (V1.diffM [.merge] .null b)).isEmpty = false := by
  rw [diffM_eq_dl MergeMode.single .null b rfl rfl h1 h2 h3, dl_null b hb hv]
  rfl

/-- **`NumOK nc b` is necessary (merge half)**: `null → 10^15` with the codec that knows no token:
    every other hypothesis of `v1_merge_text_rfc` holds, the text `1000000000000000` is produced, and
    neither `json.Unmarshal` nor `ReadMergeString` of the model reads it (the model's own integer
    parser stops at 15 digits; in the harness — and in Go — the token is in the graph of the codec) -/
theorem numOK_needed_merge :
    big.wf = true ∧ big.rawDoc = true ∧ big.nullFree = true ∧ big.finiteNums = true ∧
    Yaml.voidFree big = true ∧ V1.equals [.merge] .null big = false ∧
    JText.NumOK exCodec big = false ∧
    V1.renderMergeM exCodec (V1.liftDiff (V1.diffM [.merge] .null big))
      = .ok (some "1000000000000000") ∧
    parseJson exCodec "1000000000000000" = none ∧
    V1.readMergeM exCodec "1000000000000000" = .err := by
  refine ⟨by decide, by decide, by decide, by decide +kernel, by decide, ?_,
    JText.numOK_1e15_emptyCodec, ?_, by decide +kernel, ?_⟩
  · simp [V1.equals, big, Json.isNull]
  · rw [v1_renderMergeM_eq exCodec _ big merge_doc_big
      (merge_nonempty big (by simp [big]) rfl rfl rfl rfl)]
    exact congrArg Outcome.ok (by decide +kernel)
  · have h1 : parseJson exCodec "1000000000000000" = none := by decide +kernel
    have h2 : (trimGoSpace "1000000000000000").isEmpty = false := by decide +kernel
    simp only [V1.readMergeM, readJsonM, h1, h2]
    rfl

def bigOps : List PatchOp :=
  [{ op := "test", path := "", value := .null }, { op := "remove", path := "", value := .null },
   { op := "add", path := "", value := big }]

theorem patch_diff_big :
    V1.diffM [] .null big = [{ path := [], old := [.null], new := [big] }] := by
  simp only [V1.diffM, V1.hasMerge]
  rw [V1P.diffNode_scalar _ _ _ (by intro _ _ h; cases h) (by intro _ h; cases h)]
  simp [V1.diffCommon, V1.equals, big, Json.nodeList, Json.isVoid, Json.isNull]

theorem patch_ops_big :
    V1.renderPatchOps (V1.liftDiff [{ path := [], old := [.null], new := [big] }]) = .ok bigOps := rfl

def bigText : String :=
  "[{\"op\":\"test\",\"path\":\"\",\"value\":null},{\"op\":\"remove\",\"path\":\"\",\"value\":null},{\"op\":\"add\",\"path\":\"\",\"value\":1000000000000000}]"

/-- **`NumOK nc b` is necessary (JSON Patch half)**: the same pair in list mode: the text is
    produced and `ReadPatchString` of the model rejects it -/
theorem numOK_needed_patch :
    JText.NumOK exCodec big = false ∧
    V1.renderPatchM exCodec (V1.liftDiff (V1.diffM [] .null big)) = .ok (some bigText) ∧
    parseJson exCodec bigText = none ∧ V1.readPatchM exCodec bigText = .err := by
  have hp : parseJson exCodec bigText = none := by decide +kernel
  refine ⟨JText.numOK_1e15_emptyCodec, ?_, hp, by simp [V1.readPatchM, hp]⟩
  rw [patch_diff_big]
  have h := JText.V1T.renderPatchM_eq exCodec
    (V1.liftDiff [{ path := [], old := [.null], new := [big] }])
  rw [patch_ops_big] at h
  rw [h]
  exact congrArg Outcome.ok (by decide +kernel)

def bigOpsA : List PatchOp :=
  [{ op := "test", path := "", value := big }, { op := "remove", path := "", value := big },
   { op := "add", path := "", value := .null }]

theorem patch_diff_bigA :
    V1.diffM [] big .null = [{ path := [], old := [big], new := [.null] }] := by
  simp only [V1.diffM, V1.hasMerge]
  rw [V1P.diffNode_scalar _ _ _ (by intro _ _ h; cases h) (by intro _ h; cases h)]
  simp [V1.diffCommon, V1.equals, big, Json.nodeList, Json.isVoid, Json.isNull]

theorem patch_ops_bigA :
    V1.renderPatchOps (V1.liftDiff [{ path := [], old := [big], new := [.null] }]) = .ok bigOpsA := rfl

def bigTextA : String :=
  "[{\"op\":\"test\",\"path\":\"\",\"value\":1000000000000000},{\"op\":\"remove\",\"path\":\"\",\"value\":1000000000000000},{\"op\":\"add\",\"path\":\"\",\"value\":null}]"

/-- **`NumOK nc a` is necessary too (JSON Patch half)**: the removed value is printed in the `test`
    and `remove` operations: `10^15 → null` -/
theorem numOK_a_needed_patch :
    JText.NumOK exCodec big = false ∧ JText.NumOK exCodec .null = true ∧
    V1.renderPatchM exCodec (V1.liftDiff (V1.diffM [] big .null)) = .ok (some bigTextA) ∧
    parseJson exCodec bigTextA = none ∧ V1.readPatchM exCodec bigTextA = .err := by
  have hp : parseJson exCodec bigTextA = none := by decide +kernel
  refine ⟨JText.numOK_1e15_emptyCodec, rfl, ?_, hp, by simp [V1.readPatchM, hp]⟩
  rw [patch_diff_bigA]
  have h := JText.V1T.renderPatchM_eq exCodec
    (V1.liftDiff [{ path := [], old := [big], new := [.null] }])
  rw [patch_ops_bigA] at h
  rw [h]
  exact congrArg Outcome.ok (by decide +kernel)

/-- `[void]`: a value no reader produces, allowed by `objVoidFree` (the hypothesis of the value-level
    merge theorems) but not by `Yaml.voidFree` -/
def bv : Json := .arr .raw [.void]

theorem merge_doc_bv : V1.renderMergeDoc (V1.liftDiff (V1.diffM [.merge] .null bv)) = .ok bv := by
  rw [renderMergeDoc_diffM MergeMode.single .null _ rfl rfl rfl rfl rfl]
  have h := dl_null bv (by simp [bv]) rfl
  simp only [rl, h]
  simp [nulE, mapply, mset, Json.isVoid, bv]

/-- **`Yaml.voidFree b` (instead of `objVoidFree b`) is necessary for the text level**: for
    `b = [void]` every hypothesis of the value-level theorem `V1M.v1_merge_render_correct` holds, but
    the text is `[""]` (Go's `raw()` of void is the empty string), which parses to `[""]`, and
    RFC 7386 then yields `[""]`, not `b`. (Not a defect: `[void]` is not a document.) -/
theorem voidFree_needed_merge (nc : NumCodec) :
    bv.wf = true ∧ bv.rawDoc = true ∧ bv.nullFree = true ∧ bv.finiteNums = true ∧
    objVoidFree bv = true ∧ JText.NumOK nc bv = true ∧ Yaml.voidFree bv = false ∧
    V1.renderMergeM nc (V1.liftDiff (V1.diffM [.merge] .null bv)) = .ok (some "[\"\"]") ∧
    parseJson nc "[\"\"]" = some (.arr .raw [.str ""]) ∧
    specEq (mergePatch .null (.arr .raw [.str ""])) bv = false := by
  refine ⟨by decide, by decide, by decide, by decide, by decide, rfl, by decide, ?_,
    (JText.void_inside_not_roundtripped nc).2, ?_⟩
  · rw [v1_renderMergeM_eq nc _ bv merge_doc_bv (merge_nonempty bv (by simp [bv]) rfl rfl rfl rfl)]
    have : V1.jsonM nc bv = some "[\"\"]" := by
      simp [V1.jsonM, bv, V1.rawNorm, V1.rawNormList, jsonText, jsonTextList]
    rw [this]
  · simp [specEq, equivB, mergePatch, bv, equivList, dispatchTag]

end Witness


/-- **the exclusion of clause 2 of the merge half, at the TEXT level** (known finding KF-C12-emptyobj,
    class (a), v1 library): for EVERY first document `a` that is not an object (as read from text)
    and `b = {}`, with any number codec: the documents differ, `RenderMerge` returns the text `{}`,
    that text parses to `{}` and RFC 7386 applied to `a` gives `{}` = `b` (clause 1 holds), but
    `ReadMergeString("{}")` is the EMPTY diff and `a.Patch` of it returns `a`. -/
theorem v1_text_witness_readback_nonobj_to_empty_object (nc : NumCodec) {m : V1.Metas}
    (hm : MergeMode m) (a : Json) (haw : a.wf = true) (har : a.rawDoc = true)
    (hobj : a.isObj = false) :
    V1.equals m a (.obj []) = false ∧
    V1.renderMergeM nc (V1.liftDiff (V1.diffM m a (.obj []))) = .ok (some "{}") ∧
    parseJson nc "{}" = some (.obj []) ∧ mergePatch a (.obj []) = .obj [] ∧
    V1.readMergeM nc "{}" = .ok [] ∧ V1.patchM a [] = .ok a := by
  obtain ⟨h1, h2, h3, _⟩ := v1_witness_readback_nonobj_to_empty_object hm a haw har hobj
  have hp : parseJson nc "{}" = some (.obj []) :=
    JText.parseJson_text' nc (.obj []) "{}" rfl rfl rfl
  refine ⟨h1, ?_, hp, h3, ?_, rfl⟩
  · unfold V1.renderMergeM
    split
    · rfl
    · rw [h2]; rfl
  · have h2 : (trimGoSpace "{}").isEmpty = false := by decide +kernel
    simp only [V1.readMergeM, readJsonM, hp, h2]
    rfl

/-- the text `{}`: what `json.Unmarshal` and `ReadMergeString` make of it -/
theorem empty_object_text (nc : NumCodec) :
    parseJson nc "{}" = some (.obj []) ∧ V1.readMergeM nc "{}" = .ok [] := by
  have hp : parseJson nc "{}" = some (.obj []) :=
    JText.parseJson_text' nc (.obj []) "{}" rfl rfl rfl
  have h2 : (trimGoSpace "{}").isEmpty = false := by decide +kernel
  refine ⟨hp, ?_⟩
  simp only [V1.readMergeM, readJsonM, hp, h2]
  rfl

/-- clause 1 of the merge half at the text level without the hypothesis "that differ" when the first
    document is an object (the empty diff is rendered as the text `{}`, the identity on objects) -/
theorem v1_merge_text_rfc_obj (L : FloatLaws) (nc : NumCodec) {m : V1.Metas} (hm : MergeMode m)
    (a b : Json) (haw : a.wf = true) (har : a.rawDoc = true)
    (hbw : b.wf = true) (hbr : b.rawDoc = true) (hbn : b.nullFree = true)
    (hbf : b.finiteNums = true) (hbv : Yaml.voidFree b = true) (hbN : JText.NumOK nc b = true)
    (hobj : a.isObj = true) :
    ∃ text p, V1.renderMergeM nc (V1.liftDiff (V1.diffM m a b)) = .ok (some text) ∧
      parseJson nc text = some p ∧ p.isVoid = false ∧ p.isNull = false ∧
      specEq (mergePatch a p) b = true := by
  have hov := objVoidFree_of_voidFree b hbv
  have G : GoodB b := ⟨hbw, hbr, hbn, hov, hbf⟩
  have S := sound L [] rfl rfl a haw har b G
  by_cases hd : dl [] a b = []
  · have hmp : mergePatch a (.obj []) = a := by
      cases a <;> simp_all [Json.isObj, mergePatch, mergeMembers]
    refine ⟨"{}", .obj [], ?_, (empty_object_text nc).1, rfl, rfl, by rw [hmp]; exact S.1 hd⟩
    rw [diffM_eq_dl hm a b har haw (rawDoc_listDoc b hbr) hbw hov, hd]
    rfl
  · have S2 := S.2 hd
    obtain ⟨text, h1, h2, _⟩ := merge_text_core L nc hm a b haw har hbw hbr hbn hbf hbv hbN hd
    refine ⟨text, _, h1, h2, ?_, ?_, ?_⟩
    · rw [untag_isVoid]; exact S2.1
    · rw [untag_isNull]; exact S2.2.1
    · rw [mergePatch_untag_right har, specEq_untag_left]; exact S2.2.2

/-- clause 2 of the merge half at the text level without the hypothesis "that differ" when the first
    document is an object (the text `{}` is read back as the empty diff) -/
theorem v1_merge_text_readback_obj (L : FloatLaws) (nc : NumCodec) {m : V1.Metas}
    (hm : MergeMode m) (a b : Json) (haw : a.wf = true) (har : a.rawDoc = true)
    (hbw : b.wf = true) (hbr : b.rawDoc = true) (hbn : b.nullFree = true)
    (hbf : b.finiteNums = true) (hbv : Yaml.voidFree b = true) (hbN : JText.NumOK nc b = true)
    (hobj : a.isObj = true) :
    ∃ text p d r, V1.renderMergeM nc (V1.liftDiff (V1.diffM m a b)) = .ok (some text) ∧
      parseJson nc text = some p ∧
      V1.readMergeM nc text = .ok d ∧ V1.patchM a d = .ok r ∧ r = mergePatch a p ∧
      V1.equals m r b = true ∧ specEq r b = true ∧ r.listDoc = true := by
  have hov := objVoidFree_of_voidFree b hbv
  have G : GoodB b := ⟨hbw, hbr, hbn, hov, hbf⟩
  have S := sound L [] rfl rfl a haw har b G
  by_cases hd : dl [] a b = []
  · have hmp : mergePatch a (.obj []) = a := by
      cases a <;> simp_all [Json.isObj, mergePatch, mergeMembers]
    have hl := rawDoc_listDoc a har
    refine ⟨"{}", .obj [], [], a, ?_, (empty_object_text nc).1, (empty_object_text nc).2, rfl,
      hmp.symm, ?_, S.1 hd, hl⟩
    · rw [diffM_eq_dl hm a b har haw (rawDoc_listDoc b hbr) hbw hov, hd]
      rfl
    · rw [equals_eq_equivB hm hl (rawDoc_listDoc b hbr)]; exact S.1 hd
  · have S2 := S.2 hd
    obtain ⟨c1, c2, c3, c4⟩ := pdoc_clean L a b haw har G hd (Or.inl hobj)
    obtain ⟨text, h1, h2, h3⟩ := merge_text_core L nc hm a b haw har hbw hbr hbn hbf hbv hbN hd
    have hs : specEq (mergePatch a (untag (pdoc a b))) b = true := by
      rw [mergePatch_untag_right har, specEq_untag_left]; exact S2.2.2
    have hl : (mergePatch a (untag (pdoc a b))).listDoc = true := by
      rw [mergePatch_untag_right har]; exact untag_listDoc _
    refine ⟨text, _, _, _, h1, h2, h3, ?_, rfl, ?_, hs, hl⟩
    · exact v1_merge_read_apply a _ haw (by rw [untag_wf]; exact c1)
        (by rw [objVoidFree_untag]; exact c2) (by rw [clean_untag]; exact c4)
    · rw [equals_eq_equivB hm hl (rawDoc_listDoc b hbr)]; exact hs

/-! ### non-vacuity -/

namespace Example
open Jd.NativeRT (exCodec)

theorem numOK_two : JText.numOK exCodec 0x4000000000000000 = true :=
  JText.numOK_exCodec_int _ 2 (by decide) (by decide) (by decide)

/-- the merge pair of JdProofs/V1MergeRender.lean (`{"a":{"b":"x","c":null},"d":["p"],"f":[{"g":1}]}`
    → `{"a":{"b":"y"},"e":{"h":{}},"f":[{"g":1}]}`) satisfies the two additional text hypotheses for
    the codec that knows no token -/
theorem merge_hyps : Yaml.voidFree V1M.Example.exB = true ∧
    JText.NumOK exCodec V1M.Example.exB = true := by
  refine ⟨by decide, ?_⟩
  simp [V1M.Example.exB, JText.NumOK, JText.NumOKKvs, JText.NumOKList, JText.numOK_one]

example (L : FloatLaws) :
    ∃ text p d r,
      V1.renderMergeM exCodec (V1.liftDiff (V1.diffM [.merge] V1M.Example.exA V1M.Example.exB))
        = .ok (some text) ∧
      parseJson exCodec text = some p ∧
      V1.readMergeM exCodec text = .ok d ∧ V1.patchM V1M.Example.exA d = .ok r ∧
      r = mergePatch V1M.Example.exA p ∧
      V1.equals [.merge] r V1M.Example.exB = true ∧ specEq r V1M.Example.exB = true ∧
      r.listDoc = true := by
  obtain ⟨h0, h1, h2, h3, h4, h5, _, h7, h8, h9⟩ := V1M.Example.hyps
  exact v1_merge_text_readback L exCodec h0 _ _ h1 h2 h3 h4 h5 h7 merge_hyps.1 merge_hyps.2 h8 h9

example (L : FloatLaws) :
    ∃ text p,
      V1.renderMergeM exCodec (V1.liftDiff (V1.diffM [.merge] V1M.Example.exA V1M.Example.exB))
        = .ok (some text) ∧
      parseJson exCodec text = some p ∧ p.isVoid = false ∧ p.isNull = false ∧
      specEq (mergePatch V1M.Example.exA p) V1M.Example.exB = true := by
  obtain ⟨h0, h1, h2, h3, h4, h5, _, h7, h8, _⟩ := V1M.Example.hyps
  exact v1_merge_text_rfc L exCodec h0 _ _ h1 h2 h3 h4 h5 h7 merge_hyps.1 merge_hyps.2 h8

/-- the JSON Patch pair of JdProofs/V1PatchRender.lean (`{"0":[1,2],"1":1,"a/b~c":{"7":1},"k":2}` and
    `{"0":[2],"2":1,"a/b~c":{"+5":1,"7":2},"k":[]}`: integer-looking keys, a key needing both escapes)
    satisfies the additional text hypotheses -/
theorem patch_hyps : Yaml.voidFree V1R.Example.exA = true ∧ JText.NumOK exCodec V1R.Example.exA = true ∧
    Yaml.voidFree V1R.Example.exB = true ∧ JText.NumOK exCodec V1R.Example.exB = true := by
  refine ⟨by decide, ?_, by decide, ?_⟩
  · simp [V1R.Example.exA, V1R.Example.one, V1R.Example.two, JText.NumOK, JText.NumOKKvs,
      JText.NumOKList, JText.numOK_one, numOK_two]
  · simp [V1R.Example.exB, V1R.Example.one, V1R.Example.two, JText.NumOK, JText.NumOKKvs,
      JText.NumOKList, JText.numOK_one, numOK_two]

example (L : FloatLaws) (I : IdxLaws 8) :
    ∃ text doc sops r,
      V1.renderPatchM exCodec (V1.liftDiff (V1.diffM [] V1R.Example.exA V1R.Example.exB))
        = .ok (some text) ∧
      parseJson exCodec text = some doc ∧ Spec.opsOfJson doc = some sops ∧
      (∀ o ∈ sops, o.op = "test" ∨ o.op = "remove" ∨ o.op = "add") ∧
      eval V1R.Example.exA sops = some r ∧ specEq r V1R.Example.exB = true ∧
      specEq V1R.Example.exB r = true := by
  obtain ⟨h1, h2, h3, _, h5, h6, h7, h8, h9, _, _, h12⟩ := V1R.Example.hyps
  exact v1_patch_text_rfc_noDash L I exCodec [] ListMode.nil _ _ h1 h2 h3 patch_hyps.1 h5
    patch_hyps.2.1 h7 h8 h9 patch_hyps.2.2.1 patch_hyps.2.2.2 h6 h12

example (L : FloatLaws) (I : IdxLaws 8) :
    ∃ text d' r,
      V1.renderPatchM exCodec
        (V1.liftDiff (V1.diffM [.setkeys ["a"]] V1R.Example.exB V1R.Example.exA)) = .ok (some text) ∧
      V1.readPatchM exCodec text = .ok d' ∧ V1.patchP V1R.Example.exB d' = .ok r ∧
      V1.equals [.setkeys ["a"]] r V1R.Example.exA = true ∧ specEq r V1R.Example.exA = true ∧
      specEq V1R.Example.exA r = true := by
  obtain ⟨h1, h2, h3, _, _, h6, h7, h8, h9, _, h11, h12⟩ := V1R.Example.hyps
  exact v1_patch_text_readback_noDash L I (by decide) exCodec _ (ListMode.setkeys ["a"]) _ _
    h7 h8 h9 patch_hyps.2.2.1 h11 patch_hyps.2.2.2 h1 h2 h3 patch_hyps.1 patch_hyps.2.1 h12 h6

end Example

end Final

end Jd.V1T

#print axioms Jd.V1T.v1_merge_text_rfc
#print axioms Jd.V1T.v1_merge_text_readback
#print axioms Jd.V1T.v1_merge_text_rfc_obj
#print axioms Jd.V1T.v1_merge_text_readback_obj
#print axioms Jd.V1T.merge_text_core
#print axioms Jd.V1T.v1_text_witness_readback_nonobj_to_empty_object
#print axioms Jd.V1T.v1_patch_text_rfc
#print axioms Jd.V1T.v1_patch_text_readback
#print axioms Jd.V1T.v1_patch_text_rfc_noDash
#print axioms Jd.V1T.v1_patch_text_readback_noDash
#print axioms Jd.V1T.patch_core
#print axioms Jd.V1T.diff_valsP
#print axioms Jd.V1T.tok_pdoc
#print axioms Jd.V1T.untag_mergePatch
#print axioms Jd.V1T.Witness.numOK_needed_merge
#print axioms Jd.V1T.Witness.numOK_needed_patch
#print axioms Jd.V1T.Witness.numOK_a_needed_patch
#print axioms Jd.V1T.Witness.voidFree_needed_merge
#print axioms Jd.V1T.Example.merge_hyps
#print axioms Jd.V1T.Example.patch_hyps
