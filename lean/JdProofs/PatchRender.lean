/-
  JdProofs.PatchRender — property C09: the JSON Patch jd renders from a list-mode diff
  (`renderPatchHunk` / `renderPatchOps`, the model of `Diff.RenderPatch`) is a well-formed RFC 6902
  document which, evaluated by the independent evaluator `Jd.Spec.eval` (JdSpec.Rfc6902), does what
  the native diff does (reference semantics `applyStrict` / `applyStrictAll`, JdSpec.HunkSem, proved
  equal to the library's patch in JdProofs.StrictPatch).

  DIRECTION PROVED: wherever the native diff applies, the JSON Patch applies too, with the same
  result up to the Go dynamic type of array nodes (`untag`). The converse is not claimed.

  Main results
    1(a) `decodeToken_ptrEscape`      escape then RFC 6901 decoding is the identity
    1(b) `writePointerPath_ok`        accepted paths: keys (not number-like, not "-") and indices only;
                                      the text written is `/esc(t₁)/esc(t₂)…` for the tokens `ptoks p`
         `ptrOK_of_range`             … and `parsePointer` of it is `some (ptoks p)`
         `writePointerPath_refuses`   set / multiset / keyed elements, number-like keys, key "-": refused
         `floatTrunc_intToFloatBits`  the Int → float64 → Int conversion is the identity for |i| < 2^53
    1(c) `arrayIndex_toString`        decimal text of i ≥ 0 is an RFC 6901 array index denoting i
    2    `renderPatchHunk_correct`    one hunk (root, object member, list index; with context tests)
    3    `renderPatchOps_correct`     a whole diff
    4    `renderPatchHunk_wfOps`, `renderPatchOps_wfOps`, `renderPatchHunk_paths_parse`
  Findings (proved counterexamples, end of file): `cex_append_reversed`, `cex_append_context`.

  Hypotheses and why:
    * `FloatLaws` (IEEE-754 symmetry of |a-b|): a context test compares document value with hunk value
      in the other order than the reference semantics does;
    * `c.wf` (object keys strictly increasing = Go map): `remove k; add k` on an association list with
      unsorted keys moves the member;
    * `HunkOK`: removed/added values are not the void marker (list-mode diffs), contexts and added
      values are well-formed, and a hunk at index -1 (append) adds at most one value and has no real
      context line (both restrictions are necessary: see the findings);
    * `HunkRange`: indices written are of magnitude < 2^53 (they travel through a float64).
  Batteries is imported for the validity lemmas on byte positions needed by `String.splitOn`.
-/
import JdModel.PatchFmt
import JdSpec.Rfc6902
import JdSpec.HunkSem
import JdProofs.StrictPatch
import JdProofs.DiffPatchList
import JdProofs.EqualsList
import Batteries.Data.String.Lemmas

namespace Jd
open Spec

/-! ### 1(a) escape / decode -/

def escChars : List Char → List Char
  | [] => []
  | c :: r => if c = '~' then '~' :: '0' :: escChars r
              else if c = '/' then '~' :: '1' :: escChars r
              else c :: escChars r

theorem replaceChar_toList (c : Char) (b : String) (s : String) :
    (replaceChar c b s).toList = s.toList.flatMap (fun x => if x == c then b.toList else [x]) := by
  unfold replaceChar
  rw [String.toList_join, List.flatMap_map]
  congr 1
  funext x
  split <;> simp

theorem ptrEscape_toList (k : String) : (ptrEscape k).toList = escChars k.toList := by
  unfold ptrEscape
  rw [replaceChar_toList, replaceChar_toList]
  induction k.toList with
  | nil => rfl
  | cons c r ih =>
    simp only [List.flatMap_cons, List.flatMap_append, escChars]
    rw [ih]
    by_cases h1 : c = '~'
    · subst h1; simp
    · by_cases h2 : c = '/'
      · subst h2; simp
      · simp [h1, h2]

theorem decodeToken_escChars : ∀ l : List Char, decodeToken (escChars l) = some l
  | [] => rfl
  | c :: r => by
    unfold escChars
    by_cases h1 : c = '~'
    · subst h1; simp [decodeToken, decodeToken_escChars r]
    · by_cases h2 : c = '/'
      · subst h2; simp [decodeToken, decodeToken_escChars r]
      · simp only [h1, h2, if_false]
        rw [decodeToken]
        · simp [decodeToken_escChars r]
        · intro r' h; exact absurd h h1
        · intro r' h; exact absurd h h1
        · intro h; exact absurd h h1

/-- 1(a): escaping a key then decoding it by RFC 6901 gives the key back -/
theorem decodeToken_ptrEscape (k : String) : decodeToken (ptrEscape k).toList = some k.toList := by
  rw [ptrEscape_toList, decodeToken_escChars]

theorem escChars_no_slash : ∀ l : List Char, '/' ∉ escChars l
  | [] => by simp [escChars]
  | c :: r => by
    have ih := escChars_no_slash r
    unfold escChars
    split
    · simp [ih]
    · split
      · simp [ih]
      · rename_i h2; simp [ih]; exact fun h => h2 h.symm

/-! ### 0. shape of `renderPatchHunk` -/

def PatchOp.toSpec (p : PatchOp) : Spec.Op := { op := p.op, path := p.path, value := p.value }

/-- the context test of `renderPatchHunk` (before: `f i = i - 1`, after: `f i = i + |Remove|`) -/
def ctxOps (h : Hunk) (ctx : List Json) (f : Int → Int) : Outcome (List PatchOp) :=
  match ctx with
  | [b] =>
    if b.isVoid then .ok []
    else if h.path.isEmpty then .err
    else match lastIdx? h.path with
      | none => .err
      | some i =>
        writePointerPath (setLastIdx h.path (f i)) >>= fun pp =>
          pure [{ op := "test", path := pp, value := b }]
  | _ => .ok []

def remOpsOf (path : String) (rem : List Json) : List PatchOp :=
  match rem with
  | [] => []
  | r0 :: _ =>
    if r0.isVoid then []
    else rem.flatMap (fun e => [{ op := "test", path := path, value := e }, { op := "remove", path := path, value := e }])

def addOpsOf (path : String) (add : List Json) : List PatchOp :=
  match add with
  | [] => []
  | a0 :: _ =>
    if a0.isVoid then []
    else add.reverse.map (fun e => { op := "add", path := path, value := e })

def renderPatchHunk' (h : Hunk) : Outcome (List PatchOp) :=
  writePointerPath h.path >>= fun path =>
  if h.remove.isEmpty && h.add.isEmpty then .err else
  if h.before.length > 1 then .err else
  ctxOps h h.before (fun i => i - 1) >>= fun bo =>
  if h.after.length > 1 then .err else
  ctxOps h h.after (fun i => i + (h.remove.length : Int)) >>= fun ao =>
  pure (bo ++ ao ++ remOpsOf path h.remove ++ addOpsOf path h.add)

theorem renderPatchHunk_eq (h : Hunk) : renderPatchHunk h = renderPatchHunk' h := by
  unfold renderPatchHunk renderPatchHunk' ctxOps remOpsOf addOpsOf
  rfl

theorem renderPatchHunk_ok {h : Hunk} {ops : List PatchOp} (e : renderPatchHunk h = .ok ops) :
    ∃ s bo ao, writePointerPath h.path = .ok s ∧ (h.remove.isEmpty && h.add.isEmpty) = false ∧
      h.before.length ≤ 1 ∧ h.after.length ≤ 1 ∧
      ctxOps h h.before (fun i => i - 1) = .ok bo ∧
      ctxOps h h.after (fun i => i + (h.remove.length : Int)) = .ok ao ∧
      ops = bo ++ ao ++ remOpsOf s h.remove ++ addOpsOf s h.add := by
  rw [renderPatchHunk_eq] at e
  unfold renderPatchHunk' at e
  cases hs : writePointerPath h.path with
  | err => rw [hs] at e; cases e
  | panic => rw [hs] at e; cases e
  | ok s =>
    rw [hs] at e
    simp only [Outcome.bind_ok] at e
    by_cases h1 : (h.remove.isEmpty && h.add.isEmpty) = true
    · rw [if_pos h1] at e; cases e
    by_cases h2 : h.before.length > 1
    · rw [if_neg h1, if_pos h2] at e; cases e
    rw [if_neg h1, if_neg h2] at e
    cases hb : ctxOps h h.before (fun i => i - 1) with
    | err => rw [hb] at e; cases e
    | panic => rw [hb] at e; cases e
    | ok bo =>
      rw [hb] at e
      simp only [Outcome.bind_ok] at e
      by_cases h3 : h.after.length > 1
      · rw [if_pos h3] at e; cases e
      rw [if_neg h3] at e
      cases ha : ctxOps h h.after (fun i => i + (h.remove.length : Int)) with
      | err => rw [ha] at e; cases e
      | panic => rw [ha] at e; cases e
      | ok ao =>
        rw [ha] at e
        simp only [Outcome.bind_ok] at e
        injection e with e
        refine ⟨s, bo, ao, rfl, by simpa using h1, by omega, by omega, rfl, rfl, e.symm⟩

theorem ctxOps_ok {h : Hunk} {ctx : List Json} {f : Int → Int} {bo : List PatchOp}
    (e : ctxOps h ctx f = .ok bo) :
    (bo = [] ∧ (ctx.length = 1 → ctx = [.void])) ∨
    ∃ b i pp, ctx = [b] ∧ b.isVoid = false ∧ lastIdx? h.path = some i ∧
      writePointerPath (setLastIdx h.path (f i)) = .ok pp ∧ bo = [{ op := "test", path := pp, value := b }] := by
  unfold ctxOps at e
  split at e
  · rename_i b
    by_cases hv : b.isVoid = true
    · rw [if_pos hv] at e; injection e with e
      left; refine ⟨e.symm, fun _ => ?_⟩
      cases b <;> simp_all [Json.isVoid]
    · rw [if_neg hv] at e
      split at e
      · cases e
      · split at e
        · cases e
        · rename_i i hi
          cases hw : writePointerPath (setLastIdx h.path (f i)) with
          | err => rw [hw] at e; cases e
          | panic => rw [hw] at e; cases e
          | ok pp =>
            rw [hw] at e; injection e with e
            right; exact ⟨b, i, pp, rfl, by simpa using hv, hi, hw, e.symm⟩
  · injection e with e
    left; refine ⟨e.symm, fun hl => ?_⟩
    rename_i hne
    match ctx, hl with
    | [b], _ => exact absurd rfl (hne b)

/-! ### 4. well-formedness: only `test`, `remove`, `add` operations -/

def PatchOp.wfOp (o : PatchOp) : Prop := o.op = "test" ∨ o.op = "remove" ∨ o.op = "add"

theorem remOpsOf_wf (s : String) (rem : List Json) : ∀ o ∈ remOpsOf s rem, o.wfOp := by
  intro o ho
  unfold remOpsOf at ho
  split at ho
  · cases ho
  · split at ho
    · cases ho
    · simp only [List.mem_flatMap, List.mem_cons, List.not_mem_nil, or_false] at ho
      obtain ⟨e, _, rfl | rfl⟩ := ho
      · exact Or.inl rfl
      · exact Or.inr (Or.inl rfl)

theorem addOpsOf_wf (s : String) (add : List Json) : ∀ o ∈ addOpsOf s add, o.wfOp := by
  intro o ho
  unfold addOpsOf at ho
  split at ho
  · cases ho
  · split at ho
    · cases ho
    · simp only [List.mem_map] at ho
      obtain ⟨e, _, rfl⟩ := ho
      exact Or.inr (Or.inr rfl)

theorem ctxOps_wf {h : Hunk} {ctx : List Json} {f : Int → Int} {bo : List PatchOp}
    (e : ctxOps h ctx f = .ok bo) : ∀ o ∈ bo, o.wfOp := by
  intro o ho
  rcases ctxOps_ok e with ⟨rfl, _⟩ | ⟨b, i, pp, _, _, _, _, rfl⟩
  · cases ho
  · simp only [List.mem_singleton] at ho; subst ho; exact Or.inl rfl

/-- 4. every operation of a rendered hunk is a `test`, a `remove` or an `add` -/
theorem renderPatchHunk_wfOps {h : Hunk} {ops : List PatchOp} (e : renderPatchHunk h = .ok ops) :
    ∀ o ∈ ops, o.wfOp := by
  obtain ⟨s, bo, ao, _, _, _, _, hb, ha, rfl⟩ := renderPatchHunk_ok e
  intro o ho
  simp only [List.mem_append] at ho
  rcases ho with ((ho | ho) | ho) | ho
  · exact ctxOps_wf hb o ho
  · exact ctxOps_wf ha o ho
  · exact remOpsOf_wf s _ o ho
  · exact addOpsOf_wf s _ o ho

theorem renderPatchOps_ok_cons {h : Hunk} {d : Diff} {ops : List PatchOp}
    (e : renderPatchOps (h :: d) = .ok ops) :
    ∃ a b, renderPatchHunk h = .ok a ∧ renderPatchOps d = .ok b ∧ ops = a ++ b := by
  rw [renderPatchOps] at e
  cases ha : renderPatchHunk h with
  | err => rw [ha] at e; cases e
  | panic => rw [ha] at e; cases e
  | ok a =>
    rw [ha] at e; simp only [Outcome.bind_ok] at e
    cases hb : renderPatchOps d with
    | err => rw [hb] at e; cases e
    | panic => rw [hb] at e; cases e
    | ok b =>
      rw [hb] at e; simp only [Outcome.bind_ok] at e
      injection e with e
      exact ⟨a, b, rfl, rfl, e.symm⟩

/-- 4. every operation of a rendered diff is a `test`, a `remove` or an `add` -/
theorem renderPatchOps_wfOps : ∀ {d : Diff} {ops : List PatchOp}, renderPatchOps d = .ok ops →
    ∀ o ∈ ops, o.wfOp
  | [], ops, e => by
    rw [renderPatchOps] at e; injection e with e; subst e; intro o ho; cases ho
  | h :: d, ops, e => by
    obtain ⟨a, b, ha, hb, rfl⟩ := renderPatchOps_ok_cons e
    intro o ho
    rcases List.mem_append.mp ho with ho | ho
    · exact renderPatchHunk_wfOps ha o ho
    · exact renderPatchOps_wfOps hb o ho

/-! ### 2.0 token-level operations (pointers already parsed) -/

inductive TOp where
  | test (p : List String) (v : Json)
  | add (p : List String) (v : Json)
  | remove (p : List String)

def TOp.under (pre : List String) : TOp → TOp
  | .test p v => .test (pre ++ p) v
  | .add p v => .add (pre ++ p) v
  | .remove p => .remove (pre ++ p)

def TOp.path : TOp → List String
  | .test p _ => p
  | .add p _ => p
  | .remove p => p

def TOp.isTest : TOp → Bool
  | .test _ _ => true
  | _ => false

def evalT (n : Json) : TOp → Option Json
  | .test p v => (getP n p).bind (fun x => if equivB [] x v then some n else none)
  | .add p v => addP n p v
  | .remove p => removeP n p

def evalTs (n : Json) : List TOp → Option Json
  | [] => some n
  | o :: r => (evalT n o).bind (evalTs · r)

theorem evalTs_append (n : Json) (a b : List TOp) :
    evalTs n (a ++ b) = (evalTs n a).bind (evalTs · b) := by
  induction a generalizing n with
  | nil => rfl
  | cons o r ih =>
    simp only [List.cons_append, evalTs]
    cases evalT n o with
    | none => rfl
    | some n' => simpa using ih n'

theorem eval_append (n : Json) (a b : List Spec.Op) :
    eval n (a ++ b) = (eval n a).bind (eval · b) := by
  induction a generalizing n with
  | nil => rfl
  | cons o r ih =>
    simp only [List.cons_append, eval]
    cases evalOp n o with
    | none => rfl
    | some n' => simpa using ih n'

/-- a rendered op and its parsed form -/
def Rep (o : PatchOp) (t : TOp) : Prop :=
  ∃ p, parsePointer o.path = some p ∧
    ((o.op = "test" ∧ t = .test p o.value) ∨ (o.op = "add" ∧ t = .add p o.value) ∨
     (o.op = "remove" ∧ t = .remove p))

theorem evalOp_of_rep {o : PatchOp} {t : TOp} (h : Rep o t) (n : Json) :
    evalOp n o.toSpec = evalT n t := by
  obtain ⟨p, hp, h⟩ := h
  unfold evalOp
  simp only [PatchOp.toSpec, hp]
  rcases h with ⟨ho, rfl⟩ | ⟨ho, rfl⟩ | ⟨ho, rfl⟩
  · simp [ho, evalT]; rfl
  · simp [ho, evalT]
  · simp [ho, evalT]

inductive RepL : List PatchOp → List TOp → Prop where
  | nil : RepL [] []
  | cons {o t os ts} : Rep o t → RepL os ts → RepL (o :: os) (t :: ts)

theorem RepL.append {a b : List PatchOp} {c d : List TOp} (h1 : RepL a c) (h2 : RepL b d) :
    RepL (a ++ b) (c ++ d) := by
  induction h1 with
  | nil => exact h2
  | cons h _ ih => exact .cons h ih

theorem eval_of_rep {ops : List PatchOp} {ts : List TOp} (h : RepL ops ts) (n : Json) :
    eval n (ops.map PatchOp.toSpec) = evalTs n ts := by
  induction h generalizing n with
  | nil => rfl
  | cons h _ ih =>
    simp only [List.map_cons, eval, evalTs, evalOp_of_rep h]
    cases evalT n _ with
    | none => rfl
    | some n' => simpa using ih n'

/-! ### 2.1 frame lemmas: one navigation step -/

/-- the member of a container selected by a reference token -/
def child (n : Json) (t : String) : Option Json :=
  match n with
  | .obj kvs => alookup t kvs
  | .arr _ xs => (arrayIndex? t).bind (fun i => xs[i]?)
  | _ => none

/-- overwrite the member selected by a token (what `addP`/`removeP` rebuild on the way back) -/
def put (n : Json) (t : String) (v : Json) : Json :=
  match n with
  | .obj kvs => .obj (ainsert t v kvs)
  | .arr _ xs =>
    match arrayIndex? t with
    | some i => .arr .raw (xs.set i v)
    | none => n
  | _ => n

theorem getP_cons (n : Json) (t : String) (r : List String) :
    getP n (t :: r) = (child n t).bind (getP · r) := by
  cases n <;> simp [getP, child]
  rename_i tg xs
  cases arrayIndex? t <;> simp

theorem addP_cons (n : Json) (t t' : String) (r : List String) (v : Json) :
    addP n (t :: t' :: r) v = (child n t).bind (fun c => (addP c (t' :: r) v).map (put n t)) := by
  cases n <;> simp [addP, child]
  · rename_i tg xs
    cases h : arrayIndex? t <;> simp
    rename_i i
    cases xs[i]? <;> simp
    rename_i c
    cases addP c (t' :: r) v <;> simp [put, h]
  · rename_i kvs
    cases alookup t kvs <;> simp
    rfl

theorem removeP_cons (n : Json) (t t' : String) (r : List String) :
    removeP n (t :: t' :: r) = (child n t).bind (fun c => (removeP c (t' :: r)).map (put n t)) := by
  cases n <;> simp [removeP, child]
  · rename_i tg xs
    cases h : arrayIndex? t <;> simp
    rename_i i
    cases xs[i]? <;> simp
    rename_i c
    cases removeP c (t' :: r) <;> simp [put, h]
  · rename_i kvs
    cases alookup t kvs <;> simp
    rfl

/-! association lists -/

theorem alookup_ainsert_self {β} (k : String) (v : β) :
    ∀ kvs : List (String × β), alookup k (ainsert k v kvs) = some v
  | [] => by simp [ainsert, alookup]
  | (k', v') :: r => by
    simp only [ainsert]
    split
    · simp [alookup]
    · split
      · simp [alookup]
      · rename_i h1 h2
        simp [alookup, h2, alookup_ainsert_self k v r]

theorem ainsert_ainsert {β} (k : String) (v1 v2 : β) :
    ∀ kvs : List (String × β), ainsert k v2 (ainsert k v1 kvs) = ainsert k v2 kvs
  | [] => by simp [ainsert, String.lt_irrefl]
  | (k', v') :: r => by
    simp only [ainsert]
    split
    · simp [ainsert, String.lt_irrefl]
    · split
      · simp [ainsert, String.lt_irrefl]
      · rename_i h1 h2
        simp [ainsert, h1, h2, ainsert_ainsert k v1 v2 r]

theorem aerase_of_alookup_none {β} (k : String) :
    ∀ kvs : List (String × β), alookup k kvs = none → aerase k kvs = kvs
  | [], _ => rfl
  | (k', v') :: r, h => by
    simp only [alookup] at h
    split at h
    · cases h
    · rename_i hne
      simp [aerase, hne, aerase_of_alookup_none k r h]

theorem alookup_none_of_lt {β} {k k0 : String} {v0 : β} {r : List (String × β)}
    (hs : keysSorted ((k0, v0) :: r) = true) (hlt : k < k0) : alookup k ((k0, v0) :: r) = none := by
  cases h : alookup k ((k0, v0) :: r) with
  | none => rfl
  | some v =>
    exfalso
    have hm := mem_of_alookup h
    rcases List.mem_cons.1 hm with he | hm'
    · cases he; exact String.lt_irrefl _ hlt
    · exact String.lt_irrefl _ (String.lt_trans hlt (keysSorted_head_lt hs k v hm'))

theorem ainsert_of_lt_head {β} {k : String} (v : β) :
    ∀ {r : List (String × β)}, (∀ k' v', (k', v') ∈ r → k < k') → ainsert k v r = (k, v) :: r
  | [], _ => rfl
  | (k', v') :: r, h => by simp [ainsert, h k' v' List.mem_cons_self]

theorem ainsert_self_of_sorted {β} {k : String} {v : β} :
    ∀ {kvs : List (String × β)}, keysSorted kvs = true → alookup k kvs = some v → ainsert k v kvs = kvs
  | [], _, h => by simp [alookup] at h
  | (k0, v0) :: r, hs, h => by
    simp only [ainsert]
    by_cases hlt : k < k0
    · rw [alookup_none_of_lt hs hlt] at h; cases h
    · simp only [hlt, if_false]
      simp only [alookup] at h
      split at h
      · rename_i he; cases h; subst he; simp
      · rename_i hne
        simp [hne, ainsert_self_of_sorted (keysSorted_tail hs) h]

theorem ainsert_aerase_of_sorted {β} (k : String) (a : β) :
    ∀ {kvs : List (String × β)}, keysSorted kvs = true → ainsert k a (aerase k kvs) = ainsert k a kvs
  | [], _ => rfl
  | (k0, v0) :: r, hs => by
    by_cases he : k = k0
    · subst he
      simp only [aerase, if_true, ainsert, String.lt_irrefl, if_false]
      exact ainsert_of_lt_head a (keysSorted_head_lt hs)
    · by_cases hlt : k < k0
      · have : aerase k ((k0, v0) :: r) = (k0, v0) :: r :=
          aerase_of_alookup_none k _ (alookup_none_of_lt hs hlt)
        rw [this]
      · simp [aerase, ainsert, he, hlt, ainsert_aerase_of_sorted k a (keysSorted_tail hs)]

/-! child / put -/

theorem child_arr {tg : Tag} {xs : List Json} {t : String} {x : Json}
    (h : child (.arr tg xs) t = some x) :
    ∃ i, arrayIndex? t = some i ∧ xs[i]? = some x ∧ i < xs.length := by
  unfold child at h
  cases hi : arrayIndex? t with
  | none => rw [hi] at h; cases h
  | some i =>
    rw [hi] at h
    have hx : xs[i]? = some x := h
    refine ⟨i, rfl, hx, ?_⟩
    rcases Nat.lt_or_ge i xs.length with h | h
    · exact h
    · rw [List.getElem?_eq_none h] at hx; cases hx

theorem child_put {n : Json} {t : String} {x : Json} (v : Json) (h : child n t = some x) :
    child (put n t v) t = some v := by
  cases n with
  | arr tg xs =>
    obtain ⟨i, hi, hx, hl⟩ := child_arr h
    simp [put, hi, child, hl]
  | obj kvs => simp [put, child, alookup_ainsert_self]
  | _ => simp [child] at h

theorem put_put {n : Json} {t : String} (v1 v2 : Json) :
    put (put n t v1) t v2 = put n t v2 := by
  cases n <;> simp [put]
  · rename_i tg xs
    cases h : arrayIndex? t <;> simp
  · exact ainsert_ainsert _ _ _ _

theorem untag_put_congr (n : Json) (t : String) {v v' : Json} (h : untag v = untag v') :
    untag (put n t v) = untag (put n t v') := by
  cases n <;> simp [put]
  · rename_i tg xs
    cases arrayIndex? t <;> simp
    exact untag_arrSet _ _ _ _ h
  · simp [untag, untagKvs_ainsert, h]

theorem untag_put_self {n : Json} {t : String} {x : Json} (hw : n.wf = true)
    (h : child n t = some x) : untag (put n t x) = untag n := by
  cases n with
  | arr tg xs =>
    obtain ⟨i, hi, hx, hl⟩ := child_arr h
    have : xs.set i x = xs := by
      apply List.ext_getElem? ; intro j
      by_cases hj : i = j
      · subst hj; rw [hx]; simp [hl]
      · simp [hj]
    simp [put, hi, this, untag]
  | obj kvs =>
    simp only [Json.wf, Bool.and_eq_true] at hw
    have h' : alookup t kvs = some x := h
    simp [put, ainsert_self_of_sorted hw.1 h']
  | _ => simp [child] at h

/-! frame: an operation below a member -/

theorem evalT_under_test {n : Json} {t : String} {x : Json} (hc : child n t = some x)
    (p : List String) (v : Json) :
    evalT n (.test (t :: p) v) = (evalT x (.test p v)).map (fun _ => n) := by
  simp only [evalT, getP_cons, hc, Option.bind_some]
  cases getP x p with
  | none => rfl
  | some y => simp only [Option.bind_some]; split <;> rfl

theorem evalT_under_add {n : Json} {t : String} {x : Json} (hc : child n t = some x)
    (p : List String) (hne : p ≠ []) (v : Json) :
    evalT n (.add (t :: p) v) = (evalT x (.add p v)).map (put n t) := by
  cases p with
  | nil => exact absurd rfl hne
  | cons t' r => simp [evalT, addP_cons, hc]

theorem evalT_under_remove {n : Json} {t : String} {x : Json} (hc : child n t = some x)
    (p : List String) (hne : p ≠ []) :
    evalT n (.remove (t :: p)) = (evalT x (.remove p)).map (put n t) := by
  cases p with
  | nil => exact absurd rfl hne
  | cons t' r => simp [evalT, removeP_cons, hc]

theorem TOp.under_under (t : String) (pt : List String) (o : TOp) :
    (o.under pt).under [t] = o.under (t :: pt) := by
  cases o <;> simp [TOp.under]

theorem TOp.path_under (pt : List String) (o : TOp) : (o.under pt).path = pt ++ o.path := by
  cases o <;> rfl

/-- a sequence of operations with non-empty pointers run below member `t`: the member goes through
    the same states; the container is either untouched (only tests) or has the member overwritten -/
theorem evalTs_under (t : String) :
    ∀ (ops : List TOp), (∀ o ∈ ops, o.path ≠ []) → ∀ (n x x' : Json), child n t = some x →
      evalTs x ops = some x' →
      ∃ n', evalTs n (ops.map (TOp.under [t])) = some n' ∧ child n' t = some x' ∧
        (n' = n ∨ n' = put n t x')
  | [], _, n, x, x', hc, he => by
    simp only [evalTs] at he; cases he
    exact ⟨n, rfl, hc, Or.inl rfl⟩
  | o :: r, hne, n, x, x', hc, he => by
    simp only [evalTs] at he
    cases h1 : evalT x o with
    | none => rw [h1] at he; cases he
    | some x1 =>
      rw [h1] at he; simp only [Option.bind_some] at he
      have hne' : ∀ o ∈ r, o.path ≠ [] := fun o ho => hne o (List.mem_cons_of_mem _ ho)
      have hp := hne o List.mem_cons_self
      simp only [List.map_cons, evalTs]
      cases o with
      | test p v =>
        have : evalT n ((TOp.test p v).under [t]) = some n := by
          show evalT n (.test (t :: p) v) = some n
          rw [evalT_under_test hc, h1]; rfl
        rw [this]; simp only [Option.bind_some]
        have hx1 : x1 = x := by
          simp only [evalT] at h1
          cases hg : getP x p with
          | none => rw [hg] at h1; cases h1
          | some y =>
            rw [hg] at h1; simp only [Option.bind_some] at h1
            split at h1
            · cases h1; rfl
            · cases h1
        subst hx1
        exact evalTs_under t r hne' n x1 x' hc he
      | add p v =>
        have : evalT n ((TOp.add p v).under [t]) = some (put n t x1) := by
          show evalT n (.add (t :: p) v) = _
          rw [evalT_under_add hc p hp, h1]; rfl
        rw [this]; simp only [Option.bind_some]
        obtain ⟨n', e1, e2, e3⟩ := evalTs_under t r hne' (put n t x1) x1 x' (child_put x1 hc) he
        refine ⟨n', e1, e2, Or.inr ?_⟩
        rcases e3 with e3 | e3
        · rw [e3] at e2; rw [child_put x1 hc] at e2; cases e2; exact e3
        · rw [e3, put_put]
      | remove p =>
        have : evalT n ((TOp.remove p).under [t]) = some (put n t x1) := by
          show evalT n (.remove (t :: p)) = _
          rw [evalT_under_remove hc p hp, h1]; rfl
        rw [this]; simp only [Option.bind_some]
        obtain ⟨n', e1, e2, e3⟩ := evalTs_under t r hne' (put n t x1) x1 x' (child_put x1 hc) he
        refine ⟨n', e1, e2, Or.inr ?_⟩
        rcases e3 with e3 | e3
        · rw [e3] at e2; rw [child_put x1 hc] at e2; cases e2; exact e3
        · rw [e3, put_put]

/-- the same up to tags, for a well-formed container -/
theorem evalTs_under_untag (t : String) (ops : List TOp) (hne : ∀ o ∈ ops, o.path ≠ [])
    {n x x' : Json} (hw : n.wf = true) (hc : child n t = some x) (he : evalTs x ops = some x') :
    ∃ n', evalTs n (ops.map (TOp.under [t])) = some n' ∧ untag n' = untag (put n t x') := by
  obtain ⟨n', e1, e2, e3⟩ := evalTs_under t ops hne n x x' hc he
  refine ⟨n', e1, ?_⟩
  rcases e3 with e3 | e3
  · subst e3; rw [hc] at e2; cases e2; exact (untag_put_self hw hc).symm
  · rw [e3]

/-! ### 2.2 facts about the reference equality -/

theorem specEq_isVoid {a b : Json} (h : specEq a b = true) : a.isVoid = b.isVoid := by
  have := equivB_kind [] a b h
  cases a <;> cases b <;> simp_all [Json.kind, Json.isVoid]

theorem specEq_void_right {x : Json} (h : specEq x .void = true) : x = .void := by
  have := specEq_isVoid h
  cases x <;> simp_all [Json.isVoid]

mutual
theorem untag_listDoc : ∀ a : Json, (untag a).listDoc = true
  | .arr _ xs => by simp [untag, Json.listDoc, untagList_listDoc xs]
  | .obj kvs => by simp [untag, Json.listDoc, untagKvs_listDoc kvs]
  | .void | .null | .bool _ | .num _ | .str _ => by simp [untag, Json.listDoc]
theorem untagList_listDoc : ∀ xs : List Json, listDocList (untagList xs) = true
  | [] => by simp [untagList, listDocList]
  | x :: r => by simp [untagList, listDocList, untag_listDoc x, untagList_listDoc r]
theorem untagKvs_listDoc : ∀ kvs : List (String × Json), listDocKvs (untagKvs kvs) = true
  | [] => by simp [untagKvs, listDocKvs]
  | (_, v) :: r => by simp [untagKvs, listDocKvs, untag_listDoc v, untagKvs_listDoc r]
end

theorem keysSorted_untagKvs : ∀ kvs : List (String × Json), keysSorted (untagKvs kvs) = keysSorted kvs
  | [] => rfl
  | [(_, _)] => rfl
  | (k, v) :: (k', v') :: r => by
    have := keysSorted_untagKvs ((k', v') :: r)
    simp only [untagKvs] at this
    simp [untagKvs, keysSorted, this]

mutual
theorem untag_wf : ∀ a : Json, (untag a).wf = a.wf
  | .arr _ xs => by simp [untag, Json.wf, untagList_wf xs]
  | .obj kvs => by simp [untag, Json.wf, untagKvs_wf kvs, keysSorted_untagKvs]
  | .void | .null | .bool _ | .num _ | .str _ => by simp [untag]
theorem untagList_wf : ∀ xs : List Json, wfList (untagList xs) = wfList xs
  | [] => by simp [untagList]
  | x :: r => by simp [untagList, wfList, untag_wf x, untagList_wf r]
theorem untagKvs_wf : ∀ kvs : List (String × Json), wfKvs (untagKvs kvs) = wfKvs kvs
  | [] => by simp [untagKvs]
  | (_, v) :: r => by simp [untagKvs, wfKvs, untag_wf v, untagKvs_wf r]
end

/-- the reference equality is symmetric on well-formed documents (IEEE-754 laws assumed) -/
theorem specEq_symm (L : FloatLaws) {a b : Json} (ha : a.wf = true) (hb : b.wf = true) :
    specEq a b = specEq b a := by
  rw [← specEq_untag_left a b, ← specEq_untag_right (untag a) b,
      ← specEq_untag_left b a, ← specEq_untag_right (untag b) a,
      ← equals_nil_eq_specEq (untag_listDoc a) (untag_listDoc b),
      ← equals_nil_eq_specEq (untag_listDoc b) (untag_listDoc a)]
  exact equals_symm_list L [] rfl _ _ (untag_listDoc a) (untag_listDoc b)
    (by rw [untag_wf]; exact ha) (by rw [untag_wf]; exact hb)

/-! ### 2.3 the leaves -/

/-- `(test p v, remove p)` for every removed value -/
def remT (p : List String) (rem : List Json) : List TOp :=
  rem.flatMap (fun e => [.test p e, .remove p])

/-- `add p x` for the added values in reverse order -/
def addT (p : List String) (add : List Json) : List TOp :=
  add.reverse.map (fun e => .add p e)

def noVoid (l : List Json) : Prop := ∀ x ∈ l, x.isVoid = false

theorem applyStrict_nil_cases {x v : Json} {h : Hunk} (e : applyStrict x [] h = some v)
    (hr : noVoid h.remove) (ha : noVoid h.add) (hne : (h.remove.isEmpty && h.add.isEmpty) = false) :
    (h.remove = [] ∧ x = .void ∧ ∃ a, h.add = [a] ∧ v = a ∧ a.isVoid = false) ∨
    (∃ r0, h.remove = [r0] ∧ specEq x r0 = true ∧ x.isVoid = false ∧
      ((h.add = [] ∧ v = .void) ∨ ∃ a, h.add = [a] ∧ v = a ∧ a.isVoid = false)) := by
  simp only [applyStrict] at e
  split at e
  · cases e
  rename_i hl
  simp only [Bool.or_eq_true, decide_eq_true_eq, not_or, Nat.not_lt] at hl
  split at e
  · rename_i hs
    injection e with e
    have hadd : (h.add = [] ∧ v = .void) ∨ ∃ a, h.add = [a] ∧ v = a ∧ a.isVoid = false := by
      match hh : h.add, hl.2 with
      | [], _ => left; rw [hh] at e; exact ⟨rfl, e.symm⟩
      | [a], _ =>
        right; rw [hh] at e
        exact ⟨a, rfl, e.symm, ha a (by rw [hh]; exact List.mem_cons_self)⟩
    match hh : h.remove, hl.1 with
    | [], _ =>
      left
      rw [hh] at hs
      refine ⟨rfl, specEq_void_right hs, ?_⟩
      rcases hadd with ⟨h1, _⟩ | h2
      · rw [hh, h1] at hne; simp at hne
      · exact h2
    | [r0], _ =>
      right
      rw [hh] at hs
      have hv : r0.isVoid = false := hr r0 (by rw [hh]; exact List.mem_cons_self)
      exact ⟨r0, rfl, hs, by rw [specEq_isVoid hs]; exact hv, hadd⟩
  · cases e

theorem getP_nil_of_nonvoid {x : Json} (h : x.isVoid = false) : getP x [] = some x := by
  simp [getP, h]

/-- root hunk: `(test "" v, remove "")? (add "" x)?` -/
theorem root_leaf {n r : Json} {h : Hunk} (e : applyStrict n [] h = some r)
    (hr : noVoid h.remove) (ha : noVoid h.add) (hne : (h.remove.isEmpty && h.add.isEmpty) = false) :
    evalTs n (remT [] h.remove ++ addT [] h.add) = some r := by
  rcases applyStrict_nil_cases e hr ha hne with ⟨h1, rfl, a, h2, rfl, _⟩ | ⟨r0, h1, hs, hv, h2⟩
  · simp [h1, h2, remT, addT, evalTs, evalT, addP]
  · have hs' : equivB [] n r0 = true := hs
    rcases h2 with ⟨h2, rfl⟩ | ⟨a, h2, rfl, _⟩
    · simp [h1, h2, remT, addT, evalTs, evalT, getP_nil_of_nonvoid hv, hs', removeP, hv]
    · simp [h1, h2, remT, addT, evalTs, evalT, getP_nil_of_nonvoid hv, hs', removeP, hv, addP]

theorem applyStrict_key_nil (n : Json) (k : String) (h : Hunk) :
    applyStrict n [.key k] h =
      match n with
      | .obj kvs => (applyStrict ((alookup k kvs).getD .void) [] h).map (fun v =>
          if v.isVoid then Json.obj (aerase k kvs) else Json.obj (ainsert k v kvs))
      | _ => none := by
  cases n <;> simp [applyStrict]

/-- object member hunk: `(test p v, remove p)? (add p x)?` with `p = [k]` relative to the object -/
theorem key_leaf {n r : Json} {k : String} {h : Hunk} (hw : n.wf = true)
    (e : applyStrict n [.key k] h = some r)
    (hr : noVoid h.remove) (ha : noVoid h.add) (hne : (h.remove.isEmpty && h.add.isEmpty) = false) :
    evalTs n (remT [k] h.remove ++ addT [k] h.add) = some r := by
  rw [applyStrict_key_nil] at e
  cases n with
  | obj kvs =>
    simp only [Json.wf, Bool.and_eq_true] at hw
    simp only [Option.map_eq_some_iff] at e
    obtain ⟨v, e, rfl⟩ := e
    rcases applyStrict_nil_cases e hr ha hne with ⟨h1, hx, a, h2, rfl, hav⟩ | ⟨r0, h1, hs, hv, h2⟩
    · simp [h1, h2, remT, addT, evalTs, evalT, addP, hav]
    · have hs' : equivB [] ((alookup k kvs).getD .void) r0 = true := hs
      cases hl : alookup k kvs with
      | none => rw [hl] at hv; simp [Json.isVoid] at hv
      | some x =>
        rw [hl] at hv hs'; simp only [Option.getD_some] at hv hs'
        rcases h2 with ⟨h2, rfl⟩ | ⟨a, h2, rfl, hav⟩
        · simp [h1, h2, remT, addT, evalTs, evalT, getP_cons, child, hl, getP_nil_of_nonvoid hv, hs', removeP,
            Json.isVoid]
        · simp [h1, h2, remT, addT, evalTs, evalT, getP_cons, child, hl, getP_nil_of_nonvoid hv, hs',
            removeP, addP, hav, ainsert_aerase_of_sorted k v hw.1]
  | _ => simp at e

/-! ### 1(c) index tokens -/

theorem head_toDigits_ne_zero : ∀ n : Nat, 10 ≤ n → (Nat.toDigits 10 n).head? ≠ some '0' := by
  intro n
  induction n using Nat.strongRecOn with
  | _ n ih =>
    intro hn
    rw [Nat.toDigits_of_base_le (by decide) hn]
    have hne : Nat.toDigits 10 (n / 10) ≠ [] := Nat.toDigits_ne_nil
    have : (Nat.toDigits 10 (n / 10) ++ [Nat.digitChar (n % 10)]).head? = (Nat.toDigits 10 (n / 10)).head? := by
      cases hh : Nat.toDigits 10 (n / 10) with
      | nil => exact absurd hh hne
      | cons _ _ => rfl
    rw [this]
    by_cases h : n / 10 < 10
    · rw [Nat.toDigits_of_lt_base h]
      have h1 : 1 ≤ n / 10 := by omega
      generalize n / 10 = m at h h1
      have : m = 1 ∨ m = 2 ∨ m = 3 ∨ m = 4 ∨ m = 5 ∨ m = 6 ∨ m = 7 ∨ m = 8 ∨ m = 9 := by omega
      rcases this with rfl | rfl | rfl | rfl | rfl | rfl | rfl | rfl | rfl <;> decide
    · exact ih (n / 10) (by omega) (by omega)

theorem foldl_digits (l : List Char) (init : Nat) :
    l.foldl (fun (acc : Nat) c => acc * 10 + (c.toNat - 48)) init = Nat.ofDigitChars 10 l init := by
  induction l generalizing init with
  | nil => rfl
  | cons c r ih => simp [Nat.ofDigitChars_cons, ih, Nat.mul_comm]

theorem arrayIndex_natRepr (n : Nat) : arrayIndex? n.repr = some n := by
  unfold arrayIndex?
  simp only [Nat.toList_repr]
  have h1 : (Nat.toDigits 10 n).isEmpty = false := by
    cases h : Nat.toDigits 10 n with
    | nil => exact absurd h Nat.toDigits_ne_nil
    | cons _ _ => rfl
  have h2 : (Nat.toDigits 10 n).all (fun c => decide ('0' ≤ c) && decide (c ≤ '9')) = true := by
    rw [List.all_eq_true]
    intro c hc
    have := Nat.isDigit_of_mem_toDigits (by decide) (by decide) hc
    simp only [Char.isDigit, Bool.and_eq_true, decide_eq_true_eq] at this
    simp only [Bool.and_eq_true, decide_eq_true_eq]
    exact ⟨this.1, this.2⟩
  have h3 : (decide ((Nat.toDigits 10 n).length > 1) && (Nat.toDigits 10 n).head? == some '0') = false := by
    by_cases hn : 10 ≤ n
    · have := head_toDigits_ne_zero n hn
      simp [this]
    · have : (Nat.toDigits 10 n).length ≤ 1 := (Nat.length_toDigits_le_iff (by decide) (by decide)).2 (by omega)
      simp; omega
  simp only [h1, h2, h3, Bool.not_true, Bool.or_false, Bool.false_eq_true, if_false]
  rw [foldl_digits, Nat.ofDigitChars_ten_toDigits]

/-- 1(c): the decimal text of a non-negative index is an RFC 6901 array index denoting it -/
theorem arrayIndex_toString {i : Int} (h : 0 ≤ i) : arrayIndex? (toString i) = some i.toNat := by
  rw [Int.toString_eq_repr, Int.repr_eq_if, if_pos h]
  exact arrayIndex_natRepr _

/-- the reference token of a list index (`-1` is written `-`) -/
def idxTok (i : Int) : String := if i == -1 then "-" else toString i

theorem arrayIndex_idxTok {i : Int} (h : 0 ≤ i) : arrayIndex? (idxTok i) = some i.toNat := by
  have : (i == -1) = false := by simp; omega
  simp only [idxTok, this]
  exact arrayIndex_toString h

/-! ### 2.4 the list leaf -/

theorem wfList_getElem? : ∀ {l : List Json} {k : Nat} {x : Json}, wfList l = true → l[k]? = some x →
    x.wf = true
  | [], _, _, _, h => by simp at h
  | y :: r, 0, x, hw, h => by
    simp only [wfList, Bool.and_eq_true] at hw
    simp at h; subst h; exact hw.1
  | y :: r, k + 1, x, hw, h => by
    simp only [wfList, Bool.and_eq_true] at hw
    simp at h; exact wfList_getElem? hw.2 h

/-- the test rendered for one line of context -/
def ctxT (p : List String) (ctx : List Json) : List TOp :=
  match ctx with
  | [b] => if b.isVoid then [] else [.test p b]
  | _ => []

theorem test_arr_elem {tg : Tag} {xs : List Json} {tok : String} {j : Nat} {x v : Json}
    (ht : arrayIndex? tok = some j) (hx : xs[j]? = some x) (hv : x.isVoid = false)
    (he : equivB [] x v = true) :
    evalT (.arr tg xs) (.test [tok] v) = some (.arr tg xs) := by
  simp [evalT, getP_cons, child, ht, hx, getP_nil_of_nonvoid hv, he]

theorem before_test (L : FloatLaws) {tg : Tag} {xs : List Json} {i : Int} {before : List Json}
    (hw : wfList xs = true) (hwb : wfList before = true) (hl : before.length ≤ 1)
    (hb : beforeOk xs i before.length 0 before = true) :
    evalTs (.arr tg xs) (ctxT [idxTok (i - 1)] before) = some (.arr tg xs) := by
  match before, hl with
  | [], _ => rfl
  | [b], _ =>
    simp only [ctxT]
    by_cases hv : b.isVoid = true
    · simp [hv, evalTs]
    · simp only [hv, if_false, Bool.false_eq_true]
      simp only [Bool.not_eq_true] at hv
      simp only [beforeOk, List.length_cons, List.length_nil, Bool.and_true] at hb
      have hk : (↑(0 + 1 : Nat) - ((0 : Nat) : Int) : Int) = 1 := by simp
      rw [hk] at hb
      split at hb
      · simp [hv] at hb
      · rename_i hk0
        split at hb
        · rename_i x hx
          have hxv : x.isVoid = false := by rw [← specEq_isVoid hb]; exact hv
          simp only [wfList, Bool.and_eq_true] at hwb
          have hs : equivB [] x b = true := by
            have := specEq_symm L hwb.1 (wfList_getElem? hw hx)
            rw [this] at hb; exact hb
          simp only [evalTs, test_arr_elem (arrayIndex_idxTok (by omega)) hx hxv hs, Option.bind_some]
        · cases hb

theorem after_test (L : FloatLaws) {tg : Tag} {xs : List Json} {j m : Nat} {after : List Json}
    (hw : wfList xs = true) (hwa : wfList after = true) (hl : after.length ≤ 1)
    (ha : afterOk ((xs.drop j).drop m) 0 after = true) :
    evalTs (.arr tg xs) (ctxT [idxTok ((j : Int) + (m : Int))] after) = some (.arr tg xs) := by
  match after, hl with
  | [], _ => rfl
  | [a], _ =>
    simp only [ctxT]
    by_cases hv : a.isVoid = true
    · simp [hv, evalTs]
    · simp only [hv, if_false, Bool.false_eq_true]
      simp only [Bool.not_eq_true] at hv
      simp only [afterOk, Bool.and_true] at ha
      split at ha
      · rename_i x hx
        have hx' : xs[j + m]? = some x := by
          simpa [List.getElem?_drop, Nat.add_assoc] using hx
        have hxv : x.isVoid = false := by rw [← specEq_isVoid ha]; exact hv
        simp only [wfList, Bool.and_eq_true] at hwa
        have hs : equivB [] x a = true := by
          have := specEq_symm L hwa.1 (wfList_getElem? hw hx')
          rw [this] at ha; exact ha
        have ht : arrayIndex? (idxTok ((j : Int) + (m : Int))) = some (j + m) := by
          rw [arrayIndex_idxTok (by omega)]; congr 1
        simp only [evalTs, test_arr_elem ht hx' hxv hs, Option.bind_some]
      · simp [hv] at ha

theorem remove_run {tok : String} {j : Nat} (ht : arrayIndex? tok = some j) :
    ∀ (rs xs : List Json) (tg : Tag), noVoid rs → prefixEq rs (xs.drop j) = true →
      ∃ tg', evalTs (.arr tg xs) (remT [tok] rs) = some (.arr tg' (xs.take j ++ (xs.drop j).drop rs.length))
  | [], xs, tg, _, _ => ⟨tg, by simp [remT, evalTs]⟩
  | e :: rs, xs, tg, hv, hp => by
    cases hd : xs.drop j with
    | nil => rw [hd] at hp; simp [prefixEq] at hp
    | cons x rest =>
      rw [hd] at hp
      simp only [prefixEq, Bool.and_eq_true] at hp
      have hxj : xs[j]? = some x := by
        have : (xs.drop j)[0]? = some x := by rw [hd]; rfl
        simpa [List.getElem?_drop] using this
      have hjl : j < xs.length := by
        rcases Nat.lt_or_ge j xs.length with h | h
        · exact h
        · rw [List.getElem?_eq_none h] at hxj; cases hxj
      have hev : e.isVoid = false := hv e List.mem_cons_self
      have hxv : x.isVoid = false := by rw [specEq_isVoid hp.1]; exact hev
      have hdrop : (xs.eraseIdx j).drop j = rest := by
        rw [List.eraseIdx_eq_take_drop_succ]
        have : (xs.take j).length = j := by simp; omega
        rw [List.drop_append_of_le_length (by omega), List.drop_of_length_le (by omega)]
        have : xs.drop (j + 1) = (xs.drop j).drop 1 := by simp
        rw [this, hd]; rfl
      have htake : (xs.eraseIdx j).take j = xs.take j := by
        rw [List.eraseIdx_eq_take_drop_succ]
        have : (xs.take j).length = j := by simp; omega
        rw [List.take_append_of_le_length (by omega), List.take_of_length_le (by omega)]
      obtain ⟨tg', ih⟩ := remove_run ht rs (xs.eraseIdx j) .raw
        (fun y hy => hv y (List.mem_cons_of_mem _ hy)) (by rw [hdrop]; exact hp.2)
      refine ⟨tg', ?_⟩
      have hrm : evalT (.arr tg xs) (.remove [tok]) = some (.arr .raw (xs.eraseIdx j)) := by
        simp [evalT, removeP, ht, hjl]
      have : remT [tok] (e :: rs) = .test [tok] e :: .remove [tok] :: remT [tok] rs := by
        simp [remT]
      rw [this]
      simp only [evalTs, test_arr_elem ht hxj hxv hp.1, Option.bind_some, hrm, ih, hdrop, htake]
      simp

theorem add_run {tok : String} {j : Nat} (ht : arrayIndex? tok = some j) (pre : List Json)
    (hpre : pre.length = j) :
    ∀ (bs post : List Json) (tg : Tag),
      ∃ tg', evalTs (.arr tg (pre ++ post)) (bs.map (fun e => TOp.add [tok] e))
        = some (.arr tg' (pre ++ bs.reverse ++ post))
  | [], post, tg => ⟨tg, by simp [evalTs]⟩
  | e :: bs, post, tg => by
    have hne : (tok == "-") = false := by
      cases hh : tok == "-" with
      | false => rfl
      | true =>
        have : tok = "-" := by simpa using hh
        subst this
        have hn : arrayIndex? "-" = none := by decide
        rw [hn] at ht; cases ht
    have h1 : evalT (.arr tg (pre ++ post)) (.add [tok] e) = some (.arr .raw (pre ++ e :: post)) := by
      simp [evalT, addP, hne, ht, ← hpre]
    obtain ⟨tg', ih⟩ := add_run ht pre hpre bs (e :: post) .raw
    refine ⟨tg', ?_⟩
    simp only [List.map_cons, evalTs, h1, Option.bind_some, ih]
    simp

theorem applyStrict_idx_nil (n : Json) (i : Int) (h : Hunk) :
    applyStrict n [.idx i] h =
      match n with
      | .arr _ xs => (splice xs i h).map (Json.arr .raw ·)
      | _ => none := by
  cases n <;> simp [applyStrict]

/-- the operations of a list hunk relative to the array, as tokens -/
def listOpsT (i : Int) (h : Hunk) : List TOp :=
  ctxT [idxTok (i - 1)] h.before ++ ctxT [idxTok (i + (h.remove.length : Int))] h.after ++
    remT [idxTok i] h.remove ++ addT [idxTok i] h.add

/-- list hunk at an index `0 ≤ i`: context tests against the original array, then the removed run,
    then the additions in reverse order at the same index -/
theorem idx_leaf (L : FloatLaws) {n r : Json} {i : Int} {h : Hunk} (hw : n.wf = true)
    (e : applyStrict n [.idx i] h = some r) (hi : 0 ≤ i)
    (hr : noVoid h.remove) (hb1 : h.before.length ≤ 1) (ha1 : h.after.length ≤ 1)
    (hwb : wfList h.before = true) (hwa : wfList h.after = true) :
    ∃ r', evalTs n (listOpsT i h) = some r' ∧ untag r' = untag r := by
  rw [applyStrict_idx_nil] at e
  cases n with
  | arr tg xs =>
    simp only [Json.wf] at hw
    simp only [Option.map_eq_some_iff] at e
    obtain ⟨l', e, rfl⟩ := e
    unfold splice at e
    have hi1 : (i == -1) = false := by simp; omega
    simp only [hi1, Bool.false_eq_true, if_false] at e
    split at e
    · cases e
    rename_i hrange
    simp only [Bool.or_eq_true, decide_eq_true_eq, not_or, Int.not_lt] at hrange
    split at e
    · rename_i hc
      simp only [Bool.and_eq_true] at hc
      injection e with e
      subst e
      have hj : i = ((i.toNat : Nat) : Int) := by omega
      have htok : arrayIndex? (idxTok i) = some i.toNat := arrayIndex_idxTok hi
      have hB := before_test L (tg := tg) hw hwb hb1 hc.1.2
      have hA := after_test L (tg := tg) (j := i.toNat) (m := h.remove.length) hw hwa ha1 hc.2
      rw [← hj] at hA
      obtain ⟨tg1, hR⟩ := remove_run htok h.remove xs tg hr hc.1.1
      have hlen : (xs.take i.toNat).length = i.toNat := by simp; omega
      obtain ⟨tg2, hAdd⟩ := add_run htok (xs.take i.toNat) hlen h.add.reverse
        ((xs.drop i.toNat).drop h.remove.length) tg1
      rw [List.reverse_reverse] at hAdd
      refine ⟨.arr tg2 (xs.take i.toNat ++ h.add ++ (xs.drop i.toNat).drop h.remove.length), ?_, ?_⟩
      · unfold listOpsT addT
        rw [evalTs_append, evalTs_append, evalTs_append, hB]
        simp only [Option.bind_some]
        rw [hA]; simp only [Option.bind_some]
        rw [hR]; simp only [Option.bind_some]
        exact hAdd
      · simp [untag]
    · cases e
  | _ => simp at e

/-- list hunk at index `-1` (append): no context can be tested and at most one value can be added -/
theorem idx_leaf_append {n r : Json} {h : Hunk}
    (e : applyStrict n [.idx (-1)] h = some r) (hadd : h.add.length ≤ 1) :
    ∃ r', evalTs n (remT ["-"] h.remove ++ addT ["-"] h.add) = some r' ∧ untag r' = untag r := by
  rw [applyStrict_idx_nil] at e
  cases n with
  | arr tg xs =>
    simp only [Option.map_eq_some_iff] at e
    obtain ⟨l', e, rfl⟩ := e
    unfold splice at e
    simp only [show ((-1 : Int) == -1) = true from rfl, if_true] at e
    split at e
    · rename_i hre
      have hre' : h.remove = [] := by simpa using hre
      injection e with e; subst e
      match hh : h.add, hadd with
      | [], _ => exact ⟨.arr tg xs, by simp [hre', remT, addT, evalTs], by simp [untag]⟩
      | [a], _ =>
        refine ⟨.arr .raw (xs ++ [a]), ?_, rfl⟩
        simp [hre', remT, addT, evalTs, evalT, addP]
    · cases e
  | _ => simp at e

/-! ### 2.5 navigation: a hunk below a parent path -/

/-- the reference token of a path element (keys are themselves, indices in decimal, `-` for -1) -/
def elemTok : PathElem → String
  | .key k => k
  | .idx i => idxTok i
  | _ => ""

def ptoks (p : Path) : List String := p.map elemTok

theorem applyStrict_void_cons (e : PathElem) (rest : Path) (h : Hunk) :
    applyStrict .void (e :: rest) h = none := by
  cases e <;> cases rest <;> simp [applyStrict]

theorem applyStrict_cons_nonvoid {n v : Json} {e : PathElem} {rest : Path} {h : Hunk}
    (he : applyStrict n (e :: rest) h = some v) : v.isVoid = false := by
  cases e with
  | key k =>
    cases n <;> simp [applyStrict] at he
    obtain ⟨a, _, rfl⟩ := he
    split <;> rfl
  | idx i =>
    cases rest with
    | nil =>
      rw [applyStrict_idx_nil] at he
      cases n <;> simp at he
      obtain ⟨a, _, rfl⟩ := he; rfl
    | cons e' r' =>
      cases n <;> simp [applyStrict] at he
      obtain ⟨_, he⟩ := he
      split at he
      · simp at he; obtain ⟨a, _, rfl⟩ := he; rfl
      · cases he
  | _ => simp [applyStrict] at he

theorem nav_step_key {k : String} {rest : Path} (hne : rest ≠ []) {n r : Json} {h : Hunk}
    (e : applyStrict n (.key k :: rest) h = some r) :
    ∃ x v, child n k = some x ∧ applyStrict x rest h = some v ∧ r = put n k v := by
  cases n <;> simp [applyStrict] at e
  rename_i kvs
  obtain ⟨v, e, rfl⟩ := e
  cases rest with
  | nil => exact absurd rfl hne
  | cons e' r' =>
    have hv := applyStrict_cons_nonvoid e
    cases hl : alookup k kvs with
    | none => rw [hl] at e; simp [applyStrict_void_cons] at e
    | some x =>
      rw [hl] at e
      exact ⟨x, v, hl, e, by simp [hv, put]⟩

theorem nav_step_idx {i : Int} {rest : Path} (hne : rest ≠ []) {n r : Json} {h : Hunk}
    (e : applyStrict n (.idx i :: rest) h = some r) :
    ∃ x v, child n (idxTok i) = some x ∧ applyStrict x rest h = some v ∧ r = put n (idxTok i) v := by
  cases rest with
  | nil => exact absurd rfl hne
  | cons e' r' =>
    cases n <;> simp [applyStrict] at e
    rename_i tg xs
    obtain ⟨hi, e⟩ := e
    split at e
    · rename_i x hx
      simp at e
      obtain ⟨v, e, rfl⟩ := e
      have ht := arrayIndex_idxTok hi
      exact ⟨x, v, by simp [child, ht, hx], e, by simp [put, ht]⟩
    · cases e

theorem wf_child {n : Json} {t : String} {x : Json} (hw : n.wf = true) (hc : child n t = some x) :
    x.wf = true := by
  cases n with
  | arr tg xs =>
    obtain ⟨i, _, hx, _⟩ := child_arr hc
    exact wfList_getElem? (by simpa [Json.wf] using hw) hx
  | obj kvs =>
    simp only [Json.wf, Bool.and_eq_true] at hw
    exact alookup_wf hc hw.2
  | _ => simp [child] at hc

/-- navigation: a leaf simulation lifts through any parent path made of keys and indices -/
theorem nav (ops : List TOp) (hne : ∀ o ∈ ops, o.path ≠ []) (last : PathElem) (h : Hunk)
    (leaf : ∀ n r, n.wf = true → applyStrict n [last] h = some r →
      ∃ r', evalTs n ops = some r' ∧ untag r' = untag r) :
    ∀ (pp : Path) (n r : Json), n.wf = true → applyStrict n (pp ++ [last]) h = some r →
      ∃ r', evalTs n (ops.map (TOp.under (ptoks pp))) = some r' ∧ untag r' = untag r
  | [], n, r, hw, e => by
    have : ops.map (TOp.under (ptoks [])) = ops := by
      have h0 : TOp.under [] = id := by funext o; cases o <;> rfl
      simp [ptoks, h0]
    rw [this]; exact leaf n r hw e
  | el :: pp, n, r, hw, e => by
    have hrest : pp ++ [last] ≠ [] := by simp
    have key : ∀ t, (∃ x v, child n t = some x ∧ applyStrict x (pp ++ [last]) h = some v ∧ r = put n t v) →
        elemTok el = t →
        ∃ r', evalTs n (ops.map (TOp.under (ptoks (el :: pp)))) = some r' ∧ untag r' = untag r := by
      rintro t ⟨x, v, hc, ex, rfl⟩ ht
      obtain ⟨v', ev, hu⟩ := nav ops hne last h leaf pp x v (wf_child hw hc) ex
      have hne' : ∀ o ∈ ops.map (TOp.under (ptoks pp)), o.path ≠ [] := by
        intro o ho
        obtain ⟨o', ho', rfl⟩ := List.mem_map.1 ho
        rw [TOp.path_under]
        intro hh
        exact hne o' ho' (List.append_eq_nil_iff.1 hh).2
      obtain ⟨n', en, hn'⟩ := evalTs_under_untag t _ hne' hw hc ev
      refine ⟨n', ?_, by rw [hn']; exact untag_put_congr n t hu⟩
      rw [List.map_map] at en
      have : (TOp.under [t] ∘ TOp.under (ptoks pp)) = TOp.under (ptoks (el :: pp)) := by
        funext o
        simp [Function.comp, TOp.under_under, ptoks, ht]
      rw [this] at en; exact en
    cases el with
    | key k => exact key k (nav_step_key hrest e) rfl
    | idx i => exact key (idxTok i) (nav_step_idx hrest e) rfl
    | _ => simp [applyStrict] at e

/-! ### 2.6 the rendered operations and their parsed form -/

/-- the pointer jd writes for `p` parses (RFC 6901) to the tokens of `p` -/
def PtrOK (p : Path) : Prop := ∀ s, writePointerPath p = .ok s → parsePointer s = some (ptoks p)

theorem remOpsOf_eq {s : String} {rem : List Json} (hv : noVoid rem) :
    remOpsOf s rem = rem.flatMap (fun e => [{ op := "test", path := s, value := e }, { op := "remove", path := s, value := e }]) := by
  unfold remOpsOf
  cases rem with
  | nil => rfl
  | cons r0 r => simp [hv r0 List.mem_cons_self]

theorem addOpsOf_eq {s : String} {add : List Json} (hv : noVoid add) :
    addOpsOf s add = add.reverse.map (fun e => { op := "add", path := s, value := e }) := by
  unfold addOpsOf
  cases add with
  | nil => rfl
  | cons a0 r => simp [hv a0 List.mem_cons_self]

theorem repL_rem {s : String} {p : List String} (hp : parsePointer s = some p) (rem : List Json)
    (hv : noVoid rem) : RepL (remOpsOf s rem) (remT p rem) := by
  rw [remOpsOf_eq hv]
  unfold remT
  clear hv
  induction rem with
  | nil => exact .nil
  | cons e r ih =>
    simp only [List.flatMap_cons]
    refine .cons ⟨p, hp, Or.inl ⟨rfl, rfl⟩⟩ (.cons ⟨p, hp, Or.inr (Or.inr ⟨rfl, rfl⟩)⟩ ?_)
    simpa using ih

theorem repL_map_add {s : String} {p : List String} (hp : parsePointer s = some p) (l : List Json) :
    RepL (l.map (fun e => ({ op := "add", path := s, value := e } : PatchOp))) (l.map (fun e => TOp.add p e)) := by
  induction l with
  | nil => exact .nil
  | cons e r ih => exact .cons ⟨p, hp, Or.inr (Or.inl ⟨rfl, rfl⟩)⟩ ih

theorem repL_add {s : String} {p : List String} (hp : parsePointer s = some p) (add : List Json)
    (hv : noVoid add) : RepL (addOpsOf s add) (addT p add) := by
  rw [addOpsOf_eq hv]
  exact repL_map_add hp _

theorem ctxT_nil_of {ctx : List Json} (h : ctx.length = 1 → ctx = [.void]) (p : List String) :
    ctxT p ctx = [] := by
  unfold ctxT
  split
  · rename_i b
    have := h rfl
    injection this with this; subst this; rfl
  · rfl

/-- the rendered context test and its parsed form (`f` = index shift) -/
theorem repL_ctx {h : Hunk} {ctx : List Json} {f : Int → Int} {bo : List PatchOp}
    (e : ctxOps h ctx f = .ok bo)
    (hP : ∀ i, lastIdx? h.path = some i → PtrOK (setLastIdx h.path (f i))) :
    (bo = [] ∧ ∀ p, ctxT p ctx = []) ∨
    ∃ i, lastIdx? h.path = some i ∧ RepL bo (ctxT (ptoks (setLastIdx h.path (f i))) ctx) := by
  rcases ctxOps_ok e with ⟨rfl, hc⟩ | ⟨b, i, pp, rfl, hv, hi, hw, rfl⟩
  · exact Or.inl ⟨rfl, ctxT_nil_of hc⟩
  · right
    refine ⟨i, hi, ?_⟩
    simp only [ctxT, hv, Bool.false_eq_true, if_false]
    exact .cons ⟨_, hP i hi pp hw, Or.inl ⟨rfl, rfl⟩⟩ .nil

theorem remT_under (pre p : List String) (rem : List Json) :
    (remT p rem).map (TOp.under pre) = remT (pre ++ p) rem := by
  unfold remT
  induction rem with
  | nil => rfl
  | cons e r ih => simp [List.flatMap_cons, TOp.under, ih]

theorem addT_under (pre p : List String) (add : List Json) :
    (addT p add).map (TOp.under pre) = addT (pre ++ p) add := by
  simp [addT, List.map_map, Function.comp, TOp.under]

theorem ctxT_under (pre p : List String) (ctx : List Json) :
    (ctxT p ctx).map (TOp.under pre) = ctxT (pre ++ p) ctx := by
  unfold ctxT
  split
  · split <;> simp [TOp.under]
  · rfl

theorem remT_path {p : List String} {rem : List Json} : ∀ o ∈ remT p rem, o.path = p := by
  intro o ho
  simp only [remT, List.mem_flatMap, List.mem_cons, List.not_mem_nil, or_false] at ho
  obtain ⟨_, _, rfl | rfl⟩ := ho <;> rfl

theorem addT_path {p : List String} {add : List Json} : ∀ o ∈ addT p add, o.path = p := by
  intro o ho
  simp only [addT, List.mem_map] at ho
  obtain ⟨_, _, rfl⟩ := ho; rfl

theorem ctxT_path {p : List String} {ctx : List Json} : ∀ o ∈ ctxT p ctx, o.path = p := by
  intro o ho
  unfold ctxT at ho
  split at ho
  · split at ho
    · cases ho
    · simp at ho; subst ho; rfl
  · cases ho

theorem ptoks_concat (pp : Path) (e : PathElem) : ptoks (pp ++ [e]) = ptoks pp ++ [elemTok e] := by
  simp [ptoks]

theorem setLastIdx_concat (pp : Path) (e : PathElem) (j : Int) :
    setLastIdx (pp ++ [e]) j = pp ++ [.idx j] := by
  simp [setLastIdx]

theorem lastIdx_concat_key (pp : Path) (k : String) : lastIdx? (pp ++ [.key k]) = none := by
  simp [lastIdx?]

theorem lastIdx_concat_idx (pp : Path) (i : Int) : lastIdx? (pp ++ [.idx i]) = some i := by
  simp [lastIdx?]

/-! ### 2.7 one hunk -/

/-- side conditions on a hunk under which its JSON Patch rendering is faithful -/
structure HunkOK (h : Hunk) : Prop where
  /-- removed and added values are real values (what a list-mode diff produces) -/
  remNoVoid : noVoid h.remove
  addNoVoid : noVoid h.add
  wfBefore : wfList h.before = true
  wfAfter : wfList h.after = true
  wfAdd : wfList h.add = true
  /-- a hunk appending to a list (index -1) adds at most one value and carries no real context -/
  append : lastIdx? h.path = some (-1) →
    h.add.length ≤ 1 ∧ (∀ b ∈ h.before, b.isVoid = true) ∧ (∀ a ∈ h.after, a.isVoid = true)

/-- the pointers jd writes for the hunk parse to the expected tokens (discharged by `ptrOK_of_range`) -/
structure HunkPtrOK (h : Hunk) : Prop where
  ptr : PtrOK h.path
  ptrBefore : ∀ i, lastIdx? h.path = some i → PtrOK (setLastIdx h.path (i - 1))
  ptrAfter : ∀ i, lastIdx? h.path = some i → PtrOK (setLastIdx h.path (i + (h.remove.length : Int)))

theorem eq_nil_or_snoc {α} (l : List α) : l = [] ∨ ∃ l' b, l = l' ++ [b] := by
  rcases List.eq_nil_or_concat l with h | ⟨l', b, h⟩
  · exact Or.inl h
  · exact Or.inr ⟨l', b, by simpa using h⟩

theorem ctxT_void {ctx : List Json} (h : ∀ b ∈ ctx, b.isVoid = true) (p : List String) :
    ctxT p ctx = [] := by
  unfold ctxT
  split
  · rename_i b; simp [h b List.mem_cons_self]
  · rfl

theorem applyStrict_strictPath {n r : Json} {p : Path} {h : Hunk} (e : applyStrict n p h = some r) :
    strictPath p = true := by
  fun_induction applyStrict n p h generalizing r <;> simp_all [strictPath]
  · rename_i ih; obtain ⟨a, e, _⟩ := e; exact ih e
  · rename_i ih; obtain ⟨a, e, _⟩ := e; exact ih e

theorem strictPath_append {p q : Path} : strictPath (p ++ q) = (strictPath p && strictPath q) := by
  induction p with
  | nil => simp [strictPath]
  | cons e r ih => cases e <;> simp [strictPath, ih]

/-- list hunk at any index the reference semantics accepts -/
theorem idx_leaf_any (L : FloatLaws) {n r : Json} {i : Int} {h : Hunk} (hw : n.wf = true)
    (e : applyStrict n [.idx i] h = some r)
    (hr : noVoid h.remove) (hb1 : h.before.length ≤ 1) (ha1 : h.after.length ≤ 1)
    (hwb : wfList h.before = true) (hwa : wfList h.after = true)
    (happ : i = -1 → h.add.length ≤ 1 ∧ (∀ b ∈ h.before, b.isVoid = true) ∧ (∀ a ∈ h.after, a.isVoid = true)) :
    ∃ r', evalTs n (listOpsT i h) = some r' ∧ untag r' = untag r := by
  by_cases hi : 0 ≤ i
  · exact idx_leaf L hw e hi hr hb1 ha1 hwb hwa
  · by_cases hm : i = -1
    · subst hm
      obtain ⟨h1, h2, h3⟩ := happ rfl
      have : listOpsT (-1) h = remT ["-"] h.remove ++ addT ["-"] h.add := by
        unfold listOpsT
        rw [ctxT_void h2, ctxT_void h3]
        rfl
      rw [this]
      exact idx_leaf_append e h1
    · exfalso
      rw [applyStrict_idx_nil] at e
      cases n <;> simp at e
      obtain ⟨_, e, _⟩ := e
      unfold splice at e
      have h1 : (i == -1) = false := by simpa using hm
      simp only [h1, Bool.false_eq_true, if_false] at e
      rw [if_pos (by simp; left; omega)] at e
      cases e

/-- **2. one hunk.** Wherever the native hunk applies (reference semantics `applyStrict`), the JSON
    Patch operations jd renders for it, evaluated by the independent RFC 6902 evaluator on the same
    document, succeed with the same result (up to the Go dynamic type of array nodes). -/
theorem renderPatchHunk_sim (L : FloatLaws) {c r : Json} {h : Hunk} {ops : List PatchOp}
    (hw : c.wf = true) (hok : HunkOK h) (hptr : HunkPtrOK h)
    (e : applyStrict c h.path h = some r) (er : renderPatchHunk h = .ok ops) :
    ∃ r', eval c (ops.map PatchOp.toSpec) = some r' ∧ untag r' = untag r := by
  obtain ⟨s, bo, ao, hs, hne, hb1, ha1, hbo, hao, rfl⟩ := renderPatchHunk_ok er
  have hp := hptr.ptr s hs
  have hRA := (repL_rem hp h.remove hok.remNoVoid).append (repL_add hp h.add hok.addNoVoid)
  rcases eq_nil_or_snoc h.path with hnil | ⟨pp, last, hpath⟩
  · -- root
    have hli : lastIdx? h.path = none := by rw [hnil]; rfl
    have hbo' : bo = [] := by
      rcases repL_ctx hbo hptr.ptrBefore with ⟨h1, _⟩ | ⟨i, hi, _⟩
      · exact h1
      · rw [hli] at hi; cases hi
    have hao' : ao = [] := by
      rcases repL_ctx hao hptr.ptrAfter with ⟨h1, _⟩ | ⟨i, hi, _⟩
      · exact h1
      · rw [hli] at hi; cases hi
    subst hbo' hao'
    rw [hnil] at e
    have := root_leaf e hok.remNoVoid hok.addNoVoid hne
    refine ⟨r, ?_, rfl⟩
    simp only [List.nil_append]
    rw [eval_of_rep hRA, hnil]
    exact this
  · cases last with
    | key k =>
      have hli : lastIdx? h.path = none := by rw [hpath]; exact lastIdx_concat_key pp k
      have hbo' : bo = [] := by
        rcases repL_ctx hbo hptr.ptrBefore with ⟨h1, _⟩ | ⟨i, hi, _⟩
        · exact h1
        · rw [hli] at hi; cases hi
      have hao' : ao = [] := by
        rcases repL_ctx hao hptr.ptrAfter with ⟨h1, _⟩ | ⟨i, hi, _⟩
        · exact h1
        · rw [hli] at hi; cases hi
      subst hbo' hao'
      rw [hpath] at e
      have hnePaths : ∀ o ∈ remT [k] h.remove ++ addT [k] h.add, o.path ≠ [] := by
        intro o ho
        rcases List.mem_append.1 ho with ho | ho
        · rw [remT_path o ho]; simp
        · rw [addT_path o ho]; simp
      obtain ⟨r', ev, hu⟩ := nav _ hnePaths (.key k) h
        (fun n r hw e => ⟨r, key_leaf hw e hok.remNoVoid hok.addNoVoid hne, rfl⟩) pp c r hw e
      refine ⟨r', ?_, hu⟩
      simp only [List.nil_append]
      rw [eval_of_rep hRA, hpath, ptoks_concat]
      rw [List.map_append, remT_under, addT_under] at ev
      exact ev
    | idx i =>
      have hli : lastIdx? h.path = some i := by rw [hpath]; exact lastIdx_concat_idx pp i
      rw [hpath] at e
      have hnePaths : ∀ o ∈ listOpsT i h, o.path ≠ [] := by
        intro o ho
        simp only [listOpsT, List.mem_append] at ho
        rcases ho with ((ho | ho) | ho) | ho
        · rw [ctxT_path o ho]; simp
        · rw [ctxT_path o ho]; simp
        · rw [remT_path o ho]; simp
        · rw [addT_path o ho]; simp
      obtain ⟨r', ev, hu⟩ := nav _ hnePaths (.idx i) h
        (fun n r hw e => idx_leaf_any L hw e hok.remNoVoid hb1 ha1 hok.wfBefore hok.wfAfter
          (fun hm => hok.append (by rw [hli, hm]))) pp c r hw e
      refine ⟨r', ?_, hu⟩
      -- the rendered context tests
      have hB : RepL bo ((ctxT [idxTok (i - 1)] h.before).map (TOp.under (ptoks pp))) := by
        rw [ctxT_under]
        rcases repL_ctx hbo hptr.ptrBefore with ⟨h1, h2⟩ | ⟨i', hi', h2⟩
        · rw [h1, h2]; exact .nil
        · rw [hli] at hi'; cases hi'
          rw [hpath, setLastIdx_concat, ptoks_concat] at h2
          exact h2
      have hA : RepL ao ((ctxT [idxTok (i + (h.remove.length : Int))] h.after).map (TOp.under (ptoks pp))) := by
        rw [ctxT_under]
        rcases repL_ctx hao hptr.ptrAfter with ⟨h1, h2⟩ | ⟨i', hi', h2⟩
        · rw [h1, h2]; exact .nil
        · rw [hli] at hi'; cases hi'
          rw [hpath, setLastIdx_concat, ptoks_concat] at h2
          exact h2
      have hR := repL_rem hp h.remove hok.remNoVoid
      have hAd := repL_add hp h.add hok.addNoVoid
      rw [hpath, ptoks_concat] at hR hAd
      rw [eval_of_rep (((hB.append hA).append hR).append hAd)]
      simp only [listOpsT, List.map_append, remT_under, addT_under] at ev
      exact ev
    | _ =>
      exfalso
      rw [hpath] at e
      have := applyStrict_strictPath e
      simp [strictPath_append, strictPath] at this

/-! ### 3. sequences of hunks -/

theorem keysSorted_cons_iff {β} {k : String} {v : β} {r : List (String × β)} :
    keysSorted ((k, v) :: r) = true ↔ (∀ k' v', (k', v') ∈ r → k < k') ∧ keysSorted r = true := by
  constructor
  · intro h; exact ⟨keysSorted_head_lt h, keysSorted_tail h⟩
  · rintro ⟨h1, h2⟩
    cases r with
    | nil => rfl
    | cons kv r' =>
      obtain ⟨k1, v1⟩ := kv
      simp only [keysSorted, Bool.and_eq_true, decide_eq_true_eq]
      exact ⟨h1 k1 v1 List.mem_cons_self, h2⟩

theorem mem_ainsert {β} {k : String} {v : β} {k' : String} {v' : β} :
    ∀ {kvs : List (String × β)}, (k', v') ∈ ainsert k v kvs → (k', v') = (k, v) ∨ (k', v') ∈ kvs
  | [], h => by simp [ainsert] at h; exact Or.inl (by simp [h])
  | (k0, v0) :: r, h => by
    simp only [ainsert] at h
    split at h
    · rcases List.mem_cons.1 h with h | h
      · exact Or.inl h
      · exact Or.inr h
    · split at h
      · rcases List.mem_cons.1 h with h | h
        · exact Or.inl h
        · exact Or.inr (List.mem_cons_of_mem _ h)
      · rcases List.mem_cons.1 h with h | h
        · exact Or.inr (h ▸ List.mem_cons_self)
        · rcases mem_ainsert h with h | h
          · exact Or.inl h
          · exact Or.inr (List.mem_cons_of_mem _ h)

theorem keysSorted_ainsert {β} (k : String) (v : β) :
    ∀ {kvs : List (String × β)}, keysSorted kvs = true → keysSorted (ainsert k v kvs) = true
  | [], _ => rfl
  | (k0, v0) :: r, hs => by
    simp only [ainsert]
    split
    · rename_i hlt
      simp only [keysSorted, Bool.and_eq_true, decide_eq_true_eq]
      exact ⟨hlt, hs⟩
    · split
      · rename_i _ he; subst he
        rw [keysSorted_cons_iff] at hs ⊢; exact hs
      · rename_i hlt hne
        rw [keysSorted_cons_iff] at hs ⊢
        refine ⟨?_, keysSorted_ainsert k v hs.2⟩
        intro k' v' hm
        rcases mem_ainsert hm with h | h
        · injection h with h1 _; subst h1
          have hle : k0 ≤ k' := hlt
          apply Decidable.by_contra
          intro hc
          exact hne (String.le_antisymm hc hle)
        · exact hs.1 k' v' h

theorem wfKvs_ainsert (k : String) {v : Json} (hv : v.wf = true) :
    ∀ {kvs : List (String × Json)}, wfKvs kvs = true → wfKvs (ainsert k v kvs) = true
  | [], _ => by simp [ainsert, wfKvs, hv]
  | (k0, v0) :: r, hs => by
    simp only [wfKvs, Bool.and_eq_true] at hs
    simp only [ainsert]
    split
    · simp [wfKvs, hv, hs]
    · split
      · simp [wfKvs, hv, hs]
      · simp [wfKvs, hs, wfKvs_ainsert k hv hs.2]

theorem mem_aerase {β} {k : String} {kv : String × β} :
    ∀ {kvs : List (String × β)}, kv ∈ aerase k kvs → kv ∈ kvs
  | [], h => by simp [aerase] at h
  | (k0, v0) :: r, h => by
    simp only [aerase] at h
    split at h
    · exact List.mem_cons_of_mem _ h
    · rcases List.mem_cons.1 h with h | h
      · exact h ▸ List.mem_cons_self
      · exact List.mem_cons_of_mem _ (mem_aerase h)

theorem keysSorted_aerase {β} (k : String) :
    ∀ {kvs : List (String × β)}, keysSorted kvs = true → keysSorted (aerase k kvs) = true
  | [], _ => rfl
  | (k0, v0) :: r, hs => by
    simp only [aerase]
    split
    · exact keysSorted_tail hs
    · rw [keysSorted_cons_iff] at hs ⊢
      exact ⟨fun k' v' hm => hs.1 k' v' (mem_aerase hm), keysSorted_aerase k hs.2⟩

theorem wfKvs_aerase (k : String) :
    ∀ {kvs : List (String × Json)}, wfKvs kvs = true → wfKvs (aerase k kvs) = true
  | [], _ => rfl
  | (k0, v0) :: r, hs => by
    simp only [wfKvs, Bool.and_eq_true] at hs
    simp only [aerase]
    split
    · exact hs.2
    · simp [wfKvs, hs, wfKvs_aerase k hs.2]

theorem wfList_iff : ∀ {l : List Json}, wfList l = true ↔ ∀ x ∈ l, x.wf = true
  | [] => by simp [wfList]
  | x :: r => by simp [wfList, wfList_iff (l := r)]

theorem splice_wf {l l' : List Json} {i : Int} {h : Hunk} (hl : wfList l = true)
    (ha : wfList h.add = true) (e : splice l i h = some l') : wfList l' = true := by
  unfold splice at e
  rw [wfList_iff] at hl ha ⊢
  split at e
  · split at e
    · injection e with e; subst e
      intro x hx
      rcases List.mem_append.1 hx with hx | hx
      · exact hl x hx
      · exact ha x hx
    · cases e
  · split at e
    · cases e
    · dsimp only at e
      split at e
      · injection e with e; subst e
        intro x hx
        simp only [List.mem_append] at hx
        rcases hx with (hx | hx) | hx
        · exact hl x (List.mem_of_mem_take hx)
        · exact ha x hx
        · exact hl x (List.mem_of_mem_drop (List.mem_of_mem_drop hx))
      · cases e

theorem applyStrict_wf {n r : Json} {p : Path} {h : Hunk} (hn : n.wf = true)
    (ha : wfList h.add = true) (e : applyStrict n p h = some r) : r.wf = true := by
  fun_induction applyStrict n p h generalizing r
  all_goals try (simp at e; done)
  · -- root
    injection e with e; subst e
    simp only [single, Json.singleValue]
    split
    · rfl
    · rename_i hh
      rw [hh] at ha
      simp only [wfList, Bool.and_eq_true] at ha
      exact ha.1
  · simp only [Option.map_eq_some_iff] at e
    obtain ⟨l', e, rfl⟩ := e
    exact splice_wf (by simpa [Json.wf] using hn) ha e
  · rename_i ih
    simp only [Option.map_eq_some_iff] at e
    obtain ⟨v, e, rfl⟩ := e
    rename_i x hx
    simp only [Json.wf] at hn
    have hxs := hn
    have := ih (wfList_iff.1 hxs _ (List.mem_of_getElem? hx)) ha e
    simp only [Json.wf]
    rw [wfList_iff] at hxs ⊢
    intro y hy
    rcases List.mem_or_eq_of_mem_set hy with hy | rfl
    · exact hxs y hy
    · exact this
  · rename_i ih
    simp only [Option.map_eq_some_iff] at e
    obtain ⟨v, e, rfl⟩ := e
    simp only [Json.wf, Bool.and_eq_true] at hn
    rename_i k rest h kvs
    have hc : ((alookup k kvs).getD Json.void).wf = true := by
      cases hl : alookup k kvs with
      | none => rfl
      | some x => exact alookup_wf hl hn.2
    have := ih hc ha e
    split
    · simp [Json.wf, keysSorted_aerase _ hn.1, wfKvs_aerase _ hn.2]
    · simp [Json.wf, keysSorted_ainsert _ _ hn.1, wfKvs_ainsert _ this hn.2]

theorem applyStrictAll_untag_congr : ∀ (d : Diff) {n n' : Json}, untag n = untag n' →
    (applyStrictAll n d).map untag = (applyStrictAll n' d).map untag
  | [], n, n', e => by simp [applyStrictAll, e]
  | h :: d, n, n', e => by
    have h1 := applyStrict_untag_congr e h.path h
    simp only [applyStrictAll]
    cases ha : applyStrict n h.path h with
    | none =>
      rw [ha] at h1
      cases hb : applyStrict n' h.path h with
      | none => rfl
      | some b => rw [hb] at h1; cases h1
    | some a =>
      rw [ha] at h1
      cases hb : applyStrict n' h.path h with
      | none => rw [hb] at h1; cases h1
      | some b =>
        rw [hb] at h1
        simp only [Option.map_some, Option.some.injEq] at h1
        simpa using applyStrictAll_untag_congr d h1

/-- **3. a whole diff.** Wherever the native diff applies hunk after hunk (reference semantics),
    the rendered JSON Patch evaluated by the independent RFC 6902 evaluator succeeds on the same
    document with the same result up to array tags. -/
theorem renderPatchOps_sim (L : FloatLaws) :
    ∀ (d : Diff) {c r : Json} {ops : List PatchOp}, c.wf = true →
      (∀ h ∈ d, HunkOK h ∧ HunkPtrOK h) →
      applyStrictAll c d = some r → renderPatchOps d = .ok ops →
      ∃ r', eval c (ops.map PatchOp.toSpec) = some r' ∧ untag r' = untag r
  | [], c, r, ops, _, _, e, er => by
    simp only [applyStrictAll] at e; injection e with e; subst e
    rw [renderPatchOps] at er; injection er with er; subst er
    exact ⟨c, rfl, rfl⟩
  | h :: d, c, r, ops, hw, hd, e, er => by
    obtain ⟨a, b, ha, hb, rfl⟩ := renderPatchOps_ok_cons er
    simp only [applyStrictAll] at e
    cases h1 : applyStrict c h.path h with
    | none => rw [h1] at e; cases e
    | some r1 =>
      rw [h1] at e; simp only [Option.bind_some] at e
      obtain ⟨hok, hptr⟩ := hd h List.mem_cons_self
      obtain ⟨r1', e1, u1⟩ := renderPatchHunk_sim L hw hok hptr h1 ha
      have hw1 : r1.wf = true := applyStrict_wf hw hok.wfAdd h1
      have hw1' : r1'.wf = true := by rw [← untag_wf, u1, untag_wf]; exact hw1
      have hc := applyStrictAll_untag_congr d u1
      rw [e] at hc
      cases h2 : applyStrictAll r1' d with
      | none => rw [h2] at hc; cases hc
      | some r2 =>
        rw [h2] at hc
        simp only [Option.map_some, Option.some.injEq] at hc
        obtain ⟨r', e2, u2⟩ := renderPatchOps_sim L d hw1'
          (fun h' hm => hd h' (List.mem_cons_of_mem _ hm)) h2 hb
        refine ⟨r', ?_, by rw [u2, hc]⟩
        rw [List.map_append, eval_append, e1]
        exact e2

/-! ### 1(b) the pointer layer -/

/-- the token `writePointer` writes for a path element; `none` = refused -/
def wtok : PathElem → Option String
  | .key k => if (atoi? k).isSome then none else if k == "-" then none else some (ptrEscape k)
  | .idx i =>
    let j := floatTrunc (intToFloatBits i)
    some (if j == -1 then "-" else ptrEscape (toString j))
  | _ => none

def pe2json : PathElem → Json
  | .key k => .str k
  | .idx i => .num (intToFloatBits i)
  | .set => .obj []
  | .mset => .arr .raw []
  | .setKeys o => .obj o
  | .msetKeys o => .arr .raw [.obj o]

theorem writePointerPath_eq (p : Path) : writePointerPath p = writePointer (p.map pe2json) := by
  unfold writePointerPath pathToJson
  simp only
  congr 1

theorem writePointer_cons (e : PathElem) (r : List Json) :
    writePointer (pe2json e :: r) =
      match wtok e with
      | some t => (match writePointer r with | .ok rest => .ok ("/" ++ t ++ rest) | e' => e')
      | none => .err := by
  cases e with
  | key k =>
    simp only [pe2json, writePointer, wtok]
    by_cases h1 : (atoi? k).isSome = true <;> by_cases h2 : (k == "-") = true <;> simp [h1, h2]
    cases writePointer r <;> rfl
  | idx i =>
    simp only [pe2json, writePointer, wtok]
    by_cases h : (floatTrunc (intToFloatBits i) == -1) = true <;> simp [h] <;>
      cases writePointer r <;> rfl
  | _ => rfl

theorem writePointerPath_cons (e : PathElem) (p : Path) :
    writePointerPath (e :: p) =
      match wtok e with
      | some t => (match writePointerPath p with | .ok rest => .ok ("/" ++ t ++ rest) | e' => e')
      | none => .err := by
  rw [writePointerPath_eq, writePointerPath_eq, List.map_cons, writePointer_cons]

theorem writePointerPath_nil : writePointerPath [] = .ok "" := rfl

/-- the Int → float64 → Int conversion of an index is the identity (true for `|i| < 2^53`) -/
def IdxRT (i : Int) : Prop := floatTrunc (intToFloatBits i) = i

def idxRange (p : Path) : Prop := ∀ i, PathElem.idx i ∈ p → IdxRT i

/-- a path element jd can express as a JSON Pointer token -/
def expressible : PathElem → Prop
  | .key k => atoi? k = none ∧ k ≠ "-"
  | .idx _ => True
  | _ => False

theorem wtok_some {e : PathElem} {t : String} (h : wtok e = some t) (hr : ∀ i, e = .idx i → IdxRT i) :
    expressible e ∧ t.toList = escChars (elemTok e).toList := by
  cases e with
  | key k =>
    simp only [wtok] at h
    split at h
    · cases h
    · split at h
      · cases h
      · rename_i h1 h2
        injection h with h; subst h
        refine ⟨⟨by simpa using h1, by simpa using h2⟩, ptrEscape_toList k⟩
  | idx i =>
    simp only [wtok] at h
    injection h with h; subst h
    rw [hr i rfl]
    refine ⟨trivial, ?_⟩
    simp only [elemTok, idxTok]
    split
    · rfl
    · exact ptrEscape_toList _
  | _ => simp [wtok] at h

/-- **1(b)** what `writePointerPath` accepts, and the text it writes -/
theorem writePointerPath_ok : ∀ {p : Path} {s : String}, writePointerPath p = .ok s → idxRange p →
    (∀ e ∈ p, expressible e) ∧
    s.toList = (ptoks p).flatMap (fun t => '/' :: escChars t.toList)
  | [], s, h, _ => by
    rw [writePointerPath_nil] at h; injection h with h; subst h
    exact ⟨by simp, rfl⟩
  | e :: p, s, h, hr => by
    rw [writePointerPath_cons] at h
    cases ht : wtok e with
    | none => rw [ht] at h; cases h
    | some t =>
      rw [ht] at h
      cases hp : writePointerPath p with
      | err => rw [hp] at h; cases h
      | panic => rw [hp] at h; cases h
      | ok rest =>
        rw [hp] at h
        injection h with h; subst h
        obtain ⟨h1, h2⟩ := wtok_some ht (fun i hi => hr i (by rw [hi]; exact List.mem_cons_self))
        obtain ⟨h3, h4⟩ := writePointerPath_ok hp (fun i hi => hr i (List.mem_cons_of_mem _ hi))
        refine ⟨?_, ?_⟩
        · intro e' he'
          rcases List.mem_cons.1 he' with rfl | he'
          · exact h1
          · exact h3 e' he'
        · simp [ptoks, h2, h4]

/-- **1(b), refusal**: a path with a set / multiset / keyed element, a number-like key or the key
    `-` is refused -/
theorem writePointerPath_refuses : ∀ {p : Path}, (∃ e ∈ p, ¬ expressible e) → writePointerPath p = .err
  | [], h => by obtain ⟨_, h, _⟩ := h; cases h
  | e :: p, h => by
    rw [writePointerPath_cons]
    cases ht : wtok e with
    | none => rfl
    | some t =>
      have he : expressible e := by
        cases e with
        | key k =>
          simp only [wtok] at ht
          split at ht
          · cases ht
          · split at ht
            · cases ht
            · rename_i h1 h2; exact ⟨by simpa using h1, by simpa using h2⟩
        | idx i => trivial
        | _ => simp [wtok] at ht
      have : ∃ e' ∈ p, ¬ expressible e' := by
        obtain ⟨e', hm, hn⟩ := h
        rcases List.mem_cons.1 hm with rfl | hm
        · exact absurd he hn
        · exact ⟨e', hm, hn⟩
      simp only [writePointerPath_refuses this]

/-! `String.splitOn "/"` on characters (the legacy byte-position loop, via Batteries' validity lemmas) -/

section SplitOn
open String


theorem splitOnAux_slash (l m r : List Char) (acc : List String) :
    splitOnAux (ofList (l ++ m ++ r)) "/" ⟨utf8Len l⟩ ⟨utf8Len l + utf8Len m⟩ 0 acc =
      acc.reverse ++ (List.splitOnPPrepend (· == '/') r m.reverse).map ofList := by
  unfold splitOnAux
  simp only [List.append_assoc, atEnd_iff, rawEndPos_ofList, utf8Len_append, Pos.Raw.mk_le_mk,
    Nat.add_le_add_iff_left, (by omega : utf8Len m + utf8Len r ≤ utf8Len m ↔ utf8Len r = 0),
    utf8Len_eq_zero, List.reverse_cons]
  split
  · subst r
    simpa using extract_of_valid l m []
  · obtain ⟨c, r, rfl⟩ := r.exists_cons_of_ne_nil ‹_›
    have hg : Pos.Raw.get "/" 0 = '/' := by decide
    have hn : Pos.Raw.next "/" 0 = ⟨1⟩ := by decide
    have he : "/".rawEndPos = ⟨1⟩ := by decide
    have hu : ({ byteIdx := utf8Len l + utf8Len m } : Pos.Raw).unoffsetBy 0 = ⟨utf8Len l + utf8Len m⟩ := rfl
    simp only [hg, hn, he, hu, Pos.Raw.le_refl, if_true]
    simp only [by
      simpa [-ofList_append] using
        (⟨get_of_valid (l ++ m) (c :: r), next_of_valid (l ++ m) c r⟩ : _ ∧ _)]
    split <;> rename_i h
    · have hc : c = '/' := by simpa using h
      subst hc
      have hx : ({ byteIdx := utf8Len l + utf8Len m + '/'.utf8Size } : Pos.Raw).unoffsetBy ⟨1⟩ = ⟨utf8Len l + utf8Len m⟩ := by
        have : '/'.utf8Size = 1 := by decide
        simp [Pos.Raw.unoffsetBy, this]
      rw [hx]
      have := extract_of_valid l m ('/' :: r)
      simp only [List.append_assoc] at this
      rw [this]
      simpa [Nat.add_assoc, List.splitOnPPrepend_cons_eq_if] using
        splitOnAux_slash (l ++ m ++ ['/']) [] r ((ofList m) :: acc)
    · simpa [List.splitOnPPrepend_cons_eq_if, h, Nat.add_assoc] using
        splitOnAux_slash l (m ++ [c]) r acc
termination_by r.length

theorem splitOn_slash (s : String) :
    s.splitOn "/" = (List.splitOnP (· == '/') s.toList).map ofList := by
  have : ("/" == "") = false := by decide
  simp only [splitOn, this]
  simpa using splitOnAux_slash [] [] s.toList []

end SplitOn

theorem splitOnP_tokens (p : Char → Bool) (sep : Char) (hsep : p sep = true) :
    ∀ (tl : List (List Char)) (t0 : List Char), (∀ x ∈ t0, p x = false) →
      (∀ t ∈ tl, ∀ x ∈ t, p x = false) →
      List.splitOnP p (t0 ++ tl.flatMap (fun t => sep :: t)) = t0 :: tl
  | [], t0, h0, _ => by simpa using List.splitOnP_eq_singleton h0
  | t :: tl, t0, h0, h => by
    simp only [List.flatMap_cons, List.cons_append]
    rw [List.splitOnP_append_cons_of_forall_mem h0 sep hsep]
    congr 1
    exact splitOnP_tokens p sep hsep tl t (h t List.mem_cons_self)
      (fun t' ht' => h t' (List.mem_cons_of_mem _ ht'))

theorem mapM_decode (toks : List String) :
    (toks.map (fun t => String.ofList (escChars t.toList))).mapM
      (fun t => (decodeToken t.toList).map String.ofList) = some toks := by
  induction toks with
  | nil => rfl
  | cons t r ih =>
    simp only [List.map_cons, List.mapM_cons, String.toList_ofList, decodeToken_escChars,
      Option.map_some, String.ofList_toList, ih]
    rfl

/-- the text `/esc(t₁)/esc(t₂)…` parses (RFC 6901) to the tokens `t₁, t₂, …` -/
theorem parsePointer_of_toList {s : String} {toks : List String}
    (h : s.toList = toks.flatMap (fun t => '/' :: escChars t.toList)) :
    parsePointer s = some toks := by
  unfold parsePointer
  cases toks with
  | nil =>
    have : s = "" := by apply String.toList_inj.1; simpa using h
    simp [this]
  | cons t r =>
    have hne : (s == "") = false := by
      rw [beq_eq_false_iff_ne]
      intro he; rw [he] at h; simp at h
    have hsw : s.startsWith "/" = true := by
      rw [String.startsWith_string_iff, h]
      exact ⟨_, rfl⟩
    simp only [hne, hsw, Bool.false_eq_true, if_false, Bool.not_true]
    rw [splitOn_slash, h]
    have := splitOnP_tokens (· == '/') '/' (by simp)
      ((t :: r).map (fun t => escChars t.toList)) [] (by simp)
      (by
        intro t' ht' x hx
        obtain ⟨t'', _, rfl⟩ := List.mem_map.1 ht'
        have := escChars_no_slash t''.toList
        simp only [beq_eq_false_iff_ne, ne_eq]
        intro he; subst he; exact this hx)
    simp only [List.nil_append, List.flatMap_map] at this
    rw [this]
    simp only [List.map_cons, List.drop_succ_cons, List.drop_zero, List.map_map]
    exact mapM_decode (t :: r)

/-- **1(b)** the pointer jd writes for an expressible path parses to the path's tokens -/
theorem ptrOK_of_range {p : Path} (hr : idxRange p) : PtrOK p := by
  intro s hs
  exact parsePointer_of_toList (writePointerPath_ok hs hr).2


/-! ### the Int → float64 → Int conversion of indices -/

theorem bits_exp (N : Nat) (h : N < 2 ^ 64) :
    (((UInt64.ofNat N) >>> 52) &&& 0x7FF).toNat = N / 2 ^ 52 % 2 ^ 11 := by
  rw [UInt64.toNat_and, UInt64.toNat_shiftRight, UInt64.toNat_ofNat']
  have : (52 : UInt64).toNat % 64 = 52 := by decide
  rw [this, Nat.shiftRight_eq_div_pow, Nat.mod_eq_of_lt h]
  have : (0x7FF : UInt64).toNat = 2 ^ 11 - 1 := by decide
  rw [this, Nat.and_two_pow_sub_one_eq_mod]

theorem bits_frac (N : Nat) (h : N < 2 ^ 64) :
    ((UInt64.ofNat N) &&& 0xFFFFFFFFFFFFF).toNat = N % 2 ^ 52 := by
  rw [UInt64.toNat_and, UInt64.toNat_ofNat']
  have : (0xFFFFFFFFFFFFF : UInt64).toNat = 2 ^ 52 - 1 := by decide
  rw [this, Nat.and_two_pow_sub_one_eq_mod, Nat.mod_eq_of_lt h]

theorem bits_sign (N : Nat) (h : N < 2 ^ 64) :
    ((UInt64.ofNat N) >>> 63 == 1) = decide (N / 2 ^ 63 = 1) := by
  have : ((UInt64.ofNat N) >>> 63).toNat = N / 2 ^ 63 := by
    rw [UInt64.toNat_shiftRight, UInt64.toNat_ofNat']
    have : (63 : UInt64).toNat % 64 = 63 := by decide
    rw [this, Nat.shiftRight_eq_div_pow, Nat.mod_eq_of_lt h]
  rw [← this]
  by_cases hh : (UInt64.ofNat N >>> 63) = 1
  · rw [hh]; decide
  · have h2 : ¬ (UInt64.ofNat N >>> 63).toNat = 1 := fun e => hh (UInt64.toNat_inj.1 (by rw [e]; decide))
    rw [decide_eq_false h2]
    exact beq_false_of_ne hh
theorem floatTrunc_intToFloatBits {i : Int} (h : i.natAbs < 2 ^ 53) :
    floatTrunc (intToFloatBits i) = i := by
  by_cases h0 : i = 0
  · subst h0; decide
  have hn0 : i.natAbs ≠ 0 := by omega
  have hlo := Nat.log2_self_le hn0
  have hhi := Nat.lt_log2_self (n := i.natAbs)
  unfold intToFloatBits
  have hi0 : ¬ (i == 0) = true := by simpa using h0
  rw [if_neg hi0]
  unfold natLog2
  have hnb : ¬ (i.natAbs == 0) = true := by simpa using h0
  dsimp only
  rw [if_neg hnb]
  generalize hk : i.natAbs.log2 = k at hlo hhi
  generalize hn : i.natAbs = n at *
  have hk52 : k ≤ 52 := by
    rcases Nat.lt_or_ge 52 k with h' | h'
    · exfalso
      have : 2 ^ 53 ≤ 2 ^ k := Nat.pow_le_pow_right (by decide) h'
      omega
    · exact h'
  -- the mantissa
  have hP : 2 ^ k * 2 ^ (52 - k) = 2 ^ 52 := by rw [← Nat.pow_add]; congr 1; omega
  have hMlo : 2 ^ 52 ≤ n * 2 ^ (52 - k) := by
    rw [← hP]; exact Nat.mul_le_mul_right _ hlo
  have hMhi : n * 2 ^ (52 - k) < 2 ^ 53 := by
    have : 2 ^ (k + 1) * 2 ^ (52 - k) = 2 ^ 53 := by rw [← Nat.pow_add]; congr 1; omega
    rw [← this]; exact Nat.mul_lt_mul_of_pos_right hhi (Nat.pow_pos (by decide))
  generalize hM : n * 2 ^ (52 - k) = M at hMlo hMhi
  generalize hs : (if i < 0 then 1 else 0 : Nat) = s
  have hs1 : s ≤ 1 := by rw [← hs]; split <;> omega
  have hN : s * 2 ^ 63 + (1023 + k) * 2 ^ 52 + (M - 2 ^ 52) < 2 ^ 64 := by omega
  unfold floatTrunc
  simp only [bits_exp _ hN, bits_frac _ hN, bits_sign _ hN]
  have he : (s * 2 ^ 63 + (1023 + k) * 2 ^ 52 + (M - 2 ^ 52)) / 2 ^ 52 % 2 ^ 11 = 1023 + k := by omega
  have hf : (s * 2 ^ 63 + (1023 + k) * 2 ^ 52 + (M - 2 ^ 52)) % 2 ^ 52 = M - 2 ^ 52 := by omega
  have hsg : (s * 2 ^ 63 + (1023 + k) * 2 ^ 52 + (M - 2 ^ 52)) / 2 ^ 63 = s := by omega
  rw [he, hf, hsg]
  have hm : M - 2 ^ 52 + 2 ^ 52 = M := by omega
  have e1 : (1023 + k == 0x7FF) = false := by simp; omega
  have e2 : (1023 + k == 0) = false := by simp
  simp only [e1, e2, Bool.false_eq_true, if_false, hm]
  have hv : (if 1023 + k ≥ 1075 then M * 2 ^ (1023 + k - 1075) else M / 2 ^ (1075 - (1023 + k))) = n := by
    split
    · have : k = 52 := by omega
      subst this
      simp at hM ⊢; omega
    · have : 1075 - (1023 + k) = 52 - k := by omega
      rw [this, ← hM, Nat.mul_div_cancel _ (Nat.pow_pos (by decide))]
  rw [hv]
  have hbig : ¬ ((n : Int) ≥ 2 ^ 63) := by omega
  simp only [hbig, if_false]
  rw [← hs]
  by_cases hneg : i < 0
  · simp [hneg]; omega
  · simp [hneg]; omega

theorem idxRT_of_bound {i : Int} (h : i.natAbs < 2 ^ 53) : IdxRT i := floatTrunc_intToFloatBits h

/-! ### final statements: pointer hypotheses discharged by index bounds -/

/-- every index the rendering writes is of magnitude below 2^53 (exact in a float64) -/
structure HunkRange (h : Hunk) : Prop where
  path : ∀ i, PathElem.idx i ∈ h.path → i.natAbs < 2 ^ 53
  ctx : ∀ i, lastIdx? h.path = some i →
    (i - 1).natAbs < 2 ^ 53 ∧ (i + (h.remove.length : Int)).natAbs < 2 ^ 53

theorem idxRange_setLastIdx {p : Path} {j : Int} (hp : ∀ i, PathElem.idx i ∈ p → i.natAbs < 2 ^ 53)
    (hj : j.natAbs < 2 ^ 53) : idxRange (setLastIdx p j) := by
  intro i hi
  apply idxRT_of_bound
  simp only [setLastIdx, List.mem_append, List.mem_singleton] at hi
  rcases hi with hi | hi
  · exact hp i (List.dropLast_subset _ hi)
  · injection hi with hi; subst hi; exact hj

theorem hunkPtrOK_of_range {h : Hunk} (hr : HunkRange h) : HunkPtrOK h where
  ptr := ptrOK_of_range (fun i hi => idxRT_of_bound (hr.path i hi))
  ptrBefore := fun i hi => ptrOK_of_range (idxRange_setLastIdx hr.path (hr.ctx i hi).1)
  ptrAfter := fun i hi => ptrOK_of_range (idxRange_setLastIdx hr.path (hr.ctx i hi).2)

/-- **C09, one hunk**: the native hunk applies ⇒ its rendered JSON Patch applies (independent RFC 6902
    evaluator) with the same result up to array tags. -/
theorem renderPatchHunk_correct (L : FloatLaws) {c r : Json} {h : Hunk} {ops : List PatchOp}
    (hw : c.wf = true) (hok : HunkOK h) (hr : HunkRange h)
    (e : applyStrict c h.path h = some r) (er : renderPatchHunk h = .ok ops) :
    ∃ r', eval c (ops.map PatchOp.toSpec) = some r' ∧ untag r' = untag r :=
  renderPatchHunk_sim L hw hok (hunkPtrOK_of_range hr) e er

/-- **C09, a diff**: the native diff applies ⇒ the rendered JSON Patch applies with the same result
    up to array tags. -/
theorem renderPatchOps_correct (L : FloatLaws) {d : Diff} {c r : Json} {ops : List PatchOp}
    (hw : c.wf = true) (hd : ∀ h ∈ d, HunkOK h ∧ HunkRange h)
    (e : applyStrictAll c d = some r) (er : renderPatchOps d = .ok ops) :
    ∃ r', eval c (ops.map PatchOp.toSpec) = some r' ∧ untag r' = untag r :=
  renderPatchOps_sim L d hw (fun h hm => ⟨(hd h hm).1, hunkPtrOK_of_range (hd h hm).2⟩) e er

/-- **4 (pointers)**: every operation of a rendered hunk carries a well-formed JSON Pointer -/
theorem renderPatchHunk_paths_parse {h : Hunk} {ops : List PatchOp} (hr : HunkRange h)
    (er : renderPatchHunk h = .ok ops) : ∀ o ∈ ops, (parsePointer o.path).isSome = true := by
  obtain ⟨s, bo, ao, hs, _, _, _, hb, ha, rfl⟩ := renderPatchHunk_ok er
  have hP := hunkPtrOK_of_range hr
  have hp := hP.ptr s hs
  have hctx : ∀ {ctx f bo}, ctxOps h ctx f = .ok bo →
      (∀ i, lastIdx? h.path = some i → PtrOK (setLastIdx h.path (f i))) →
      ∀ o ∈ bo, (parsePointer o.path).isSome = true := by
    intro ctx f bo e hf o ho
    rcases ctxOps_ok e with ⟨rfl, _⟩ | ⟨b, i, pp, _, _, hi, hw, rfl⟩
    · cases ho
    · simp only [List.mem_singleton] at ho; subst ho
      simp [hf i hi pp hw]
  intro o ho
  simp only [List.mem_append] at ho
  rcases ho with ((ho | ho) | ho) | ho
  · exact hctx hb hP.ptrBefore o ho
  · exact hctx ha hP.ptrAfter o ho
  · unfold remOpsOf at ho
    split at ho
    · cases ho
    · split at ho
      · cases ho
      · simp only [List.mem_flatMap, List.mem_cons, List.not_mem_nil, or_false] at ho
        obtain ⟨_, _, rfl | rfl⟩ := ho <;> simp [hp]
  · unfold addOpsOf at ho
    split at ho
    · cases ho
    · split at ho
      · cases ho
      · simp only [List.mem_map] at ho
        obtain ⟨_, _, rfl⟩ := ho; simp [hp]


/-! ### findings: where the rendering is NOT faithful (hand-written diffs at index -1) -/

def cexDoc : Json := .arr .raw [.null]
def cexAppend2 : Hunk := { path := [.idx (-1)], add := [.str "a", .str "b"] }

theorem wpp_append : writePointerPath [.idx (-1)] = .ok "/-" := by
  rw [writePointerPath_cons, writePointerPath_nil]
  have : wtok (.idx (-1)) = some "-" := by
    simp only [wtok, floatTrunc_intToFloatBits (i := -1) (by decide)]
    rfl
  rw [this]; rfl

theorem cex_render : renderPatchHunk cexAppend2 =
    .ok [{ op := "add", path := "/-", value := .str "b" }, { op := "add", path := "/-", value := .str "a" }] := by
  rw [renderPatchHunk_eq]
  simp [renderPatchHunk', cexAppend2, wpp_append, ctxOps, remOpsOf, addOpsOf, Json.isVoid]
  rfl

theorem pp_dash : parsePointer "/-" = some ["-"] := parsePointer_of_toList (by decide)

/-- finding: an append hunk (index -1) with two added values is rendered as two `add` operations at the pointer slash-dash, last value first,
    which RFC 6902 evaluates to `[.., b, a]` while the native patch gives `[.., a, b]` -/
def cexOps : List PatchOp :=
  [{ op := "add", path := "/-", value := .str "b" }, { op := "add", path := "/-", value := .str "a" }]

theorem cex_render' : renderPatchHunk cexAppend2 = .ok cexOps := cex_render

theorem cex_append_reversed :
    applyStrict cexDoc cexAppend2.path cexAppend2 = some (Json.arr .raw [.null, .str "a", .str "b"]) ∧
    renderPatchHunk cexAppend2 = .ok cexOps ∧
    eval cexDoc (cexOps.map PatchOp.toSpec) = some (Json.arr .raw [.null, .str "b", .str "a"]) := by
  refine ⟨?_, cex_render, ?_⟩
  · simp [applyStrict, cexDoc, cexAppend2, splice]
  · simp [cexOps, eval, evalOp, PatchOp.toSpec, pp_dash, addP, cexDoc]
def cexAppendCtx : Hunk := { path := [.idx (-1)], before := [.null], add := [.str "a"] }
def cexOps2 : List PatchOp :=
  [{ op := "test", path := "/-2", value := .null }, { op := "add", path := "/-", value := .str "a" }]

theorem wpp_m2 : writePointerPath [.idx (-2)] = .ok "/-2" := by
  rw [writePointerPath_cons, writePointerPath_nil]
  have : wtok (.idx (-2)) = some "-2" := by
    simp only [wtok, floatTrunc_intToFloatBits (i := -2) (by decide)]
    decide
  rw [this]; rfl

theorem cex_render2 : renderPatchHunk cexAppendCtx = .ok cexOps2 := by
  rw [renderPatchHunk_eq]
  simp [renderPatchHunk', cexAppendCtx, wpp_append, ctxOps, remOpsOf, addOpsOf, Json.isVoid, lastIdx?,
    setLastIdx, wpp_m2, cexOps2]
  rfl

theorem pp_m2 : parsePointer "/-2" = some ["-2"] := parsePointer_of_toList (by decide)

/-- finding: an append hunk (index -1) carrying a line of before-context applies natively (the context
    is not looked at) but its rendering tests the pointer slash-minus-two, which no RFC 6902
    evaluator can resolve: the rendered patch is rejected -/
theorem cex_append_context :
    applyStrict cexDoc cexAppendCtx.path cexAppendCtx = some (Json.arr .raw [.null, .str "a"]) ∧
    renderPatchHunk cexAppendCtx = .ok cexOps2 ∧
    eval cexDoc (cexOps2.map PatchOp.toSpec) = none := by
  refine ⟨?_, cex_render2, ?_⟩
  · simp [applyStrict, cexDoc, cexAppendCtx, splice]
  · have : arrayIndex? "-2" = none := by decide
    simp [cexOps2, eval, evalOp, PatchOp.toSpec, pp_m2, getP, cexDoc, this]

/-! ### W. the rendering of one hunk with an ARBITRARY pointer writer `W`

`renderPatchHunk` is `renderPatchHunkW writePointerPath`. The shape lemmas and the simulation
`renderPatchHunkW_sim` use nothing about the writer but `PtrOKW W` (what it writes parses, RFC 6901, to
the tokens of the path): JdProofs.PatchNeverMorePermissive instantiates them with a writer that does
not refuse number-like member names (which `readPointer` produces since the repair D30). -/

/-- the context test of `renderPatchHunk` (before: `f i = i - 1`, after: `f i = i + |Remove|`) -/
def ctxOpsW (W : Path → Outcome String) (h : Hunk) (ctx : List Json) (f : Int → Int) : Outcome (List PatchOp) :=
  match ctx with
  | [b] =>
    if b.isVoid then .ok []
    else if h.path.isEmpty then .err
    else match lastIdx? h.path with
      | none => .err
      | some i =>
        W (setLastIdx h.path (f i)) >>= fun pp =>
          pure [{ op := "test", path := pp, value := b }]
  | _ => .ok []


def renderPatchHunkW (W : Path → Outcome String) (h : Hunk) : Outcome (List PatchOp) :=
  W h.path >>= fun path =>
  if h.remove.isEmpty && h.add.isEmpty then .err else
  if h.before.length > 1 then .err else
  ctxOpsW W h h.before (fun i => i - 1) >>= fun bo =>
  if h.after.length > 1 then .err else
  ctxOpsW W h h.after (fun i => i + (h.remove.length : Int)) >>= fun ao =>
  pure (bo ++ ao ++ remOpsOf path h.remove ++ addOpsOf path h.add)


theorem renderPatchHunkW_ok {W : Path → Outcome String} {h : Hunk} {ops : List PatchOp}
    (e : renderPatchHunkW W h = .ok ops) :
    ∃ s bo ao, W h.path = .ok s ∧ (h.remove.isEmpty && h.add.isEmpty) = false ∧
      h.before.length ≤ 1 ∧ h.after.length ≤ 1 ∧
      ctxOpsW W h h.before (fun i => i - 1) = .ok bo ∧
      ctxOpsW W h h.after (fun i => i + (h.remove.length : Int)) = .ok ao ∧
      ops = bo ++ ao ++ remOpsOf s h.remove ++ addOpsOf s h.add := by
  unfold renderPatchHunkW at e
  cases hs : W h.path with
  | err => rw [hs] at e; cases e
  | panic => rw [hs] at e; cases e
  | ok s =>
    rw [hs] at e
    simp only [Outcome.bind_ok] at e
    by_cases h1 : (h.remove.isEmpty && h.add.isEmpty) = true
    · rw [if_pos h1] at e; cases e
    by_cases h2 : h.before.length > 1
    · rw [if_neg h1, if_pos h2] at e; cases e
    rw [if_neg h1, if_neg h2] at e
    cases hb : ctxOpsW W h h.before (fun i => i - 1) with
    | err => rw [hb] at e; cases e
    | panic => rw [hb] at e; cases e
    | ok bo =>
      rw [hb] at e
      simp only [Outcome.bind_ok] at e
      by_cases h3 : h.after.length > 1
      · rw [if_pos h3] at e; cases e
      rw [if_neg h3] at e
      cases ha : ctxOpsW W h h.after (fun i => i + (h.remove.length : Int)) with
      | err => rw [ha] at e; cases e
      | panic => rw [ha] at e; cases e
      | ok ao =>
        rw [ha] at e
        simp only [Outcome.bind_ok] at e
        injection e with e
        refine ⟨s, bo, ao, rfl, by simpa using h1, by omega, by omega, rfl, rfl, e.symm⟩

theorem ctxOpsW_ok {W : Path → Outcome String} {h : Hunk} {ctx : List Json} {f : Int → Int} {bo : List PatchOp}
    (e : ctxOpsW W h ctx f = .ok bo) :
    (bo = [] ∧ (ctx.length = 1 → ctx = [.void])) ∨
    ∃ b i pp, ctx = [b] ∧ b.isVoid = false ∧ lastIdx? h.path = some i ∧
      W (setLastIdx h.path (f i)) = .ok pp ∧ bo = [{ op := "test", path := pp, value := b }] := by
  unfold ctxOpsW at e
  split at e
  · rename_i b
    by_cases hv : b.isVoid = true
    · rw [if_pos hv] at e; injection e with e
      left; refine ⟨e.symm, fun _ => ?_⟩
      cases b <;> simp_all [Json.isVoid]
    · rw [if_neg hv] at e
      split at e
      · cases e
      · split at e
        · cases e
        · rename_i i hi
          cases hw : W (setLastIdx h.path (f i)) with
          | err => rw [hw] at e; cases e
          | panic => rw [hw] at e; cases e
          | ok pp =>
            rw [hw] at e; injection e with e
            right; exact ⟨b, i, pp, rfl, by simpa using hv, hi, hw, e.symm⟩
  · injection e with e
    left; refine ⟨e.symm, fun hl => ?_⟩
    rename_i hne
    match ctx, hl with
    | [b], _ => exact absurd rfl (hne b)


/-- the pointer jd writes for `p` parses (RFC 6901) to the tokens of `p` -/
def PtrOKW (W : Path → Outcome String) (p : Path) : Prop := ∀ s, W p = .ok s → parsePointer s = some (ptoks p)


/-- the rendered context test and its parsed form (`f` = index shift) -/
theorem repL_ctxW {W : Path → Outcome String} {h : Hunk} {ctx : List Json} {f : Int → Int} {bo : List PatchOp}
    (e : ctxOpsW W h ctx f = .ok bo)
    (hP : ∀ i, lastIdx? h.path = some i → PtrOKW W (setLastIdx h.path (f i))) :
    (bo = [] ∧ ∀ p, ctxT p ctx = []) ∨
    ∃ i, lastIdx? h.path = some i ∧ RepL bo (ctxT (ptoks (setLastIdx h.path (f i))) ctx) := by
  rcases ctxOpsW_ok e with ⟨rfl, hc⟩ | ⟨b, i, pp, rfl, hv, hi, hw, rfl⟩
  · exact Or.inl ⟨rfl, ctxT_nil_of hc⟩
  · right
    refine ⟨i, hi, ?_⟩
    simp only [ctxT, hv, Bool.false_eq_true, if_false]
    exact .cons ⟨_, hP i hi pp hw, Or.inl ⟨rfl, rfl⟩⟩ .nil


/-- the pointers jd writes for the hunk parse to the expected tokens (discharged by `ptrOK_of_range`) -/
structure HunkPtrOKW (W : Path → Outcome String) (h : Hunk) : Prop where
  ptr : PtrOKW W h.path
  ptrBefore : ∀ i, lastIdx? h.path = some i → PtrOKW W (setLastIdx h.path (i - 1))
  ptrAfter : ∀ i, lastIdx? h.path = some i → PtrOKW W (setLastIdx h.path (i + (h.remove.length : Int)))


theorem renderPatchHunkW_sim (L : FloatLaws) {W : Path → Outcome String} {c r : Json} {h : Hunk} {ops : List PatchOp}
    (hw : c.wf = true) (hok : HunkOK h) (hptr : HunkPtrOKW W h)
    (e : applyStrict c h.path h = some r) (er : renderPatchHunkW W h = .ok ops) :
    ∃ r', eval c (ops.map PatchOp.toSpec) = some r' ∧ untag r' = untag r := by
  obtain ⟨s, bo, ao, hs, hne, hb1, ha1, hbo, hao, rfl⟩ := renderPatchHunkW_ok er
  have hp := hptr.ptr s hs
  have hRA := (repL_rem hp h.remove hok.remNoVoid).append (repL_add hp h.add hok.addNoVoid)
  rcases eq_nil_or_snoc h.path with hnil | ⟨pp, last, hpath⟩
  · -- root
    have hli : lastIdx? h.path = none := by rw [hnil]; rfl
    have hbo' : bo = [] := by
      rcases repL_ctxW hbo hptr.ptrBefore with ⟨h1, _⟩ | ⟨i, hi, _⟩
      · exact h1
      · rw [hli] at hi; cases hi
    have hao' : ao = [] := by
      rcases repL_ctxW hao hptr.ptrAfter with ⟨h1, _⟩ | ⟨i, hi, _⟩
      · exact h1
      · rw [hli] at hi; cases hi
    subst hbo' hao'
    rw [hnil] at e
    have := root_leaf e hok.remNoVoid hok.addNoVoid hne
    refine ⟨r, ?_, rfl⟩
    simp only [List.nil_append]
    rw [eval_of_rep hRA, hnil]
    exact this
  · cases last with
    | key k =>
      have hli : lastIdx? h.path = none := by rw [hpath]; exact lastIdx_concat_key pp k
      have hbo' : bo = [] := by
        rcases repL_ctxW hbo hptr.ptrBefore with ⟨h1, _⟩ | ⟨i, hi, _⟩
        · exact h1
        · rw [hli] at hi; cases hi
      have hao' : ao = [] := by
        rcases repL_ctxW hao hptr.ptrAfter with ⟨h1, _⟩ | ⟨i, hi, _⟩
        · exact h1
        · rw [hli] at hi; cases hi
      subst hbo' hao'
      rw [hpath] at e
      have hnePaths : ∀ o ∈ remT [k] h.remove ++ addT [k] h.add, o.path ≠ [] := by
        intro o ho
        rcases List.mem_append.1 ho with ho | ho
        · rw [remT_path o ho]; simp
        · rw [addT_path o ho]; simp
      obtain ⟨r', ev, hu⟩ := nav _ hnePaths (.key k) h
        (fun n r hw e => ⟨r, key_leaf hw e hok.remNoVoid hok.addNoVoid hne, rfl⟩) pp c r hw e
      refine ⟨r', ?_, hu⟩
      simp only [List.nil_append]
      rw [eval_of_rep hRA, hpath, ptoks_concat]
      rw [List.map_append, remT_under, addT_under] at ev
      exact ev
    | idx i =>
      have hli : lastIdx? h.path = some i := by rw [hpath]; exact lastIdx_concat_idx pp i
      rw [hpath] at e
      have hnePaths : ∀ o ∈ listOpsT i h, o.path ≠ [] := by
        intro o ho
        simp only [listOpsT, List.mem_append] at ho
        rcases ho with ((ho | ho) | ho) | ho
        · rw [ctxT_path o ho]; simp
        · rw [ctxT_path o ho]; simp
        · rw [remT_path o ho]; simp
        · rw [addT_path o ho]; simp
      obtain ⟨r', ev, hu⟩ := nav _ hnePaths (.idx i) h
        (fun n r hw e => idx_leaf_any L hw e hok.remNoVoid hb1 ha1 hok.wfBefore hok.wfAfter
          (fun hm => hok.append (by rw [hli, hm]))) pp c r hw e
      refine ⟨r', ?_, hu⟩
      -- the rendered context tests
      have hB : RepL bo ((ctxT [idxTok (i - 1)] h.before).map (TOp.under (ptoks pp))) := by
        rw [ctxT_under]
        rcases repL_ctxW hbo hptr.ptrBefore with ⟨h1, h2⟩ | ⟨i', hi', h2⟩
        · rw [h1, h2]; exact .nil
        · rw [hli] at hi'; cases hi'
          rw [hpath, setLastIdx_concat, ptoks_concat] at h2
          exact h2
      have hA : RepL ao ((ctxT [idxTok (i + (h.remove.length : Int))] h.after).map (TOp.under (ptoks pp))) := by
        rw [ctxT_under]
        rcases repL_ctxW hao hptr.ptrAfter with ⟨h1, h2⟩ | ⟨i', hi', h2⟩
        · rw [h1, h2]; exact .nil
        · rw [hli] at hi'; cases hi'
          rw [hpath, setLastIdx_concat, ptoks_concat] at h2
          exact h2
      have hR := repL_rem hp h.remove hok.remNoVoid
      have hAd := repL_add hp h.add hok.addNoVoid
      rw [hpath, ptoks_concat] at hR hAd
      rw [eval_of_rep (((hB.append hA).append hR).append hAd)]
      simp only [listOpsT, List.map_append, remT_under, addT_under] at ev
      exact ev
    | _ =>
      exfalso
      rw [hpath] at e
      have := applyStrict_strictPath e
      simp [strictPath_append, strictPath] at this


theorem renderPatchHunk_eq_W (h : Hunk) : renderPatchHunk h = renderPatchHunkW writePointerPath h := by
  rw [renderPatchHunk_eq]; rfl

theorem ctxOps_eq_W (h : Hunk) (ctx : List Json) (f : Int → Int) :
    ctxOps h ctx f = ctxOpsW writePointerPath h ctx f := rfl

/-! ### axioms -/

#print axioms decodeToken_ptrEscape
#print axioms writePointerPath_ok
#print axioms writePointerPath_refuses
#print axioms ptrOK_of_range
#print axioms floatTrunc_intToFloatBits
#print axioms arrayIndex_toString
#print axioms renderPatchHunk_wfOps
#print axioms renderPatchOps_wfOps
#print axioms renderPatchHunk_paths_parse
#print axioms renderPatchHunk_sim
#print axioms renderPatchHunk_correct
#print axioms renderPatchOps_correct
#print axioms cex_append_reversed
#print axioms cex_append_context

end Jd
