/-
  JdProofs.SetDiffPatch — property C01 in the SET and MULTISET readings (no SetKeys, strict
  strategy, no Precision): applying `a.Diff(b)` to `a` with the library's own patch code
  (`patchAll` / `patchM`, not a reference interpreter) yields a document that `Equals` `b` and is
  equivalent to `b` for the advertised equivalence `equivB`.

  Everything lives in the namespace `Jd.SetDP`.

  MAIN RESULTS (all stages reached: (A) sets, (B) multisets, (C) objects above, (D) different kinds)
    * `diff_then_patch_set`, `diff_then_patch_mset`, `diff_then_patch_setmodes`:
        for options `o` with `dispatchTag o = .set` (resp. `.mset`), `keysOf o = none`,
        `isMerge o = false`, `precOf o = 0`, documents `a b` with `setDoc` (plain arrays, sorted unique
        keys, finite numbers, no `-0`) and `DPL.memOK` (no void object member), and
        `HashFaithful o (subterms a ++ subterms b)`:
          ∃ r, patchAll sw a (diffM o a b) = .ok r ∧ equivB o r b = true ∧ equals o r b = true
        (for both values of `sw`: the keyed-member branch of `jsonSet.patch` is never reached).
      `patchM_diffM_set`, `patchM_diffM_mset`: the same for the library calls with `[.set]`, `[.mset]`.
    * `node_step`: the induction behind them, for every node and every path prefix (`Step`).
    * `set_step` / `mset_step` (stages A / B): one array against one array, members arbitrary documents.
    * `diffNode_nil_of_equivB`: equivalent documents have an EMPTY diff in the set modes (hence
      members of a set are atomic: two object members with the same identity have an empty sub-diff).
    * `diffSetElems_spec`, `parts_spec`, `setAdd_spec`, `bagSurplus_spec`: what the set / multiset diff
      computes (removed = members of `a` whose identity is not in `b`, one per identity; added =
      members of `b` whose identity is not in `a`; surplus counts for multisets).
    * `patchAll_key_frame`, `patchNode_obj_key`, `patch_replace`: hunks below an object key act on that
      member only; a hunk that removes the value itself replaces it (the removed value of an array is
      the PLAIN array, compared in list mode: the case repaired by commit 40917f3).
    * `Example.ex_set`, `Example.ex_mset`: a concrete pair (set hunk below a key, added member, object
      member of the set) satisfies all hypotheses; the `#eval`s show the run.

  HYPOTHESES and why
    * `HashFaithful o (subterms a ++ subterms b)`  equal hash codes only for equivalent nodes (the
      converse is the theorem `equivB_hash`). Needed for the `equivB` part:
      `Example.alias_needs_hashFaithful` (`[[]]` → `[""]`, known finding KF-C04-alias: empty diff,
      the patched document `Equals` the target but is not equivalent to it).
    * `FloatEq0`  (`|x - y| ≤ +0` only for `x = y`): equivalent numbers have equal hash codes.
    * `FloatLaws` (`|x - x| ≤ +0`): the patch checks the removed value against the value found with
      `Equals`; a value is removed as itself, so reflexivity of `Equals` is what is needed.
    * `DPL.memOK`  void stands for "absent"; a void member of the target is deleted by the patch
      (`Example.void_member_not_equiv`). Void is not a JSON value; the readers never produce it.
    * `precOf o = 0`, `keysOf o = none`, `isMerge o = false`: the reading of the property.
  No statement of the task was found false inside this domain.
-/
import JdModel
import JdSpec
import JdProofs.EqualsList
import JdProofs.NoPanic
import JdProofs.StrictPatch
import JdProofs.SetPatch
import JdProofs.EqualsSet
import JdProofs.DiffEmpty
import JdProofs.DiffPatchList
import JdProofs.Common

namespace Jd.SetDP
open Jd Jd.Spec

/-! ## 0. the options only matter through `dispatchTag`, `precOf`, `keysOf` -/

theorem effTag_optcongr {o o' : Opts} (h : dispatchTag o = dispatchTag o') (t : Tag) :
    effTag o t = effTag o' t := by
  cases t <;> simp [effTag, h]

theorem dispatch_optcongr {o o' : Opts} (h : dispatchTag o = dispatchTag o') (b : Json) :
    b.dispatch o = b.dispatch o' := by
  cases b with
  | arr t xs => cases t <;> simp [Json.dispatch, h]
  | _ => rfl

mutual
theorem hashCode_optcongr {o o' : Opts} (h : dispatchTag o = dispatchTag o') :
    ∀ a : Json, hashCode o a = hashCode o' a
  | .void => by simp [hashCode]
  | .null => by simp [hashCode]
  | .bool b => by cases b <;> simp [hashCode]
  | .num _ => by simp [hashCode]
  | .str _ => by simp [hashCode]
  | .arr t xs => by simp only [hashCode, effTag_optcongr h t, hashList_optcongr h xs]
  | .obj kvs => by simp only [hashCode, hashKvs_optcongr h kvs]
theorem hashList_optcongr {o o' : Opts} (h : dispatchTag o = dispatchTag o') :
    ∀ xs : List Json, hashList o xs = hashList o' xs
  | [] => by simp [hashList]
  | x :: r => by simp only [hashList, hashCode_optcongr h x, hashList_optcongr h r]
theorem hashKvs_optcongr {o o' : Opts} (h : dispatchTag o = dispatchTag o') :
    ∀ kvs : List (String × Json), hashKvs o kvs = hashKvs o' kvs
  | [] => by simp [hashKvs]
  | (k, v) :: r => by simp only [hashKvs, hashCode_optcongr h v, hashKvs_optcongr h r]
end

mutual
theorem equals_optcongr {o o' : Opts} (h : dispatchTag o = dispatchTag o')
    (hp : precOf o = precOf o') : ∀ a b : Json, equals o a b = equals o' a b
  | .void, b => by simp [equals]
  | .null, b => by simp [equals]
  | .bool _, b => by cases b <;> simp [equals]
  | .num _, b => by cases b <;> simp [equals, hp]
  | .str _, b => by cases b <;> simp [equals]
  | .arr t xs, b => by
    have e := equalsList_optcongr h hp xs
    simp only [equals, effTag_optcongr h t, dispatch_optcongr h b, hashCode_optcongr h, e]
  | .obj kvs, b => by
    cases b with
    | obj kvs' => simp only [equals, equalsKvs_optcongr h hp kvs kvs']
    | _ => simp [equals]
theorem equalsList_optcongr {o o' : Opts} (h : dispatchTag o = dispatchTag o')
    (hp : precOf o = precOf o') : ∀ xs ys : List Json, equalsList o xs ys = equalsList o' xs ys
  | [], ys => by cases ys <;> simp [equalsList]
  | x :: r, ys => by
    cases ys with
    | nil => simp [equalsList]
    | cons y ys => simp only [equalsList, equals_optcongr h hp x y, equalsList_optcongr h hp r ys]
theorem equalsKvs_optcongr {o o' : Opts} (h : dispatchTag o = dispatchTag o')
    (hp : precOf o = precOf o') :
    ∀ r kvs' : List (String × Json), equalsKvs o r kvs' = equalsKvs o' r kvs'
  | [], _ => by simp [equalsKvs]
  | (k, v) :: r, kvs' => by
    simp only [equalsKvs, equalsKvs_optcongr h hp r kvs']
    cases alookup k kvs' with
    | none => rfl
    | some v' => simp only [equals_optcongr h hp v v']
end

theorem identOf_optcongr {o o' : Opts} (h : dispatchTag o = dispatchTag o')
    (hk : keysOf o = none) (hk' : keysOf o' = none) : identOf o = identOf o' := by
  funext x
  rw [identOf_eq_hashCode hk, identOf_eq_hashCode hk', hashCode_optcongr h]

theorem patchSetLeaf_optcongr {o : Opts} (hd : dispatchTag o = .set) (hk : keysOf o = none)
    (hp : precOf o = 0) (s remove add : List Json) :
    patchSetLeaf [.set] s remove add = patchSetLeaf o s remove add := by
  have h : dispatchTag [Opt.set] = dispatchTag o := by rw [hd]; rfl
  have e1 : identOf [Opt.set] = identOf o := identOf_optcongr h rfl hk
  have e2 : equals [Opt.set] = equals o := by
    funext a b; exact equals_optcongr h (by rw [hp]; rfl) a b
  have e3 : ∀ am rem, setRemoveLoop [Opt.set] am rem = setRemoveLoop o am rem := by
    intro am rem
    induction rem generalizing am with
    | nil => simp [setRemoveLoop]
    | cons v r ih => simp only [setRemoveLoop, e1, e2, ih]
  simp only [patchSetLeaf, e1, e3]

theorem patchMsetLeaf_optcongr {o : Opts} (hd : dispatchTag o = .mset) (a remove add : List Json) :
    patchMsetLeaf [.mset] a remove add = patchMsetLeaf o a remove add := by
  have h : dispatchTag [Opt.mset] = dispatchTag o := by rw [hd]; rfl
  have e1 : ∀ l, hashList [Opt.mset] l = hashList o l := hashList_optcongr h
  have e2 : ∀ hh l, hashLookup [Opt.mset] hh l = hashLookup o hh l := by
    intro hh l
    induction l with
    | nil => simp [hashLookup]
    | cons x r ih => simp only [hashLookup, ih, hashCode_optcongr h x]
  simp only [patchMsetLeaf, e1, e2]

/-! ## 1. the domain -/

/-- the documents of the theorem: `setDoc` (as read from JSON text, sorted unique keys, finite
    numbers, no `-0`) and no void object member (void stands for "absent") -/
structure Ok (x : Json) : Prop where
  sd : x.setDoc = true
  mem : DPL.memOK x = true

theorem Ok.docOk {x : Json} (h : Ok x) : DocOk x := docOk_of_setDoc h.sd

theorem Ok.rawDoc {x : Json} (h : Ok x) : x.rawDoc = true := by
  have := h.sd; simp only [Json.setDoc, Bool.and_eq_true] at this; exact this.1.1.1
theorem Ok.wf {x : Json} (h : Ok x) : x.wf = true := by
  have := h.sd; simp only [Json.setDoc, Bool.and_eq_true] at this; exact this.1.1.2
theorem Ok.fin {x : Json} (h : Ok x) : x.finiteNums = true := by
  have := h.sd; simp only [Json.setDoc, Bool.and_eq_true] at this; exact this.1.2
theorem Ok.nnz {x : Json} (h : Ok x) : x.noNegZero = true := by
  have := h.sd; simp only [Json.setDoc, Bool.and_eq_true] at this; exact this.2

theorem ok_mk {x : Json} (h1 : x.rawDoc = true) (h2 : x.wf = true) (h3 : x.finiteNums = true)
    (h4 : x.noNegZero = true) (h5 : DPL.memOK x = true) : Ok x :=
  ⟨by simp [Json.setDoc, h1, h2, h3, h4], h5⟩

theorem Ok.elem {t : Tag} : ∀ {xs : List Json} {x : Json}, Ok (.arr t xs) → x ∈ xs → Ok x
  | [], _, _, hx => by cases hx
  | y :: r, x, h, hx => by
    have h1 := h.rawDoc; have h2 := h.wf; have h3 := h.fin; have h4 := h.nnz; have h5 := h.mem
    simp only [Json.rawDoc, rawDocList, Json.wf, wfList, Json.finiteNums, finiteNumsList,
      Json.noNegZero, noNegZeroList, DPL.memOK, DPL.memOKList, Bool.and_eq_true] at h1 h2 h3 h4 h5
    rcases List.mem_cons.1 hx with rfl | hx
    · exact ok_mk h1.2.1 h2.1 h3.1 h4.1 h5.1
    · exact Ok.elem (t := t) (xs := r)
        (ok_mk (by simp [Json.rawDoc, h1.1, h1.2.2]) (by simpa [Json.wf] using h2.2)
          (by simpa [Json.finiteNums] using h3.2) (by simpa [Json.noNegZero] using h4.2)
          (by simpa [DPL.memOK] using h5.2)) hx

theorem Ok.raw {t : Tag} {xs : List Json} (h : Ok (.arr t xs)) : t = .raw := h.docOk.raw

theorem Ok.sorted {kvs : List (String × Json)} (h : Ok (.obj kvs)) : keysSorted kvs = true :=
  h.docOk.sorted

theorem Ok.val : ∀ {kvs : List (String × Json)} {k : String} {v : Json}, Ok (.obj kvs) →
    (k, v) ∈ kvs → Ok v ∧ v.isVoid = false
  | [], _, _, _, hx => by cases hx
  | (k', v') :: r, k, v, h, hx => by
    have h1 := h.rawDoc; have h2 := h.wf; have h3 := h.fin; have h4 := h.nnz; have h5 := h.mem
    simp only [Json.rawDoc, rawDocKvs, Json.wf, wfKvs, Json.finiteNums, finiteNumsKvs,
      Json.noNegZero, noNegZeroKvs, DPL.memOK, DPL.memOKKvs, Bool.and_eq_true,
      Bool.not_eq_true'] at h1 h2 h3 h4 h5
    rcases List.mem_cons.1 hx with e | hx
    · cases e
      exact ⟨ok_mk h1.1 h2.2.1 h3.1 h4.1 h5.1.2, h5.1.1⟩
    · exact Ok.val (kvs := r)
        (ok_mk (by simpa [Json.rawDoc] using h1.2)
          (by simp [Json.wf, keysSorted_tail h2.1, h2.2.2])
          (by simpa [Json.finiteNums] using h3.2) (by simpa [Json.noNegZero] using h4.2)
          (by simpa [DPL.memOK] using h5.2)) hx

theorem Ok.lookup {kvs : List (String × Json)} {k : String} {v : Json} (h : Ok (.obj kvs))
    (hl : alookup k kvs = some v) : Ok v ∧ v.isVoid = false :=
  h.val (mem_of_alookup hl)

/-- `S` contains every sub-term of `x` -/
def Within (S : List Json) (x : Json) : Prop := ∀ z ∈ subterms x, z ∈ S

theorem Within.elem {S : List Json} {t : Tag} {xs : List Json} {x : Json}
    (h : Within S (.arr t xs)) (hx : x ∈ xs) : Within S x :=
  fun z hz => h z (subterms_elem_sub hx hz)

theorem Within.val {S : List Json} {kvs : List (String × Json)} {k : String} {v : Json}
    (h : Within S (.obj kvs)) (hm : (k, v) ∈ kvs) : Within S v :=
  fun z hz => h z (subterms_val_sub hm hz)

theorem Within.self {S : List Json} {x : Json} (h : Within S x) : x ∈ S :=
  h x (mem_subterms_self x)

/-- from "equal hash codes only for equivalent nodes" to the hypothesis of JdProofs.SetPatch -/
theorem faithful_of (F : FloatEq0) {o : Opts}
    (hm : dispatchTag o = .set ∨ dispatchTag o = .mset) (hk : keysOf o = none) (hp : precOf o = 0)
    {S : List Json} (HF : HashFaithful o S) {E : List Json}
    (hE : ∀ x ∈ E, DocOk x ∧ Within S x) : Faithful o E := by
  intro x hx y hy
  obtain ⟨dx, wx⟩ := hE x hx
  obtain ⟨dy, wy⟩ := hE y hy
  rw [identOf_eq_hashCode hk, identOf_eq_hashCode hk]
  refine ⟨⟨fun e => HF x wx.self y wy.self e, fun e => equivB_hash_core F o hm hp x y dx dy e⟩, ?_⟩
  exact equals_eq_equivB_core F o hm hp x y dx dy
    (fun x' hx' y' hy' _ _ e => HF x' (wx x' hx') y' (wy y' hy') e)

theorem equals_eq_equivB_of (F : FloatEq0) {o : Opts}
    (hm : dispatchTag o = .set ∨ dispatchTag o = .mset) (hp : precOf o = 0)
    {S : List Json} (HF : HashFaithful o S) {x y : Json} (dx : DocOk x) (dy : DocOk y)
    (wx : Within S x) (wy : Within S y) : equals o x y = equivB o x y :=
  equals_eq_equivB_core F o hm hp x y dx dy
    (fun x' hx' y' hy' _ _ e => HF x' (wx x' hx') y' (wy y' hy') e)

theorem nonneg_of_prec0 {o : Opts} (hp : precOf o = 0) : nonnegBits (precOf o) = true := by
  rw [hp]; decide

/-- reflexivity of both relations on the domain -/
theorem refl_both (F : FloatEq0) (L : FloatLaws) {o : Opts}
    (hm : dispatchTag o = .set ∨ dispatchTag o = .mset) (hp : precOf o = 0)
    {S : List Json} (HF : HashFaithful o S) {b : Json} (hb : Ok b) (wb : Within S b) :
    equivB o b b = true ∧ equals o b b = true := by
  have e := equals_refl_setmode L o hm (nonneg_of_prec0 hp) b hb.rawDoc hb.wf hb.fin
  exact ⟨by rw [← equals_eq_equivB_of F hm hp HF hb.docOk hb.docOk wb wb]; exact e, e⟩

/-! ## 2. unfolding equations of the diff in the set modes (strict strategy) -/

def subOf (kp : UInt64 × SetPart) : Diff :=
  match kp.2 with | .sub d => d | .removed _ => []

def remOf (kp : UInt64 × SetPart) : Option Json :=
  match kp.2 with | .removed x => some x | .sub _ => none

/-- the added members of a set diff -/
def setAdd (o : Opts) (xs ys : List Json) : List Json :=
  (hsort (hdedup ((ys.map (identOf o)).filter (fun h => !(xs.map (identOf o)).contains h)))).filterMap
    (fun h => identLookup o h ys)

theorem diffNode_set_set {o : Opts} (hd : dispatchTag o = .set) (xs ys : List Json) (p : Path) :
    diffNode o false (.arr .raw xs) (.arr .raw ys) p =
      (ksort (diffSetElems o false p ys xs)).flatMap subOf ++
        (if ((ksort (diffSetElems o false p ys xs)).filterMap remOf).isEmpty &&
            (setAdd o xs ys).isEmpty then []
         else [{ path := p ++ [.set],
                 remove := (ksort (diffSetElems o false p ys xs)).filterMap remOf,
                 add := setAdd o xs ys }]) := by
  rw [diffNode.eq_def]
  simp only [effTag, hd, Json.dispatch, beq_self_eq_true, if_true, Bool.false_and,
    Bool.false_eq_true, if_false]
  rfl

theorem diffSetElems_nil (o : Opts) (p : Path) (ys : List Json) :
    diffSetElems o false p ys [] = [] := by
  rw [diffSetElems.eq_def]

theorem diffSetElems_cons (o : Opts) (p : Path) (ys : List Json) (x : Json) (r : List Json) :
    diffSetElems o false p ys (x :: r) =
      if (r.map (identOf o)).contains (identOf o x) then diffSetElems o false p ys r
      else match identLookup o (identOf o x) ys with
        | none => (identOf o x, .removed x) :: diffSetElems o false p ys r
        | some y =>
          match x, y with
          | .obj kvs, .obj _ =>
            (identOf o x, .sub (diffNode o false (.obj kvs) y (p ++ [newPathSetKeys o kvs]))) ::
              diffSetElems o false p ys r
          | _, _ => diffSetElems o false p ys r := by
  rw [diffSetElems.eq_def]
  rfl

/-- the surplus members of a multiset diff -/
def bagSurplus (o : Opts) (xs ys : List Json) : List Json :=
  (hsort (hdedup (hashList o xs))).flatMap (fun h =>
    match hashLookup o h xs with
    | some v => List.replicate (countOcc h (hashList o xs) - countOcc h (hashList o ys)) v
    | none => [])

theorem diffNode_mset_mset {o : Opts} (hd : dispatchTag o = .mset) (xs ys : List Json) (p : Path) :
    diffNode o false (.arr .raw xs) (.arr .raw ys) p =
      if (bagSurplus o xs ys).isEmpty && (bagSurplus o ys xs).isEmpty then []
      else [{ path := p ++ [.mset], remove := bagSurplus o xs ys, add := bagSurplus o ys xs }] := by
  rw [diffNode.eq_def]
  simp only [effTag, hd, Json.dispatch, beq_self_eq_true, if_true, Bool.false_and,
    Bool.false_eq_true, if_false]
  rfl

/-- an array against a non-array: one hunk replacing the whole value; the removed value is the
    PLAIN array -/
theorem diffNode_arr_other {o : Opts} (hm : dispatchTag o = .set ∨ dispatchTag o = .mset)
    (xs : List Json) (b : Json) (hb : ∀ t ys, b ≠ .arr t ys) (p : Path) :
    diffNode o false (.arr .raw xs) b p =
      [{ path := p, remove := [.arr .raw xs], add := b.nodeList }] := by
  rw [diffNode.eq_def]
  rcases hm with hd | hd <;> cases b <;>
    simp_all [effTag, Json.dispatch, Json.nodeList, Json.isVoid]

/-! ## 3. what the set diff computes -/

theorem identLookup_none {o : Opts} {h : UInt64} :
    ∀ {l : List Json}, identLookup o h l = none ↔ h ∉ l.map (identOf o)
  | [] => by simp [identLookup]
  | x :: r => by
    have ih := @identLookup_none o h r
    simp only [identLookup, List.map_cons, List.mem_cons, not_or]
    cases e : identLookup o h r with
    | some y =>
      have : h ∈ r.map (identOf o) := Classical.byContradiction fun hc => by
        rw [ih.2 hc] at e; cases e
      simp only [reduceCtorEq, false_iff, not_and, Classical.not_not]
      exact fun _ => this
    | none =>
      have hn := ih.1 e
      by_cases hx : identOf o x = h
      · simp [hx]
      · have hx' : ¬ h = identOf o x := fun e => hx e.symm
        simp [hx, hx', hn]

theorem identLookup_some {o : Opts} {h : UInt64} {y : Json} :
    ∀ {l : List Json}, identLookup o h l = some y → y ∈ l ∧ identOf o y = h
  | [], e => by simp [identLookup] at e
  | x :: r, e => by
    simp only [identLookup] at e
    cases e' : identLookup o h r with
    | some w =>
      rw [e'] at e
      simp only [Option.some.injEq] at e
      subst e
      obtain ⟨h1, h2⟩ := identLookup_some e'
      exact ⟨List.mem_cons_of_mem _ h1, h2⟩
    | none =>
      rw [e'] at e
      simp only at e
      split at e
      · next hx =>
        simp only [Option.some.injEq] at e
        subst e
        exact ⟨List.mem_cons_self, by simpa using hx⟩
      · cases e

theorem filterMap_identLookup {o : Opts} {ys : List Json} :
    ∀ hs : List UInt64, (∀ h ∈ hs, h ∈ ys.map (identOf o)) →
      ((hs.filterMap (fun h => identLookup o h ys)).map (identOf o) = hs) ∧
      ∀ y ∈ hs.filterMap (fun h => identLookup o h ys), y ∈ ys
  | [], _ => by simp
  | h :: r, hm => by
    obtain ⟨ih1, ih2⟩ := filterMap_identLookup r (fun h' hh' => hm h' (List.mem_cons_of_mem _ hh'))
    cases e : identLookup o h ys with
    | none => exact absurd (hm h List.mem_cons_self) (identLookup_none.1 e)
    | some y =>
      obtain ⟨h1, h2⟩ := identLookup_some e
      simp only [List.filterMap_cons, e, List.map_cons, h2, ih1, List.mem_cons, true_and]
      rintro z (rfl | hz)
      · exact h1
      · exact ih2 z hz

theorem setAdd_spec (o : Opts) (xs ys : List Json) :
    (∀ y ∈ setAdd o xs ys, y ∈ ys) ∧
    (∀ h, h ∈ (setAdd o xs ys).map (identOf o) ↔
      h ∈ ys.map (identOf o) ∧ h ∉ xs.map (identOf o)) := by
  have hmem : ∀ h, h ∈ hsort (hdedup ((ys.map (identOf o)).filter
      (fun h => !(xs.map (identOf o)).contains h))) ↔
      h ∈ ys.map (identOf o) ∧ h ∉ xs.map (identOf o) := by
    intro h
    rw [(hsort_perm _).mem_iff, mem_hdedup, List.mem_filter]
    simp
  obtain ⟨h1, h2⟩ := filterMap_identLookup (o := o) (ys := ys) _ (fun h hh => ((hmem h).1 hh).1)
  refine ⟨h2, fun h => ?_⟩
  unfold setAdd
  rw [h1, hmem]

/-- the parts of a set diff, when members with the same identity have an empty sub-diff -/
theorem diffSetElems_spec (o : Opts) (p : Path) (ys : List Json) :
    ∀ (xs : List Json),
      (∀ x ∈ xs, ∀ y ∈ ys, identOf o x = identOf o y → ∀ q, diffNode o false x y q = []) →
      (∀ kp ∈ diffSetElems o false p ys xs, subOf kp = []) ∧
      (∀ z ∈ (diffSetElems o false p ys xs).filterMap remOf, z ∈ xs) ∧
      (((diffSetElems o false p ys xs).filterMap remOf).map (identOf o)).Nodup ∧
      (∀ h, h ∈ ((diffSetElems o false p ys xs).filterMap remOf).map (identOf o) ↔
        h ∈ xs.map (identOf o) ∧ h ∉ ys.map (identOf o))
  | [], _ => by simp [diffSetElems_nil]
  | x :: r, H => by
    obtain ⟨a, b, c, d⟩ := diffSetElems_spec o p ys r
      (fun x' hx' => H x' (List.mem_cons_of_mem _ hx'))
    rw [diffSetElems_cons]
    by_cases hc : (r.map (identOf o)).contains (identOf o x) = true
    · rw [if_pos hc]
      have hc' : identOf o x ∈ r.map (identOf o) := by simpa using hc
      refine ⟨a, fun z hz => List.mem_cons_of_mem _ (b z hz), c, fun h => ?_⟩
      rw [d h]
      simp only [List.map_cons, List.mem_cons]
      constructor
      · rintro ⟨h1, h2⟩; exact ⟨Or.inr h1, h2⟩
      · rintro ⟨h1 | h1, h2⟩
        · exact ⟨h1 ▸ hc', h2⟩
        · exact ⟨h1, h2⟩
    · rw [if_neg hc]
      have hc' : identOf o x ∉ r.map (identOf o) := by simpa using hc
      cases e : identLookup o (identOf o x) ys with
      | none =>
        have hny := identLookup_none.1 e
        simp only []
        refine ⟨?_, ?_, ?_, ?_⟩
        · intro kp hkp
          rcases List.mem_cons.1 hkp with rfl | hkp
          · rfl
          · exact a kp hkp
        · intro z hz
          simp only [List.filterMap_cons, remOf, List.mem_cons] at hz
          rcases hz with rfl | hz
          · exact List.mem_cons_self
          · exact List.mem_cons_of_mem _ (b z hz)
        · simp only [List.filterMap_cons, remOf, List.map_cons, List.nodup_cons]
          refine ⟨fun hm => hc' ((d _).1 hm).1, c⟩
        · intro h
          simp only [List.filterMap_cons, remOf, List.map_cons, List.mem_cons]
          rw [d h]
          constructor
          · rintro (rfl | ⟨h1, h2⟩)
            · exact ⟨Or.inl rfl, hny⟩
            · exact ⟨Or.inr h1, h2⟩
          · rintro ⟨h1 | h1, h2⟩
            · exact Or.inl h1
            · exact Or.inr ⟨h1, h2⟩
      | some y =>
        obtain ⟨hy, hyi⟩ := identLookup_some e
        have hin : identOf o x ∈ ys.map (identOf o) := hyi ▸ List.mem_map_of_mem hy
        have hd : ∀ h, h ∈ ((diffSetElems o false p ys r).filterMap remOf).map (identOf o) ↔
            h ∈ (x :: r).map (identOf o) ∧ h ∉ ys.map (identOf o) := by
          intro h
          rw [d h]
          simp only [List.map_cons, List.mem_cons]
          constructor
          · rintro ⟨h1, h2⟩; exact ⟨Or.inr h1, h2⟩
          · rintro ⟨h1 | h1, h2⟩
            · exact absurd (h1 ▸ hin) h2
            · exact ⟨h1, h2⟩
        simp only []
        split
        · next kvs kvs' =>
          refine ⟨?_, ?_, ?_, ?_⟩
          · intro kp hkp
            rcases List.mem_cons.1 hkp with rfl | hkp
            · simp only [subOf]
              exact H _ List.mem_cons_self _ hy hyi.symm _
            · exact a kp hkp
          · intro z hz
            simp only [List.filterMap_cons, remOf] at hz
            exact List.mem_cons_of_mem _ (b z hz)
          · simpa only [List.filterMap_cons, remOf] using c
          · intro h
            simp only [List.filterMap_cons, remOf]
            exact hd h
        · exact ⟨a, fun z hz => List.mem_cons_of_mem _ (b z hz), c, hd⟩

/-- the same after sorting the parts by identity -/
theorem parts_spec (o : Opts) (p : Path) (xs ys : List Json)
    (H : ∀ x ∈ xs, ∀ y ∈ ys, identOf o x = identOf o y → ∀ q, diffNode o false x y q = []) :
    (ksort (diffSetElems o false p ys xs)).flatMap subOf = [] ∧
    (∀ z ∈ (ksort (diffSetElems o false p ys xs)).filterMap remOf, z ∈ xs) ∧
    (((ksort (diffSetElems o false p ys xs)).filterMap remOf).map (identOf o)).Nodup ∧
    (∀ h, h ∈ ((ksort (diffSetElems o false p ys xs)).filterMap remOf).map (identOf o) ↔
      h ∈ xs.map (identOf o) ∧ h ∉ ys.map (identOf o)) := by
  obtain ⟨a, b, c, d⟩ := diffSetElems_spec o p ys xs H
  have hp := ksort_perm (diffSetElems o false p ys xs)
  have hp' := hp.filterMap remOf
  refine ⟨?_, fun z hz => b z (hp'.mem_iff.1 hz), ?_, fun h => ?_⟩
  · rw [List.flatMap_eq_nil_iff]
    intro kp hkp
    exact a kp (hp.mem_iff.1 hkp)
  · exact ((hp'.map (identOf o)).nodup_iff).2 c
  · rw [(hp'.map (identOf o)).mem_iff]; exact d h

/-! ## 4. equivalent documents have an empty diff (set modes, strict strategy) -/

theorem bagSurplus_nil {o : Opts} {xs ys : List Json}
    (h : ∀ c, countOcc c (hashList o xs) ≤ countOcc c (hashList o ys)) : bagSurplus o xs ys = [] := by
  unfold bagSurplus
  rw [List.flatMap_eq_nil_iff]
  intro c _
  cases hashLookup o c xs with
  | none => rfl
  | some v => simp [Nat.sub_eq_zero_of_le (h c)]

theorem equivB_scalar_equals_nil {o : Opts} (hp : precOf o = 0) {a b : Json}
    (ha : ∀ t xs, a ≠ .arr t xs) (ha' : ∀ kvs, a ≠ .obj kvs) :
    equivB o a b = equals [] a b := by
  cases a <;> cases b <;> simp_all [equivB, equals, precOf, Json.isVoid, Json.isNull]

theorem diffNode_nil_of_equivB (F : FloatEq0) {o : Opts}
    (hm : dispatchTag o = .set ∨ dispatchTag o = .mset) (hk : keysOf o = none) (hp : precOf o = 0)
    {S : List Json} (HF : HashFaithful o S) :
    ∀ a b, DocOk a → DocOk b → Within S a → Within S b → equivB o a b = true →
      ∀ p, diffNode o false a b p = [] := by
  have scalar : ∀ a b : Json, (∀ t xs, a ≠ .arr t xs) → (∀ kvs, a ≠ .obj kvs) →
      equivB o a b = true → ∀ p, diffNode o false a b p = [] := by
    intro a b h1 h2 h p
    rw [DE.diffNode_scalar o false a b h1 h2 p, diffCommon_nil_iff,
      ← equivB_scalar_equals_nil hp h1 h2]
    exact h
  intro a
  induction a using jsonInd with
  | void => intro b _ _ _ _ h; exact scalar _ b (fun _ _ e => by cases e) (fun _ e => by cases e) h
  | null => intro b _ _ _ _ h; exact scalar _ b (fun _ _ e => by cases e) (fun _ e => by cases e) h
  | bool x => intro b _ _ _ _ h; exact scalar _ b (fun _ _ e => by cases e) (fun _ e => by cases e) h
  | num x => intro b _ _ _ _ h; exact scalar _ b (fun _ _ e => by cases e) (fun _ e => by cases e) h
  | str x => intro b _ _ _ _ h; exact scalar _ b (fun _ _ e => by cases e) (fun _ e => by cases e) h
  | arr t xs ih =>
    intro b ha hb wa wb h p
    cases b with
    | arr t' ys =>
      have ht := ha.raw
      have ht' := hb.raw
      subst ht ht'
      have hhash : ∀ x ∈ xs, ∀ y ∈ ys, equivB o x y = true → hashCode o x = hashCode o y :=
        fun x hx y hy e => equivB_hash_core F o hm hp x y (ha.elem hx) (hb.elem hy) e
      rcases hm with hd | hd
      · simp only [equivB, hd, Bool.and_eq_true, allIn_iff, allCovered_iff] at h
        have H : ∀ x ∈ xs, ∀ y ∈ ys, identOf o x = identOf o y →
            ∀ q, diffNode o false x y q = [] := by
          intro x hx y hy e q
          rw [identOf_eq_hashCode hk, identOf_eq_hashCode hk] at e
          exact ih x hx y (ha.elem hx) (hb.elem hy) (wa.elem hx) (wb.elem hy)
            (HF x (wa.elem hx).self y (wb.elem hy).self e) q
        obtain ⟨a1, _, _, a4⟩ := parts_spec o p xs ys H
        obtain ⟨_, b2⟩ := setAdd_spec o xs ys
        have hrem : (ksort (diffSetElems o false p ys xs)).filterMap remOf = [] := by
          rw [List.eq_nil_iff_forall_not_mem]
          intro z hz
          obtain ⟨h1, h2⟩ := (a4 _).1 (List.mem_map_of_mem (f := identOf o) hz)
          obtain ⟨x, hx, ex⟩ := List.mem_map.1 h1
          obtain ⟨y, hy, e⟩ := h.1 x hx
          apply h2
          rw [← ex, identOf_eq_hashCode hk, hhash x hx y hy e, ← identOf_eq_hashCode hk]
          exact List.mem_map_of_mem hy
        have hadd : setAdd o xs ys = [] := by
          rw [List.eq_nil_iff_forall_not_mem]
          intro z hz
          obtain ⟨h1, h2⟩ := (b2 _).1 (List.mem_map_of_mem (f := identOf o) hz)
          obtain ⟨y, hy, ey⟩ := List.mem_map.1 h1
          obtain ⟨x, hx, e⟩ := h.2 y hy
          apply h2
          rw [← ey, identOf_eq_hashCode hk, ← hhash x hx y hy e, ← identOf_eq_hashCode hk]
          exact List.mem_map_of_mem hx
        rw [diffNode_set_set hd, a1, hrem, hadd]
        rfl
      · simp only [equivB, hd, Bool.and_eq_true, beq_iff_eq] at h
        have hperm := bagSub_hash_perm o xs ys h.1 h.2 hhash
        have hc : ∀ c, countOcc c (hashList o xs) = countOcc c (hashList o ys) := by
          intro c
          rw [countOcc_eq_count, countOcc_eq_count, hashList_eq_map, hashList_eq_map]
          exact hperm.count_eq c
        rw [diffNode_mset_mset hd, bagSurplus_nil (fun c => Nat.le_of_eq (hc c)),
          bagSurplus_nil (fun c => Nat.le_of_eq (hc c).symm)]
        rfl
    | _ => simp [equivB] at h
  | obj kvs ih =>
    intro b ha hb wa wb h p
    cases b with
    | obj kvs' =>
      have hs := ha.sorted
      have hs' := hb.sorted
      simp only [equivB, Bool.and_eq_true, beq_iff_eq, equivKvs_eq_lookAll, lookAll_iff] at h
      have hflip := AllLook.flip hs hs' h.1 h.2
      have hkv : ∀ r : List (String × Json), (∀ kv ∈ r, kv ∈ kvs) →
          diffKvs o false p kvs' r = [] := by
        intro r
        induction r with
        | nil => intro _; exact DE.diffKvs_nil o false p kvs'
        | cons kv r ihr =>
          intro hsub
          obtain ⟨k, v⟩ := kv
          have hm1 : (k, v) ∈ kvs := hsub _ List.mem_cons_self
          obtain ⟨v', hl, he⟩ := h.2 k v hm1
          have hm2 := mem_of_alookup hl
          rw [DE.diffKvs_cons, ihr (fun kv hh => hsub kv (List.mem_cons_of_mem _ hh)), hl]
          simp only [List.append_nil]
          exact ih k v hm1 v' (ha.val hm1) (hb.val hm2) (wa.val hm1) (wb.val hm2) he _
      rw [DE.diffNode_obj_obj, hkv kvs (fun _ hh => hh),
        filter_added_nil (kvs := kvs) (kvs' := kvs') (fun k' v' hm' => by
          obtain ⟨w, hl, _⟩ := hflip k' v' hm'
          simp [hl])]
      rfl
    | _ => simp [equivB] at h

/-! ## 5. one step of `patchNode`, sequences of hunks, the frame lemma below an object key -/

theorem patchAll_append (sw : Bool) : ∀ (d1 d2 : Diff) (n n' : Json), patchAll sw n d1 = .ok n' →
    patchAll sw n (d1 ++ d2) = patchAll sw n' d2
  | [], d2, n, n', h => by
    simp only [patchAll, Outcome.ok.injEq] at h
    subst h; rfl
  | hk :: d1, d2, n, n', h => by
    simp only [List.cons_append, patchAll] at h ⊢
    cases e : patchNode sw hk.merge n hk.path hk.before hk.remove hk.add hk.after with
    | ok n1 =>
      rw [e] at h
      simp only at h ⊢
      exact patchAll_append sw d1 d2 n1 n' h
    | err => rw [e] at h; cases h
    | panic => rw [e] at h; cases h

theorem patchAll_single (sw : Bool) (n : Json) (h : Hunk) {r : Json}
    (e : patchNode sw h.merge n h.path h.before h.remove h.add h.after = .ok r) :
    patchAll sw n [h] = .ok r := by
  simp [patchAll, e]

/-- an object key: patch the member (absent = void), then store or delete -/
theorem patchNode_obj_key (sw : Bool) (kvs : List (String × Json)) (k : String) (rest : Path)
    (before remove add after : List Json) :
    patchNode sw false (.obj kvs) (.key k :: rest) before remove add after =
      match patchNode sw false ((alookup k kvs).getD .void) rest before remove add after with
      | .ok v => .ok (.obj (DPL.aput k v kvs))
      | .err => .err
      | .panic => .panic := by
  rw [patchNode.eq_def]
  simp only
  cases hl : alookup k kvs with
  | some v =>
    simp only [patchObjChild_eq _ _ _ _ _ _ _ _ kvs v hl, Option.getD_some]
    cases patchNode sw false v rest before remove add after with
    | ok w =>
      simp only [DPL.aput, Outcome.bind_ok]
      by_cases hw : w.isVoid = true
      · simp only [hw, if_true]; rfl
      · simp only [hw]; rfl
    | err => rfl
    | panic => rfl
  | none =>
    simp only [Option.getD_none, Bool.false_and, patchNew, patchNode_void]
    cases patchFresh false .void rest before remove add after with
    | ok w =>
      simp only [DPL.aput, Outcome.bind_ok]
      by_cases hw : w.isVoid = true
      · simp only [hw, if_true]; rfl
      · simp only [hw]; rfl
    | err => rfl
    | panic => rfl

/-- a hunk at the root that removes the value itself: the value is replaced -/
theorem patch_replace (L : FloatLaws) (sw : Bool) {a : Json} (ha : Ok a) (add : List Json)
    (hadd : add.length ≤ 1) :
    patchNode sw false a [] [] a.nodeList add [] = .ok (Json.singleValue add) := by
  have hl := rawDoc_listDoc a ha.rawDoc
  rw [patchNode_nil sw a [] a.nodeList add [] hl]
  have h1 : (a.nodeList.length > 1 || add.length > 1) = false := by
    have : a.nodeList.length ≤ 1 := by simp only [Json.nodeList]; split <;> simp
    simp only [Bool.or_eq_false_iff, decide_eq_false_iff_not]; omega
  have h2 : Json.singleValue a.nodeList = a := DPL.single_nodeList a
  rw [h1, h2, equals_refl_list L [] rfl (by decide) a hl ha.wf ha.fin]
  rfl

theorem singleValue_nodeList (b : Json) : Json.singleValue b.nodeList = b := DPL.single_nodeList b

theorem nodeList_length_le (b : Json) : b.nodeList.length ≤ 1 := by
  simp only [Json.nodeList]; split <;> simp

theorem patchAll_key_frame (sw : Bool) (k : String) :
    ∀ (D : Diff), (∀ h ∈ D, h.merge = false) →
      ∀ (cur : List (String × Json)) (x : Json), keysSorted cur = true →
      alookup k cur = (if x.isVoid then none else some x) →
      ∀ r, patchAll sw x D = .ok r →
      ∃ cur', patchAll sw (.obj cur) (D.map (DPL.shiftHunk [.key k])) = .ok (.obj cur') ∧
        keysSorted cur' = true ∧ (∀ k0, k0 ≠ k → alookup k0 cur' = alookup k0 cur) ∧
        alookup k cur' = (if r.isVoid then none else some r)
  | [], _, cur, x, hs, hx, r, hr => by
    simp only [patchAll, Outcome.ok.injEq] at hr
    subst hr
    exact ⟨cur, by simp [patchAll], hs, fun _ _ => rfl, hx⟩
  | h :: D, hD, cur, x, hs, hx, r, hr => by
    have hmg : h.merge = false := hD h List.mem_cons_self
    simp only [patchAll, hmg] at hr
    have hget : (alookup k cur).getD .void = x := by
      rw [hx]; split
      · next hv => cases x <;> simp_all [Json.isVoid]
      · rfl
    cases hv : patchNode sw false x h.path h.before h.remove h.add h.after with
    | err => rw [hv] at hr; cases hr
    | panic => rw [hv] at hr; cases hr
    | ok v =>
      rw [hv] at hr
      simp only at hr
      have hs1 := DPL.keysSorted_aput k v cur hs
      have hx1 : alookup k (DPL.aput k v cur) = (if v.isVoid then none else some v) := by
        unfold DPL.aput; split
        · exact DPL.alookup_aerase_self k cur hs
        · rw [DPL.alookup_ainsert, if_pos rfl]
      obtain ⟨cur', h1, h2, h3, h4⟩ := patchAll_key_frame sw k D
        (fun h' hh' => hD h' (List.mem_cons_of_mem _ hh')) (DPL.aput k v cur) v hs1 hx1 r hr
      refine ⟨cur', ?_, h2, fun k0 hne => by rw [h3 k0 hne, DPL.alookup_aput_ne hne], h4⟩
      simp only [List.map_cons, patchAll, DPL.shiftHunk, List.cons_append, List.nil_append, hmg]
      rw [patchNode_obj_key, hget, hv]
      exact h1

/-! ## 6. (A) one array read as a set: the diff, then the patch -/

theorem hashCode_arr_set (o : Opts) (l : List Json) :
    hashCode o (.arr .set l) = hcombine (hdedup (hashList o l)) := by
  simp [hashCode, effTag]

theorem hashCode_arr_mset (o : Opts) (l : List Json) :
    hashCode o (.arr .mset l) = fnv1a ((hsort (hashList o l)).flatMap le8) := by
  simp [hashCode, effTag]

/-- an array with the same identities as `ys` is equal to `ys` read as a set -/
theorem set_result {o : Opts} (hd : dispatchTag o = .set) (hk : keysOf o = none) {E : List Json}
    (Fa : Faithful o E) {t : Tag} (ht : t = .raw ∨ t = .set) {zs ys : List Json}
    (hz : ∀ z ∈ zs, z ∈ E) (hy : ∀ y ∈ ys, y ∈ E)
    (hids : ∀ h, h ∈ zs.map (identOf o) ↔ h ∈ ys.map (identOf o)) :
    equivB o (.arr t zs) (.arr .raw ys) = true ∧ equals o (.arr t zs) (.arr .raw ys) = true := by
  constructor
  · simp only [equivB, hd, Bool.and_eq_true, allIn_iff, allCovered_iff]
    constructor
    · intro z hzm
      obtain ⟨y, hym, e⟩ := List.mem_map.1 ((hids _).1 (List.mem_map_of_mem (f := identOf o) hzm))
      exact ⟨y, hym, (Fa.equivB_iff (hz z hzm) (hy y hym)).2 e.symm⟩
    · intro y hym
      obtain ⟨z, hzm, e⟩ := List.mem_map.1 ((hids _).2 (List.mem_map_of_mem (f := identOf o) hym))
      exact ⟨z, hzm, (Fa.equivB_iff (hz z hzm) (hy y hym)).2 e⟩
  · have he : effTag o t = .set := by rcases ht with rfl | rfl <;> simp [effTag, hd]
    have key : hsort (hdedup (hashList o zs)) = hsort (hdedup (hashList o ys)) := by
      apply hsort_hdedup_ext
      intro c
      have := hids c
      rw [funext (identOf_eq_hashCode hk)] at this
      rw [hashList_eq_map, hashList_eq_map]
      exact this
    simp only [equals, he, Json.dispatch, hd, hashCode_arr_set, hcombine, key, beq_self_eq_true]

theorem set_step (F : FloatEq0) (sw : Bool) {o : Opts} (hd : dispatchTag o = .set)
    (hk : keysOf o = none) (hp : precOf o = 0) {S : List Json} (HF : HashFaithful o S)
    (xs ys : List Json) (ha : Ok (.arr .raw xs)) (hb : Ok (.arr .raw ys))
    (wa : Within S (.arr .raw xs)) (wb : Within S (.arr .raw ys)) (p : Path) :
    ∃ D r, diffNode o false (.arr .raw xs) (.arr .raw ys) p = D.map (DPL.shiftHunk p) ∧
      (∀ h ∈ D, h.merge = false) ∧ patchAll sw (.arr .raw xs) D = .ok r ∧
      equivB o r (.arr .raw ys) = true ∧ equals o r (.arr .raw ys) = true := by
  have hE : ∀ x ∈ xs ++ ys, DocOk x ∧ Within S x := by
    intro x hx
    rcases List.mem_append.1 hx with h | h
    · exact ⟨(ha.elem h).docOk, wa.elem h⟩
    · exact ⟨(hb.elem h).docOk, wb.elem h⟩
  have Fa : Faithful o (xs ++ ys) := faithful_of F (Or.inl hd) hk hp HF hE
  have hxs : ∀ x ∈ xs, x ∈ xs ++ ys := fun x h => List.mem_append.2 (Or.inl h)
  have hys : ∀ y ∈ ys, y ∈ xs ++ ys := fun y h => List.mem_append.2 (Or.inr h)
  have H : ∀ x ∈ xs, ∀ y ∈ ys, identOf o x = identOf o y → ∀ q, diffNode o false x y q = [] := by
    intro x hx y hy e q
    exact diffNode_nil_of_equivB F (Or.inl hd) hk hp HF x y (ha.elem hx).docOk (hb.elem hy).docOk
      (wa.elem hx) (wb.elem hy) ((Fa.equivB_iff (hxs x hx) (hys y hy)).2 e) q
  obtain ⟨a1, a2, a3, a4⟩ := parts_spec o p xs ys H
  obtain ⟨b1, b2⟩ := setAdd_spec o xs ys
  rw [diffNode_set_set hd, a1, List.nil_append]
  generalize (ksort (diffSetElems o false p ys xs)).filterMap remOf = rem at a2 a3 a4
  generalize setAdd o xs ys = add at b1 b2
  by_cases hemp : (rem.isEmpty && add.isEmpty) = true
  · rw [if_pos hemp]
    simp only [Bool.and_eq_true, List.isEmpty_iff] at hemp
    obtain ⟨rfl, rfl⟩ := hemp
    refine ⟨[], .arr .raw xs, rfl, by simp, rfl, ?_⟩
    apply set_result hd hk Fa (Or.inl rfl) hxs hys
    intro h
    have h4 := a4 h
    have h2 := b2 h
    simp only [List.map_nil, List.not_mem_nil, false_iff, not_and, Classical.not_not] at h4 h2
    exact ⟨h4, h2⟩
  · rw [if_neg hemp]
    have Fa' : Faithful o (xs ++ rem ++ add) := Fa.mono (by
      intro x hx
      simp only [List.mem_append] at hx ⊢
      rcases hx with (h | h) | h
      · exact Or.inl h
      · exact Or.inl (a2 x h)
      · exact Or.inr (b1 x h))
    obtain ⟨zs, e, hsub, _, hmem⟩ := (patchSetLeaf_idents Fa').2.2
      (fun r hr => ((a4 _).1 (List.mem_map_of_mem (f := identOf o) hr)).1) a3
    refine ⟨[{ path := [.set], remove := rem, add := add }], .arr .set zs, rfl, by simp, ?_, ?_⟩
    · apply patchAll_single
      show patchNode sw false (.arr .raw xs) [.set] [] rem add [] = _
      rw [patchNode_set_leaf sw .raw (Or.inl rfl), patchSetLeaf_optcongr hd hk hp, e]
    · apply set_result hd hk Fa (Or.inr rfl)
      · intro z hz
        rcases hsub z hz with h | h
        · exact hxs z h
        · exact hys z (b1 z h)
      · exact hys
      · intro h
        rw [hmem h, a4 h, b2 h]
        by_cases h1 : h ∈ xs.map (identOf o) <;> by_cases h2 : h ∈ ys.map (identOf o) <;>
          simp [h1, h2]

/-! ## 7. (B) one array read as a multiset -/

theorem bagSurplus_spec (o : Opts) (xs ys : List Json) :
    (∀ z ∈ bagSurplus o xs ys, z ∈ xs) ∧
    ∀ c, ((bagSurplus o xs ys).map (hashCode o)).count c =
      (xs.map (hashCode o)).count c - (ys.map (hashCode o)).count c := by
  have key : ∀ D : List UInt64, (∀ h ∈ D, h ∈ xs.map (hashCode o)) →
      (∀ z ∈ D.flatMap (fun h => match hashLookup o h xs with
          | some v => List.replicate (countOcc h (hashList o xs) - countOcc h (hashList o ys)) v
          | none => []), z ∈ xs) ∧
      (D.flatMap (fun h => match hashLookup o h xs with
          | some v => List.replicate (countOcc h (hashList o xs) - countOcc h (hashList o ys)) v
          | none => [])).map (hashCode o) =
        D.flatMap (fun h => List.replicate
          (countOcc h (hashList o xs) - countOcc h (hashList o ys)) h) := by
    intro D
    induction D with
    | nil => intro _; simp
    | cons h r ih =>
      intro hD
      obtain ⟨ih1, ih2⟩ := ih (fun h' hh' => hD h' (List.mem_cons_of_mem _ hh'))
      obtain ⟨x, e, hx, hkx⟩ := hashLookup_some (hD h List.mem_cons_self)
      simp only [List.flatMap_cons, e, List.map_append, ih2, List.map_replicate, hkx]
      refine ⟨?_, trivial⟩
      intro z hz
      rcases List.mem_append.1 hz with hz | hz
      · rw [(List.mem_replicate.1 hz).2]; exact hx
      · exact ih1 z hz
  have hD : ∀ h ∈ hsort (hdedup (hashList o xs)), h ∈ xs.map (hashCode o) := by
    intro h hh
    rw [(hsort_perm _).mem_iff, mem_hdedup, hashList_eq_map] at hh
    exact hh
  obtain ⟨k1, k2⟩ := key _ hD
  refine ⟨k1, fun c => ?_⟩
  unfold bagSurplus
  rw [k2, count_flatMap_replicate _ _ _ ((hsort_perm _).nodup_iff.2 (nodup_hdedup _))]
  simp only [countOcc_eq_count, hashList_eq_map, (hsort_perm _).mem_iff, mem_hdedup]
  split
  · rfl
  · next hn => rw [List.count_eq_zero.2 hn]; omega

theorem bagSub_of_counts {o : Opts} {E : List Json} (Fa : Faithful o E) :
    ∀ (zs ys : List Json), (∀ z ∈ zs, z ∈ E) → (∀ y ∈ ys, y ∈ E) →
      (∀ c, (zs.map (identOf o)).count c ≤ (ys.map (identOf o)).count c) →
      bagSub o zs ys = true
  | [], _, _, _, _ => by simp [bagSub]
  | z :: r, ys, hz, hy, hc => by
    have hzE : z ∈ E := hz z List.mem_cons_self
    have hp : ∀ y ∈ ys, ((fun y => equivB o z y) y = true ↔ identOf o y = identOf o z) :=
      fun y hym => (Fa.equivB_iff hzE (hy y hym)).trans eq_comm
    obtain ⟨_, f2⟩ := removeFirst_count (k := identOf o) (p := fun y => equivB o z y)
      (c := identOf o z) ys hp
    have hin : identOf o z ∈ ys.map (identOf o) := by
      apply List.count_pos_iff.1
      have := hc (identOf o z)
      simp only [List.map_cons, List.count_cons_self] at this
      omega
    obtain ⟨l', e1, e2, e3⟩ := f2 hin
    rw [bagSub, e1]
    apply bagSub_of_counts Fa r l' (fun z' hz' => hz z' (List.mem_cons_of_mem _ hz'))
      (fun y hy' => hy y (e2 y hy'))
    intro c
    have h1 := e3 c
    have h2 := hc c
    simp only [List.map_cons, List.count_cons, beq_iff_eq] at h2
    by_cases ec : c = identOf o z
    · subst ec
      simp at h1 h2
      omega
    · have ec' : ¬ identOf o z = c := fun e => ec e.symm
      simp [ec, ec'] at h1 h2
      omega

/-- an array with the same hash multiplicities as `ys` is equal to `ys` read as a multiset -/
theorem mset_result {o : Opts} (hd : dispatchTag o = .mset) (hk : keysOf o = none) {E : List Json}
    (Fa : Faithful o E) {t : Tag} (ht : t = .raw ∨ t = .mset) {zs ys : List Json}
    (hz : ∀ z ∈ zs, z ∈ E) (hy : ∀ y ∈ ys, y ∈ E)
    (hcnt : ∀ c, (zs.map (hashCode o)).count c = (ys.map (hashCode o)).count c) :
    equivB o (.arr t zs) (.arr .raw ys) = true ∧ equals o (.arr t zs) (.arr .raw ys) = true := by
  have hperm : (zs.map (hashCode o)).Perm (ys.map (hashCode o)) := List.perm_iff_count.2 hcnt
  have hlen : zs.length = ys.length := by simpa using hperm.length_eq
  constructor
  · simp only [equivB, hd, Bool.and_eq_true, beq_iff_eq]
    refine ⟨hlen, bagSub_of_counts Fa zs ys hz hy (fun c => ?_)⟩
    rw [funext (identOf_eq_hashCode hk)]
    exact Nat.le_of_eq (hcnt c)
  · have he : effTag o t = .mset := by rcases ht with rfl | rfl <;> simp [effTag, hd]
    have key : hsort (hashList o zs) = hsort (hashList o ys) := by
      rw [hashList_eq_map, hashList_eq_map]; exact hsort_eq_of_perm hperm
    simp only [equals, he, Json.dispatch, hd, hashCode_arr_mset, key, hlen, beq_self_eq_true,
      Bool.and_self]

theorem mset_step (F : FloatEq0) (sw : Bool) {o : Opts} (hd : dispatchTag o = .mset)
    (hk : keysOf o = none) (hp : precOf o = 0) {S : List Json} (HF : HashFaithful o S)
    (xs ys : List Json) (ha : Ok (.arr .raw xs)) (hb : Ok (.arr .raw ys))
    (wa : Within S (.arr .raw xs)) (wb : Within S (.arr .raw ys)) (p : Path) :
    ∃ D r, diffNode o false (.arr .raw xs) (.arr .raw ys) p = D.map (DPL.shiftHunk p) ∧
      (∀ h ∈ D, h.merge = false) ∧ patchAll sw (.arr .raw xs) D = .ok r ∧
      equivB o r (.arr .raw ys) = true ∧ equals o r (.arr .raw ys) = true := by
  have hE : ∀ x ∈ xs ++ ys, DocOk x ∧ Within S x := by
    intro x hx
    rcases List.mem_append.1 hx with h | h
    · exact ⟨(ha.elem h).docOk, wa.elem h⟩
    · exact ⟨(hb.elem h).docOk, wb.elem h⟩
  have Fa : Faithful o (xs ++ ys) := faithful_of F (Or.inr hd) hk hp HF hE
  have hxs : ∀ x ∈ xs, x ∈ xs ++ ys := fun x h => List.mem_append.2 (Or.inl h)
  have hys : ∀ y ∈ ys, y ∈ xs ++ ys := fun y h => List.mem_append.2 (Or.inr h)
  obtain ⟨a1, a2⟩ := bagSurplus_spec o xs ys
  obtain ⟨b1, b2⟩ := bagSurplus_spec o ys xs
  rw [diffNode_mset_mset hd]
  generalize bagSurplus o xs ys = rem at a1 a2
  generalize bagSurplus o ys xs = add at b1 b2
  by_cases hemp : (rem.isEmpty && add.isEmpty) = true
  · rw [if_pos hemp]
    simp only [Bool.and_eq_true, List.isEmpty_iff] at hemp
    obtain ⟨rfl, rfl⟩ := hemp
    refine ⟨[], .arr .raw xs, rfl, by simp, rfl, ?_⟩
    apply mset_result hd hk Fa (Or.inl rfl) hxs hys
    intro c
    have h1 := a2 c
    have h2 := b2 c
    simp only [List.map_nil, List.count_nil] at h1 h2
    omega
  · rw [if_neg hemp]
    obtain ⟨zs, e, hsub, _, hcnt⟩ := (patchMsetLeaf_counts o xs rem add).2 (by
      intro c; rw [a2 c]; omega)
    refine ⟨[{ path := [.mset], remove := rem, add := add }], .arr .mset zs, rfl, by simp, ?_, ?_⟩
    · apply patchAll_single
      show patchNode sw false (.arr .raw xs) [.mset] [] rem add [] = _
      rw [patchNode_mset_leaf sw .raw (Or.inl rfl), patchMsetLeaf_optcongr hd, e]
    · apply mset_result hd hk Fa (Or.inr rfl)
      · intro z hz
        have := hsub z hz
        simp only [List.mem_append] at this
        rcases this with (h | h) | h
        · exact hxs z h
        · exact hxs z (a1 z h)
        · exact hys z (b1 z h)
      · exact hys
      · intro c
        rw [hcnt c, a2 c, b2 c]
        omega

/-! ## 8. (D) a value replaced as a whole; scalars -/

/-- what one node of the diff has to achieve: the hunks are hunks below the path, they apply to the
    source in sequence, and the result is equal to the target -/
def Step (sw : Bool) (o : Opts) (a b : Json) (p : Path) : Prop :=
  ∃ D r, diffNode o false a b p = D.map (DPL.shiftHunk p) ∧ (∀ h ∈ D, h.merge = false) ∧
    patchAll sw a D = .ok r ∧ equivB o r b = true ∧ equals o r b = true

theorem replace_step (F : FloatEq0) (L : FloatLaws) (sw : Bool) {o : Opts}
    (hm : dispatchTag o = .set ∨ dispatchTag o = .mset) (hp : precOf o = 0)
    {S : List Json} (HF : HashFaithful o S) {a b : Json} (ha : Ok a) (hb : Ok b)
    (wb : Within S b) (p : Path) (addl : List Json) (hl : addl.length ≤ 1)
    (hs : Json.singleValue addl = b)
    (hdiff : diffNode o false a b p = [{ path := p, remove := a.nodeList, add := addl }]) :
    Step sw o a b p := by
  obtain ⟨e1, e2⟩ := refl_both F L hm hp HF hb wb
  refine ⟨[{ path := [], remove := a.nodeList, add := addl }], b, ?_, by simp, ?_, e1, e2⟩
  · rw [hdiff]; simp [DPL.shiftHunk]
  · apply patchAll_single
    show patchNode sw false a [] [] a.nodeList addl [] = _
    rw [patch_replace L sw ha addl hl, hs]

theorem scalar_step (F : FloatEq0) (L : FloatLaws) (sw : Bool) {o : Opts}
    (hm : dispatchTag o = .set ∨ dispatchTag o = .mset) (hp : precOf o = 0)
    {S : List Json} (HF : HashFaithful o S) {a b : Json} (h1 : ∀ t xs, a ≠ .arr t xs)
    (h2 : ∀ kvs, a ≠ .obj kvs) (ha : Ok a) (hb : Ok b) (wb : Within S b) (p : Path) :
    Step sw o a b p := by
  have hd := DE.diffNode_scalar o false a b h1 h2 p
  by_cases he : equals [] a b = true
  · refine ⟨[], a, ?_, by simp, rfl, ?_, ?_⟩
    · rw [hd]; simp [diffCommon, he]
    · rw [equivB_scalar_equals_nil hp h1 h2]; exact he
    · rw [← equals_scalar_noopts hp a b h1 h2]; exact he
  · apply replace_step F L sw hm hp HF ha hb wb p b.nodeList (nodeList_length_le b)
      (DPL.single_nodeList b)
    rw [hd]; simp [diffCommon, he]

/-! ## 9. (C) objects -/

theorem shiftHunk_shiftHunk (p q : Path) (h : Hunk) :
    DPL.shiftHunk p (DPL.shiftHunk q h) = DPL.shiftHunk (p ++ q) h := by
  simp [DPL.shiftHunk, List.append_assoc]

theorem equivB_isVoid {o : Opts} {r b : Json} (h : equivB o r b = true) : r.isVoid = b.isVoid := by
  cases r <;> cases b <;> simp [equivB, Json.isVoid] at h ⊢

/-- two objects with sorted keys: the first has exactly the members of the second, up to equality -/
theorem obj_result {o : Opts} {cur kvs' : List (String × Json)} (hs : keysSorted cur = true)
    (hs' : keysSorted kvs' = true)
    (h : ∀ k, match alookup k kvs' with
      | none => alookup k cur = none
      | some v' => ∃ z, alookup k cur = some z ∧ equivB o z v' = true ∧ equals o z v' = true) :
    equivB o (.obj cur) (.obj kvs') = true ∧ equals o (.obj cur) (.obj kvs') = true := by
  have hsub1 : cur.map Prod.fst ⊆ kvs'.map Prod.fst := by
    intro k hk
    rw [DPL.mem_keys_iff_lookup] at hk ⊢
    have := h k
    cases hl : alookup k kvs' with
    | none => rw [hl] at this; simp [this] at hk
    | some v' => rfl
  have hsub2 : kvs'.map Prod.fst ⊆ cur.map Prod.fst := by
    intro k hk
    rw [DPL.mem_keys_iff_lookup] at hk ⊢
    have := h k
    cases hl : alookup k kvs' with
    | none => simp [hl] at hk
    | some v' =>
      rw [hl] at this
      obtain ⟨z, hz, _⟩ := this
      simp [hz]
  have hlen : cur.length = kvs'.length := by
    have h1 := DPL.nodup_subset_length_le _ _ (keysSorted_nodup hs) hsub1
    have h2 := DPL.nodup_subset_length_le _ _ (keysSorted_nodup hs') hsub2
    simp only [List.length_map] at h1 h2
    omega
  have key : ∀ k z, (k, z) ∈ cur → ∃ v', alookup k kvs' = some v' ∧ equivB o z v' = true ∧
      equals o z v' = true := by
    intro k z hm
    have hz := alookup_of_mem hs hm
    have := h k
    cases hl : alookup k kvs' with
    | none => rw [hl] at this; simp [this] at hz
    | some v' =>
      rw [hl] at this
      obtain ⟨z', hz', hr⟩ := this
      rw [hz] at hz'
      cases hz'
      exact ⟨v', rfl, hr⟩
  constructor
  · simp only [equivB, Bool.and_eq_true, beq_iff_eq, equivKvs_eq_lookAll, lookAll_iff]
    exact ⟨hlen, fun k z hm => by obtain ⟨v', a, b, _⟩ := key k z hm; exact ⟨v', a, b⟩⟩
  · simp only [equals, Bool.and_eq_true, beq_iff_eq, equalsKvs_eq_lookAll, lookAll_iff]
    exact ⟨hlen, fun k z hm => by obtain ⟨v', a, _, c⟩ := key k z hm; exact ⟨v', a, c⟩⟩

/-- the second loop of `jsonObject.diff`: members of the target that the source does not have -/
theorem patch_adds (L : FloatLaws) (sw : Bool) (P : String → Bool) :
    ∀ (kvs' : List (String × Json)), keysSorted kvs' = true →
      (∀ k v, (k, v) ∈ kvs' → v.isVoid = false) →
      ∀ (cur : List (String × Json)), keysSorted cur = true →
      (∀ k v', (k, v') ∈ kvs' → P k = true → alookup k cur = none) →
      ∃ cur', patchAll sw (.obj cur) ((kvs'.filter (fun kv => P kv.1)).map DPL.addHunk) =
          .ok (.obj cur') ∧ keysSorted cur' = true ∧
        (∀ k0, (∀ v', (k0, v') ∈ kvs' → P k0 = false) → alookup k0 cur' = alookup k0 cur) ∧
        (∀ k v', (k, v') ∈ kvs' → P k = true → alookup k cur' = some v')
  | [], _, _, cur, hs, _ => ⟨cur, by simp [patchAll], hs, fun _ _ => rfl, fun _ _ h => by cases h⟩
  | (k, v') :: r, hs', hnv, cur, hs, hnone => by
    have hs'r := DPL.keysSorted_cons_iff.1 hs'
    have hnv' : ∀ k v, (k, v) ∈ r → v.isVoid = false :=
      fun k1 v1 hm => hnv k1 v1 (List.mem_cons_of_mem _ hm)
    by_cases hP : P k = true
    · have hx : alookup k cur = (if Json.void.isVoid then none else some Json.void) := by
        simpa [Json.isVoid] using hnone k v' List.mem_cons_self hP
      have okv : Ok .void := ⟨by decide, by decide⟩
      have hv : patchAll sw Json.void [{ path := [], add := v'.nodeList }] = .ok v' := by
        apply patchAll_single
        have := patch_replace L sw okv v'.nodeList (nodeList_length_le v')
        rw [singleValue_nodeList] at this
        exact this
      obtain ⟨cur1, h1, h2, h3, h4⟩ := patchAll_key_frame sw k _ (by simp) cur .void hs hx v' hv
      rw [hnv k v' List.mem_cons_self] at h4
      simp only [Bool.false_eq_true, if_false] at h4
      obtain ⟨cur', g1, g2, g3, g4⟩ := patch_adds L sw P r hs'r.2 hnv' cur1 h2
        (fun k1 v1 hm hP1 => by
          have hne : k1 ≠ k := fun e => String.lt_irrefl k (e ▸ hs'r.1 k1 v1 hm)
          rw [h3 k1 hne]
          exact hnone k1 v1 (List.mem_cons_of_mem _ hm) hP1)
      refine ⟨cur', ?_, g2, ?_, ?_⟩
      · simp only [List.filter_cons, hP, if_true, List.map_cons]
        have e : DPL.addHunk (k, v') :: List.map DPL.addHunk (List.filter (fun kv => P kv.1) r) =
            List.map (DPL.shiftHunk [.key k]) [{ path := [], add := v'.nodeList }] ++
            List.map DPL.addHunk (List.filter (fun kv => P kv.1) r) := by
          simp [DPL.shiftHunk, DPL.addHunk]
        rw [e, patchAll_append sw _ _ _ _ h1]
        exact g1
      · intro k0 hk0
        have hne : k0 ≠ k := fun e => by
          have := hk0 v' (e ▸ List.mem_cons_self); simp [e, hP] at this
        rw [g3 k0 (fun v1 hm => hk0 v1 (List.mem_cons_of_mem _ hm)), h3 k0 hne]
      · intro k1 v1 hm hP1
        rcases List.mem_cons.1 hm with e | hm
        · cases e
          rw [g3 k (fun v2 hm2 => absurd (hs'r.1 k v2 hm2) (String.lt_irrefl k)), h4]
        · exact g4 k1 v1 hm hP1
    · obtain ⟨cur', g1, g2, g3, g4⟩ := patch_adds L sw P r hs'r.2 hnv' cur hs
        (fun k1 v1 hm hP1 => hnone k1 v1 (List.mem_cons_of_mem _ hm) hP1)
      refine ⟨cur', ?_, g2, ?_, ?_⟩
      · simp only [List.filter_cons, hP, Bool.false_eq_true, if_false]
        exact g1
      · intro k0 hk0
        exact g3 k0 (fun v1 hm => hk0 v1 (List.mem_cons_of_mem _ hm))
      · intro k1 v1 hm hP1
        rcases List.mem_cons.1 hm with e | hm
        · cases e; exact absurd hP1 hP
        · exact g4 k1 v1 hm hP1

/-- the first loop of `jsonObject.diff`: the members of the source in key order -/
theorem kvs_step (L : FloatLaws) (sw : Bool) (o : Opts) (kvs' : List (String × Json))
    (hb : Ok (.obj kvs')) (p : Path) :
    ∀ (r : List (String × Json)),
      (∀ k v, (k, v) ∈ r → Ok v ∧ v.isVoid = false ∧
        ∀ v', alookup k kvs' = some v' → ∀ q, Step sw o v v' q) →
      keysSorted r = true →
      ∀ cur, keysSorted cur = true → (∀ k v, (k, v) ∈ r → alookup k cur = some v) →
      ∃ D cur', diffKvs o false p kvs' r = D.map (DPL.shiftHunk p) ∧ (∀ h ∈ D, h.merge = false) ∧
        patchAll sw (.obj cur) D = .ok (.obj cur') ∧ keysSorted cur' = true ∧
        (∀ k0, (∀ v, (k0, v) ∉ r) → alookup k0 cur' = alookup k0 cur) ∧
        (∀ k v, (k, v) ∈ r → match alookup k kvs' with
          | none => alookup k cur' = none
          | some v' => ∃ z, alookup k cur' = some z ∧ equivB o z v' = true ∧ equals o z v' = true)
  | [], _, _, cur, hs, _ =>
    ⟨[], cur, by simp [DE.diffKvs_nil], by simp, rfl, hs, fun _ _ => rfl, fun _ _ h => by cases h⟩
  | (k, v) :: r, hr, hsk, cur, hs, hcur => by
    obtain ⟨okv, hnv, ihv⟩ := hr k v List.mem_cons_self
    have hsk' := DPL.keysSorted_cons_iff.1 hsk
    have hx : alookup k cur = (if v.isVoid then none else some v) := by
      rw [hcur k v List.mem_cons_self, hnv]; rfl
    have hknr : ∀ w, (k, w) ∉ r := fun w hm => String.lt_irrefl k (hsk'.1 k w hm)
    have step : ∀ (D0 : Diff) (r0 : Json), (∀ h ∈ D0, h.merge = false) →
        patchAll sw v D0 = .ok r0 →
        ((r0 = .void ∧ alookup k kvs' = none) ∨
          ∃ v', alookup k kvs' = some v' ∧ equivB o r0 v' = true ∧ equals o r0 v' = true) →
        ∃ D cur', D0.map (DPL.shiftHunk (p ++ [.key k])) ++ diffKvs o false p kvs' r =
            D.map (DPL.shiftHunk p) ∧ (∀ h ∈ D, h.merge = false) ∧
          patchAll sw (.obj cur) D = .ok (.obj cur') ∧ keysSorted cur' = true ∧
          (∀ k0, (∀ v_1, (k0, v_1) ∉ (k, v) :: r) → alookup k0 cur' = alookup k0 cur) ∧
          (∀ k_1 v_1, (k_1, v_1) ∈ (k, v) :: r → match alookup k_1 kvs' with
            | none => alookup k_1 cur' = none
            | some v' => ∃ z, alookup k_1 cur' = some z ∧ equivB o z v' = true ∧
                equals o z v' = true) := by
      intro D0 r0 hD0 hr0 hres
      obtain ⟨cur1, g1, g2, g3, g4⟩ := patchAll_key_frame sw k D0 hD0 cur v hs hx r0 hr0
      obtain ⟨Dr, cur', f0, f0', f1, f2, f3, f4⟩ := kvs_step L sw o kvs' hb p r
        (fun k1 v1 hm => hr k1 v1 (List.mem_cons_of_mem _ hm)) hsk'.2 cur1 g2 (fun k1 v1 hm => by
          have hne : k1 ≠ k := fun e => String.lt_irrefl k (e ▸ hsk'.1 k1 v1 hm)
          rw [g3 k1 hne]
          exact hcur k1 v1 (List.mem_cons_of_mem _ hm))
      refine ⟨D0.map (DPL.shiftHunk [.key k]) ++ Dr, cur', ?_, ?_, ?_, f2, ?_, ?_⟩
      · rw [f0, List.map_append, List.map_map]
        congr 1
        apply List.map_congr_left
        intro h _
        simp [shiftHunk_shiftHunk]
      · intro h hh
        rcases List.mem_append.1 hh with hh | hh
        · obtain ⟨h0, hh0, rfl⟩ := List.mem_map.1 hh
          exact hD0 h0 hh0
        · exact f0' h hh
      · rw [patchAll_append sw _ _ _ _ g1]
        exact f1
      · intro k0 hk0
        have hne : k0 ≠ k := fun e => hk0 v (e ▸ List.mem_cons_self)
        rw [f3 k0 (fun w hm => hk0 w (List.mem_cons_of_mem _ hm)), g3 k0 hne]
      · intro k1 v1 hm
        rcases List.mem_cons.1 hm with e | hm
        · cases e
          rw [f3 k hknr, g4]
          rcases hres with ⟨rfl, hlk⟩ | ⟨v', hlk, hres⟩
          · rw [hlk]; rfl
          · rw [hlk]
            have hnv' : r0.isVoid = false := by
              rw [equivB_isVoid hres.1]; exact (hb.lookup hlk).2
            exact ⟨r0, by rw [hnv']; rfl, hres⟩
        · exact f4 k1 v1 hm
    rw [DE.diffKvs_cons]
    cases hlk : alookup k kvs' with
    | some v' =>
      obtain ⟨D0, r0, d1, d2, d3, d4, d5⟩ := ihv v' hlk (p ++ [.key k])
      simp only []
      rw [d1]
      exact step D0 r0 d2 d3 (.inr ⟨v', hlk, d4, d5⟩)
    | none =>
      simp only [Bool.false_eq_true, if_false]
      have h1 : patchAll sw v [{ path := [], remove := v.nodeList }] = .ok .void := by
        apply patchAll_single
        exact patch_replace L sw okv [] (by simp)
      have := step [{ path := [], remove := v.nodeList }] .void (by simp) h1 (.inl ⟨rfl, hlk⟩)
      simpa [DPL.shiftHunk] using this

/-! ## 10. the main induction and the theorems -/

theorem node_step (F : FloatEq0) (L : FloatLaws) (sw : Bool) {o : Opts}
    (hm : dispatchTag o = .set ∨ dispatchTag o = .mset) (hk : keysOf o = none) (hp : precOf o = 0)
    {S : List Json} (HF : HashFaithful o S) :
    ∀ a b, Ok a → Ok b → Within S a → Within S b → ∀ p, Step sw o a b p := by
  intro a
  induction a using jsonInd with
  | void =>
    intro b ha hb _ wb p
    exact scalar_step F L sw hm hp HF (fun _ _ e => by cases e) (fun _ e => by cases e) ha hb wb p
  | null =>
    intro b ha hb _ wb p
    exact scalar_step F L sw hm hp HF (fun _ _ e => by cases e) (fun _ e => by cases e) ha hb wb p
  | bool x =>
    intro b ha hb _ wb p
    exact scalar_step F L sw hm hp HF (fun _ _ e => by cases e) (fun _ e => by cases e) ha hb wb p
  | num x =>
    intro b ha hb _ wb p
    exact scalar_step F L sw hm hp HF (fun _ _ e => by cases e) (fun _ e => by cases e) ha hb wb p
  | str x =>
    intro b ha hb _ wb p
    exact scalar_step F L sw hm hp HF (fun _ _ e => by cases e) (fun _ e => by cases e) ha hb wb p
  | arr t xs _ =>
    intro b ha hb wa wb p
    have ht := ha.raw
    subst ht
    cases b with
    | arr t' ys =>
      have ht' := hb.raw
      subst ht'
      rcases hm with hd | hd
      · exact set_step F sw hd hk hp HF xs ys ha hb wa wb p
      · exact mset_step F sw hd hk hp HF xs ys ha hb wa wb p
    | _ =>
      refine replace_step F L sw hm hp HF ha hb wb p _ (nodeList_length_le _)
        (singleValue_nodeList _) ?_
      rw [diffNode_arr_other hm xs _ (fun _ _ e => by cases e) p]
      rfl
  | obj kvs ih =>
    intro b ha hb wa wb p
    cases b with
    | obj kvs' =>
      have hsa := ha.sorted
      have hsb := hb.sorted
      obtain ⟨D1, cur1, e1, m1, h1, hs1, hother1, hmem1⟩ := kvs_step L sw o kvs' hb p kvs
        (fun k v hm => ⟨(ha.val hm).1, (ha.val hm).2, fun v' hl q =>
          ih k v hm v' (ha.val hm).1 (hb.lookup hl).1 (wa.val hm) (wb.val (mem_of_alookup hl)) q⟩)
        hsa kvs hsa (fun k v hm => alookup_of_mem hsa hm)
      obtain ⟨cur2, h2, hs2, hother2, hmem2⟩ := patch_adds L sw (fun k => (alookup k kvs).isNone)
        kvs' hsb (fun k v hm => (hb.val hm).2) cur1 hs1 (fun k v' _ hP => by
          have hkn : alookup k kvs = none := by simpa using hP
          rw [hother1 k (fun v hm => by rw [alookup_of_mem hsa hm] at hkn; cases hkn), hkn])
      have hfin : ∀ k, match alookup k kvs' with
          | none => alookup k cur2 = none
          | some v' => ∃ z, alookup k cur2 = some z ∧ equivB o z v' = true ∧
              equals o z v' = true := by
        intro k
        cases hlk' : alookup k kvs' with
        | some v' =>
          simp only []
          have hm' := mem_of_alookup hlk'
          cases hlk : alookup k kvs with
          | none =>
            obtain ⟨r1, r2⟩ := refl_both F L hm hp HF (hb.val hm').1 (wb.val hm')
            exact ⟨v', hmem2 k v' hm' (by simp [hlk]), r1, r2⟩
          | some v =>
            have := hmem1 k v (mem_of_alookup hlk)
            rw [hlk'] at this
            obtain ⟨z, hz, hr⟩ := this
            refine ⟨z, ?_, hr⟩
            rw [hother2 k (fun _ _ => by simp [hlk]), hz]
        | none =>
          simp only []
          rw [hother2 k (fun v' hm => by rw [alookup_of_mem hsb hm] at hlk'; cases hlk')]
          cases hlk : alookup k kvs with
          | none =>
            rw [hother1 k (fun v hm => by rw [alookup_of_mem hsa hm] at hlk; cases hlk), hlk]
          | some v =>
            have := hmem1 k v (mem_of_alookup hlk)
            rw [hlk'] at this
            exact this
      obtain ⟨r1, r2⟩ := obj_result hs2 hsb hfin
      refine ⟨D1 ++ (kvs'.filter (fun kv => (alookup kv.1 kvs).isNone)).map DPL.addHunk,
        .obj cur2, ?_, ?_, ?_, r1, r2⟩
      · rw [DE.diffNode_obj_obj, e1, List.map_append, List.map_map]
        congr 1
      · intro h hh
        rcases List.mem_append.1 hh with hh | hh
        · exact m1 h hh
        · obtain ⟨kv, _, rfl⟩ := List.mem_map.1 hh
          rfl
      · rw [patchAll_append sw _ _ _ _ h1]
        exact h2
    | _ =>
      refine replace_step F L sw hm hp HF ha hb wb p [_] (by simp) rfl ?_
      rw [DPL.diffNode_obj_other o kvs _ (fun _ e => by cases e) p]
      rfl

/-- **C01, SET and MULTISET readings (no SetKeys, strict strategy, no Precision).**
    For documents as read from JSON text (`setDoc`: plain arrays, sorted unique keys, finite
    numbers, no `-0`; `memOK`: no void object member), when among the sub-terms of `a` and `b` equal
    hash codes occur only for equivalent nodes (`HashFaithful`: no FNV collision, no pre-image
    alias), the hunks of `a.Diff(b)` apply to `a` in sequence with the library's own patch code
    (either behaviour `sw` of the keyed-member branch, which is never reached), and the result is
    equal to `b`, both for the advertised equivalence and for the library's `Equals`. -/
theorem diff_then_patch_setmodes (F : FloatEq0) (L : FloatLaws) (sw : Bool) (o : Opts)
    (hm : dispatchTag o = .set ∨ dispatchTag o = .mset) (hk : keysOf o = none)
    (hmg : isMerge o = false) (hp : precOf o = 0) (a b : Json)
    (ha : a.setDoc = true) (hb : b.setDoc = true)
    (ha' : DPL.memOK a = true) (hb' : DPL.memOK b = true)
    (HF : HashFaithful o (subterms a ++ subterms b)) :
    ∃ r, patchAll sw a (diffM o a b) = .ok r ∧ equivB o r b = true ∧ equals o r b = true := by
  obtain ⟨D, r, e, _, h, h1, h2⟩ := node_step F L sw hm hk hp HF a b ⟨ha, ha'⟩ ⟨hb, hb'⟩
    (fun z hz => List.mem_append.2 (Or.inl hz)) (fun z hz => List.mem_append.2 (Or.inr hz)) []
  have hid : D.map (DPL.shiftHunk []) = D := by
    rw [List.map_congr_left (g := id) (fun h _ => by simp [DPL.shiftHunk]), List.map_id]
  refine ⟨r, ?_, h1, h2⟩
  unfold diffM
  rw [hmg, e, hid]
  exact h

/-- **C01, SET reading** -/
theorem diff_then_patch_set (F : FloatEq0) (L : FloatLaws) (sw : Bool) (o : Opts)
    (hd : dispatchTag o = .set) (hk : keysOf o = none) (hmg : isMerge o = false)
    (hp : precOf o = 0) (a b : Json) (ha : a.setDoc = true) (hb : b.setDoc = true)
    (ha' : DPL.memOK a = true) (hb' : DPL.memOK b = true)
    (HF : HashFaithful o (subterms a ++ subterms b)) :
    ∃ r, patchAll sw a (diffM o a b) = .ok r ∧ equivB o r b = true ∧ equals o r b = true :=
  diff_then_patch_setmodes F L sw o (Or.inl hd) hk hmg hp a b ha hb ha' hb' HF

/-- **C01, MULTISET reading** -/
theorem diff_then_patch_mset (F : FloatEq0) (L : FloatLaws) (sw : Bool) (o : Opts)
    (hd : dispatchTag o = .mset) (hk : keysOf o = none) (hmg : isMerge o = false)
    (hp : precOf o = 0) (a b : Json) (ha : a.setDoc = true) (hb : b.setDoc = true)
    (ha' : DPL.memOK a = true) (hb' : DPL.memOK b = true)
    (HF : HashFaithful o (subterms a ++ subterms b)) :
    ∃ r, patchAll sw a (diffM o a b) = .ok r ∧ equivB o r b = true ∧ equals o r b = true :=
  diff_then_patch_setmodes F L sw o (Or.inr hd) hk hmg hp a b ha hb ha' hb' HF

/-- the library call `a.Patch(a.Diff(b, SET))` -/
theorem patchM_diffM_set (F : FloatEq0) (L : FloatLaws) (a b : Json)
    (ha : a.setDoc = true) (hb : b.setDoc = true)
    (ha' : DPL.memOK a = true) (hb' : DPL.memOK b = true)
    (HF : HashFaithful [.set] (subterms a ++ subterms b)) :
    ∃ r, patchM a (diffM [.set] a b) = .ok r ∧ equivB [.set] r b = true ∧
      equals [.set] r b = true :=
  diff_then_patch_set F L true [.set] rfl rfl rfl rfl a b ha hb ha' hb' HF

/-- the library call `a.Patch(a.Diff(b, MULTISET))` -/
theorem patchM_diffM_mset (F : FloatEq0) (L : FloatLaws) (a b : Json)
    (ha : a.setDoc = true) (hb : b.setDoc = true)
    (ha' : DPL.memOK a = true) (hb' : DPL.memOK b = true)
    (HF : HashFaithful [.mset] (subterms a ++ subterms b)) :
    ∃ r, patchM a (diffM [.mset] a b) = .ok r ∧ equivB [.mset] r b = true ∧
      equals [.mset] r b = true :=
  diff_then_patch_mset F L true [.mset] rfl rfl rfl rfl a b ha hb ha' hb' HF

/-! ## 11. non-vacuity; the hypotheses are needed -/

namespace Example

/-- `{"s":[true,null,{"k":null}]}` -/
def exA : Json := .obj [("s", .arr .raw [.bool true, .null, .obj [("k", .null)]])]
/-- `{"s":[{"k":null},null,false],"t":null}` -/
def exB : Json := .obj [("s", .arr .raw [.obj [("k", .null)], .null, .bool false]), ("t", .null)]

theorem ex_docs : exA.setDoc = true ∧ exB.setDoc = true ∧ DPL.memOK exA = true ∧
    DPL.memOK exB = true := by decide

theorem ex_hashFaithful_set : HashFaithful [.set] (subterms exA ++ subterms exB) := by
  intro x hx y hy
  simp only [exA, exB, subterms, subtermsList, subtermsKvs, List.cons_append, List.nil_append,
    List.append_nil, List.mem_cons, List.not_mem_nil, or_false] at hx hy
  rcases hx with rfl | rfl | rfl | rfl | rfl | rfl | rfl | rfl | rfl | rfl | rfl | rfl | rfl <;>
  rcases hy with rfl | rfl | rfl | rfl | rfl | rfl | rfl | rfl | rfl | rfl | rfl | rfl | rfl <;>
  first
  | (intro _; simp [equivB, dispatchTag, allIn, allCovered, anyEquiv, equivKvs, alookup]; done)
  | (intro e; exact absurd e (by decide +kernel))

theorem ex_hashFaithful_mset : HashFaithful [.mset] (subterms exA ++ subterms exB) := by
  intro x hx y hy
  simp only [exA, exB, subterms, subtermsList, subtermsKvs, List.cons_append, List.nil_append,
    List.append_nil, List.mem_cons, List.not_mem_nil, or_false] at hx hy
  rcases hx with rfl | rfl | rfl | rfl | rfl | rfl | rfl | rfl | rfl | rfl | rfl | rfl | rfl <;>
  rcases hy with rfl | rfl | rfl | rfl | rfl | rfl | rfl | rfl | rfl | rfl | rfl | rfl | rfl <;>
  first
  | (intro _; simp [equivB, dispatchTag, bagSub, removeFirst, equivKvs, alookup]; done)
  | (intro e; exact absurd e (by decide +kernel))

/-- the theorem describes an actual run (two hunks: one set hunk below the key `s`, one added
    member; see the `#eval`s below); only the IEEE-754 laws are left as assumptions -/
theorem ex_set (F : FloatEq0) (L : FloatLaws) :
    ∃ r, patchM exA (diffM [.set] exA exB) = .ok r ∧ equivB [.set] r exB = true ∧
      equals [.set] r exB = true :=
  patchM_diffM_set F L exA exB ex_docs.1 ex_docs.2.1 ex_docs.2.2.1 ex_docs.2.2.2 ex_hashFaithful_set

theorem ex_mset (F : FloatEq0) (L : FloatLaws) :
    ∃ r, patchM exA (diffM [.mset] exA exB) = .ok r ∧ equivB [.mset] r exB = true ∧
      equals [.mset] r exB = true :=
  patchM_diffM_mset F L exA exB ex_docs.1 ex_docs.2.1 ex_docs.2.2.1 ex_docs.2.2.2
    ex_hashFaithful_mset

/-- `HashFaithful` is needed for the `equivB` part (known finding KF-C04-alias: `[[]]` and `[""]`
    have the same hash code): the diff is empty, the patched document is `a` itself, which `Equals`
    `b` but is not equivalent to it. -/
def alA : Json := .arr .raw [.arr .raw []]
def alB : Json := .arr .raw [.str ""]

theorem alias_needs_hashFaithful :
    alA.setDoc = true ∧ alB.setDoc = true ∧
    hashCode [.set] (.arr .raw []) = hashCode [.set] (.str "") ∧
    equals [.set] alA alB = true ∧ equivB [.set] alA alB = false := by
  refine ⟨by decide, by decide, by decide +kernel, by decide +kernel, ?_⟩
  simp [alA, alB, equivB, dispatchTag, allIn, allCovered, anyEquiv]

/-- `memOK` is needed: void stands for "absent"; a void member in the target is deleted by the
    patch, and the result `{}` is not equivalent to `{"k":void}` -/
theorem void_member_not_equiv :
    (Json.obj [("k", .void)]).setDoc = true ∧
    equivB [.set] (.obj []) (.obj [("k", .void)]) = false := by
  refine ⟨by decide, ?_⟩
  simp [equivB]

end Example

end Jd.SetDP

#eval Jd.diffM [.set] Jd.SetDP.Example.exA Jd.SetDP.Example.exB
#eval Jd.patchM Jd.SetDP.Example.exA (Jd.diffM [.set] Jd.SetDP.Example.exA Jd.SetDP.Example.exB)
#eval Jd.patchM Jd.SetDP.Example.exA (Jd.diffM [.mset] Jd.SetDP.Example.exA Jd.SetDP.Example.exB)
-- the alias pair: empty diff, `Equals` true, not equivalent
#eval (Jd.diffM [.set] Jd.SetDP.Example.alA Jd.SetDP.Example.alB,
  Jd.patchM Jd.SetDP.Example.alA (Jd.diffM [.set] Jd.SetDP.Example.alA Jd.SetDP.Example.alB))
-- a void member in the target: the patched document is `{}`
#eval Jd.patchM (.obj [("k", .null)]) (Jd.diffM [.set] (.obj [("k", .null)]) (.obj [("k", .void)]))

#print axioms Jd.SetDP.diffNode_nil_of_equivB
#print axioms Jd.SetDP.set_step
#print axioms Jd.SetDP.mset_step
#print axioms Jd.SetDP.node_step
#print axioms Jd.SetDP.diff_then_patch_setmodes
#print axioms Jd.SetDP.diff_then_patch_set
#print axioms Jd.SetDP.diff_then_patch_mset
#print axioms Jd.SetDP.patchM_diffM_set
#print axioms Jd.SetDP.patchM_diffM_mset
#print axioms Jd.SetDP.Example.ex_set
#print axioms Jd.SetDP.Example.ex_mset
#print axioms Jd.SetDP.Example.alias_needs_hashFaithful
#print axioms Jd.SetDP.Example.void_member_not_equiv
