/-
  JdProofs.DiffMinimal — property C06 in LIST mode, strict strategy, arrays of scalars:
  the diff of two arrays removes exactly `len xs − |LCS|` elements and adds exactly `len ys − |LCS|`
  elements, where LCS is the golcs common sequence of the two HASH lists; hence (with `lcs_optimal`)
  no edit script that matches equal-hash elements removes (adds) fewer elements.  Every hunk carries
  exactly one line of before-context and one line of after-context, sits at `p ++ [.idx i]`, is a
  strict (non-merge) hunk and is not empty.

  Everything lives in the namespace `Jd.Min`.

  Main results (arrays whose elements of the FIRST array are all scalars, `DPL.isScalar`; the loop of
  `diffRest` only inspects `sameContainerType o x y` where `x` is an element of the first array):

  * `diffRest_counts` — the loop invariant: for suffixes `a b`, remaining common sequence `c` with
      `c <+ hashList o a`, `c <+ hashList o b`, accumulators `R A`:
        removes (diffRest o p k s prev a b c R A) = R.length + a.length - c.length
        adds    (diffRest o p k s prev a b c R A) = A.length + b.length - c.length
  * `removes_adds_count` — the advertised statement for the call made by `diffNode`.
  * `removes_adds_count_lcsLength`, `removes_adds_count_spec` — the same with the golcs table corner
      `lcsLength` and with the textbook recurrence `lcsLenSpec`.
  * `removes_minimal`, `adds_minimal` — for ANY common subsequence `c'` of the two hash lists,
      removes ≤ xs.length − c'.length (and removes + c'.length ≤ xs.length, the subtraction-free form).
  * `diffNode_removes_adds_count`, `diffM_removes_adds_count`, `diffM_removes_minimal`,
    `diffM_adds_minimal` — corollaries for `diffNode o false (.arr t xs) (.arr t' ys) p` / `diffM`.
  * `diffRest_shape`, `diff_hunk_shape`, `diffNode_hunk_shape`, `diffM_hunk_shape` — the
    context-count clause.
-/
import JdProofs.LcsProofs
import JdProofs.DiffPatchList

namespace Jd.Min
open Jd Jd.DPL

/-! ## 0. counting removed / added elements of a diff -/

/-- total number of removed elements of a diff -/
def removes (d : Diff) : Nat := (d.map (·.remove.length)).sum

/-- total number of added elements of a diff -/
def adds (d : Diff) : Nat := (d.map (·.add.length)).sum

theorem removes_def (d : Diff) : removes d = (d.map (·.remove.length)).sum := rfl
theorem adds_def (d : Diff) : adds d = (d.map (·.add.length)).sum := rfl

@[simp] theorem removes_nil : removes [] = 0 := rfl
@[simp] theorem adds_nil : adds [] = 0 := rfl

@[simp] theorem removes_append (d e : Diff) : removes (d ++ e) = removes d + removes e := by
  simp [removes]

@[simp] theorem adds_append (d e : Diff) : adds (d ++ e) = adds d + adds e := by
  simp [adds]

/-- the accumulated hunk contributes exactly `|R|` removes (also when nothing was accumulated) -/
@[simp] theorem removes_accHunk (p : Path) (s : Nat) (prev : Json) (R A : List Json) (after : Json) :
    removes (accHunk p s prev R A after) = R.length := by
  unfold accHunk
  split
  · next h =>
    simp only [Bool.and_eq_true, List.isEmpty_iff] at h
    simp [h.1]
  · simp [removes]

/-- the accumulated hunk contributes exactly `|A|` adds (also when nothing was accumulated) -/
@[simp] theorem adds_accHunk (p : Path) (s : Nat) (prev : Json) (R A : List Json) (after : Json) :
    adds (accHunk p s prev R A after) = A.length := by
  unfold accHunk
  split
  · next h =>
    simp only [Bool.and_eq_true, List.isEmpty_iff] at h
    simp [h.2]
  · simp [adds]

/-! ## 1. sublist bookkeeping -/

theorem sublist_of_cons_ne {z h : UInt64} {c l : List UInt64} (hs : (z :: c).Sublist (h :: l))
    (hne : h ≠ z) : (z :: c).Sublist l := by
  cases hs with
  | cons _ hs => exact hs
  | cons_cons _ hs => exact absurd rfl hne

/-! ## 2. the loop invariant -/

theorem length_hashList (o : Opts) (xs : List Json) : (hashList o xs).length = xs.length := by
  induction xs with
  | nil => rfl
  | cons x r ih => simp [hashList_cons, ih]

/-- Loop invariant of `diffRest` on scalar elements: whatever common subsequence `c` of the two
    remaining hash lists is handed to the cursor walk, it emits `|R| + |a| − |c|` removes and
    `|A| + |b| − |c|` adds. -/
theorem diffRest_counts (o : Opts) (p : Path) :
    ∀ (n : Nat) (a b : List Json), a.length + b.length = n →
      ∀ (k s : Nat) (prev : Json) (c : List UInt64) (R A : List Json),
        (∀ x ∈ a, isScalar x = true) →
        c.Sublist (hashList o a) → c.Sublist (hashList o b) →
        removes (diffRest o p k s prev a b c R A) = R.length + a.length - c.length ∧
        adds (diffRest o p k s prev a b c R A) = A.length + b.length - c.length := by
  intro n
  induction n using Nat.strongRecOn with
  | _ n ih =>
    intro a b hn k s prev c R A hsc hca hcb
    cases a with
    | nil =>
      have hc : c = [] := by simpa [hashList] using hca
      subst hc
      rw [diffRest_nilA]
      simp
    | cons x a' =>
      cases b with
      | nil =>
        have hc : c = [] := by simpa [hashList] using hcb
        subst hc
        rw [diffRest_nilB _ _ _ _ _ _ _ _ _ (by simp)]
        simp
      | cons y b' =>
        have hsc' : ∀ z ∈ a', isScalar z = true := fun z hz => hsc z (List.mem_cons_of_mem _ hz)
        have hsame : sameContainerType o x y = false :=
          sameContainerType_scalar o y (hsc x List.mem_cons_self)
        rw [hashList_cons] at hca hcb
        have hla := hca.length_le
        have hlb := hcb.length_le
        simp only [List.length_cons] at hn hla hlb
        rw [diffRest_cons]
        cases c with
        | nil =>
          simp only [atC, Bool.and_self, Bool.false_eq_true, if_false, hsame]
          obtain ⟨h1, h2⟩ := ih (a'.length + b'.length) (by omega) a' b' rfl (k + 1) s prev []
            (R ++ [x]) (A ++ [y]) hsc' (List.nil_sublist _) (List.nil_sublist _)
          simp only [List.length_append, List.length_cons, List.length_nil] at h1 h2 ⊢
          omega
        | cons z c' =>
          by_cases hx : hashCode o x = z
          · by_cases hy : hashCode o y = z
            · -- both cursors at the next common element
              subst hx
              have hA : atC o x (hashCode o x :: c') = true := by simp [atC]
              have hB : atC o y (hashCode o x :: c') = true := by simp [atC, hy]
              simp only [hA, hB, Bool.and_self, if_true, List.tail_cons]
              have hca' : c'.Sublist (hashList o a') := List.cons_sublist_cons.1 hca
              have hcb' : c'.Sublist (hashList o b') := by
                rw [hy] at hcb; exact List.cons_sublist_cons.1 hcb
              obtain ⟨h1, h2⟩ := ih (a'.length + b'.length) (by omega) a' b' rfl (k + 1) (k + 1) y c'
                [] [] hsc' hca' hcb'
              have hla' := hca'.length_le
              have hlb' := hcb'.length_le
              rw [length_hashList] at hla' hlb'
              simp only [removes_append, adds_append, removes_accHunk, adds_accHunk,
                List.length_cons, List.length_nil] at h1 h2 ⊢
              omega
            · -- a at the common element: add from b
              have hA : atC o x (z :: c') = true := by simp [atC, hx]
              have hB : atC o y (z :: c') = false := by simp [atC, hy]
              simp only [hA, hB, Bool.and_false, Bool.false_eq_true, if_false, if_true]
              have hcb' : (z :: c').Sublist (hashList o b') := sublist_of_cons_ne hcb hy
              obtain ⟨h1, h2⟩ := ih ((x :: a').length + b'.length) (by simp; omega) (x :: a') b' rfl
                (k + 1) s prev (z :: c') R (A ++ [y]) hsc (by rw [hashList_cons]; exact hca) hcb'
              have hlb' := hcb'.length_le
              simp only [List.length_append, List.length_cons, List.length_nil] at h1 h2 hlb' ⊢
              omega
          · by_cases hy : hashCode o y = z
            · -- b at the common element: remove from a
              have hA : atC o x (z :: c') = false := by simp [atC, hx]
              have hB : atC o y (z :: c') = true := by simp [atC, hy]
              simp only [hA, hB, Bool.false_and, Bool.false_eq_true, if_false, if_true]
              have hca' : (z :: c').Sublist (hashList o a') := sublist_of_cons_ne hca hx
              obtain ⟨h1, h2⟩ := ih (a'.length + (y :: b').length) (by simp; omega) a' (y :: b') rfl
                k s prev (z :: c') (R ++ [x]) A hsc' hca' (by rw [hashList_cons]; exact hcb)
              have hla' := hca'.length_le
              simp only [List.length_append, List.length_cons, List.length_nil] at h1 h2 hla' ⊢
              omega
            · -- different elements: one remove and one add
              have hA : atC o x (z :: c') = false := by simp [atC, hx]
              have hB : atC o y (z :: c') = false := by simp [atC, hy]
              simp only [hA, hB, Bool.and_self, Bool.false_eq_true, if_false, hsame]
              have hca' : (z :: c').Sublist (hashList o a') := sublist_of_cons_ne hca hx
              have hcb' : (z :: c').Sublist (hashList o b') := sublist_of_cons_ne hcb hy
              obtain ⟨h1, h2⟩ := ih (a'.length + b'.length) (by omega) a' b' rfl (k + 1) s prev
                (z :: c') (R ++ [x]) (A ++ [y]) hsc' hca' hcb'
              have hla' := hca'.length_le
              have hlb' := hcb'.length_le
              simp only [List.length_append, List.length_cons, List.length_nil] at h1 h2 hla' hlb' ⊢
              omega

/-! ## 3. the advertised statements -/

/-- C06, arrays of scalars, list mode: the diff removes exactly `len xs − |LCS|` elements and adds
    exactly `len ys − |LCS|` elements. -/
theorem removes_adds_count (o : Opts) (p : Path) (xs ys : List Json)
    (scalars : ∀ x ∈ xs, isScalar x = true) :
    let d := diffRest o p 0 0 .void xs ys (lcsValues (hashList o xs) (hashList o ys)) [] []
    (d.map (·.remove.length)).sum = xs.length - (lcsValues (hashList o xs) (hashList o ys)).length ∧
    (d.map (·.add.length)).sum = ys.length - (lcsValues (hashList o xs) (hashList o ys)).length := by
  intro d
  have h := diffRest_counts o p _ xs ys rfl 0 0 .void
    (lcsValues (hashList o xs) (hashList o ys)) [] [] scalars
    (lcsValues_sublist_left _ _) (lcsValues_sublist_right _ _)
  simpa [removes, adds] using h

/-- the same with the corner of the golcs table -/
theorem removes_adds_count_lcsLength (o : Opts) (p : Path) (xs ys : List Json)
    (scalars : ∀ x ∈ xs, isScalar x = true) :
    let d := diffRest o p 0 0 .void xs ys (lcsValues (hashList o xs) (hashList o ys)) [] []
    (d.map (·.remove.length)).sum = xs.length - lcsLength (hashList o xs) (hashList o ys) ∧
    (d.map (·.add.length)).sum = ys.length - lcsLength (hashList o xs) (hashList o ys) := by
  intro d
  have h := removes_adds_count o p xs ys scalars
  rw [lcsValues_length] at h
  exact h

/-- the same with the textbook LCS recurrence -/
theorem removes_adds_count_spec (o : Opts) (p : Path) (xs ys : List Json)
    (scalars : ∀ x ∈ xs, isScalar x = true) :
    let d := diffRest o p 0 0 .void xs ys (lcsValues (hashList o xs) (hashList o ys)) [] []
    (d.map (·.remove.length)).sum = xs.length - lcsLenSpec (hashList o xs) (hashList o ys) ∧
    (d.map (·.add.length)).sum = ys.length - lcsLenSpec (hashList o xs) (hashList o ys) := by
  intro d
  have h := removes_adds_count o p xs ys scalars
  rw [lcsValues_length_spec] at h
  exact h

/-- minimality of the removes: no common subsequence of the two hash lists leaves fewer elements
    to remove.  (`removes + |c'| ≤ |xs|` is the subtraction-free form.) -/
theorem removes_minimal (o : Opts) (p : Path) (xs ys : List Json)
    (scalars : ∀ x ∈ xs, isScalar x = true)
    (c' : List UInt64) (h1 : c'.Sublist (hashList o xs)) (h2 : c'.Sublist (hashList o ys)) :
    let d := diffRest o p 0 0 .void xs ys (lcsValues (hashList o xs) (hashList o ys)) [] []
    (d.map (·.remove.length)).sum ≤ xs.length - c'.length ∧
    (d.map (·.remove.length)).sum + c'.length ≤ xs.length := by
  intro d
  have h := (removes_adds_count o p xs ys scalars).1
  have hopt := lcs_optimal (hashList o xs) (hashList o ys) c' h1 h2
  have hle := (lcsValues_sublist_left (hashList o xs) (hashList o ys)).length_le
  rw [length_hashList] at hle
  constructor
  · show (d.map (·.remove.length)).sum ≤ _
    rw [h]; omega
  · show (d.map (·.remove.length)).sum + _ ≤ _
    rw [h]; omega

/-- minimality of the adds -/
theorem adds_minimal (o : Opts) (p : Path) (xs ys : List Json)
    (scalars : ∀ x ∈ xs, isScalar x = true)
    (c' : List UInt64) (h1 : c'.Sublist (hashList o xs)) (h2 : c'.Sublist (hashList o ys)) :
    let d := diffRest o p 0 0 .void xs ys (lcsValues (hashList o xs) (hashList o ys)) [] []
    (d.map (·.add.length)).sum ≤ ys.length - c'.length ∧
    (d.map (·.add.length)).sum + c'.length ≤ ys.length := by
  intro d
  have h := (removes_adds_count o p xs ys scalars).2
  have hopt := lcs_optimal (hashList o xs) (hashList o ys) c' h1 h2
  have hle := (lcsValues_sublist_right (hashList o xs) (hashList o ys)).length_le
  rw [length_hashList] at hle
  constructor
  · show (d.map (·.add.length)).sum ≤ _
    rw [h]; omega
  · show (d.map (·.add.length)).sum + _ ≤ _
    rw [h]; omega

/-- minimality against the textbook recurrence: the diff removes / adds exactly the textbook
    optimum, and `lcsLenSpec` dominates every common subsequence (`lcsLenSpec_upper`). -/
theorem removes_adds_minimal_spec (o : Opts) (p : Path) (xs ys : List Json)
    (scalars : ∀ x ∈ xs, isScalar x = true) :
    let d := diffRest o p 0 0 .void xs ys (lcsValues (hashList o xs) (hashList o ys)) [] []
    ((d.map (·.remove.length)).sum = xs.length - lcsLenSpec (hashList o xs) (hashList o ys) ∧
     (d.map (·.add.length)).sum = ys.length - lcsLenSpec (hashList o xs) (hashList o ys)) ∧
    ∀ c' : List UInt64, c'.Sublist (hashList o xs) → c'.Sublist (hashList o ys) →
      c'.length ≤ lcsLenSpec (hashList o xs) (hashList o ys) := by
  intro d
  exact ⟨removes_adds_count_spec o p xs ys scalars, fun c' h1 h2 => lcsLenSpec_upper _ _ c' h1 h2⟩

/-! ## 4. corollaries for `diffNode` and `diffM` -/

theorem diffNode_removes_adds_count {o : Opts} (ho : dispatchTag o = .list) {t t' : Tag}
    (xs ys : List Json)
    (ht : (t == .raw || t == .list) = true) (ht' : (t' == .raw || t' == .list) = true)
    (htt : t = .raw ∨ t' = .list) (p : Path)
    (scalars : ∀ x ∈ xs, isScalar x = true) :
    let d := diffNode o false (.arr t xs) (.arr t' ys) p
    (d.map (·.remove.length)).sum = xs.length - (lcsValues (hashList o xs) (hashList o ys)).length ∧
    (d.map (·.add.length)).sum = ys.length - (lcsValues (hashList o xs) (hashList o ys)).length := by
  intro d
  have e : d = diffRest o p 0 0 .void xs ys (lcsValues (hashList o xs) (hashList o ys)) [] [] :=
    diffNode_arr_arr ho xs ys ht ht' htt p
  rw [e]
  exact removes_adds_count o p xs ys scalars

theorem diffNode_removes_minimal {o : Opts} (ho : dispatchTag o = .list) {t t' : Tag}
    (xs ys : List Json)
    (ht : (t == .raw || t == .list) = true) (ht' : (t' == .raw || t' == .list) = true)
    (htt : t = .raw ∨ t' = .list) (p : Path)
    (scalars : ∀ x ∈ xs, isScalar x = true)
    (c' : List UInt64) (h1 : c'.Sublist (hashList o xs)) (h2 : c'.Sublist (hashList o ys)) :
    let d := diffNode o false (.arr t xs) (.arr t' ys) p
    (d.map (·.remove.length)).sum ≤ xs.length - c'.length ∧
    (d.map (·.add.length)).sum ≤ ys.length - c'.length := by
  intro d
  have e : d = diffRest o p 0 0 .void xs ys (lcsValues (hashList o xs) (hashList o ys)) [] [] :=
    diffNode_arr_arr ho xs ys ht ht' htt p
  rw [e]
  exact ⟨(removes_minimal o p xs ys scalars c' h1 h2).1, (adds_minimal o p xs ys scalars c' h1 h2).1⟩

/-- `a.Diff(b)` for two arrays of scalars, list mode, strict strategy: exact counts -/
theorem diffM_removes_adds_count {o : Opts} (ho : dispatchTag o = .list) (hm : isMerge o = false)
    {t t' : Tag} (xs ys : List Json)
    (ht : (t == .raw || t == .list) = true) (ht' : (t' == .raw || t' == .list) = true)
    (htt : t = .raw ∨ t' = .list)
    (scalars : ∀ x ∈ xs, isScalar x = true) :
    let d := diffM o (.arr t xs) (.arr t' ys)
    (d.map (·.remove.length)).sum = xs.length - (lcsValues (hashList o xs) (hashList o ys)).length ∧
    (d.map (·.add.length)).sum = ys.length - (lcsValues (hashList o xs) (hashList o ys)).length := by
  intro d
  have e : d = diffNode o false (.arr t xs) (.arr t' ys) [] := by
    show diffM o _ _ = _
    rw [diffM, hm]
  rw [e]
  exact diffNode_removes_adds_count ho xs ys ht ht' htt [] scalars

/-- `a.Diff(b)`: exact counts against the textbook LCS recurrence -/
theorem diffM_removes_adds_count_spec {o : Opts} (ho : dispatchTag o = .list)
    (hm : isMerge o = false) {t t' : Tag} (xs ys : List Json)
    (ht : (t == .raw || t == .list) = true) (ht' : (t' == .raw || t' == .list) = true)
    (htt : t = .raw ∨ t' = .list)
    (scalars : ∀ x ∈ xs, isScalar x = true) :
    let d := diffM o (.arr t xs) (.arr t' ys)
    (d.map (·.remove.length)).sum = xs.length - lcsLenSpec (hashList o xs) (hashList o ys) ∧
    (d.map (·.add.length)).sum = ys.length - lcsLenSpec (hashList o xs) (hashList o ys) := by
  intro d
  have h := diffM_removes_adds_count ho hm xs ys ht ht' htt scalars
  rw [lcsValues_length_spec] at h
  exact h

/-- `a.Diff(b)`: no edit script matching equal-hash elements removes or adds fewer elements -/
theorem diffM_removes_adds_minimal {o : Opts} (ho : dispatchTag o = .list) (hm : isMerge o = false)
    {t t' : Tag} (xs ys : List Json)
    (ht : (t == .raw || t == .list) = true) (ht' : (t' == .raw || t' == .list) = true)
    (htt : t = .raw ∨ t' = .list)
    (scalars : ∀ x ∈ xs, isScalar x = true)
    (c' : List UInt64) (h1 : c'.Sublist (hashList o xs)) (h2 : c'.Sublist (hashList o ys)) :
    let d := diffM o (.arr t xs) (.arr t' ys)
    (d.map (·.remove.length)).sum ≤ xs.length - c'.length ∧
    (d.map (·.add.length)).sum ≤ ys.length - c'.length := by
  intro d
  have e : d = diffNode o false (.arr t xs) (.arr t' ys) [] := by
    show diffM o _ _ = _
    rw [diffM, hm]
  rw [e]
  exact diffNode_removes_minimal ho xs ys ht ht' htt [] scalars c' h1 h2

/-! ## 5. the context-count clause -/

/-- shape of a list hunk: strict, at an index below `p`, one line of context on each side, and
    something to do -/
def ListHunk (p : Path) (h : Hunk) : Prop :=
  h.before.length = 1 ∧ h.after.length = 1 ∧ (∃ i : Nat, h.path = p ++ [.idx i]) ∧
    h.merge = false ∧ (h.remove ≠ [] ∨ h.add ≠ [])

theorem accHunk_shape {p : Path} {s : Nat} {prev : Json} {R A : List Json} {after : Json} {h : Hunk}
    (hm : h ∈ accHunk p s prev R A after) : ListHunk p h := by
  unfold accHunk at hm
  split at hm
  · cases hm
  · next hne =>
    simp only [List.mem_singleton] at hm
    subst hm
    refine ⟨rfl, rfl, ⟨s, rfl⟩, rfl, ?_⟩
    simp only [Bool.and_eq_true, List.isEmpty_iff, not_and] at hne
    by_cases hR : R = []
    · exact .inr (hne hR)
    · exact .inl hR

theorem diffRest_shape (o : Opts) (p : Path) :
    ∀ (n : Nat) (a b : List Json), a.length + b.length = n →
      ∀ (k s : Nat) (prev : Json) (c : List UInt64) (R A : List Json),
        (∀ x ∈ a, isScalar x = true) →
        ∀ h ∈ diffRest o p k s prev a b c R A, ListHunk p h := by
  intro n
  induction n using Nat.strongRecOn with
  | _ n ih =>
    intro a b hn k s prev c R A hsc h hm
    cases a with
    | nil =>
      rw [diffRest_nilA] at hm
      exact accHunk_shape hm
    | cons x a' =>
      cases b with
      | nil =>
        rw [diffRest_nilB _ _ _ _ _ _ _ _ _ (by simp)] at hm
        exact accHunk_shape hm
      | cons y b' =>
        have hsc' : ∀ z ∈ a', isScalar z = true := fun z hz => hsc z (List.mem_cons_of_mem _ hz)
        have hsame : sameContainerType o x y = false :=
          sameContainerType_scalar o y (hsc x List.mem_cons_self)
        simp only [List.length_cons] at hn
        rw [diffRest_cons] at hm
        simp only [hsame, Bool.false_eq_true, if_false] at hm
        split at hm
        · rcases List.mem_append.1 hm with hm | hm
          · exact accHunk_shape hm
          · exact ih (a'.length + b'.length) (by omega) a' b' rfl _ _ _ _ _ _ hsc' h hm
        · split at hm
          · exact ih ((x :: a').length + b'.length) (by simp; omega) (x :: a') b' rfl _ _ _ _ _ _ hsc
              h hm
          · split at hm
            · exact ih (a'.length + (y :: b').length) (by simp; omega) a' (y :: b') rfl _ _ _ _ _ _
                hsc' h hm
            · exact ih (a'.length + b'.length) (by omega) a' b' rfl _ _ _ _ _ _ hsc' h hm

/-- every hunk of the list diff of two arrays of scalars has exactly one before-context line, one
    after-context line, and a path ending in an index -/
theorem diff_hunk_shape (o : Opts) (p : Path) (xs ys : List Json)
    (scalars : ∀ x ∈ xs, isScalar x = true) :
    ∀ h ∈ diffRest o p 0 0 .void xs ys (lcsValues (hashList o xs) (hashList o ys)) [] [],
      h.before.length = 1 ∧ h.after.length = 1 ∧ (∃ i : Nat, h.path = p ++ [.idx i]) ∧
        h.merge = false ∧ (h.remove ≠ [] ∨ h.add ≠ []) :=
  fun h hm => diffRest_shape o p _ xs ys rfl 0 0 .void _ [] [] scalars h hm

theorem diffNode_hunk_shape {o : Opts} (ho : dispatchTag o = .list) {t t' : Tag}
    (xs ys : List Json)
    (ht : (t == .raw || t == .list) = true) (ht' : (t' == .raw || t' == .list) = true)
    (htt : t = .raw ∨ t' = .list) (p : Path)
    (scalars : ∀ x ∈ xs, isScalar x = true) :
    ∀ h ∈ diffNode o false (.arr t xs) (.arr t' ys) p,
      h.before.length = 1 ∧ h.after.length = 1 ∧ (∃ i : Nat, h.path = p ++ [.idx i]) ∧
        h.merge = false ∧ (h.remove ≠ [] ∨ h.add ≠ []) := by
  rw [diffNode_arr_arr ho xs ys ht ht' htt p]
  exact diff_hunk_shape o p xs ys scalars

theorem diffM_hunk_shape {o : Opts} (ho : dispatchTag o = .list) (hm : isMerge o = false)
    {t t' : Tag} (xs ys : List Json)
    (ht : (t == .raw || t == .list) = true) (ht' : (t' == .raw || t' == .list) = true)
    (htt : t = .raw ∨ t' = .list)
    (scalars : ∀ x ∈ xs, isScalar x = true) :
    ∀ h ∈ diffM o (.arr t xs) (.arr t' ys),
      h.before.length = 1 ∧ h.after.length = 1 ∧ (∃ i : Nat, h.path = [.idx i]) ∧
        h.merge = false ∧ (h.remove ≠ [] ∨ h.add ≠ []) := by
  rw [diffM, hm]
  simpa using diffNode_hunk_shape ho xs ys ht ht' htt [] scalars

end Jd.Min

#print axioms Jd.Min.diffRest_counts
#print axioms Jd.Min.removes_adds_count
#print axioms Jd.Min.removes_adds_count_lcsLength
#print axioms Jd.Min.removes_adds_count_spec
#print axioms Jd.Min.removes_minimal
#print axioms Jd.Min.adds_minimal
#print axioms Jd.Min.removes_adds_minimal_spec
#print axioms Jd.Min.diffNode_removes_adds_count
#print axioms Jd.Min.diffNode_removes_minimal
#print axioms Jd.Min.diffM_removes_adds_count
#print axioms Jd.Min.diffM_removes_adds_count_spec
#print axioms Jd.Min.diffM_removes_adds_minimal
#print axioms Jd.Min.diffRest_shape
#print axioms Jd.Min.diff_hunk_shape
#print axioms Jd.Min.diffNode_hunk_shape
#print axioms Jd.Min.diffM_hunk_shape
