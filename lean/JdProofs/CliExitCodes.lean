/-
  JdProofs.CliExitCodes (namespace `Jd.CliExit`) — property C05, second sentence: "Consequently the
  CLI exits 0 exactly when the two inputs are equal under the flags given and 1 exactly when they
  differ", and C14: "exit 0 when there is no difference, 1 when there is, 2 on any error".

  SETTING.  The process-level model of JdProofs.CliRoundTrip: `CliRT.proc Ls b fl e` runs the CLI
  decision model `Cli.cliM` on the results of the library calls of the plan, the library being the
  v2 library OF THE MODEL (`CliRT.nativeLib nc Y`: `readJsonM`, `diffM`, `renderM`, `renderPatchM`,
  `renderMergeM`; the YAML carrier `Y` is a parameter about which nothing is assumed).
  `DiffRun nc Y Ls b fl e a b'` bundles THE SITUATION of the property: `Ls false` is that library, `fl`
  is a diff command line (`isDiffMode`), the binary uses the v2 library (`libIsV1 b fl = false`:
  binary A, or binary B without `-v2=false`), one or two arguments, both inputs are read and parse
  (reader of `-yaml`) to `a`, `b'`, and writing the `-o` file, if asked for, succeeds.
  The exit status of diff mode is decided by `haveDiff` (main.go): `text != ""` in the native
  format, `text != "[]"` for `-f patch`, `len(diff) > 0` for `-f merge` (`haveDiffOf`).
  All theorems are about the library functions of the model (`diffM`, `equals`, `renderM`,
  `renderPatchM`, `renderPatchOps`, `renderMergeM`) for ALL documents in the stated domain; the
  library-level equivalences used are `Jd.diffM_nil_iff_equals` (JdProofs.DiffEmpty),
  `Jd.DES.equals_of_diffM_nil` / `diffM_nil_of_equals` (JdProofs.DiffEmptySet), `PRC.diffM_gen`
  (JdProofs.PatchRenderClosed), `Merge.merge_render_correct` (JdProofs.MergeProofs).

  GENERIC PART (any option list `opts` with `parsedOptions b fl = ok opts`, any documents)
    `exit_cases`         the run ends in one of two ways: the renderer of the format returned a text
                         `T` and exit = `if haveDiffOf fmt T (diffM opts a b') then 1 else 0`, the text
                         being what leaves the program; or the renderer returned an error and exit = 2
                         (`proc_exit_of_render`, `proc_exit_of_render_error`).
    `renderM_empty_iff`  `renderM nc o d = some T → (T = "" ↔ d = [])` (every hunk prints `@ `).
    `renderPatchM_text_iff`  `renderPatchM nc d = ok (some T) → (T = "[]" ↔ d = [] ∨ renderPatchOps d = ok [])`.
    `diffM_nil_of_no_ops`    list reading, strict strategy, `listDoc`/`wf`/`PRC.vfree` documents:
                         `renderPatchOps (diffM o a b) = ok [] → diffM o a b = []` — a diff PRODUCED BY
                         `Diff` renders to no operation only if it is empty (every generated hunk
                         removes or adds a non-void value, `PRC.Gen`; the object-against-void hunk is
                         treated apart).  So for `-f patch` the text is `[]` iff the diff is empty: NO
                         counter-example on diffs produced by `Diff` (hand-made diffs, e.g. a hunk
                         removing the void marker, do render to `[]`).
    `jd_exit`            native format: exit ≠ 2; `d = [] → exit 0`; if `Render` does not panic
                         (`(renderM nc (colorOpts fl) d).isSome`): exit 0 ↔ d = [], exit 1 ↔ d ≠ [].
    `merge_exit`         `-f merge`: exit 0 ↔ d = []; exit 1 ↔ d ≠ [] ∧ RenderMerge ok;
                         exit 2 ↔ d ≠ [] ∧ RenderMerge error.   (exit from the diff, not the text: D5d)
    `patch_exit`         `-f patch`, for a diff with `renderPatchOps d = ok [] → d = []`:
                         exit 0 ↔ d = []; exit 1 ↔ d ≠ [] ∧ RenderPatch ok; exit 2 ↔ RenderPatch error.
    `exit_zero_of_nil`   an empty diff gives exit 0 in every format.

  TARGET 1 — list reading (`PlainFlags`: no `-set -mset -setkeys`, `fl.precision = 0` i.e. no
  `-precision`; the CLI then passes `Precision(0)`), native format:
    `cli_exit_zero_iff_equal_list`:
        (exit = 0 ↔ equals [prec 0] a b' = true) ∧ (exit = 1 ↔ equals [prec 0] a b' = false) ∧ exit ≠ 2
      hypotheses: `FloatEq0`; `a.rawDoc`, `Dom a`, `Dom b'` (listDoc, wf, finiteNums, noNegZero) and
      `DE.HashOK [prec 0] a b'` — exactly those of `Jd.diffM_nil_iff_equals`, see JdProofs.DiffEmpty for
      why each is there; and `(renderM nc (colorOpts fl) (diffM [prec 0] a b')).isSome` (decidable):
      `Render` does not panic.  `-color`, `-yaml`, `-o`, stdin / file: all covered.
    `cli_equal_exit_zero_list`: (Equal ⇒ exit 0) needs neither `HashOK` nor the rendering hypothesis.
    The rendering hypothesis is NEEDED ON THE MODEL, and only there: `Witness.render_panic_artifact`
      (`nativeLib.renderJd` maps the model's `none` = "json.Marshal fails on a number" = a Go panic to
      the empty text, so the model process exits 0; with a codec that cannot print `1.5` the files
      `1.5` / `null` satisfy every other hypothesis, are not Equal, and the model exits 0).  In Go
      `json.Marshal` does not fail on a finite number; this is a totalisation artifact, made explicit
      instead of being silently used.

  TARGET 2 — the other formats, list reading
    `cli_exit_zero_iff_equal_list_merge` (`-f merge`, options `[MERGE, Precision(0)]`; no hash
      hypothesis, no rendering hypothesis):
        (exit = 0 ↔ Equal) ∧ (exit = 1 ↔ ¬Equal ∧ RenderMerge ok) ∧ (exit = 2 ↔ ¬Equal ∧ RenderMerge error)
    `cli_exit_codes_list_merge`: if moreover `b'` is `rawDoc`, `nullFree`, `objVoidFree` (domain of
      RFC 7386; `Merge.merge_render_correct`, needs `FloatLaws`) and the rendered merge document can
      be printed (`jsonM … isSome`): exit 0 ↔ Equal, exit 1 ↔ ¬Equal, exit ≠ 2.
    `cli_exit_zero_iff_equal_list_patch` (`-f patch`, options `[Precision(0)]`; extra hypotheses
      `PRC.vfree a`, `PRC.vfree b'`: no void marker inside the documents — no reader produces one):
        (exit = 0 ↔ Equal) ∧ (exit = 1 ↔ ¬Equal ∧ RenderPatch ok) ∧ (exit = 2 ↔ ¬Equal ∧ RenderPatch error)
      so "1 exactly when they differ" is FALSE for `-f patch` as soon as `RenderPatch` refuses the
      diff: by `PRC.render_diffM_err_iff` exactly when a changed location lies at or below an object
      key that is number-like or `-` (`PRC.Example.numberlike_key_refused`: `{"1":null,"x":null}` vs
      `{"1":true,"x":null}`) — the run then exits 2, never 0 and never 1.
    `cli_exit_codes_list_patch`: with `PRC.keysExpressible a`, `PRC.keysExpressible b'` and printable
      operation values: exit 0 ↔ Equal, exit 1 ↔ ¬Equal, exit ≠ 2.
    `PRC.vfree` is needed by `diffM_nil_of_no_ops` on the model (a removal whose first value is the
      void marker is dropped by `RenderPatch`: `PRC.Example.void_element_witness`); I did not write
      the process-level witness (it needs a YAML carrier returning a document with a void element).

  TARGET 3 — `-set` / `-mset` (`SetFlags`: one of them, no `-setkeys`, no `-precision`; option list
  `setOpts fl` = `[SET?, MULTISET?, MERGE?, Precision(0)]`, a `DES.SetReading` with `precOf = 0`)
    `cli_exit_zero_implies_equal_set`  (exit 0 ⇒ Equal) UNCONDITIONALLY (`a.rawDoc`, `a.wf`, `b'.wf`
      only; no hash, no float hypothesis) for `-f merge`, and for the native format when `Render` does
      not panic.
    `cli_equal_implies_exit_zero_set`  (Equal ⇒ exit 0), every format, under
      `DES.DiffFaithful (setOpts fl) (subterms a) (subterms b')` (decidable: `DES.diffFaithful_of_check`).
      NECESSARY: library level `DES.Witness.alias_breaks_converse` (`[{"a":""}]` / `[{"a":[]}]`) and
      `DES.Witness.fnv_collision_breaks_converse`; PROCESS level `Witness.set_collision_exit`:
      `jd -set -f merge` on `["aedb68afb","b7cdeb749"]` / `["a568b3ad2","b76a57d20"]` — Equal under
      `[SET, MERGE, Precision(0)]`, the process does not exit 0 (and under `[SET, Precision(0)]`: Equal,
      diff not empty; the native-format exit status 1 is not derived because the model diff is not
      kernel-evaluable and `Render … isSome` was not discharged for it).
    `cli_exit_zero_iff_equal_set` (native; under `DiffFaithful` and no render panic: 0 ↔ Equal,
      1 ↔ ¬Equal, never 2), `cli_exit_zero_iff_equal_set_merge` (0 ↔ Equal, 1 ∨ 2 ↔ ¬Equal).

  TARGET 4 — `-precision eps ≠ 0`: the statement is FALSE (KF-C05-precision)
    `precision_exit_one_though_equal`: for ANY situation whose inputs parse to numbers `x`, `y` with
      `numWithin fl.precision x y = true` and `numWithin 0 x y = false`: `Equals(Precision(eps))` holds
      and the process EXITS 1 (native format; `-f merge`: exit ≠ 0,
      `precision_exit_nonzero_though_equal_merge`).  `diffM_num_prec`: the diff of two such numbers
      is one hunk whatever the precision (`diff_common.go` calls `Equals` without options).
    `Witness.precision_process_witness`: the concrete command line `jd -precision 1.5 a.json b.json`
      with the files `1` and `2` (codec `exCodec`, everything else discharged) exits 1 although Equal,
      RELATIVE TO the two IEEE facts `numWithin 0x3FF8000000000000 1.0 2.0 = true` and
      `numWithin 0 1.0 2.0 = false`: `numWithin` computes with the opaque runtime `Float`
      (`Float.ofBits`, `Float.abs`, `≤`), which the kernel cannot evaluate, so the facts are named
      hypotheses `h1`, `h0`; the `#eval` next to the theorem evaluates them: `(true, false)`.

  JSON INPUTS (no `-yaml`) — the shape hypotheses are PROVED from the reader
    `parse_shape` / `readJsonM_shape`: whatever `ReadJsonString` (`readJsonM nc s = ok v`, any codec)
      returns is `rawDoc`, `listDoc`, `wf` (unique sorted keys) and `PRC.vfree` (induction over
      `parseValue / parseElems / parseMembers`).  `DiffRun.shape`: both documents of a situation with
      `fl.yaml = false`.
    `cli_exit_zero_iff_equal_list_json`, `cli_exit_zero_iff_equal_list_patch_json`,
    `cli_exit_zero_iff_equal_list_merge_json`: the list theorems with only the NUMBER hypotheses
      (`finiteNums`, `noNegZero`), `HashOK` (native, patch) and "Render does not panic" (native) left.
    `cli_exit_zero_implies_equal_set_merge_json`: `-set`/`-mset` `-f merge`: exit 0 ⇒ Equal with NO
      hypothesis on the documents.  `cli_equal_implies_exit_zero_set_json`: Equal ⇒ exit 0 under
      `DiffFaithful` alone.

  NON-VACUITY (namespace `Example`; binary A, codec `exCodec`, real JSON texts parsed by `readJsonM`):
    `ex_list_differ` / `ex_list_equal` (`cli_exit_zero_iff_equal_list`: exit 1 resp. exit 0, the
    second on two different texts of one document), `ex_list_patch_merge`, `ex_patch_exit_one`
    (`cli_exit_codes_list_patch`), `ex_merge_exit_one` (`cli_exit_codes_list_merge`), `ex_set_equal`,
    `ex_set_iff`, `ex_set_merge_differ`.  Only `FloatEq0` / `FloatLaws` remain as hypotheses.

  NOT PROVED / NOT COVERED
    * the v1 library (`-v2=false` of binary B): no `Lib` instance of the V1 model exists.
    * `-setkeys`; `-set`/`-mset` with `-f patch` in the direction (exit 0 ⇒ Equal) (`PRC.Gen` is a
      list-mode invariant; set hunks carry a `{}` path element that `RenderPatch` refuses).
    * `-precision=-0`: `precNonZero` is false, the CLI passes `Precision(-0)`, `precOf ≠ 0` as a bit
      pattern; not covered (needs an IEEE fact about `≤ -0`).
    * YAML inputs: the YAML carrier is a parameter, so `rawDoc`, `wf`, `vfree` stay hypotheses there
      (for JSON inputs they are discharged, see JSON INPUTS above).
      `finiteNums`, `noNegZero` depend on the number codec (`-0` in a file is outside `Dom`).
    * `HashOK` is asked for the native and patch formats (strict strategy), as in DiffEmpty.
-/
import JdProofs.CliRoundTrip
import JdProofs.DiffEmptySet
import JdProofs.PatchRenderClosed
import JdProofs.MergeProofs

namespace Jd.CliExit
open Jd Jd.Cli Jd.CliRT

/-! ## 1. the situation, and the exit status of a diff run as a function of the library results -/

/-- THE SITUATION of the property: a diff command line (`jd [flags] FILE1 [FILE2]`) of a binary that
    uses the v2 library (`Ls false` is the v2 library of the model), both inputs are read and parse
    (with the reader for `-yaml`) to the documents `a` and `b'`, and writing the `-o` file (if one is
    asked for) succeeds. -/
structure DiffRun (nc : NumCodec) (Y : YamlCarrier) (Ls : Bool → LibPack) (b : Binary) (fl : Flags)
    (e : Env) (a b' : Json) : Prop where
  lib   : Ls false = ⟨Json, Diff, nativeLib nc Y⟩
  mode  : isDiffMode fl
  v2    : libIsV1 b fl = false
  nargs : fl.nargs = 1 ∨ fl.nargs = 2
  read1 : ∃ ta, e.in1 = .ok ta ∧ (nativeLib nc Y).readDoc fl.yaml ta = .ok a
  read2 : ∃ tb, e.in2 = .ok tb ∧ (nativeLib nc Y).readDoc fl.yaml tb = .ok b'
  write : fl.o = "" ∨ e.write = .ok ()

/-- `haveDiff` of main.go as a function of the format, the rendered text and the diff -/
def haveDiffOf (fmt : Format) (T : String) (d : Diff) : Bool :=
  match fmt with
  | .jd => T != ""
  | .patch => T != "[]"
  | .merge => decide (d.length > 0)

theorem nativeLib_diffLen (nc : NumCodec) (Y : YamlCarrier) (d : Diff) :
    (nativeLib nc Y).diffLen d = d.length := rfl

variable {nc : NumCodec} {Y : YamlCarrier} {Ls : Bool → LibPack} {b : Binary} {fl : Flags} {e : Env}
  {a b' : Json}

/-- the process of the situation is `cliM` on the harness instantiation with the v2 library -/
theorem proc_eq (R : DiffRun nc Y Ls b fl e a b') {opts : List Opt}
    (ho : parsedOptions b fl = .ok opts) :
    proc Ls b fl e = cliM b fl (resultsDiff (nativeLib nc Y) opts fl.color fl e) := by
  have hplan := planOf_diff_ok b R.mode ho R.nargs
  rw [proc_diff Ls b e hplan]
  rw [R.v2, R.lib]

/-- **the exit status of a diff run in which the renderer of the format succeeds**: 1 when
    `haveDiff`, 0 otherwise; the rendered text is what leaves the program -/
theorem proc_exit_of_render (R : DiffRun nc Y Ls b fl e a b') {opts : List Opt}
    (ho : parsedOptions b fl = .ok opts) {fmt : Format} (hf : formatOf fl.f = some fmt) {T : String}
    (hren : renderAs (nativeLib nc Y) fmt fl.color (diffM opts a b') = .ok T) :
    (proc Ls b fl e).exit = (if haveDiffOf fmt T (diffM opts a b') then 1 else 0) ∧
    emitted (proc Ls b fl e) = T := by
  obtain ⟨ta, hi1, hra⟩ := R.read1
  obtain ⟨tb, hi2, hrb⟩ := R.read2
  rw [proc_eq R ho]
  have hR : libRendering fl (resultsDiff (nativeLib nc Y) opts fl.color fl e) = some T := by
    cases fmt with
    | jd =>
      simp only [renderAs, Except.ok.injEq] at hren
      simp [libRendering, hf, resultsDiff, hi1, hi2, hra, hrb, nativeLib_diff, hren]
    | patch =>
      simp only [renderAs] at hren
      simp [libRendering, hf, resultsDiff, hi1, hi2, hra, hrb, nativeLib_diff, hren, okText]
    | merge =>
      simp only [renderAs] at hren
      simp [libRendering, hf, resultsDiff, hi1, hi2, hra, hrb, nativeLib_diff, hren, okText]
  have hrun := run_diff_ok (b := b)
    (r := resultsDiff (nativeLib nc Y) opts fl.color fl e) R.mode R.nargs ho
    (by simp [resultsDiff, hi1]) (by simp [resultsDiff, hi2])
    (by simp [resultsDiff, hi1, hra]) (by simp [resultsDiff, hi2, hrb]) hR
    (by rcases R.write with hw | hw
        · exact .inl hw
        · exact .inr (by simp [resultsDiff, hw]))
  have hhd : haveDiff fl (resultsDiff (nativeLib nc Y) opts fl.color fl e) T =
      haveDiffOf fmt T (diffM opts a b') := by
    cases fmt <;> simp [haveDiff, haveDiffOf, hf]
    simp [resultsDiff, hi1, hi2, hra, hrb, nativeLib_diff, nativeLib_diffLen]
  unfold cliM
  rw [hrun, hhd]
  exact ⟨(outcome_emit b _ T (fl.o != "")).1, (outcome_emit b _ T (fl.o != "")).2.1⟩

/-- a diff run in which the renderer of the format returns an error exits 2 -/
theorem proc_exit_of_render_error (R : DiffRun nc Y Ls b fl e a b') {opts : List Opt}
    (ho : parsedOptions b fl = .ok opts) {fmt : Format} (hf : formatOf fl.f = some fmt) {m : String}
    (hren : renderAs (nativeLib nc Y) fmt fl.color (diffM opts a b') = .error m) :
    (proc Ls b fl e).exit = 2 := by
  obtain ⟨ta, hi1, hra⟩ := R.read1
  obtain ⟨tb, hi2, hrb⟩ := R.read2
  rw [proc_eq R ho]
  rw [exit_two_iff_error]
  have hmode := modeOf_diff R.mode
  obtain ⟨hv, hp, hg, hpp, ht⟩ := R.mode
  refine ⟨.error (.msg m), ?_, _, rfl⟩
  have hpt : (fl.p && fl.t != "") = false := by simp [hpp]
  simp only [checks, hv, hp, hg, inputsOf_of_nargs ht R.nargs, hmode, hpt, renderChecks, hf]
  cases fmt with
  | jd => simp [renderAs] at hren
  | patch =>
    simp only [renderAs] at hren
    simp [resultsDiff, hi1, hi2, hra, hrb, nativeLib_diff, hren]
  | merge =>
    simp only [renderAs] at hren
    simp [resultsDiff, hi1, hi2, hra, hrb, nativeLib_diff, hren]

/-! ## 2. what the text of a diff tells about its emptiness -/


theorem renderHunk_ne_empty {nc : NumCodec} {o : Opts} {h : Hunk} {t : String}
    (ht : renderHunk nc o h = some t) : t ≠ "" := by
  unfold renderHunk at ht
  simp only [Option.bind_eq_bind, Option.bind_eq_some_iff, Option.pure_def, Option.some.injEq] at ht
  obtain ⟨pt, _, bf, _, rm, _, ad, _, af, _, rfl⟩ := ht
  intro h0
  simp only [String.append_eq_empty_iff] at h0
  exact absurd h0.1.1.1.1.1.1.2 (by decide)

theorem optAll_cons_some {α} {x : Option α} {r : List (Option α)} {l : List α}
    (h : optAll (x :: r) = some l) : ∃ y ys, x = some y ∧ optAll r = some ys ∧ l = y :: ys := by
  cases x with
  | none => simp [optAll] at h
  | some y =>
    simp only [optAll, Option.map_eq_some_iff] at h
    obtain ⟨ys, h1, h2⟩ := h
    exact ⟨y, ys, rfl, h1, h2.symm⟩

/-- the native text of a diff is empty exactly when the diff is -/
theorem renderM_empty_iff {nc : NumCodec} {o : Opts} {d : Diff} {T : String}
    (h : renderM nc o d = some T) : T = "" ↔ d = [] := by
  cases d with
  | nil =>
    simp [renderM, optAll] at h
    simp [← h]
  | cons x r =>
    simp only [renderM, List.map_cons, Option.map_eq_some_iff] at h
    obtain ⟨l, hl, rfl⟩ := h
    obtain ⟨y, ys, hy, _, rfl⟩ := optAll_cons_some hl
    simp only [String.join_cons, String.append_eq_empty_iff, reduceCtorEq, iff_false, not_and]
    intro h0
    exact absurd h0 (renderHunk_ne_empty hy)

theorem patchOpText_ne_empty {nc : NumCodec} {p : PatchOp} {t : String}
    (h : patchOpText nc p = some t) : t ≠ "" := by
  simp only [patchOpText, Option.map_eq_some_iff] at h
  obtain ⟨v, _, rfl⟩ := h
  intro h0
  simp only [String.append_eq_empty_iff] at h0
  exact absurd h0.1.1.1.1.1.1 (by decide)

theorem bracket_eq {X : String} (h : "[" ++ X ++ "]" = "[]") : X = "" := by
  have := congrArg String.toList h
  simp only [String.toList_append] at this
  have h2 : X.toList = [] := by
    have : ("[" : String).toList = ['['] := rfl
    have h3 : ("]" : String).toList = [']'] := rfl
    have h4 : ("[]" : String).toList = ['[', ']'] := rfl
    simp_all
  exact String.toList_eq_nil_iff.1 h2

theorem intercalate_cons_ne {x : String} {r : List String} (hx : x ≠ "") :
    ",".intercalate (x :: r) ≠ "" := by
  cases r with
  | nil => simpa using hx
  | cons y ys =>
    rw [String.intercalate_cons_cons]
    intro h0
    simp only [String.append_eq_empty_iff] at h0
    exact hx h0.1.1

/-- the JSON Patch text of a diff is `[]` exactly when the diff is empty or renders to no operation -/
theorem renderPatchM_text_iff {nc : NumCodec} {d : Diff} {T : String}
    (h : renderPatchM nc d = .ok (some T)) :
    T = "[]" ↔ (d = [] ∨ renderPatchOps d = .ok []) := by
  unfold renderPatchM at h
  by_cases hd : d = []
  · subst hd
    simp at h
    simp [← h]
  · have hd' : d.isEmpty = false := by cases d <;> simp_all
    rw [hd'] at h
    simp only [Bool.false_eq_true, if_false] at h
    cases ho : renderPatchOps d with
    | err => rw [ho] at h; cases h
    | panic => rw [ho] at h; cases h
    | ok ops =>
      rw [ho] at h
      simp only [Outcome.ok.injEq, Option.map_eq_some_iff] at h
      obtain ⟨l, hl, rfl⟩ := h
      cases ops with
      | nil =>
        simp [optAll] at hl
        subst hl
        simp
      | cons p ps =>
        obtain ⟨y, ys, hy, _, rfl⟩ := optAll_cons_some hl
        simp only [hd, false_or, Outcome.ok.injEq, reduceCtorEq, iff_false]
        intro h0
        exact intercalate_cons_ne (patchOpText_ne_empty hy) (bracket_eq h0)



theorem renderPatchHunk_ops_ne {h : Hunk} {ops : List PatchOp} (e : renderPatchHunk h = .ok ops)
    (hr : noVoid h.remove) (ha : noVoid h.add) : ops ≠ [] := by
  obtain ⟨s, bo, ao, _, hne, _, _, _, _, rfl⟩ := renderPatchHunk_ok e
  intro h0
  simp only [List.append_eq_nil_iff] at h0
  obtain ⟨⟨_, h1⟩, h2⟩ := h0
  cases hrem : h.remove with
  | cons r0 rs =>
    have hv : r0.isVoid = false := hr r0 (by rw [hrem]; exact List.mem_cons_self)
    rw [hrem] at h1
    simp [remOpsOf, hv] at h1
  | nil =>
    cases hadd : h.add with
    | nil => simp [hrem, hadd] at hne
    | cons a0 as =>
      have hv : a0.isVoid = false := ha a0 (by rw [hadd]; exact List.mem_cons_self)
      rw [hadd] at h2
      simp [addOpsOf, hv] at h2

/-- a list-mode diff (strict strategy) that renders to NO operation is empty -/
theorem diffM_nil_of_no_ops (o : Opts) (ho : dispatchTag o = .list) (hm : isMerge o = false)
    (a b : Json) (ha1 : a.listDoc = true) (ha2 : a.wf = true) (ha4 : PRC.vfree a = true)
    (hb1 : b.listDoc = true) (hb2 : b.wf = true) (hb4 : PRC.vfree b = true)
    (h : renderPatchOps (diffM o a b) = .ok []) : diffM o a b = [] := by
  cases hv : (a.isObj && b.isVoid) with
  | false =>
    have G := PRC.diffM_gen o ho hm a b ha1 ha2 ha4 hb1 hb2 hb4 (PRC.lenLe_maxLen a)
      (PRC.lenLe_maxLen b) hv
    cases hd : diffM o a b with
    | nil => rfl
    | cons x r =>
      rw [hd] at h G
      obtain ⟨p, q, hp, _, hpq⟩ := renderPatchOps_ok_cons h
      have g := G x List.mem_cons_self
      have := renderPatchHunk_ops_ne hp g.remNoVoid g.addNoVoid
      cases p with
      | nil => exact absurd rfl this
      | cons _ _ => cases hpq
  | true =>
    simp only [Bool.and_eq_true] at hv
    cases a with
    | obj kvs =>
      rw [PRC.isVoid_eq hv.2, PRC.diffM_obj_void o hm, PRC.render_objVoidHunk] at h
      cases h
    | _ => simp [Json.isObj] at hv

/-! ## 3. exit status and emptiness of the diff, format by format -/

/-- the option list `Render` receives: COLOR with `-color` -/
def colorOpts (fl : Flags) : List Opt := if fl.color then [Opt.color] else []

/-- the two ways a diff run of the situation ends -/
theorem exit_cases (R : DiffRun nc Y Ls b fl e a b') {opts : List Opt}
    (ho : parsedOptions b fl = .ok opts) {fmt : Format} (hf : formatOf fl.f = some fmt) :
    (∃ T, renderAs (nativeLib nc Y) fmt fl.color (diffM opts a b') = .ok T ∧
      (proc Ls b fl e).exit = (if haveDiffOf fmt T (diffM opts a b') then 1 else 0) ∧
      emitted (proc Ls b fl e) = T) ∨
    (∃ m, renderAs (nativeLib nc Y) fmt fl.color (diffM opts a b') = .error m ∧
      (proc Ls b fl e).exit = 2) := by
  cases hren : renderAs (nativeLib nc Y) fmt fl.color (diffM opts a b') with
  | ok T => exact .inl ⟨T, rfl, proc_exit_of_render R ho hf hren⟩
  | error m => exact .inr ⟨m, rfl, proc_exit_of_render_error R ho hf hren⟩

theorem ite_10_eq_zero {c : Bool} : (if c = true then 1 else 0 : Nat) = 0 ↔ c = false := by
  cases c <;> simp
theorem ite_10_eq_one {c : Bool} : (if c = true then 1 else 0 : Nat) = 1 ↔ c = true := by
  cases c <;> simp
theorem ite_10_ne_two {c : Bool} : (if c = true then 1 else 0 : Nat) ≠ 2 := by
  cases c <;> simp

/-- **native format**: the run never exits 2; an empty diff gives exit 0; when `Render` does not
    panic (`renderM … isSome`: every number of the diff can be printed) exit 0 / 1 tell exactly
    whether the diff is empty -/
theorem jd_exit (R : DiffRun nc Y Ls b fl e a b') {opts : List Opt}
    (ho : parsedOptions b fl = .ok opts) (hf : formatOf fl.f = some .jd) :
    (proc Ls b fl e).exit ≠ 2 ∧
    (diffM opts a b' = [] → (proc Ls b fl e).exit = 0) ∧
    ((renderM nc (colorOpts fl) (diffM opts a b')).isSome = true →
      ((proc Ls b fl e).exit = 0 ↔ diffM opts a b' = []) ∧
      ((proc Ls b fl e).exit = 1 ↔ diffM opts a b' ≠ [])) := by
  rcases exit_cases R ho hf with ⟨T, hT, hx, _⟩ | ⟨m, hm, _⟩
  · simp only [renderAs, Except.ok.injEq] at hT
    have hT' : (renderM nc (colorOpts fl) (diffM opts a b')).getD "" = T := hT
    refine ⟨by rw [hx]; exact ite_10_ne_two, ?_, ?_⟩
    · intro hd
      rw [hd] at hT'
      have : T = "" := by rw [← hT']; simp [renderM, optAll]
      rw [hx, ite_10_eq_zero]
      simp [haveDiffOf, this]
    · intro hs
      obtain ⟨t, ht⟩ := Option.isSome_iff_exists.1 hs
      rw [ht] at hT'
      simp only [Option.getD_some] at hT'
      subst hT'
      have := renderM_empty_iff ht
      rw [hx, ite_10_eq_zero, ite_10_eq_one]
      simp only [haveDiffOf, bne_eq_false_iff_eq, bne_iff_ne, ne_eq, this, and_self]
  · simp [renderAs] at hm

/-- **merge format** (exit status from `len(diff)`, not from the text): exact characterisation -/
theorem merge_exit (R : DiffRun nc Y Ls b fl e a b') {opts : List Opt}
    (ho : parsedOptions b fl = .ok opts) (hf : formatOf fl.f = some .merge) :
    ((proc Ls b fl e).exit = 0 ↔ diffM opts a b' = []) ∧
    ((proc Ls b fl e).exit = 1 ↔ diffM opts a b' ≠ [] ∧
      ∃ T, (nativeLib nc Y).renderMerge (diffM opts a b') = .ok T) ∧
    ((proc Ls b fl e).exit = 2 ↔ diffM opts a b' ≠ [] ∧
      ∃ m, (nativeLib nc Y).renderMerge (diffM opts a b') = .error m) := by
  have hnil : diffM opts a b' = [] →
      (nativeLib nc Y).renderMerge (diffM opts a b') = .ok "{}" := by
    intro hd
    rw [hd]
    show ofOutcomeText (renderMergeM nc []) = .ok "{}"
    simp [renderMergeM, renderMergeDoc, jsonM, rawNorm, rawNormKvs, jsonText, jsonTextKvs,
      ofOutcomeText]
  have hlen : haveDiffOf .merge = fun _ d => !d.isEmpty := by
    funext T d
    cases d <;> simp [haveDiffOf]
  rcases exit_cases R ho hf with ⟨T, hT, hx, _⟩ | ⟨m, hm, hx⟩
  · simp only [renderAs] at hT
    rw [hlen] at hx
    cases hd : diffM opts a b' with
    | nil =>
      rw [hd] at hx
      simp at hx
      simp [hx]
    | cons x r =>
      rw [hd] at hx hT
      simp at hx
      simp [hx, hT]
  · simp only [renderAs] at hm
    have hd : diffM opts a b' ≠ [] := by
      intro hd
      rw [hnil hd] at hm
      cases hm
    simp [hx, hm, hd]

theorem ofOutcomeText_ok {x : Jd.Outcome (Option String)} {T : String} :
    ofOutcomeText x = .ok T ↔ x = .ok (some T) := by
  cases x with
  | ok o => cases o <;> simp [ofOutcomeText]
  | err => simp [ofOutcomeText]
  | panic => simp [ofOutcomeText]

/-- **JSON Patch format** (exit status from `text != "[]"`): exact characterisation, for a diff
    that renders to no operation only when it is empty (`hgen`; proved for the diffs `Diff` produces
    in the list reading: `diffM_nil_of_no_ops`) -/
theorem patch_exit (R : DiffRun nc Y Ls b fl e a b') {opts : List Opt}
    (ho : parsedOptions b fl = .ok opts) (hf : formatOf fl.f = some .patch)
    (hgen : renderPatchOps (diffM opts a b') = .ok [] → diffM opts a b' = []) :
    ((proc Ls b fl e).exit = 0 ↔ diffM opts a b' = []) ∧
    ((proc Ls b fl e).exit = 1 ↔ diffM opts a b' ≠ [] ∧
      ∃ T, (nativeLib nc Y).renderPatch (diffM opts a b') = .ok T) ∧
    ((proc Ls b fl e).exit = 2 ↔
      ∃ m, (nativeLib nc Y).renderPatch (diffM opts a b') = .error m) := by
  rcases exit_cases R ho hf with ⟨T, hT, hx, _⟩ | ⟨m, hm, hx⟩
  · simp only [renderAs] at hT
    have hT' : renderPatchM nc (diffM opts a b') = .ok (some T) := ofOutcomeText_ok.1 hT
    have hiff : T = "[]" ↔ diffM opts a b' = [] := by
      rw [renderPatchM_text_iff hT']
      exact ⟨fun h => h.elim id hgen, .inl⟩
    have hb : haveDiffOf .patch T (diffM opts a b') = !decide (diffM opts a b' = []) := by
      by_cases hd : diffM opts a b' = []
      · simp [haveDiffOf, hiff.2 hd, hd]
      · have : T ≠ "[]" := fun h => hd (hiff.1 h)
        simp [haveDiffOf, this, hd]
    rw [hb] at hx
    by_cases hd : diffM opts a b' = []
    · simp [hd] at hx
      rw [hd] at hT
      simp [hx, hd, hT]
    · simp [hd] at hx
      simp [hx, hd, hT]
  · simp only [renderAs] at hm
    have hd : diffM opts a b' ≠ [] := by
      intro hd
      rw [hd] at hm
      have : (nativeLib nc Y).renderPatch [] = .ok "[]" := rfl
      rw [this] at hm
      cases hm
    simp [hx, hm, hd]

/-! ## 4. LIST reading (no `-set`, `-mset`, `-setkeys`), no `-precision` -/

theorem merge_of_fmt {s : String} (h : formatOf s = some .merge) : (s == "merge") = true := by
  unfold formatOf at h
  split at h
  · cases h
  · split at h
    · cases h
    · split at h
      · assumption
      · cases h

theorem not_merge_of_patch {s : String} (h : formatOf s = some .patch) : (s == "merge") = false := by
  by_cases hs : s = "merge"
  · subst hs; exact absurd h (by decide)
  · simp [hs]

/-- the option list of a command line without `-set -mset -setkeys -precision`: MERGE for
    `-f merge`, then `Precision(0)` -/
theorem parsedOptions_plain (b : Binary) {fl : Flags} (hset : fl.set = false)
    (hmset : fl.mset = false) (hkeys : fl.setkeys = "") (hprec : fl.precision = 0) :
    parsedOptions b fl = .ok ((if fl.f == "merge" then [Opt.merge] else []) ++ [Opt.prec 0]) := by
  rw [parsedOptions_same]
  simp [optionsOf, hset, hmset, hkeys, hprec, precNonZero]

/-- the flags of the list reading without Precision -/
structure PlainFlags (fl : Flags) : Prop where
  set     : fl.set = false
  mset    : fl.mset = false
  setkeys : fl.setkeys = ""
  prec    : fl.precision = 0

/-- **C05 / C14 on the process, native format, list reading** (`cli_exit_zero_iff_equal_list`):
    `jd [-color] [-yaml] [-o F] a b` exits 0 exactly when `a.Equals(b, Precision(0))`, exits 1
    exactly when not, and never exits 2. -/
theorem cli_exit_zero_iff_equal_list (F : FloatEq0) (R : DiffRun nc Y Ls b fl e a b')
    (P : PlainFlags fl) (hfmt : formatOf fl.f = some .jd)
    (hraw : a.rawDoc = true) (ha : Dom a) (hb : Dom b') (H : DE.HashOK [Opt.prec 0] a b')
    (hren : (renderM nc (colorOpts fl) (diffM [Opt.prec 0] a b')).isSome = true) :
    ((proc Ls b fl e).exit = 0 ↔ equals [Opt.prec 0] a b' = true) ∧
    ((proc Ls b fl e).exit = 1 ↔ equals [Opt.prec 0] a b' = false) ∧
    (proc Ls b fl e).exit ≠ 2 := by
  have ho := parsedOptions_list b P.set P.mset P.setkeys hfmt
  rw [P.prec] at ho
  obtain ⟨h2, _, h01⟩ := jd_exit R ho hfmt
  obtain ⟨h0, h1⟩ := h01 hren
  have hiff := diffM_nil_iff_equals F [Opt.prec 0] rfl rfl a b' hraw ha hb H
  refine ⟨h0.trans hiff, h1.trans ?_, h2⟩
  rw [← Bool.not_eq_true, ← hiff]

/-- (Equal ⇒ exit 0), native format: no hash hypothesis, no rendering hypothesis -/
theorem cli_equal_exit_zero_list (F : FloatEq0) (R : DiffRun nc Y Ls b fl e a b')
    (P : PlainFlags fl) (hfmt : formatOf fl.f = some .jd)
    (hraw : a.rawDoc = true) (ha : Dom a) (hb : Dom b')
    (heq : equals [Opt.prec 0] a b' = true) : (proc Ls b fl e).exit = 0 := by
  have ho := parsedOptions_list b P.set P.mset P.setkeys hfmt
  rw [P.prec] at ho
  exact (jd_exit R ho hfmt).2.1 (diffM_nil_of_equals F [Opt.prec 0] rfl rfl a b' hraw ha hb heq)

/-- **`-f merge`, list reading**: the exit status comes from `len(diff)`; exit 0 exactly when
    `a.Equals(b, MERGE, Precision(0))`; when not Equal, exit 1 or — exactly when `RenderMerge`
    returns an error — exit 2.  No hash hypothesis (merge diffs compare arrays with `Equals`). -/
theorem cli_exit_zero_iff_equal_list_merge (F : FloatEq0) (R : DiffRun nc Y Ls b fl e a b')
    (P : PlainFlags fl) (hfmt : formatOf fl.f = some .merge)
    (hraw : a.rawDoc = true) (ha : Dom a) (hb : Dom b') :
    ((proc Ls b fl e).exit = 0 ↔ equals [Opt.merge, Opt.prec 0] a b' = true) ∧
    ((proc Ls b fl e).exit = 1 ↔ equals [Opt.merge, Opt.prec 0] a b' = false ∧
      ∃ T, (nativeLib nc Y).renderMerge (diffM [Opt.merge, Opt.prec 0] a b') = .ok T) ∧
    ((proc Ls b fl e).exit = 2 ↔ equals [Opt.merge, Opt.prec 0] a b' = false ∧
      ∃ m, (nativeLib nc Y).renderMerge (diffM [Opt.merge, Opt.prec 0] a b') = .error m) := by
  have ho : parsedOptions b fl = .ok [Opt.merge, Opt.prec 0] := by
    rw [parsedOptions_plain b P.set P.mset P.setkeys P.prec, merge_of_fmt hfmt]; rfl
  obtain ⟨h0, h1, h2⟩ := merge_exit R ho hfmt
  have hiff := diffM_nil_iff_equals_merge F [Opt.merge, Opt.prec 0] rfl rfl rfl a b' hraw ha hb
  have hne : diffM [Opt.merge, Opt.prec 0] a b' ≠ [] ↔ equals [Opt.merge, Opt.prec 0] a b' = false := by
    rw [← Bool.not_eq_true, ← hiff]
  refine ⟨h0.trans hiff, ?_, ?_⟩
  · rw [← hne]; exact h1
  · rw [← hne]; exact h2

/-- **`-f patch`, list reading**: the exit status comes from `text != "[]"`; the text is `[]`
    exactly when the diff is empty (`diffM_nil_of_no_ops`), so exit 0 exactly when Equal; when not
    Equal, exit 1 or — exactly when `RenderPatch` returns an error — exit 2. -/
theorem cli_exit_zero_iff_equal_list_patch (F : FloatEq0) (R : DiffRun nc Y Ls b fl e a b')
    (P : PlainFlags fl) (hfmt : formatOf fl.f = some .patch)
    (hraw : a.rawDoc = true) (ha : Dom a) (hb : Dom b') (H : DE.HashOK [Opt.prec 0] a b')
    (hva : PRC.vfree a = true) (hvb : PRC.vfree b' = true) :
    ((proc Ls b fl e).exit = 0 ↔ equals [Opt.prec 0] a b' = true) ∧
    ((proc Ls b fl e).exit = 1 ↔ equals [Opt.prec 0] a b' = false ∧
      ∃ T, (nativeLib nc Y).renderPatch (diffM [Opt.prec 0] a b') = .ok T) ∧
    ((proc Ls b fl e).exit = 2 ↔ equals [Opt.prec 0] a b' = false ∧
      ∃ m, (nativeLib nc Y).renderPatch (diffM [Opt.prec 0] a b') = .error m) := by
  have ho : parsedOptions b fl = .ok [Opt.prec 0] := by
    rw [parsedOptions_plain b P.set P.mset P.setkeys P.prec, not_merge_of_patch hfmt]; rfl
  obtain ⟨h0, h1, h2⟩ := patch_exit R ho hfmt
    (diffM_nil_of_no_ops [Opt.prec 0] rfl rfl a b' ha.listDoc ha.wf hva hb.listDoc hb.wf hvb)
  have hiff := diffM_nil_iff_equals F [Opt.prec 0] rfl rfl a b' hraw ha hb H
  have hne : diffM [Opt.prec 0] a b' ≠ [] ↔ equals [Opt.prec 0] a b' = false := by
    rw [← Bool.not_eq_true, ← hiff]
  refine ⟨h0.trans hiff, ?_, ?_⟩
  · rw [← hne]; exact h1
  · rw [h2, ← hne]
    constructor
    · rintro ⟨m, hm⟩
      refine ⟨?_, m, hm⟩
      intro hd
      rw [hd] at hm
      cases hm
    · exact fun h => h.2

/-! ## 4b. when `-f patch` / `-f merge` never exit 2 -/

theorem optAll_map_isSome {α β} (f : α → Option β) :
    ∀ (l : List α), (∀ x ∈ l, (f x).isSome = true) → ∃ r, optAll (l.map f) = some r
  | [], _ => ⟨[], rfl⟩
  | x :: l, h => by
    obtain ⟨y, hy⟩ := Option.isSome_iff_exists.1 (h x List.mem_cons_self)
    obtain ⟨r, hr⟩ := optAll_map_isSome f l (fun z hz => h z (List.mem_cons_of_mem _ hz))
    exact ⟨y :: r, by simp [optAll, hy, hr]⟩

/-- `RenderPatch` succeeds on the text level when it succeeds on the operation level and every
    value of an operation can be printed -/
theorem renderPatch_ok_of_ops (Y : YamlCarrier) {d : Diff} {ops : List PatchOp}
    (ho : renderPatchOps d = .ok ops)
    (hmar : ∀ p ∈ ops, (marshalNode nc p.value).isSome = true) :
    ∃ T, (nativeLib nc Y).renderPatch d = .ok T := by
  show ∃ T, ofOutcomeText (renderPatchM nc d) = .ok T
  unfold renderPatchM
  split
  · exact ⟨"[]", rfl⟩
  · rw [ho]
    obtain ⟨r, hr⟩ := optAll_map_isSome (patchOpText nc) ops (fun p hp => by
      simp only [patchOpText, Option.isSome_map]; exact hmar p hp)
    exact ⟨"[" ++ ",".intercalate r ++ "]", by simp only [hr, Option.map_some, ofOutcomeText]⟩

/-- **`-f patch`, list reading, never exit 2**: when every object key of both documents is
    expressible as a JSON Pointer token (`PRC.keysExpressible`: not number-like, not `-`) and every
    value of the rendered operations can be printed, the run exits 0 when Equal and 1 when not. -/
theorem cli_exit_codes_list_patch (F : FloatEq0) (R : DiffRun nc Y Ls b fl e a b')
    (P : PlainFlags fl) (hfmt : formatOf fl.f = some .patch)
    (hraw : a.rawDoc = true) (ha : Dom a) (hb : Dom b') (H : DE.HashOK [Opt.prec 0] a b')
    (hva : PRC.vfree a = true) (hvb : PRC.vfree b' = true)
    (ka : PRC.keysExpressible a = true) (kb : PRC.keysExpressible b' = true)
    (hmar : ∀ ops, renderPatchOps (diffM [Opt.prec 0] a b') = .ok ops →
      ∀ p ∈ ops, (marshalNode nc p.value).isSome = true) :
    ((proc Ls b fl e).exit = 0 ↔ equals [Opt.prec 0] a b' = true) ∧
    ((proc Ls b fl e).exit = 1 ↔ equals [Opt.prec 0] a b' = false) ∧
    (proc Ls b fl e).exit ≠ 2 := by
  obtain ⟨h0, h1, h2⟩ := cli_exit_zero_iff_equal_list_patch F R P hfmt hraw ha hb H hva hvb
  obtain ⟨ops, hops⟩ := (PRC.render_diffM_ok_iff [Opt.prec 0] rfl rfl a b' ha.listDoc ha.wf hva
    hb.listDoc hb.wf hvb).2
    (PRC.diffM_paths_expressible [Opt.prec 0] rfl rfl a b' ha.listDoc hb.listDoc ka kb)
  obtain ⟨T, hT⟩ := renderPatch_ok_of_ops (nc := nc) Y hops (hmar ops hops)
  refine ⟨h0, ⟨fun h => (h1.1 h).1, fun h => h1.2 ⟨h, T, hT⟩⟩, ?_⟩
  intro hx
  obtain ⟨_, m, hm⟩ := h2.1 hx
  rw [hT] at hm
  cases hm

/-- **`-f merge`, list reading, never exit 2**: when the second document is in the domain of JSON
    Merge Patch (no `null`, no void member) and the rendered merge document can be printed -/
theorem cli_exit_codes_list_merge (F : FloatEq0) (L : Jd.Spec.FloatLaws)
    (R : DiffRun nc Y Ls b fl e a b')
    (P : PlainFlags fl) (hfmt : formatOf fl.f = some .merge)
    (hraw : a.rawDoc = true) (ha : Dom a) (hb : Dom b')
    (hbr : b'.rawDoc = true) (hbn : b'.nullFree = true) (hbv : Merge.objVoidFree b' = true)
    (hmar : ∀ m, renderMergeDoc (diffM [Opt.merge, Opt.prec 0] a b') = .ok m →
      (jsonM nc m).isSome = true) :
    ((proc Ls b fl e).exit = 0 ↔ equals [Opt.merge, Opt.prec 0] a b' = true) ∧
    ((proc Ls b fl e).exit = 1 ↔ equals [Opt.merge, Opt.prec 0] a b' = false) ∧
    (proc Ls b fl e).exit ≠ 2 := by
  obtain ⟨h0, h1, h2⟩ := cli_exit_zero_iff_equal_list_merge F R P hfmt hraw ha hb
  have hok : equals [Opt.merge, Opt.prec 0] a b' = false →
      ∃ T, (nativeLib nc Y).renderMerge (diffM [Opt.merge, Opt.prec 0] a b') = .ok T := by
    intro hne
    obtain ⟨m, hm, _⟩ := Merge.merge_render_correct L [Opt.merge, Opt.prec 0] rfl rfl rfl a b'
      ha.wf hraw hb.wf hbr hbn hbv hb.fin hne
    obtain ⟨t, ht⟩ := Option.isSome_iff_exists.1 (hmar m hm)
    refine ⟨t, ?_⟩
    show ofOutcomeText (renderMergeM nc _) = .ok t
    simp [renderMergeM, hm, ht, ofOutcomeText]
  refine ⟨h0, ⟨fun h => (h1.1 h).1, fun h => h1.2 ⟨h, hok h⟩⟩, ?_⟩
  intro hx
  obtain ⟨hne, m, hm⟩ := h2.1 hx
  obtain ⟨T, hT⟩ := hok hne
  rw [hT] at hm
  cases hm

/-! ## 5. SET / MULTISET readings (`-set`, `-mset`, no `-setkeys`), no `-precision` -/

/-- an empty diff gives exit 0, in every format -/
theorem exit_zero_of_nil (R : DiffRun nc Y Ls b fl e a b') {opts : List Opt}
    (ho : parsedOptions b fl = .ok opts) {fmt : Format} (hf : formatOf fl.f = some fmt)
    (hd : diffM opts a b' = []) : (proc Ls b fl e).exit = 0 := by
  cases fmt with
  | jd => exact (jd_exit R ho hf).2.1 hd
  | merge => exact (merge_exit R ho hf).1.2 hd
  | patch => exact (patch_exit R ho hf (fun _ => hd)).1.2 hd

/-- the option list the CLI builds for `-set` / `-mset` (no `-setkeys`, no `-precision`) -/
def setOpts (fl : Flags) : List Opt :=
  (if fl.set then [Opt.set] else []) ++ (if fl.mset then [Opt.mset] else []) ++
    (if fl.f == "merge" then [Opt.merge] else []) ++ [Opt.prec 0]

structure SetFlags (fl : Flags) : Prop where
  some    : fl.set = true ∨ fl.mset = true
  setkeys : fl.setkeys = ""
  prec    : fl.precision = 0

theorem parsedOptions_set (b : Binary) {fl : Flags} (S : SetFlags fl) :
    parsedOptions b fl = .ok (setOpts fl) := by
  rw [parsedOptions_same]
  simp [optionsOf, setOpts, S.setkeys, S.prec, precNonZero]

theorem setOpts_reading {fl : Flags} (S : SetFlags fl) :
    DES.SetReading (setOpts fl) ∧ precOf (setOpts fl) = 0 := by
  unfold setOpts
  rcases S.some with h | h
  · rw [h]
    cases fl.mset <;> cases (fl.f == "merge") <;> exact ⟨.inl ⟨rfl, rfl⟩, rfl⟩
  · rw [h]
    cases fl.set <;> cases (fl.f == "merge") <;>
      first | exact ⟨.inl ⟨rfl, rfl⟩, rfl⟩ | exact ⟨.inr rfl, rfl⟩

/-- **(exit 0 ⇒ Equal), `-set` / `-mset`, native and merge formats — unconditionally** (no hash
    hypothesis, no float hypothesis).  In the native format `Render` must not panic. -/
theorem cli_exit_zero_implies_equal_set (R : DiffRun nc Y Ls b fl e a b') (S : SetFlags fl)
    (hfmt : formatOf fl.f = some .merge ∨ (formatOf fl.f = some .jd ∧
      (renderM nc (colorOpts fl) (diffM (setOpts fl) a b')).isSome = true))
    (hraw : a.rawDoc = true) (haw : a.wf = true) (hbw : b'.wf = true)
    (hx : (proc Ls b fl e).exit = 0) : equals (setOpts fl) a b' = true := by
  have ho := parsedOptions_set b S
  obtain ⟨hr, hp⟩ := setOpts_reading S
  apply DES.equals_of_diffM_nil (setOpts fl) hr hp a b' hraw haw hbw
  rcases hfmt with hf | ⟨hf, hren⟩
  · exact (merge_exit R ho hf).1.1 hx
  · exact (((jd_exit R ho hf).2.2 hren).1).1 hx

/-- **(Equal ⇒ exit 0), `-set` / `-mset`, every format — under `DES.DiffFaithful`** (necessary:
    `DES.Witness.alias_breaks_converse`, `DES.Witness.fnv_collision_breaks_converse`,
    `Witness.set_collision_exit` below) -/
theorem cli_equal_implies_exit_zero_set (R : DiffRun nc Y Ls b fl e a b') (S : SetFlags fl)
    {fmt : Format} (hfmt : formatOf fl.f = some fmt)
    (hraw : a.rawDoc = true) (haw : a.wf = true) (hbw : b'.wf = true)
    (FH : DES.DiffFaithful (setOpts fl) (subterms a) (subterms b'))
    (heq : equals (setOpts fl) a b' = true) : (proc Ls b fl e).exit = 0 := by
  have ho := parsedOptions_set b S
  obtain ⟨hr, hp⟩ := setOpts_reading S
  exact exit_zero_of_nil R ho hfmt
    (DES.diffM_nil_of_equals (setOpts fl) hr hp a b' hraw haw hbw FH heq)

/-- **`-set` / `-mset`, native format, under `DiffFaithful`**: exit 0 ⇔ Equal, exit 1 ⇔ not Equal,
    never 2 -/
theorem cli_exit_zero_iff_equal_set (R : DiffRun nc Y Ls b fl e a b') (S : SetFlags fl)
    (hfmt : formatOf fl.f = some .jd)
    (hraw : a.rawDoc = true) (haw : a.wf = true) (hbw : b'.wf = true)
    (FH : DES.DiffFaithful (setOpts fl) (subterms a) (subterms b'))
    (hren : (renderM nc (colorOpts fl) (diffM (setOpts fl) a b')).isSome = true) :
    ((proc Ls b fl e).exit = 0 ↔ equals (setOpts fl) a b' = true) ∧
    ((proc Ls b fl e).exit = 1 ↔ equals (setOpts fl) a b' = false) ∧
    (proc Ls b fl e).exit ≠ 2 := by
  have ho := parsedOptions_set b S
  obtain ⟨hr, hp⟩ := setOpts_reading S
  obtain ⟨h2, _, h01⟩ := jd_exit R ho hfmt
  obtain ⟨h0, h1⟩ := h01 hren
  have hiff := DES.diffM_nil_iff_equals (setOpts fl) hr hp a b' hraw haw hbw FH
  refine ⟨h0.trans hiff, h1.trans ?_, h2⟩
  rw [← Bool.not_eq_true, ← hiff]

/-- **`-set` / `-mset`, `-f merge`, under `DiffFaithful`**: exit 0 ⇔ Equal; not Equal ⇔ exit 1 or 2 -/
theorem cli_exit_zero_iff_equal_set_merge (R : DiffRun nc Y Ls b fl e a b') (S : SetFlags fl)
    (hfmt : formatOf fl.f = some .merge)
    (hraw : a.rawDoc = true) (haw : a.wf = true) (hbw : b'.wf = true)
    (FH : DES.DiffFaithful (setOpts fl) (subterms a) (subterms b')) :
    ((proc Ls b fl e).exit = 0 ↔ equals (setOpts fl) a b' = true) ∧
    ((proc Ls b fl e).exit = 1 ∨ (proc Ls b fl e).exit = 2 ↔ equals (setOpts fl) a b' = false) := by
  have ho := parsedOptions_set b S
  obtain ⟨hr, hp⟩ := setOpts_reading S
  obtain ⟨h0, h1, h2⟩ := merge_exit R ho hfmt
  have hiff := DES.diffM_nil_iff_equals (setOpts fl) hr hp a b' hraw haw hbw FH
  have h0' := h0.trans hiff
  refine ⟨h0', ?_⟩
  rw [← Bool.not_eq_true, ← h0']
  have hr3 : (proc Ls b fl e).exit = 0 ∨ (proc Ls b fl e).exit = 1 ∨ (proc Ls b fl e).exit = 2 := by
    rw [proc_eq R ho]; exact exit_range _ _ _
  omega

/-! ## 6. with `-precision eps ≠ 0` the property is FALSE (KF-C05-precision) -/

/-- the option list with `-precision` (no `-set -mset -setkeys`) -/
theorem parsedOptions_precision (b : Binary) {fl : Flags} (hset : fl.set = false)
    (hmset : fl.mset = false) (hkeys : fl.setkeys = "") :
    parsedOptions b fl =
      .ok ((if fl.f == "merge" then [Opt.merge] else []) ++ [Opt.prec fl.precision]) := by
  rw [parsedOptions_same]
  simp [optionsOf, hset, hmset, hkeys]

/-- the diff of two numbers that are not within `+0` of each other, whatever the Precision option:
    `diff_common.go` calls `Equals` WITHOUT the options -/
theorem diffM_num_prec (eps x y : UInt64) (h0 : numWithin 0 x y = false) :
    diffM [Opt.prec eps] (.num x) (.num y) = [{ path := [], remove := [.num x], add := [.num y] }] ∧
    diffM [Opt.merge, Opt.prec eps] (.num x) (.num y) =
      [{ merge := true, path := [], add := [.num y] }] := by
  constructor
  · unfold diffM
    rw [DE.diffNode_scalar _ _ _ _ (fun _ _ e => by cases e) (fun _ e => by cases e)]
    simp [diffCommon, equals, precOf, h0, isMerge, Json.nodeList, Json.isVoid]
  · unfold diffM
    rw [DE.diffNode_scalar _ _ _ _ (fun _ _ e => by cases e) (fun _ e => by cases e)]
    simp [diffCommon, equals, precOf, h0, isMerge]

/-- **KF-C05-precision on the process, native format** — relative to the two IEEE facts
    `|x − y| ≤ eps` and `¬ |x − y| ≤ +0` about the bit patterns (the kernel cannot evaluate `Float`):
    whenever the two inputs parse to such numbers, `jd -precision eps a b` EXITS 1 although
    `a.Equals(b, Precision(eps))`. -/
theorem precision_exit_one_though_equal {x y : UInt64}
    (R : DiffRun nc Y Ls b fl e (.num x) (.num y))
    (hset : fl.set = false) (hmset : fl.mset = false) (hkeys : fl.setkeys = "")
    (hfmt : formatOf fl.f = some .jd)
    (h1 : numWithin fl.precision x y = true) (h0 : numWithin 0 x y = false)
    (hren : (renderM nc (colorOpts fl)
      [{ path := [], remove := [.num x], add := [.num y] }]).isSome = true) :
    equals [Opt.prec fl.precision] (.num x) (.num y) = true ∧ (proc Ls b fl e).exit = 1 := by
  have ho := parsedOptions_list b hset hmset hkeys hfmt
  refine ⟨by simp [equals, precOf, h1], ?_⟩
  have hd := (diffM_num_prec fl.precision x y h0).1
  have := (jd_exit R ho hfmt).2.2 (by rw [hd]; exact hren)
  exact this.2.2 (by rw [hd]; simp)

/-- … and with `-f merge` (exit status from `len(diff)`): the run does NOT exit 0 although Equal -/
theorem precision_exit_nonzero_though_equal_merge {x y : UInt64}
    (R : DiffRun nc Y Ls b fl e (.num x) (.num y))
    (hset : fl.set = false) (hmset : fl.mset = false) (hkeys : fl.setkeys = "")
    (hfmt : formatOf fl.f = some .merge)
    (h1 : numWithin fl.precision x y = true) (h0 : numWithin 0 x y = false) :
    equals [Opt.merge, Opt.prec fl.precision] (.num x) (.num y) = true ∧
      (proc Ls b fl e).exit ≠ 0 := by
  have ho : parsedOptions b fl = .ok [Opt.merge, Opt.prec fl.precision] := by
    rw [parsedOptions_precision b hset hmset hkeys, merge_of_fmt hfmt]; rfl
  refine ⟨by simp [equals, precOf, h1], ?_⟩
  have hd := (diffM_num_prec fl.precision x y h0).2
  intro hx
  have := (merge_exit R ho hfmt).1.1 hx
  rw [hd] at this
  cases this

/-! ## 7. non-vacuity: concrete command lines and files -/

namespace Example
open Jd.Spec Jd.DPL Jd.NativeRT Jd.E2E Jd.E2E.Example Jd.CliRT.NativeExample

/-- the situation for binary A (`v2/jd`), two JSON files, no `-o`, the codec `exCodec` -/
theorem mkRun {fl : Flags} {ta tb : String} {a b' : Json} (hm : isDiffMode fl)
    (hn : fl.nargs = 2) (hy : fl.yaml = false) (ho : fl.o = "")
    (ha : readJsonM exCodec ta = .ok a) (hb : readJsonM exCodec tb = .ok b') :
    DiffRun exCodec noYaml NativeExample.Ls .v2jd fl { in1 := .ok ta, in2 := .ok tb } a b' where
  lib := rfl
  mode := hm
  v2 := rfl
  nargs := .inr hn
  read1 := ⟨ta, rfl, by rw [hy, nativeLib_readDoc_json, ha]; rfl⟩
  read2 := ⟨tb, rfl, by rw [hy, nativeLib_readDoc_json, hb]; rfl⟩
  write := .inl ho

theorem exA_dom : Dom exA := ⟨by decide, by decide, by decide, by decide⟩
theorem exB_dom : Dom exB := ⟨by decide, by decide, by decide, by decide⟩

set_option maxRecDepth 8000 in
theorem ex_hashOK : DE.HashOK o0 exA exB := by
  intro x hx y hy h
  simp only [exA, exB, DE.subterms, DE.subtermsList, DE.subtermsKvs, List.cons_append,
    List.nil_append, List.append_nil, List.mem_cons, List.not_mem_nil, or_false] at hx hy
  rcases hx with rfl | rfl | rfl | rfl | rfl | rfl <;>
    rcases hy with rfl | rfl | rfl | rfl | rfl | rfl | rfl | rfl <;>
    first
      | exact absurd h (by decide +kernel)
      | decide +kernel

/-- **`cli_exit_zero_iff_equal_list` applies** to `jd a.json b.json` with
    `{"k":[true,null,["x"]]}` and `{"k":[false,null,["x","y"]],"n":null}`: every hypothesis is
    discharged (`FloatEq0` remains), the documents are not Equal, and the process exits 1 -/
theorem ex_list_differ (F : FloatEq0) :
    (proc NativeExample.Ls .v2jd fl1 e1).exit = 1 ∧ equals o0 exA exB = false := by
  have R : DiffRun exCodec noYaml NativeExample.Ls .v2jd fl1 e1 exA exB :=
    mkRun ⟨rfl, rfl, rfl, rfl, rfl⟩ rfl rfl rfl read_a read_b
  have hne : equals o0 exA exB = false := by decide +kernel
  obtain ⟨_, h1, _⟩ := cli_exit_zero_iff_equal_list F R ⟨rfl, rfl, rfl, rfl⟩ rfl (by decide)
    exA_dom exB_dom ex_hashOK (by
      show (renderM exCodec [] (diffM o0 exA exB)).isSome = true
      rw [ex_text]; rfl)
  exact ⟨h1.2 hne, hne⟩

/-- the same file with other white space -/
def taE' : String := "{ \"k\" : [ true , null,[\"x\" ]]\n}\n"

theorem read_a' : readJsonM exCodec taE' = .ok exA := by
  simp [taE', exA, readJsonM, trimGoSpace, parseJson, parseValue, skipWs, isJsonWs, parseElems,
    parseMembers, lexString, ainsert]

set_option maxRecDepth 8000 in
theorem ex_hashOK_self : DE.HashOK o0 exA exA := by
  intro x hx y hy h
  simp only [exA, DE.subterms, DE.subtermsList, DE.subtermsKvs, List.cons_append,
    List.nil_append, List.append_nil, List.mem_cons, List.not_mem_nil, or_false] at hx hy
  rcases hx with rfl | rfl | rfl | rfl | rfl | rfl <;>
    rcases hy with rfl | rfl | rfl | rfl | rfl | rfl <;>
    first
      | exact absurd h (by decide +kernel)
      | decide +kernel

/-- … and to two texts of the same document: Equal, exit 0 -/
theorem ex_list_equal (F : FloatEq0) :
    (proc NativeExample.Ls .v2jd fl1 { in1 := .ok taE, in2 := .ok taE' }).exit = 0 ∧
      equals o0 exA exA = true := by
  have R : DiffRun exCodec noYaml NativeExample.Ls .v2jd fl1 { in1 := .ok taE, in2 := .ok taE' }
      exA exA := mkRun ⟨rfl, rfl, rfl, rfl, rfl⟩ rfl rfl rfl read_a read_a'
  have he : equals o0 exA exA = true := by decide +kernel
  have hd := diffM_nil_of_equals F o0 rfl rfl exA exA (by decide) exA_dom exA_dom he
  obtain ⟨h0, _, _⟩ := cli_exit_zero_iff_equal_list F R ⟨rfl, rfl, rfl, rfl⟩ rfl (by decide)
    exA_dom exA_dom ex_hashOK_self (by
      show (renderM exCodec [] (diffM o0 exA exA)).isSome = true
      rw [hd]; rfl)
  exact ⟨h0.2 he, he⟩

def flPatch : Flags := { f := "patch", nargs := 2 }
def flMerge : Flags := { f := "merge", nargs := 2 }

/-- `jd -f patch a.json b.json` and `jd -f merge a.json b.json` on the first pair: the hypotheses of
    the two theorems hold; the documents are not Equal, so neither run exits 0 -/
theorem ex_list_patch_merge (F : FloatEq0) :
    (proc NativeExample.Ls .v2jd flPatch e1).exit ≠ 0 ∧
    (proc NativeExample.Ls .v2jd flMerge e1).exit ≠ 0 := by
  have R1 : DiffRun exCodec noYaml NativeExample.Ls .v2jd flPatch e1 exA exB :=
    mkRun ⟨rfl, rfl, rfl, rfl, rfl⟩ rfl rfl rfl read_a read_b
  have R2 : DiffRun exCodec noYaml NativeExample.Ls .v2jd flMerge e1 exA exB :=
    mkRun ⟨rfl, rfl, rfl, rfl, rfl⟩ rfl rfl rfl read_a read_b
  have hne : equals o0 exA exB = false := by decide +kernel
  have hne' : equals [Opt.merge, Opt.prec 0] exA exB = false := by decide +kernel
  obtain ⟨p0, _, _⟩ := cli_exit_zero_iff_equal_list_patch F R1 ⟨rfl, rfl, rfl, rfl⟩ (by decide)
    (by decide) exA_dom exB_dom ex_hashOK (by decide) (by decide)
  obtain ⟨m0, _, _⟩ := cli_exit_zero_iff_equal_list_merge F R2 ⟨rfl, rfl, rfl, rfl⟩ (by decide)
    (by decide) exA_dom exB_dom
  refine ⟨fun h => ?_, fun h => ?_⟩
  · exact Bool.noConfusion ((p0.1 h).symm.trans hne)
  · exact Bool.noConfusion ((m0.1 h).symm.trans hne')

end Example

namespace Example
open Jd.NativeRT Jd.CliRT.NativeExample

/-! ### `-set` -/

/-- `jd -set a.json b.json` -/
def flSet : Flags := { set := true, nargs := 2 }
def tsA : String := "{\"s\":[true,null,{\"k\":[\"x\",\"y\"]}],\"t\":\"u\"}"
def tsB : String := "{\"s\":[{\"k\":[\"y\",\"x\",\"y\"]},null,true,null],\"t\":\"u\"}"

theorem read_sA : readJsonM exCodec tsA = .ok DES.Example.exA := by
  simp [tsA, DES.Example.exA, readJsonM, trimGoSpace, parseJson, parseValue, skipWs, isJsonWs,
    parseElems, parseMembers, lexString, ainsert]
theorem read_sB : readJsonM exCodec tsB = .ok DES.Example.exB := by
  simp [tsB, DES.Example.exB, readJsonM, trimGoSpace, parseJson, parseValue, skipWs, isJsonWs,
    parseElems, parseMembers, lexString, ainsert]

theorem setOpts_flSet : setOpts flSet = [Opt.set, Opt.prec 0] := by decide

/-- **the `-set` theorems apply**: `{"s":[true,null,{"k":["x","y"]}],"t":"u"}` against
    `{"s":[{"k":["y","x","y"]},null,true,null],"t":"u"}` with `jd -set`: `DiffFaithful` holds
    (checked), the documents are Equal as sets, the process exits 0 -/
theorem ex_set_equal :
    (proc NativeExample.Ls .v2jd flSet { in1 := .ok tsA, in2 := .ok tsB }).exit = 0 ∧
      equals [Opt.set, Opt.prec 0] DES.Example.exA DES.Example.exB = true := by
  have R : DiffRun exCodec noYaml NativeExample.Ls .v2jd flSet { in1 := .ok tsA, in2 := .ok tsB }
      DES.Example.exA DES.Example.exB := mkRun ⟨rfl, rfl, rfl, rfl, rfl⟩ rfl rfl rfl read_sA read_sB
  have he : equals (setOpts flSet) DES.Example.exA DES.Example.exB = true := by
    rw [setOpts_flSet]; decide +kernel
  have FH : DES.DiffFaithful (setOpts flSet) (subterms DES.Example.exA) (subterms DES.Example.exB) := by
    rw [setOpts_flSet]; exact DES.diffFaithful_of_check (by decide +kernel)
  refine ⟨cli_equal_implies_exit_zero_set R ⟨.inl rfl, rfl, rfl⟩ (fmt := .jd) (by decide)
    (by decide) (by decide) (by decide) FH he, ?_⟩
  rw [← setOpts_flSet]; exact he

end Example

/-! ## 8. WITNESSES -/

namespace Witness
open Jd.NativeRT Jd.CliRT.NativeExample Example

/-- the collision pair of `DES.Witness.fnv_collision_breaks_converse` has a non-empty diff under
    every option list that reads arrays as sets (re-proved here for the CLI's option lists, which
    end with `Precision(0)`) -/
theorem collision_diff_ne (o : Opts) (hd : dispatchTag o = .set)
    (he : equals o (.arr .set [.str "aedb68afb", .str "b7cdeb749"])
        (.arr .set [.str "a568b3ad2", .str "b76a57d20"]) = true)
    (hn : identOf o (.str "aedb68afb") ∉
      [identOf o (.str "a568b3ad2"), identOf o (.str "b76a57d20")]) :
    diffM o DES.Witness.ca DES.Witness.cb ≠ [] := by
  intro h
  unfold diffM DES.Witness.ca DES.Witness.cb at h
  rw [DES.diffNode_set hd _ _ _ [.str "a568b3ad2", .str "b76a57d20"] (by simp [Json.dispatch, hd]),
    he] at h
  simp only [Bool.not_true, Bool.and_false, Bool.false_eq_true, if_false] at h
  exact hn (((DES.setBody_nil_iff _ _ _ _ _).1 h).2 _ |>.1 List.mem_cons_self)

def tcA : String := "[\"aedb68afb\",\"b7cdeb749\"]"
def tcB : String := "[\"a568b3ad2\",\"b76a57d20\"]"

theorem read_cA : readJsonM exCodec tcA = .ok DES.Witness.ca := by
  simp [tcA, DES.Witness.ca, readJsonM, trimGoSpace, parseJson, parseValue, skipWs, isJsonWs,
    parseElems, lexString]
theorem read_cB : readJsonM exCodec tcB = .ok DES.Witness.cb := by
  simp [tcB, DES.Witness.cb, readJsonM, trimGoSpace, parseJson, parseValue, skipWs, isJsonWs,
    parseElems, lexString]

/-- `jd -set -f merge a.json b.json` -/
def flSetMerge : Flags := { set := true, f := "merge", nargs := 2 }

theorem setOpts_flSetMerge : setOpts flSetMerge = [Opt.set, Opt.merge, Opt.prec 0] := by decide

/-- **(Equal ⇒ exit 0) is FALSE on the process without `DiffFaithful`** (a genuine FNV-1a
    collision): `["aedb68afb","b7cdeb749"]` against `["a568b3ad2","b76a57d20"]` are Equal under the
    options of `jd -set -f merge` (and of `jd -set`), and `jd -set -f merge a.json b.json` does NOT
    exit 0 (it exits 1 or 2); the library diff under the options of `jd -set` is not empty either. -/
theorem set_collision_exit :
    equals [Opt.set, Opt.merge, Opt.prec 0] DES.Witness.ca DES.Witness.cb = true ∧
    (proc NativeExample.Ls .v2jd flSetMerge { in1 := .ok tcA, in2 := .ok tcB }).exit ≠ 0 ∧
    equals [Opt.set, Opt.prec 0] DES.Witness.ca DES.Witness.cb = true ∧
    diffM [Opt.set, Opt.prec 0] DES.Witness.ca DES.Witness.cb ≠ [] := by
  have R1 : DiffRun exCodec noYaml NativeExample.Ls .v2jd flSetMerge
      { in1 := .ok tcA, in2 := .ok tcB } DES.Witness.ca DES.Witness.cb :=
    mkRun ⟨rfl, rfl, rfl, rfl, rfl⟩ rfl rfl rfl read_cA read_cB
  have d1 := collision_diff_ne [Opt.set, Opt.merge, Opt.prec 0] rfl (by decide +kernel)
    (by decide +kernel)
  have d2 := collision_diff_ne [Opt.set, Opt.prec 0] rfl (by decide +kernel) (by decide +kernel)
  refine ⟨by decide +kernel, fun h => ?_, by decide +kernel, d2⟩
  have := (merge_exit R1 (parsedOptions_set .v2jd ⟨.inl rfl, rfl, rfl⟩) (by decide)).1.1 h
  rw [setOpts_flSetMerge] at this
  exact d1 this

end Witness

namespace Witness
open Jd.NativeRT Jd.CliRT.NativeExample Example

/-! ### `-precision` -/

/-- the doubles 1 and 2, and the precision 1.5 -/
def one : UInt64 := 0x3FF0000000000000
def two : UInt64 := 0x4000000000000000
def eps15 : UInt64 := 0x3FF8000000000000

/-- `jd -precision 1.5 a.json b.json` -/
def flPrec : Flags := { precision := eps15, nargs := 2 }

theorem read_one : readJsonM exCodec "1" = .ok (.num one) := by
  have h : intToFloatBits 1 = one := by decide
  simp [readJsonM, trimGoSpace, parseJson, parseValue, skipWs, isJsonWs, lexNumber,
    lexNumber.lexFrac, lexNumber.lexExp, takeDigits, isDigit, parseNumToken, exCodec, h]
theorem read_two : readJsonM exCodec "2" = .ok (.num two) := by
  have h : intToFloatBits 2 = two := by decide
  simp [readJsonM, trimGoSpace, parseJson, parseValue, skipWs, isJsonWs, lexNumber,
    lexNumber.lexFrac, lexNumber.lexExp, takeDigits, isDigit, parseNumToken, exCodec, h]

theorem fmt_one : fmtNum exCodec one = some "1" := by
  have h2 : floatToInt? 4607182418800017408 = some 1 := by decide
  have h3 : natToDigits 1 = "1" := by decide
  simp [fmtNum, h2, h3, one]
theorem fmt_two : fmtNum exCodec two = some "2" := by
  have h2 : floatToInt? 4611686018427387904 = some 2 := by decide
  have h3 : natToDigits 2 = "2" := by decide
  simp [fmtNum, h2, h3, two]

theorem render_one_two :
    (renderM exCodec [] [{ path := [], remove := [.num one], add := [.num two] }]).isSome = true := by
  simp [renderM, renderHunk, optAll, jsonM, pathToJson, rawNorm, rawNormList, jsonText,
    jsonTextList, marshalNode, fmt_one, fmt_two, Json.isVoid, isColor, isMerge]

/-- **KF-C05-precision, a concrete command line**: `jd -precision 1.5 a.json b.json` with the files
    `1` and `2` exits 1 although `1` and `2` are Equal under `Precision(1.5)` — relative to the two
    IEEE facts `|1 − 2| ≤ 1.5` and `¬ |1 − 2| ≤ +0`, which the kernel cannot evaluate (`numWithin`
    computes with `Float`; the `#eval` below evaluates them with the runtime: `(true, false)`). -/
theorem precision_process_witness (h1 : numWithin eps15 one two = true)
    (h0 : numWithin 0 one two = false) :
    precNonZero flPrec.precision = true ∧
    equals [Opt.prec eps15] (.num one) (.num two) = true ∧
    (proc NativeExample.Ls .v2jd flPrec { in1 := .ok "1", in2 := .ok "2" }).exit = 1 := by
  have R : DiffRun exCodec noYaml NativeExample.Ls .v2jd flPrec { in1 := .ok "1", in2 := .ok "2" }
      (.num one) (.num two) := mkRun ⟨rfl, rfl, rfl, rfl, rfl⟩ rfl rfl rfl read_one read_two
  have hc : colorOpts flPrec = [] := rfl
  have hf : formatOf flPrec.f = some .jd := by decide
  have hp : flPrec.precision = eps15 := rfl
  have key := precision_exit_one_though_equal R rfl rfl rfl hf (by rw [hp]; exact h1) h0
    (by rw [hc]; exact render_one_two)
  rw [hp] at key
  exact ⟨by decide, key⟩

#eval (numWithin eps15 one two, numWithin 0 one two)

end Witness

namespace Witness
open Jd.NativeRT Jd.CliRT.NativeExample Example

/-! ### why the native-format theorems ask that `Render` does not panic (`renderM … isSome`) -/

/-- a codec that reads the token `1.5` but cannot print any number -/
def badCodec : NumCodec :=
  { fmt := fun _ => none, parse := fun s => if s = "1.5" then some 0x3FF8000000000000 else none }
def badLs : Bool → LibPack := fun _ => ⟨Json, Diff, nativeLib badCodec noYaml⟩
def x15 : Json := .num 0x3FF8000000000000

theorem read_15 : readJsonM badCodec "1.5" = .ok x15 := by
  simp [readJsonM, trimGoSpace, parseJson, parseValue, skipWs, isJsonWs, lexNumber,
    lexNumber.lexFrac, lexNumber.lexExp, takeDigits, isDigit, parseNumToken, badCodec, x15]
theorem read_null : readJsonM badCodec "null" = .ok .null := by
  simp [readJsonM, trimGoSpace, parseJson, parseValue, skipWs, isJsonWs]

theorem diff_15_null : diffM [Opt.prec 0] x15 .null =
    [{ path := [], remove := [x15], add := [.null] }] := by
  unfold diffM x15
  rw [DE.diffNode_scalar _ _ _ _ (fun _ _ e => by cases e) (fun _ e => by cases e)]
  simp [diffCommon, equals, isMerge, Json.nodeList, Json.isVoid]

theorem render_15_null : renderM badCodec [] (diffM [Opt.prec 0] x15 .null) = none := by
  have h2 : floatToInt? 0x3FF8000000000000 = none := by decide
  rw [diff_15_null]
  simp [renderM, renderHunk, optAll, jsonM, pathToJson, rawNorm, rawNormList, jsonText,
    jsonTextList, marshalNode, fmtNum, h2, badCodec, x15, Json.isVoid, isColor, isMerge]

/-- **the hypothesis `renderM … isSome` of `cli_exit_zero_iff_equal_list` is needed ON THE MODEL**
    (an artifact of the totalisation `getD ""` in `nativeLib.renderJd`, not a behaviour of the Go
    program: there `json.Marshal` of a finite number never fails, and a failure would be a panic,
    which `cliM` does not represent): with a codec that cannot print `1.5`, the files `1.5` and
    `null` satisfy every other hypothesis, are not Equal, and the model process exits 0. -/
theorem render_panic_artifact :
    x15.rawDoc = true ∧ Dom x15 ∧ Dom .null ∧ DE.HashOK [Opt.prec 0] x15 .null ∧
    equals [Opt.prec 0] x15 .null = false ∧
    (proc badLs .v2jd fl1 { in1 := .ok "1.5", in2 := .ok "null" }).exit = 0 := by
  have R : DiffRun badCodec noYaml badLs .v2jd fl1 { in1 := .ok "1.5", in2 := .ok "null" }
      x15 .null :=
    { lib := rfl, mode := ⟨rfl, rfl, rfl, rfl, rfl⟩, v2 := rfl, nargs := .inr rfl,
      read1 := ⟨_, rfl, by rw [show fl1.yaml = false from rfl, nativeLib_readDoc_json, read_15]; rfl⟩,
      read2 := ⟨_, rfl, by rw [show fl1.yaml = false from rfl, nativeLib_readDoc_json, read_null]; rfl⟩,
      write := .inl rfl }
  have hf : formatOf fl1.f = some .jd := by decide
  have ho : parsedOptions .v2jd fl1 = .ok [Opt.prec 0] := rfl
  refine ⟨by decide, ⟨by decide, by decide, by decide, by decide⟩,
    ⟨by decide, by decide, by decide, by decide⟩, ?_, by decide, ?_⟩
  · intro x hx y hy h
    simp only [x15, DE.subterms, List.mem_cons, List.not_mem_nil, or_false] at hx hy
    subst hx; subst hy
    exact absurd h (by decide +kernel)
  · rcases exit_cases R ho hf with ⟨T, hT, hx, _⟩ | ⟨m, hm, _⟩
    · have hc : fl1.color = false := rfl
      rw [hc] at hT
      simp only [renderAs, nativeLib_renderJd_plain, Except.ok.injEq, render_15_null,
        Option.getD_none] at hT
      rw [hx, ← hT]
      simp [haveDiffOf]
    · simp [renderAs] at hm

end Witness

namespace Example
open Jd.NativeRT Jd.CliRT.NativeExample Jd.CliRT.ColorWitness

/-! ### the two "never exit 2" corollaries apply -/

theorem wpp_a : ∃ s, writePointerPath [.key "a"] = .ok s :=
  PRC.wpp_ok (fun e he => by
    simp only [List.mem_cons, List.not_mem_nil, or_false] at he
    subst he
    exact (PRC.keyOK_iff "a").1 (by decide))

theorem cDiff_ops : ∃ s, renderPatchOps cDiff =
    .ok [{ op := "test", path := s, value := .str "ab" }, { op := "remove", path := s, value := .str "ab" },
      { op := "add", path := s, value := .str "ac" }] := by
  obtain ⟨s, hs⟩ := wpp_a
  refine ⟨s, ?_⟩
  have : renderPatchHunk { path := [.key "a"], remove := [.str "ab"], add := [.str "ac"] } =
      .ok [{ op := "test", path := s, value := .str "ab" }, { op := "remove", path := s, value := .str "ab" },
      { op := "add", path := s, value := .str "ac" }] := by
    rw [renderPatchHunk_eq]
    simp [renderPatchHunk', hs, ctxOps, remOpsOf, addOpsOf, Json.isVoid]
    rfl
  rw [cDiff, renderPatchOps, this]
  rfl

/-- `jd -f patch a.json b.json` with `{"a":"ab"}` / `{"a":"ac"}`: every hypothesis of
    `cli_exit_codes_list_patch` holds; not Equal; exit 1 -/
theorem ex_patch_exit_one (F : FloatEq0) :
    (proc NativeExample.Ls .v2jd flPatch ec1).exit = 1 := by
  have R : DiffRun exCodec noYaml NativeExample.Ls .v2jd flPatch ec1 cA cB :=
    mkRun ⟨rfl, rfl, rfl, rfl, rfl⟩ rfl rfl rfl read_cA read_cB
  have H : DE.HashOK o0 cA cB := by
    intro x hx y hy h
    simp only [cA, cB, DE.subterms, DE.subtermsKvs, List.append_nil, List.mem_cons,
      List.not_mem_nil, or_false] at hx hy
    rcases hx with rfl | rfl <;> rcases hy with rfl | rfl <;>
      exact absurd h (by decide +kernel)
  obtain ⟨_, h1, _⟩ := cli_exit_codes_list_patch F R ⟨rfl, rfl, rfl, rfl⟩ (by decide) (by decide)
    ⟨by decide, by decide, by decide, by decide⟩ ⟨by decide, by decide, by decide, by decide⟩ H
    (by decide) (by decide) (by decide) (by decide) (by
      intro ops hops p hp
      have hd : diffM [Opt.prec 0] cA cB = cDiff := c_diff
      rw [hd] at hops
      obtain ⟨s, hs⟩ := cDiff_ops
      rw [hs] at hops
      cases hops
      simp only [List.mem_cons, List.not_mem_nil, or_false] at hp
      rcases hp with rfl | rfl | rfl <;> rfl)
  exact h1.2 (by decide +kernel)

end Example

namespace Example
open Jd.NativeRT Jd.CliRT.NativeExample Jd.CliRT.ColorWitness

theorem c_diff_merge : diffM [Opt.merge, Opt.prec 0] cA cB =
    [{ merge := true, path := [.key "a"], add := [.str "ac"] }] := by
  unfold diffM cA cB
  rw [show isMerge [Opt.merge, Opt.prec 0] = true from rfl, DE.diffNode_obj_obj]
  simp [DE.diffKvs_cons, DE.diffKvs_nil, alookup]
  rw [DE.diffNode_scalar _ _ _ _ (by simp) (by simp)]
  simp [diffCommon, equals]

theorem c_mergeDoc : renderMergeDoc [{ merge := true, path := [.key "a"], add := [.str "ac"] }] =
    .ok (.obj [("a", .str "ac")]) := by
  have := Merge.patchAll_mh true [(["a"], Json.str "ac")] .void
  simp only [List.map_cons, List.map_nil, Merge.mh] at this
  simp only [renderMergeDoc, List.isEmpty_cons, Bool.false_eq_true, if_false, List.any_cons,
    List.any_nil, Bool.not_true, Bool.or_false, List.map_cons, List.map_nil, Json.isVoid, this]
  simp [Merge.mapply, Merge.mset, Merge.nest, Merge.putKvs, Json.isVoid, ainsert]

/-- `jd -f merge a.json b.json` with `{"a":"ab"}` / `{"a":"ac"}`: every hypothesis of
    `cli_exit_codes_list_merge` holds; not Equal; exit 1 -/
theorem ex_merge_exit_one (F : FloatEq0) (L : Jd.Spec.FloatLaws) :
    (proc NativeExample.Ls .v2jd flMerge ec1).exit = 1 := by
  have R : DiffRun exCodec noYaml NativeExample.Ls .v2jd flMerge ec1 cA cB :=
    mkRun ⟨rfl, rfl, rfl, rfl, rfl⟩ rfl rfl rfl read_cA read_cB
  obtain ⟨_, h1, _⟩ := cli_exit_codes_list_merge F L R ⟨rfl, rfl, rfl, rfl⟩ (by decide) (by decide)
    ⟨by decide, by decide, by decide, by decide⟩ ⟨by decide, by decide, by decide, by decide⟩
    (by decide) (by decide) (by decide) (by
      intro m hm
      rw [c_diff_merge, c_mergeDoc] at hm
      cases hm
      simp [jsonM, rawNorm, rawNormKvs, jsonText, jsonTextKvs])
  exact h1.2 (by decide +kernel)

end Example

namespace Example
open Jd.NativeRT Jd.CliRT.NativeExample

/-! ### more `-set` examples -/

/-- `cli_exit_zero_iff_equal_set` applies to the Equal pair (the diff is empty, so `Render` does not
    panic) -/
theorem ex_set_iff :
    ((proc NativeExample.Ls .v2jd flSet { in1 := .ok tsA, in2 := .ok tsB }).exit = 0 ↔
      equals (setOpts flSet) DES.Example.exA DES.Example.exB = true) := by
  have R : DiffRun exCodec noYaml NativeExample.Ls .v2jd flSet { in1 := .ok tsA, in2 := .ok tsB }
      DES.Example.exA DES.Example.exB := mkRun ⟨rfl, rfl, rfl, rfl, rfl⟩ rfl rfl rfl read_sA read_sB
  have he : equals (setOpts flSet) DES.Example.exA DES.Example.exB = true := by
    rw [setOpts_flSet]; decide +kernel
  have FH : DES.DiffFaithful (setOpts flSet) (subterms DES.Example.exA) (subterms DES.Example.exB) := by
    rw [setOpts_flSet]; exact DES.diffFaithful_of_check (by decide +kernel)
  have S : SetFlags flSet := ⟨.inl rfl, rfl, rfl⟩
  have hd := DES.diffM_nil_of_equals (setOpts flSet) (setOpts_reading S).1 (setOpts_reading S).2
    DES.Example.exA DES.Example.exB (by decide) (by decide) (by decide) FH he
  exact (cli_exit_zero_iff_equal_set R S (by decide) (by decide) (by decide) (by decide) FH
    (by rw [hd]; rfl)).1

def tsD : String := "{\"s\":[{\"k\":[\"y\",\"z\"]},null,true],\"t\":\"u\"}"
theorem read_sD : readJsonM exCodec tsD = .ok DES.Example.exD := by
  simp [tsD, DES.Example.exD, readJsonM, trimGoSpace, parseJson, parseValue, skipWs, isJsonWs,
    parseElems, parseMembers, lexString, ainsert]

def flSetMerge' : Flags := { set := true, f := "merge", nargs := 2 }

/-- `jd -set -f merge` on a pair that differs as sets: `cli_exit_zero_implies_equal_set` and
    `cli_exit_zero_iff_equal_set_merge` apply; not Equal; the process exits 1 or 2 -/
theorem ex_set_merge_differ :
    (proc NativeExample.Ls .v2jd flSetMerge' { in1 := .ok tsA, in2 := .ok tsD }).exit ≠ 0 ∧
    ((proc NativeExample.Ls .v2jd flSetMerge' { in1 := .ok tsA, in2 := .ok tsD }).exit = 1 ∨
     (proc NativeExample.Ls .v2jd flSetMerge' { in1 := .ok tsA, in2 := .ok tsD }).exit = 2) := by
  have R : DiffRun exCodec noYaml NativeExample.Ls .v2jd flSetMerge'
      { in1 := .ok tsA, in2 := .ok tsD } DES.Example.exA DES.Example.exD :=
    mkRun ⟨rfl, rfl, rfl, rfl, rfl⟩ rfl rfl rfl read_sA read_sD
  have ho : setOpts flSetMerge' = [Opt.set, Opt.merge, Opt.prec 0] := by decide
  have S : SetFlags flSetMerge' := ⟨.inl rfl, rfl, rfl⟩
  have hne : equals (setOpts flSetMerge') DES.Example.exA DES.Example.exD = false := by
    rw [ho]; decide +kernel
  have FH : DES.DiffFaithful (setOpts flSetMerge') (subterms DES.Example.exA)
      (subterms DES.Example.exD) := by
    rw [ho]; exact DES.diffFaithful_of_check (by decide +kernel)
  refine ⟨fun h => ?_, ?_⟩
  · have := cli_exit_zero_implies_equal_set R S (.inl (by decide)) (by decide) (by decide)
      (by decide) h
    rw [hne] at this; cases this
  · exact (cli_exit_zero_iff_equal_set_merge R S (by decide) (by decide) (by decide) (by decide)
      FH).2.2 hne

end Example

/-! ## 9. what `ReadJsonString` returns: plain arrays, sorted unique keys, no void marker inside -/

structure Shape (v : Json) : Prop where
  raw  : v.rawDoc = true
  wf   : v.wf = true
  nv   : v.isVoid = false
  vf   : PRC.vfree v = true

structure ShapeL (xs : List Json) : Prop where
  raw  : rawDocList xs = true
  wf   : wfList xs = true
  vf   : PRC.vfreeList xs = true

structure ShapeK (kvs : List (String × Json)) : Prop where
  raw  : rawDocKvs kvs = true
  srt  : keysSorted kvs = true
  wf   : wfKvs kvs = true
  vf   : PRC.vfreeKvs kvs = true

theorem rawDocKvs_ainsert (k : String) {v : Json} (hv : v.rawDoc = true) :
    ∀ {kvs : List (String × Json)}, rawDocKvs kvs = true → rawDocKvs (ainsert k v kvs) = true
  | [], _ => by simp [ainsert, rawDocKvs, hv]
  | (k', v') :: r, h => by
    simp only [rawDocKvs, Bool.and_eq_true] at h
    simp only [ainsert]
    split
    · simp [rawDocKvs, hv, h.1, h.2]
    · split
      · simp [rawDocKvs, hv, h.2]
      · simp [rawDocKvs, h.1, rawDocKvs_ainsert k hv h.2]

theorem vfreeKvs_ainsert (k : String) {v : Json} (hn : v.isVoid = false) (hv : PRC.vfree v = true) :
    ∀ {kvs : List (String × Json)}, PRC.vfreeKvs kvs = true → PRC.vfreeKvs (ainsert k v kvs) = true
  | [], _ => by simp [ainsert, PRC.vfreeKvs, hv, hn]
  | (k', v') :: r, h => by
    simp only [PRC.vfreeKvs, Bool.and_eq_true] at h
    simp only [ainsert]
    split
    · simp [PRC.vfreeKvs, hv, hn, h.1.1, h.1.2, h.2]
    · split
      · simp [PRC.vfreeKvs, hv, hn, h.2]
      · simp [PRC.vfreeKvs, h.1.1, h.1.2, vfreeKvs_ainsert k hn hv h.2]

theorem ShapeK.insert {kvs : List (String × Json)} (h : ShapeK kvs) (k : String) {v : Json}
    (hv : Shape v) : ShapeK (ainsert k v kvs) :=
  ⟨rawDocKvs_ainsert k hv.raw h.raw, Merge.keysSorted_ainsert k v h.srt,
    Merge.wfKvs_ainsert k hv.wf h.wf, vfreeKvs_ainsert k hv.nv hv.vf h.vf⟩


theorem shape_arr {xs : List Json} (h : ShapeL xs) : Shape (.arr .raw xs) :=
  ⟨by simp [Json.rawDoc, h.raw], by simp [Json.wf, h.wf], rfl, by simp [PRC.vfree, h.vf]⟩

theorem shape_obj {kvs : List (String × Json)} (h : ShapeK kvs) : Shape (.obj kvs) :=
  ⟨by simp [Json.rawDoc, h.raw], by simp [Json.wf, h.srt, h.wf], rfl, by simp [PRC.vfree, h.vf]⟩

theorem shapeL_cons {x : Json} {xs : List Json} (hx : Shape x) (h : ShapeL xs) : ShapeL (x :: xs) :=
  ⟨by simp [rawDocList, hx.raw, h.raw], by simp [wfList, hx.wf, h.wf],
    by simp [PRC.vfreeList, hx.nv, hx.vf, h.vf]⟩

theorem shapeK_nil : ShapeK [] := ⟨rfl, rfl, rfl, rfl⟩
theorem shapeL_nil : ShapeL [] := ⟨rfl, rfl, rfl⟩

theorem parse_shape (nc : NumCodec) : ∀ fuel : Nat,
    (∀ cs v r, parseValue nc fuel cs = some (v, r) → Shape v) ∧
    (∀ cs xs r, parseElems nc fuel cs = some (xs, r) → ShapeL xs) ∧
    (∀ cs acc kvs r, ShapeK acc → parseMembers nc fuel cs acc = some (kvs, r) → ShapeK kvs)
  | 0 => ⟨fun _ _ _ h => by simp [parseValue] at h, fun _ _ _ h => by simp [parseElems] at h,
      fun _ _ _ _ _ h => by simp [parseMembers] at h⟩
  | fuel + 1 => by
    obtain ⟨ihV, ihE, ihM⟩ := parse_shape nc fuel
    refine ⟨?_, ?_, ?_⟩
    · intro cs v r h
      simp only [parseValue] at h
      split at h
      · cases h; exact ⟨rfl, rfl, rfl, rfl⟩
      · cases h; exact ⟨rfl, rfl, rfl, rfl⟩
      · cases h; exact ⟨rfl, rfl, rfl, rfl⟩
      · simp only [Option.map_eq_some_iff] at h
        obtain ⟨⟨s, t⟩, _, h⟩ := h
        cases h; exact ⟨rfl, rfl, rfl, rfl⟩
      · split at h
        · cases h; exact shape_arr shapeL_nil
        · simp only [Option.map_eq_some_iff] at h
          obtain ⟨⟨xs, t⟩, hxs, h⟩ := h
          cases h; exact shape_arr (ihE _ _ _ hxs)
      · split at h
        · cases h; exact shape_obj shapeK_nil
        · simp only [Option.map_eq_some_iff] at h
          obtain ⟨⟨kvs, t⟩, hk, h⟩ := h
          cases h; exact shape_obj (ihM _ _ _ _ shapeK_nil hk)
      · split at h
        · split at h
          · simp only [Option.map_eq_some_iff] at h
            obtain ⟨bts, _, h⟩ := h
            cases h; exact ⟨rfl, rfl, rfl, rfl⟩
          · cases h
        · cases h
      · cases h
    · intro cs xs r h
      simp only [parseElems] at h
      split at h
      · cases h
      · rename_i v r' hv
        split at h
        · simp only [Option.map_eq_some_iff] at h
          obtain ⟨⟨ys, u⟩, hys, h⟩ := h
          cases h; exact shapeL_cons (ihV _ _ _ hv) (ihE _ _ _ hys)
        · cases h; exact shapeL_cons (ihV _ _ _ hv) shapeL_nil
        · cases h
    · intro cs acc kvs r hacc h
      simp only [parseMembers] at h
      split at h
      · split at h
        · cases h
        · split at h
          · split at h
            · cases h
            · rename_i v r3 hv
              split at h
              · exact ihM _ _ _ _ (hacc.insert _ (ihV _ _ _ hv)) h
              · cases h; exact hacc.insert _ (ihV _ _ _ hv)
              · cases h
          · cases h
      · cases h

/-- **what `ReadJsonString` returns** (any codec): every array a plain `jsonArray`, object keys
    unique and sorted, no void marker inside (the root is void for blank text) -/
theorem readJsonM_shape {nc : NumCodec} {s : String} {v : Json} (h : readJsonM nc s = .ok v) :
    v.rawDoc = true ∧ v.listDoc = true ∧ v.wf = true ∧ PRC.vfree v = true := by
  unfold readJsonM at h
  split at h
  · cases h; exact ⟨rfl, rfl, rfl, rfl⟩
  · split at h
    · rename_i v' hp
      cases h
      unfold parseJson at hp
      simp only at hp
      split at hp
      · rename_i v0 r hv
        split at hp
        · cases hp
          have := (parse_shape nc _).1 _ _ _ hv
          exact ⟨this.raw, rawDoc_listDoc _ this.raw, this.wf, this.vf⟩
        · cases hp
      · cases hp
    · cases h

/-! ## 10. JSON inputs (no `-yaml`): the shape hypotheses are discharged by the reader -/

theorem DiffRun.shape (R : DiffRun nc Y Ls b fl e a b') (hy : fl.yaml = false) :
    (a.rawDoc = true ∧ a.listDoc = true ∧ a.wf = true ∧ PRC.vfree a = true) ∧
    (b'.rawDoc = true ∧ b'.listDoc = true ∧ b'.wf = true ∧ PRC.vfree b' = true) := by
  obtain ⟨ta, _, hra⟩ := R.read1
  obtain ⟨tb, _, hrb⟩ := R.read2
  rw [hy, nativeLib_readDoc_json] at hra hrb
  exact ⟨readJsonM_shape (ofOutcome_ok.1 hra), readJsonM_shape (ofOutcome_ok.1 hrb)⟩

/-- **target 1 for JSON files**: the only hypotheses left on the documents are about NUMBERS
    (`finiteNums`, `noNegZero`: they depend on the number codec), the hash hypothesis and that
    `Render` does not panic -/
theorem cli_exit_zero_iff_equal_list_json (F : FloatEq0) (R : DiffRun nc Y Ls b fl e a b')
    (P : PlainFlags fl) (hfmt : formatOf fl.f = some .jd) (hy : fl.yaml = false)
    (hfa : a.finiteNums = true) (hza : a.noNegZero = true)
    (hfb : b'.finiteNums = true) (hzb : b'.noNegZero = true)
    (H : DE.HashOK [Opt.prec 0] a b')
    (hren : (renderM nc (colorOpts fl) (diffM [Opt.prec 0] a b')).isSome = true) :
    ((proc Ls b fl e).exit = 0 ↔ equals [Opt.prec 0] a b' = true) ∧
    ((proc Ls b fl e).exit = 1 ↔ equals [Opt.prec 0] a b' = false) ∧
    (proc Ls b fl e).exit ≠ 2 := by
  obtain ⟨⟨a1, a2, a3, _⟩, ⟨_, b2, b3, _⟩⟩ := R.shape hy
  exact cli_exit_zero_iff_equal_list F R P hfmt a1 ⟨a2, a3, hfa, hza⟩ ⟨b2, b3, hfb, hzb⟩ H hren

/-- `-f patch` for JSON files -/
theorem cli_exit_zero_iff_equal_list_patch_json (F : FloatEq0) (R : DiffRun nc Y Ls b fl e a b')
    (P : PlainFlags fl) (hfmt : formatOf fl.f = some .patch) (hy : fl.yaml = false)
    (hfa : a.finiteNums = true) (hza : a.noNegZero = true)
    (hfb : b'.finiteNums = true) (hzb : b'.noNegZero = true)
    (H : DE.HashOK [Opt.prec 0] a b') :
    ((proc Ls b fl e).exit = 0 ↔ equals [Opt.prec 0] a b' = true) ∧
    ((proc Ls b fl e).exit = 1 ↔ equals [Opt.prec 0] a b' = false ∧
      ∃ T, (nativeLib nc Y).renderPatch (diffM [Opt.prec 0] a b') = .ok T) ∧
    ((proc Ls b fl e).exit = 2 ↔ equals [Opt.prec 0] a b' = false ∧
      ∃ m, (nativeLib nc Y).renderPatch (diffM [Opt.prec 0] a b') = .error m) := by
  obtain ⟨⟨a1, a2, a3, a4⟩, ⟨_, b2, b3, b4⟩⟩ := R.shape hy
  exact cli_exit_zero_iff_equal_list_patch F R P hfmt a1 ⟨a2, a3, hfa, hza⟩ ⟨b2, b3, hfb, hzb⟩ H a4 b4

/-- `-f merge` for JSON files -/
theorem cli_exit_zero_iff_equal_list_merge_json (F : FloatEq0) (R : DiffRun nc Y Ls b fl e a b')
    (P : PlainFlags fl) (hfmt : formatOf fl.f = some .merge) (hy : fl.yaml = false)
    (hfa : a.finiteNums = true) (hza : a.noNegZero = true)
    (hfb : b'.finiteNums = true) (hzb : b'.noNegZero = true) :
    ((proc Ls b fl e).exit = 0 ↔ equals [Opt.merge, Opt.prec 0] a b' = true) ∧
    ((proc Ls b fl e).exit = 1 ↔ equals [Opt.merge, Opt.prec 0] a b' = false ∧
      ∃ T, (nativeLib nc Y).renderMerge (diffM [Opt.merge, Opt.prec 0] a b') = .ok T) ∧
    ((proc Ls b fl e).exit = 2 ↔ equals [Opt.merge, Opt.prec 0] a b' = false ∧
      ∃ m, (nativeLib nc Y).renderMerge (diffM [Opt.merge, Opt.prec 0] a b') = .error m) := by
  obtain ⟨⟨a1, a2, a3, _⟩, ⟨_, b2, b3, _⟩⟩ := R.shape hy
  exact cli_exit_zero_iff_equal_list_merge F R P hfmt a1 ⟨a2, a3, hfa, hza⟩ ⟨b2, b3, hfb, hzb⟩

/-- **`-set` / `-mset`, JSON files, `-f merge`: exit 0 ⇒ Equal with NO hypothesis on the documents** -/
theorem cli_exit_zero_implies_equal_set_merge_json (R : DiffRun nc Y Ls b fl e a b')
    (S : SetFlags fl) (hfmt : formatOf fl.f = some .merge) (hy : fl.yaml = false)
    (hx : (proc Ls b fl e).exit = 0) : equals (setOpts fl) a b' = true := by
  obtain ⟨⟨a1, _, a3, _⟩, ⟨_, _, b3, _⟩⟩ := R.shape hy
  exact cli_exit_zero_implies_equal_set R S (.inl hfmt) a1 a3 b3 hx

/-- **`-set` / `-mset`, JSON files, every format: Equal ⇒ exit 0 under `DiffFaithful` alone** -/
theorem cli_equal_implies_exit_zero_set_json (R : DiffRun nc Y Ls b fl e a b') (S : SetFlags fl)
    {fmt : Format} (hfmt : formatOf fl.f = some fmt) (hy : fl.yaml = false)
    (FH : DES.DiffFaithful (setOpts fl) (subterms a) (subterms b'))
    (heq : equals (setOpts fl) a b' = true) : (proc Ls b fl e).exit = 0 := by
  obtain ⟨⟨a1, _, a3, _⟩, ⟨_, _, b3, _⟩⟩ := R.shape hy
  exact cli_equal_implies_exit_zero_set R S hfmt a1 a3 b3 FH heq

/-! ## axioms -/

#print axioms exit_cases
#print axioms renderM_empty_iff
#print axioms renderPatchM_text_iff
#print axioms diffM_nil_of_no_ops
#print axioms jd_exit
#print axioms merge_exit
#print axioms patch_exit
#print axioms cli_exit_zero_iff_equal_list
#print axioms cli_equal_exit_zero_list
#print axioms cli_exit_zero_iff_equal_list_merge
#print axioms cli_exit_zero_iff_equal_list_patch
#print axioms cli_exit_codes_list_patch
#print axioms cli_exit_codes_list_merge
#print axioms cli_exit_zero_implies_equal_set
#print axioms cli_equal_implies_exit_zero_set
#print axioms cli_exit_zero_iff_equal_set
#print axioms cli_exit_zero_iff_equal_set_merge
#print axioms precision_exit_one_though_equal
#print axioms precision_exit_nonzero_though_equal_merge
#print axioms Witness.set_collision_exit
#print axioms Witness.precision_process_witness
#print axioms Witness.render_panic_artifact
#print axioms Example.ex_list_differ
#print axioms Example.ex_list_equal
#print axioms Example.ex_list_patch_merge
#print axioms Example.ex_patch_exit_one
#print axioms Example.ex_merge_exit_one
#print axioms Example.ex_set_equal
#print axioms Example.ex_set_iff
#print axioms Example.ex_set_merge_differ
#print axioms parse_shape
#print axioms readJsonM_shape
#print axioms DiffRun.shape
#print axioms cli_exit_zero_iff_equal_list_json
#print axioms cli_exit_zero_iff_equal_list_patch_json
#print axioms cli_exit_zero_iff_equal_list_merge_json
#print axioms cli_exit_zero_implies_equal_set_merge_json
#print axioms cli_equal_implies_exit_zero_set_json

end Jd.CliExit
