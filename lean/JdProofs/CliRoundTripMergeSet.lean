/-
  JdProofs.CliRoundTripMergeSet (namespace `Jd.CliRTMS`) — property C14 on the CLI model, the cases
  JdProofs.CliRoundTripModes leaves open: `-f patch` and `-f merge` COMBINED WITH `-set` / `-mset`.

  §A  `-f patch -set` / `-f patch -mset` (RFC 6902 output of a set-mode diff).
      `RenderPatch` translates hunk paths with `writePointer`, which REFUSES every path element that
      is not an object key or a list index: the `{}` / `[]` element that ends the path of every set /
      multiset hunk is refused, and so are number-like keys and the key `-`.  Hence there is no
      `-p` round trip to state; what holds is an EXIT-STATUS theorem:
        `patch_set_exit` : exit 2 ⇔ some hunk of `a.Diff(b, SET…)` has a path element that is not
                           expressible (in particular: as soon as the diff holds a set hunk);
                           exit 0 ⇔ the diff is empty; exit 1 ⇔ the diff is not empty and every
                           path is expressible (only object members outside arrays differ).
        `patch_set_exit_two_of_set_hunk` : a hunk whose path ends in `{}` / `[]` ⇒ exit 2.
      Library lemmas: `writePointerPath_total`, `renderPatchHunk_shunk`, `renderPatchOps_set_iff`.
  §B  `-f merge -set` / `-f merge -mset` (RFC 7386 output of a set-mode merge diff): the `-p` round
      trip HOLDS.  `soundN` (the induction: the merge patch document as `ReadMergeString` sees it —
      `PD = rawNorm (mapply (rs o a b) void)` — is printable, `Clean` for `a`, and RFC 7386 turns `a`
      into `b` under the reading), `normArr_set` / `normArr_mset` (what `jsonSet.raw()` /
      `jsonMultiset.raw()` make of the typed node of a replaced array: with `-set` the DISTINCT
      members in HASH ORDER), `mergeSet_lib_round_trip` (library level), `libRoundTrip_mergeSet`,
      `mergeSet_cli_round_trip` (the two processes, total).
  §C  non-vacuity (`Example.ex_patch_set_exit_two`, `ex_merge_set`, `ex_merge_mset`) and the witness
      `Example.mergeSet_emptyobj_no_libRoundTrip` (`mergeRTDom` is needed: KF-C12-emptyobj).

  NOT PROVED here: `-f merge` / `-f patch` with `-setkeys`; a non-zero `-precision`; the `-p` round
  trip of `-f patch -set` in the exit-1 case (only key-path hunks: the JSON Patch text is then a
  list-reading patch, but the library theorems `PatchOwnOutput` are stated for list-mode options).
-/
import JdModel
import JdSpec
import JdProofs.CliRoundTripModes
import JdProofs.CliExitCodes
import JdProofs.MergeSetModes
import JdProofs.NativeEndToEndSet

set_option autoImplicit false
set_option linter.unusedVariables false

namespace Jd.CliRTMS
open Jd Jd.Spec Jd.Cli Jd.CliRT Jd.CliExit

/-! ## A. `-f patch` with `-set` / `-mset` -/

/-- `writePointer` never panics and succeeds exactly on expressible paths (converse of
    `writePointerPath_refuses`) -/
theorem writePointerPath_total : ∀ (p : Path), (∀ e ∈ p, expressible e) →
    ∃ s, writePointerPath p = .ok s
  | [], _ => ⟨"", writePointerPath_nil⟩
  | e :: p, h => by
    obtain ⟨s, hs⟩ := writePointerPath_total p (fun e' he' => h e' (List.mem_cons_of_mem _ he'))
    rw [writePointerPath_cons, hs]
    have he := h e List.mem_cons_self
    cases e with
    | key k =>
      obtain ⟨h1, h2⟩ := he
      simp [wtok, h1, h2]
    | idx i => simp [wtok]
    | _ => exact absurd he (by simp [expressible])

theorem writePointerPath_err_iff (p : Path) :
    writePointerPath p = .err ↔ ∃ e ∈ p, ¬ expressible e := by
  constructor
  · intro h
    by_contra hc
    have : ∀ e ∈ p, expressible e := by
      intro e he
      by_contra hn
      exact hc ⟨e, he, hn⟩
    obtain ⟨s, hs⟩ := writePointerPath_total p this
    rw [hs] at h; cases h
  · exact writePointerPath_refuses

open Jd.E2ES in
/-- `RenderPatch` on one hunk of a strict set-mode diff (`E2ES.SHunk`: no context lines, at least
    one non-void value): the pointer of the path, or the refusal of the path -/
theorem renderPatchHunk_shunk {S : List Json} {K : List String} {h : Hunk} (H : SHunk S K [] h) :
    renderPatchHunk h =
      match writePointerPath h.path with
      | .ok s => .ok (remOpsOf s h.remove ++ addOpsOf s h.add)
      | .err => .err
      | .panic => .panic := by
  have hne : (h.remove.isEmpty && h.add.isEmpty) = false := by
    rcases H.some with hr | ⟨v, hv, _⟩
    · cases hrm : h.remove with
      | nil => exact absurd hrm hr
      | cons _ _ => rfl
    · cases hadd : h.add with
      | nil => rw [hadd] at hv; cases hv
      | cons _ _ => simp
  rw [renderPatchHunk_eq]
  unfold renderPatchHunk'
  cases hs : writePointerPath h.path with
  | err => rfl
  | panic => rfl
  | ok s =>
    simp only [Outcome.bind_ok, hne, Bool.false_eq_true, if_false, H.before, H.after,
      List.length_nil, gt_iff_lt, Nat.not_lt_zero, ctxOps]
    rfl

open Jd.E2ES in
/-- a hunk of a strict set-mode diff never renders to no operation -/
theorem shunk_ops_ne {S : List Json} {K : List String} {h : Hunk} (H : SHunk S K [] h) (s : String) :
    remOpsOf s h.remove ++ addOpsOf s h.add ≠ [] := by
  intro h0
  simp only [List.append_eq_nil_iff] at h0
  obtain ⟨h1, h2⟩ := h0
  cases hrem : h.remove with
  | cons r0 rs =>
    have hv : r0.isVoid = false := H.remNV r0 (by rw [hrem]; exact List.mem_cons_self)
    rw [hrem] at h1
    simp [remOpsOf, hv] at h1
  | nil =>
    rcases H.some with hr | ⟨v, hv, hvv⟩
    · exact hr hrem
    · cases hadd : h.add with
      | nil => rw [hadd] at hv; cases hv
      | cons a0 as =>
        have ha0 : a0.isVoid = false := by
          rcases H.addNV with hall | ⟨_, hlen⟩
          · exact hall a0 (by rw [hadd]; exact List.mem_cons_self)
          · rw [hadd] at hlen hv
            cases as with
            | nil => simp only [List.mem_singleton] at hv; rw [← hv]; exact hvv
            | cons _ _ => simp at hlen
        rw [hadd] at h2
        simp [addOpsOf, ha0] at h2

open Jd.E2ES in
/-- `RenderPatch` (operation level) on a diff all of whose hunks are `SHunk`s: an error exactly when
    some path is not expressible; otherwise a list of operations that is empty only for the empty
    diff, and whose values are hunk values -/
theorem renderPatchOps_shunks {S : List Json} {K : List String} :
    ∀ (d : Diff), (∀ h ∈ d, SHunk S K [] h) →
      ((∃ h ∈ d, ∃ e ∈ h.path, ¬ expressible e) ∧ renderPatchOps d = .err) ∨
      ((∀ h ∈ d, ∀ e ∈ h.path, expressible e) ∧
        ∃ ops, renderPatchOps d = .ok ops ∧ (ops = [] → d = []) ∧
          ∀ p ∈ ops, ∃ h ∈ d, p.value ∈ h.remove ++ h.add)
  | [], _ => .inr ⟨by simp, [], rfl, fun _ => rfl, by simp⟩
  | h :: d, H => by
    have Hh := H h List.mem_cons_self
    have ih := renderPatchOps_shunks d (fun h' hh' => H h' (List.mem_cons_of_mem _ hh'))
    rw [renderPatchOps, renderPatchHunk_shunk Hh]
    by_cases hex : ∀ e ∈ h.path, expressible e
    · obtain ⟨s, hs⟩ := writePointerPath_total h.path hex
      rw [hs]
      simp only [Outcome.bind_ok]
      rcases ih with ⟨⟨h', hh', e, he, hn⟩, herr⟩ | ⟨hall, ops, hops, hnil, hval⟩
      · exact .inl ⟨⟨h', List.mem_cons_of_mem _ hh', e, he, hn⟩, by rw [herr]; rfl⟩
      · refine .inr ⟨?_, remOpsOf s h.remove ++ addOpsOf s h.add ++ ops, by rw [hops]; rfl, ?_, ?_⟩
        · intro h' hh'
          rcases List.mem_cons.1 hh' with rfl | hh'
          · exact hex
          · exact hall h' hh'
        · intro h0
          rw [List.append_eq_nil_iff] at h0
          exact absurd h0.1 (shunk_ops_ne Hh s)
        · intro p hp
          rcases List.mem_append.1 hp with hp | hp
          · refine ⟨h, List.mem_cons_self, ?_⟩
            rcases List.mem_append.1 hp with hp | hp
            · unfold remOpsOf at hp
              split at hp
              · cases hp
              · split at hp
                · cases hp
                · simp only [List.mem_flatMap, List.mem_cons, List.not_mem_nil, or_false] at hp
                  obtain ⟨v, hv, rfl | rfl⟩ := hp
                  · exact List.mem_append_left _ hv
                  · exact List.mem_append_left _ hv
            · unfold addOpsOf at hp
              split at hp
              · cases hp
              · split at hp
                · cases hp
                · simp only [List.mem_map, List.mem_reverse] at hp
                  obtain ⟨v, hv, rfl⟩ := hp
                  exact List.mem_append_right _ hv
          · obtain ⟨h', hh', hv⟩ := hval p hp
            exact ⟨h', List.mem_cons_of_mem _ hh', hv⟩
    · have herr : writePointerPath h.path = .err := by
        rw [writePointerPath_err_iff]
        by_contra hc
        exact hex (fun e he => by
          by_contra hn
          exact hc ⟨e, he, hn⟩)
      rw [herr]
      refine .inl ⟨?_, rfl⟩
      have := (writePointerPath_err_iff h.path).1 herr
      obtain ⟨e, he, hn⟩ := this
      exact ⟨h, List.mem_cons_self, e, he, hn⟩

section PatchSetCli
variable {nc : NumCodec} {Y : YamlCarrier} {Ls : Bool → LibPack} {b : Binary} {fl : Flags} {e : Env}
  {a b' : Json}

theorem setOpts_strict_of_patch {fl : Flags} (hf : formatOf fl.f = some .patch) :
    isMerge (setOpts fl) = false := by
  have := not_merge_of_patch hf
  unfold setOpts
  rw [this]
  cases fl.set <;> cases fl.mset <;> rfl

/-- **`jd -f patch -set|-mset a b`: the exit status.**  In the situation `DiffRun` (a diff command
    line of a binary using the v2 library, both inputs read and parsed to `a`, `b'`), with `-set` /
    `-mset`, no `-setkeys`, no `-precision` (`SetFlags`), documents as read (`rawDoc`, `wf`, nothing
    void inside), `DES.DiffFaithful` (no FNV collision between members matched by the set diff: the
    hypothesis under which the shape of the set-mode diff is known, `E2ES.diffM_shunk`) and every
    sub-term printable by `json.Marshal` (`hmar`: only a number can fail):
      * exit 2 ⇔ some hunk of the diff has a path element that is NOT a JSON-Pointer-expressible
        key (`expressible`): the `{}` / `[]` of a set / multiset hunk, a number-like key, the key `-`;
      * exit 0 ⇔ the diff is empty;
      * exit 1 ⇔ the diff is not empty and every hunk path consists of expressible keys. -/
theorem patch_set_exit (R : DiffRun nc Y Ls b fl e a b') (S : SetFlags fl)
    (hf : formatOf fl.f = some .patch)
    (ha : a.rawDoc = true) (hwa : a.wf = true) (hb : b'.rawDoc = true) (hwb : b'.wf = true)
    (hva : E2E.voidFree a = true) (hvb : E2E.voidFree b' = true)
    (FH : DES.DiffFaithful (setOpts fl) (subterms a) (subterms b'))
    (hmar : ∀ z ∈ subterms a ++ subterms b', (marshalNode nc z).isSome = true) :
    ((proc Ls b fl e).exit = 2 ↔ ∃ h ∈ diffM (setOpts fl) a b', ∃ x ∈ h.path, ¬ expressible x) ∧
    ((proc Ls b fl e).exit = 0 ↔ diffM (setOpts fl) a b' = []) ∧
    ((proc Ls b fl e).exit = 1 ↔
      diffM (setOpts fl) a b' ≠ [] ∧ ∀ h ∈ diffM (setOpts fl) a b', ∀ x ∈ h.path, expressible x) := by
  have ho := parsedOptions_set b S
  obtain ⟨hm, hp⟩ := setOpts_reading S
  have hmg := setOpts_strict_of_patch hf
  have key := E2ES.diffM_shunk hm hp hmg a b' ha hwa hb hwb hva hvb FH
  rcases renderPatchOps_shunks (diffM (setOpts fl) a b') key with
    ⟨⟨h, hh, x, hx, hn⟩, herr⟩ | ⟨hall, ops, hops, hnil, hval⟩
  · have hne : diffM (setOpts fl) a b' ≠ [] := by
      intro h0; rw [h0] at hh; cases hh
    have hren : renderAs (nativeLib nc Y) .patch fl.color (diffM (setOpts fl) a b') = .error "error" := by
      show ofOutcomeText (renderPatchM nc (diffM (setOpts fl) a b')) = _
      unfold renderPatchM
      have : (diffM (setOpts fl) a b').isEmpty = false := by
        cases hd : diffM (setOpts fl) a b' with
        | nil => exact absurd hd hne
        | cons _ _ => rfl
      rw [this, herr]; rfl
    have hx2 := proc_exit_of_render_error R ho hf hren
    refine ⟨⟨fun _ => ⟨h, hh, x, hx, hn⟩, fun _ => hx2⟩, ⟨fun h0 => ?_, fun h0 => absurd h0 hne⟩,
      ⟨fun h1 => ?_, fun h1 => ?_⟩⟩
    · rw [hx2] at h0; cases h0
    · rw [hx2] at h1; cases h1
    · exact absurd (h1.2 h hh x hx) hn
  · have hmv : ∀ p ∈ ops, (marshalNode nc p.value).isSome = true := by
      intro p hp
      obtain ⟨h, hh, hv⟩ := hval p hp
      rcases (key h hh).pay p.value hv with hvoid | ⟨_, hS⟩
      · cases hpv : p.value <;> simp [hpv, Json.isVoid] at hvoid
        simp [marshalNode]
      · exact hmar _ hS
    obtain ⟨T, hT⟩ := renderPatch_ok_of_ops (nc := nc) Y hops hmv
    obtain ⟨e0, e1, e2⟩ := patch_exit R ho hf (fun h0 => hnil (by rw [hops] at h0; cases h0; rfl))
    refine ⟨⟨fun h2 => ?_, fun ⟨h, hh, x, hx, hn⟩ => absurd (hall h hh x hx) hn⟩, e0,
      ⟨fun h1 => ⟨(e1.1 h1).1, hall⟩, fun h1 => e1.2 ⟨h1.1, T, hT⟩⟩⟩
    obtain ⟨m, hm2⟩ := e2.1 h2
    rw [hT] at hm2; cases hm2

/-- **a set hunk means exit 2**: as soon as the set-mode diff holds a hunk whose path ends in the
    set element `{}` or the multiset element `[]` (members added to / removed from an array), `jd -f
    patch -set|-mset` exits 2 — there is nothing for `jd -p -f patch` to read -/
theorem patch_set_exit_two_of_set_hunk (R : DiffRun nc Y Ls b fl e a b') (S : SetFlags fl)
    (hf : formatOf fl.f = some .patch)
    (ha : a.rawDoc = true) (hwa : a.wf = true) (hb : b'.rawDoc = true) (hwb : b'.wf = true)
    (hva : E2E.voidFree a = true) (hvb : E2E.voidFree b' = true)
    (FH : DES.DiffFaithful (setOpts fl) (subterms a) (subterms b'))
    (hmar : ∀ z ∈ subterms a ++ subterms b', (marshalNode nc z).isSome = true)
    {h : Hunk} (hh : h ∈ diffM (setOpts fl) a b')
    (hset : PathElem.set ∈ h.path ∨ PathElem.mset ∈ h.path) :
    (proc Ls b fl e).exit = 2 := by
  refine (patch_set_exit R S hf ha hwa hb hwb hva hvb FH hmar).1.2 ?_
  rcases hset with hs | hs
  · exact ⟨h, hh, .set, hs, by simp [expressible]⟩
  · exact ⟨h, hh, .mset, hs, by simp [expressible]⟩

end PatchSetCli

/-! ## B. `-f merge` with `-set` / `-mset`: the RFC 7386 text of a set-mode merge diff, read back

  `RenderMerge` builds the merge patch DOCUMENT `M = mapply (rs o a b) void` (`MSet.renderMergeDoc_
  diffM_setmodes`) and prints `M.Json()`.  `Json()` goes through `raw()`, which turns the typed array
  nodes that the merge diff stores for replaced arrays into plain arrays — for a `jsonSet` node in
  HASH ORDER and WITHOUT DUPLICATES (`rawNorm`, `setRawOrder`).  `ReadMergeString` therefore reads
  the document `PD = rawNorm M`, and C12 (`Merge.merge_read_apply_partial`) makes `Patch` compute
  RFC 7386 `MergePatch(a, PD)` provided `PD` is `Clean` for `a`.  The induction `soundN` below
  establishes, for every pair of the domain with a non-empty diff: `PD` is printable (`JText.preOK`),
  clean for `a`, not `null`, and `MergePatch(a, PD)` is `b` for `Equals` and for `equivB` under the
  options (`MSet.Rel`).  The only mode-specific fact is `NormArr`: the array `raw()` makes of the
  typed node is the second array under the reading in force. -/

section MergeSet
open Jd.Merge Jd.MSet Jd.JText

/-- the merge patch document as `ReadMergeString` sees it -/
def PD (o : Opts) (a b : Json) : Json := rawNorm (mapply (rs o a b) .void)

theorem rawNorm_isVoid (v : Json) : (rawNorm v).isVoid = v.isVoid := by
  cases v with
  | arr t xs => cases t <;> simp [rawNorm, Json.isVoid]
  | _ => simp [rawNorm, Json.isVoid]

theorem alookup_rawNormKvs (k : String) :
    ∀ kvs : List (String × Json), alookup k (rawNormKvs kvs) = (alookup k kvs).map rawNorm
  | [] => by simp [rawNormKvs, alookup]
  | (k', v) :: r => by
    simp only [rawNormKvs, alookup]
    split
    · rfl
    · exact alookup_rawNormKvs k r

theorem rawNormKvs_isEmpty (kvs : List (String × Json)) : (rawNormKvs kvs).isEmpty = kvs.isEmpty := by
  cases kvs with
  | nil => rfl
  | cons kv r => obtain ⟨k, v⟩ := kv; simp [rawNormKvs]

theorem preOK_alookup (nc : NumCodec) {k : String} {v : Json} :
    ∀ {kvs : List (String × Json)}, alookup k kvs = some v → preOKKvs nc kvs = true →
      preOK nc v = true
  | [], h, _ => by simp [alookup] at h
  | (k', v') :: r, h, hd => by
    simp only [preOKKvs, Bool.and_eq_true] at hd
    simp only [alookup] at h
    split at h
    · cases h; exact hd.1
    · exact preOK_alookup nc h hd.2

theorem preOKKvs_of_mem (nc : NumCodec) : ∀ {kvs : List (String × Json)},
    (∀ k v, (k, v) ∈ kvs → preOK nc v = true) → preOKKvs nc kvs = true
  | [], _ => rfl
  | (k, v) :: r, h => by
    rw [preOKKvs, Bool.and_eq_true]
    exact ⟨h k v List.mem_cons_self,
      preOKKvs_of_mem nc (fun k' v' hm => h k' v' (List.mem_cons_of_mem _ hm))⟩

/-- equivalent documents have an empty pure merge diff (set modes) -/
theorem ds_nil_of_equivB (F : FloatEq0) {o : Opts}
    (hm : dispatchTag o = .set ∨ dispatchTag o = .mset) (hk : keysOf o = none) (hp : precOf o = 0)
    {S : List Json} (HF : HashFaithful o S) {a b : Json} (ha : DocOk a) (hb : DocOk b)
    (wa : SetDP.Within S a) (wb : SetDP.Within S b) (hv : objVoidFree b = true)
    (h : equivB o a b = true) : ds o a b = [] := by
  have h1 := diffNode_merge_nil_of_equivB F hm hk hp HF a b ha hb wa wb h []
  have h2 := diffNode_eq_ds F hm hk hp HF a b ha hb wa wb hv []
  rw [List.map_nil] at h2
  rw [h1] at h2
  exact List.map_eq_nil_iff.1 h2.symm

/-- the mode-specific fact: the plain array that `raw()` makes of the typed node stored by a
    wholesale array replacement is the second array under the reading in force -/
def NormArr (o : Opts) (S : List Json) : Prop :=
  ∀ ys : List Json, GoodS S (.arr .raw ys) →
    Rel o (rawNorm (.arr (dispatchTag o) ys)) (.arr .raw ys)

/-- what is proved of a pair with a non-empty diff -/
def SoundN (nc : NumCodec) (o : Opts) (a b : Json) : Prop :=
  ds o a b ≠ [] →
    preOK nc (PD o a b) = true ∧ cleanIn a (PD o a b) = true ∧ (PD o a b).isNull = false ∧
    Rel o (mergePatch a (PD o a b)) b

theorem PD_single {o : Opts} {a b x : Json} (h : ds o a b = [([], x)]) (hv : x.isVoid = false) :
    PD o a b = rawNorm x := by
  simp [PD, rs, h, nulE, hv, mapply, mset]

theorem soundN_wholesale (F : FloatEq0) (L : FloatLaws) (nc : NumCodec) {o : Opts}
    (hm : dispatchTag o = .set ∨ dispatchTag o = .mset) (hp : precOf o = 0)
    {S : List Json} (HF : HashFaithful o S) {a b : Json} (h : ds o a b = [([], b)])
    (hab : a.isObj = false ∨ b.isObj = false) (G : GoodS S b) (hpb : preOK nc b = true) :
    SoundN nc o a b := by
  intro _
  rw [PD_single h G.notVoid, Yaml.rawNorm_of_rawDoc b G.raw]
  refine ⟨hpb, ?_, G.notNull, ?_⟩
  · rcases hab with ha | hb
    · exact V1M.cleanIn_nonobj b a (by cases a <;> simp_all [Json.isObj, objKvs])
    · cases b <;> simp_all [Json.isObj, cleanIn]
  · have : mergePatch a b = b := by
      rcases hab with ha | hb
      · exact mergePatch_copy b G.wf G.nf a ha
      · cases b <;> simp_all [mergePatch, Json.isObj]
    rw [this]; exact G.refl F L hm hp HF

theorem soundN_scalar (F : FloatEq0) (L : FloatLaws) (nc : NumCodec) {o : Opts}
    (hm : dispatchTag o = .set ∨ dispatchTag o = .mset) (hp : precOf o = 0)
    {S : List Json} (HF : HashFaithful o S) {a b : Json} (h1 : a.isObj = false)
    (h2 : Merge.isArr a = false) (G : GoodS S b) (hpb : preOK nc b = true) : SoundN nc o a b := by
  have hd := ds_scalar o h1 h2 b
  cases he : equals [] a b with
  | true => rw [he, if_pos rfl] at hd; intro hne; exact absurd hd hne
  | false =>
    rw [he] at hd
    exact soundN_wholesale F L nc hm hp HF (by simpa using hd) (Or.inl h1) G hpb

/-- **the induction**: for documents of the domain with a non-empty merge diff, the merge patch
    document as read back from its RFC 7386 text is printable, clean for `a`, not `null`, and RFC 7386
    turns `a` into a document that is `b` for `Equals` and `equivB` under the options -/
theorem soundN (F : FloatEq0) (L : FloatLaws) (nc : NumCodec) {o : Opts}
    (hm : dispatchTag o = .set ∨ dispatchTag o = .mset) (hk : keysOf o = none) (hp : precOf o = 0)
    {S : List Json} (HF : HashFaithful o S) (NA : NormArr o S) :
    ∀ a, DocOk a → SetDP.Within S a → ∀ b, GoodS S b → preOK nc b = true → SoundN nc o a b := by
  intro a
  induction a using jsonInd with
  | void => intro _ _ b G hpb; exact soundN_scalar F L nc hm hp HF rfl rfl G hpb
  | null => intro _ _ b G hpb; exact soundN_scalar F L nc hm hp HF rfl rfl G hpb
  | bool x => intro _ _ b G hpb; exact soundN_scalar F L nc hm hp HF rfl rfl G hpb
  | num x => intro _ _ b G hpb; exact soundN_scalar F L nc hm hp HF rfl rfl G hpb
  | str x => intro _ _ b G hpb; exact soundN_scalar F L nc hm hp HF rfl rfl G hpb
  | arr t xs _ =>
    intro ha wa b G hpb
    have ht := ha.raw
    subst ht
    cases b with
    | arr t' ys =>
      have ht' := G.ok.raw
      subst ht'
      intro hd
      have hds := ds_arr_arr o .raw .raw xs ys
      have hds' : ds o (.arr .raw xs) (.arr .raw ys) = [([], .arr (dispatchTag o) ys)] := by
        rw [hds] at hd ⊢
        split
        · rename_i he; rw [if_pos he] at hd; exact absurd rfl hd
        · rfl
      rw [PD_single hds' rfl]
      have hw : ∃ zs, rawNorm (.arr (dispatchTag o) ys) = .arr .raw zs := by
        cases dispatchTag o <;> exact ⟨_, rfl⟩
      obtain ⟨zs, hzs⟩ := hw
      have hpre : preOK nc (rawNorm (.arr (dispatchTag o) ys)) = true :=
        preOK_rawNorm nc _ (by simpa [preOK] using hpb)
      have hrel := NA ys G
      rw [hzs] at hpre hrel ⊢
      exact ⟨hpre, rfl, rfl, by simpa [mergePatch] using hrel⟩
    | _ =>
      exact soundN_wholesale F L nc hm hp HF (ds_arr_other o _ xs rfl) (Or.inl rfl) G hpb
  | obj kvs ih =>
    intro ha wa b G hpb
    cases b with
    | obj kvs' =>
      intro hd
      have hs : keysSorted kvs = true := ha.sorted
      have hs' : keysSorted kvs' = true := G.ok.sorted
      have hvf : objVoidFreeKvs kvs' = true := by simpa [objVoidFree] using G.vf
      have hpk : preOKKvs nc kvs' = true := by
        simp only [preOK, Bool.and_eq_true] at hpb; exact hpb.2
      have hrl := rs_obj_obj o kvs kvs' hvf
      obtain ⟨acc', he, hsa, hl⟩ := mapply_groups (groupsS o kvs' kvs ++ groupsB kvs kvs') []
        (fun _ _ _ => by simp [alookup]) (groupsS_nodup o hs hs') rfl
      have hne : flatG (groupsS o kvs' kvs ++ groupsB kvs kvs') ≠ [] := by
        rw [← hrl]; simpa [rs] using hd
      have hM : mapply (rs o (.obj kvs) (.obj kvs')) .void = .obj acc' := by
        rw [hrl, mapply_flatG_nonobj _ (t := .void) rfl hne, he]
      have hP : PD o (.obj kvs) (.obj kvs') = .obj (rawNormKvs acc') := by
        rw [PD, hM]; rfl
      have hsn : keysSorted (rawNormKvs acc') = true := by rw [keysSorted_rawNormKvs]; exact hsa
      -- per key of the patch document as read back: what the entry is
      have entry : ∀ j w, alookup j (rawNormKvs acc') = some w →
          (∃ v, alookup j kvs = some v ∧ alookup j kvs' = none ∧ w = .null) ∨
          (∃ v', alookup j kvs = none ∧ alookup j kvs' = some v' ∧ w = v') ∨
          (∃ v v', alookup j kvs = some v ∧ alookup j kvs' = some v' ∧ ds o v v' ≠ [] ∧
            w = PD o v v') := by
        intro j w hj
        rw [alookup_rawNormKvs] at hj
        have hlj := hl j
        rw [groupsS_lookup] at hlj
        have hgv : getK j ([] : List (String × Json)) = .void := rfl
        cases hja : alookup j kvs with
        | some v =>
          rw [hja] at hlj
          simp only [grpS, hgv] at hlj
          cases hjb : alookup j kvs' with
          | some v' =>
            rw [hjb] at hlj
            simp only at hlj
            by_cases hdv : ds o v v' = []
            · have : rs o v v' = [] := by simp [rs, hdv]
              simp [this, mapply, toOpt, Json.isVoid] at hlj
              rw [hlj] at hj; cases hj
            · refine .inr (.inr ⟨v, v', rfl, rfl, hdv, ?_⟩)
              unfold toOpt at hlj
              split at hlj
              · rw [hlj] at hj; cases hj
              · rw [hlj] at hj
                simp only [Option.map_some, Option.some.injEq] at hj
                rw [← hj]; rfl
          | none =>
            rw [hjb] at hlj
            simp only [mapply, List.foldl_cons, List.foldl_nil, mset, toOpt, Json.isVoid,
              Bool.false_eq_true, if_false] at hlj
            rw [hlj] at hj
            simp only [Option.map_some, Option.some.injEq] at hj
            exact .inl ⟨v, rfl, rfl, by rw [← hj]; rfl⟩
        | none =>
          rw [hja] at hlj
          simp only at hlj
          cases hjb : alookup j kvs' with
          | none => rw [hjb] at hlj; simp [alookup] at hlj; rw [hlj] at hj; cases hj
          | some v' =>
            rw [hjb] at hlj
            have Gv := G.member hjb
            simp only [Option.map_some, mapply, List.foldl_cons, List.foldl_nil, mset, toOpt,
              Gv.notVoid, Bool.false_eq_true, if_false] at hlj
            rw [hlj] at hj
            simp only [Option.map_some, Option.some.injEq] at hj
            refine .inr (.inl ⟨v', rfl, rfl, ?_⟩)
            rw [← hj, Yaml.rawNorm_of_rawDoc v' Gv.raw]
      -- a key without an entry: absent on both sides, or present on both with an empty diff
      have noentry : ∀ j, alookup j (rawNormKvs acc') = none →
          (alookup j kvs = none ∧ alookup j kvs' = none) ∨
          (∃ v v', alookup j kvs = some v ∧ alookup j kvs' = some v' ∧ ds o v v' = []) := by
        intro j hj
        rw [alookup_rawNormKvs] at hj
        have hlj := hl j
        rw [groupsS_lookup] at hlj
        have hgv : getK j ([] : List (String × Json)) = .void := rfl
        cases hja : alookup j kvs with
        | some v =>
          rw [hja] at hlj
          simp only [grpS, hgv] at hlj
          cases hjb : alookup j kvs' with
          | some v' =>
            rw [hjb] at hlj
            simp only at hlj
            by_cases hdv : ds o v v' = []
            · exact .inr ⟨v, v', rfl, rfl, hdv⟩
            · have Sv := ih j v (mem_of_alookup hja) (ha.val (mem_of_alookup hja))
                (wa.val (mem_of_alookup hja)) v' (G.member hjb) (preOK_alookup nc hjb hpk) hdv
              have hnv : (mapply (rs o v v') .void).isVoid = false := by
                rw [← rawNorm_isVoid]; exact preOK_not_void Sv.1
              simp only [toOpt, hnv, Bool.false_eq_true, if_false] at hlj
              rw [hlj] at hj; cases hj
          | none =>
            rw [hjb] at hlj
            simp [mapply, mset, toOpt, Json.isVoid] at hlj
            rw [hlj] at hj; cases hj
        | none =>
          rw [hja] at hlj
          simp only at hlj
          cases hjb : alookup j kvs' with
          | none => exact .inl ⟨rfl, rfl⟩
          | some v' =>
            rw [hjb] at hlj
            have Gv := G.member hjb
            simp only [Option.map_some, mapply, List.foldl_cons, List.foldl_nil, mset, toOpt,
              Gv.notVoid, Bool.false_eq_true, if_false] at hlj
            rw [hlj] at hj; cases hj
      -- facts on the members of the patch document
      have mem : ∀ j w, alookup j (rawNormKvs acc') = some w →
          preOK nc w = true ∧ cleanIn (getK j kvs) w = true := by
        intro j w hj
        rcases entry j w hj with ⟨v, _, _, rfl⟩ | ⟨v', hja, hjb, rfl⟩ | ⟨v, v', hja, hjb, hdv, rfl⟩
        · exact ⟨rfl, rfl⟩
        · exact ⟨preOK_alookup nc hjb hpk,
            V1M.cleanIn_nonobj _ _ (by simp [getK, hja, objKvs])⟩
        · have Sv := ih j v (mem_of_alookup hja) (ha.val (mem_of_alookup hja))
            (wa.val (mem_of_alookup hja)) v' (G.member hjb) (preOK_alookup nc hjb hpk) hdv
          have hg : getK j kvs = v := by simp [getK, hja]
          rw [hg]; exact ⟨Sv.1, Sv.2.1⟩
      have mem' : ∀ k w, (k, w) ∈ rawNormKvs acc' → preOK nc w = true ∧ cleanIn (getK k kvs) w = true :=
        fun k w hmw => mem k w (alookup_of_mem hsn hmw)
      -- RFC 7386 on the document as read back, member by member, against `b`
      have key : Rel o (mergePatch (.obj kvs) (.obj (rawNormKvs acc'))) (.obj kvs') := by
        rw [mergePatch_obj]
        refine rel_obj_of_lookups o (keysSorted_mergeMembers _ _ hs) hs' (fun j => ?_)
        rw [alookup_mergeMembers j (rawNormKvs acc') (objKvs (.obj kvs)) hsn hs]
        simp only [objKvs]
        cases hj : alookup j (rawNormKvs acc') with
        | none =>
          simp only
          rcases noentry j hj with ⟨h1, h2⟩ | ⟨v, v', hja, hjb, hdv⟩
          · rw [h1, h2]; trivial
          · rw [hja, hjb]
            have Sv := MSet.sound F L hm hp HF v (ha.val (mem_of_alookup hja))
              (wa.val (mem_of_alookup hja)) v' (G.member hjb)
            exact Sv.1 hdv
        | some w =>
          simp only
          rcases entry j w hj with ⟨v, hja, hjb, rfl⟩ | ⟨v', hja, hjb, rfl⟩ | ⟨v, v', hja, hjb, hdv, rfl⟩
          · rw [hjb]; simp [Json.isNull, RelOptS]
          · have Gv := G.member hjb
            rw [hjb]
            simp only [Gv.notNull, Bool.false_eq_true, if_false, getK, hja, Option.getD_none]
            rw [mergePatch_copy w Gv.wf Gv.nf .void rfl]
            exact Gv.refl F L hm hp HF
          · have Sv := ih j v (mem_of_alookup hja) (ha.val (mem_of_alookup hja))
              (wa.val (mem_of_alookup hja)) v' (G.member hjb) (preOK_alookup nc hjb hpk) hdv
            rw [hjb]
            simp only [Sv.2.2.1, Bool.false_eq_true, if_false, getK, hja, Option.getD_some]
            exact Sv.2.2.2
      -- the patch document is not `{}`
      have hnil : acc' ≠ [] := by
        intro h0
        subst h0
        have : mergePatch (.obj kvs) (.obj (rawNormKvs [])) = .obj kvs := by
          simp [rawNormKvs, mergePatch, mergeMembers]
        rw [this] at key
        exact hd (ds_nil_of_equivB F hm hk hp HF ha G.ok wa G.wi G.vf key.2)
      rw [hP]
      refine ⟨?_, ?_, rfl, key⟩
      · simp only [preOK, Bool.and_eq_true]
        exact ⟨hsn, preOKKvs_of_mem nc (fun k w hmw => (mem' k w hmw).1)⟩
      · rw [cleanIn]
        have : (rawNormKvs acc').isEmpty = false := by
          rw [rawNormKvs_isEmpty]
          cases hacc : acc' with
          | nil => exact absurd hacc hnil
          | cons _ _ => rfl
        rw [this]
        simp only [Bool.false_eq_true, if_false, objKvs]
        exact (cleanKvs_iff kvs hsn).2 (fun k w hkw => (mem k w hkw).2)
    | _ =>
      exact soundN_wholesale F L nc hm hp HF (ds_obj_other o kvs rfl) (Or.inr rfl) G hpb

/-! ### `NormArr`: what `raw()` makes of the typed node of a replaced array -/

theorem rawNormList_of_rawDoc {ys : List Json} (h : rawDocList ys = true) : rawNormList ys = ys := by
  have := Yaml.rawNorm_of_rawDoc (.arr .raw ys) (by simpa [Json.rawDoc] using h)
  simpa [rawNorm] using this

/-- MULTISET reading: `jsonMultiset.raw()` keeps the members in stored order: the array read back
    IS the second array -/
theorem normArr_mset (F : FloatEq0) (L : FloatLaws) {o : Opts} (hd : dispatchTag o = .mset)
    (hp : precOf o = 0) {S : List Json} (HF : HashFaithful o S) : NormArr o S := by
  intro ys G
  have hry : rawDocList ys = true := by
    have := G.raw; simp only [Json.rawDoc, Bool.and_eq_true] at this; exact this.2
  rw [hd]
  simp only [rawNorm, rawNormList_of_rawDoc hry]
  exact G.refl F L (.inr hd) hp HF

theorem hashList_mem {o : Opts} {z : Json} : ∀ {l : List Json}, z ∈ l → hashCode o z ∈ hashList o l
  | x :: l, hm => by
    rw [DPL.hashList_cons]
    rcases List.mem_cons.1 hm with rfl | hm
    · exact List.mem_cons_self
    · exact List.mem_cons_of_mem _ (hashList_mem hm)

theorem hashList_mem_inv {o : Opts} {c : UInt64} : ∀ {l : List Json}, c ∈ hashList o l →
    ∃ z ∈ l, hashCode o z = c
  | [], hm => by simp [hashList] at hm
  | x :: l, hm => by
    rw [DPL.hashList_cons] at hm
    rcases List.mem_cons.1 hm with e | hm
    · exact ⟨x, List.mem_cons_self, e.symm⟩
    · obtain ⟨z, hz, e⟩ := hashList_mem_inv hm
      exact ⟨z, List.mem_cons_of_mem _ hz, e⟩

theorem lastByHash_key (o : Opts) (h : UInt64) : ∀ (ys : List Json) (v : Json),
    lastByHash h (hashList o ys) ys = some v → hashCode o v = h
  | [], _, e => by simp [hashList, lastByHash] at e
  | y :: ys, v, e => by
    rw [DPL.hashList_cons] at e
    simp only [lastByHash] at e
    split at e
    · next y' hy => cases e; exact lastByHash_key o h ys _ hy
    · split at e
      · next hk => cases e; simpa using hk
      · cases e

theorem lastByHash_some (o : Opts) (h : UInt64) : ∀ (ys : List Json), h ∈ hashList o ys →
    ∃ v, lastByHash h (hashList o ys) ys = some v
  | [], hm => by simp [hashList] at hm
  | y :: ys, hm => by
    rw [DPL.hashList_cons] at hm ⊢
    simp only [lastByHash]
    cases hl : lastByHash h (hashList o ys) ys with
    | some v => exact ⟨v, rfl⟩
    | none =>
      rcases List.mem_cons.1 hm with e | hm'
      · exact ⟨y, by simp [e]⟩
      · obtain ⟨v, hv⟩ := lastByHash_some o h ys hm'
        rw [hv] at hl; cases hl

theorem mem_setRawOrder (o : Opts) (ys : List Json) (z : Json) :
    z ∈ setRawOrder (hashList o ys) ys ↔
      ∃ h ∈ hashList o ys, lastByHash h (hashList o ys) ys = some z := by
  simp only [setRawOrder, List.mem_filterMap]
  constructor
  · rintro ⟨h, hh, e⟩
    exact ⟨h, (mem_hdedup h _).1 ((hsort_perm _).mem_iff.1 hh), e⟩
  · rintro ⟨h, hh, e⟩
    exact ⟨h, (hsort_perm _).mem_iff.2 ((mem_hdedup h _).2 hh), e⟩

/-- SET reading: `jsonSet.raw()` emits the distinct members in hash order; as a SET that is the
    second array, for `Equals` (same set of member hash codes) and for `equivB` (`HashFaithful`) -/
theorem normArr_set {o : Opts} (hd : dispatchTag o = .set) {S : List Json}
    (HF : HashFaithful o S) : NormArr o S := by
  intro ys G
  have hry : rawDocList ys = true := by
    have := G.raw; simp only [Json.rawDoc, Bool.and_eq_true] at this; exact this.2
  have hh : hashList [Opt.set] ys = hashList o ys :=
    SetDP.hashList_optcongr (by rw [hd]; rfl) ys
  rw [hd]
  simp only [rawNorm, rawNormList_of_rawDoc hry, hh]
  have inS : ∀ z ∈ ys, z ∈ S := fun z hz =>
    G.wi z (subterms_elem_sub hz (mem_subterms_self z))
  have sub : ∀ z ∈ setRawOrder (hashList o ys) ys, z ∈ ys := by
    intro z hz
    obtain ⟨h, _, e⟩ := (mem_setRawOrder o ys z).1 hz
    exact JText.lastByHash_mem h _ _ _ e
  have hmem : ∀ c, c ∈ hashList o (setRawOrder (hashList o ys) ys) ↔ c ∈ hashList o ys := by
    intro c
    constructor
    · intro hc
      obtain ⟨z, hz', e⟩ := hashList_mem_inv hc
      rw [← e]; exact hashList_mem (sub z hz')
    · intro hc
      obtain ⟨v, hv⟩ := lastByHash_some o c ys hc
      have hk := lastByHash_key o c ys v hv
      have : v ∈ setRawOrder (hashList o ys) ys := (mem_setRawOrder o ys v).2 ⟨c, hc, hv⟩
      rw [← hk]; exact hashList_mem this
  constructor
  · rw [equals_arr_raw_set hd]
    simp only [hashCode, effTag, hd, hcombine, hsort_hdedup_ext hmem, beq_self_eq_true]
  · rw [equivB]
    simp only [hd, Bool.and_eq_true, allIn_iff, allCovered_iff]
    constructor
    · intro z hz
      have hzy := sub z hz
      exact ⟨z, hzy, HF z (inS z hzy) z (inS z hzy) rfl⟩
    · intro y hy
      obtain ⟨v, hv⟩ := lastByHash_some o (hashCode o y) ys (hashList_mem hy)
      have hk := lastByHash_key o _ ys v hv
      have hvz : v ∈ setRawOrder (hashList o ys) ys :=
        (mem_setRawOrder o ys v).2 ⟨_, hashList_mem hy, hv⟩
      exact ⟨v, hvz, HF v (inS v (sub v hvz)) y (inS y hy) hk⟩

theorem normArr (F : FloatEq0) (L : FloatLaws) {o : Opts}
    (hm : dispatchTag o = .set ∨ dispatchTag o = .mset) (hp : precOf o = 0) {S : List Json}
    (HF : HashFaithful o S) : NormArr o S := by
  rcases hm with hd | hd
  · exact normArr_set hd HF
  · exact normArr_mset F L hd hp HF

theorem equivB_empty_obj_left {o : Opts} {b : Json} (h : equivB o (.obj []) b = true) :
    b = .obj [] := by
  cases b with
  | obj kvs =>
    cases kvs with
    | nil => rfl
    | cons _ _ => simp [equivB] at h
  | _ => simp [equivB] at h

/-- **LIBRARY-LEVEL round trip, RFC 7386 format, SET / MULTISET reading** (`mergeSet_lib_round_trip`):
    `a.Diff(b, SET|MULTISET, MERGE).RenderMerge()` returns a text, `ReadMergeString` reads it,
    `a.Patch` of the diff read succeeds, and the result is `b` under the reading in force, for the
    library's `Equals` and for the advertised equivalence `equivB`. -/
theorem mergeSet_lib_round_trip (F : FloatEq0) (L : FloatLaws) (nc : NumCodec) (o : Opts)
    (hmg : isMerge o = true) (hm : dispatchTag o = .set ∨ dispatchTag o = .mset)
    (hk : keysOf o = none) (hp : precOf o = 0) (a b : Json)
    (ha : a.setDoc = true) (hb : b.setDoc = true) (hbn : b.nullFree = true)
    (hbv : Yaml.voidFree b = true) (hbN : JText.NumOK nc b = true)
    (HF : HashFaithful o (subterms a ++ subterms b))
    (hab : a.isObj = true ∨ b ≠ .obj []) :
    ∃ text d' r, renderMergeM nc (diffM o a b) = .ok (some text) ∧
      readMergeM nc text = .ok d' ∧ patchM a d' = .ok r ∧
      equals o r b = true ∧ equivB o r b = true := by
  have hov := V1T.objVoidFree_of_voidFree b hbv
  have G : GoodS (subterms a ++ subterms b) b := goodS_of_setDoc hb hbn hov
  have hpb : preOK nc b = true := by rw [preOK_iff, G.wf, hbv, hbN]; rfl
  have hrd := renderMergeDoc_diffM_setmodes F o hmg hm hk hp a b ha hb hov HF
  have da := docOk_of_setDoc ha
  have wa : SetDP.Within (subterms a ++ subterms b) a := fun z hz => List.mem_append.2 (Or.inl hz)
  have Sd := MSet.sound F L hm hp HF a da wa b G
  have haw : a.wf = true := by
    have := ha; simp only [Json.setDoc, Bool.and_eq_true] at this; exact this.1.1.2
  by_cases hd : ds o a b = []
  · rw [if_pos hd] at hrd
    obtain ⟨s, h1, h2⟩ := JText.readMergeM_renderMergeM nc _ _ hrd (Or.inr rfl)
    exact ⟨s, _, a, h1, h2, rfl, (Sd.1 hd).1, (Sd.1 hd).2⟩
  · rw [if_neg hd] at hrd
    obtain ⟨hpre, hcl, hnn, hrel⟩ := soundN F L nc hm hk hp HF (normArr F L hm hp HF) a da wa b G hpb hd
    have hMv : (mapply (rs o a b) .void).isVoid = false := by
      rw [← rawNorm_isVoid]; exact preOK_not_void hpre
    obtain ⟨s, hs⟩ := jsonText_some nc _ hpre
    have hj : jsonM nc (mapply (rs o a b) .void) = some s := by
      rw [jsonM_eq nc _ hMv]; exact hs
    have hread : readJsonM nc s = .ok (PD o a b) := by
      have := readJsonM_text nc _ s hpre (Yaml.rawDoc_rawNorm _) hs [] [] rfl rfl
      simpa [String.ofList_toList] using this
    have hpi := hpre
    rw [preOK_iff, Bool.and_eq_true, Bool.and_eq_true] at hpi
    have hclean : Clean a (PD o a b) = true := by
      generalize PD o a b = p at hcl hnn hrel
      cases p with
      | null => simp [Json.isNull] at hnn
      | obj pkvs =>
        cases pkvs with
        | nil =>
          simp only [Clean]
          rcases hab with h | h
          · exact h
          · cases a with
            | obj kvs => rfl
            | _ =>
              have : b = .obj [] :=
                equivB_empty_obj_left (by simpa [mergePatch, mergeMembers] using hrel.2)
              exact absurd this h
        | cons kv r => simpa [Clean] using hcl
      | _ => simpa [Clean] using hcl
    refine ⟨s, readMergeDoc (PD o a b), mergePatch a (PD o a b), ?_, ?_, ?_, hrel.1, hrel.2⟩
    · simp only [renderMergeM, hrd, hj]
    · simp only [readMergeM, hread]
    · exact merge_read_apply_partial a _ haw hpi.1.1 (V1T.objVoidFree_of_voidFree _ hpi.1.2) hclean

end MergeSet

/-! ### the CLI theorem -/

section MergeSetCli
open Jd.CliRTM

theorem setOpts_merge_facts {fl : Flags} (S : SetFlags fl) (hf : fl.f = "merge") :
    isMerge (setOpts fl) = true ∧
    (dispatchTag (setOpts fl) = .set ∨ dispatchTag (setOpts fl) = .mset) ∧
    keysOf (setOpts fl) = none ∧ precOf (setOpts fl) = 0 := by
  unfold setOpts
  rw [hf]
  rcases S.some with h | h
  · rw [h]; cases fl.mset <;> simp [isMerge, dispatchTag, keysOf, precOf]
  · rw [h]; cases fl.set <;> simp [isMerge, dispatchTag, keysOf, precOf]

/-- **END TO END, `-f merge` (RFC 7386) with `-set` / `-mset`, v2 library**
    (`mergeSet_cli_round_trip`): `jd -f merge -set|-mset [-yaml] [-color] [-o F] a b` followed by
    `jd -p -f merge [same flags] [-o G] T a`.  TOTAL: the first process is proved not to fail. -/
theorem mergeSet_cli_round_trip (F : FloatEq0) (L : FloatLaws) (nc : NumCodec)
    (Y : YamlCarrier) (Ls : Bool → LibPack) (hL : Ls false = ⟨Json, Diff, nativeLib nc Y⟩)
    (b : Binary) {fl fl2 : Flags} {e1 e2 : Env}
    (hm : isDiffMode fl) (h : PatchTwin fl fl2) (hv2 : libIsV1 b fl = false)
    (hf : fl.f = "merge") (S : SetFlags fl) (hn : fl.nargs = 1 ∨ fl.nargs = 2)
    {ta tb : String} {a b' : Json}
    (hi1 : e1.in1 = .ok ta) (hi2 : e1.in2 = .ok tb) (hw1 : fl.o = "" ∨ e1.write = .ok ())
    (hra : (nativeLib nc Y).readDoc fl.yaml ta = .ok a)
    (hrb : (nativeLib nc Y).readDoc fl.yaml tb = .ok b')
    (ha : a.setDoc = true) (hb : b'.setDoc = true) (hbn : b'.nullFree = true)
    (hbv : Yaml.voidFree b' = true) (hbN : JText.NumOK nc b' = true)
    (HF : HashFaithful (setOpts fl) (subterms a ++ subterms b'))
    (hab : mergeRTDom a b' = true)
    (hT : e2.in1 = .ok (emitted (proc Ls b fl e1)))
    (ha2 : e2.in2 = e1.in1) (hw : fl2.o = "" ∨ e2.write = .ok ()) :
    ∃ T d' r,
      parsedOptions b fl = .ok (setOpts fl) ∧
      renderMergeM nc (diffM (setOpts fl) a b') = .ok (some T) ∧
      readMergeM nc T = .ok d' ∧ patchM a d' = .ok r ∧
      equals (setOpts fl) r b' = true ∧ equivB (setOpts fl) r b' = true ∧
      TwoRuns (proc Ls b fl e1) (proc Ls b fl2 e2) fl fl2 T
        (if (diffM (setOpts fl) a b').length > 0 then 1 else 0)
        ((nativeLib nc Y).renderDoc fl.yaml (setOpts fl) r) := by
  have ho := parsedOptions_set b S
  have hfmt : formatOf fl.f = some .merge := by rw [hf]; rfl
  obtain ⟨m1, m2, m3, m4⟩ := setOpts_merge_facts S hf
  obtain ⟨text, d', r, g1, g2, g3, g4, g5⟩ := mergeSet_lib_round_trip F L nc (setOpts fl) m1 m2 m3 m4
    a b' ha hb hbn hbv hbN HF ((mergeRTDom_iff a b').1 hab)
  refine ⟨text, d', r, ho, g1, g2, g3, g4, g5, ?_⟩
  exact native_total_cli_round_trip nc Y Ls hL b hm h hv2 ho hn hfmt hi1 hi2 hw1 hra hrb
    (renderAs_merge_ok nc Y _ _ g1) (readDiff_merge_ok nc Y g2) g3 hT ha2 hw

/-- `LibRoundTrip` form (the hypothesis of `CliRT.cli_round_trip`) -/
theorem libRoundTrip_mergeSet (F : FloatEq0) (L : FloatLaws) (nc : NumCodec) (Y : YamlCarrier)
    (color : Bool) (o : Opts) (hmg : isMerge o = true)
    (hm : dispatchTag o = .set ∨ dispatchTag o = .mset) (hk : keysOf o = none) (hp : precOf o = 0)
    (a b : Json) (ha : a.setDoc = true) (hb : b.setDoc = true) (hbn : b.nullFree = true)
    (hbv : Yaml.voidFree b = true) (hbN : JText.NumOK nc b = true)
    (HF : HashFaithful o (subterms a ++ subterms b)) (hab : mergeRTDom a b = true) :
    LibRoundTrip (nativeLib nc Y) .merge color o a b
      (fun r => equals o r b = true ∧ equivB o r b = true) := by
  obtain ⟨text, d', r, g1, g2, g3, g4, g5⟩ := mergeSet_lib_round_trip F L nc o hmg hm hk hp a b ha hb
    hbn hbv hbN HF ((mergeRTDom_iff a b).1 hab)
  intro T hT
  rw [nativeLib_diff, renderAs_merge_ok nc Y color _ g1] at hT
  cases hT
  exact ⟨d', r, readDiff_merge_ok nc Y g2, by rw [nativeLib_patch, g3]; rfl, g4, g5⟩

end MergeSetCli

/-! ## C. non-vacuity and a witness -/

namespace Example
open Jd.NativeRT Jd.CliRT.NativeExample Jd.CliExit.Example Jd.CliRTM

/-- `jd -f patch -set a.json b.json` with `["x"]` and `[]` -/
def flPS : Flags := { set := true, f := "patch", nargs := 2 }
def tpA : String := "[\"x\"]"
def tpB : String := "[]"
def pA : Json := .arr .raw [.str "x"]
def pB : Json := .arr .raw []

theorem read_pA : readJsonM exCodec tpA = .ok pA := by
  simp [tpA, pA, readJsonM, trimGoSpace, parseJson, parseValue, skipWs, isJsonWs,
    parseElems, parseMembers, lexString, ainsert]
theorem read_pB : readJsonM exCodec tpB = .ok pB := by
  simp [tpB, pB, readJsonM, trimGoSpace, parseJson, parseValue, skipWs, isJsonWs,
    parseElems, parseMembers, lexString, ainsert]

theorem setOpts_flPS : setOpts flPS = [Opt.set, Opt.prec 0] := by decide

theorem ex_diff : diffM [Opt.set, Opt.prec 0] pA pB =
    [{ path := [.set], remove := [.str "x"], add := [] }] := by
  unfold diffM pA pB
  rw [show isMerge [Opt.set, Opt.prec 0] = false from rfl,
    SetDP.diffNode_set_set (o := [Opt.set, Opt.prec 0]) rfl]
  simp [diffSetElems, identLookup, ksort, kinsert, SetDP.setAdd, hsort, hdedup, SetDP.subOf,
    SetDP.remOf]

/-- **the `-f patch -set` theorem applies and gives exit 2**: `["x"]` against `[]` — every
    hypothesis of `patch_set_exit` holds (checked), the diff is one set hunk at `[{}]`, the process
    exits 2 -/
theorem ex_patch_set_exit_two :
    (proc NativeExample.Ls .v2jd flPS { in1 := .ok tpA, in2 := .ok tpB }).exit = 2 := by
  have R : DiffRun exCodec noYaml NativeExample.Ls .v2jd flPS { in1 := .ok tpA, in2 := .ok tpB }
      pA pB := mkRun ⟨rfl, rfl, rfl, rfl, rfl⟩ rfl rfl rfl read_pA read_pB
  have FH : DES.DiffFaithful (setOpts flPS) (subterms pA) (subterms pB) := by
    rw [setOpts_flPS]; exact DES.diffFaithful_of_check (by decide +kernel)
  refine patch_set_exit_two_of_set_hunk R ⟨.inl rfl, rfl, rfl⟩ (by decide) (by decide) (by decide)
    (by decide) (by decide) (by decide) (by decide) FH ?_
    (h := { path := [.set], remove := [.str "x"], add := [] }) ?_ (.inl (by simp))
  · intro z hz
    simp only [pA, pB, subterms, subtermsList, List.cons_append, List.nil_append, List.mem_cons,
      List.not_mem_nil, or_false] at hz
    rcases hz with rfl | rfl | rfl <;> simp [marshalNode, marshalList, jsonText]
  · rw [setOpts_flPS, ex_diff]; exact List.mem_cons_self

/-- **the `-f merge -set` / `-mset` library theorem applies**: `{"s":["x","y"],"u":"x","v":["x"]}` →
    `{"s":["y","x"],"t":[true],"v":["x","z"]}` (`MSet.Example.exA`, `exB`: `s` is unchanged as a set
    and as a bag, `v` is replaced wholesale, `t` added, `u` deleted), codec `exCodec` -/
theorem ex_merge_set (F : FloatEq0) (L : FloatLaws) :
    ∃ text d' r, renderMergeM exCodec (diffM [.set, .merge] MSet.Example.exA MSet.Example.exB)
        = .ok (some text) ∧
      readMergeM exCodec text = .ok d' ∧ patchM MSet.Example.exA d' = .ok r ∧
      equals [.set, .merge] r MSet.Example.exB = true ∧
      equivB [.set, .merge] r MSet.Example.exB = true :=
  mergeSet_lib_round_trip F L exCodec [.set, .merge] rfl (.inl rfl) rfl rfl _ _
    MSet.Example.ex_docs.1 MSet.Example.ex_docs.2.1 MSet.Example.ex_docs.2.2.1 (by decide)
    (by decide) MSet.Example.ex_hashFaithful_set (.inl rfl)

theorem ex_merge_mset (F : FloatEq0) (L : FloatLaws) :
    ∃ text d' r, renderMergeM exCodec (diffM [.mset, .merge] MSet.Example.exA MSet.Example.exB)
        = .ok (some text) ∧
      readMergeM exCodec text = .ok d' ∧ patchM MSet.Example.exA d' = .ok r ∧
      equals [.mset, .merge] r MSet.Example.exB = true ∧
      equivB [.mset, .merge] r MSet.Example.exB = true :=
  mergeSet_lib_round_trip F L exCodec [.mset, .merge] rfl (.inr rfl) rfl rfl _ _
    MSet.Example.ex_docs.1 MSet.Example.ex_docs.2.1 MSet.Example.ex_docs.2.2.1 (by decide)
    (by decide) MSet.Example.ex_hashFaithful_mset (.inl rfl)

/-- **`mergeRTDom` is needed in the set readings too** (known finding KF-C12-emptyobj): `null`
    against `{}` under `[SET, MERGE]`: the documents differ, the diff renders to the text of `{}`,
    which `ReadMergeString` reads as the EMPTY diff; `Patch` returns `null`. -/
theorem mergeSet_emptyobj_no_libRoundTrip (nc : NumCodec) (Y : YamlCarrier) (color : Bool) :
    mergeRTDom .null (.obj []) = false ∧
    ¬ LibRoundTrip (nativeLib nc Y) .merge color [Opt.set, Opt.merge, Opt.prec 0] .null (.obj [])
        (fun r => equals [Opt.set, Opt.merge, Opt.prec 0] r (.obj []) = true) := by
  refine ⟨rfl, ?_⟩
  have hrd : renderMergeDoc (diffM [Opt.set, Opt.merge, Opt.prec 0] .null (.obj [])) = .ok (.obj []) := by
    unfold diffM
    rw [diffNode.eq_def]
    simp [isMerge, diffCommon, equals, Json.isNull, renderMergeDoc, Json.isVoid, patchAll,
      patchNode.eq_def, patchFresh, Path.isLeaf, Json.singleValue]
  obtain ⟨s, h1, h2⟩ := JText.readMergeM_renderMergeM nc _ _ hrd (Or.inr rfl)
  have h3 : readMergeM nc s = .ok [] := h2
  intro H
  obtain ⟨d', r, g1, g2, g3⟩ := H s (by rw [nativeLib_diff]; exact renderAs_merge_ok nc Y color _ h1)
  rw [readDiff_merge_ok nc Y h3] at g1
  cases g1
  have : (nativeLib nc Y).patch .null [] = .ok .null := rfl
  rw [this] at g2
  cases g2
  simp [equals, Json.isNull] at g3

end Example

end Jd.CliRTMS
