/-
  JdProofs.NodeHeapProofs — the imperative model of Go VALUES (`JdModel/NodeHeap.lean`: a heap of maps and
  slice backing arrays, nodes that refer to them, in-place writes, `cloneNode` / `cloneNodes`): the
  library's deep copy is a deep copy, and that is what makes "values" a sound abstraction of what `Patch`
  and `RenderMerge` do with the payloads of a diff.

  Notions.
  * `InB h n` — `n` has no dangling reference in `h`, at any depth (Go has none). Decidable sufficient
    condition: `closedHeap h = true` and `n.below h.length = true` (`InB_of_closed`). NEEDED for the clone
    theorems: `Witness.dangling_needed`.
  * `Agree h h'` — `h'` holds at every address of `h` what `h` holds there (the frame condition).
  * `deref_congr` / `reach_congr` — reading a node depends only on the content of the addresses `reach`
    lists (same fuel): the one lemma everything else rests on.

  Main theorems (hypotheses: `InB h n`, `cloneNode f h n = some (h', n')`).
  (a) `clone_same_value`      `deref h' g n' = deref h g n` for EVERY fuel g.
  (b) `clone_fresh`           every `a ∈ reach h' g n'` has `h.length ≤ a < h'.length` (allocated by the clone);
      `clone_disjoint`        hence not reachable from any old node, in the old or in the new heap;
      `cloneNode_root_fresh`, `cloneNode_closed` (the new objects refer only to each other).
  (c) `clone_frame`           `h'[b]? = h[b]?` for every `b < h.length`; `clone_is_allocs`.
  (d) `edits_below_clone_invisible` / `edits_below_clone_keep_values`: after the clone, ANY list of effects
      (`mapSet`, `mapDel`, `cellSet`, allocations) whose targets are reachable from the clone leaves
      `deref · g x` unchanged for every old node `x` (`InB h x`) and every fuel;
      `writes_to_new_addresses_invisible` (general form: targets at or above the old heap's size);
      `owner_edits_invisible` (dynamic form: the executable discipline `okWrites` — targets reachable from
      the clone AT THE TIME of the write, stored nodes immutable or allocated after the watermark — for
      arbitrarily long edits, including hanging further copies into the clone and editing those);
      `edits_below_cloned_adds_invisible` (the `patchAll` shape: `cloneNodes(de.Add)`);
      `writes_off_reach_invisible` (separation: effects whose targets are not reachable from `x` leave `x` alone
      — for `Patch`, which edits its receiver in place).
      `arrSet_is_write`, `goAppend_in_place`, `goAppend_realloc`: the slice-level operations are such effects.
  *   `cloneNode_total`       the clone succeeds with the fuel with which the original denotes a value.
  Witnesses (`Witness.*`, closed terms, `rfl` / `decide`): `shallow_write_changes_original` (a shallow copy
  denotes the same value, reaches an old address, and a write below it changes the original: D29 /
  C03-clonenode-shallow-slices-clone), `emptyShared_write_changes_original` (C15-clonenode-empty-object-shared),
  `deep_*` (the real clone on the same inputs), `dangling_needed`, `append_in_place_is_shared`,
  `editProg_ok` / `okWrites_rejects` (the discipline is satisfiable and not trivial).

  The source: `cloneNode_asIs`, `asIs_iff_immutable`, `cloneNode_keeps_type`, `cloneNode_slice_full`;
  `source_container_cases_return_copies`, `source_clone_fills_new_containers` (REGENERATED table
  `Gen.pathSites`); `modelCloneCases_eq_source`, `cases_follow_representation_except_null` (tables
  TRANSCRIBED BY HAND — the generated table does not carry them; see REPORT.md for the facts to emit).
-/
import JdModel.NodeHeap
import JdModel.Gen.PathSites

namespace Jd.NodeHeap
open Jd

/-! ## small facts -/

theorem optAll_map_congr {α β} {g g' : α → Option β} {xs : List α} (hg : ∀ x ∈ xs, g x = g' x) :
    optAll (xs.map g) = optAll (xs.map g') := by
  rw [List.map_congr_left hg]

theorem flatMap_congr' {α β} {g g' : α → List β} : ∀ {xs : List α}, (∀ x ∈ xs, g x = g' x) →
    xs.flatMap g = xs.flatMap g'
  | [], _ => rfl
  | x :: r, hg => by
    simp only [List.flatMap_cons]
    rw [hg x List.mem_cons_self, flatMap_congr' (fun y hy => hg y (List.mem_cons_of_mem _ hy))]

theorem optAll_some_mem {α} : ∀ {l : List (Option α)} {js : List α}, optAll l = some js →
    ∀ o ∈ l, ∃ j, o = some j
  | [], _, _, o, ho => by cases ho
  | none :: r, js, h, _, _ => by simp [optAll] at h
  | some a :: r, js, h, o, ho => by
    simp only [optAll] at h
    cases hr : optAll r with
    | none => rw [hr] at h; cases h
    | some l =>
      cases ho with
      | head => exact ⟨a, rfl⟩
      | tail _ ho' => exact optAll_some_mem hr o ho'

theorem visible_length {cells : List HNode} {off len : Nat} {xs : List HNode}
    (h : visible cells off len = some xs) : xs.length = len := by
  unfold visible at h
  split at h
  · cases h; simp; omega
  · cases h

theorem visible_mem {cells : List HNode} {off len : Nat} {xs : List HNode}
    (h : visible cells off len = some xs) : ∀ x ∈ xs, x ∈ cells := by
  unfold visible at h
  split at h
  · cases h; intro x hx; exact List.mem_of_mem_drop (List.mem_of_mem_take hx)
  · cases h

theorem visible_self (vs : List HNode) : visible vs 0 vs.length = some vs := by
  simp [visible]

/-! ## reading depends on the reachable addresses only -/

theorem reach_succ (h : Heap) (f : Nat) (n : HNode) :
    reach h (f+1) n =
      match n with
      | .objRef a =>
        a :: (match h[a]? with
          | some (.map kvs) => (kvs.map (·.2)).flatMap (reach h f)
          | _ => [])
      | .arrRef _ a off len _ =>
        a :: (match h[a]? with
          | some (.arr cells) =>
            match visible cells off len with
            | some xs => xs.flatMap (reach h f)
            | none => []
          | _ => [])
      | _ => [] := by
  rfl

theorem deref_succ (h : Heap) (f : Nat) (n : HNode) :
    deref h (f+1) n =
      match n with
      | .void => some .void
      | .null => some .null
      | .bool b => some (.bool b)
      | .num x => some (.num x)
      | .str s => some (.str s)
      | .objRef a =>
        match h[a]? with
        | some (.map kvs) =>
          (optAll ((kvs.map (·.2)).map (deref h f))).map (fun js => Json.obj ((kvs.map (·.1)).zip js))
        | _ => none
      | .arrRef t a off len _ =>
        match h[a]? with
        | some (.arr cells) =>
          match visible cells off len with
          | some xs => (optAll (xs.map (deref h f))).map (Json.arr t)
          | none => none
        | _ => none := by
  rfl

/-- the nodes below a node are reached with one unit of fuel less -/
theorem reach_kid {h : Heap} {f : Nat} {n : HNode} {xs : List HNode} (hk : kids h n = some xs) :
    ∀ x ∈ xs, ∀ a ∈ reach h f x, a ∈ reach h (f+1) n := by
  intro x hx a ha
  rw [reach_succ]
  cases n with
  | objRef b =>
    simp only [kids] at hk
    split at hk
    · rename_i kvs heq
      cases hk
      simp only [heq]
      exact List.mem_cons_of_mem _ (List.mem_flatMap.2 ⟨x, hx, ha⟩)
    · cases hk
  | arrRef t b off len cap =>
    simp only [kids] at hk
    split at hk
    · rename_i cells heq
      simp only [heq, hk]
      exact List.mem_cons_of_mem _ (List.mem_flatMap.2 ⟨x, hx, ha⟩)
    · cases hk
  | _ => simp only [kids] at hk; cases hk; cases hx

theorem deref_congr {h h' : Heap} : ∀ (f : Nat) (n : HNode),
    (∀ a ∈ reach h f n, h'[a]? = h[a]?) → deref h' f n = deref h f n := by
  intro f
  induction f with
  | zero => intro n _; rfl
  | succ f ih =>
    intro n hr
    rw [deref_succ, deref_succ]
    cases n with
    | objRef b =>
      have hb : h'[b]? = h[b]? := hr b (by rw [reach_succ]; exact List.mem_cons_self)
      simp only [hb]
      split
      · rename_i kvs heq
        have : optAll ((kvs.map (·.2)).map (deref h' f)) = optAll ((kvs.map (·.2)).map (deref h f)) :=
          optAll_map_congr (fun x hx => ih x (fun a ha => hr a
            (reach_kid (n := .objRef b) (by simp [kids, heq]) x hx a ha)))
        rw [this]
      · rfl
    | arrRef t b off len cap =>
      have hb : h'[b]? = h[b]? := hr b (by rw [reach_succ]; exact List.mem_cons_self)
      simp only [hb]
      split
      · rename_i cells heq
        split
        · rename_i xs hv
          have : optAll (xs.map (deref h' f)) = optAll (xs.map (deref h f)) :=
            optAll_map_congr (fun x hx => ih x (fun a ha => hr a
              (reach_kid (n := .arrRef t b off len cap) (by simp [kids, heq, hv]) x hx a ha)))
          rw [this]
        · rfl
      · rfl
    | _ => rfl

theorem reach_congr {h h' : Heap} : ∀ (f : Nat) (n : HNode),
    (∀ a ∈ reach h f n, h'[a]? = h[a]?) → reach h' f n = reach h f n := by
  intro f
  induction f with
  | zero => intro n _; rfl
  | succ f ih =>
    intro n hr
    rw [reach_succ, reach_succ]
    cases n with
    | objRef b =>
      have hb : h'[b]? = h[b]? := hr b (by rw [reach_succ]; exact List.mem_cons_self)
      simp only [hb]
      split
      · rename_i kvs heq
        congr 1
        exact flatMap_congr' (fun x hx => ih x (fun a ha => hr a
            (reach_kid (n := .objRef b) (by simp [kids, heq]) x hx a ha)))
      · rfl
    | arrRef t b off len cap =>
      have hb : h'[b]? = h[b]? := hr b (by rw [reach_succ]; exact List.mem_cons_self)
      simp only [hb]
      split
      · rename_i cells heq
        split
        · rename_i xs hv
          congr 1
          exact flatMap_congr' (fun x hx => ih x (fun a ha => hr a
              (reach_kid (n := .arrRef t b off len cap) (by simp [kids, heq, hv]) x hx a ha)))
        · rfl
      · rfl
    | _ => rfl


/-! ## no dangling references; heaps that agree on the old addresses -/

/-- `n` has no dangling reference in `h`, at any depth: every address it can touch is allocated -/
def InB (h : Heap) (n : HNode) : Prop := ∀ g, ∀ a ∈ reach h g n, a < h.length

/-- `h'` holds, at every address of `h`, what `h` holds there (FRAME: nothing old was written) -/
def Agree (h h' : Heap) : Prop := ∀ b, b < h.length → h'[b]? = h[b]?

theorem Agree.refl (h : Heap) : Agree h h := fun _ _ => rfl

theorem Agree.len {h h' : Heap} (ag : Agree h h') : h.length ≤ h'.length := by
  cases hl : h.length with
  | zero => omega
  | succ k =>
    have e := ag k (by omega)
    rw [List.getElem?_eq_getElem (show k < h.length by omega)] at e
    have := (List.getElem?_eq_some_iff.1 e).1
    omega

theorem Agree.trans {h h' h'' : Heap} (a1 : Agree h h') (a2 : Agree h' h'') : Agree h h'' :=
  fun b hb => by rw [a2 b (by have := a1.len; omega), a1 b hb]

theorem agree_append (h e : Heap) : Agree h (h ++ e) :=
  fun _ hb => List.getElem?_append_left hb

theorem deref_agree {h h' : Heap} {x : HNode} (ag : Agree h h') (ib : InB h x) (f : Nat) :
    deref h' f x = deref h f x :=
  deref_congr f x (fun a ha => ag a (ib f a ha))

theorem reach_agree {h h' : Heap} {x : HNode} (ag : Agree h h') (ib : InB h x) (f : Nat) :
    reach h' f x = reach h f x :=
  reach_congr f x (fun a ha => ag a (ib f a ha))

theorem InB.agree {h h' : Heap} {x : HNode} (ag : Agree h h') (ib : InB h x) : InB h' x := by
  intro g a ha
  rw [reach_agree ag ib g] at ha
  have := ib g a ha
  have := ag.len
  omega

theorem InB.kid {h : Heap} {n : HNode} {xs : List HNode} (ib : InB h n) (hk : kids h n = some xs) :
    ∀ x ∈ xs, InB h x :=
  fun x hx g a ha => ib (g+1) a (reach_kid hk x hx a ha)

/-! ## writes that do not target an old address leave the old addresses alone -/

theorem Write.run_get {h : Heap} {w : Write} {b : Nat} (hb : ∀ a, w.target = some a → a ≠ b)
    (hlt : b < h.length) : (w.run h)[b]? = h[b]? := by
  cases w with
  | mapSet a k v =>
    have : a ≠ b := hb a rfl
    simp only [Write.run, NodeHeap.mapSet]
    split
    · exact List.getElem?_set_ne this
    · rfl
  | mapDel a k =>
    have : a ≠ b := hb a rfl
    simp only [Write.run, NodeHeap.mapDel]
    split
    · exact List.getElem?_set_ne this
    · rfl
  | cellSet a i v =>
    have : a ≠ b := hb a rfl
    simp only [Write.run, NodeHeap.cellSet]
    split
    · exact List.getElem?_set_ne this
    · rfl
  | alloc o =>
    simp only [Write.run, NodeHeap.alloc]
    exact List.getElem?_append_left hlt

theorem Write.run_agree {h h' : Heap} {w : Write} (ag : Agree h h')
    (hw : ∀ a, w.target = some a → h.length ≤ a) : Agree h (w.run h') := by
  intro b hb
  rw [Write.run_get (fun a ha => by have := hw a ha; omega) (by have := ag.len; omega)]
  exact ag b hb

theorem runWrites_agree {h : Heap} : ∀ (ws : List Write) {h' : Heap}, Agree h h' →
    (∀ w ∈ ws, ∀ a, w.target = some a → h.length ≤ a) → Agree h (runWrites h' ws)
  | [], _, ag, _ => ag
  | w :: r, h', ag, hw => by
    simp only [runWrites, List.foldl_cons]
    exact runWrites_agree r (Write.run_agree ag (hw w List.mem_cons_self))
      (fun w' hw' => hw w' (List.mem_cons_of_mem _ hw'))


/-! ## `cloneNode`: same value, new addresses only, old addresses untouched -/

theorem zip_map_fst {α β} : ∀ (ks : List α) (vs : List β), ks.length = vs.length → (ks.zip vs).map (·.1) = ks
  | [], [], _ => rfl
  | [], _ :: _, h => by cases h
  | _ :: _, [], h => by cases h
  | k :: ks, v :: vs, h => by
    simp only [List.zip_cons_cons, List.map_cons]
    rw [zip_map_fst ks vs (by simpa using h)]

theorem zip_map_snd {α β} : ∀ (ks : List α) (vs : List β), ks.length = vs.length → (ks.zip vs).map (·.2) = vs
  | [], [], _ => rfl
  | [], _ :: _, h => by cases h
  | _ :: _, [], h => by cases h
  | k :: ks, v :: vs, h => by
    simp only [List.zip_cons_cons, List.map_cons]
    rw [zip_map_snd ks vs (by simpa using h)]

theorem reach_succ_arr (h : Heap) (g : Nat) (t : Tag) (a off len cap : Nat) :
    reach h (g+1) (.arrRef t a off len cap) =
      a :: (match kids h (.arrRef t a off len cap) with
        | some xs => xs.flatMap (reach h g)
        | none => []) := by
  rw [reach_succ]
  simp only [kids]
  cases h[a]? with
  | none => rfl
  | some o => cases o <;> rfl

theorem reach_succ_obj (h : Heap) (g : Nat) (a : Nat) :
    reach h (g+1) (.objRef a) =
      a :: (match kids h (.objRef a) with
        | some xs => xs.flatMap (reach h g)
        | none => []) := by
  rw [reach_succ]
  simp only [kids]
  cases h[a]? with
  | none => rfl
  | some o => cases o <;> rfl

theorem deref_succ_arr (h : Heap) (g : Nat) (t : Tag) (a off len cap : Nat) :
    deref h (g+1) (.arrRef t a off len cap) =
      match kids h (.arrRef t a off len cap) with
      | some xs => (optAll (xs.map (deref h g))).map (Json.arr t)
      | none => none := by
  rw [deref_succ]
  simp only [kids]
  cases h[a]? with
  | none => rfl
  | some o =>
    cases o with
    | map _ => rfl
    | arr cells => rfl

theorem kids_arr_length {h : Heap} {t : Tag} {a off len cap : Nat} {xs : List HNode}
    (hk : kids h (.arrRef t a off len cap) = some xs) : xs.length = len := by
  simp only [kids] at hk
  split at hk
  · exact visible_length hk
  · cases hk

theorem cloneNode_succ (f : Nat) (h : Heap) (n : HNode) :
    cloneNode (f+1) h n =
      match n with
      | .objRef a =>
        match h[a]? with
        | some (.map kvs) =>
          match cloneList (cloneNode f) h (kvs.map (·.2)) with
          | some (h1, vs) => some (h1 ++ [.map ((kvs.map (·.1)).zip vs)], .objRef h1.length)
          | none => none
        | _ => none
      | .arrRef t a off len cap =>
        match kids h (.arrRef t a off len cap) with
        | some xs =>
          match cloneList (cloneNode f) h xs with
          | some (h1, vs) => some (h1 ++ [.arr vs], .arrRef t h1.length 0 len len)
          | none => none
        | none => none
      | s => some (h, s) := by
  cases n <;> rfl

/-- what a successful clone of one node guarantees -/
structure CloneOK (h : Heap) (n : HNode) (h' : Heap) (n' : HNode) : Prop where
  /-- FRAME: the heap only grew -/
  ext : ∃ e, h' = h ++ e
  /-- FRESHNESS: every address the clone can touch was allocated by the clone -/
  fresh : ∀ g, ∀ a ∈ reach h' g n', h.length ≤ a ∧ a < h'.length
  /-- SAME VALUE, at every fuel -/
  val : ∀ g, deref h' g n' = deref h g n

structure CloneListOK (h : Heap) (xs : List HNode) (h' : Heap) (xs' : List HNode) : Prop where
  ext : ∃ e, h' = h ++ e
  len : xs'.length = xs.length
  fresh : ∀ x' ∈ xs', ∀ g, ∀ a ∈ reach h' g x', h.length ≤ a ∧ a < h'.length
  val : ∀ g, xs'.map (deref h' g) = xs.map (deref h g)

theorem CloneOK.agree {h n h' n'} (ok : CloneOK h n h' n') : Agree h h' := by
  obtain ⟨e, rfl⟩ := ok.ext; exact agree_append h e

theorem CloneOK.inb {h n h' n'} (ok : CloneOK h n h' n') : InB h' n' :=
  fun g a ha => (ok.fresh g a ha).2

theorem CloneListOK.agree {h xs h' xs'} (ok : CloneListOK h xs h' xs') : Agree h h' := by
  obtain ⟨e, rfl⟩ := ok.ext; exact agree_append h e

theorem CloneListOK.inb {h xs h' xs'} (ok : CloneListOK h xs h' xs') : ∀ x' ∈ xs', InB h' x' :=
  fun x' hx g a ha => (ok.fresh x' hx g a ha).2

theorem cloneList_ok (cl : Heap → HNode → Option (Heap × HNode))
    (hcl : ∀ h x h' x', InB h x → cl h x = some (h', x') → CloneOK h x h' x') :
    ∀ (xs : List HNode) (h h' : Heap) (xs' : List HNode), (∀ x ∈ xs, InB h x) →
      cloneList cl h xs = some (h', xs') → CloneListOK h xs h' xs'
  | [], h, h', xs', _, hc => by
    simp only [cloneList] at hc
    cases hc
    exact ⟨⟨[], by simp⟩, rfl, fun _ hx => (by cases hx), fun _ => rfl⟩
  | x :: r, h, h', xs', hib, hc => by
    simp only [cloneList] at hc
    cases h1 : cl h x with
    | none => rw [h1] at hc; cases hc
    | some p1 =>
      obtain ⟨hp, x1⟩ := p1
      rw [h1] at hc
      simp only [] at hc
      cases h2 : cloneList cl hp r with
      | none => rw [h2] at hc; cases hc
      | some p2 =>
        obtain ⟨hq, r1⟩ := p2
        rw [h2] at hc
        simp only [Option.some.injEq, Prod.mk.injEq] at hc
        obtain ⟨rfl, rfl⟩ := hc
        have ok1 := hcl h x hp x1 (hib x List.mem_cons_self) h1
        have ag1 := ok1.agree
        have ibr : ∀ y ∈ r, InB hp y := fun y hy => (hib y (List.mem_cons_of_mem _ hy)).agree ag1
        have ok2 := cloneList_ok cl hcl r hp hq r1 ibr h2
        have ag2 := ok2.agree
        have l1 := ag1.len
        have l2 := ag2.len
        refine ⟨?_, ?_, ?_, ?_⟩
        · obtain ⟨e1, rfl⟩ := ok1.ext
          obtain ⟨e2, rfl⟩ := ok2.ext
          exact ⟨e1 ++ e2, by simp⟩
        · simp [ok2.len]
        · intro x' hx' g a ha
          cases hx' with
          | head =>
            rw [reach_agree ag2 ok1.inb g] at ha
            have := ok1.fresh g a ha
            omega
          | tail _ hx'' =>
            have := ok2.fresh x' hx'' g a ha
            omega
        · intro g
          simp only [List.map_cons]
          rw [deref_agree ag2 ok1.inb g, ok1.val g, ok2.val g]
          congr 1
          exact List.map_congr_left (fun y hy => deref_agree ag1 (hib y (List.mem_cons_of_mem _ hy)) g)

theorem cloneNode_ok : ∀ (f : Nat) (h : Heap) (n : HNode) (h' : Heap) (n' : HNode), InB h n →
    cloneNode f h n = some (h', n') → CloneOK h n h' n' := by
  intro f
  induction f with
  | zero => intro h n h' n' _ hc; cases hc
  | succ f ih =>
    intro h n h' n' ib hc
    rw [cloneNode_succ] at hc
    cases n with
    | objRef a =>
      simp only [] at hc
      split at hc
      · rename_i kvs heq
        have hk : kids h (.objRef a) = some (kvs.map (·.2)) := by simp [kids, heq]
        split at hc
        · rename_i h1 vs hcl
          simp only [Option.some.injEq, Prod.mk.injEq] at hc
          obtain ⟨rfl, rfl⟩ := hc
          have lst := cloneList_ok (cloneNode f) ih (kvs.map (·.2)) h h1 vs (ib.kid hk) hcl
          have hlen : (kvs.map (·.1)).length = vs.length := by simp [lst.len]
          have ag' : Agree h1 (h1 ++ [Obj.map ((kvs.map (·.1)).zip vs)]) := agree_append _ _
          have hget : (h1 ++ [Obj.map ((kvs.map (·.1)).zip vs)])[h1.length]? =
              some (Obj.map ((kvs.map (·.1)).zip vs)) := by simp
          have hk' : kids (h1 ++ [Obj.map ((kvs.map (·.1)).zip vs)]) (.objRef h1.length) = some vs := by
            simp only [kids, hget, zip_map_snd _ _ hlen]
          have l1 := lst.agree.len
          refine ⟨?_, ?_, ?_⟩
          · obtain ⟨e, rfl⟩ := lst.ext
            exact ⟨e ++ [Obj.map ((kvs.map (·.1)).zip vs)], by simp⟩
          · intro g a ha
            cases g with
            | zero => cases ha
            | succ g =>
              rw [reach_succ_obj, hk'] at ha
              simp only [List.length_append, List.length_cons, List.length_nil]
              cases ha with
              | head => omega
              | tail _ ha' =>
                obtain ⟨v, hv, hav⟩ := List.mem_flatMap.1 ha'
                rw [reach_agree ag' (lst.inb v hv) g] at hav
                have := lst.fresh v hv g a hav
                omega
          · intro g
            cases g with
            | zero => rfl
            | succ g =>
              rw [deref_succ, deref_succ]
              simp only [hget, heq, zip_map_snd _ _ hlen, zip_map_fst _ _ hlen]
              rw [← lst.val g]
              rw [List.map_congr_left (fun v hv => deref_agree ag' (lst.inb v hv) g)]
        · cases hc
      · cases hc
    | arrRef t a off len cap =>
      simp only [] at hc
      split at hc
      · rename_i xs hk
        split at hc
        · rename_i h1 vs hcl
          simp only [Option.some.injEq, Prod.mk.injEq] at hc
          obtain ⟨rfl, rfl⟩ := hc
          have lst := cloneList_ok (cloneNode f) ih xs h h1 vs (ib.kid hk) hcl
          have hlen : vs.length = len := by rw [lst.len]; exact kids_arr_length hk
          have ag' : Agree h1 (h1 ++ [Obj.arr vs]) := agree_append _ _
          have hget : (h1 ++ [Obj.arr vs])[h1.length]? = some (Obj.arr vs) := by simp
          have hk' : kids (h1 ++ [Obj.arr vs]) (.arrRef t h1.length 0 len len) = some vs := by
            simp only [kids, hget]
            rw [← hlen]; exact visible_self vs
          have l1 := lst.agree.len
          refine ⟨?_, ?_, ?_⟩
          · obtain ⟨e, rfl⟩ := lst.ext
            exact ⟨e ++ [Obj.arr vs], by simp⟩
          · intro g a ha
            cases g with
            | zero => cases ha
            | succ g =>
              rw [reach_succ_arr, hk'] at ha
              simp only [List.length_append, List.length_cons, List.length_nil]
              cases ha with
              | head => omega
              | tail _ ha' =>
                obtain ⟨v, hv, hav⟩ := List.mem_flatMap.1 ha'
                rw [reach_agree ag' (lst.inb v hv) g] at hav
                have := lst.fresh v hv g a hav
                omega
          · intro g
            cases g with
            | zero => rfl
            | succ g =>
              rw [deref_succ_arr, deref_succ_arr, hk', hk]
              simp only []
              rw [← lst.val g]
              rw [List.map_congr_left (fun v hv => deref_agree ag' (lst.inb v hv) g)]
        · cases hc
      · cases hc
    | void => cases hc; exact ⟨⟨[], by simp⟩, fun g a ha => (by cases g <;> cases ha), fun _ => rfl⟩
    | null => cases hc; exact ⟨⟨[], by simp⟩, fun g a ha => (by cases g <;> cases ha), fun _ => rfl⟩
    | bool b => cases hc; exact ⟨⟨[], by simp⟩, fun g a ha => (by cases g <;> cases ha), fun _ => rfl⟩
    | num x => cases hc; exact ⟨⟨[], by simp⟩, fun g a ha => (by cases g <;> cases ha), fun _ => rfl⟩
    | str s => cases hc; exact ⟨⟨[], by simp⟩, fun g a ha => (by cases g <;> cases ha), fun _ => rfl⟩


/-! ## the clone succeeds whenever the original denotes a value (with the same fuel) -/

theorem cloneList_total (f : Nat)
    (ih : ∀ h n j, InB h n → deref h f n = some j → ∃ h' n', cloneNode f h n = some (h', n')) :
    ∀ (xs : List HNode) (h : Heap), (∀ x ∈ xs, InB h x) → (∀ x ∈ xs, ∃ j, deref h f x = some j) →
      ∃ h' xs', cloneList (cloneNode f) h xs = some (h', xs')
  | [], h, _, _ => ⟨h, [], rfl⟩
  | x :: r, h, hib, hd => by
    obtain ⟨j, hj⟩ := hd x List.mem_cons_self
    obtain ⟨h1, x1, e1⟩ := ih h x j (hib x List.mem_cons_self) hj
    have ok1 := cloneNode_ok f h x h1 x1 (hib x List.mem_cons_self) e1
    have ag1 := ok1.agree
    obtain ⟨h2, r1, e2⟩ := cloneList_total f ih r h1
      (fun y hy => (hib y (List.mem_cons_of_mem _ hy)).agree ag1)
      (fun y hy => by
        obtain ⟨jy, hjy⟩ := hd y (List.mem_cons_of_mem _ hy)
        exact ⟨jy, by rw [deref_agree ag1 (hib y (List.mem_cons_of_mem _ hy)) f]; exact hjy⟩)
    exact ⟨h2, x1 :: r1, by simp only [cloneList, e1, e2]⟩

theorem cloneNode_total : ∀ (f : Nat) (h : Heap) (n : HNode) (j : Json), InB h n →
    deref h f n = some j → ∃ h' n', cloneNode f h n = some (h', n') := by
  intro f
  induction f with
  | zero => intro h n j _ hd; cases hd
  | succ f ih =>
    intro h n j ib hd
    rw [cloneNode_succ]
    cases n with
    | objRef a =>
      rw [deref_succ] at hd
      simp only [] at hd ⊢
      split at hd
      · rename_i kvs heq
        have hk : kids h (.objRef a) = some (kvs.map (·.2)) := by simp [kids, heq]
        cases ho : optAll ((kvs.map (·.2)).map (deref h f)) with
        | none => rw [ho] at hd; cases hd
        | some js =>
          obtain ⟨h1, vs, e⟩ := cloneList_total f ih (kvs.map (·.2)) h (ib.kid hk)
            (fun x hx => optAll_some_mem ho _ (List.mem_map_of_mem hx))
          simp only [e]
          exact ⟨_, _, rfl⟩
      · cases hd
    | arrRef t a off len cap =>
      rw [deref_succ_arr] at hd
      simp only [] at hd ⊢
      split at hd
      · rename_i xs hk
        cases ho : optAll (xs.map (deref h f)) with
        | none => rw [ho] at hd; cases hd
        | some js =>
          obtain ⟨h1, vs, e⟩ := cloneList_total f ih xs h (ib.kid hk)
            (fun x hx => optAll_some_mem ho _ (List.mem_map_of_mem hx))
          simp only [e]
          exact ⟨_, _, rfl⟩
      · cases hd
    | void => exact ⟨_, _, rfl⟩
    | null => exact ⟨_, _, rfl⟩
    | bool b => exact ⟨_, _, rfl⟩
    | num x => exact ⟨_, _, rfl⟩
    | str s => exact ⟨_, _, rfl⟩

/-! ## a decidable sufficient condition for "no dangling reference": a closed heap -/

/-- the node refers to nothing, or to an address below `w` -/
def HNode.below (w : Nat) (n : HNode) : Bool :=
  match n.addr? with
  | none => true
  | some a => decide (a < w)

/-- no object of the heap holds a dangling reference -/
def closedHeap (h : Heap) : Bool := h.all (fun o => o.nodes.all (fun m => m.below h.length))

theorem kids_sub_nodes {h : Heap} {n : HNode} {xs : List HNode} (hk : kids h n = some xs) :
    xs = [] ∨ ∃ a o, n.addr? = some a ∧ h[a]? = some o ∧ ∀ x ∈ xs, x ∈ o.nodes := by
  cases n with
  | objRef a =>
    simp only [kids] at hk
    split at hk
    · rename_i kvs heq
      cases hk
      exact Or.inr ⟨a, _, rfl, heq, fun _ hx => hx⟩
    · cases hk
  | arrRef t a off len cap =>
    simp only [kids] at hk
    split at hk
    · rename_i cells heq
      exact Or.inr ⟨a, _, rfl, heq, visible_mem hk⟩
    · cases hk
  | _ => simp only [kids] at hk; cases hk; exact Or.inl rfl

theorem reach_succ_kids (h : Heap) (g : Nat) (n : HNode) :
    reach h (g+1) n =
      match n.addr? with
      | some a => a :: (match kids h n with
        | some xs => xs.flatMap (reach h g)
        | none => [])
      | none => [] := by
  cases n with
  | objRef a => exact reach_succ_obj h g a
  | arrRef t a off len cap => exact reach_succ_arr h g t a off len cap
  | _ => rfl

/-- in a closed heap a node whose own reference is allocated has no dangling reference at any depth -/
theorem InB_of_closed {h : Heap} (hc : closedHeap h = true) : ∀ {n : HNode}, n.below h.length = true → InB h n := by
  intro n hn g
  induction g generalizing n with
  | zero => intro a ha; cases ha
  | succ g ih =>
    intro a ha
    rw [reach_succ_kids] at ha
    cases hadr : n.addr? with
    | none => rw [hadr] at ha; cases ha
    | some b =>
      rw [hadr] at ha
      simp only [HNode.below, hadr, decide_eq_true_eq] at hn
      cases ha with
      | head => exact hn
      | tail _ ha' =>
        cases hk : kids h n with
        | none => rw [hk] at ha'; cases ha'
        | some xs =>
          rw [hk] at ha'
          obtain ⟨x, hx, hax⟩ := List.mem_flatMap.1 ha'
          rcases kids_sub_nodes hk with rfl | ⟨b', o, _, ho, hsub⟩
          · cases hx
          · have hmem : o ∈ h := List.mem_of_getElem? ho
            have := List.all_eq_true.1 hc o hmem
            have := List.all_eq_true.1 this x (hsub x hx)
            exact ih this a hax


/-! ## the main theorems -/

/-- (a) the clone denotes the same value as the original, at every fuel -/
theorem clone_same_value {f : Nat} {h h' : Heap} {n n' : HNode} (ib : InB h n)
    (hc : cloneNode f h n = some (h', n')) (g : Nat) : deref h' g n' = deref h g n :=
  (cloneNode_ok f h n h' n' ib hc).val g

/-- (b) every address reachable from the clone is new -/
theorem clone_fresh {f : Nat} {h h' : Heap} {n n' : HNode} (ib : InB h n)
    (hc : cloneNode f h n = some (h', n')) (g : Nat) : ∀ a ∈ reach h' g n', h.length ≤ a ∧ a < h'.length :=
  (cloneNode_ok f h n h' n' ib hc).fresh g

/-- (b') hence the clone shares no address with any node that existed before, whether that node is
    looked at in the old heap or in the new one -/
theorem clone_disjoint {f : Nat} {h h' : Heap} {n n' : HNode} (ib : InB h n)
    (hc : cloneNode f h n = some (h', n')) {x : HNode} (ibx : InB h x) (g g' : Nat) :
    ∀ a ∈ reach h' g n', a ∉ reach h g' x ∧ a ∉ reach h' g' x := by
  intro a ha
  have ok := cloneNode_ok f h n h' n' ib hc
  have hge := (ok.fresh g a ha).1
  refine ⟨fun hx => ?_, fun hx => ?_⟩
  · have := ibx g' a hx; omega
  · rw [reach_agree ok.agree ibx g'] at hx
    have := ibx g' a hx; omega

/-- (c) FRAME: the clone changes no old address -/
theorem clone_frame {f : Nat} {h h' : Heap} {n n' : HNode} (ib : InB h n)
    (hc : cloneNode f h n = some (h', n')) : ∀ b, b < h.length → h'[b]? = h[b]? :=
  (cloneNode_ok f h n h' n' ib hc).agree

/-- the clone is nothing but a sequence of allocations -/
theorem runWrites_allocs (h : Heap) : ∀ (e : List Obj), runWrites h (e.map Write.alloc) = h ++ e
  | [] => by simp [runWrites]
  | o :: r => by
    have := runWrites_allocs (h ++ [o]) r
    simp only [runWrites, List.map_cons, List.foldl_cons, Write.run, alloc] at this ⊢
    rw [this]; simp

theorem clone_is_allocs {f : Nat} {h h' : Heap} {n n' : HNode} (ib : InB h n)
    (hc : cloneNode f h n = some (h', n')) : ∃ e : List Obj, h' = runWrites h (e.map Write.alloc) := by
  obtain ⟨e, he⟩ := (cloneNode_ok f h n h' n' ib hc).ext
  exact ⟨e, by rw [runWrites_allocs]; exact he⟩

/-- general frame theorem: effects that target no address of `h` (writes into objects allocated later,
    and allocations) cannot change the value of a node of `h` -/
theorem writes_to_new_addresses_invisible {h h1 : Heap} (ag : Agree h h1) (ws : List Write)
    (hw : ∀ w ∈ ws, ∀ a, w.target = some a → h.length ≤ a) {x : HNode} (ibx : InB h x) (g : Nat) :
    deref (runWrites h1 ws) g x = deref h g x :=
  deref_agree (runWrites_agree ws ag hw) ibx g

/-- (d) editing the copy cannot change anything that existed before: after `cloneNode`, ANY sequence of
    in-place writes into objects reachable from the clone (and allocations) leaves the value of every
    old node as it was -/
theorem edits_below_clone_invisible {f : Nat} {h h1 : Heap} {n n1 : HNode} (ib : InB h n)
    (hc : cloneNode f h n = some (h1, n1)) (ws : List Write)
    (hw : ∀ w ∈ ws, ∀ a, w.target = some a → ∃ g, a ∈ reach h1 g n1)
    {x : HNode} (ibx : InB h x) (g : Nat) :
    deref (runWrites h1 ws) g x = deref h g x := by
  have ok := cloneNode_ok f h n h1 n1 ib hc
  exact writes_to_new_addresses_invisible ok.agree ws
    (fun w hwm a ha => by obtain ⟨g', hg'⟩ := hw w hwm a ha; exact (ok.fresh g' a hg').1) ibx g

/-- the same with the "denotes a value" reading: what an old node denoted, it still denotes -/
theorem edits_below_clone_keep_values {f : Nat} {h h1 : Heap} {n n1 : HNode} (ib : InB h n)
    (hc : cloneNode f h n = some (h1, n1)) (ws : List Write)
    (hw : ∀ w ∈ ws, ∀ a, w.target = some a → ∃ g, a ∈ reach h1 g n1)
    {x : HNode} (ibx : InB h x) {g : Nat} {j : Json} (hx : deref h g x = some j) :
    deref (runWrites h1 ws) g x = some j := by
  rw [edits_below_clone_invisible ib hc ws hw ibx g]; exact hx

/-! ### the slice-level operations are such writes -/

theorem arrSet_is_write {h h' : Heap} {t : Tag} {a off len cap i : Nat} {v : HNode}
    (e : arrSet h (.arrRef t a off len cap) i v = some h') :
    i < len ∧ h' = Write.run h (.cellSet a (off + i) v) := by
  simp only [arrSet] at e
  split at e
  · cases e; exact ⟨by assumption, rfl⟩
  · cases e

theorem goAppend_in_place {grow : Nat → Nat} {h : Heap} {t : Tag} {a off len cap : Nat} {v : HNode}
    (hlt : len < cap) :
    goAppend grow h (.arrRef t a off len cap) v =
      some (Write.run h (.cellSet a (off + len) v), .arrRef t a off (len + 1) cap) := by
  simp [goAppend, hlt, Write.run]

theorem goAppend_realloc {grow : Nat → Nat} {h h' : Heap} {t : Tag} {a off len cap : Nat} {v s' : HNode}
    (hge : ¬ len < cap) (e : goAppend grow h (.arrRef t a off len cap) v = some (h', s')) :
    ∃ o, h' = Write.run h (.alloc o) ∧ s'.addr? = some h.length := by
  simp only [goAppend, hge, if_false] at e
  split at e
  · cases e; exact ⟨_, rfl, rfl⟩
  · cases e

/-- a slice without capacity (the nil slice `cloneNodes(nil)` returns, an empty literal, every jsonNull)
    allows no write through it: `s[i] = v` panics and `append` goes to a new array -/
theorem cap0_no_write_through (grow : Nat → Nat) (h : Heap) (t : Tag) (a off : Nat) (i : Nat) (v : HNode) :
    arrSet h (.arrRef t a off 0 0) i v = none ∧
    ∀ h' s', goAppend grow h (.arrRef t a off 0 0) v = some (h', s') →
      (∃ o, h' = Write.run h (.alloc o)) ∧ s'.addr? = some h.length := by
  refine ⟨by simp [arrSet], fun h' s' e => ?_⟩
  obtain ⟨o, ho, hs⟩ := goAppend_realloc (by omega) e
  exact ⟨⟨o, ho⟩, hs⟩


/-! ## each hypothesis matters: the two seeded variants that are not deep copies -/

namespace Witness

/-- `{"a":["x"]}`: the array at address 0, the object at address 1 -/
def hS : Heap := [.arr [.str "x"], .map [("a", .arrRef .list 0 0 1 1)]]
def docS : HNode := .objRef 1

theorem hS_closed : closedHeap hS = true ∧ docS.below hS.length = true := by decide

/-- the shallow copy: a new top-level map that holds the SAME array header -/
theorem shallow_run :
    cloneShallow hS docS = some (hS ++ [.map [("a", .arrRef .list 0 0 1 1)]], .objRef 2) := rfl

/-- it denotes the same value (clause (a) alone does not tell the two apart) … -/
theorem shallow_same_value :
    deref (hS ++ [.map [("a", .arrRef .list 0 0 1 1)]]) 3 (.objRef 2) = deref hS 3 docS := rfl

/-- … but it reaches the OLD address 0 (freshness (b) fails) … -/
theorem shallow_not_fresh : reach (hS ++ [.map [("a", .arrRef .list 0 0 1 1)]]) 3 (.objRef 2) = [2, 0] := rfl

/-- … and one write below the copy (`copy["a"][0] = "y"`) changes what the ORIGINAL denotes
    (conclusion (d) fails): the shape of D29 and of seeded change C03-clonenode-shallow-slices-clone -/
theorem shallow_write_changes_original :
    (∃ g, 0 ∈ reach (hS ++ [.map [("a", .arrRef .list 0 0 1 1)]]) g (.objRef 2)) ∧
    deref hS 3 docS = some (.obj [("a", .arr .list [.str "x"])]) ∧
    deref (runWrites (hS ++ [.map [("a", .arrRef .list 0 0 1 1)]]) [.cellSet 0 0 (.str "y")]) 3 docS
      = some (.obj [("a", .arr .list [.str "y"])]) ∧
    Json.obj [("a", .arr .list [.str "x"])] ≠ Json.obj [("a", .arr .list [.str "y"])] :=
  ⟨⟨3, by decide⟩, rfl, rfl, by simp⟩

/-- the real `cloneNode` on the same input: new array at 2, new map at 3; the corresponding write goes
    to address 2 and the original still reads `{"a":["x"]}` while the copy reads `{"a":["y"]}` -/
theorem deep_run :
    cloneNode 3 hS docS = some (hS ++ [.arr [.str "x"], .map [("a", .arrRef .list 2 0 1 1)]], .objRef 3) := rfl

theorem deep_write_leaves_original :
    reach (hS ++ [.arr [.str "x"], .map [("a", .arrRef .list 2 0 1 1)]]) 3 (.objRef 3) = [3, 2] ∧
    deref (runWrites (hS ++ [.arr [.str "x"], .map [("a", .arrRef .list 2 0 1 1)]]) [.cellSet 2 0 (.str "y")]) 3 docS
      = some (.obj [("a", .arr .list [.str "x"])]) ∧
    deref (runWrites (hS ++ [.arr [.str "x"], .map [("a", .arrRef .list 2 0 1 1)]]) [.cellSet 2 0 (.str "y")]) 3 (.objRef 3)
      = some (.obj [("a", .arr .list [.str "y"])]) :=
  ⟨rfl, rfl, rfl⟩

/-- `{"a":{}}`: the empty map at address 0, the object at address 1 (the added value of the first
    operation of the JSON Patch `[add /a {}, add /a/b 1]` of the seeded change's description) -/
def hE : Heap := [.map [], .map [("a", .objRef 0)]]
def docE : HNode := .objRef 1

theorem hE_closed : closedHeap hE = true ∧ docE.below hE.length = true := by decide

/-- the variant copies the outer map and returns the empty inner map as it is -/
theorem emptyShared_run :
    cloneNodeEmptyShared 3 hE docE = some (hE ++ [.map [("a", .objRef 0)]], .objRef 2) := rfl

/-- `copy["a"]["b"] = 1` (the second operation) writes into the diff's own `{}`: the original now
    denotes `{"a":{"b":1}}` — seeded change C15-clonenode-empty-object-shared -/
theorem emptyShared_write_changes_original :
    (∃ g, 0 ∈ reach (hE ++ [.map [("a", .objRef 0)]]) g (.objRef 2)) ∧
    deref hE 3 docE = some (.obj [("a", .obj [])]) ∧
    deref (runWrites (hE ++ [.map [("a", .objRef 0)]]) [.mapSet 0 "b" (.num 1)]) 3 docE
      = some (.obj [("a", .obj [("b", .num 1)])]) ∧
    Json.obj [("a", .obj [])] ≠ Json.obj [("a", .obj [("b", .num 1)])] :=
  ⟨⟨3, by decide⟩, rfl, rfl, by simp⟩

/-- the real `cloneNode` allocates a new empty map (address 2) as well -/
theorem deep_run_empty :
    cloneNode 3 hE docE = some (hE ++ [.map [], .map [("a", .objRef 2)]], .objRef 3) := rfl

theorem deep_write_leaves_original_empty :
    deref (runWrites (hE ++ [.map [], .map [("a", .objRef 2)]]) [.mapSet 2 "b" (.num 1)]) 3 docE
      = some (.obj [("a", .obj [])]) ∧
    deref (runWrites (hE ++ [.map [], .map [("a", .objRef 2)]]) [.mapSet 2 "b" (.num 1)]) 3 (.objRef 3)
      = some (.obj [("a", .obj [("b", .num 1)])]) :=
  ⟨rfl, rfl⟩

/-- the hypothesis "no dangling reference" of the clone theorems is needed: `[{…}, <dangling 2>]` — after
    the first element has been cloned address 2 exists, the clone of the list succeeds and denotes a value
    although the original does not -/
def hD : Heap := [.map [], .arr [.objRef 0, .objRef 2]]

theorem dangling_needed :
    deref hD 3 (.arrRef .list 1 0 2 2) = none ∧
    (∃ h' n', cloneNode 3 hD (.arrRef .list 1 0 2 2) = some (h', n') ∧
      deref h' 3 n' = some (.arr .list [.obj [], .obj []])) :=
  ⟨rfl, _, _, rfl, rfl⟩

/-- in-place `append` into spare capacity is a write other slices over the same cells see: `s := a[:1]`,
    `append(s, "z")` overwrites `a[1]` -/
theorem append_in_place_is_shared :
    goAppend (fun c => 2 * c) [.arr [.str "x", .str "y"]] (.arrRef .list 0 0 1 2) (.str "z")
      = some ([.arr [.str "x", .str "z"]], .arrRef .list 0 0 2 2) ∧
    deref [.arr [.str "x", .str "y"]] 2 (.arrRef .list 0 0 2 2) = some (.arr .list [.str "x", .str "y"]) ∧
    deref [.arr [.str "x", .str "z"]] 2 (.arrRef .list 0 0 2 2) = some (.arr .list [.str "x", .str "z"]) :=
  ⟨rfl, rfl, rfl⟩

end Witness

/-! ## the case analysis of `cloneNode` and the source -/

/-- the `default` case returns the node itself and allocates nothing -/
theorem cloneNode_asIs {n : HNode} (hn : n.cloneCase = .asIs) (f : Nat) (h : Heap) :
    cloneNode (f+1) h n = some (h, n) := by
  cases n <;> first | rfl | cases hn

/-- the nodes returned as they are are EXACTLY those that carry no reference -/
theorem asIs_iff_immutable (n : HNode) : n.cloneCase = .asIs ↔ n.immutable = true := by
  cases n <;> simp [HNode.cloneCase, HNode.immutable, HNode.addr?]

/-- a node comes back with the same Go dynamic type (`jsonList(cloneNodes(t))` keeps the type) -/
theorem cloneNode_keeps_type {f : Nat} {h h' : Heap} {n n' : HNode} (hc : cloneNode f h n = some (h', n')) :
    n'.goType = n.goType ∧ n'.cloneCase = n.cloneCase := by
  cases f with
  | zero => cases hc
  | succ f =>
    rw [cloneNode_succ] at hc
    cases n with
    | objRef a =>
      simp only [] at hc
      split at hc
      · split at hc
        · cases hc; exact ⟨rfl, rfl⟩
        · cases hc
      · cases hc
    | arrRef t a off len cap =>
      simp only [] at hc
      split at hc
      · split at hc
        · cases hc; cases t <;> exact ⟨rfl, rfl⟩
        · cases hc
      · cases hc
    | _ => cases hc; exact ⟨rfl, rfl⟩

/-- the node that comes back refers to nothing old: it is immutable, or its own map / backing array is new -/
theorem cloneNode_root_fresh {f : Nat} {h h' : Heap} {n n' : HNode} (ib : InB h n)
    (hc : cloneNode f h n = some (h', n')) : n'.freshFrom h.length = true := by
  cases hadr : n'.addr? with
  | none => simp [HNode.freshFrom, hadr]
  | some a =>
    have := clone_fresh ib hc 1 a (by rw [reach_succ_kids, hadr]; exact List.mem_cons_self)
    simp [HNode.freshFrom, hadr, this.1]

/-- a cloned slice has no spare capacity (`make([]JsonNode, len(nodes))`): an `append` to the copy
    always goes to a new array -/
theorem cloneNode_slice_full {f : Nat} {h h' : Heap} {t : Tag} {a off len cap : Nat} {n' : HNode}
    (hc : cloneNode f h (.arrRef t a off len cap) = some (h', n')) :
    ∃ a', n' = .arrRef t a' 0 len len := by
  cases f with
  | zero => cases hc
  | succ f =>
    rw [cloneNode_succ] at hc
    simp only [] at hc
    split at hc
    · split at hc
      · cases hc; exact ⟨_, rfl⟩
      · cases hc
    · cases hc

/-! ### what the regenerated table of source sites (tools/pathfacts → JdModel/Gen/PathSites.lean) says
    about `cloneNode` / `cloneNodes` today, and its link to the model -/

/-- the `store` sites pathfacts lists inside `cloneNode` of one library: one per `return` of a
    CONTAINER case of the type switch (the `default: return n` is not listed) -/
def cloneNodeReturns (lib : String) : List (String × PathHeap.SiteKind × PathHeap.SExpr) :=
  Gen.pathSites.filter (fun s => s.1.startsWith (lib ++ "/patch_common.go:cloneNode:store"))

/-- the number of mutable kinds of the model's case list -/
def modelContainerCases : List (String × CloneCase) := modelCloneCases.filter (fun p => p.2 != .asIs)

/-- LINK 1 (regenerated): in both libraries `cloneNode` has exactly as many container-returning cases as
    the model has mutable kinds (jsonObject, jsonArray, jsonList, jsonSet, jsonMultiset), and each of them
    returns a copy (`fresh`): an `if len(t) == 0 { return t }` in a container case — seeded change
    C15-clonenode-empty-object-shared — adds a non-fresh `store` site and this stops checking -/
theorem source_container_cases_return_copies :
    (cloneNodeReturns "v2").length = modelContainerCases.length ∧
    (cloneNodeReturns "lib").length = modelContainerCases.length ∧
    ((cloneNodeReturns "v2") ++ (cloneNodeReturns "lib")).all (fun s => s.2.1 == .store && s.2.2.fresh) = true := by
  decide +kernel

/-- LINK 2 (regenerated): the members are assigned into the NEW map / slice (`c[k] = …`, `c[i] = …` are
    `write` sites on a fresh value), `cloneNodes` returns a fresh slice, and `patchAll` of both libraries
    hands the added values to `patch` as deep copies (`write` site with `deep` set: `slices.Clone` would not
    count) -/
theorem source_clone_fills_new_containers :
    (["v2/patch_common.go:cloneNode:write#1", "v2/patch_common.go:cloneNodes:write#1",
      "v2/patch_common.go:cloneNodes:store#1", "v2/patch_common.go:patchAll:write#1",
      "lib/patch_common.go:cloneNode:write#1", "lib/patch_common.go:cloneNodes:write#1",
      "lib/patch_common.go:cloneNodes:store#1", "lib/patch_common.go:patchAll:write#1"].all
        (fun l => Gen.pathSites.any (fun s => s.1 == l && s.2.2.fresh))) = true := by
  decide +kernel

/-! ### what the table does NOT carry (hand transcription; see the report for the facts to emit) -/

/-- Go's underlying type of a node type, as far as mutability goes -/
inductive GoRepr where
  | mapType     -- `map[string]JsonNode`: a reference
  | sliceType   -- `[]T`: pointer, length, capacity
  | plain       -- struct{} / bool / float64 / string: no interior pointer that can be written through
deriving Repr, DecidableEq, Inhabited

/-- TRANSCRIBED BY HAND from v2/patch_common.go and lib/patch_common.go (identical there): the type switch
    of `cloneNode`, the `default` case spelled out over the remaining types that implement `JsonNode`.
    To be replaced by a regenerated `Gen.cloneNodeCases`. -/
def sourceCloneCases_asRead : List (String × CloneCase) :=
  [("voidNode", .asIs), ("jsonNull", .asIs), ("jsonBool", .asIs), ("jsonNumber", .asIs), ("jsonString", .asIs),
   ("jsonObject", .copyMap), ("jsonArray", .copySlice), ("jsonList", .copySlice), ("jsonSet", .copySlice),
   ("jsonMultiset", .copySlice)]

/-- TRANSCRIBED BY HAND from the `type … ` declarations of v2/ and lib/ (void.go, null.go, bool.go,
    number.go, string.go, object.go, array.go, list.go, set.go, multiset.go). -/
def sourceNodeRepr_asRead : List (String × GoRepr) :=
  [("voidNode", .plain), ("jsonNull", .sliceType), ("jsonBool", .plain), ("jsonNumber", .plain),
   ("jsonString", .plain), ("jsonObject", .mapType), ("jsonArray", .sliceType), ("jsonList", .sliceType),
   ("jsonSet", .sliceType), ("jsonMultiset", .sliceType)]

/-- the model's case analysis IS the source's type switch (as transcribed) -/
theorem modelCloneCases_eq_source : modelCloneCases = sourceCloneCases_asRead := by decide

/-- every map type is copied as a map, every slice type as a slice, every plain type returned as it is —
    with ONE exception: jsonNull is a slice type (`[]byte`) that `cloneNode` returns shared. The model
    treats `null` as immutable; this is sound for aliasing because every jsonNull of the library has
    length and capacity 0 (`jsonNull(nil)`, `jsonNull{}`) and is never indexed or appended to, and a
    capacity-0 slice allows no write through it (`cap0_no_write_through`). -/
theorem cases_follow_representation_except_null :
    (sourceCloneCases_asRead.zip sourceNodeRepr_asRead).all (fun p =>
      p.1.1 == p.2.1 &&
      (if p.1.1 == "jsonNull" then p.1.2 == .asIs && p.2.2 == .sliceType
       else match p.2.2 with
        | .mapType => p.1.2 == .copyMap
        | .sliceType => p.1.2 == .copySlice
        | .plain => p.1.2 == .asIs)) = true := by decide


/-! ## the dynamic discipline: an editor that owns the clone -/

/-- above the watermark `w` the heap refers to nothing below it: every object allocated at or after `w`
    holds only immutable nodes and references to objects allocated at or after `w` -/
def ClosedAbove (w : Nat) (h : Heap) : Prop :=
  ∀ a, w ≤ a → ∀ o, h[a]? = some o → ∀ m ∈ o.nodes, m.freshFrom w = true

theorem freshFrom_mono {w w' : Nat} (hw : w ≤ w') {n : HNode} (hn : n.freshFrom w' = true) :
    n.freshFrom w = true := by
  cases hadr : n.addr? with
  | none => simp [HNode.freshFrom, hadr]
  | some a => simp only [HNode.freshFrom, hadr, decide_eq_true_eq] at hn ⊢; omega

/-- in such a heap everything reachable from a fresh node is fresh -/
theorem reach_fresh_of_closed {w : Nat} {h : Heap} (hc : ClosedAbove w h) :
    ∀ (g : Nat) {n : HNode}, n.freshFrom w = true → ∀ a ∈ reach h g n, w ≤ a := by
  intro g
  induction g with
  | zero => intro n _ a ha; cases ha
  | succ g ih =>
    intro n hn a ha
    rw [reach_succ_kids] at ha
    cases hadr : n.addr? with
    | none => rw [hadr] at ha; cases ha
    | some b =>
      rw [hadr] at ha
      simp only [HNode.freshFrom, hadr, decide_eq_true_eq] at hn
      cases ha with
      | head => exact hn
      | tail _ ha' =>
        cases hk : kids h n with
        | none => rw [hk] at ha'; cases ha'
        | some xs =>
          rw [hk] at ha'
          obtain ⟨x, hx, hax⟩ := List.mem_flatMap.1 ha'
          rcases kids_sub_nodes hk with rfl | ⟨b', o, hb', ho, hsub⟩
          · cases hx
          · rw [hadr] at hb'; cases hb'
            exact ih (hc b hn o ho x (hsub x hx)) a hax

theorem mem_ainsert_snd {β} (k : String) (v : β) : ∀ (kvs : List (String × β)) (m : β),
    m ∈ (ainsert k v kvs).map (·.2) → m = v ∨ m ∈ kvs.map (·.2)
  | [], m, hm => by simp [ainsert] at hm; exact Or.inl hm
  | (k', v') :: r, m, hm => by
    simp only [ainsert] at hm
    split at hm
    · simp only [List.map_cons, List.mem_cons] at hm ⊢
      rcases hm with h | h | h
      · exact Or.inl h
      · exact Or.inr (Or.inl h)
      · exact Or.inr (Or.inr h)
    · split at hm
      · simp only [List.map_cons, List.mem_cons] at hm ⊢
        rcases hm with h | h
        · exact Or.inl h
        · exact Or.inr (Or.inr h)
      · simp only [List.map_cons, List.mem_cons] at hm ⊢
        rcases hm with h | h
        · exact Or.inr (Or.inl h)
        · rcases mem_ainsert_snd k v r m h with h' | h'
          · exact Or.inl h'
          · exact Or.inr (Or.inr h')

theorem mem_aerase_snd {β} (k : String) : ∀ (kvs : List (String × β)) (m : β),
    m ∈ (aerase k kvs).map (·.2) → m ∈ kvs.map (·.2)
  | [], _, hm => hm
  | (k', v') :: r, m, hm => by
    simp only [aerase] at hm
    split at hm
    · exact List.mem_cons_of_mem _ hm
    · simp only [List.map_cons, List.mem_cons] at hm ⊢
      rcases hm with h | h
      · exact Or.inl h
      · exact Or.inr (mem_aerase_snd k r m h)

theorem closedAbove_set {w : Nat} {h : Heap} (hc : ClosedAbove w h) (a : Nat) (o' : Obj)
    (ho' : ∀ m ∈ o'.nodes, m.freshFrom w = true) : ClosedAbove w (h.set a o') := by
  intro b hb o ho m hm
  rw [List.getElem?_set] at ho
  split at ho
  · split at ho
    · cases ho; exact ho' m hm
    · cases ho
  · exact hc b hb o ho m hm

/-- an effect that stores only fresh nodes keeps the heap closed above the watermark -/
theorem Write.run_closed {w : Nat} {h : Heap} (hc : ClosedAbove w h) (wr : Write)
    (hs : ∀ m ∈ wr.stored, m.freshFrom w = true) : ClosedAbove w (wr.run h) := by
  cases wr with
  | mapSet a k v =>
    simp only [Write.run, NodeHeap.mapSet]
    split
    · rename_i kvs heq
      by_cases ha : w ≤ a
      · refine closedAbove_set hc a _ (fun m hm => ?_)
        rcases mem_ainsert_snd k v kvs m hm with rfl | h'
        · exact hs _ (by simp [Write.stored])
        · exact hc a ha _ heq m h'
      · intro b hb o ho m hm
        rw [List.getElem?_set_ne (by omega)] at ho
        exact hc b hb o ho m hm
    · exact hc
  | mapDel a k =>
    simp only [Write.run, NodeHeap.mapDel]
    split
    · rename_i kvs heq
      by_cases ha : w ≤ a
      · exact closedAbove_set hc a _ (fun m hm => hc a ha _ heq m (mem_aerase_snd k kvs m hm))
      · intro b hb o ho m hm
        rw [List.getElem?_set_ne (by omega)] at ho
        exact hc b hb o ho m hm
    · exact hc
  | cellSet a i v =>
    simp only [Write.run, NodeHeap.cellSet]
    split
    · rename_i cells heq
      by_cases ha : w ≤ a
      · refine closedAbove_set hc a _ (fun m hm => ?_)
        rcases List.mem_or_eq_of_mem_set hm with h' | rfl
        · exact hc a ha _ heq m h'
        · exact hs _ (by simp [Write.stored])
      · intro b hb o ho m hm
        rw [List.getElem?_set_ne (by omega)] at ho
        exact hc b hb o ho m hm
    · exact hc
  | alloc o' =>
    simp only [Write.run, NodeHeap.alloc]
    intro b hb o ho m hm
    by_cases hlt : b < h.length
    · rw [List.getElem?_append_left hlt] at ho
      exact hc b hb o ho m hm
    · rw [List.getElem?_append_right (by omega)] at ho
      cases hbl : b - h.length with
      | zero =>
        rw [hbl] at ho
        simp only [List.getElem?_cons_zero, Option.some.injEq] at ho
        subst ho
        exact hs m (by simpa [Write.stored] using hm)
      | succ k => rw [hbl] at ho; simp at ho

theorem Write.run_length (h : Heap) (wr : Write) : h.length ≤ (wr.run h).length := by
  cases wr with
  | mapSet a k v => simp only [Write.run, NodeHeap.mapSet]; split <;> simp
  | mapDel a k => simp only [Write.run, NodeHeap.mapDel]; split <;> simp
  | cellSet a i v => simp only [Write.run, NodeHeap.cellSet]; split <;> simp
  | alloc o => simp [Write.run, NodeHeap.alloc]

/-- an editor that obeys `okWrites` never writes below the watermark -/
theorem okWrites_agree {h : Heap} {g : Nat} {root : HNode} (hroot : root.freshFrom h.length = true) :
    ∀ (ws : List Write) {h1 : Heap}, Agree h h1 → ClosedAbove h.length h1 →
      okWrites h.length g root h1 ws = true →
      Agree h (runWrites h1 ws) ∧ ClosedAbove h.length (runWrites h1 ws)
  | [], _, ag, hc, _ => ⟨ag, hc⟩
  | wr :: r, h1, ag, hc, hok => by
    simp only [okWrites, Bool.and_eq_true] at hok
    obtain ⟨⟨ht, hs⟩, hr⟩ := hok
    have hs' : ∀ m ∈ wr.stored, m.freshFrom h.length = true := List.all_eq_true.1 hs
    have htar : ∀ a, wr.target = some a → h.length ≤ a := by
      intro a ha
      rw [ha] at ht
      simp only [List.contains_iff_mem] at ht
      exact reach_fresh_of_closed hc g hroot a ht
    simp only [runWrites, List.foldl_cons]
    exact okWrites_agree hroot r (Write.run_agree ag htar) (Write.run_closed hc wr hs') hr


theorem freshFrom_of_reach {w : Nat} {h : Heap} {n : HNode} (hr : ∀ a ∈ reach h 1 n, w ≤ a) :
    n.freshFrom w = true := by
  cases hadr : n.addr? with
  | none => simp [HNode.freshFrom, hadr]
  | some a =>
    have := hr a (by rw [reach_succ_kids, hadr]; exact List.mem_cons_self)
    simp [HNode.freshFrom, hadr, this]

theorem cloneList_closed (cl : Heap → HNode → Option (Heap × HNode))
    (hok : ∀ h x h' x', InB h x → cl h x = some (h', x') → CloneOK h x h' x')
    (hclosed : ∀ h x h' x', InB h x → cl h x = some (h', x') →
      ∀ a, h.length ≤ a → ∀ o, h'[a]? = some o → ∀ m ∈ o.nodes, m.freshFrom h.length = true) :
    ∀ (xs : List HNode) (h h' : Heap) (xs' : List HNode), (∀ x ∈ xs, InB h x) →
      cloneList cl h xs = some (h', xs') →
      ∀ a, h.length ≤ a → ∀ o, h'[a]? = some o → ∀ m ∈ o.nodes, m.freshFrom h.length = true
  | [], h, h', xs', _, hc => by
    simp only [cloneList] at hc
    cases hc
    intro a ha o ho
    rw [List.getElem?_eq_none (by omega)] at ho
    cases ho
  | x :: r, h, h', xs', hib, hc => by
    simp only [cloneList] at hc
    cases h1 : cl h x with
    | none => rw [h1] at hc; cases hc
    | some p1 =>
      obtain ⟨hp, x1⟩ := p1
      rw [h1] at hc
      simp only [] at hc
      cases h2 : cloneList cl hp r with
      | none => rw [h2] at hc; cases hc
      | some p2 =>
        obtain ⟨hq, r1⟩ := p2
        rw [h2] at hc
        simp only [Option.some.injEq, Prod.mk.injEq] at hc
        obtain ⟨rfl, rfl⟩ := hc
        have ok1 := hok h x hp x1 (hib x List.mem_cons_self) h1
        have ag1 := ok1.agree
        have ibr : ∀ y ∈ r, InB hp y := fun y hy => (hib y (List.mem_cons_of_mem _ hy)).agree ag1
        have ok2 := cloneList_ok cl hok r hp hq r1 ibr h2
        have ag2 := ok2.agree
        have l1 := ag1.len
        intro a ha o ho m hm
        by_cases hlt : a < hp.length
        · rw [ag2 a hlt] at ho
          exact hclosed h x hp x1 (hib x List.mem_cons_self) h1 a ha o ho m hm
        · exact freshFrom_mono l1
            (cloneList_closed cl hok hclosed r hp hq r1 ibr h2 a (by omega) o ho m hm)

/-- the objects a clone allocates refer only to each other -/
theorem cloneNode_closed : ∀ (f : Nat) (h : Heap) (n : HNode) (h' : Heap) (n' : HNode), InB h n →
    cloneNode f h n = some (h', n') →
    ∀ a, h.length ≤ a → ∀ o, h'[a]? = some o → ∀ m ∈ o.nodes, m.freshFrom h.length = true := by
  intro f
  induction f with
  | zero => intro h n h' n' _ hc; cases hc
  | succ f ih =>
    intro h n h' n' ib hc
    have hc0 := hc
    rw [cloneNode_succ] at hc
    cases n with
    | objRef b =>
      simp only [] at hc
      split at hc
      · rename_i kvs heq
        have hk : kids h (.objRef b) = some (kvs.map (·.2)) := by simp [kids, heq]
        split at hc
        · rename_i h1 vs hcl
          simp only [Option.some.injEq, Prod.mk.injEq] at hc
          obtain ⟨rfl, rfl⟩ := hc
          have lst := cloneList_ok (cloneNode f) (cloneNode_ok f) (kvs.map (·.2)) h h1 vs (ib.kid hk) hcl
          have hlen : (kvs.map (·.1)).length = vs.length := by simp [lst.len]
          have l1 := lst.agree.len
          intro a ha o ho m hm
          by_cases hlt : a < h1.length
          · rw [List.getElem?_append_left hlt] at ho
            exact cloneList_closed (cloneNode f) (cloneNode_ok f) ih
              (kvs.map (·.2)) h h1 vs (ib.kid hk) hcl a ha o ho m hm
          · rw [List.getElem?_append_right (by omega)] at ho
            cases hbl : a - h1.length with
            | zero =>
              rw [hbl] at ho
              simp only [List.getElem?_cons_zero, Option.some.injEq] at ho
              subst ho
              simp only [Obj.nodes, zip_map_snd _ _ hlen] at hm
              exact freshFrom_of_reach (fun a' ha' => (lst.fresh m hm 1 a' ha').1)
            | succ k => rw [hbl] at ho; simp at ho
        · cases hc
      · cases hc
    | arrRef t b off len cap =>
      simp only [] at hc
      split at hc
      · rename_i xs hk
        split at hc
        · rename_i h1 vs hcl
          simp only [Option.some.injEq, Prod.mk.injEq] at hc
          obtain ⟨rfl, rfl⟩ := hc
          have lst := cloneList_ok (cloneNode f) (cloneNode_ok f) xs h h1 vs (ib.kid hk) hcl
          have l1 := lst.agree.len
          intro a ha o ho m hm
          by_cases hlt : a < h1.length
          · rw [List.getElem?_append_left hlt] at ho
            exact cloneList_closed (cloneNode f) (cloneNode_ok f) ih
              xs h h1 vs (ib.kid hk) hcl a ha o ho m hm
          · rw [List.getElem?_append_right (by omega)] at ho
            cases hbl : a - h1.length with
            | zero =>
              rw [hbl] at ho
              simp only [List.getElem?_cons_zero, Option.some.injEq] at ho
              subst ho
              simp only [Obj.nodes] at hm
              exact freshFrom_of_reach (fun a' ha' => (lst.fresh m hm 1 a' ha').1)
            | succ k => rw [hbl] at ho; simp at ho
        · cases hc
      · cases hc
    | _ =>
      cases hc
      intro a ha o ho
      rw [List.getElem?_eq_none (by omega)] at ho
      cases ho

/-- (d, dynamic form) after `cloneNode`, an editor that obeys `okWrites` for the clone — it writes only
    into objects reachable, at the time of the write, from the clone, and stores only immutable nodes,
    parts of the clone or further copies — leaves every old node's value as it was, however long it runs -/
theorem owner_edits_invisible {f : Nat} {h h1 : Heap} {n n1 : HNode} (ib : InB h n)
    (hc : cloneNode f h n = some (h1, n1)) (g : Nat) (ws : List Write)
    (hok : okWrites h.length g n1 h1 ws = true) {x : HNode} (ibx : InB h x) (g' : Nat) :
    deref (runWrites h1 ws) g' x = deref h g' x := by
  have ok := cloneNode_ok f h n h1 n1 ib hc
  have hcl : ClosedAbove h.length h1 := cloneNode_closed f h n h1 n1 ib hc
  exact deref_agree (okWrites_agree (cloneNode_root_fresh ib hc) ws ok.agree hcl hok).1 ibx g'


/-! ## `cloneNodes` on the value slice of a hunk (`patchAll`: `cloneNodes(de.Add)`) -/

theorem cloneNodes_ok {f : Nat} {h h' : Heap} {ns ns' : List HNode} (ib : ∀ x ∈ ns, InB h x)
    (hc : cloneNodes f h ns = some (h', ns')) : CloneListOK h ns h' ns' :=
  cloneList_ok (cloneNode f) (cloneNode_ok f) ns h h' ns' ib hc

/-- `patchAll`: the added values are handed over as `cloneNodes(de.Add)`; whatever is then written into
    objects reachable from the copies, the hunk's own `Add` nodes (and every other old node) keep their values -/
theorem edits_below_cloned_adds_invisible {f : Nat} {h h1 : Heap} {adds adds1 : List HNode}
    (ib : ∀ x ∈ adds, InB h x) (hc : cloneNodes f h adds = some (h1, adds1)) (ws : List Write)
    (hw : ∀ w ∈ ws, ∀ a, w.target = some a → ∃ v ∈ adds1, ∃ g, a ∈ reach h1 g v)
    {x : HNode} (ibx : InB h x) (g : Nat) :
    deref (runWrites h1 ws) g x = deref h g x := by
  have ok := cloneNodes_ok ib hc
  exact writes_to_new_addresses_invisible ok.agree ws
    (fun w hwm a ha => by
      obtain ⟨v, hv, g', hg'⟩ := hw w hwm a ha
      exact (ok.fresh v hv g' a hg').1) ibx g

namespace Witness

/-- a longer edit of the deep copy of `{"a":["x"]}` (copy: array 2, map 3): overwrite the element,
    allocate a new map (address 4), hang it into the copy, write into it, delete a key — all allowed -/
def editProg : List Write :=
  [.cellSet 2 0 (.str "y"), .alloc (.map []), .mapSet 3 "b" (.objRef 4), .mapSet 4 "k" (.str "v"), .mapDel 3 "a"]

theorem editProg_ok :
    okWrites hS.length 4 (.objRef 3) (hS ++ [.arr [.str "x"], .map [("a", .arrRef .list 2 0 1 1)]]) editProg = true := by
  decide

theorem editProg_result :
    deref (runWrites (hS ++ [.arr [.str "x"], .map [("a", .arrRef .list 2 0 1 1)]]) editProg) 4 (.objRef 3)
      = some (.obj [("b", .obj [("k", .str "v")])]) ∧
    deref (runWrites (hS ++ [.arr [.str "x"], .map [("a", .arrRef .list 2 0 1 1)]]) editProg) 4 docS
      = some (.obj [("a", .arr .list [.str "x"])]) :=
  ⟨rfl, rfl⟩

/-- the discipline rejects storing an OLD node into the copy (the D29 shape: the diff's value itself
    becomes part of the document) and writing into an old object -/
theorem okWrites_rejects :
    okWrites hS.length 4 (.objRef 3) (hS ++ [.arr [.str "x"], .map [("a", .arrRef .list 2 0 1 1)]])
      [.mapSet 3 "b" (.arrRef .list 0 0 1 1)] = false ∧
    okWrites hS.length 4 (.objRef 3) (hS ++ [.arr [.str "x"], .map [("a", .arrRef .list 2 0 1 1)]])
      [.cellSet 0 0 (.str "y")] = false := by
  decide

end Witness


/-! ## separation: writes elsewhere (e.g. into the receiver document `Patch` edits in place) -/

theorem lt_of_getElem?_eq {h1 h : Heap} {a : Nat} (e : h1[a]? = h[a]?) (ha : a < h.length) : a < h1.length := by
  rw [List.getElem?_eq_getElem ha] at e
  exact (List.getElem?_eq_some_iff.1 e).1

/-- effects none of whose targets is reachable from `x` (with fuel `g`) do not change what `x` denotes
    (with fuel `g`): `Patch` editing its receiver in place, and the copies it made, cannot change a diff
    that shares no object with the receiver -/
theorem writes_off_reach_invisible {h : Heap} {x : HNode} {g : Nat} (hin : ∀ a ∈ reach h g x, a < h.length) :
    ∀ (ws : List Write) {h1 : Heap}, (∀ a ∈ reach h g x, h1[a]? = h[a]?) →
      (∀ w ∈ ws, ∀ a, w.target = some a → a ∉ reach h g x) →
      deref (runWrites h1 ws) g x = deref h g x
  | [], _, hag, _ => deref_congr g x hag
  | w :: r, h1, hag, hw => by
    simp only [runWrites, List.foldl_cons]
    refine writes_off_reach_invisible hin r (fun a ha => ?_) (fun w' hw' => hw w' (List.mem_cons_of_mem _ hw'))
    rw [Write.run_get (fun t ht heq => hw w List.mem_cons_self t ht (heq ▸ ha))
      (lt_of_getElem?_eq (hag a ha) (hin a ha))]
    exact hag a ha

end Jd.NodeHeap
