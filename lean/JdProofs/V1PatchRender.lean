/-
  JdProofs.V1PatchRender — property C18 (v1 API `lib/`), JSON Patch half, LIST mode:

    the JSON Patch (RFC 6902) rendered by the v1 library from `a.Diff(b)`, evaluated by an
    independent RFC 6902 evaluator on `a`, yields `b`; reading it back with the v1 reader and
    patching `a` also yields `b`.

  Everything is about the LIBRARY functions of the v1 model: `V1.diffM`, `V1.renderPatchOps`
  (`Diff.RenderPatch`: `renderPatchHunk`, `writePointer`), `V1.readPatchLoop` / `readPatchHunk` /
  `readPointer` (`ReadPatchString`), `V1.patchP` / `patchM` (`Patch`, including the deferred
  string-or-integer decision `PElem.sori`), against the specification `Jd.Spec.eval`
  (JdSpec.Rfc6902). Namespace `Jd.V1R`.

  STAGE REACHED: C (full nesting: lists in lists, objects, scalars, void at the root), both clauses,
  no open goals.

  Domain = the domain of `V1P.v1_diff_patch_list` (JdProofs.V1ListDiffPatch):
    * metadata `ListMode m` (no SET / MULTISET / MERGE, precision 0; `setkeys` alone allowed);
    * `a`, `b`: `listDoc`, `wf`, `finiteNums`, `vfree` (why: see V1ListDiffPatch; `finiteNums` is
      also what makes the `test` of the rendered patch and the reader's `test`/`remove` value
      comparison succeed on the removed value itself);
    * `FloatLaws`, `IdxLaws N` with `lenLe N a` (list indices travel through float64: `Float` is
      opaque to the kernel); for the read-back additionally `N ≤ 2^63` (the index is printed in
      decimal and re-read by `strconv.Atoi`, whose round trip `PB.atoi?_toString` holds below
      2^63; IEEE-754 makes `IdxLaws N` true only for `N ≤ 2^53` anyway);
    * KEYS: the only object key v1 cannot express is "-" (`writePointer` returns an error for
      it: `render_refuses_dash`, concrete witness `Example.dash_key_refused`). The theorems assume
      `∀ h ∈ a.Diff(b), noDashP h.path` (no diff path holds the key "-"), which is NECESSARY AND
      SUFFICIENT for `RenderPatch` to succeed (`v1_render_ok_iff`), and follows from the decidable
      input condition `noDash a ∧ noDash b` (`noDash_diffM`; versions `…_noDash` of the theorems).
      Keys inside removed / added VALUES are unrestricted.
    * INTEGER-LOOKING KEYS ("0", "+5", "-1", "007" …: everything `strconv.Atoi` accepts) are NOT
      excluded and do NOT break anything in the model: `writePointer` writes them as they are
      (escaped), the RFC evaluator resolves the token against an object as a member name;
      `readPointer` turns the token into a `jsonStringOrInteger` (`rtok`), and `jsonObject.patch`
      reads a `jsonStringOrInteger` as the key (`rtok_key`), `jsonList.patch` as the index
      (`rtok_idx`). Since the path of a diff hunk follows the structure of the document it was
      computed from, an index token only ever meets a list and a key token an object
      (`patch_rpath`). No counterexample exists in the domain: both clauses are proved with such
      keys present (`Example.exA`, `Example.exB`).

  Main results
    1. `v1_render_patch_rfc` :
         ∃ ops r, V1.renderPatchOps (liftDiff (V1.diffM m a b)) = .ok ops ∧ (∀ o ∈ ops, o.wfOp) ∧
           eval a (ops.map toSpec) = some r ∧ specEq r b ∧ specEq b r ∧ specEq (untag r) (untag b)
       (`wfOp`: the op is `test`, `remove` or `add`). v1 emits the hunks of a list so that indices
       stay valid (deletions from the back, then sub-diffs by decreasing index; sub-diffs by
       increasing index, then appends at "-"): the evaluator is run on the ops in the emitted
       order, hunk by hunk, in lock step with `patchAll` (`diff_sim`).
       `v1_renderPatchM_ok`: the text-level `renderPatchM` does not fail.
    2. `v1_render_read_patch` :
         ∃ ops d' r, renderPatchOps … = .ok ops ∧ V1.readPatchLoop (ops.length+1) ops [] = .ok d' ∧
           V1.patchP a d' = .ok r ∧ V1.patchM a (V1.diffM m a b) = .ok r ∧
           V1.equals m r b ∧ specEq r b ∧ specEq b r
       (`ops.length + 1` is the fuel `readPatchDoc` gives the loop: `readPatchDoc_of_loop`); the
       diff read back is `d.flatMap readBack`: every hunk with an old and a new value has become
       two diff elements, every integer-looking token a `jsonStringOrInteger`, and patching with
       it gives EXACTLY the document the original diff gives.
    3. `v1_render_ok_iff`, `render_refuses_dash`, `Example.dash_key_refused` (the key "-").

  NOT covered: the text layer around the ops (`patchOpText` / `parseJson` / `patchOpsOfJson`, i.e.
  JSON marshalling of the patch document: C16-like, independent of pointers), set / multiset /
  merge metadata (C18's merge half is a different rendering), documents outside `Dom`.

  Structure
    §1 unfolding of `V1.patchNode` on a path whose head is any key / index element (`patchNode_obj`,
       `patchNode_arr` with the list body `listBody` and its exact characterisations
       `listBody_cons`, `listBody_nil_del / _ins / _rep`);
    §2 `patch_applyStrict`: v1 patch of one hunk ⇒ reference semantics `applyStrict` of the
       context-free hunk, up to tags (`untag`), list documents kept;
    §3 `applyStrict_evalTs`: reference semantics ⇒ token-level RFC operations (re-using the leaf and
       navigation lemmas of JdProofs.PatchRender, C09);
    §4 pointers: `writePointer_plain`, `parsePointer_of_toList` (C09), `readPointer_of_toList`;
    §5–6 `hunk_sim`, `diff_sim`: clause 1 for one hunk / a whole diff;
    §7 `diff_shape`: the hunks of a list-mode diff (values, indices `numNeg1` / `numOfNat k`, k < N);
    §8 `patch_rpath`: the path read back patches like the original path;
    §9 `patch_split`: a replacement = removal then addition (needs sorted keys: `aput_aput`);
    §10 `Reads`: the reader's element loop on the rendered ops; §11 `hunk_readBack`, `diff_readBack`.
-/
import JdModel
import JdSpec
import JdProofs.V1ListDiffPatch
import JdProofs.PatchRender
import JdProofs.PatchParseBack
import JdProofs.MergeProofs

namespace Jd.V1R
open Jd Jd.Spec Jd.DPL Jd.V1P

/-! ## 1. unfolding `V1.patchNode` (strict strategy) on a path starting with a key / index element -/

/-- a path element that is neither metadata nor a set member: a string, a number, or a
    `jsonStringOrInteger` token -/
def simple : V1.PElem → Bool
  | .sori _ => true
  | .node (.str _) => true
  | .node (.num _) => true
  | _ => false

theorem pathNext_simple {e : V1.PElem} (he : simple e = true) (r : V1.PPath) :
    V1.pathNext (e :: r) = (e, [], r) := by
  cases e with
  | sori s => rfl
  | node n => cases n <;> simp_all [simple, V1.pathNext, V1.pathNextAux]

theorem pathIsLeaf_simple {e : V1.PElem} (he : simple e = true) (r : V1.PPath) :
    V1.pathIsLeaf (e :: r) = false := by
  cases e with
  | sori s => cases r <;> rfl
  | node n => cases n <;> cases r <;> simp_all [simple, V1.pathIsLeaf]

theorem pathIsMerge_simple {e : V1.PElem} (he : simple e = true) (r : V1.PPath) :
    V1.pathIsMerge (e :: r) = false := by
  cases e with
  | sori s => rfl
  | node n => cases n <;> simp_all [simple, V1.pathIsMerge]

theorem lenOK {old new : List Json} (h1 : old.length ≤ 1) (h2 : new.length ≤ 1) :
    (decide (old.length > 1) || decide (new.length > 1)) = false := by
  simp only [Bool.or_eq_false_iff, decide_eq_false_iff_not]; omega

/-- not an object, not an array: the strict patch of a non-empty path fails -/
theorem patchCommon_cons {e : V1.PElem} (he : simple e = true) (n : Json) (r : V1.PPath)
    (old new : List Json) : V1.patchCommon false n (e :: r) old new = .err := by
  rw [V1.patchCommon.eq_def]
  simp [pathIsLeaf_simple he]

theorem patchNode_other {e : V1.PElem} (he : simple e = true) (n : Json) (r : V1.PPath)
    (old new : List Json) (h1 : ∀ t xs, n ≠ .arr t xs) (h2 : ∀ kvs, n ≠ .obj kvs) :
    V1.patchNode false n (e :: r) old new = .err := by
  cases n with
  | arr t xs => exact absurd rfl (h1 t xs)
  | obj kvs => exact absurd rfl (h2 kvs)
  | _ => rw [V1.patchNode.eq_def]; exact patchCommon_cons he _ _ _ _

/-- object: the head element is read as a key -/
theorem patchNode_obj {e : V1.PElem} (he : simple e = true) (kvs : List (String × Json))
    (r : V1.PPath) (old new : List Json) :
    V1.patchNode false (.obj kvs) (e :: r) old new =
      match V1.asKey e with
      | some k => (V1.patchNode false ((alookup k kvs).getD .void) r old new >>= fun v =>
          .ok (.obj (aput k v kvs)))
      | none => .err := by
  rw [V1.patchNode.eq_def]
  simp only [List.isEmpty_cons, Bool.false_and, Bool.false_eq_true, if_false, pathIsLeaf_simple he,
    pathNext_simple he]
  cases hk : V1.asKey e with
  | none => rfl
  | some k =>
    simp only []
    cases hl : alookup k kvs with
    | some c =>
      simp only [Option.getD_some]
      rw [V1P.patchObjChild_eq false k _ _ _ kvs c hl]
      cases V1.patchNode false c r old new with
      | ok v => simp only [Outcome.bind_ok, aput]; split <;> rfl
      | err => rfl
      | panic => rfl
    | none =>
      simp only [Option.getD_none, V1.patchMissing, Bool.false_and,
        Bool.false_eq_true, if_false]
      rw [V1P.patchNode_void]
      cases V1.patchCommon false .void r old new with
      | ok v => simp only [Outcome.bind_ok, aput]; split <;> rfl
      | err => rfl
      | panic => rfl

/-- the body of `jsonList.patch` once the index is known -/
def listBody (xs : List Json) (rest : V1.PPath) (old new : List Json) (i : Int) : Outcome Json :=
  let oldV := Json.singleValue old
  let newV := Json.singleValue new
  let len : Int := xs.length
  if newV.isVoid then
    if i < 0 then .panic
    else do
      let r ← (if len > i then V1.patchListChild i.toNat rest old new xs
               else V1.patchCommon false .void rest old new)
      if i ≥ len then .err
      else if rest.isEmpty then pure (.arr .list (xs.eraseIdx i.toNat))
      else pure (.arr .list (xs.set i.toNat r))
  else if oldV.isVoid then
    if len > i && !rest.isEmpty && i < 0 then .panic
    else do
      let r ← (if len > i && !rest.isEmpty then V1.patchListChild i.toNat rest old new xs
               else V1.patchCommon false .void rest old new)
      if i < 0 || i > len then .err
      else if i == len then pure (.arr .list (xs ++ [r]))
      else if rest.isEmpty then pure (.arr .list (xs.take i.toNat ++ r :: xs.drop i.toNat))
      else pure (.arr .list (xs.set i.toNat r))
  else
    if i < 0 then .panic
    else do
      let r ← (if len > i then V1.patchListChild i.toNat rest old new xs
               else V1.patchCommon false .void rest old new)
      let l ← setAtP xs i r
      pure (.arr .list l)

/-- list: the head element is read as an index -/
theorem patchNode_arr {e : V1.PElem} (he : simple e = true) {t : Tag} (ht : okTag t)
    (xs : List Json) (r : V1.PPath) (old new : List Json) (h1 : old.length ≤ 1)
    (h2 : new.length ≤ 1) :
    V1.patchNode false (.arr t xs) (e :: r) old new =
      match V1.asIndexBits e with
      | some bits =>
        listBody xs r old new
          (if V1.floatToInt bits == -1 then (xs.length : Int) else V1.floatToInt bits)
      | none => .err := by
  rw [V1.patchNode.eq_def]
  simp only [pathNext_simple he, v1_effTag_nil ht, lenOK h1 h2, Bool.false_eq_true, if_false,
    List.isEmpty_cons]
  cases V1.asIndexBits e with
  | none => rfl
  | some bits => rfl


theorem equals_void_left (o : Json) : V1.equals [] .void o = o.isVoid := by
  rw [V1.equals]

theorem isVoid_eq {v : Json} (h : v.isVoid = true) : v = .void := by
  cases v <;> simp_all [Json.isVoid]

/-- the strict patch of void at its root: only "nothing there" is accepted as old value -/
theorem patchCommon_void_nil (old new : List Json) (h1 : old.length ≤ 1) (h2 : new.length ≤ 1) :
    V1.patchCommon false .void [] old new =
      if (Json.singleValue old).isVoid then .ok (Json.singleValue new) else .err := by
  rw [← V1P.patchNode_void, patchNode_root .void old new rfl h1 h2, equals_void_left]

theorem getElem?_toNat {xs : List Json} {i : Int} (h0 : ¬ i < 0) (hl : (xs.length : Int) > i) :
    xs[i.toNat]? = some (xs[i.toNat]'(by omega)) := by
  rw [List.getElem?_eq_getElem]

/-- index element followed by more path: the element at the index is patched and put back -/
theorem listBody_cons {e : V1.PElem} (he : simple e = true) (xs : List Json) (r : V1.PPath)
    (old new : List Json) (i : Int) (n' : Json) :
    listBody xs (e :: r) old new i = .ok n' ↔
      ∃ x v, 0 ≤ i ∧ xs[i.toNat]? = some x ∧ V1.patchNode false x (e :: r) old new = .ok v ∧
        n' = .arr .list (xs.set i.toNat v) := by
  have hc := patchCommon_cons he .void r old new
  unfold listBody
  simp only [List.isEmpty_cons, Bool.not_false, Bool.and_true, Bool.false_eq_true, if_false, hc]
  by_cases hi : i < 0
  · have hl : (xs.length : Int) > i := by omega
    simp only [hi, hl, if_true, decide_true, Bool.and_self]
    constructor
    · intro h; split at h <;> try split at h
      all_goals cases h
    · rintro ⟨x, v, h0, _⟩; omega
  · by_cases hl : (xs.length : Int) > i
    · have hx := getElem?_toNat hi hl
      have hge : ¬ i ≥ (xs.length : Int) := by omega
      have hgt : ¬ i > (xs.length : Int) := by omega
      have hne : (i == (xs.length : Int)) = false := by
        simp only [beq_eq_false_iff_ne, ne_eq]; omega
      have hset : ∀ v, setAtP xs i v = .ok (xs.set i.toNat v) := by
        intro v
        simp only [setAtP]
        rw [if_neg]
        simp only [Bool.or_eq_true, decide_eq_true_eq, not_or]
        omega
      simp only [hi, hl, hge, hgt, hne, if_true, if_false, decide_true, decide_false,
        Bool.and_false, Bool.false_eq_true, Bool.or_self, V1P.patchListChild_eq _ _ _ xs _ _ hx]
      cases hp : V1.patchNode false (xs[i.toNat]'(by omega)) (e :: r) old new with
      | ok v =>
        simp only [Outcome.bind_ok, hset]
        have e1 : ∀ (c1 c2 : Prop) [Decidable c1] [Decidable c2],
            (if c1 then (pure (Json.arr Tag.list (xs.set i.toNat v)) : Outcome Json)
             else if c2 then pure (Json.arr Tag.list (xs.set i.toNat v))
             else pure (Json.arr Tag.list (xs.set i.toNat v))) =
            .ok (Json.arr Tag.list (xs.set i.toNat v)) := by
          intro c1 c2 _ _; split <;> try split
          all_goals rfl
        rw [e1]
        constructor
        · intro h; cases h
          exact ⟨_, v, by omega, hx, hp, rfl⟩
        · rintro ⟨x, v', _, hx', hp', rfl⟩
          rw [hx] at hx'; cases hx'
          rw [hp] at hp'; cases hp'; rfl
      | err =>
        constructor
        · intro h; split at h <;> try split at h
          all_goals cases h
        · rintro ⟨x, v', _, hx', hp', rfl⟩
          rw [hx] at hx'; cases hx'
          rw [hp] at hp'; cases hp'
      | panic =>
        constructor
        · intro h; split at h <;> try split at h
          all_goals cases h
        · rintro ⟨x, v', _, hx', hp', rfl⟩
          rw [hx] at hx'; cases hx'
          rw [hp] at hp'; cases hp'
    · simp only [hi, hl, if_false, decide_false, Bool.false_and, Bool.false_eq_true]
      constructor
      · intro h; split at h <;> try split at h
        all_goals cases h
      · rintro ⟨x, v', _, hx', _⟩
        have := V1P.lt_of_getElem? hx'
        omega


theorem setAtP_ok {xs : List Json} {i : Int} (hi : ¬ i < 0) (hl : (xs.length : Int) > i) (v : Json) :
    setAtP xs i v = .ok (xs.set i.toNat v) := by
  simp only [setAtP]
  rw [if_neg]
  simp only [Bool.or_eq_true, decide_eq_true_eq, not_or]
  omega

/-- index element at the end of the path, nothing new: the element is checked and deleted -/
theorem listBody_nil_del (xs : List Json) (old new : List Json) (i : Int) (n' : Json)
    (hxs : listDocList xs = true) (h1 : old.length ≤ 1) (h2 : new.length ≤ 1)
    (hn : (Json.singleValue new).isVoid = true) :
    listBody xs [] old new i = .ok n' ↔
      ∃ x, 0 ≤ i ∧ xs[i.toNat]? = some x ∧ V1.equals [] x (Json.singleValue old) = true ∧
        n' = .arr .list (xs.eraseIdx i.toNat) := by
  unfold listBody
  simp only [hn, if_true, List.isEmpty_nil]
  by_cases hi : i < 0
  · simp only [hi, if_true]
    constructor
    · intro h; cases h
    · rintro ⟨x, h0, _⟩; omega
  · by_cases hl : (xs.length : Int) > i
    · have hx := getElem?_toNat hi hl
      have hge : ¬ i ≥ (xs.length : Int) := by omega
      simp only [hi, hl, hge, if_true, if_false, V1P.patchListChild_eq _ _ _ xs _ _ hx,
        patchNode_root _ old new (listDocList_getElem? hxs hx) h1 h2]
      constructor
      · intro h
        split at h
        · rename_i he
          cases h
          exact ⟨_, by omega, hx, he, rfl⟩
        · cases h
      · rintro ⟨x, _, hx', he, rfl⟩
        rw [hx] at hx'; cases hx'
        rw [if_pos he]; rfl
    · have hge : i ≥ (xs.length : Int) := by omega
      simp only [hi, hl, hge, if_true, if_false]
      constructor
      · intro h
        cases hp : V1.patchCommon false Json.void [] old new <;> rw [hp] at h <;> cases h
      · rintro ⟨x, _, hx', _⟩
        have := V1P.lt_of_getElem? hx'
        omega

/-- index element at the end of the path, nothing old: the new value is inserted (appended when
    the index is the length) -/
theorem listBody_nil_ins (xs : List Json) (old new : List Json) (i : Int) (n' : Json)
    (h1 : old.length ≤ 1) (h2 : new.length ≤ 1)
    (hn : (Json.singleValue new).isVoid = false) (ho : (Json.singleValue old).isVoid = true) :
    listBody xs [] old new i = .ok n' ↔
      0 ≤ i ∧ i ≤ (xs.length : Int) ∧
        n' = .arr .list (xs.take i.toNat ++ Json.singleValue new :: xs.drop i.toNat) := by
  unfold listBody
  simp only [hn, ho, if_true, if_false, Bool.false_eq_true, List.isEmpty_nil, Bool.not_true,
    Bool.and_false, Bool.false_and, patchCommon_void_nil old new h1 h2, Outcome.bind_ok]
  by_cases hr : i < 0 ∨ i > (xs.length : Int)
  · have : (decide (i < 0) || decide (i > (xs.length : Int))) = true := by simpa using hr
    simp only [this, if_true]
    constructor
    · intro h; cases h
    · rintro ⟨_, _, _⟩; omega
  · have : (decide (i < 0) || decide (i > (xs.length : Int))) = false := by simpa using hr
    simp only [this, Bool.false_eq_true, if_false]
    by_cases he : i = (xs.length : Int)
    · subst he
      simp only [beq_self_eq_true, if_true, Int.toNat_natCast, List.take_length, List.drop_length]
      constructor
      · intro h; cases h; exact ⟨by omega, by omega, rfl⟩
      · rintro ⟨_, _, rfl⟩; rfl
    · have : (i == (xs.length : Int)) = false := by simpa using he
      simp only [this, Bool.false_eq_true, if_false]
      constructor
      · intro h; cases h; exact ⟨by omega, by omega, rfl⟩
      · rintro ⟨_, _, rfl⟩; rfl

/-- index element at the end of the path, old and new value: the element is checked and replaced -/
theorem listBody_nil_rep (xs : List Json) (old new : List Json) (i : Int) (n' : Json)
    (hxs : listDocList xs = true) (h1 : old.length ≤ 1) (h2 : new.length ≤ 1)
    (hn : (Json.singleValue new).isVoid = false) (ho : (Json.singleValue old).isVoid = false) :
    listBody xs [] old new i = .ok n' ↔
      ∃ x, 0 ≤ i ∧ xs[i.toNat]? = some x ∧ V1.equals [] x (Json.singleValue old) = true ∧
        n' = .arr .list (xs.set i.toNat (Json.singleValue new)) := by
  unfold listBody
  simp only [hn, ho, if_false, Bool.false_eq_true]
  by_cases hi : i < 0
  · simp only [hi, if_true]
    constructor
    · intro h; cases h
    · rintro ⟨x, h0, _⟩; omega
  · by_cases hl : (xs.length : Int) > i
    · have hx := getElem?_toNat hi hl
      simp only [hi, hl, if_true, if_false, V1P.patchListChild_eq _ _ _ xs _ _ hx,
        patchNode_root _ old new (listDocList_getElem? hxs hx) h1 h2]
      constructor
      · intro h
        split at h
        · rename_i he
          simp only [Outcome.bind_ok, setAtP_ok hi hl] at h
          cases h
          exact ⟨_, by omega, hx, he, rfl⟩
        · cases h
      · rintro ⟨x, _, hx', he, rfl⟩
        rw [hx] at hx'; cases hx'
        rw [if_pos he]
        simp only [Outcome.bind_ok, setAtP_ok hi hl]
        rfl
    · simp only [hi, hl, if_false, patchCommon_void_nil old new h1 h2, ho, Bool.false_eq_true]
      constructor
      · intro h; cases h
      · rintro ⟨x, _, hx', _⟩
        have := V1P.lt_of_getElem? hx'
        omega


/-! ## 2. one v1 hunk in the reference semantics `applyStrict` -/

/-- a v1 path element as a v2 path element: the index a number denotes is `int(jn)` -/
def vpe : Json → PathElem
  | .str k => .key k
  | .num b => .idx (V1.floatToInt b)
  | _ => .set

def vpath (p : List Json) : Path := p.map vpe

/-- the values of a hunk side that are not the void marker -/
def nv (l : List Json) : List Json := l.filter (fun x => !x.isVoid)

/-- the v1 hunk as a context-free v2 hunk -/
def vh (q : Path) (old new : List Json) : Hunk := { path := q, remove := nv old, add := nv new }

theorem nv_of_void {l : List Json} (h1 : l.length ≤ 1) (hv : (Json.singleValue l).isVoid = true) :
    nv l = [] := by
  match l, h1 with
  | [], _ => rfl
  | [x], _ => simp only [Json.singleValue] at hv; simp [nv, hv]

theorem nv_of_nonvoid {l : List Json} (h1 : l.length ≤ 1)
    (hv : (Json.singleValue l).isVoid = false) :
    nv l = [Json.singleValue l] ∧ l = [Json.singleValue l] := by
  match l, h1 with
  | [], _ => simp [Json.singleValue, Json.isVoid] at hv
  | [x], _ => simp only [Json.singleValue] at hv; simp [nv, hv, Json.singleValue]

theorem single_nv {l : List Json} (h1 : l.length ≤ 1) : single (nv l) = Json.singleValue l := by
  cases hv : (Json.singleValue l).isVoid
  · rw [(nv_of_nonvoid h1 hv).1]; rfl
  · rw [nv_of_void h1 hv, isVoid_eq hv]; rfl

theorem nv_length_le (l : List Json) : (nv l).length ≤ l.length := List.length_filter_le _ _

theorem listDoc_singleValue {l : List Json} (h : listDocList l = true) :
    (Json.singleValue l).listDoc = true := by
  cases l with
  | nil => rfl
  | cons x r => simp only [listDocList, Bool.and_eq_true] at h; exact h.1

theorem untag_aput (k : String) (kvs : List (String × Json)) {v v' : Json}
    (h : untag v = untag v') : untag (.obj (aput k v kvs)) = untag (.obj (aput k v' kvs)) := by
  have := untag_objUpdate k kvs h
  unfold aput
  split at this <;> split at this <;> simp_all

theorem listDoc_aput (k : String) {kvs : List (String × Json)} {v : Json}
    (hk : listDocKvs kvs = true) (hv : v.listDoc = true) :
    (Json.obj (aput k v kvs)).listDoc = true := by
  unfold aput; split
  · simpa [Json.listDoc] using listDocKvs_aerase k hk
  · simpa [Json.listDoc] using listDocKvs_ainsert k hv hk

theorem getD_listDoc {k : String} {kvs : List (String × Json)} (hk : listDocKvs kvs = true) :
    ((alookup k kvs).getD .void).listDoc = true := by
  cases hl : alookup k kvs with
  | none => rfl
  | some c => exact alookup_listDoc hl hk

theorem untag_arr_congr (t t' : Tag) {xs ys : List Json} (h : xs = ys) :
    untag (.arr t xs) = untag (.arr t' ys) := by
  subst h; simp [untag]

theorem drop_eq_cons {xs : List Json} {k : Nat} {x : Json} (hx : xs[k]? = some x) :
    xs.drop k = x :: xs.drop (k + 1) := by
  have hk := V1P.lt_of_getElem? hx
  rw [List.getElem?_eq_getElem hk] at hx
  cases hx
  exact List.drop_eq_getElem_cons hk

theorem splice_del {xs : List Json} {i : Int} {x o : Json} (h0 : 0 ≤ i)
    (hx : xs[i.toNat]? = some x) (he : specEq x o = true) (H : Hunk) (hr : H.remove = [o])
    (ha : H.add = []) (hb : H.before = []) (hf : H.after = []) :
    splice xs i H = some (xs.eraseIdx i.toNat) := by
  have hlt := V1P.lt_of_getElem? hx
  unfold splice
  have e1 : (i == -1) = false := by simp only [beq_eq_false_iff_ne, ne_eq]; omega
  have e2 : (decide (i < 0) || decide (i > (xs.length : Int))) = false := by
    simp only [Bool.or_eq_false_iff, decide_eq_false_iff_not]; omega
  simp only [e1, e2, Bool.false_eq_true, if_false, hr, ha, hb, hf, drop_eq_cons hx, prefixEq, he,
    beforeOk, afterOk, Bool.and_self, if_true, List.length_cons, List.length_nil,
    List.append_nil, List.drop_succ_cons, List.drop_zero, List.eraseIdx_eq_take_drop_succ]

theorem splice_rep {xs : List Json} {i : Int} {x o v : Json} (h0 : 0 ≤ i)
    (hx : xs[i.toNat]? = some x) (he : specEq x o = true) (H : Hunk) (hr : H.remove = [o])
    (ha : H.add = [v]) (hb : H.before = []) (hf : H.after = []) :
    splice xs i H = some (xs.set i.toNat v) := by
  have hlt := V1P.lt_of_getElem? hx
  unfold splice
  have e1 : (i == -1) = false := by simp only [beq_eq_false_iff_ne, ne_eq]; omega
  have e2 : (decide (i < 0) || decide (i > (xs.length : Int))) = false := by
    simp only [Bool.or_eq_false_iff, decide_eq_false_iff_not]; omega
  simp only [e1, e2, Bool.false_eq_true, if_false, hr, ha, hb, hf, drop_eq_cons hx, prefixEq, he,
    beforeOk, afterOk, Bool.and_self, if_true, List.length_cons, List.length_nil,
    List.drop_succ_cons, List.drop_zero, List.set_eq_take_append_cons_drop, hlt]
  simp

theorem splice_ins {xs : List Json} {i : Int} {v : Json} (H : Hunk) (hr : H.remove = [])
    (ha : H.add = [v]) (hb : H.before = []) (hf : H.after = [])
    (h0 : 0 ≤ (if i == -1 then (xs.length : Int) else i))
    (hl : (if i == -1 then (xs.length : Int) else i) ≤ (xs.length : Int)) :
    splice xs i H = some (xs.take (if i == -1 then (xs.length : Int) else i).toNat ++
      v :: xs.drop (if i == -1 then (xs.length : Int) else i).toNat) := by
  unfold splice
  by_cases hi : (i == -1) = true
  · simp [hi, hr, ha]
  · simp only [hi, Bool.false_eq_true, if_false] at h0 hl ⊢
    have e2 : (decide (i < 0) || decide (i > (xs.length : Int))) = false := by
      simp only [Bool.or_eq_false_iff, decide_eq_false_iff_not]; omega
    simp [e2, hr, ha, hb, hf, prefixEq, beforeOk, afterOk]

/-- **v1 patch ⇒ reference semantics.** Wherever `jsonNode.patch` (strict strategy) accepts a hunk
    with a key / index path on a list document, the reference interpreter accepts the
    corresponding context-free hunk, with the same result up to array tags; the result is again a
    list document. -/
theorem patch_applyStrict (q : Path) (old new : List Json) (h1 : old.length ≤ 1)
    (h2 : new.length ≤ 1)
    (hne : (Json.singleValue old).isVoid = false ∨ (Json.singleValue new).isVoid = false)
    (hlo : listDocList old = true) (hln : listDocList new = true) :
    ∀ (p : List Json) (n n' : Json), plain p = true → n.listDoc = true →
      V1.patchNode false n (V1.liftPath p) old new = .ok n' →
      ∃ n'', applyStrict n (vpath p) (vh q old new) = some n'' ∧ untag n'' = untag n' ∧
        n'.listDoc = true
  | [], n, n', _, hn, e => by
    simp only [V1.liftPath, List.map_nil] at e
    rw [patchNode_root n old new hn h1 h2] at e
    split at e
    · rename_i he
      cases e
      rw [v1_equals_eq_specEq ListMode.nil hn (listDoc_singleValue hlo)] at he
      refine ⟨Json.singleValue new, ?_, rfl, listDoc_singleValue hln⟩
      have l1 := nv_length_le old
      have l2 := nv_length_le new
      simp only [vpath, List.map_nil, applyStrict, vh, single_nv h1, single_nv h2, he, if_true]
      rw [if_neg]
      simp only [Bool.or_eq_true, decide_eq_true_eq, not_or]
      omega
    · cases e
  | .str k :: rest, n, n', hp, hn, e => by
    have hs : simple (.node (.str k)) = true := rfl
    simp only [V1.liftPath, List.map_cons] at e
    cases n with
    | obj kvs =>
      rw [patchNode_obj hs] at e
      simp only [V1.asKey] at e
      simp only [Json.listDoc] at hn
      cases hv : V1.patchNode false ((alookup k kvs).getD .void) (List.map V1.PElem.node rest) old new with
      | ok v =>
        rw [hv] at e
        simp only [Outcome.bind_ok, Outcome.ok.injEq] at e
        subst e
        obtain ⟨v'', e1, e2, e3⟩ := patch_applyStrict q old new h1 h2 hne hlo hln rest _ v
          (by simpa [plain] using hp) (getD_listDoc hn) hv
        refine ⟨.obj (aput k v'' kvs), ?_, untag_aput k kvs e2, listDoc_aput k hn e3⟩
        simp only [vpath, List.map_cons, vpe]
        rw [applyStrict_key]
        simp only [vpath] at e1
        rw [e1]; rfl
      | err => rw [hv] at e; cases e
      | panic => rw [hv] at e; cases e
    | arr t xs =>
      simp only [Json.listDoc, Bool.and_eq_true] at hn
      rw [patchNode_arr hs hn.1 xs _ old new h1 h2] at e
      simp [V1.asIndexBits] at e
    | _ => rw [patchNode_other hs _ _ _ _ (by intro t xs h; cases h) (by intro kvs h; cases h)] at e; cases e
  | .num b :: rest, n, n', hp, hn, e => by
    have hs : simple (.node (.num b)) = true := rfl
    simp only [V1.liftPath, List.map_cons] at e
    cases n with
    | obj kvs =>
      rw [patchNode_obj hs] at e
      simp [V1.asKey] at e
    | arr t xs =>
      simp only [Json.listDoc, Bool.and_eq_true] at hn
      rw [patchNode_arr hs hn.1 xs _ old new h1 h2] at e
      simp only [V1.asIndexBits] at e
      generalize hi0 : V1.floatToInt b = i0 at e
      generalize hii : (if (i0 == -1) = true then (xs.length : Int) else i0) = i at e
      cases rest with
      | cons e0 r0 =>
        have hs0 : simple (.node e0) = true := by
          cases e0 <;> simp_all [plain, simple]
        simp only [List.map_cons] at e
        rw [listBody_cons hs0] at e
        obtain ⟨x, v, h0, hx, hv, rfl⟩ := e
        have hlt := V1P.lt_of_getElem? hx
        have hi : i = i0 := by
          rw [← hii]; split
          · rename_i h; rw [if_pos h] at hii; omega
          · rfl
        subst hi
        obtain ⟨v'', e1, e2, e3⟩ := patch_applyStrict q old new h1 h2 hne hlo hln (e0 :: r0) x v
          (by simpa [plain] using hp) (listDocList_getElem? hn.2 hx) hv
        refine ⟨.arr .raw (xs.set i.toNat v''), ?_, untag_arrSet _ _ _ _ e2,
          by simpa [Json.listDoc] using listDocList_set hn.2 e3⟩
        simp only [vpath, List.map_cons, vpe, hi0] at e1 ⊢
        rw [applyStrict]
        · rw [if_neg (by omega), hx]
          simp only [e1, Option.map_some]
        · intro h; cases h
      | nil =>
        simp only [List.map_nil] at e
        simp only [vpath, List.map_cons, List.map_nil, vpe, hi0, applyStrict_idx_nil]
        have hidx : ∀ x, xs[i.toNat]? = some x → i = i0 := by
          intro x hx
          have hlt := V1P.lt_of_getElem? hx
          rw [← hii]; split
          · rename_i h; rw [if_pos h] at hii; omega
          · rfl
        cases hnv : (Json.singleValue new).isVoid with
        | true =>
          have hov : (Json.singleValue old).isVoid = false := by
            rcases hne with h | h
            · exact h
            · rw [hnv] at h; cases h
          rw [listBody_nil_del xs old new i n' hn.2 h1 h2 hnv] at e
          obtain ⟨x, h0, hx, he, rfl⟩ := e
          have := hidx x hx; subst this
          rw [v1_equals_eq_specEq ListMode.nil (listDocList_getElem? hn.2 hx)
            (listDoc_singleValue hlo)] at he
          rw [splice_del h0 hx he (vh q old new) (nv_of_nonvoid h1 hov).1 (nv_of_void h2 hnv) rfl rfl]
          refine ⟨_, rfl, untag_arr_congr _ _ rfl, ?_⟩
          simp only [Json.listDoc, Bool.and_eq_true]
          refine ⟨rfl, ?_⟩
          rw [List.eraseIdx_eq_take_drop_succ]
          exact listDocList_append.2 ⟨listDocList_take _ hn.2, listDocList_drop _ hn.2⟩
        | false =>
          cases hov : (Json.singleValue old).isVoid with
          | true =>
            rw [listBody_nil_ins xs old new i n' h1 h2 hnv hov] at e
            obtain ⟨h0, hl, rfl⟩ := e
            subst hii
            rw [splice_ins (vh q old new) (nv_of_void h1 hov) (nv_of_nonvoid h2 hnv).1 rfl rfl h0 hl]
            refine ⟨_, rfl, untag_arr_congr _ _ rfl, ?_⟩
            simp only [Json.listDoc, Bool.and_eq_true]
            refine ⟨rfl, ?_⟩
            refine listDocList_append.2 ⟨listDocList_take _ hn.2, ?_⟩
            simp only [listDocList, Bool.and_eq_true]
            exact ⟨listDoc_singleValue hln, listDocList_drop _ hn.2⟩
          | false =>
            rw [listBody_nil_rep xs old new i n' hn.2 h1 h2 hnv hov] at e
            obtain ⟨x, h0, hx, he, rfl⟩ := e
            have := hidx x hx; subst this
            rw [v1_equals_eq_specEq ListMode.nil (listDocList_getElem? hn.2 hx)
              (listDoc_singleValue hlo)] at he
            rw [splice_rep h0 hx he (vh q old new) (nv_of_nonvoid h1 hov).1
              (nv_of_nonvoid h2 hnv).1 rfl rfl]
            refine ⟨_, rfl, untag_arr_congr _ _ rfl, ?_⟩
            simpa [Json.listDoc] using listDocList_set hn.2 (listDoc_singleValue hln)
    | _ => rw [patchNode_other hs _ _ _ _ (by intro t xs h; cases h) (by intro kvs h; cases h)] at e; cases e


/-! ## 3. the reference semantics of a context-free hunk ⇒ RFC 6902 operations (token level) -/

/-- `test`+`remove` for the removed value, `add` for the added one, all at the pointer `tk` -/
def opsT (tk : List String) (H : Hunk) : List TOp := remT tk H.remove ++ addT tk H.add

theorem opsT_under (pre tk : List String) (H : Hunk) :
    (opsT tk H).map (TOp.under pre) = opsT (pre ++ tk) H := by
  simp only [opsT, List.map_append, remT_under, addT_under]

theorem opsT_path {tk : List String} {H : Hunk} : ∀ o ∈ opsT tk H, o.path = tk := by
  intro o ho
  rcases List.mem_append.1 ho with ho | ho
  · exact remT_path o ho
  · exact addT_path o ho

theorem applyStrict_evalTs (L : FloatLaws) {c r : Json} {H : Hunk} {p : Path}
    (hw : c.wf = true) (hr : noVoid H.remove) (ha : noVoid H.add)
    (hne : (H.remove.isEmpty && H.add.isEmpty) = false)
    (hb : H.before = []) (hf : H.after = []) (hal : H.add.length ≤ 1)
    (e : applyStrict c p H = some r) :
    ∃ r', evalTs c (opsT (ptoks p) H) = some r' ∧ untag r' = untag r := by
  rcases eq_nil_or_snoc p with hnil | ⟨pp, last, hpath⟩
  · subst hnil
    exact ⟨r, root_leaf e hr ha hne, rfl⟩
  · subst hpath
    rw [ptoks_concat, ← opsT_under]
    have hnePaths : ∀ o ∈ opsT [elemTok last] H, o.path ≠ [] := by
      intro o ho; rw [opsT_path o ho]; simp
    cases last with
    | key k =>
      exact nav _ hnePaths (.key k) H
        (fun n r hw e => ⟨r, key_leaf hw e hr ha hne, rfl⟩) pp c r hw e
    | idx i =>
      have hl : listOpsT i H = opsT [elemTok (.idx i)] H := by
        simp only [listOpsT, hb, hf, ctxT, List.nil_append, opsT, elemTok]
      refine nav _ hnePaths (.idx i) H (fun n r hw e => ?_) pp c r hw e
      rw [← hl]
      exact idx_leaf_any L hw e hr (by simp [hb]) (by simp [hf]) (by simp [hb, wfList])
        (by simp [hf, wfList]) (fun _ => ⟨hal, by simp [hb], by simp [hf]⟩)
    | _ =>
      exfalso
      have := applyStrict_strictPath e
      simp [strictPath_append, strictPath] at this


/-! ## 4. the v1 pointer layer: `writePointer`, RFC 6901 parsing, `readPointer` -/

/-- the reference token of a v1 path element: keys as they are (integer-looking or not), indices
    in decimal, `-` for the append index -1 -/
def tokOf : Json → String
  | .str s => s
  | .num b => idxTok (V1.floatToInt b)
  | _ => ""

def toks (p : List Json) : List String := p.map tokOf

theorem ptoks_vpath : ∀ {p : List Json}, plain p = true → ptoks (vpath p) = toks p
  | [], _ => rfl
  | .str k :: r, h => by
    have := ptoks_vpath (p := r) (by simpa [plain] using h)
    simp only [ptoks, vpath, toks] at this ⊢
    simp [vpe, elemTok, tokOf, this]
  | .num b :: r, h => by
    have := ptoks_vpath (p := r) (by simpa [plain] using h)
    simp only [ptoks, vpath, toks] at this ⊢
    simp [vpe, elemTok, tokOf, this]
  | .void :: _, h => by simp [plain] at h
  | .null :: _, h => by simp [plain] at h
  | .bool _ :: _, h => by simp [plain] at h
  | .arr _ _ :: _, h => by simp [plain] at h
  | .obj _ :: _, h => by simp [plain] at h

/-- no path element is the key "-" (which `writePointer` refuses) -/
def noDashP : List Json → Bool
  | [] => true
  | .str s :: r => s != "-" && noDashP r
  | _ :: r => noDashP r

/-- the text `/esc(t₁)/esc(t₂)…` -/
def ptrText (tk : List String) : List Char := tk.flatMap (fun t => '/' :: escChars t.toList)

/-- `writePointer` accepts every key / index path without the key "-" and writes its tokens -/
theorem writePointer_plain : ∀ (p : List Json), plain p = true → noDashP p = true →
    ∃ s, V1.writePointer (V1.liftPath p) = .ok s ∧ s.toList = ptrText (toks p)
  | [], _, _ => ⟨"", rfl, rfl⟩
  | .str k :: r, hp, hd => by
    simp only [noDashP, Bool.and_eq_true, bne_iff_ne, ne_eq] at hd
    obtain ⟨rest, h1, h2⟩ := writePointer_plain r (by simpa [plain] using hp) hd.2
    refine ⟨"/" ++ ptrEscape k ++ rest, ?_, ?_⟩
    · simp only [V1.liftPath, List.map_cons] at h1 ⊢
      simp only [V1.writePointer, h1]
      rw [if_neg (by simpa using hd.1)]
    · simp [String.toList_append, ptrEscape_toList, h2, ptrText, toks, tokOf]
  | .num b :: r, hp, hd => by
    obtain ⟨rest, h1, h2⟩ := writePointer_plain r (by simpa [plain] using hp) (by simpa [noDashP] using hd)
    by_cases hi : (V1.floatToInt b == -1) = true
    · refine ⟨"/" ++ "-" ++ rest, ?_, ?_⟩
      · simp only [V1.liftPath, List.map_cons] at h1 ⊢
        simp only [V1.writePointer, h1, hi, if_true]
      · have : ("-" : String).toList = escChars ("-" : String).toList := by decide
        simp [String.toList_append, h2, ptrText, toks, tokOf, idxTok, hi, escChars]
    · refine ⟨"/" ++ ptrEscape (toString (V1.floatToInt b)) ++ rest, ?_, ?_⟩
      · simp only [V1.liftPath, List.map_cons] at h1 ⊢
        simp only [V1.writePointer, h1, hi, if_false, Bool.false_eq_true]
      · simp [String.toList_append, ptrEscape_toList, h2, ptrText, toks, tokOf, idxTok, hi]
  | .void :: _, h, _ => by simp [plain] at h
  | .null :: _, h, _ => by simp [plain] at h
  | .bool _ :: _, h, _ => by simp [plain] at h
  | .arr _ _ :: _, h, _ => by simp [plain] at h
  | .obj _ :: _, h, _ => by simp [plain] at h

theorem writePointer_tail {e : V1.PElem} {r : V1.PPath} {s : String}
    (h : V1.writePointer (e :: r) = .ok s) : ∃ rest, V1.writePointer r = .ok rest := by
  cases hw : V1.writePointer r with
  | ok rest => exact ⟨rest, rfl⟩
  | err =>
    exfalso
    unfold V1.writePointer at h
    simp only [hw] at h
    split at h <;> cases h
  | panic =>
    exfalso
    unfold V1.writePointer at h
    simp only [hw] at h
    split at h <;> cases h

/-- `writePointer` refuses a path holding the key "-" -/
theorem writePointer_dash (pre post : List Json) :
    ∀ s, V1.writePointer (V1.liftPath (pre ++ .str "-" :: post)) ≠ .ok s := by
  induction pre with
  | nil =>
    intro s
    simp only [List.nil_append, V1.liftPath, List.map_cons, V1.writePointer]
    simp
  | cons e pre ih =>
    intro s h
    simp only [List.cons_append, V1.liftPath, List.map_cons] at h ih
    obtain ⟨rest, hr⟩ := writePointer_tail h
    exact ih rest hr

/-- the element `readPointer` makes of a decoded token -/
def rtok (t : String) : V1.PElem :=
  if (atoi? t).isSome then .sori t
  else if t == "-" then .node V1.numNeg1
  else .node (.str t)

theorem readPointer_of_toList {s : String} {tk : List String} (h : s.toList = ptrText tk) :
    V1.readPointer s = .ok (tk.map rtok) := by
  unfold V1.readPointer
  cases tk with
  | nil =>
    have : s = "" := by apply String.toList_inj.1; simpa [ptrText] using h
    simp [this]
  | cons t r =>
    have hne : (s == "") = false := by
      rw [beq_eq_false_iff_ne]
      intro he; rw [he] at h; simp [ptrText] at h
    have hsw : s.startsWith "/" = true := by
      rw [String.startsWith_string_iff, h]
      exact ⟨_, rfl⟩
    simp only [hne, hsw, Bool.false_eq_true, if_false, Bool.not_true]
    rw [splitOn_slash, h]
    have := splitOnP_tokens (· == '/') '/' (by simp)
      ((t :: r).map (fun t => escChars t.toList)) [] (by simp)
      (by
        intro t' ht' x hx
        obtain ⟨t'', _, rfl⟩ := List.mem_map.1 ht'
        have := escChars_no_slash t''.toList
        simp only [beq_eq_false_iff_ne, ne_eq]
        intro he; subst he; exact this hx)
    simp only [List.nil_append, List.flatMap_map] at this
    unfold ptrText
    rw [this]
    simp only [List.map_cons, List.drop_succ_cons, List.drop_zero, List.map_map]
    have hm : ∀ l : List String,
        List.map ((fun t => if (atoi? t).isSome = true then V1.PElem.sori t
            else if (t == "-") = true then V1.PElem.node V1.numNeg1 else V1.PElem.node (Json.str t)) ∘
          ptrUnescape ∘ String.ofList ∘ fun t => escChars t.toList) l = l.map rtok := by
      intro l
      apply List.map_congr_left
      intro a _
      simp only [Function.comp, PB.ptrUnescape_esc, String.ofList_toList, rtok]
    rw [hm, PB.ptrUnescape_esc, String.ofList_toList]
    rfl


/-! ## 5. the rendered operations of one hunk -/

theorem renderPatchHunk_v1 {h : V1.Hunk} {s : String}
    (hs : V1.writePointer (V1.liftPath h.path) = .ok s) (h1 : h.old.length ≤ 1)
    (h2 : h.new.length ≤ 1)
    (hne : (Json.singleValue h.old).isVoid = false ∨ (Json.singleValue h.new).isVoid = false) :
    V1.renderPatchHunk h.toP = .ok (remOpsOf s (nv h.old) ++ addOpsOf s (nv h.new)) := by
  obtain ⟨p, old, new⟩ := h
  simp only [V1.renderPatchHunk, V1.Hunk.toP] at hs ⊢
  simp only [hs]
  match old, new, h1, h2 with
  | [], [], _, _ => simp [Json.singleValue, Json.isVoid] at hne
  | [o], [], _, _ =>
    cases ho : o.isVoid
    · simp [nv, ho, remOpsOf, addOpsOf]; rfl
    · simp only [Json.singleValue, ho] at hne; simp [Json.isVoid] at hne
  | [], [v], _, _ =>
    cases hv : v.isVoid
    · simp [nv, hv, remOpsOf, addOpsOf]; rfl
    · simp only [Json.singleValue, hv] at hne; simp [Json.isVoid] at hne
  | [o], [v], _, _ =>
    cases ho : o.isVoid <;> cases hv : v.isVoid
    · simp [nv, ho, hv, remOpsOf, addOpsOf]; rfl
    · simp [nv, ho, hv, remOpsOf, addOpsOf]; rfl
    · simp [nv, ho, hv, remOpsOf, addOpsOf]; rfl
    · simp only [Json.singleValue, ho, hv] at hne; simp at hne


theorem noVoid_nv (l : List Json) : noVoid (nv l) := by
  intro x hx
  simpa [nv] using (List.mem_filter.1 hx).2

theorem nv_sub {l : List Json} {x : Json} (hx : x ∈ nv l) : x ∈ l := (List.mem_filter.1 hx).1

theorem nv_isEmpty {old new : List Json} (h1 : old.length ≤ 1) (h2 : new.length ≤ 1)
    (hne : (Json.singleValue old).isVoid = false ∨ (Json.singleValue new).isVoid = false) :
    ((nv old).isEmpty && (nv new).isEmpty) = false := by
  rcases hne with h | h
  · rw [(nv_of_nonvoid h1 h).1]; rfl
  · rw [(nv_of_nonvoid h2 h).1]; simp

/-- the hunks of the theorems (what a list-mode v1 diff of documents without the key "-" is made of):
    key / index path without the key "-", at most one old and one new value, not both absent, the
    old value a finite well-formed list document that is not void, the new value a well-formed list
    document which may be the void marker only at the root -/
structure HK (h : V1.Hunk) : Prop where
  hok : HOK h
  nodash : noDashP h.path = true
  ne : (Json.singleValue h.old).isVoid = false ∨ (Json.singleValue h.new).isVoid = false
  oldOK : ∀ o ∈ h.old, o.listDoc = true ∧ o.wf = true ∧ o.finiteNums = true ∧ o.isVoid = false
  newOK : ∀ v ∈ h.new, v.listDoc = true ∧ v.wf = true
  newV : noVoid h.new ∨ h.path = []

theorem HK.listDocOld {h : V1.Hunk} (hk : HK h) : listDocList h.old = true :=
  listDocList_iff.2 (fun o ho => (hk.oldOK o ho).1)

theorem HK.listDocNew {h : V1.Hunk} (hk : HK h) : listDocList h.new = true :=
  listDocList_iff.2 (fun o ho => (hk.newOK o ho).1)

/-- **one hunk, RFC 6902.** If the v1 patch code accepts the hunk on `c`, the operations rendered
    for it evaluate (independent evaluator) on any document equal to `c` up to array tags, with the
    same result up to array tags; list-document-ness and well-formedness are kept. -/
theorem hunk_sim (L : FloatLaws) {h : V1.Hunk} (hk : HK h) {c c2 c1 : Json}
    (hc : c.listDoc = true) (hw : c.wf = true) (hu : untag c2 = untag c) (e : ap c h = .ok c1) :
    ∃ ops, V1.renderPatchHunk h.toP = .ok ops ∧ (∀ o ∈ ops, o.wfOp) ∧
      c1.listDoc = true ∧ c1.wf = true ∧
      ∃ r', eval c2 (ops.map PatchOp.toSpec) = some r' ∧ untag r' = untag c1 := by
  obtain ⟨s, hs, htl⟩ := writePointer_plain h.path hk.hok.plain hk.nodash
  have hp : parsePointer s = some (toks h.path) := parsePointer_of_toList htl
  refine ⟨_, renderPatchHunk_v1 hs hk.hok.old hk.hok.new hk.ne, ?_, ?_⟩
  · intro o ho
    rcases List.mem_append.1 ho with ho | ho
    · exact remOpsOf_wf _ _ o ho
    · exact addOpsOf_wf _ _ o ho
  obtain ⟨n'', e1, e2, e3⟩ := patch_applyStrict [] h.old h.new hk.hok.old hk.hok.new hk.ne
    hk.listDocOld hk.listDocNew h.path c c1 hk.hok.plain hc e
  have hwadd : wfList (vh [] h.old h.new).add = true :=
    wfList_iff.2 (fun x hx => (hk.newOK x (nv_sub hx)).2)
  have hw1 : c1.wf = true := by
    rw [← untag_wf, ← e2, untag_wf]
    exact applyStrict_wf hw hwadd e1
  refine ⟨e3, hw1, ?_⟩
  have hcg := applyStrict_untag_congr hu (vpath h.path) (vh [] h.old h.new)
  rw [e1] at hcg
  cases e4 : applyStrict c2 (vpath h.path) (vh [] h.old h.new) with
  | none => rw [e4] at hcg; cases hcg
  | some m =>
    rw [e4] at hcg
    simp only [Option.map_some, Option.some.injEq] at hcg
    have hw2 : c2.wf = true := by rw [← untag_wf, hu, untag_wf]; exact hw
    obtain ⟨r', e5, e6⟩ := applyStrict_evalTs L hw2 (noVoid_nv _) (noVoid_nv _)
      (nv_isEmpty hk.hok.old hk.hok.new hk.ne) rfl rfl
      (Nat.le_trans (nv_length_le _) hk.hok.new) e4
    refine ⟨r', ?_, by rw [e6, hcg, e2]⟩
    rw [ptoks_vpath hk.hok.plain] at e5
    rw [eval_of_rep ((repL_rem hp _ (noVoid_nv _)).append (repL_add hp _ (noVoid_nv _)))]
    exact e5


/-! ## 6. a whole diff, RFC 6902 -/

theorem diff_sim (L : FloatLaws) :
    ∀ (d : V1.VDiff) {c c2 r : Json}, c.listDoc = true → c.wf = true → untag c2 = untag c →
      (∀ h ∈ d, HK h) → V1.patchAll c d = .ok r →
      ∃ ops, V1.renderPatchOps (V1.liftDiff d) = .ok ops ∧ (∀ o ∈ ops, o.wfOp) ∧
        r.listDoc = true ∧ r.wf = true ∧
        ∃ r', eval c2 (ops.map PatchOp.toSpec) = some r' ∧ untag r' = untag r
  | [], c, c2, r, hc, hw, hu, _, e => by
    simp only [patchAll_nil, Outcome.ok.injEq] at e
    subst e
    exact ⟨[], rfl, by simp, hc, hw, c2, rfl, hu⟩
  | h :: d, c, c2, r, hc, hw, hu, hd, e => by
    have hk := hd h List.mem_cons_self
    rw [patchAll_cons _ _ _ hk.hok] at e
    cases e1 : ap c h with
    | err => rw [e1] at e; cases e
    | panic => rw [e1] at e; cases e
    | ok c1 =>
      rw [e1] at e
      simp only [Outcome.bind_ok] at e
      obtain ⟨ops1, hr1, hwf1, hc1, hw1, r1, hev1, hu1⟩ := hunk_sim L hk hc hw hu e1
      obtain ⟨ops2, hr2, hwf2, hc2, hw2, r2, hev2, hu2⟩ := diff_sim L d hc1 hw1 hu1
        (fun h' hm => hd h' (List.mem_cons_of_mem _ hm)) e
      refine ⟨ops1 ++ ops2, ?_, ?_, hc2, hw2, r2, ?_, hu2⟩
      · simp only [V1.liftDiff, List.map_cons, V1.renderPatchOps] at hr2 ⊢
        rw [hr1, hr2]; rfl
      · intro o ho
        rcases List.mem_append.1 ho with ho | ho
        · exact hwf1 o ho
        · exact hwf2 o ho
      · rw [List.map_append, eval_append, hev1]
        exact hev2


/-! ## 7. the shape of the hunks of a list-mode v1 diff -/

mutual
/-- no object key is "-" (the one key `writePointer` refuses) -/
def noDash : Json → Bool
  | .arr _ xs => noDashL xs
  | .obj kvs => noDashK kvs
  | _ => true
def noDashL : List Json → Bool
  | [] => true
  | x :: r => noDash x && noDashL r
def noDashK : List (String × Json) → Bool
  | [] => true
  | (k, v) :: r => k != "-" && noDash v && noDashK r
end

theorem noDash_dispatch (m : V1.Metas) (y : Json) : noDash (V1.dispatch m y) = noDash y := by
  cases y with
  | arr t ys => cases t <;> simp [V1.dispatch, noDash]
  | _ => rfl

theorem noDashL_mem : ∀ {l : List Json} {x : Json}, noDashL l = true → x ∈ l → noDash x = true
  | y :: r, x, h, hx => by
    simp only [noDashL, Bool.and_eq_true] at h
    rcases List.mem_cons.1 hx with rfl | hx
    · exact h.1
    · exact noDashL_mem h.2 hx

theorem noDashK_mem : ∀ {l : List (String × Json)} {k : String} {v : Json}, noDashK l = true →
    (k, v) ∈ l → k ≠ "-" ∧ noDash v = true
  | (k', v') :: r, k, v, h, hx => by
    simp only [noDashK, Bool.and_eq_true, bne_iff_ne, ne_eq] at h
    rcases List.mem_cons.1 hx with e | hx
    · cases e; exact ⟨h.1.1, h.1.2⟩
    · exact noDashK_mem h.2 hx

/-- an index element of a diff path: the append index -1, or `float64(k)` for a `k < N` -/
def idxE (N : Nat) (e : Json) : Prop :=
  ∀ b, e = .num b → (e = V1.numNeg1 ∨ ∃ k, k < N ∧ e = V1.numOfNat k)

def idxP (N : Nat) (p : List Json) : Prop := ∀ e ∈ p, idxE N e

/-- the part of `HK` that is not in `V1P.HOK`, plus the index shape -/
structure HV (N : Nat) (h : V1.Hunk) : Prop where
  idx : idxP N h.path
  ne : (Json.singleValue h.old).isVoid = false ∨ (Json.singleValue h.new).isVoid = false
  oldOK : ∀ o ∈ h.old, o.listDoc = true ∧ o.wf = true ∧ o.finiteNums = true ∧ o.isVoid = false
  newOK : ∀ v ∈ h.new, v.listDoc = true ∧ v.wf = true

theorem HV.shift_str {N : Nat} {h : V1.Hunk} (hh : HV N h) (hv : noVoid h.new) (k : String) :
    HV N (shift [.str k] h) ∧ noVoid (shift [.str k] h).new :=
  ⟨⟨by
      intro e he
      rcases List.mem_cons.1 he with rfl | he
      · intro b hb; cases hb
      · exact hh.idx e he,
    hh.ne, hh.oldOK, hh.newOK⟩, hv⟩

theorem HV.shift_num {N : Nat} {h : V1.Hunk} (hh : HV N h) (hv : noVoid h.new) {i : Nat}
    (hi : i < N) : HV N (shift [V1.numOfNat i] h) ∧ noVoid (shift [V1.numOfNat i] h).new :=
  ⟨⟨by
      intro e he
      rcases List.mem_cons.1 he with rfl | he
      · intro b _; exact .inr ⟨i, hi, rfl⟩
      · exact hh.idx e he,
    hh.ne, hh.oldOK, hh.newOK⟩, hv⟩

theorem dom_vals {x : Json} (h : Dom x) :
    x.listDoc = true ∧ x.wf = true ∧ x.finiteNums = true :=
  ⟨h.good.listDoc, h.good.wf, h.good.fin⟩

theorem nodeList_mem {x o : Json} (h : o ∈ x.nodeList) : o = x ∧ x.isVoid = false := by
  unfold Json.nodeList at h
  split at h
  · cases h
  · rename_i hv; simp only [List.mem_singleton] at h; exact ⟨h, by simpa using hv⟩

theorem noVoid_nodeList (x : Json) : noVoid x.nodeList := by
  intro o ho
  obtain ⟨rfl, hv⟩ := nodeList_mem ho
  exact hv

theorem singleValue_nodeList (x : Json) : Json.singleValue x.nodeList = x := by
  unfold Json.nodeList
  split
  · rename_i h; rw [isVoid_eq h]; rfl
  · rfl


/-- what is proved of every hunk of `a.Diff(b)`: `HV`, and the new side holds no void marker unless
    the hunk is the root hunk against "no document" -/
def QH (N : Nat) (b : Json) (h : V1.Hunk) : Prop :=
  HV N h ∧ (noVoid h.new ∨ (h.path = [] ∧ b.isVoid = true))

theorem noDashP_single_num (b : UInt64) : noDashP [Json.num b] = true := rfl

theorem idxP_nil (N : Nat) : idxP N [] := fun _ h => by cases h

theorem diff_shape (N : Nat) (m : V1.Metas) (hm : ListMode m) :
    (∀ a b, a.listDoc = true → b.listDoc = true → Dom a → Dom b → lenLe N a = true →
      ∀ h ∈ V1.diffNode m false a b [], QH N b h) ∧
    (∀ kvs' kvs, listDocKvs kvs' = true → listDocKvs kvs = true → DomK kvs → DomK kvs' →
      lenLeKvs N kvs = true →
      ∀ h ∈ V1.diffKvs m false [] kvs' kvs, HV N h ∧ noVoid h.new) ∧
    (∀ ys xs, listDocList ys = true → listDocList xs = true → DomL xs → DomL ys →
      lenLeList N xs = true →
      ∀ i, i + xs.length ≤ N → ∀ d ∈ V1.diffElems m false [] i ys xs, ∀ h ∈ d,
        HV N h ∧ noVoid h.new) := by
  apply v1_induct m hm
    (mN := fun a b => Dom a → Dom b → lenLe N a = true →
      ∀ h ∈ V1.diffNode m false a b [], QH N b h)
    (mK := fun kvs' kvs => DomK kvs → DomK kvs' →
      lenLeKvs N kvs = true →
      ∀ h ∈ V1.diffKvs m false [] kvs' kvs, HV N h ∧ noVoid h.new)
    (mE := fun ys xs => DomL xs → DomL ys →
      lenLeList N xs = true →
      ∀ i, i + xs.length ≤ N → ∀ d ∈ V1.diffElems m false [] i ys xs, ∀ h ∈ d,
        HV N h ∧ noVoid h.new)
  · -- list against list
    intro t t' xs ys ht ht' htt _ _ ih ha hb hlen h hmem
    rw [V1P.diffNode_arr_arr hm xs ys ht ht' htt] at hmem
    have ha' := dom_arr.1 ha
    have hb' := dom_arr.1 hb
    simp only [lenLe, Bool.and_eq_true, decide_eq_true_eq] at hlen
    have ih' := ih ha'.2 hb'.2 hlen.2 0 (by omega)
    have key : HV N h ∧ noVoid h.new := by
      unfold listDiff at hmem
      split at hmem
      · rcases List.mem_append.1 hmem with hmem | hmem
        · obtain ⟨d, hd, hh⟩ := List.mem_flatten.1 hmem
          exact ih' d hd h hh
        · obtain ⟨y, hy, rfl⟩ := List.mem_map.1 hmem
          have hy' := (hb'.2.drop _).of_mem hy
          refine ⟨⟨?_, .inr ?_, ?_, ?_⟩, noVoid_nodeList y⟩
          · intro e he
            simp only [List.nil_append, List.mem_singleton] at he
            subst he
            intro b _; exact .inl rfl
          · simp only [singleValue_nodeList]; exact hy'.2
          · intro o ho; cases ho
          · intro v hv
            obtain ⟨rfl, _⟩ := nodeList_mem hv
            exact ⟨hy'.1.good.listDoc, hy'.1.good.wf⟩
      · rcases List.mem_append.1 hmem with hmem | hmem
        · obtain ⟨xi, hxi, rfl⟩ := List.mem_map.1 hmem
          obtain ⟨x, j⟩ := xi
          have hz := List.mem_zipIdx (List.mem_reverse.1 hxi)
          have hxm : x ∈ xs.drop ys.length := by rw [hz.2.2]; exact List.getElem_mem _
          have hx' := (ha'.2.drop _).of_mem hxm
          have hj : j < N := by
            have := hz.2.1
            simp only [List.length_drop] at this
            omega
          refine ⟨⟨?_, .inl ?_, ?_, ?_⟩, by intro o ho; cases ho⟩
          · intro e he
            simp only [List.nil_append, List.mem_singleton] at he
            subst he
            intro b _; exact .inr ⟨j, hj, rfl⟩
          · simp only [singleValue_nodeList]; exact hx'.2
          · intro o ho
            obtain ⟨rfl, hv⟩ := nodeList_mem ho
            exact ⟨hx'.1.good.listDoc, hx'.1.good.wf, hx'.1.good.fin, hv⟩
          · intro v hv; cases hv
        · obtain ⟨d, hd, hh⟩ := List.mem_flatten.1 hmem
          exact ih' d (List.mem_reverse.1 hd) h hh
    exact ⟨key.1, .inl key.2⟩
  · -- list against something else
    intro t xs b ht hlx _ hb' ha hb _ h hmem
    rw [V1P.diffNode_arr_other hm xs b ht hb'] at hmem
    simp only [List.mem_singleton] at hmem
    subst hmem
    have ha' : Dom (.arr .list xs) := dom_arr.2 ⟨rfl, (dom_arr.1 ha).2⟩
    refine ⟨⟨idxP_nil N, .inl rfl, ?_, ?_⟩, .inl (noVoid_nodeList b)⟩
    · intro o ho
      simp only [List.mem_singleton] at ho
      subst ho
      exact ⟨ha'.good.listDoc, ha'.good.wf, ha'.good.fin, rfl⟩
    · intro v hv
      obtain ⟨rfl, _⟩ := nodeList_mem hv
      exact ⟨hb.good.listDoc, hb.good.wf⟩
  · -- object against object
    intro kvs kvs' _ _ ih ha hb hlen h hmem
    have ha' := dom_obj.1 ha
    have hb' := dom_obj.1 hb
    simp only [lenLe] at hlen
    rw [V1P.diffNode_obj_obj] at hmem
    have key : HV N h ∧ noVoid h.new := by
      rcases List.mem_append.1 hmem with hmem | hmem
      · exact ih ha'.2 hb'.2 hlen h hmem
      · obtain ⟨kv, hkv, rfl⟩ := List.mem_map.1 hmem
        obtain ⟨k, v⟩ := kv
        have hkv' := (List.mem_filter.1 hkv).1
        have hv' := hb'.2.of_mem hkv'
        refine ⟨⟨?_, .inr ?_, ?_, ?_⟩, noVoid_nodeList v⟩
        · intro e he
          simp only [List.nil_append, List.mem_singleton] at he
          subst he
          intro b hb; cases hb
        · simp only [singleValue_nodeList]; exact hv'.2
        · intro o ho; cases ho
        · intro w hw
          obtain ⟨rfl, _⟩ := nodeList_mem hw
          exact ⟨hv'.1.good.listDoc, hv'.1.good.wf⟩
    exact ⟨key.1, .inl key.2⟩
  · -- object against something else
    intro kvs b _ _ hb' ha hb _ h hmem
    rw [V1P.diffNode_obj_other m kvs b hb'] at hmem
    simp only [List.mem_singleton] at hmem
    subst hmem
    refine ⟨⟨idxP_nil N, .inl rfl, ?_, ?_⟩, ?_⟩
    · intro o ho
      simp only [List.mem_singleton] at ho
      subst ho
      exact ⟨ha.good.listDoc, ha.good.wf, ha.good.fin, rfl⟩
    · intro v hv
      simp only [List.mem_singleton] at hv
      subst hv
      exact ⟨hb.good.listDoc, hb.good.wf⟩
    · cases hbv : b.isVoid
      · left; intro v hv
        simp only [List.mem_singleton] at hv
        subst hv; exact hbv
      · right; exact ⟨rfl, rfl⟩
  · -- scalars
    intro a b h1 h2 _ ha hb _ h hmem
    rw [V1P.diffNode_scalar m a b h1 h2] at hmem
    unfold V1.diffCommon at hmem
    split at hmem
    · cases hmem
    · rename_i hne
      simp only [Bool.false_eq_true, if_false, List.mem_singleton] at hmem
      subst hmem
      refine ⟨⟨idxP_nil N, ?_, ?_, ?_⟩, .inl (noVoid_nodeList b)⟩
      · simp only [singleValue_nodeList]
        cases hav : a.isVoid
        · exact .inl rfl
        · right
          cases hbv : b.isVoid
          · rfl
          · exfalso; apply hne
            rw [isVoid_eq hav, V1.equals]; exact hbv
      · intro o ho
        obtain ⟨rfl, hv⟩ := nodeList_mem ho
        exact ⟨ha.good.listDoc, ha.good.wf, ha.good.fin, hv⟩
      · intro v hv
        obtain ⟨rfl, _⟩ := nodeList_mem hv
        exact ⟨hb.good.listDoc, hb.good.wf⟩
  · intro kvs' _ _ _ h hmem
    simp [V1P.diffKvs_nil] at hmem
  · -- one member of the source object
    intro kvs' k v r hl' hv _ ihN ihK ha hb hlen h hmem
    have ha' := domK_cons.1 ha
    simp only [lenLeKvs, Bool.and_eq_true] at hlen
    rw [V1P.diffKvs_cons] at hmem
    rcases List.mem_append.1 hmem with hmem | hmem
    · cases hlk : alookup k kvs' with
      | none =>
        rw [hlk] at hmem
        simp only [List.mem_singleton] at hmem
        subst hmem
        refine ⟨⟨?_, .inl ?_, ?_, ?_⟩, by intro o ho; cases ho⟩
        · intro e he
          simp only [List.nil_append, List.mem_singleton] at he
          subst he
          intro b hb; cases hb
        · simp only [singleValue_nodeList]; exact ha'.1.2
        · intro o ho
          obtain ⟨rfl, hvv⟩ := nodeList_mem ho
          exact ⟨ha'.1.1.good.listDoc, ha'.1.1.good.wf, ha'.1.1.good.fin, hvv⟩
        · intro w hw; cases hw
      | some v' =>
        rw [hlk] at hmem
        simp only [] at hmem
        have hv'd := hb.lookup hlk
        rw [V1P.diffNode_at hm v v' hv (alookup_listDoc hlk hl')] at hmem
        obtain ⟨h0, hh0, rfl⟩ := List.mem_map.1 hmem
        have q := ihN v' (alookup_listDoc hlk hl') ha'.1.1 hv'd.1 hlen.1 h0 hh0
        have hnv : noVoid h0.new := by
          rcases q.2 with h | ⟨_, h⟩
          · exact h
          · rw [hv'd.2] at h; cases h
        exact q.1.shift_str hnv k
    · exact ihK ha'.2 hb hlen.2 h hmem
  · intro ys _ _ _ i _ d hd
    simp [V1P.diffElems_nil] at hd
  · intro x xs _ _ _ i _ d hd
    simp [V1P.diffElems_nil'] at hd
  · -- one index present on both sides
    intro x xs y ys hx _ hy _ ihN ihE ha hb hlen i hi d hd h hh
    have ha' := domL_cons.1 ha
    have hb' := domL_cons.1 hb
    simp only [lenLeList, Bool.and_eq_true] at hlen
    simp only [List.length_cons] at hi
    rw [V1P.diffElems_cons] at hd
    rcases List.mem_cons.1 hd with rfl | hd
    · rw [V1P.diffNode_at hm x _ hx (dispatch_listDoc hm hy)] at hh
      obtain ⟨h0, hh0, rfl⟩ := List.mem_map.1 hh
      have q := ihN ha'.1.1 (hb'.1.1.dispatch hm) hlen.1 h0 hh0
      have hnv : noVoid h0.new := by
        rcases q.2 with h | ⟨_, h⟩
        · exact h
        · rw [dispatch_isVoid, hb'.1.2] at h; cases h
      exact q.1.shift_num hnv (by omega)
    · exact ihE ha'.2 hb'.2 hlen.2 (i + 1) (by omega) d hd h hh


/-! ## 8. reading back: the path `readPointer` makes is as good as the original one -/

/-- the path `readPointer` makes of the pointer written for `p` -/
def rpath (p : List Json) : V1.PPath := (toks p).map rtok

theorem rpath_cons (e : Json) (p : List Json) : rpath (e :: p) = rtok (tokOf e) :: rpath p := rfl

/-- a key token is read as a `jsonStringOrInteger` when it looks like an integer, as a string
    otherwise: either way `jsonObject.patch` uses it as the key -/
theorem rtok_key {k : String} (hk : k ≠ "-") :
    simple (rtok k) = true ∧ V1.asKey (rtok k) = some k := by
  unfold rtok
  split
  · exact ⟨rfl, rfl⟩
  · rw [if_neg (by simpa using hk)]; exact ⟨rfl, rfl⟩

/-- an index token is read as `-1` for `-` and as a `jsonStringOrInteger` otherwise, which
    `jsonList.patch` turns into the same `float64` -/
theorem rtok_idx {N : Nat} (I : IdxLaws N) (hN : N ≤ 2 ^ 63) {b : UInt64}
    (hb : idxE N (.num b)) :
    simple (rtok (tokOf (.num b))) = true ∧ V1.asIndexBits (rtok (tokOf (.num b))) = some b := by
  rcases hb b rfl with h | ⟨k, hk, h⟩
  · have hbits : b = (Float.ofInt (-1)).toBits := by
      simpa [V1.numNeg1] using h
    have : tokOf (.num b) = "-" := by
      simp only [tokOf, hbits, I.neg1, idxTok]; rfl
    rw [this]
    have e1 : rtok "-" = .node V1.numNeg1 := by
      unfold rtok
      rw [if_neg (by decide), if_pos (by decide)]
    rw [e1]
    exact ⟨rfl, by simp [V1.numNeg1, V1.asIndexBits, hbits]⟩
  · have hbits : b = (Float.ofNat k).toBits := by
      simpa [V1.numOfNat] using h
    have hne : ((k : Int) == -1) = false := natCast_beq_neg1 k
    have : tokOf (.num b) = toString (k : Int) := by
      simp only [tokOf, hbits, I.nat k hk, idxTok, hne, Bool.false_eq_true, if_false]
    rw [this]
    have hat : atoi? (toString (k : Int)) = some (k : Int) :=
      PB.atoi?_toString (by omega) (by
        have : (k : Int) < ((2 ^ 63 : Nat) : Int) := by exact_mod_cast Nat.lt_of_lt_of_le hk hN
        simpa using this)
    have e1 : rtok (toString (k : Int)) = .sori (toString (k : Int)) := by
      unfold rtok
      rw [if_pos (by rw [hat]; rfl)]
    rw [e1]
    refine ⟨rfl, ?_⟩
    simp only [V1.asIndexBits, hat, Option.map_some, hbits]
    rfl

theorem rtok_simple {N : Nat} (I : IdxLaws N) (hN : N ≤ 2 ^ 63) {e : Json} {r : List Json}
    (hp : plain (e :: r) = true) (hd : noDashP (e :: r) = true) (hi : idxP N (e :: r)) :
    simple (rtok (tokOf e)) = true := by
  cases e with
  | str k =>
    simp only [noDashP, Bool.and_eq_true, bne_iff_ne, ne_eq] at hd
    exact (rtok_key hd.1).1
  | num b => exact (rtok_idx I hN (hi _ List.mem_cons_self)).1
  | _ => simp [plain] at hp

theorem plain_tail {e : Json} {r : List Json} (hp : plain (e :: r) = true) : plain r = true := by
  cases e <;> simp_all [plain]

theorem noDashP_tail {e : Json} {r : List Json} (hp : noDashP (e :: r) = true) :
    noDashP r = true := by
  cases e <;> simp_all [noDashP]

theorem idxP_tail {N : Nat} {e : Json} {r : List Json} (hp : idxP N (e :: r)) : idxP N r :=
  fun x hx => hp x (List.mem_cons_of_mem _ hx)

/-- **the path read back patches like the original path**: wherever the strict patch succeeds
    along the path of a diff, it succeeds with the same result along the path that `readPointer`
    makes of the pointer `writePointer` wrote (integer-looking tokens are `jsonStringOrInteger`s,
    read as keys by objects and as indices by lists) -/
theorem patch_rpath {N : Nat} (I : IdxLaws N) (hN : N ≤ 2 ^ 63) (old new : List Json)
    (h1 : old.length ≤ 1) (h2 : new.length ≤ 1) :
    ∀ (p : List Json) (n r : Json), plain p = true → noDashP p = true → idxP N p →
      n.listDoc = true →
      V1.patchNode false n (V1.liftPath p) old new = .ok r →
      V1.patchNode false n (rpath p) old new = .ok r
  | [], n, r, _, _, _, _, e => e
  | .str k :: rest, n, r, hp, hd, hi, hn, e => by
    have hs : simple (.node (.str k)) = true := rfl
    have hd' := hd
    simp only [noDashP, Bool.and_eq_true, bne_iff_ne, ne_eq] at hd'
    obtain ⟨hs', hk'⟩ := rtok_key hd'.1
    simp only [V1.liftPath, List.map_cons] at e
    rw [rpath_cons]
    simp only [tokOf]
    cases n with
    | obj kvs =>
      rw [patchNode_obj hs] at e
      rw [patchNode_obj hs']
      simp only [V1.asKey] at e
      simp only [hk']
      simp only [Json.listDoc] at hn
      cases hv : V1.patchNode false ((alookup k kvs).getD .void) (List.map V1.PElem.node rest) old new with
      | ok v =>
        rw [hv] at e
        rw [patch_rpath I hN old new h1 h2 rest _ v (plain_tail hp) hd'.2 (idxP_tail hi)
          (getD_listDoc hn) hv]
        exact e
      | err => rw [hv] at e; cases e
      | panic => rw [hv] at e; cases e
    | arr t xs =>
      simp only [Json.listDoc, Bool.and_eq_true] at hn
      rw [patchNode_arr hs hn.1 xs _ old new h1 h2] at e
      simp [V1.asIndexBits] at e
    | _ => rw [patchNode_other hs _ _ _ _ (by intro t xs h; cases h) (by intro kvs h; cases h)] at e; cases e
  | .num b :: rest, n, r, hp, hd, hi, hn, e => by
    have hs : simple (.node (.num b)) = true := rfl
    obtain ⟨hs', hb'⟩ := rtok_idx I hN (hi _ List.mem_cons_self)
    simp only [V1.liftPath, List.map_cons] at e
    rw [rpath_cons]
    cases n with
    | obj kvs =>
      rw [patchNode_obj hs] at e
      simp [V1.asKey] at e
    | arr t xs =>
      simp only [Json.listDoc, Bool.and_eq_true] at hn
      rw [patchNode_arr hs hn.1 xs _ old new h1 h2] at e
      rw [patchNode_arr hs' hn.1 xs _ old new h1 h2]
      simp only [V1.asIndexBits] at e
      simp only [hb']
      cases rest with
      | nil => exact e
      | cons e0 r0 =>
        have hs0 : simple (.node e0) = true := by
          cases e0 <;> simp_all [plain, simple]
        have hs0' := rtok_simple I hN (plain_tail hp) (noDashP_tail hd) (idxP_tail hi)
        simp only [List.map_cons] at e
        rw [listBody_cons hs0] at e
        obtain ⟨x, v, h0, hx, hv, rfl⟩ := e
        rw [rpath_cons, listBody_cons hs0']
        refine ⟨x, v, h0, hx, ?_, rfl⟩
        have := patch_rpath I hN old new h1 h2 (e0 :: r0) x v (plain_tail hp) (noDashP_tail hd)
          (idxP_tail hi) (listDocList_getElem? hn.2 hx) hv
        rw [rpath_cons] at this
        exact this
    | _ => rw [patchNode_other hs _ _ _ _ (by intro t xs h; cases h) (by intro kvs h; cases h)] at e; cases e


/-! ## 9. reading back: a replacement is read as a removal followed by an addition -/

theorem alookup_aput_self' (k : String) (v : Json) (cur : List (String × Json))
    (h : keysSorted cur = true) :
    alookup k (aput k v cur) = if v.isVoid then none else some v := by
  unfold aput; split
  · exact DPL.alookup_aerase_self k cur h
  · rw [DPL.alookup_ainsert, if_pos rfl]

theorem aput_aput (k : String) (u w : Json) {kvs : List (String × Json)}
    (hs : keysSorted kvs = true) : aput k w (aput k u kvs) = aput k w kvs := by
  have hs1 := keysSorted_aput k u kvs hs
  apply Merge.kvs_ext (keysSorted_aput k w _ hs1) (keysSorted_aput k w _ hs)
  intro k0
  by_cases hk : k0 = k
  · subst hk
    rw [alookup_aput_self' _ _ _ hs1, alookup_aput_self' _ _ _ hs]
  · rw [alookup_aput_ne hk, alookup_aput_ne hk, alookup_aput_ne hk]

theorem wf_getD {k : String} {kvs : List (String × Json)} (h : wfKvs kvs = true) :
    ((alookup k kvs).getD .void).wf = true := by
  cases hl : alookup k kvs with
  | none => rfl
  | some c => exact alookup_wf hl h

theorem set_eq_insert_erase {xs : List Json} {k : Nat} (hk : k < xs.length) (v : Json) :
    xs.set k v = (xs.eraseIdx k).take k ++ v :: (xs.eraseIdx k).drop k := by
  rw [List.set_eq_take_append_cons_drop, if_pos hk, List.eraseIdx_eq_take_drop_succ]
  have h1 : (List.take k xs).length = k := by simp; omega
  rw [List.take_left' h1, List.drop_left' h1]

/-- **a replacement hunk = its removal then its addition** (what `ReadPatchString` makes of the
    `test`, `remove`, `add` triple rendered for it), on well-formed list documents -/
theorem patch_split (o v : Json) (ho : o.isVoid = false) (hv : v.isVoid = false) :
    ∀ (p : List Json) (n r : Json), plain p = true → n.listDoc = true → n.wf = true →
      V1.patchNode false n (V1.liftPath p) [o] [v] = .ok r →
      ∃ n1, V1.patchNode false n (V1.liftPath p) [o] [] = .ok n1 ∧
        V1.patchNode false n1 (V1.liftPath p) [] [v] = .ok r
  | [], n, r, _, hn, _, e => by
    simp only [V1.liftPath, List.map_nil] at e ⊢
    rw [patchNode_root n [o] [v] hn (by simp) (by simp)] at e
    split at e
    · rename_i he
      cases e
      refine ⟨.void, ?_, ?_⟩
      · rw [patchNode_root n [o] [] hn (by simp) (by simp), if_pos he]; rfl
      · rw [patchNode_root .void [] [v] rfl (by simp) (by simp), equals_void_left]; rfl
    · cases e
  | .str k :: rest, n, r, hp, hn, hw, e => by
    have hs : simple (.node (.str k)) = true := rfl
    simp only [V1.liftPath, List.map_cons] at e ⊢
    cases n with
    | obj kvs =>
      rw [patchNode_obj hs] at e
      simp only [V1.asKey] at e
      simp only [Json.listDoc] at hn
      simp only [Json.wf, Bool.and_eq_true] at hw
      cases hc : V1.patchNode false ((alookup k kvs).getD .void) (List.map V1.PElem.node rest) [o] [v] with
      | ok c' =>
        rw [hc] at e
        simp only [Outcome.bind_ok, Outcome.ok.injEq] at e
        subst e
        obtain ⟨c1, e1, e2⟩ := patch_split o v ho hv rest _ c' (plain_tail hp) (getD_listDoc hn)
          (wf_getD hw.2) hc
        simp only [V1.liftPath] at e1 e2
        refine ⟨.obj (aput k c1 kvs), ?_, ?_⟩
        · rw [patchNode_obj hs]
          simp only [V1.asKey, e1, Outcome.bind_ok]
        · rw [patchNode_obj hs]
          simp only [V1.asKey, alookup_aput_self k c1 kvs hw.1, e2, Outcome.bind_ok,
            aput_aput k c1 c' hw.1]
      | err => rw [hc] at e; cases e
      | panic => rw [hc] at e; cases e
    | arr t xs =>
      simp only [Json.listDoc, Bool.and_eq_true] at hn
      rw [patchNode_arr hs hn.1 xs _ _ _ (by simp) (by simp)] at e
      simp [V1.asIndexBits] at e
    | _ => rw [patchNode_other hs _ _ _ _ (by intro t xs h; cases h) (by intro kvs h; cases h)] at e; cases e
  | .num b :: rest, n, r, hp, hn, hw, e => by
    have hs : simple (.node (.num b)) = true := rfl
    simp only [V1.liftPath, List.map_cons] at e ⊢
    cases n with
    | obj kvs =>
      rw [patchNode_obj hs] at e
      simp [V1.asKey] at e
    | arr t xs =>
      simp only [Json.listDoc, Bool.and_eq_true] at hn
      simp only [Json.wf] at hw
      rw [patchNode_arr hs hn.1 xs _ _ _ (by simp) (by simp)] at e
      simp only [V1.asIndexBits] at e
      generalize hi0 : V1.floatToInt b = i0 at e
      cases rest with
      | cons e0 r0 =>
        have hs0 : simple (.node e0) = true := by
          cases e0 <;> simp_all [plain, simple]
        simp only [List.map_cons] at e ⊢
        rw [listBody_cons hs0] at e
        obtain ⟨x, c', h0, hx, hc, rfl⟩ := e
        have hlt := V1P.lt_of_getElem? hx
        have hii : (if (i0 == -1) = true then (xs.length : Int) else i0) = i0 := by
          split
          · rename_i h; rw [if_pos h] at hlt; simp at hlt
          · rfl
        rw [hii] at h0 hx hlt
        obtain ⟨c1, e1, e2⟩ := patch_split o v ho hv (e0 :: r0) x c' (plain_tail hp)
          (listDocList_getElem? hn.2 hx) (wfList_iff.1 hw _ (List.mem_of_getElem? hx)) hc
        simp only [V1.liftPath, List.map_cons] at e1 e2
        refine ⟨.arr .list (xs.set i0.toNat c1), ?_, ?_⟩
        · rw [patchNode_arr hs hn.1 xs _ _ _ (by simp) (by simp)]
          simp only [V1.asIndexBits, hi0, hii]
          rw [listBody_cons hs0]
          exact ⟨x, c1, h0, hx, e1, rfl⟩
        · rw [patchNode_arr hs (t := .list) rfl _ _ _ _ (by simp) (by simp)]
          simp only [V1.asIndexBits, hi0, List.length_set, hii]
          rw [listBody_cons hs0]
          exact ⟨c1, c', h0, List.getElem?_set_self hlt, e2, by rw [List.set_set]⟩
      | nil =>
        simp only [List.map_nil] at e ⊢
        rw [listBody_nil_rep xs [o] [v] _ _ hn.2 (by simp) (by simp) hv ho] at e
        obtain ⟨x, h0, hx, he, rfl⟩ := e
        have hlt := V1P.lt_of_getElem? hx
        have hii : (if (i0 == -1) = true then (xs.length : Int) else i0) = i0 := by
          split
          · rename_i h; rw [if_pos h] at hlt; simp at hlt
          · rfl
        rw [hii] at h0 hx hlt
        refine ⟨.arr .list (xs.eraseIdx i0.toNat), ?_, ?_⟩
        · rw [patchNode_arr hs hn.1 xs _ _ _ (by simp) (by simp)]
          simp only [V1.asIndexBits, hi0, hii]
          rw [listBody_nil_del xs [o] [] _ _ hn.2 (by simp) (by simp) rfl]
          exact ⟨x, h0, hx, he, rfl⟩
        · rw [patchNode_arr hs (t := .list) rfl _ _ _ _ (by simp) (by simp)]
          simp only [V1.asIndexBits, hi0]
          have hne : (i0 == -1) = false := by simp only [beq_eq_false_iff_ne, ne_eq]; omega
          simp only [hne, Bool.false_eq_true, if_false]
          rw [listBody_nil_ins _ [] [v] _ _ (by simp) (by simp) hv rfl]
          refine ⟨h0, ?_, ?_⟩
          · rw [List.length_eraseIdx, if_pos hlt]; omega
          · simp only [Json.singleValue]
            rw [set_eq_insert_erase hlt]
    | _ => rw [patchNode_other hs _ _ _ _ (by intro t xs h; cases h) (by intro kvs h; cases h)] at e; cases e


/-! ## 10. `ReadPatchString` (element loop) on the rendered operations -/

/-- `ops` is read by `readPatchDiffElement` as the diff `d`: a `test`/`remove` pair with equal
    values is a removal, an `add` an addition, each a diff element of its own -/
inductive Reads : List PatchOp → V1.PDiff → Prop where
  | nil : Reads [] []
  | del {s : String} {p : V1.PPath} {o : Json} {ops : List PatchOp} {d : V1.PDiff} :
      V1.readPointer s = .ok p → V1.equals [] o o = true → Reads ops d →
      Reads ({ op := "test", path := s, value := o } :: { op := "remove", path := s, value := o } :: ops)
        ({ path := p, old := [o] } :: d)
  | add {s : String} {p : V1.PPath} {v : Json} {ops : List PatchOp} {d : V1.PDiff} :
      V1.readPointer s = .ok p → Reads ops d →
      Reads ({ op := "add", path := s, value := v } :: ops) ({ path := p, new := [v] } :: d)

theorem Reads.append {a b : List PatchOp} {c d : V1.PDiff} (h1 : Reads a c) (h2 : Reads b d) :
    Reads (a ++ b) (c ++ d) := by
  induction h1 with
  | nil => exact h2
  | del hp he _ ih => exact .del hp he ih
  | add hp _ ih => exact .add hp ih

theorem Reads.length_le {ops : List PatchOp} {d : V1.PDiff} (h : Reads ops d) :
    d.length ≤ ops.length := by
  induction h with
  | nil => exact Nat.le_refl _
  | del _ _ _ ih => simp only [List.length_cons]; omega
  | add _ _ ih => simp only [List.length_cons]; omega

theorem Reads.loop {ops : List PatchOp} {d : V1.PDiff} (h : Reads ops d) :
    ∀ (fuel : Nat) (acc : V1.PDiff), d.length < fuel →
      V1.readPatchLoop fuel ops acc = .ok (acc ++ d) := by
  induction h with
  | nil =>
    intro fuel acc hf
    cases fuel with
    | zero => omega
    | succ f => simp [V1.readPatchLoop]
  | @del s p o ops d hp he _ ih =>
    intro fuel acc hf
    cases fuel with
    | zero => omega
    | succ f =>
      simp only [List.length_cons] at hf
      have e : V1.readPatchHunk ({ op := "test", path := s, value := o } ::
          { op := "remove", path := s, value := o } :: ops) =
          .ok ({ path := p, old := [o] }, ops) := by
        simp [V1.readPatchHunk, hp, he]
      simp only [V1.readPatchLoop, e]
      rw [ih f _ (by omega)]
      simp
  | @add s p v ops d hp _ ih =>
    intro fuel acc hf
    cases fuel with
    | zero => omega
    | succ f =>
      simp only [List.length_cons] at hf
      have e : V1.readPatchHunk ({ op := "add", path := s, value := v } :: ops) =
          .ok ({ path := p, new := [v] }, ops) := by
        have : ("add" == "test") = false := by decide
        simp [V1.readPatchHunk, hp, this]
      simp only [V1.readPatchLoop, e]
      rw [ih f _ (by omega)]
      simp

/-- what `ReadPatchString` makes of the operations rendered for one hunk -/
def readBack (h : V1.Hunk) : V1.PDiff :=
  (nv h.old).map (fun o => { path := rpath h.path, old := [o] }) ++
    (nv h.new).map (fun v => { path := rpath h.path, new := [v] })

theorem reads_hunk (L : FloatLaws) {h : V1.Hunk} (hk : HK h) {s : String}
    (hs : V1.readPointer s = .ok (rpath h.path)) :
    Reads (remOpsOf s (nv h.old) ++ addOpsOf s (nv h.new)) (readBack h) := by
  unfold readBack
  apply Reads.append
  · rw [remOpsOf_eq (noVoid_nv _)]
    have : ∀ l : List Json, (∀ o ∈ l, V1.equals [] o o = true) →
        Reads (l.flatMap (fun e => [({ op := "test", path := s, value := e } : PatchOp),
          { op := "remove", path := s, value := e }]))
          (l.map (fun o => ({ path := rpath h.path, old := [o] } : V1.PHunk))) := by
      intro l hl
      induction l with
      | nil => exact .nil
      | cons o r ih =>
        simp only [List.flatMap_cons, List.map_cons, List.cons_append, List.nil_append]
        exact .del hs (hl o List.mem_cons_self) (ih (fun o' ho' => hl o' (List.mem_cons_of_mem _ ho')))
    apply this
    intro o ho
    obtain ⟨h1, h2, h3, _⟩ := hk.oldOK o (nv_sub ho)
    exact v1_equals_refl L ListMode.nil o h1 h2 h3
  · rw [addOpsOf_eq (noVoid_nv _)]
    have hlen : (nv h.new).length ≤ 1 := Nat.le_trans (nv_length_le _) hk.hok.new
    match hn : nv h.new, hlen with
    | [], _ => exact .nil
    | [v], _ => exact .add hs .nil


/-! ## 11. patching with what was read back -/

theorem patchAllP_cons_ok {n n' : Json} {hp : V1.PHunk} {d : V1.PDiff}
    (hm : V1.pathIsMerge hp.path = false)
    (e : V1.patchNode false n hp.path hp.old hp.new = .ok n') :
    V1.patchAllP n (hp :: d) = V1.patchAllP n' d := by
  simp only [V1.patchAllP, hm, e]

theorem patchAllP_append (n : Json) (d1 d2 : V1.PDiff) :
    V1.patchAllP n (d1 ++ d2) = (V1.patchAllP n d1 >>= fun n' => V1.patchAllP n' d2) := by
  induction d1 generalizing n with
  | nil => rfl
  | cons h d ih =>
    simp only [List.cons_append, V1.patchAllP]
    cases V1.patchNode (V1.pathIsMerge h.path) n h.path h.old h.new with
    | ok n' => exact ih n'
    | err => rfl
    | panic => rfl

theorem pathIsMerge_rpath {N : Nat} (I : IdxLaws N) (hN : N ≤ 2 ^ 63) {p : List Json}
    (hp : plain p = true) (hd : noDashP p = true) (hi : idxP N p) :
    V1.pathIsMerge (rpath p) = false := by
  cases p with
  | nil => rfl
  | cons e r => rw [rpath_cons]; exact pathIsMerge_simple (rtok_simple I hN hp hd hi) _

theorem nv_of_noVoid {l : List Json} (h : noVoid l) : nv l = l := by
  unfold nv
  rw [List.filter_eq_self]
  intro x hx
  simp [h x hx]

/-- **one hunk, read back.** If the v1 patch code accepts the hunk on `c`, it accepts, with the
    same result, the one or two diff elements that `ReadPatchString` makes of the operations
    rendered for the hunk. -/
theorem hunk_readBack {N : Nat} (I : IdxLaws N) (hN : N ≤ 2 ^ 63) {h : V1.Hunk} (hk : HK h)
    (hi : idxP N h.path) {c c1 : Json} (hc : c.listDoc = true) (hw : c.wf = true)
    (e : ap c h = .ok c1) : V1.patchAllP c (readBack h) = .ok c1 := by
  have hm := pathIsMerge_rpath I hN hk.hok.plain hk.nodash hi
  have hvo : noVoid h.old := fun o ho => (hk.oldOK o ho).2.2.2
  obtain ⟨p, old, new⟩ := h
  simp only [ap, readBack] at *
  have hold : nv old = old := nv_of_noVoid hvo
  have h1 := hk.hok.old
  have h2 := hk.hok.new
  simp only at h1 h2 hi
  cases p with
  | nil =>
    -- the root: only `singleValue` of the two sides matters
    simp only [V1.liftPath, List.map_nil] at e
    rw [patchNode_root c old new hc h1 h2] at e
    split at e
    · rename_i he
      cases e
      have hrp : rpath [] = [] := rfl
      rw [hrp] at hm ⊢
      cases hov : (Json.singleValue old).isVoid <;> cases hnv : (Json.singleValue new).isVoid
      · rw [(nv_of_nonvoid h1 hov).1, (nv_of_nonvoid h2 hnv).1]
        simp only [List.map_cons, List.map_nil, List.cons_append, List.nil_append]
        rw [patchAllP_cons_ok (n' := .void) hm (by
          simp only []
          rw [patchNode_root c _ _ hc (by simp) (by simp), if_pos (by simpa [Json.singleValue] using he)]
          rfl)]
        rw [patchAllP_cons_ok (n' := Json.singleValue new) hm (by
          simp only []
          rw [patchNode_root .void _ _ rfl (by simp) (by simp), equals_void_left]; rfl)]
        rfl
      · rw [(nv_of_nonvoid h1 hov).1, nv_of_void h2 hnv]
        simp only [List.map_cons, List.map_nil, List.append_nil]
        rw [patchAllP_cons_ok (n' := .void) hm (by
          simp only []
          rw [patchNode_root c _ _ hc (by simp) (by simp), if_pos (by simpa [Json.singleValue] using he)]
          rfl)]
        rw [isVoid_eq hnv]; rfl
      · rw [nv_of_void h1 hov, (nv_of_nonvoid h2 hnv).1]
        simp only [List.map_cons, List.map_nil, List.nil_append]
        rw [patchAllP_cons_ok (n' := Json.singleValue new) hm (by
          simp only []
          rw [patchNode_root c _ _ hc (by simp) (by simp),
            if_pos (by rw [isVoid_eq hov] at he; simpa [Json.singleValue] using he)]
          rfl)]
        rfl
      · rcases hk.ne with h | h
        · simp only at h; rw [hov] at h; cases h
        · simp only at h; rw [hnv] at h; cases h
    · cases e
  | cons e0 r0 =>
    have hvn : noVoid new := by
      rcases hk.newV with h | h
      · exact h
      · cases h
    have hnew : nv new = new := nv_of_noVoid hvn
    rw [hold, hnew]
    have hpl := hk.hok.plain
    have hnd := hk.nodash
    simp only at hpl hnd
    match old, new, h1, h2 with
    | [], [], _, _ =>
      rcases hk.ne with h | h <;> simp [Json.singleValue, Json.isVoid] at h
    | [o], [], _, _ =>
      simp only [List.map_cons, List.map_nil, List.append_nil]
      rw [patchAllP_cons_ok (n' := c1) hm
        (patch_rpath I hN _ _ (by simp) (by simp) _ _ _ hpl hnd hi hc e)]
      rfl
    | [], [v], _, _ =>
      simp only [List.map_cons, List.map_nil, List.nil_append]
      rw [patchAllP_cons_ok (n' := c1) hm
        (patch_rpath I hN _ _ (by simp) (by simp) _ _ _ hpl hnd hi hc e)]
      rfl
    | [o], [v], _, _ =>
      have ho : o.isVoid = false := hvo o List.mem_cons_self
      have hv : v.isVoid = false := hvn v List.mem_cons_self
      obtain ⟨n1, e1, e2⟩ := patch_split o v ho hv _ c c1 hpl hc hw e
      have hn1 : n1.listDoc = true := by
        obtain ⟨_, _, _, h3⟩ := patch_applyStrict [] [o] [] (by simp) (by simp) (.inl ho)
          (by simpa [listDocList] using (hk.oldOK o List.mem_cons_self).1) rfl _ c n1 hpl hc e1
        exact h3
      simp only [List.map_cons, List.map_nil, List.cons_append, List.nil_append]
      rw [patchAllP_cons_ok (n' := n1) hm
        (patch_rpath I hN _ _ (by simp) (by simp) _ _ _ hpl hnd hi hc e1)]
      rw [patchAllP_cons_ok (n' := c1) hm
        (patch_rpath I hN _ _ (by simp) (by simp) _ _ _ hpl hnd hi hn1 e2)]
      rfl


theorem diff_readBack (L : FloatLaws) {N : Nat} (I : IdxLaws N) (hN : N ≤ 2 ^ 63) :
    ∀ (d : V1.VDiff) {c r : Json}, c.listDoc = true → c.wf = true →
      (∀ h ∈ d, HK h ∧ idxP N h.path) → V1.patchAll c d = .ok r →
      ∃ ops, V1.renderPatchOps (V1.liftDiff d) = .ok ops ∧ Reads ops (d.flatMap readBack) ∧
        V1.patchAllP c (d.flatMap readBack) = .ok r
  | [], c, r, _, _, _, e => by
    simp only [patchAll_nil, Outcome.ok.injEq] at e
    subst e
    exact ⟨[], rfl, .nil, rfl⟩
  | h :: d, c, r, hc, hw, hd, e => by
    obtain ⟨hk, hi⟩ := hd h List.mem_cons_self
    rw [patchAll_cons _ _ _ hk.hok] at e
    cases e1 : ap c h with
    | err => rw [e1] at e; cases e
    | panic => rw [e1] at e; cases e
    | ok c1 =>
      rw [e1] at e
      simp only [Outcome.bind_ok] at e
      obtain ⟨_, _, _, hc1, hw1, _⟩ := hunk_sim L hk hc hw rfl e1
      obtain ⟨ops2, hr2, hrd2, hp2⟩ := diff_readBack L I hN d hc1 hw1
        (fun h' hm => hd h' (List.mem_cons_of_mem _ hm)) e
      obtain ⟨s, hs, htl⟩ := writePointer_plain h.path hk.hok.plain hk.nodash
      have hrp : V1.readPointer s = .ok (rpath h.path) := readPointer_of_toList htl
      refine ⟨_ ++ ops2, ?_, (reads_hunk L hk hrp).append hrd2, ?_⟩
      · simp only [V1.liftDiff, List.map_cons, V1.renderPatchOps] at hr2 ⊢
        rw [renderPatchHunk_v1 hs hk.hok.old hk.hok.new hk.ne, hr2]; rfl
      · rw [List.flatMap_cons, patchAllP_append, hunk_readBack I hN hk hi hc hw e1]
        exact hp2

/-! ## 12. C18, JSON Patch half -/

/-- documents without the object key "-" have diffs without the path key "-" -/
theorem diff_nodash (m : V1.Metas) (hm : ListMode m) :
    (∀ a b, a.listDoc = true → b.listDoc = true → noDash a = true → noDash b = true →
      ∀ h ∈ V1.diffNode m false a b [], noDashP h.path = true) ∧
    (∀ kvs' kvs, listDocKvs kvs' = true → listDocKvs kvs = true → noDashK kvs = true →
      noDashK kvs' = true → ∀ h ∈ V1.diffKvs m false [] kvs' kvs, noDashP h.path = true) ∧
    (∀ ys xs, listDocList ys = true → listDocList xs = true → noDashL xs = true →
      noDashL ys = true → ∀ i, ∀ d ∈ V1.diffElems m false [] i ys xs, ∀ h ∈ d,
        noDashP h.path = true) := by
  apply v1_induct m hm
    (mN := fun a b => noDash a = true → noDash b = true →
      ∀ h ∈ V1.diffNode m false a b [], noDashP h.path = true)
    (mK := fun kvs' kvs => noDashK kvs = true → noDashK kvs' = true →
      ∀ h ∈ V1.diffKvs m false [] kvs' kvs, noDashP h.path = true)
    (mE := fun ys xs => noDashL xs = true → noDashL ys = true →
      ∀ i, ∀ d ∈ V1.diffElems m false [] i ys xs, ∀ h ∈ d, noDashP h.path = true)
  · intro t t' xs ys ht ht' htt _ _ ih hda hdb h hmem
    rw [V1P.diffNode_arr_arr hm xs ys ht ht' htt] at hmem
    simp only [noDash] at hda hdb
    unfold listDiff at hmem
    split at hmem
    · rcases List.mem_append.1 hmem with hmem | hmem
      · obtain ⟨d, hd, hh⟩ := List.mem_flatten.1 hmem
        exact ih hda hdb 0 d hd h hh
      · obtain ⟨y, _, rfl⟩ := List.mem_map.1 hmem
        rfl
    · rcases List.mem_append.1 hmem with hmem | hmem
      · obtain ⟨xi, _, rfl⟩ := List.mem_map.1 hmem
        rfl
      · obtain ⟨d, hd, hh⟩ := List.mem_flatten.1 hmem
        exact ih hda hdb 0 d (List.mem_reverse.1 hd) h hh
  · intro t xs b ht _ _ hb' _ _ h hmem
    rw [V1P.diffNode_arr_other hm xs b ht hb'] at hmem
    simp only [List.mem_singleton] at hmem
    subst hmem; rfl
  · intro kvs kvs' _ _ ih hda hdb h hmem
    simp only [noDash] at hda hdb
    rw [V1P.diffNode_obj_obj] at hmem
    rcases List.mem_append.1 hmem with hmem | hmem
    · exact ih hda hdb h hmem
    · obtain ⟨kv, hkv, rfl⟩ := List.mem_map.1 hmem
      obtain ⟨k, v⟩ := kv
      have hk := (noDashK_mem hdb (List.mem_filter.1 hkv).1).1
      simp [noDashP, hk]
  · intro kvs b _ _ hb' _ _ h hmem
    rw [V1P.diffNode_obj_other m kvs b hb'] at hmem
    simp only [List.mem_singleton] at hmem
    subst hmem; rfl
  · intro a b h1 h2 _ _ _ h hmem
    rw [V1P.diffNode_scalar m a b h1 h2] at hmem
    unfold V1.diffCommon at hmem
    split at hmem
    · cases hmem
    · simp only [Bool.false_eq_true, if_false, List.mem_singleton] at hmem
      subst hmem; rfl
  · intro kvs' _ _ h hmem
    simp [V1P.diffKvs_nil] at hmem
  · intro kvs' k v r hl' hv _ ihN ihK hda hdb h hmem
    simp only [noDashK, Bool.and_eq_true, bne_iff_ne, ne_eq] at hda
    rw [V1P.diffKvs_cons] at hmem
    rcases List.mem_append.1 hmem with hmem | hmem
    · cases hlk : alookup k kvs' with
      | none =>
        rw [hlk] at hmem
        simp only [List.mem_singleton] at hmem
        subst hmem
        simp [noDashP, hda.1.1]
      | some v' =>
        rw [hlk] at hmem
        simp only [] at hmem
        rw [V1P.diffNode_at hm v v' hv (alookup_listDoc hlk hl')] at hmem
        obtain ⟨h0, hh0, rfl⟩ := List.mem_map.1 hmem
        have := ihN v' (alookup_listDoc hlk hl') hda.1.2
          (noDashK_mem hdb (mem_of_alookup hlk)).2 h0 hh0
        simpa [shift, noDashP, hda.1.1] using this
    · exact ihK hda.2 hdb h hmem
  · intro ys _ _ i d hd
    simp [V1P.diffElems_nil] at hd
  · intro x xs _ _ i d hd
    simp [V1P.diffElems_nil'] at hd
  · intro x xs y ys hx _ hy _ ihN ihE hda hdb i d hd h hh
    simp only [noDashL, Bool.and_eq_true] at hda hdb
    rw [V1P.diffElems_cons] at hd
    rcases List.mem_cons.1 hd with rfl | hd
    · rw [V1P.diffNode_at hm x _ hx (dispatch_listDoc hm hy)] at hh
      obtain ⟨h0, hh0, rfl⟩ := List.mem_map.1 hh
      have := ihN hda.1 (by rw [noDash_dispatch]; exact hdb.1) h0 hh0
      simpa [shift, noDashP, V1.numOfNat] using this
    · exact ihE hda.2 hdb.2 (i + 1) d hd h hh

/-- the path condition of the theorems holds when neither document has the object key "-" -/
theorem noDash_diffM (m : V1.Metas) (hm : ListMode m) (a b : Json) (ha1 : a.listDoc = true)
    (hb1 : b.listDoc = true) (hda : noDash a = true) (hdb : noDash b = true) :
    ∀ h ∈ V1.diffM m a b, noDashP h.path = true := by
  simp only [V1.diffM, hm.noMerge]
  exact (diff_nodash m hm).1 a b ha1 hb1 hda hdb

/-- every hunk of a list-mode v1 diff of documents in the domain whose path does not hold the key
    "-" is a hunk of the theorems -/
theorem diff_HK {N : Nat} (m : V1.Metas) (hm : ListMode m) (a b : Json)
    (ha1 : a.listDoc = true) (ha2 : a.wf = true) (ha3 : a.finiteNums = true) (ha4 : vfree a = true)
    (ha5 : lenLe N a = true)
    (hb1 : b.listDoc = true) (hb2 : b.wf = true) (hb3 : b.finiteNums = true) (hb4 : vfree b = true) :
    ∀ h ∈ V1.diffNode m false a b [], noDashP h.path = true → HK h ∧ idxP N h.path := by
  intro h hmem hnd
  have q := (diff_shape N m hm).1 a b ha1 hb1 (Dom.mk' ha1 ha2 ha3 ha4) (Dom.mk' hb1 hb2 hb3 hb4)
    ha5 h hmem
  have hok := ((diff_hunks m hm).1 a b ha1 hb1 h hmem).1
  refine ⟨⟨hok, hnd, q.1.ne, q.1.oldOK, q.1.newOK, ?_⟩, q.1.idx⟩
  rcases q.2 with h | ⟨h, _⟩
  · exact .inl h
  · exact .inr h

/-- **C18 (v1 library, JSON Patch), clause 1: the RFC 6902 evaluation of the rendered patch.**
    For list-mode metadata and documents `a`, `b` in the domain of `v1_diff_patch_list` such that
    no path of the diff holds the object key "-": `Diff.RenderPatch` of `a.Diff(b)` succeeds, its
    operations are `test`, `remove`, `add` only, and the independent RFC 6902 evaluator applied to
    `a` yields a document structurally equal to `b` (array tags ignored). Integer-looking keys and
    keys needing `~0` / `~1` escaping are covered. -/
theorem v1_render_patch_rfc (L : FloatLaws) {N : Nat} (I : IdxLaws N) (m : V1.Metas)
    (hm : ListMode m) (a b : Json)
    (ha1 : a.listDoc = true) (ha2 : a.wf = true) (ha3 : a.finiteNums = true) (ha4 : vfree a = true)
    (ha5 : lenLe N a = true)
    (hb1 : b.listDoc = true) (hb2 : b.wf = true) (hb3 : b.finiteNums = true) (hb4 : vfree b = true)
    (hdash : ∀ h ∈ V1.diffM m a b, noDashP h.path = true) :
    ∃ ops r, V1.renderPatchOps (V1.liftDiff (V1.diffM m a b)) = .ok ops ∧
      (∀ o ∈ ops, o.wfOp) ∧
      eval a (ops.map PatchOp.toSpec) = some r ∧
      specEq r b = true ∧ specEq b r = true ∧ specEq (untag r) (untag b) = true := by
  obtain ⟨r0, h1, h2, _⟩ := (diff_correct L I m hm).1 a b ha1 hb1 (Dom.mk' ha1 ha2 ha3 ha4)
    (Dom.mk' hb1 hb2 hb3 hb4) ha5
  simp only [V1.diffM, hm.noMerge] at hdash ⊢
  obtain ⟨ops, hr, hwf, _, _, r, hev, hu⟩ := diff_sim L _ ha1 ha2 rfl
    (fun h hm' => (diff_HK m hm a b ha1 ha2 ha3 ha4 ha5 hb1 hb2 hb3 hb4 h hm' (hdash h hm')).1) h1
  refine ⟨ops, r, hr, hwf, hev, ?_, ?_, ?_⟩
  · rw [← specEq_untag_left, hu, specEq_untag_left]; exact h2.1
  · rw [← specEq_untag_right, hu, specEq_untag_right]; exact h2.2
  · rw [specEq_untag_left, specEq_untag_right, ← specEq_untag_left, hu, specEq_untag_left]
    exact h2.1

/-- **C18 (v1 library, JSON Patch), clause 2: reading the rendered patch back.** Under the same
    hypotheses (and `N ≤ 2^63`: indices are re-read with `strconv.Atoi`), the element loop of
    `ReadPatchString` accepts the rendered operations, and `a.Patch` of the diff read back —
    whose paths hold `jsonStringOrInteger` tokens for every integer-looking pointer token —
    succeeds with EXACTLY the result of patching with the original diff, which `Equals` `b`. -/
theorem v1_render_read_patch (L : FloatLaws) {N : Nat} (I : IdxLaws N) (hN : N ≤ 2 ^ 63)
    (m : V1.Metas) (hm : ListMode m) (a b : Json)
    (ha1 : a.listDoc = true) (ha2 : a.wf = true) (ha3 : a.finiteNums = true) (ha4 : vfree a = true)
    (ha5 : lenLe N a = true)
    (hb1 : b.listDoc = true) (hb2 : b.wf = true) (hb3 : b.finiteNums = true) (hb4 : vfree b = true)
    (hdash : ∀ h ∈ V1.diffM m a b, noDashP h.path = true) :
    ∃ ops d' r, V1.renderPatchOps (V1.liftDiff (V1.diffM m a b)) = .ok ops ∧
      V1.readPatchLoop (ops.length + 1) ops [] = .ok d' ∧
      V1.patchP a d' = .ok r ∧ V1.patchM a (V1.diffM m a b) = .ok r ∧
      V1.equals m r b = true ∧ specEq r b = true ∧ specEq b r = true := by
  obtain ⟨r, h1, h2, h3⟩ := (diff_correct L I m hm).1 a b ha1 hb1 (Dom.mk' ha1 ha2 ha3 ha4)
    (Dom.mk' hb1 hb2 hb3 hb4) ha5
  simp only [V1.diffM, hm.noMerge] at hdash ⊢
  obtain ⟨ops, hr, hrd, hp⟩ := diff_readBack L I hN _ ha1 ha2
    (fun h hm' => diff_HK m hm a b ha1 ha2 ha3 ha4 ha5 hb1 hb2 hb3 hb4 h hm' (hdash h hm')) h1
  refine ⟨ops, _, r, hr, ?_, hp, ?_, ?_, h2.1, h2.2⟩
  · have := hrd.loop (ops.length + 1) [] (Nat.lt_succ_of_le hrd.length_le)
    simpa using this
  · simp only [V1.patchM]; exact h1
  · rw [v1_equals_eq_specEq hm h3 hb1]; exact h2.1

/-- the text level: `Diff.RenderPatch()` does not fail (its result is `none` only when the number
    codec cannot print a number) -/
theorem v1_renderPatchM_ok (L : FloatLaws) {N : Nat} (I : IdxLaws N) (nc : NumCodec)
    (m : V1.Metas) (hm : ListMode m) (a b : Json)
    (ha1 : a.listDoc = true) (ha2 : a.wf = true) (ha3 : a.finiteNums = true) (ha4 : vfree a = true)
    (ha5 : lenLe N a = true)
    (hb1 : b.listDoc = true) (hb2 : b.wf = true) (hb3 : b.finiteNums = true) (hb4 : vfree b = true)
    (hdash : ∀ h ∈ V1.diffM m a b, noDashP h.path = true) :
    ∃ t, V1.renderPatchM nc (V1.liftDiff (V1.diffM m a b)) = .ok t := by
  obtain ⟨ops, _, hr, _⟩ := v1_render_patch_rfc L I m hm a b ha1 ha2 ha3 ha4 ha5 hb1 hb2 hb3 hb4
    hdash
  unfold V1.renderPatchM
  split
  · exact ⟨_, rfl⟩
  · rw [hr]; exact ⟨_, rfl⟩

/-! ## 13. what v1 refuses: the key "-" -/

/-- a diff with a hunk whose path holds the key "-" is not rendered -/
theorem render_refuses_dash (d1 d2 : V1.VDiff) (h : V1.Hunk) (pre post : List Json)
    (hp : h.path = pre ++ .str "-" :: post) :
    ∀ ops, V1.renderPatchOps (V1.liftDiff (d1 ++ h :: d2)) ≠ .ok ops := by
  induction d1 with
  | nil =>
    intro ops e
    simp only [List.nil_append, V1.liftDiff, List.map_cons, V1.renderPatchOps] at e
    cases hr : V1.renderPatchHunk h.toP with
    | ok a =>
      simp only [V1.renderPatchHunk, V1.Hunk.toP, hp] at hr
      cases hw : V1.writePointer (V1.liftPath (pre ++ Json.str "-" :: post)) with
      | ok s => exact writePointer_dash pre post s hw
      | err => rw [hw] at hr; cases hr
      | panic => rw [hw] at hr; cases hr
    | err => rw [hr] at e; cases e
    | panic => rw [hr] at e; cases e
  | cons h0 d1 ih =>
    intro ops e
    simp only [List.cons_append, V1.liftDiff, List.map_cons, V1.renderPatchOps] at e ih
    cases hr : V1.renderPatchHunk h0.toP with
    | ok a =>
      rw [hr] at e
      simp only [Outcome.bind_ok] at e
      cases hr2 : V1.renderPatchOps (List.map V1.Hunk.toP (d1 ++ h :: d2)) with
      | ok b => exact ih b hr2
      | err => rw [hr2] at e; cases e
      | panic => rw [hr2] at e; cases e
    | err => rw [hr] at e; cases e
    | panic => rw [hr] at e; cases e

theorem noDashP_false : ∀ {p : List Json}, noDashP p = false →
    ∃ pre post, p = pre ++ .str "-" :: post
  | [], h => by simp [noDashP] at h
  | e :: r, h => by
    by_cases he : e = .str "-"
    · subst he; exact ⟨[], r, rfl⟩
    · have hr : noDashP r = false := by
        cases e with
        | str s =>
          have hs : s ≠ "-" := fun h' => he (by rw [h'])
          simpa [noDashP, hs] using h
        | _ => simpa [noDashP] using h
      obtain ⟨pre, post, rfl⟩ := noDashP_false hr
      exact ⟨e :: pre, post, rfl⟩

/-- **which diffs v1 can render**: on the domain of the theorems, `Diff.RenderPatch` succeeds
    exactly when no path of the diff holds the object key "-" (every other key — integer-looking,
    empty, with `/` or `~` — is expressible) -/
theorem v1_render_ok_iff (L : FloatLaws) {N : Nat} (I : IdxLaws N) (m : V1.Metas)
    (hm : ListMode m) (a b : Json)
    (ha1 : a.listDoc = true) (ha2 : a.wf = true) (ha3 : a.finiteNums = true) (ha4 : vfree a = true)
    (ha5 : lenLe N a = true)
    (hb1 : b.listDoc = true) (hb2 : b.wf = true) (hb3 : b.finiteNums = true) (hb4 : vfree b = true) :
    (∃ ops, V1.renderPatchOps (V1.liftDiff (V1.diffM m a b)) = .ok ops) ↔
      ∀ h ∈ V1.diffM m a b, noDashP h.path = true := by
  constructor
  · rintro ⟨ops, hr⟩ h hmem
    cases hnd : noDashP h.path with
    | true => rfl
    | false =>
      exfalso
      obtain ⟨pre, post, hp⟩ := noDashP_false hnd
      obtain ⟨d1, d2, hd⟩ := List.append_of_mem hmem
      rw [hd] at hr
      exact render_refuses_dash d1 d2 h pre post hp ops hr
  · intro hdash
    obtain ⟨ops, _, hr, _⟩ := v1_render_patch_rfc L I m hm a b ha1 ha2 ha3 ha4 ha5 hb1 hb2 hb3 hb4
      hdash
    exact ⟨ops, hr⟩

/-- clause 1 with the decidable hypothesis on the inputs: neither document has the object key "-" -/
theorem v1_render_patch_rfc_noDash (L : FloatLaws) {N : Nat} (I : IdxLaws N) (m : V1.Metas)
    (hm : ListMode m) (a b : Json)
    (ha1 : a.listDoc = true) (ha2 : a.wf = true) (ha3 : a.finiteNums = true) (ha4 : vfree a = true)
    (ha5 : lenLe N a = true)
    (hb1 : b.listDoc = true) (hb2 : b.wf = true) (hb3 : b.finiteNums = true) (hb4 : vfree b = true)
    (hda : noDash a = true) (hdb : noDash b = true) :
    ∃ ops r, V1.renderPatchOps (V1.liftDiff (V1.diffM m a b)) = .ok ops ∧
      (∀ o ∈ ops, o.wfOp) ∧
      eval a (ops.map PatchOp.toSpec) = some r ∧
      specEq r b = true ∧ specEq b r = true ∧ specEq (untag r) (untag b) = true :=
  v1_render_patch_rfc L I m hm a b ha1 ha2 ha3 ha4 ha5 hb1 hb2 hb3 hb4
    (noDash_diffM m hm a b ha1 hb1 hda hdb)

/-- clause 2 with the decidable hypothesis on the inputs -/
theorem v1_render_read_patch_noDash (L : FloatLaws) {N : Nat} (I : IdxLaws N) (hN : N ≤ 2 ^ 63)
    (m : V1.Metas) (hm : ListMode m) (a b : Json)
    (ha1 : a.listDoc = true) (ha2 : a.wf = true) (ha3 : a.finiteNums = true) (ha4 : vfree a = true)
    (ha5 : lenLe N a = true)
    (hb1 : b.listDoc = true) (hb2 : b.wf = true) (hb3 : b.finiteNums = true) (hb4 : vfree b = true)
    (hda : noDash a = true) (hdb : noDash b = true) :
    ∃ ops d' r, V1.renderPatchOps (V1.liftDiff (V1.diffM m a b)) = .ok ops ∧
      V1.readPatchLoop (ops.length + 1) ops [] = .ok d' ∧
      V1.patchP a d' = .ok r ∧ V1.patchM a (V1.diffM m a b) = .ok r ∧
      V1.equals m r b = true ∧ specEq r b = true ∧ specEq b r = true :=
  v1_render_read_patch L I hN m hm a b ha1 ha2 ha3 ha4 ha5 hb1 hb2 hb3 hb4
    (noDash_diffM m hm a b ha1 hb1 hda hdb)

/-- `ReadPatchString` on a patch document whose operations are `ops` runs the element loop with
    fuel `ops.length + 1` -/
theorem readPatchDoc_of_loop {doc : Json} {ops : List PatchOp} {d' : V1.PDiff}
    (h1 : V1.patchOpsOfJson doc = .ok ops)
    (h2 : V1.readPatchLoop (ops.length + 1) ops [] = .ok d') : V1.readPatchDoc doc = .ok d' := by
  unfold V1.readPatchDoc
  rw [h1]; exact h2

namespace Example

def one : Json := .num 0x3FF0000000000000
def two : Json := .num 0x4000000000000000

/-- **the key "-" is refused** (`pointer.go`: "JSON Pointer does not support object key '-'"):
    `{"-":1}` → `{}` has a perfectly good native diff which `RenderPatch` cannot express. -/
theorem dash_key_refused :
    V1.renderPatchOps (V1.liftDiff (V1.diffM [] (.obj [("-", one)]) (.obj []))) = .err := by
  have hd : V1.diffM [] (.obj [("-", one)]) (.obj []) =
      [{ path := [.str "-"], old := [one], new := [] }] := by
    simp only [V1.diffM, V1.hasMerge]
    rw [V1P.diffNode_obj_obj, V1P.diffKvs_cons, V1P.diffKvs_nil]
    simp [alookup, Json.nodeList, one, Json.isVoid]
  rw [hd]
  simp [V1.liftDiff, V1.Hunk.toP, V1.liftPath, V1.renderPatchOps, V1.renderPatchHunk, V1.writePointer]

/-- `{"0":[1,2],"1":1,"a/b~c":{"7":1},"k":2}`: integer-looking keys, a key needing both escapes -/
def exA : Json := .obj [("0", .arr .raw [one, two]), ("1", one), ("a/b~c", .obj [("7", one)]), ("k", two)]
/-- `{"0":[2],"2":1,"a/b~c":{"+5":1,"7":2},"k":[]}` -/
def exB : Json := .obj [("0", .arr .raw [two]), ("2", one),
  ("a/b~c", .obj [("+5", one), ("7", two)]), ("k", .arr .raw [])]

-- the rendered pointers (`/0/1`, `/0/0`, `/1`, `/a~1b~0c/7`, `/a~1b~0c/+5`, `/k`, `/2`), the RFC
-- evaluation, the paths read back (`sori` = jsonStringOrInteger) and the patch with them
#eval (V1.renderPatchOps (V1.liftDiff (V1.diffM [] exA exB))) |> fun
  | .ok ops => ops.map (fun (o : PatchOp) => (o.op, o.path))
  | _ => []
#eval (V1.renderPatchOps (V1.liftDiff (V1.diffM [] exA exB))) |> fun
  | .ok ops => (eval exA (ops.map PatchOp.toSpec)).map (fun r => specEq r exB)
  | _ => none
#eval (V1.renderPatchOps (V1.liftDiff (V1.diffM [] exA exB))) |> fun
  | .ok ops => match V1.readPatchLoop (ops.length + 1) ops [] with
    | .ok d' => (d'.map (fun (h : V1.PHunk) => repr h.path),
        match V1.patchP exA d' with | .ok r => some (specEq r exB) | _ => none)
    | _ => ([], none)
  | _ => ([], none)

/-- an integer-looking key is read back as a `jsonStringOrInteger`, which `jsonObject.patch`
    uses as the key: nothing is lost -/
example : rtok "0" = .sori "0" ∧ V1.asKey (rtok "0") = some "0" ∧ rtok "+5" = .sori "+5" := by
  refine ⟨?_, ?_, ?_⟩
  · unfold rtok; rw [if_pos (by decide)]
  · exact (rtok_key (by decide)).2
  · unfold rtok; rw [if_pos (by decide)]

set_option maxRecDepth 8000 in
/-- the hypotheses of the two theorems hold for this pair, in both directions -/
theorem hyps :
    exA.listDoc = true ∧ exA.wf = true ∧ exA.finiteNums = true ∧ vfree exA = true ∧
    lenLe 8 exA = true ∧ noDash exA = true ∧
    exB.listDoc = true ∧ exB.wf = true ∧ exB.finiteNums = true ∧ vfree exB = true ∧
    lenLe 8 exB = true ∧ noDash exB = true := by
  decide

example (L : FloatLaws) (I : IdxLaws 8) :
    ∃ ops r, V1.renderPatchOps (V1.liftDiff (V1.diffM [] exA exB)) = .ok ops ∧
      eval exA (ops.map PatchOp.toSpec) = some r ∧ specEq r exB = true := by
  obtain ⟨h1, h2, h3, h4, h5, h6, h7, h8, h9, h10, _, h12⟩ := hyps
  obtain ⟨ops, r, hr, _, he, hs, _⟩ :=
    v1_render_patch_rfc_noDash L I [] ListMode.nil exA exB h1 h2 h3 h4 h5 h7 h8 h9 h10 h6 h12
  exact ⟨ops, r, hr, he, hs⟩

example (L : FloatLaws) (I : IdxLaws 8) :
    ∃ ops d' r, V1.renderPatchOps (V1.liftDiff (V1.diffM [.setkeys ["a"]] exB exA)) = .ok ops ∧
      V1.readPatchLoop (ops.length + 1) ops [] = .ok d' ∧ V1.patchP exB d' = .ok r ∧
      V1.equals [.setkeys ["a"]] r exA = true := by
  obtain ⟨h1, h2, h3, h4, h5, h6, h7, h8, h9, h10, h11, h12⟩ := hyps
  obtain ⟨ops, d', r, hr, hl, hp, _, he, _⟩ :=
    v1_render_read_patch_noDash L I (by decide) _ (ListMode.setkeys ["a"]) exB exA h7 h8 h9 h10 h11
      h1 h2 h3 h4 h12 h6
  exact ⟨ops, d', r, hr, hl, hp, he⟩

end Example

/-! ### axioms -/

#print axioms patch_applyStrict
#print axioms patch_rpath
#print axioms patch_split
#print axioms diff_shape
#print axioms v1_render_patch_rfc
#print axioms v1_render_read_patch
#print axioms v1_renderPatchM_ok
#print axioms v1_render_ok_iff
#print axioms v1_render_patch_rfc_noDash
#print axioms v1_render_read_patch_noDash
#print axioms render_refuses_dash
#print axioms Example.dash_key_refused
#print axioms Example.hyps

end Jd.V1R
