/-
  JdProofs.RobustReaders — GROUP 1 of the robustness theorems (namespace `Jd.Robust`), property C13:
  reading arbitrary text with any of the readers, rendering any diff, and applying any successfully
  read diff never panics. Split from JdProofs.Robust so that these theorems do not rest on the
  native round-trip proofs (JdProofs.NativeRoundTrip) that GROUP 2 (C02) needs.
-/
import JdModel
import JdSpec
import JdProofs.EqualsList
import JdProofs.NoPanic
import JdProofs.StrictPatch
import JdProofs.SetPatch
import JdProofs.Common
import JdProofs.PatchRender

set_option linter.unusedVariables false

namespace Jd.Robust
open Jd Jd.Spec

/-! ## GROUP 1 — C13: no reader, no renderer and no application of a read diff panics -/

theorem readJsonM_ne_panic (nc : NumCodec) (s : String) : readJsonM nc s ≠ .panic := by
  unfold readJsonM
  split
  · simp
  · split <;> simp

theorem newPathM_go_ne_panic : ∀ xs : List Json, newPathM.go xs ≠ .panic
  | [] => by simp [newPathM.go]
  | e :: r => by
    have ih := newPathM_go_ne_panic r
    simp only [newPathM.go]
    split
    · split
      · simp
      · intro h3; exact ih h3
    · simp
    · rename_i hp
      split at hp <;> first | (split at hp <;> simp at hp) | simp at hp

theorem newPathM_ne_panic (n : Json) : newPathM n ≠ .panic := by
  unfold newPathM
  split
  · exact newPathM_go_ne_panic _
  · simp


/-! ### the native reader -/

theorem readMetadataM_ne_panic (n : Json) : readMetadataM n ≠ .panic := by
  unfold readMetadataM
  split
  · split <;> simp
  · simp

theorem readLine_ne_panic (nc : NumCodec) (acc : RAcc) (line : String) :
    readLine nc acc line ≠ .panic := by
  unfold readLine
  split
  · simp
  · simp only
    split
    · simp
    · split
      · -- "^"
        split
        · split
          · split <;> simp
          · simp
        · rename_i e hne
          split <;> first | (split <;> simp_all) | simp_all
      · split
        · -- "@"
          split
          · split
            · split <;> simp
            · simp
          · rename_i e hne
            split <;> first | (split <;> simp_all) | simp_all
        · repeat' split
          all_goals simp

theorem readLines_ne_panic (nc : NumCodec) : ∀ (ls : List String) (acc : RAcc),
    readLines nc acc ls ≠ .panic
  | [], acc => by simp [readLines]
  | l :: r, acc => by
    simp only [readLines]
    have h := readLine_ne_panic nc acc l
    split
    · exact readLines_ne_panic nc r _
    · rename_i e hne
      cases hl : readLine nc acc l with
      | ok a => exact absurd hl (hne a)
      | err => simp
      | panic => exact absurd hl h

theorem readDiffM_ne_panic (nc : NumCodec) (s : String) : readDiffM nc s ≠ .panic := by
  unfold readDiffM
  have h := readLines_ne_panic nc (s.splitOn "\n") {}
  split
  · repeat' split
    all_goals simp
  · simp
  · rename_i hp; exact absurd hp h


/-! ### JSON Pointer and the JSON Patch reader -/

theorem readPointer_ne_panic (s : String) : readPointer s ≠ .panic := by
  unfold readPointer
  split
  · exact newPathM_ne_panic _
  · split
    · simp
    · split
      · simp
      · exact newPathM_ne_panic _

theorem strField_ne_panic (kvs : List (String × Json)) (k : String) :
    patchOpsOfJson.strField kvs k ≠ .panic := by
  unfold patchOpsOfJson.strField
  split <;> simp

theorem valueField_ne_panic (kvs : List (String × Json)) (op : String) :
    patchOpsOfJson.valueField kvs op ≠ .panic := by
  unfold patchOpsOfJson.valueField
  split
  · simp
  · split <;> simp

theorem patchOpsOfJson_go_ne_panic : ∀ xs : List Json, patchOpsOfJson.go xs ≠ .panic
  | [] => by simp [patchOpsOfJson.go]
  | x :: r => by
    have ih := patchOpsOfJson_go_ne_panic r
    unfold patchOpsOfJson.go
    split
    · simp
    · rename_i kvs r' heq
      cases heq
      refine Outcome.bind_ne_panic _ _ (strField_ne_panic _ _) ?_
      intro op _
      refine Outcome.bind_ne_panic _ _ (strField_ne_panic _ _) ?_
      intro path _
      refine Outcome.bind_ne_panic _ _ (valueField_ne_panic _ _) ?_
      intro value _
      refine Outcome.bind_ne_panic _ _ ih ?_
      intro rest _
      simp [pure]
    · simp

theorem patchOpsOfJson_ne_panic (doc : Json) : patchOpsOfJson doc ≠ .panic := by
  unfold patchOpsOfJson
  split
  · exact patchOpsOfJson_go_ne_panic _
  · simp

theorem lastIdxOfPointer_ne_panic (s : String) : lastIdxOfPointer s ≠ .panic := by
  unfold lastIdxOfPointer
  have h := readPointer_ne_panic s
  split
  · simp
  · simp
  · rename_i hp; exact absurd hp h

theorem setPatchCtx_ne_panic (patch : List PatchOp) : setPatchCtx patch ≠ .panic := by
  unfold setPatchCtx
  simp only
  split
  · simp
  · simp
  · rename_i p0 p1 tail
    split
    · simp
    · have h0 := lastIdxOfPointer_ne_panic p0.path
      have h1 := lastIdxOfPointer_ne_panic p1.path
      split
      · simp
      · rename_i hp; exact absurd hp h0
      · simp
      · split
        · simp
        · rename_i hp; exact absurd hp h1
        · simp
        · split
          · simp
          · split
            · simp
            · split
              · simp
              · split
                · simp
                · rename_i p2 _
                  have h2 := readPointer_ne_panic p2.path
                  split
                  · simp
                  · rename_i hp; exact absurd hp h2
                  · repeat' split
                    all_goals simp

theorem readPatchHunk_ne_panic (patch : List PatchOp) : readPatchHunk patch ≠ .panic := by
  unfold readPatchHunk
  split
  · simp
  · rename_i p _
    simp only
    split
    · simp
    · rename_i hp
      split at hp
      · exact absurd hp (setPatchCtx_ne_panic _)
      · simp at hp
    · rename_i c _
      split
      · simp
      · rename_i q rest _
        have hq := readPointer_ne_panic q.path
        split
        · split
          · repeat' split
            all_goals simp
          · simp
          · rename_i hp; exact absurd hp hq
        · split
          · split
            · split <;> simp
            · simp
            · rename_i hp; exact absurd hp hq
          · simp

theorem readPatchLoop_ne_panic : ∀ (fuel : Nat) (patch : List PatchOp) (acc : Diff),
    readPatchLoop fuel patch acc ≠ .panic
  | 0, _, _ => by simp [readPatchLoop]
  | fuel + 1, patch, acc => by
    unfold readPatchLoop
    split
    · simp
    · split
      · simp
      · rename_i hp; exact absurd hp (readPatchHunk_ne_panic _)
      · exact readPatchLoop_ne_panic fuel _ _

theorem readPatchCtxLoop_ne_panic : ∀ (fuel : Nat) (patch : List PatchOp) (acc : Diff)
    (cs : List PatchCtx), readPatchCtxLoop fuel patch acc cs ≠ .panic
  | 0, _, _, _ => by simp [readPatchCtxLoop]
  | fuel + 1, patch, acc, cs => by
    unfold readPatchCtxLoop
    split
    · simp
    · split
      · simp
      · rename_i hp; exact absurd hp (readPatchHunk_ne_panic _)
      · split
        · exact readPatchCtxLoop_ne_panic fuel _ _ _
        · split
          · exact readPatchCtxLoop_ne_panic fuel _ _ _
          · exact readPatchCtxLoop_ne_panic fuel _ _ _

theorem ctxTestOK_ne_panic (h : Hunk) (t : PatchOp) (off : Int) : ctxTestOK h t off ≠ .panic := by
  unfold ctxTestOK
  split
  · simp
  · rename_i hp; exact absurd hp (readPointer_ne_panic _)
  · simp

theorem checkPatchCtx_ne_panic (h : Hunk) (c : PatchCtx) : checkPatchCtx h c ≠ .panic := by
  have one : ∀ (t : Option PatchOp) (off : Int),
      (match t with
       | none => (Outcome.ok () : Outcome Unit)
       | some t =>
         match ctxTestOK h t off with
         | .ok true => .ok ()
         | .ok false => .err
         | .err => .err
         | .panic => .panic) ≠ .panic := by
    intro t off
    cases t with
    | none => simp
    | some t =>
      have := ctxTestOK_ne_panic h t off
      cases hc : ctxTestOK h t off with
      | ok b => cases b <;> simp [hc]
      | err => simp [hc]
      | panic => exact absurd hc this
  unfold checkPatchCtx
  simp only
  split
  · exact one _ _
  · rename_i e hne
    intro he
    exact one c.before (-1) he

theorem checkPatchCtxs_ne_panic : ∀ (d : Diff) (cs : List PatchCtx), checkPatchCtxs d cs ≠ .panic
  | [], _ => by simp [checkPatchCtxs]
  | _ :: _, [] => by simp [checkPatchCtxs]
  | h :: d, c :: cs => by
    unfold checkPatchCtxs
    split
    · exact checkPatchCtxs_ne_panic d cs
    · rename_i e hne
      intro he
      exact checkPatchCtx_ne_panic h c he

theorem readPatchOps_ne_panic (ops : List PatchOp) : readPatchOps ops ≠ .panic := by
  unfold readPatchOps
  split
  · split
    · split
      · simp
      · simp
      · rename_i hp; exact absurd hp (checkPatchCtxs_ne_panic _ _)
    · simp
    · rename_i hp; exact absurd hp (readPatchCtxLoop_ne_panic _ _ _ _)
  · simp
  · rename_i hp; exact absurd hp (readPatchLoop_ne_panic _ _ _)

theorem readPatchDoc_ne_panic (doc : Json) : readPatchDoc doc ≠ .panic := by
  unfold readPatchDoc
  split
  · exact readPatchOps_ne_panic _
  · simp
  · rename_i hp; exact absurd hp (patchOpsOfJson_ne_panic _)

theorem readPatchM_ne_panic (nc : NumCodec) (s : String) : readPatchM nc s ≠ .panic := by
  unfold readPatchM
  split
  · exact readPatchDoc_ne_panic _
  · simp

/-! ### the merge-patch reader -/

theorem readMergeM_ne_panic (nc : NumCodec) (s : String) : readMergeM nc s ≠ .panic := by
  unfold readMergeM
  split
  · simp
  · simp
  · rename_i hp; exact absurd hp (readJsonM_ne_panic nc s)

/-! ### the renderers -/

theorem writePointer_ne_panic : ∀ xs : List Json, writePointer xs ≠ .panic
  | [] => by simp [writePointer]
  | e :: r => by
    have ih := writePointer_ne_panic r
    simp only [writePointer]
    split
    · split
      · simp
      · rename_i hne; intro h3; exact ih h3
    · simp
    · rename_i hp
      repeat' split at hp
      all_goals simp at hp

theorem writePointerPath_ne_panic (p : Path) : writePointerPath p ≠ .panic := by
  unfold writePointerPath
  split
  · exact writePointer_ne_panic _
  · simp

theorem renderPatchHunk_ne_panic (h : Hunk) : renderPatchHunk h ≠ .panic := by
  unfold renderPatchHunk
  refine Outcome.bind_ne_panic _ _ (writePointerPath_ne_panic _) ?_
  intro path _
  split
  · simp
  · split
    · simp
    · refine Outcome.bind_ne_panic _ _ ?_ ?_
      · split
        · split
          · simp [pure]
          · split
            · simp
            · split
              · simp
              · refine Outcome.bind_ne_panic _ _ (writePointerPath_ne_panic _) ?_
                intro pp _; simp [pure]
        · simp [pure]
      · intro beforeOps _
        split
        · simp
        · refine Outcome.bind_ne_panic _ _ ?_ ?_
          · split
            · split
              · simp [pure]
              · split
                · simp
                · split
                  · simp
                  · refine Outcome.bind_ne_panic _ _ (writePointerPath_ne_panic _) ?_
                    intro pp _; simp [pure]
            · simp [pure]
          · intro afterOps _
            simp [pure]

theorem renderPatchOps_ne_panic : ∀ d : Diff, renderPatchOps d ≠ .panic
  | [] => by simp [renderPatchOps]
  | h :: d => by
    unfold renderPatchOps
    refine Outcome.bind_ne_panic _ _ (renderPatchHunk_ne_panic h) ?_
    intro a _
    refine Outcome.bind_ne_panic _ _ (renderPatchOps_ne_panic d) ?_
    intro b _
    simp [pure]

theorem renderPatchM_ne_panic (nc : NumCodec) (d : Diff) : renderPatchM nc d ≠ .panic := by
  unfold renderPatchM
  split
  · simp
  · split
    · simp
    · simp
    · rename_i hp; exact absurd hp (renderPatchOps_ne_panic d)

theorem renderMergeDoc_ne_panic (d : Diff) : renderMergeDoc d ≠ .panic := by
  unfold renderMergeDoc
  split
  · simp
  · split
    · simp
    · exact patchAll_ne_panic _ _ _

theorem renderMergeM_ne_panic (nc : NumCodec) (d : Diff) : renderMergeM nc d ≠ .panic := by
  unfold renderMergeM
  split
  · simp
  · simp
  · rename_i hp; exact absurd hp (renderMergeDoc_ne_panic d)

/-! ### the clause of C13: applying any successfully read diff never panics -/

theorem patch_readDiff_ne_panic (nc : NumCodec) (s : String) (c : Json) (d : Diff)
    (h : readDiffM nc s = .ok d) : patchM c d ≠ .panic := patchM_ne_panic c d

theorem patch_readPatch_ne_panic (nc : NumCodec) (s : String) (c : Json) (d : Diff)
    (h : readPatchM nc s = .ok d) : patchM c d ≠ .panic := patchM_ne_panic c d

theorem patch_readMerge_ne_panic (nc : NumCodec) (s : String) (c : Json) (d : Diff)
    (h : readMergeM nc s = .ok d) : patchM c d ≠ .panic := patchM_ne_panic c d

/-- read-then-apply as one pipeline (`Outcome.bind`), for the three readers and the document reader -/
theorem read_then_patch_ne_panic (nc : NumCodec) (doc text : String) :
    (readJsonM nc doc >>= fun c => readDiffM nc text >>= fun d => patchM c d) ≠ .panic ∧
    (readJsonM nc doc >>= fun c => readPatchM nc text >>= fun d => patchM c d) ≠ .panic ∧
    (readJsonM nc doc >>= fun c => readMergeM nc text >>= fun d => patchM c d) ≠ .panic := by
  refine ⟨?_, ?_, ?_⟩
  · refine Outcome.bind_ne_panic _ _ (readJsonM_ne_panic _ _) fun c _ => ?_
    exact Outcome.bind_ne_panic _ _ (readDiffM_ne_panic _ _) fun d _ => patchM_ne_panic c d
  · refine Outcome.bind_ne_panic _ _ (readJsonM_ne_panic _ _) fun c _ => ?_
    exact Outcome.bind_ne_panic _ _ (readPatchM_ne_panic _ _) fun d _ => patchM_ne_panic c d
  · refine Outcome.bind_ne_panic _ _ (readJsonM_ne_panic _ _) fun c _ => ?_
    exact Outcome.bind_ne_panic _ _ (readMergeM_ne_panic _ _) fun d _ => patchM_ne_panic c d



end Jd.Robust
