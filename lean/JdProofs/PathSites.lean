/-
  JdProofs.PathSites — the aliasing discipline of JdModel/PathHeap.lean checked on the table of
  source sites REGENERATED from the Go code on every run (JdModel/Gen/PathSites.lean, tools/pathfacts):

  * every path STORED in a DiffElement by the diff-building code of v2/ and lib/ (the `diff` methods,
    `diffRest`, `readMergeInto`, `readDiff`) is a copy (`fresh`), and every path expression evaluated
    there is `safe` (appends to the parameter only, `drop` on copies only);
  * every slice of the caller's diff that a renderer edits in place (index assignment,
    `slices.Reverse`, assignment through a pointer) is a copy;
  * the values a diff ADDS are handed to `patch` (which builds them into the document and patches that in
    place) as DEEP copies — `patchAll` of both libraries, and any other function that calls a `patch` method
    directly (a `slices.Clone` does not count there); every container `cloneNode` returns is a copy (D29).

  Together with `PathHeap.run_faithful` (JdProofs/PathHeapProofs.lean: under this discipline Go's slice
  semantics agrees with the functional model, for every growth policy) this is what justifies treating
  paths and hunk payloads as VALUES everywhere else in the model. Removing a `.clone()` in the Go source
  changes the regenerated table and these `decide` proofs stop checking (a broken obligation, DESIGN §5),
  whether or not a generated input happens to hit a slice with spare capacity.
-/
import JdProofs.PathSitesDefs

namespace Jd.PathSites
open Jd Jd.PathHeap

/-- v2: every stored path is a copy, every path expression of the diff-building code is safe -/
theorem v2_diff_paths_ok : (Gen.pathSites.filter (fun s => isV2 s && !isWrite s)).all ok = true := by
  decide +kernel


/-- the renderers (v2 and v1) edit copies only -/
theorem renderers_write_copies : (Gen.pathSites.filter isWrite).all ok = true := by
  decide +kernel

/-- the table is not empty for the wrong reason: the extractor found the sites of every diff-building
    file (object, list, set, multiset, diff_common, diff_read) of both libraries and the renderers' writes -/
theorem table_covers_the_diff_code :
    (["v2/object.go", "v2/list.go", "v2/set.go", "v2/multiset.go", "v2/diff_common.go", "v2/diff_read.go",
      "lib/object.go", "lib/list.go", "lib/set.go", "lib/multiset.go", "lib/diff_common.go", "lib/diff_read.go"].all
        (fun f => Gen.pathSites.any (fun s => s.1.startsWith f && s.2.1 == .store))) = true ∧
    (["v2/object.go", "v2/list.go", "v2/set.go", "lib/object.go", "lib/list.go", "lib/set.go",
      "v2/diff_read.go", "lib/diff_read.go"].all
        (fun f => Gen.pathSites.any (fun s => s.1.startsWith f && s.2.1 == .call))) = true ∧
    (["v2/diff_write.go:Diff.RenderPatch", "v2/diff_write.go:Diff.RenderMerge", "lib/diff_write.go:Diff.RenderMerge",
      "v2/patch_common.go:patchAll", "lib/patch_common.go:patchAll"].all
        (fun f => Gen.pathSites.any (fun s => s.1.startsWith f && s.2.1 == .write))) = true := by
  decide +kernel

end Jd.PathSites
