/-
  JdProofs.SourceTables — the model's hand-written case analyses are THE SAME as the switch tables
  regenerated from the Go source on every run (JdModel/Gen/Tables.lean, tools/genfacts.py):
  `dispatch` (options.go), `Path.next()` and `Path.isLeaf()` (path.go).

  If a case is added, removed or re-mapped in the Go source, the regenerated table changes and these
  theorems stop checking: a broken obligation (DESIGN.md §5), independent of whether any generated
  test input happens to exercise the changed case.
-/
import JdModel.Patch
import JdModel.Native
import JdModel.Gen.Tables

namespace Jd.SourceTables
open Jd

def optTypeName : Opt → String
  | .merge => "mergeOption"
  | .set => "setOption"
  | .mset => "multisetOption"
  | .color => "colorOption"
  | .prec _ => "precisionOption"
  | .setKeys _ => "setKeysOption"

def tagOfGoType : String → Tag
  | "jsonSet" => .set
  | "jsonMultiset" => .mset
  | "jsonList" => .list
  | _ => .raw

/-- `dispatch` as the generated table says: the first option whose type has a case decides -/
def dispatchByTable : Opts → Tag
  | [] => tagOfGoType Gen.dispatchDefault
  | o :: r =>
    match Gen.dispatchCases.find? (fun c => c.1 == optTypeName o) with
    | some c => tagOfGoType c.2
    | none => dispatchByTable r

theorem dispatchTag_eq_table (o : Opts) : dispatchTag o = dispatchByTable o := by
  induction o with
  | nil => decide
  | cons x r ih =>
    cases x <;> simp [dispatchTag, dispatchByTable, optTypeName, Gen.dispatchCases, tagOfGoType, ih]

def optOfTypeName : String → Option Opt
  | "setOption" => some .set
  | "multisetOption" => some .mset
  | _ => none

/-- `Path.next()`'s option list as the generated table says -/
def pathMetaByTable : Path → Opts
  | [] => []
  | e :: _ =>
    match Gen.pathNextOptions.find? (fun c => c.1 == pathElemKind e) with
    | some c => c.2.filterMap optOfTypeName
    | none => []

theorem pathMeta_eq_table (p : Path) : pathMeta p = pathMetaByTable p := by
  cases p with
  | nil => rfl
  | cons e r => cases e <;> simp [pathMeta, pathMetaByTable, pathElemKind, Gen.pathNextOptions, optOfTypeName]

/-- `Path.isLeaf()` as the generated table says -/
def isLeafByTable : Path → Bool
  | [] => true
  | [e] => Gen.leafKinds.contains (pathElemKind e)
  | _ => false

theorem isLeaf_eq_table (p : Path) : Path.isLeaf p = isLeafByTable p := by
  match p with
  | [] => rfl
  | [e] => cases e <;> simp [Path.isLeaf, isLeafByTable, pathElemKind, Gen.leafKinds]
  | e :: f :: r => cases e <;> simp [Path.isLeaf, isLeafByTable]

/-- every path element kind of the model has a case in `Path.next()` (the Go function panics otherwise) -/
theorem pathNext_total (e : PathElem) : (Gen.pathNextOptions.find? (fun c => c.1 == pathElemKind e)).isSome = true := by
  cases e <;> simp [pathElemKind, Gen.pathNextOptions]

end Jd.SourceTables
