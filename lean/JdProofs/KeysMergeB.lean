/-
  JdProofs.KeysMergeB — SetKeys together with MERGE (C01 and C11, v2 library), second part: the
  EXACT class of inputs on which the property fails, the proof that it fails there (on the model;
  the witnesses were replayed on the Go library with the same outcome), and the proof that it holds
  everywhere else. Namespace `Jd.KM`. First part (the theorems under the sufficient hypothesis
  `IdentInj`, the general rejection lemma for merge hunks below a set element): JdProofs/KeysMerge.lean.

  THE CLASS. `clash o a b : Bool` (decidable, hash codes only, structural recursion): walk the two
  documents in parallel through object keys present on both sides; at two arrays that are `Equals`
  under `o` (as sets of member hash codes) look at every identity whose LAST bearer in the first
  array and LAST bearer in the second array (`identLookup`: "last element wins" of the Go maps
  `s1Map`, `s2Map`) are both objects: there is a clash if the two bearers have different hash codes,
  or, recursively, if they clash. Arrays that are not `Equals` never clash (they are replaced
  wholesale). So a clash needs, in one array of `a` AND in the matching array of `b`, two object
  members with the same identity (the same values under the set keys — or, KF-C01-identperm, the
  same multiset of key-value hash codes) and different contents, listed so that the last ones differ.

  MAIN THEOREMS (options `o` with `isMerge o = true`, `dispatchTag o = .set`, `precOf o = 0`,
  `keysOf o` arbitrary; `a b` with `setDoc`; `HashFaithful o (subterms a ++ subterms b)`; where the
  result is compared with `b`: `b.nullFree`, `objVoidFree b`, `FloatLaws`; always `FloatEq0`)
    * `merge_diff_then_patch_setkeys_iff` (C01):
        (∃ r, patchAll sw a (diffM o a b) = .ok r ∧ equals o r b = true ∧ equivB o r b = true)
          ↔ clash o a b = false.
      `merge_diff_then_patch_setkeys_noclash` is (⇐); `patch_ok_iff_noclash`: `Patch` succeeds AT
      ALL iff there is no clash; `patch_err_of_clash`: with a clash
      `patchAll sw a (diffM o a b) = .err` (both variants `sw`) — a FALSE instance of C01.
      `patchM_diffM_SetKeys_MERGE_iff`, `patchM_diffM_SetKeys_MERGE_err`: for the call
      `a.Patch(a.Diff(b, SetKeys(ks...), MERGE))`; `patchM_diffM_cli_setkeys_merge_iff`: for the option
      list `[SetKeys(ks), MERGE, Precision(0)]` the CLI builds for `jd -setkeys K -f merge`.
    * `merge_render_correct_setkeys_noclash` (C11): without a clash and with `equals o a b = false`,
        ∃ m, renderMergeDoc (diffM o a b) = .ok m ∧ equals o (mergePatch a m) b = true ∧
             equivB o (mergePatch a m) b = true;
      `render_ok_iff_noclash`: `RenderMerge` succeeds iff there is no clash; `render_err_of_clash`:
      with a clash `renderMergeDoc (diffM o a b) = .err` — a FALSE instance of C11.
    * `noclash_of_identInj`: `IdentInj o (subterms b)` excludes a clash (so part one is an instance);
      `identInj_of_keyedDistinct`, `merge_diff_then_patch_setkeys_distinct`: the SetKeys precondition
      on the target ("in every array of `b` the object members have pairwise distinct identities",
      `DPK.KeyedDistinct`) together with `DES.KindSepI o (subterms b) (subterms b)` (no object has the
      identity of a non-object: a collision class) implies `IdentInj`, hence C01.
    * `merge_diff_then_patch_mset_keys`: MULTISET+SetKeys+MERGE (`dispatchTag o = .mset`, `keysOf o`
      arbitrary; `jd -mset -setkeys K -f merge`): C01 and C11 exactly as for MULTISET+MERGE — the
      keys play no role (`DPK.merge_diff_then_patch_setmodes` / `MSet.merge_render_correct_setmodes`
      without their hypothesis `keysOf o = none`).
  LEMMAS: `diffNode_nil_of_equals_noclash` (`Equals` documents without a clash have an empty diff,
    either strategy: `DES.diffNode_nil_of_equals_keys` with `IdentInj` replaced by the exact
    condition), `diffNode_eq_ds_noclash` (without a clash the merge diff is `MSet.ds` hunk by hunk),
    `merge_hunks_noclash` (… all its hunks are merge hunks whose path continues the prefix with
    keys), `equals_of_merge_diff_nil` (merge strategy: an empty diff means `Equals`, no hash
    hypothesis), `clash_bad_hunk` (with a clash the diff contains a merge hunk with a `badPath`),
    `sub_origin_last`, `clashElems_witness` (the pairs `clashElems` inspects are the pairs
    `diffSetElems` sub-diffs).
  HYPOTHESES and why: as in part one, minus `IdentInj`. `HashFaithful` is used in BOTH directions
    (for the failure direction: the hunks of a non-clashing, non-`Equals` pair of members must be
    merge hunks, which a collision could spoil). It cannot be dropped from the C11 statements:
    `Witness.collision_needs_hashFaithful` (a genuine FNV-1a collision between two arrays of strings,
    no clash, `IdentInj` holds, `RenderMerge` fails; `Patch` succeeds there).
  WITNESSES (model theorems; the same documents were run through the Go library: same outcome)
    * `Witness.setkeys_merge_breaks`: `{"k":[{"id":"1","v":"x"},{"id":"1","v":"y"}],"z":"q"}` →
      `{"k":[{"id":"1","v":"y"},{"id":"1","v":"x"}],"z":"r"}` under `[SetKeys(id), MERGE]`: null-free,
      `a ≠ b`, no collision (`w_hf`), and `Patch` and `RenderMerge` both return an error (Go: "merge
      patch path must be composed of only strings: found jd.PathSetKeys"). Outside the SetKeys
      precondition (two members with the same `id`), inside the wording of C01 / C11.
      `Witness.wb_not_identInj`: it is outside `IdentInj`.
    * `Witness.identperm_merge_breaks`: `[{"id":"1","v":"x"},{"k":"1","v":"y"}]` → the same two
      members in the other order under `[SetKeys(id,k), MERGE]`: the two members have DIFFERENT key
      tuples but the same identity (KF-C01-identperm); `Equals` is true, `Patch` and `RenderMerge` of
      the (non-empty) diff return an error.
    * `Witness.wc_run` (non-vacuity beyond `IdentInj`): the first document against
      `{"k":[same array, same order],"z":"r"}`: no clash although `IdentInj` fails; the library succeeds.
  NOT PROVED: anything with a Precision option other than 0; the text layer (`renderMergeM`: the
    statements are about `renderMergeDoc`, the document whose `Json()` text is returned, as in
    JdProofs/MergeSetModes.lean).
-/
import JdProofs.KeysMerge

namespace Jd.KM
open Jd Jd.Spec Jd.Merge Jd.SetDP
open Jd.MSet (ds dsKvs GoodS Rel)
open Jd.DES (DiffFaithful KindSepH IdentInj)

/-! ## 6. the exact class of inputs on which `Diff` emits a merge hunk below a set element -/

mutual
/-- `clash o a b`: following object keys from the two roots, and — through arrays that are `Equals`
    as sets — the pairs of object members that `jsonSet.diff` sub-diffs (the LAST bearer of an identity
    in the first array against the LAST bearer of the same identity in the second), some such pair
    of members has different hash codes. -/
def clash (o : Opts) : Json → Json → Bool
  | .obj kvs, .obj kvs' => clashKvs o kvs' kvs
  | .arr _ xs, .arr _ ys => equals o (.arr .raw xs) (.arr .raw ys) && clashElems o ys xs
  | _, _ => false
def clashKvs (o : Opts) (kvs' : List (String × Json)) : List (String × Json) → Bool
  | [] => false
  | (k, v) :: r =>
    (match alookup k kvs' with
     | some v' => clash o v v'
     | none => false) || clashKvs o kvs' r
def clashElems (o : Opts) (ys : List Json) : List Json → Bool
  | [] => false
  | x :: r =>
    (if (r.map (identOf o)).contains (identOf o x) then false
     else match identLookup o (identOf o x) ys with
       | none => false
       | some y => x.isObj && y.isObj && (hashCode o x != hashCode o y || clash o x y))
    || clashElems o ys r
end

theorem clash_obj_obj (o : Opts) (kvs kvs' : List (String × Json)) :
    clash o (.obj kvs) (.obj kvs') = clashKvs o kvs' kvs := by simp [clash]

theorem clash_arr_arr (o : Opts) (t t' : Tag) (xs ys : List Json) :
    clash o (.arr t xs) (.arr t' ys)
      = (equals o (.arr .raw xs) (.arr .raw ys) && clashElems o ys xs) := by simp [clash]

theorem clashKvs_false {o : Opts} {kvs' : List (String × Json)} :
    ∀ {kvs : List (String × Json)}, clashKvs o kvs' kvs = false →
      ∀ k v v', (k, v) ∈ kvs → alookup k kvs' = some v' → clash o v v' = false
  | [], _, _, _, _, hm, _ => by cases hm
  | (k0, v0) :: r, h, k, v, v', hm, hl => by
    simp only [clashKvs, Bool.or_eq_false_iff] at h
    rcases List.mem_cons.1 hm with e | hm
    · cases e
      simpa [hl] using h.1
    · exact clashKvs_false h.2 k v v' hm hl

theorem clashKvs_true {o : Opts} {kvs' : List (String × Json)} :
    ∀ {kvs : List (String × Json)}, clashKvs o kvs' kvs = true →
      ∃ k v v', (k, v) ∈ kvs ∧ alookup k kvs' = some v' ∧ clash o v v' = true
  | [], h => by simp [clashKvs] at h
  | (k0, v0) :: r, h => by
    simp only [clashKvs, Bool.or_eq_true] at h
    rcases h with h | h
    · cases hl : alookup k0 kvs' with
      | none => simp [hl] at h
      | some v' => exact ⟨k0, v0, v', List.mem_cons_self, hl, by simpa [hl] using h⟩
    · obtain ⟨k, v, v', hm, hl, hc⟩ := clashKvs_true h
      exact ⟨k, v, v', List.mem_cons_of_mem _ hm, hl, hc⟩

/-- a sub-diff part of the set diff comes from a pair that `clashElems` inspects -/
theorem sub_origin_last (o : Opts) (m : Bool) (p : Path) (ys : List Json) :
    ∀ (xs : List Json) (h : UInt64) (d : Diff), (h, SetPart.sub d) ∈ diffSetElems o m p ys xs →
      ∃ kvs kvs', Json.obj kvs ∈ xs ∧ Json.obj kvs' ∈ ys ∧
        d = diffNode o m (.obj kvs) (.obj kvs') (p ++ [newPathSetKeys o kvs]) ∧
        (clashElems o ys xs = false →
          hashCode o (.obj kvs) = hashCode o (.obj kvs') ∧ clash o (.obj kvs) (.obj kvs') = false)
  | [], h, d, hm => by simp [DES.diffSetElems_nil_m] at hm
  | x :: r, h, d, hm => by
    have lift : (h, SetPart.sub d) ∈ diffSetElems o m p ys r →
        ∃ kvs kvs', Json.obj kvs ∈ x :: r ∧ Json.obj kvs' ∈ ys ∧
          d = diffNode o m (.obj kvs) (.obj kvs') (p ++ [newPathSetKeys o kvs]) ∧
          (clashElems o ys (x :: r) = false →
            hashCode o (.obj kvs) = hashCode o (.obj kvs') ∧
              clash o (.obj kvs) (.obj kvs') = false) := fun hh => by
      obtain ⟨kvs, kvs', h1, h2, h3, h4⟩ := sub_origin_last o m p ys r h d hh
      refine ⟨kvs, kvs', List.mem_cons_of_mem _ h1, h2, h3, fun hc => h4 ?_⟩
      simp only [clashElems, Bool.or_eq_false_iff] at hc
      exact hc.2
    rw [DES.diffSetElems_cons_m] at hm
    split at hm
    · exact lift hm
    · next hcont =>
      split at hm
      · rcases List.mem_cons.1 hm with he | hm
        · simp at he
        · exact lift hm
      · next y e =>
        split at hm
        · next kvs kvs' =>
          rcases List.mem_cons.1 hm with he | hm
          · simp only [Prod.mk.injEq, SetPart.sub.injEq] at he
            obtain ⟨hy, _⟩ := identLookup_some e
            refine ⟨_, _, List.mem_cons_self, hy, he.2, fun hc => ?_⟩
            simp only [clashElems, Bool.or_eq_false_iff] at hc
            have h1 := hc.1
            rw [if_neg hcont, e] at h1
            simpa [Json.isObj] using h1
          · exact lift hm
        · exact lift hm

/-- a pair found by `clashElems` is sub-diffed by the set diff -/
theorem clashElems_witness (o : Opts) (m : Bool) (p : Path) (ys : List Json) :
    ∀ xs : List Json, clashElems o ys xs = true →
      ∃ kvs kvs', Json.obj kvs ∈ xs ∧ Json.obj kvs' ∈ ys ∧
        (identOf o (.obj kvs),
          SetPart.sub (diffNode o m (.obj kvs) (.obj kvs') (p ++ [newPathSetKeys o kvs])))
            ∈ diffSetElems o m p ys xs ∧
        (hashCode o (.obj kvs) ≠ hashCode o (.obj kvs') ∨ clash o (.obj kvs) (.obj kvs') = true)
  | [], h => by simp [clashElems] at h
  | x :: r, h => by
    simp only [clashElems, Bool.or_eq_true] at h
    rcases h with h | h
    · by_cases hcont : (r.map (identOf o)).contains (identOf o x) = true
      · rw [if_pos hcont] at h; cases h
      · rw [if_neg hcont] at h
        cases e : identLookup o (identOf o x) ys with
        | none => simp [e] at h
        | some y =>
          rw [e] at h
          simp only [Bool.and_eq_true, Bool.or_eq_true, bne_iff_ne, ne_eq] at h
          obtain ⟨⟨hx, hy⟩, hc⟩ := h
          cases x with
          | obj kvs =>
            cases y with
            | obj kvs' =>
              obtain ⟨hym, _⟩ := identLookup_some e
              refine ⟨kvs, kvs', List.mem_cons_self, hym, ?_, hc⟩
              rw [DES.diffSetElems_cons_m, if_neg hcont, e]
              exact List.mem_cons_self
            | _ => simp [Json.isObj] at hy
          | _ => simp [Json.isObj] at hx
    · obtain ⟨kvs, kvs', h1, h2, h3, h4⟩ := clashElems_witness o m p ys r h
      exact ⟨kvs, kvs', List.mem_cons_of_mem _ h1, h2,
        DES.diffSetElems_sub_cons o m p ys x r _ h3, h4⟩

/-- **`Equals` documents without a clash have an empty merge diff** (the version of
    `DES.diffNode_nil_of_equals_keys` in which `IdentInj` on the second document is replaced by the
    exact condition) -/
theorem diffNode_nil_of_equals_noclash (F : FloatEq0) {o : Opts} (hd : dispatchTag o = .set)
    (hp : precOf o = 0) (m : Bool) {SA SB : List Json} (FH : DiffFaithful o SA SB)
    (KH : KindSepH o SA SB) :
    ∀ a : Json, DocOk a → Within SA a → ∀ b : Json, DocOk b → Within SB b →
      equals o a b = true → clash o a b = false → ∀ p, diffNode o m a b p = [] := by
  have scalar : ∀ a : Json, (∀ t xs, a ≠ .arr t xs) → (∀ kvs, a ≠ .obj kvs) →
      ∀ b, equals o a b = true → ∀ p, diffNode o m a b p = [] :=
    fun a h1 h2 b h p => (diffNode_scalar_nil_iff hp m a b h1 h2 p).2 h
  have hraw : effTag o .raw = .set := by simp [effTag, hd]
  have hneq : (dispatchTag o == Tag.mset) = false := by rw [hd]; rfl
  intro a
  induction a using jsonInd with
  | void => intro _ _ b _ _ h _; exact scalar _ (fun _ _ e => by cases e) (fun _ e => by cases e) b h
  | null => intro _ _ b _ _ h _; exact scalar _ (fun _ _ e => by cases e) (fun _ e => by cases e) b h
  | bool x => intro _ _ b _ _ h _; exact scalar _ (fun _ _ e => by cases e) (fun _ e => by cases e) b h
  | num x => intro _ _ b _ _ h _; exact scalar _ (fun _ _ e => by cases e) (fun _ e => by cases e) b h
  | str x => intro _ _ b _ _ h _; exact scalar _ (fun _ _ e => by cases e) (fun _ e => by cases e) b h
  | arr t xs ih =>
    intro da wa b db wb h hc p
    have ht := da.raw
    subst ht
    by_cases hb : ∃ ys, b.dispatch o = .arr .set ys
    · obtain ⟨ys, hb⟩ := hb
      have hbr : b = .arr .raw ys := by
        rcases DES.dispatch_eq_set hd hb with rfl | rfl
        · rfl
        · exact absurd db.raw (by simp)
      subst hbr
      have hce : clashElems o ys xs = false := by
        rw [clash_arr_arr, h] at hc
        simpa using hc
      rw [DES.equals_raw_set hd xs hb, beq_iff_eq] at h
      rw [DES.diffNode_set hd m xs _ ys hb p, DES.equals_set_set, h]
      simp only [beq_self_eq_true, Bool.not_true, Bool.and_false, Bool.false_eq_true, if_false]
      have hh : hashCode o (.arr .raw xs) = hashCode o (.arr .raw ys) := by
        simp only [hashCode, hraw]; exact h
      have hok := FH _ wa.self _ wb.self hh
      simp only [DES.pairOK, DES.arrPre, hraw, beq_iff_eq] at hok
      have hext : ∀ c, c ∈ xs.map (hashCode o) ↔ c ∈ ys.map (hashCode o) := by
        intro c
        rw [← hashList_eq_map, ← hashList_eq_map, ← DES.mem_hsort_hdedup c (hashList o xs),
          ← DES.mem_hsort_hdedup c (hashList o ys), hok]
      have k2 : ∀ x ∈ xs, ∀ y ∈ ys, hashCode o x = hashCode o y → identOf o x = identOf o y := by
        intro x hx y hy e
        have hkind := KH x (wa.elem hx).self y (wb.elem hy).self e
        cases x with
        | obj kvs =>
          cases y with
          | obj kvs' =>
            have hok' := FH _ (wa.elem hx).self _ (wb.elem hy).self e
            simp only [DES.pairOK, hneq, Bool.false_or] at hok'
            exact DES.ident_eq_of_equals F (.inl hd) hp (da.elem hx) (db.elem hy) hok'
          | _ => simp [Json.isObj] at hkind
        | _ =>
          have hx0 := hkind
          simp only [Json.isObj] at hx0
          rw [DES.identOf_nonobj o (by simp [Json.isObj]), DES.identOf_nonobj o hx0.symm, e]
      rw [DES.setBody_nil_iff]
      constructor
      · rw [List.flatMap_eq_nil_iff]
        rintro ⟨hh', part⟩ hkp
        cases part with
        | removed z => rfl
        | sub d =>
          obtain ⟨kvs, kvs', hx, hy, rfl, hlast⟩ :=
            sub_origin_last o m p ys xs hh' d ((ksort_perm _).mem_iff.1 hkp)
          obtain ⟨e, hnc⟩ := hlast hce
          have hok' := FH _ (wa.elem hx).self _ (wb.elem hy).self e
          simp only [DES.pairOK, hneq, Bool.false_or] at hok'
          exact ih _ hx (da.elem hx) (wa.elem hx) _ (db.elem hy) (wb.elem hy) hok' hnc _
      · intro c
        simp only [List.mem_map]
        constructor
        · rintro ⟨x, hx, rfl⟩
          obtain ⟨y, hy, ey⟩ := List.mem_map.1 ((hext _).1 (List.mem_map_of_mem (f := hashCode o) hx))
          exact ⟨y, hy, (k2 x hx y hy ey.symm).symm⟩
        · rintro ⟨y, hy, rfl⟩
          obtain ⟨x, hx, ex⟩ := List.mem_map.1 ((hext _).2 (List.mem_map_of_mem (f := hashCode o) hy))
          exact ⟨x, hx, k2 x hx y hy ex⟩
    · rw [DES.equals_raw_set_other hd xs (fun ys e => hb ⟨ys, e⟩)] at h
      cases h
  | obj kvs ih =>
    intro da wa b db wb h hc p
    cases b with
    | obj kvs' =>
      rw [clash_obj_obj] at hc
      obtain ⟨h1, h2⟩ := (equals_obj_iff o da.sorted db.sorted).1 h
      have key : ∀ r : List (String × Json), (∀ kv ∈ r, kv ∈ kvs) →
          diffKvs o m p kvs' r = [] := by
        intro r
        induction r with
        | nil => intro _; exact DE.diffKvs_nil o m p kvs'
        | cons kv r ihr =>
          obtain ⟨k, v⟩ := kv
          intro hsub
          have hmem : (k, v) ∈ kvs := hsub _ List.mem_cons_self
          obtain ⟨v', hl, he⟩ := h1 k v hmem
          have hmem' := mem_of_alookup hl
          rw [DE.diffKvs_cons, ihr (fun kv hh => hsub kv (List.mem_cons_of_mem _ hh)), hl]
          simp only [List.append_nil]
          exact ih k v hmem (da.val hmem) (wa.val hmem) v' (db.val hmem') (wb.val hmem') he
            (clashKvs_false hc k v v' hmem hl) _
      rw [DE.diffNode_obj_obj, key kvs (fun _ hh => hh), filter_added_nil h2]
      rfl
    | _ => simp [equals] at h

/-- without a clash the library's merge diff under SetKeys is `MSet.ds`, hunk by hunk -/
theorem diffNode_eq_ds_noclash (F : FloatEq0) {o : Opts} (hd : dispatchTag o = .set)
    (hp : precOf o = 0) {SA SB : List Json} (FH : DiffFaithful o SA SB) (KH : KindSepH o SA SB) :
    ∀ a b, DocOk a → DocOk b → Within SA a → Within SB b → objVoidFree b = true →
      clash o a b = false →
      ∀ q : List String,
        diffNode o true a b (q.map .key) = (ds o a b).map (fun e => mh (q ++ e.1) e.2) := by
  have hm : dispatchTag o = .set ∨ dispatchTag o = .mset := .inl hd
  have scalar : ∀ a b : Json, a.isObj = false → Merge.isArr a = false → ∀ q : List String,
      diffNode o true a b (q.map .key) = (ds o a b).map (fun e => mh (q ++ e.1) e.2) := by
    intro a b h1 h2 q
    rw [Merge.diffNode_scalar o h1 h2, MSet.ds_scalar o h1 h2, diffCommon]
    split <;> simp [mh]
  intro a
  induction a using jsonInd with
  | void => intro b _ _ _ _ _ _ q; exact scalar _ b rfl rfl q
  | null => intro b _ _ _ _ _ _ q; exact scalar _ b rfl rfl q
  | bool x => intro b _ _ _ _ _ _ q; exact scalar _ b rfl rfl q
  | num x => intro b _ _ _ _ _ _ q; exact scalar _ b rfl rfl q
  | str x => intro b _ _ _ _ _ _ q; exact scalar _ b rfl rfl q
  | arr t xs _ =>
    intro b ha hb wa wb hv hc q
    have ht := ha.raw
    subst ht
    cases b with
    | arr t' ys =>
      have ht' := hb.raw
      subst ht'
      rw [MSet.ds_arr_arr]
      cases he : equals o (.arr .raw xs) (.arr .raw ys) with
      | true =>
        rw [diffNode_nil_of_equals_noclash F hd hp true FH KH _ ha wa _ hb wb he hc]
        simp
      | false =>
        rw [MSet.diffNode_merge_arr_ne hm xs ys _ he]
        simp [mh]
    | _ => rw [MSet.diffNode_merge_arr_other hm xs _ rfl, MSet.ds_arr_other o _ xs rfl]; simp [mh]
  | obj kvs ih =>
    intro b ha hb wa wb hv hc q
    cases b with
    | obj kvs' =>
      rw [clash_obj_obj] at hc
      simp only [objVoidFree] at hv
      have hkv : ∀ r : List (String × Json), (∀ kv ∈ r, kv ∈ kvs) →
          diffKvs o true (q.map .key) kvs' r
            = (dsKvs o kvs' r).map (fun e => mh (q ++ e.1) e.2) := by
        intro r
        induction r with
        | nil => intro _; rw [DE.diffKvs_nil, MSet.dsKvs_nil]; rfl
        | cons kv r ihr =>
          intro hsub
          obtain ⟨k, v⟩ := kv
          have hm1 : (k, v) ∈ kvs := hsub _ List.mem_cons_self
          rw [DE.diffKvs_cons, MSet.dsKvs_cons, List.map_append,
            ihr (fun kv hh => hsub kv (List.mem_cons_of_mem _ hh))]
          congr 1
          cases hl : alookup k kvs' with
          | none => simp [mh]
          | some v' =>
            have hm2 := mem_of_alookup hl
            have := ih k v hm1 v' (ha.val hm1) (hb.val hm2) (wa.val hm1) (wb.val hm2)
              (alookup_objVoidFree hl hv) (clashKvs_false hc k v v' hm1 hl) (q ++ [k])
            simp only [List.map_append, List.map_cons, List.map_nil] at this
            simp only [this]
            simp [consE, Function.comp_def]
      rw [DE.diffNode_obj_obj, MSet.ds_obj_obj, List.map_append, hkv kvs (fun _ hh => hh),
        additions_eq q kvs kvs' hv]
    | _ =>
      rw [diffNode.eq_def, MSet.ds_obj_other o kvs rfl]; simp [mh]

/-! ### the merge strategy: an empty diff means `Equals`, without any hash hypothesis -/

theorem equals_of_merge_diff_nil {o : Opts} (hd : dispatchTag o = .set) (hp : precOf o = 0) :
    ∀ a : Json, DocOk a → ∀ b : Json, DocOk b → ∀ p, diffNode o true a b p = [] →
      equals o a b = true := by
  have scalar : ∀ a : Json, (∀ t xs, a ≠ .arr t xs) → (∀ kvs, a ≠ .obj kvs) →
      ∀ b p, diffNode o true a b p = [] → equals o a b = true :=
    fun a h1 h2 b p h => (diffNode_scalar_nil_iff hp true a b h1 h2 p).1 h
  intro a
  induction a using jsonInd with
  | void => intro _ b _ p h; exact scalar _ (fun _ _ e => by cases e) (fun _ e => by cases e) b p h
  | null => intro _ b _ p h; exact scalar _ (fun _ _ e => by cases e) (fun _ e => by cases e) b p h
  | bool x => intro _ b _ p h; exact scalar _ (fun _ _ e => by cases e) (fun _ e => by cases e) b p h
  | num x => intro _ b _ p h; exact scalar _ (fun _ _ e => by cases e) (fun _ e => by cases e) b p h
  | str x => intro _ b _ p h; exact scalar _ (fun _ _ e => by cases e) (fun _ e => by cases e) b p h
  | arr t xs _ =>
    intro da b db p h
    have ht := da.raw
    subst ht
    by_cases hb : ∃ ys, b.dispatch o = .arr .set ys
    · obtain ⟨ys, hb⟩ := hb
      rw [DES.equals_raw_set hd xs hb, ← DES.equals_set_set]
      rw [DES.diffNode_set hd true xs _ ys hb p] at h
      cases he : equals o (.arr .set xs) (.arr .set ys) with
      | true => rfl
      | false => simp [he] at h
    · exact absurd h (DES.diffNode_set_other hd true xs b (fun ys e => hb ⟨ys, e⟩) p)
  | obj kvs ih =>
    intro da b db p h
    cases b with
    | obj kvs' =>
      refine equals_obj_of_diff_nil da.sorted db.sorted h ?_
      have key : ∀ r : List (String × Json), (∀ kv ∈ r, kv ∈ kvs) →
          diffKvs o true p kvs' r = [] → AllLook (equals o) r kvs' := by
        intro r
        induction r with
        | nil => intro _ _ k v hm; cases hm
        | cons kv r ihr =>
          obtain ⟨k, v⟩ := kv
          intro hsub hd' k0 v0 hm0
          obtain ⟨⟨v', hl, hdv⟩, hrest⟩ := diffKvs_cons_nil hd'
          rcases List.mem_cons.1 hm0 with e | hm0
          · cases e
            have hmem : (k, v) ∈ kvs := hsub _ List.mem_cons_self
            have hmem' := mem_of_alookup hl
            exact ⟨v', hl, ih k v hmem (da.val hmem) v' (db.val hmem') _ hdv⟩
          · exact ihr (fun kv hh => hsub kv (List.mem_cons_of_mem _ hh)) hrest k0 v0 hm0
      exact key kvs (fun _ hh => hh)
    | _ => exact absurd h (DE.diffNode_obj_other_ne o true kvs _ (fun _ e => by cases e) p)

/-! ### paths -/

def isKeyE : PathElem → Bool
  | .key _ => true
  | _ => false

theorem badPath_append_nonkey (e : PathElem) (rest : Path) (he : isKeyE e = false)
    (hr : rest ≠ []) : ∀ p : Path, badPath (p ++ e :: rest) = true
  | [] => by
    cases e <;> simp_all [isKeyE, badPath]
  | x :: r => by
    have ih := badPath_append_nonkey e rest he hr r
    cases x <;> simp [badPath, ih]

theorem newPathSetKeys_isKey (o : Opts) (kvs : List (String × Json)) :
    isKeyE (newPathSetKeys o kvs) = false := by
  unfold newPathSetKeys
  split <;> rfl

/-- without a clash every hunk of the merge diff is a merge hunk whose path continues the prefix
    with object keys (at least one when both nodes are objects) -/
theorem merge_hunks_noclash (F : FloatEq0) {o : Opts} (hd : dispatchTag o = .set)
    (hp : precOf o = 0) {SA SB : List Json} (FH : DiffFaithful o SA SB) (KH : KindSepH o SA SB) :
    ∀ a b, DocOk a → DocOk b → Within SA a → Within SB b → clash o a b = false →
      ∀ p, ∀ h ∈ diffNode o true a b p, h.merge = true ∧
        ∃ ks : List String, h.path = p ++ ks.map .key ∧
          (a.isObj = true → b.isObj = true → ks ≠ []) := by
  have hm : dispatchTag o = .set ∨ dispatchTag o = .mset := .inl hd
  have scalar : ∀ a b : Json, a.isObj = false → Merge.isArr a = false → ∀ p,
      ∀ h ∈ diffNode o true a b p, h.merge = true ∧
        ∃ ks : List String, h.path = p ++ ks.map .key ∧
          (a.isObj = true → b.isObj = true → ks ≠ []) := by
    intro a b h1 h2 p h hh
    rw [Merge.diffNode_scalar o h1 h2, diffCommon] at hh
    split at hh
    · cases hh
    · simp only [if_true, List.mem_singleton] at hh
      subst hh
      exact ⟨rfl, [], by simp, fun e => by simp [h1] at e⟩
  intro a
  induction a using jsonInd with
  | void => intro b _ _ _ _ _; exact scalar _ b rfl rfl
  | null => intro b _ _ _ _ _; exact scalar _ b rfl rfl
  | bool x => intro b _ _ _ _ _; exact scalar _ b rfl rfl
  | num x => intro b _ _ _ _ _; exact scalar _ b rfl rfl
  | str x => intro b _ _ _ _ _; exact scalar _ b rfl rfl
  | arr t xs _ =>
    intro b ha hb wa wb hc p h hh
    have ht := ha.raw
    subst ht
    cases b with
    | arr t' ys =>
      have ht' := hb.raw
      subst ht'
      cases he : equals o (.arr .raw xs) (.arr .raw ys) with
      | true =>
        rw [diffNode_nil_of_equals_noclash F hd hp true FH KH _ ha wa _ hb wb he hc] at hh
        cases hh
      | false =>
        rw [MSet.diffNode_merge_arr_ne hm xs ys _ he, List.mem_singleton] at hh
        subst hh
        exact ⟨rfl, [], by simp, fun e => by simp [Json.isObj] at e⟩
    | _ =>
      rw [MSet.diffNode_merge_arr_other hm xs _ rfl, List.mem_singleton] at hh
      subst hh
      exact ⟨rfl, [], by simp, fun e => by simp [Json.isObj] at e⟩
  | obj kvs ih =>
    intro b ha hb wa wb hc p h hh
    cases b with
    | obj kvs' =>
      rw [clash_obj_obj] at hc
      have hkv : ∀ r : List (String × Json), (∀ kv ∈ r, kv ∈ kvs) →
          ∀ h ∈ diffKvs o true p kvs' r, h.merge = true ∧
            ∃ ks : List String, h.path = p ++ ks.map .key ∧ ks ≠ [] := by
        intro r
        induction r with
        | nil => intro _ h hh; rw [DE.diffKvs_nil] at hh; cases hh
        | cons kv r ihr =>
          intro hsub h hh
          obtain ⟨k, v⟩ := kv
          have hm1 : (k, v) ∈ kvs := hsub _ List.mem_cons_self
          rw [DE.diffKvs_cons, List.mem_append] at hh
          rcases hh with hh | hh
          · cases hl : alookup k kvs' with
            | none =>
              simp only [hl, if_true, List.mem_singleton] at hh
              subst hh
              exact ⟨rfl, [k], by simp, by simp⟩
            | some v' =>
              simp only [hl] at hh
              have hm2 := mem_of_alookup hl
              obtain ⟨h1, ks, h2, _⟩ := ih k v hm1 v' (ha.val hm1) (hb.val hm2) (wa.val hm1)
                (wb.val hm2) (clashKvs_false hc k v v' hm1 hl) _ h hh
              exact ⟨h1, k :: ks, by simp [h2], by simp⟩
          · exact ihr (fun kv hh => hsub kv (List.mem_cons_of_mem _ hh)) h hh
      rw [DE.diffNode_obj_obj, List.mem_append] at hh
      rcases hh with hh | hh
      · obtain ⟨h1, ks, h2, h3⟩ := hkv kvs (fun _ hh => hh) h hh
        exact ⟨h1, ks, h2, fun _ _ => h3⟩
      · obtain ⟨kv, _, rfl⟩ := List.mem_map.1 hh
        exact ⟨rfl, [kv.1], by simp, fun _ _ => by simp⟩
    | _ =>
      rw [diffNode.eq_def] at hh
      simp only [if_true, List.mem_singleton] at hh
      subst hh
      exact ⟨rfl, [], by simp, fun _ e => by simp [Json.isObj] at e⟩

theorem mem_diffKvs_of (o : Opts) (m : Bool) (p : Path) (kvs' : List (String × Json))
    {k : String} {v v' : Json} {h : Hunk} (hl : alookup k kvs' = some v')
    (hh : h ∈ diffNode o m v v' (p ++ [.key k])) :
    ∀ r : List (String × Json), (k, v) ∈ r → h ∈ diffKvs o m p kvs' r
  | [], hm => by cases hm
  | (k0, v0) :: r, hm => by
    rw [DE.diffKvs_cons, List.mem_append]
    rcases List.mem_cons.1 hm with e | hm
    · cases e
      left
      simpa [hl] using hh
    · exact .inr (mem_diffKvs_of o m p kvs' hl hh r hm)

/-- **with a clash the merge diff contains a merge hunk addressed through a set element** -/
theorem clash_bad_hunk (F : FloatEq0) {o : Opts} (hd : dispatchTag o = .set)
    (hp : precOf o = 0) {SA SB : List Json} (FH : DiffFaithful o SA SB) (KH : KindSepH o SA SB) :
    ∀ a b, DocOk a → DocOk b → Within SA a → Within SB b → clash o a b = true →
      ∀ p, ∃ h ∈ diffNode o true a b p, h.merge = true ∧ badPath h.path = true := by
  intro a
  induction a using jsonInd with
  | void => intro b _ _ _ _ hc; simp [clash] at hc
  | null => intro b _ _ _ _ hc; simp [clash] at hc
  | bool x => intro b _ _ _ _ hc; simp [clash] at hc
  | num x => intro b _ _ _ _ hc; simp [clash] at hc
  | str x => intro b _ _ _ _ hc; simp [clash] at hc
  | arr t xs ih =>
    intro b ha hb wa wb hc p
    have ht := ha.raw
    subst ht
    cases b with
    | arr t' ys =>
      have ht' := hb.raw
      subst ht'
      rw [clash_arr_arr, Bool.and_eq_true] at hc
      obtain ⟨he, hce⟩ := hc
      have hdisp : (Json.arr .raw ys).dispatch o = .arr .set ys := by simp [Json.dispatch, hd]
      rw [DES.diffNode_set hd true xs _ ys hdisp p, MSet.equals_set_tag hd, he]
      simp only [Bool.not_true, Bool.and_false, Bool.false_eq_true, if_false]
      obtain ⟨kvs, kvs', hx, hy, hmem, hor⟩ := clashElems_witness o true p ys xs hce
      have hsub : ∀ h ∈ diffNode o true (.obj kvs) (.obj kvs') (p ++ [newPathSetKeys o kvs]),
          h ∈ DES.setBody o true p xs ys := by
        intro h hh
        unfold DES.setBody
        refine List.mem_append_left _ (List.mem_flatMap.2 ⟨_, (ksort_perm _).mem_iff.2 hmem, ?_⟩)
        simpa [subOf] using hh
      by_cases hcl : clash o (.obj kvs) (.obj kvs') = true
      · obtain ⟨h, hh, h1, h2⟩ := ih _ hx _ (ha.elem hx) (hb.elem hy) (wa.elem hx) (wb.elem hy) hcl
          (p ++ [newPathSetKeys o kvs])
        exact ⟨h, hsub h hh, h1, h2⟩
      · have hcl' : clash o (.obj kvs) (.obj kvs') = false := by simpa using hcl
        have hne : hashCode o (.obj kvs) ≠ hashCode o (.obj kvs') := by
          rcases hor with h | h
          · exact h
          · exact absurd h hcl
        cases hdn : diffNode o true (.obj kvs) (.obj kvs') (p ++ [newPathSetKeys o kvs]) with
        | nil =>
          exact absurd (DES.hash_eq_of_equals F (.inl hd) hp _ _ (ha.elem hx) (hb.elem hy)
            (equals_of_merge_diff_nil hd hp _ (ha.elem hx) _ (hb.elem hy) _ hdn)) hne
        | cons h rest =>
          have hh : h ∈ diffNode o true (.obj kvs) (.obj kvs') (p ++ [newPathSetKeys o kvs]) := by
            rw [hdn]; exact List.mem_cons_self
          obtain ⟨h1, ks, h2, h3⟩ := merge_hunks_noclash F hd hp FH KH _ _ (ha.elem hx)
            (hb.elem hy) (wa.elem hx) (wb.elem hy) hcl' _ h hh
          refine ⟨h, hsub h hh, h1, ?_⟩
          rw [h2, List.append_assoc]
          apply badPath_append_nonkey _ _ (newPathSetKeys_isKey o kvs)
          have := h3 rfl rfl
          cases ks with
          | nil => exact absurd rfl this
          | cons k r => simp
    | _ => simp [clash] at hc
  | obj kvs ih =>
    intro b ha hb wa wb hc p
    cases b with
    | obj kvs' =>
      rw [clash_obj_obj] at hc
      obtain ⟨k, v, v', hm, hl, hcv⟩ := clashKvs_true hc
      have hm2 := mem_of_alookup hl
      obtain ⟨h, hh, h1, h2⟩ := ih k v hm v' (ha.val hm) (hb.val hm2) (wa.val hm) (wb.val hm2) hcv
        (p ++ [.key k])
      refine ⟨h, ?_, h1, h2⟩
      rw [DE.diffNode_obj_obj]
      exact List.mem_append_left _ (mem_diffKvs_of o true p kvs' hl hh kvs hm)
    | _ => simp [clash] at hc

/-! ## 7. the dichotomy: C01 and C11 for SetKeys+MERGE hold exactly without a clash -/

section finals
variable (F : FloatEq0) (o : Opts) (hmg : isMerge o = true) (hd : dispatchTag o = .set)
  (hp : precOf o = 0) (a b : Json) (ha : a.setDoc = true) (hb : b.setDoc = true)
  (HF : HashFaithful o (subterms a ++ subterms b))
include F hmg hd hp ha hb HF

theorem diffM_bad_of_clash (hc : clash o a b = true) :
    ((diffM o a b).any fun h => h.merge && badPath h.path) = true := by
  have FH := DES.diffFaithful_of_hashFaithful F (.inl hd) hp (docOk_of_setDoc ha)
    (docOk_of_setDoc hb) HF
  obtain ⟨h, hh, h1, h2⟩ := clash_bad_hunk F hd hp FH (kindSepH_of_hashFaithful HF) a b
    (docOk_of_setDoc ha) (docOk_of_setDoc hb) (DES.within_subterms a) (DES.within_subterms b) hc []
  unfold diffM
  rw [hmg]
  exact List.any_eq_true.2 ⟨h, hh, by simp [h1, h2]⟩

/-- **a FALSE instance of C01 on the code**: with a clash, `a.Patch(a.Diff(b, SetKeys, MERGE))` is an
    error (either variant `sw`) -/
theorem patch_err_of_clash (sw : Bool) (hc : clash o a b = true) :
    patchAll sw a (diffM o a b) = .err :=
  patchAll_bad_err sw _ a (diffM_bad_of_clash F o hmg hd hp a b ha hb HF hc)

/-- **a FALSE instance of C11 on the code**: with a clash, `RenderMerge` of the diff is an error -/
theorem render_err_of_clash (hc : clash o a b = true) : renderMergeDoc (diffM o a b) = .err :=
  renderMergeDoc_bad_err _ (diffM_bad_of_clash F o hmg hd hp a b ha hb HF hc)

theorem patchAll_diffM_noclash (sw : Bool) (hbv : objVoidFree b = true)
    (hc : clash o a b = false) :
    patchAll sw a (diffM o a b) = .ok (mapply (ds o a b) a) := by
  have FH := DES.diffFaithful_of_hashFaithful F (.inl hd) hp (docOk_of_setDoc ha)
    (docOk_of_setDoc hb) HF
  have h := diffNode_eq_ds_noclash F hd hp FH (kindSepH_of_hashFaithful HF) a b
    (docOk_of_setDoc ha) (docOk_of_setDoc hb) (DES.within_subterms a) (DES.within_subterms b) hbv
    hc []
  simp only [List.map_nil, List.nil_append] at h
  unfold diffM
  rw [hmg, h, patchAll_mh]

theorem renderMergeDoc_diffM_noclash (hbv : objVoidFree b = true) (hc : clash o a b = false) :
    renderMergeDoc (diffM o a b)
      = .ok (if ds o a b = [] then .obj [] else mapply (MSet.rs o a b) .void) := by
  have FH := DES.diffFaithful_of_hashFaithful F (.inl hd) hp (docOk_of_setDoc ha)
    (docOk_of_setDoc hb) HF
  have h := diffNode_eq_ds_noclash F hd hp FH (kindSepH_of_hashFaithful HF) a b
    (docOk_of_setDoc ha) (docOk_of_setDoc hb) (DES.within_subterms a) (DES.within_subterms b) hbv
    hc []
  simp only [List.map_nil, List.nil_append] at h
  unfold diffM
  rw [hmg, h, MSet.renderMergeDoc_mh]
  rfl

/-- **C01, SetKeys+MERGE, exact domain**: no hypothesis on identities; `clash o a b = false` -/
theorem merge_diff_then_patch_setkeys_noclash (L : FloatLaws) (sw : Bool)
    (hbn : b.nullFree = true) (hbv : objVoidFree b = true) (hc : clash o a b = false) :
    ∃ r, patchAll sw a (diffM o a b) = .ok r ∧ equals o r b = true ∧ equivB o r b = true := by
  have G : GoodS (subterms a ++ subterms b) b := MSet.goodS_of_setDoc hb hbn hbv
  have Sd := DPK.memSound_set F L (.inl hd) hp HF a (docOk_of_setDoc ha)
    (fun z hz => List.mem_append.2 (Or.inl hz)) b G
  exact ⟨_, patchAll_diffM_noclash F o hmg hd hp a b ha hb HF sw hbv hc, Sd.1, Sd.2⟩

/-- **C01, SetKeys+MERGE: the property holds exactly on the pairs without a clash** -/
theorem merge_diff_then_patch_setkeys_iff (L : FloatLaws) (sw : Bool)
    (hbn : b.nullFree = true) (hbv : objVoidFree b = true) :
    (∃ r, patchAll sw a (diffM o a b) = .ok r ∧ equals o r b = true ∧ equivB o r b = true)
      ↔ clash o a b = false := by
  constructor
  · rintro ⟨r, h, _⟩
    cases hc : clash o a b with
    | false => rfl
    | true => rw [patch_err_of_clash F o hmg hd hp a b ha hb HF sw hc] at h; cases h
  · exact merge_diff_then_patch_setkeys_noclash F o hmg hd hp a b ha hb HF L sw hbn hbv

/-- `Patch` succeeds at all exactly on the pairs without a clash -/
theorem patch_ok_iff_noclash (sw : Bool) (hbv : objVoidFree b = true) :
    (∃ r, patchAll sw a (diffM o a b) = .ok r) ↔ clash o a b = false := by
  constructor
  · rintro ⟨r, h⟩
    cases hc : clash o a b with
    | false => rfl
    | true => rw [patch_err_of_clash F o hmg hd hp a b ha hb HF sw hc] at h; cases h
  · exact fun hc => ⟨_, patchAll_diffM_noclash F o hmg hd hp a b ha hb HF sw hbv hc⟩

/-- **C11, SetKeys+MERGE, exact domain** -/
theorem merge_render_correct_setkeys_noclash (L : FloatLaws)
    (hbn : b.nullFree = true) (hbv : objVoidFree b = true) (hc : clash o a b = false)
    (hne : equals o a b = false) :
    ∃ m, renderMergeDoc (diffM o a b) = .ok m ∧
      equals o (mergePatch a m) b = true ∧ equivB o (mergePatch a m) b = true := by
  have G : GoodS (subterms a ++ subterms b) b := MSet.goodS_of_setDoc hb hbn hbv
  have Sd := MSet.sound F L (.inl hd) hp HF a (docOk_of_setDoc ha)
    (fun z hz => List.mem_append.2 (Or.inl hz)) b G
  rw [renderMergeDoc_diffM_noclash F o hmg hd hp a b ha hb HF hbv hc]
  by_cases hds : ds o a b = []
  · have := (Sd.1 hds).1
    rw [hne] at this
    cases this
  · rw [if_neg hds]
    exact ⟨_, rfl, (Sd.2 hds).2.2.1, (Sd.2 hds).2.2.2⟩

/-- `RenderMerge` succeeds exactly on the pairs without a clash -/
theorem render_ok_iff_noclash (hbv : objVoidFree b = true) :
    (∃ m, renderMergeDoc (diffM o a b) = .ok m) ↔ clash o a b = false := by
  constructor
  · rintro ⟨r, h⟩
    cases hc : clash o a b with
    | false => rfl
    | true => rw [render_err_of_clash F o hmg hd hp a b ha hb HF hc] at h; cases h
  · exact fun hc => ⟨_, renderMergeDoc_diffM_noclash F o hmg hd hp a b ha hb HF hbv hc⟩

/-- identities that tell the members of every set of `b` apart exclude a clash (so the theorems of
    JdProofs/KeysMerge.lean are instances of the ones above) -/
theorem noclash_of_identInj (hbv : objVoidFree b = true) (IB : IdentInj o (subterms b)) :
    clash o a b = false := by
  cases hc : clash o a b with
  | false => rfl
  | true =>
    have h1 := patch_err_of_clash F o hmg hd hp a b ha hb HF true hc
    rw [patchAll_diffM_keys F true o hmg hd hp a b ha hb hbv HF IB] at h1
    cases h1

end finals

/-- the SetKeys precondition on the second document — in every array the object members have
    pairwise distinct identities (`DPK.KeyedDistinct`) — implies `IdentInj`, when no object has the
    identity of a non-object (`DES.KindSepI`, a collision class) -/
theorem identInj_of_keyedDistinct {o : Opts} {b : Json}
    (KD : DPK.KeyedDistinct o (subterms b)) (KS : DES.KindSepI o (subterms b) (subterms b)) :
    IdentInj o (subterms b) := by
  intro n hn
  cases n with
  | arr t xs =>
    have hkd := KD _ hn
    simp only [DPK.nodeKeyedDistinct, decide_eq_true_eq] at hkd
    simp only [DES.nodeIdentInj, List.all_eq_true, Bool.or_eq_true, bne_iff_ne, ne_eq,
      beq_iff_eq]
    intro x hx x' hx'
    by_cases e : identOf o x = identOf o x'
    · right
      have sx : x ∈ subterms b :=
        DES.subterms_trans (subterms_elem_sub (t := t) hx (mem_subterms_self x)) b hn
      have sx' : x' ∈ subterms b :=
        DES.subterms_trans (subterms_elem_sub (t := t) hx' (mem_subterms_self x')) b hn
      have hk := KS x sx x' sx' e
      cases hxo : x.isObj with
      | true =>
        have hxo' : x'.isObj = true := by rw [← hk, hxo]
        have : x = x' := DPK.nodup_map_inj hkd (List.mem_filter.2 ⟨hx, hxo⟩)
          (List.mem_filter.2 ⟨hx', hxo'⟩) e
        rw [this]
      | false =>
        have hxo' : x'.isObj = false := by rw [← hk, hxo]
        rw [← DES.identOf_nonobj o hxo, ← DES.identOf_nonobj o hxo', e]
    · exact .inl e
  | _ => rfl

/-! ## 8. the library calls themselves; the SetKeys precondition -/

/-- `a.Patch(a.Diff(b, SetKeys(ks...), MERGE))` succeeds with the right result exactly without a clash -/
theorem patchM_diffM_SetKeys_MERGE_iff (F : FloatEq0) (L : FloatLaws) (ks : List String)
    (a b : Json) (ha : a.setDoc = true) (hb : b.setDoc = true) (hbn : b.nullFree = true)
    (hbv : objVoidFree b = true)
    (HF : HashFaithful [.setKeys ks, .merge] (subterms a ++ subterms b)) :
    (∃ r, patchM a (diffM [.setKeys ks, .merge] a b) = .ok r ∧
      equals [.setKeys ks, .merge] r b = true ∧ equivB [.setKeys ks, .merge] r b = true)
      ↔ clash [.setKeys ks, .merge] a b = false :=
  merge_diff_then_patch_setkeys_iff F [.setKeys ks, .merge] rfl rfl rfl a b ha hb HF L true hbn hbv

/-- … and is an error with a clash -/
theorem patchM_diffM_SetKeys_MERGE_err (F : FloatEq0) (ks : List String)
    (a b : Json) (ha : a.setDoc = true) (hb : b.setDoc = true)
    (HF : HashFaithful [.setKeys ks, .merge] (subterms a ++ subterms b))
    (hc : clash [.setKeys ks, .merge] a b = true) :
    patchM a (diffM [.setKeys ks, .merge] a b) = .err ∧
      renderMergeDoc (diffM [.setKeys ks, .merge] a b) = .err :=
  ⟨patch_err_of_clash F [.setKeys ks, .merge] rfl rfl rfl a b ha hb HF true hc,
   render_err_of_clash F [.setKeys ks, .merge] rfl rfl rfl a b ha hb HF hc⟩

/-- C01 for SetKeys+MERGE under the SetKeys precondition on the TARGET document: in every array of
    `b` the object members have pairwise distinct identities -/
theorem merge_diff_then_patch_setkeys_distinct (F : FloatEq0) (L : FloatLaws) (sw : Bool)
    (o : Opts) (hmg : isMerge o = true) (hd : dispatchTag o = .set) (hp : precOf o = 0)
    (a b : Json) (ha : a.setDoc = true) (hb : b.setDoc = true) (hbn : b.nullFree = true)
    (hbv : objVoidFree b = true) (HF : HashFaithful o (subterms a ++ subterms b))
    (KD : DPK.KeyedDistinct o (subterms b)) (KS : DES.KindSepI o (subterms b) (subterms b)) :
    ∃ r, patchAll sw a (diffM o a b) = .ok r ∧ equals o r b = true ∧ equivB o r b = true :=
  merge_diff_then_patch_setkeys F L sw o hmg hd hp a b ha hb hbn hbv HF
    (identInj_of_keyedDistinct KD KS)

/-- the options as the CLI `jd -setkeys K -f merge` builds them (`parseMetadata` of v2/jd/main.go
    appends `Precision(0)`) -/
theorem patchM_diffM_cli_setkeys_merge_iff (F : FloatEq0) (L : FloatLaws) (ks : List String)
    (a b : Json) (ha : a.setDoc = true) (hb : b.setDoc = true) (hbn : b.nullFree = true)
    (hbv : objVoidFree b = true)
    (HF : HashFaithful [.setKeys ks, .merge, .prec 0] (subterms a ++ subterms b)) :
    (∃ r, patchM a (diffM [.setKeys ks, .merge, .prec 0] a b) = .ok r ∧
      equals [.setKeys ks, .merge, .prec 0] r b = true ∧
      equivB [.setKeys ks, .merge, .prec 0] r b = true)
      ↔ clash [.setKeys ks, .merge, .prec 0] a b = false :=
  merge_diff_then_patch_setkeys_iff F [.setKeys ks, .merge, .prec 0] rfl rfl rfl a b ha hb HF L
    true hbn hbv

theorem renderMergeDoc_err_of_nonmerge (d : Diff) (h : Hunk) (hm : h ∈ d) (hh : h.merge = false) :
    renderMergeDoc d = .err := by
  unfold renderMergeDoc
  have h1 : d.isEmpty = false := by cases d <;> simp_all
  have h2 : d.any (fun h => !h.merge) = true := List.any_eq_true.2 ⟨h, hm, by simp [hh]⟩
  rw [h1, h2]; simp

/-! ## 9. witnesses (replayed on the Go library with the same outcome) and non-vacuity -/

namespace Witness

def o1 : Opts := [.setKeys ["id"], .merge]
abbrev ox : Json := .obj [("id", .str "1"), ("v", .str "x")]
abbrev oy : Json := .obj [("id", .str "1"), ("v", .str "y")]
/-- `{"k":[{"id":"1","v":"x"},{"id":"1","v":"y"}],"z":"q"}` -/
def wa : Json := .obj [("k", .arr .raw [ox, oy]), ("z", .str "q")]
/-- `{"k":[{"id":"1","v":"y"},{"id":"1","v":"x"}],"z":"r"}`: the same set under `k`, listed in the
    other order; `z` changed -/
def wb : Json := .obj [("k", .arr .raw [oy, ox]), ("z", .str "r")]
/-- `{"k":[{"id":"1","v":"x"},{"id":"1","v":"y"}],"z":"r"}`: the same set in the SAME order -/
def wc : Json := .obj [("k", .arr .raw [ox, oy]), ("z", .str "r")]

theorem w_docs : wa.setDoc = true ∧ wb.setDoc = true ∧ wb.nullFree = true ∧
    objVoidFree wb = true ∧ wc.setDoc = true ∧ wc.nullFree = true ∧ objVoidFree wc = true := by
  decide

theorem w_hf : HashFaithful o1 (subterms wa ++ subterms wb) := by
  intro x hx y hy
  simp only [wa, wb, subterms, subtermsList, subtermsKvs, List.cons_append, List.nil_append,
    List.append_nil, List.mem_cons, List.not_mem_nil, or_false] at hx hy
  rcases hx with rfl | rfl | rfl | rfl | rfl | rfl | rfl | rfl | rfl | rfl | rfl | rfl | rfl | rfl | rfl | rfl | rfl | rfl <;>
  rcases hy with rfl | rfl | rfl | rfl | rfl | rfl | rfl | rfl | rfl | rfl | rfl | rfl | rfl | rfl | rfl | rfl | rfl | rfl <;>
  first
  | (intro e; exact absurd e (by decide +kernel))
  | (intro _; simp [equivB, dispatchTag, o1, allIn, allCovered, anyEquiv, equivKvs, alookup]; done)

theorem w_hf_c : HashFaithful o1 (subterms wa ++ subterms wc) := by
  intro x hx y hy
  simp only [wa, wc, subterms, subtermsList, subtermsKvs, List.cons_append, List.nil_append,
    List.append_nil, List.mem_cons, List.not_mem_nil, or_false] at hx hy
  rcases hx with rfl | rfl | rfl | rfl | rfl | rfl | rfl | rfl | rfl | rfl | rfl | rfl | rfl | rfl | rfl | rfl | rfl | rfl <;>
  rcases hy with rfl | rfl | rfl | rfl | rfl | rfl | rfl | rfl | rfl | rfl | rfl | rfl | rfl | rfl | rfl | rfl | rfl | rfl <;>
  first
  | (intro e; exact absurd e (by decide +kernel))
  | (intro _; simp [equivB, dispatchTag, o1, allIn, allCovered, anyEquiv, equivKvs, alookup]; done)

theorem w_clash : clash o1 wa wb = true := by decide +kernel
theorem w_ne : equals o1 wa wb = false := by decide +kernel

/-- **C01 and C11 are FALSE for SetKeys+MERGE on this pair** (null-free documents as read from JSON
    text, `a ≠ b`, no hash collision — every hypothesis of `merge_diff_then_patch_setkeys` except
    `IdentInj` holds): the array under `k` is `Equals` on both sides, so the merge strategy does not
    replace it; `jsonSet.diff` then sub-diffs the LAST bearer of the identity `{"id":"1"}` on each
    side, emits the merge hunk `@ ["k",{"id":"1"},"v"] + "x"`, and both `Patch` and `RenderMerge`
    reject it ("merge patch path must be composed of only strings: found jd.PathSetKeys"). -/
theorem setkeys_merge_breaks (F : FloatEq0) :
    patchM wa (diffM o1 wa wb) = .err ∧ renderMergeDoc (diffM o1 wa wb) = .err :=
  patchM_diffM_SetKeys_MERGE_err F ["id"] wa wb w_docs.1 w_docs.2.1 w_hf w_clash

theorem wb_not_identInj : ¬ IdentInj o1 (subterms wb) := fun h =>
  absurd (h (.arr .raw [oy, ox]) (by simp [wb, subterms, subtermsList, subtermsKvs]))
    (by decide +kernel)

/-- non-vacuity of the exact theorem BEYOND `IdentInj`: against `wc` (same order under `k`) there
    is no clash although two members of the array share an identity; the library succeeds -/
theorem wc_noclash : clash o1 wa wc = false := by decide +kernel

theorem wc_not_identInj : ¬ IdentInj o1 (subterms wc) := fun h =>
  absurd (h (.arr .raw [ox, oy]) (by simp [wc, subterms, subtermsList, subtermsKvs]))
    (by decide +kernel)

theorem wc_run (F : FloatEq0) (L : FloatLaws) :
    ∃ r, patchM wa (diffM o1 wa wc) = .ok r ∧ equals o1 r wc = true ∧ equivB o1 r wc = true :=
  (patchM_diffM_SetKeys_MERGE_iff F L ["id"] wa wc w_docs.1 w_docs.2.2.2.2.1 w_docs.2.2.2.2.2.1
    w_docs.2.2.2.2.2.2 w_hf_c).2 wc_noclash

/-! the identperm class (KF-C01-identperm) meets MERGE: two members with DIFFERENT key tuples
    (`id` = "1", no `k`) and (no `id`, `k` = "1") share an identity under SetKeys(id,k) -/

def o2 : Opts := [.setKeys ["id", "k"], .merge]
abbrev m1 : Json := .obj [("id", .str "1"), ("v", .str "x")]
abbrev m2 : Json := .obj [("k", .str "1"), ("v", .str "y")]
/-- `[{"id":"1","v":"x"},{"k":"1","v":"y"}]` -/
def pa : Json := .arr .raw [m1, m2]
/-- `[{"k":"1","v":"y"},{"id":"1","v":"x"}]` -/
def pb : Json := .arr .raw [m2, m1]

theorem p_docs : pa.setDoc = true ∧ pb.setDoc = true ∧ pb.nullFree = true ∧
    objVoidFree pb = true := by decide

theorem p_hf : HashFaithful o2 (subterms pa ++ subterms pb) := by
  intro x hx y hy
  simp only [pa, pb, subterms, subtermsList, subtermsKvs, List.cons_append, List.nil_append,
    List.append_nil, List.mem_cons, List.not_mem_nil, or_false] at hx hy
  rcases hx with rfl | rfl | rfl | rfl | rfl | rfl | rfl | rfl | rfl | rfl | rfl | rfl | rfl | rfl <;>
  rcases hy with rfl | rfl | rfl | rfl | rfl | rfl | rfl | rfl | rfl | rfl | rfl | rfl | rfl | rfl <;>
  first
  | (intro e; exact absurd e (by decide +kernel))
  | (intro _; simp [equivB, dispatchTag, o2, allIn, allCovered, anyEquiv, equivKvs, alookup]; done)

theorem p_clash : clash o2 pa pb = true := by decide +kernel

/-- reordering an array whose members have pairwise different key tuples: `Patch` of the
    SetKeys(id,k)+MERGE diff is an error (here `a` `Equals` `b`: C01 does not exclude it) -/
theorem identperm_merge_breaks (F : FloatEq0) :
    equals o2 pa pb = true ∧ patchM pa (diffM o2 pa pb) = .err ∧
      renderMergeDoc (diffM o2 pa pb) = .err :=
  ⟨by decide +kernel, patchM_diffM_SetKeys_MERGE_err F ["id", "k"] pa pb p_docs.1 p_docs.2.1 p_hf
    p_clash⟩

/-! `HashFaithful` cannot be dropped from the C11 theorems: a genuine FNV-1a collision
    (`DES.Witness.fnv_collision_breaks_converse`) -/

/-- `{"k":["aedb68afb","b7cdeb749"],"z":"q"}` -/
def ha : Json := .obj [("k", DES.Witness.ca), ("z", .str "q")]
/-- `{"k":["a568b3ad2","b76a57d20"],"z":"r"}` -/
def hb : Json := .obj [("k", DES.Witness.cb), ("z", .str "r")]

/-- every hypothesis of `merge_render_correct_setkeys` except `HashFaithful` holds (and there is no
    clash), and `RenderMerge` of the SetKeys+MERGE diff is an ERROR: the arrays under `k` have no
    member in common but the same combined hash code, `Equals` takes them for equal, the strict set
    diff then emits a NON-merge hunk ("cannot render non-merge element as merge"). (`Patch` of the
    in-memory diff succeeds on this pair.) -/
theorem collision_needs_hashFaithful :
    ha.setDoc = true ∧ hb.setDoc = true ∧ hb.nullFree = true ∧ objVoidFree hb = true ∧
    equals o1 ha hb = false ∧ IdentInj o1 (subterms hb) ∧ clash o1 ha hb = false ∧
    renderMergeDoc (diffM o1 ha hb) = .err := by
  refine ⟨by decide, by decide, by decide, by decide, by decide +kernel,
    DES.Example.identInj_of_check (by decide +kernel), by decide +kernel, ?_⟩
  have he : equals o1 (.arr .raw [.str "aedb68afb", .str "b7cdeb749"])
      (.arr .raw [.str "a568b3ad2", .str "b76a57d20"]) = true := by decide +kernel
  have hadd : SetDP.setAdd o1 [.str "aedb68afb", .str "b7cdeb749"]
      [.str "a568b3ad2", .str "b76a57d20"] ≠ [] := by
    intro h
    have := (DES.add_nil_iff o1 _ _).1 h (identOf o1 (.str "a568b3ad2")) (by simp)
    revert this
    decide +kernel
  apply renderMergeDoc_err_of_nonmerge _
    { path := [.key "k"] ++ [.set],
      remove := (ksort (diffSetElems o1 true [.key "k"] [.str "a568b3ad2", .str "b76a57d20"]
        [.str "aedb68afb", .str "b7cdeb749"])).filterMap SetDP.remOf,
      add := SetDP.setAdd o1 [.str "aedb68afb", .str "b7cdeb749"]
        [.str "a568b3ad2", .str "b76a57d20"] } _ rfl
  unfold diffM ha hb DES.Witness.ca DES.Witness.cb
  rw [show isMerge o1 = true from rfl, DE.diffNode_obj_obj, DE.diffKvs_cons]
  simp only [alookup, if_true, List.nil_append]
  rw [MSet.diffNode_merge_set_eq (o := o1) rfl _ _ _ he]
  have : (SetDP.setAdd o1 [.str "aedb68afb", .str "b7cdeb749"]
      [.str "a568b3ad2", .str "b76a57d20"]).isEmpty = false := by
    cases h : SetDP.setAdd o1 [.str "aedb68afb", .str "b7cdeb749"]
      [.str "a568b3ad2", .str "b76a57d20"] with
    | nil => exact absurd h hadd
    | cons _ _ => rfl
  rw [this, Bool.and_false]
  simp

theorem collision_not_hashFaithful : ¬ HashFaithful o1 (subterms ha ++ subterms hb) := fun h => by
  have := h DES.Witness.ca (by simp [ha, subterms, subtermsKvs, DES.Witness.ca])
    DES.Witness.cb
    (by simp [hb, ha, subterms, subtermsKvs, DES.Witness.cb, DES.Witness.ca, subtermsList])
    (by decide +kernel)
  simp [DES.Witness.ca, DES.Witness.cb, equivB, dispatchTag, o1, allIn, allCovered, anyEquiv]
    at this

end Witness

/-! ## 10. MULTISET together with SetKeys and MERGE (`jd -mset -setkeys id -f merge`): the keys play
  no role (`dispatch` reads arrays as multisets, whose diff never looks at identities) -/

theorem rawDocList_of_forall : ∀ xs : List Json, (∀ x ∈ xs, x.rawDoc = true) → rawDocList xs = true
  | [], _ => rfl
  | x :: r, h => by
    simp only [rawDocList, Bool.and_eq_true]
    exact ⟨h x List.mem_cons_self, rawDocList_of_forall r fun y hy => h y (List.mem_cons_of_mem _ hy)⟩

theorem wfList_of_forall : ∀ xs : List Json, (∀ x ∈ xs, x.wf = true) → wfList xs = true
  | [], _ => rfl
  | x :: r, h => by
    simp only [wfList, Bool.and_eq_true]
    exact ⟨h x List.mem_cons_self, wfList_of_forall r fun y hy => h y (List.mem_cons_of_mem _ hy)⟩

theorem rawDocKvs_of_forall : ∀ kvs : List (String × Json),
    (∀ k v, (k, v) ∈ kvs → v.rawDoc = true) → rawDocKvs kvs = true
  | [], _ => rfl
  | (k, v) :: r, h => by
    simp only [rawDocKvs, Bool.and_eq_true]
    exact ⟨h k v List.mem_cons_self,
      rawDocKvs_of_forall r fun k' v' hy => h k' v' (List.mem_cons_of_mem _ hy)⟩

theorem wfKvs_of_forall : ∀ kvs : List (String × Json),
    (∀ k v, (k, v) ∈ kvs → v.wf = true) → wfKvs kvs = true
  | [], _ => rfl
  | (k, v) :: r, h => by
    simp only [wfKvs, Bool.and_eq_true]
    exact ⟨h k v List.mem_cons_self,
      wfKvs_of_forall r fun k' v' hy => h k' v' (List.mem_cons_of_mem _ hy)⟩

theorem rawDoc_wf_of_docOk : ∀ a : Json, DocOk a → a.rawDoc = true ∧ a.wf = true := by
  intro a
  induction a using jsonInd with
  | void => intro _; exact ⟨rfl, rfl⟩
  | null => intro _; exact ⟨rfl, rfl⟩
  | bool x => intro _; exact ⟨rfl, rfl⟩
  | num x => intro _; exact ⟨rfl, rfl⟩
  | str x => intro _; exact ⟨rfl, rfl⟩
  | arr t xs ih =>
    intro h
    have ht := h.raw
    subst ht
    simp only [Json.rawDoc, Json.wf, beq_self_eq_true, Bool.true_and]
    exact ⟨rawDocList_of_forall xs fun x hx => (ih x hx (h.elem hx)).1,
      wfList_of_forall xs fun x hx => (ih x hx (h.elem hx)).2⟩
  | obj kvs ih =>
    intro h
    simp only [Json.rawDoc, Json.wf, Bool.and_eq_true]
    exact ⟨rawDocKvs_of_forall kvs fun k v hm => (ih k v hm (h.val hm)).1, h.sorted,
      wfKvs_of_forall kvs fun k v hm => (ih k v hm (h.val hm)).2⟩

/-- the library's merge diff under MULTISET (SetKeys present or not) is `MSet.ds` -/
theorem diffNode_eq_ds_mset {o : Opts} (hd : dispatchTag o = .mset)
    (hp : precOf o = 0) {SA SB : List Json} (FH : DiffFaithful o SA SB) :
    ∀ a b, DocOk a → DocOk b → Within SA a → Within SB b → objVoidFree b = true →
      ∀ q : List String,
        diffNode o true a b (q.map .key) = (ds o a b).map (fun e => mh (q ++ e.1) e.2) := by
  have hm : dispatchTag o = .set ∨ dispatchTag o = .mset := .inr hd
  have scalar : ∀ a b : Json, a.isObj = false → Merge.isArr a = false → ∀ q : List String,
      diffNode o true a b (q.map .key) = (ds o a b).map (fun e => mh (q ++ e.1) e.2) := by
    intro a b h1 h2 q
    rw [Merge.diffNode_scalar o h1 h2, MSet.ds_scalar o h1 h2, diffCommon]
    split <;> simp [mh]
  intro a
  induction a using jsonInd with
  | void => intro b _ _ _ _ _ q; exact scalar _ b rfl rfl q
  | null => intro b _ _ _ _ _ q; exact scalar _ b rfl rfl q
  | bool x => intro b _ _ _ _ _ q; exact scalar _ b rfl rfl q
  | num x => intro b _ _ _ _ _ q; exact scalar _ b rfl rfl q
  | str x => intro b _ _ _ _ _ q; exact scalar _ b rfl rfl q
  | arr t xs _ =>
    intro b ha hb wa wb hv q
    have ht := ha.raw
    subst ht
    cases b with
    | arr t' ys =>
      have ht' := hb.raw
      subst ht'
      rw [MSet.ds_arr_arr]
      cases he : equals o (.arr .raw xs) (.arr .raw ys) with
      | true =>
        rw [DES.diffNode_nil_of_equals (.inr hd) hp true FH _ (rawDoc_wf_of_docOk _ ha).1
          (rawDoc_wf_of_docOk _ ha).2 wa _ (rawDoc_wf_of_docOk _ hb).2 wb he]
        simp
      | false =>
        rw [MSet.diffNode_merge_arr_ne hm xs ys _ he]
        simp [mh]
    | _ => rw [MSet.diffNode_merge_arr_other hm xs _ rfl, MSet.ds_arr_other o _ xs rfl]; simp [mh]
  | obj kvs ih =>
    intro b ha hb wa wb hv q
    cases b with
    | obj kvs' =>
      simp only [objVoidFree] at hv
      have hkv : ∀ r : List (String × Json), (∀ kv ∈ r, kv ∈ kvs) →
          diffKvs o true (q.map .key) kvs' r
            = (dsKvs o kvs' r).map (fun e => mh (q ++ e.1) e.2) := by
        intro r
        induction r with
        | nil => intro _; rw [DE.diffKvs_nil, MSet.dsKvs_nil]; rfl
        | cons kv r ihr =>
          intro hsub
          obtain ⟨k, v⟩ := kv
          have hm1 : (k, v) ∈ kvs := hsub _ List.mem_cons_self
          rw [DE.diffKvs_cons, MSet.dsKvs_cons, List.map_append,
            ihr (fun kv hh => hsub kv (List.mem_cons_of_mem _ hh))]
          congr 1
          cases hl : alookup k kvs' with
          | none => simp [mh]
          | some v' =>
            have hm2 := mem_of_alookup hl
            have := ih k v hm1 v' (ha.val hm1) (hb.val hm2) (wa.val hm1) (wb.val hm2)
              (alookup_objVoidFree hl hv) (q ++ [k])
            simp only [List.map_append, List.map_cons, List.map_nil] at this
            simp only [this]
            simp [consE, Function.comp_def]
      rw [DE.diffNode_obj_obj, MSet.ds_obj_obj, List.map_append, hkv kvs (fun _ hh => hh),
        additions_eq q kvs kvs' hv]
    | _ =>
      rw [diffNode.eq_def, MSet.ds_obj_other o kvs rfl]; simp [mh]

/-- **C01 and C11, MULTISET+SetKeys+MERGE** (`dispatchTag o = .mset`, `keysOf o` arbitrary): exactly the
    statements of `DPK.merge_diff_then_patch_setmodes` / `MSet.merge_render_correct_setmodes` without
    their hypothesis `keysOf o = none` -/
theorem merge_diff_then_patch_mset_keys (F : FloatEq0) (L : FloatLaws) (sw : Bool) (o : Opts)
    (hmg : isMerge o = true) (hd : dispatchTag o = .mset) (hp : precOf o = 0) (a b : Json)
    (ha : a.setDoc = true) (hb : b.setDoc = true) (hbn : b.nullFree = true)
    (hbv : objVoidFree b = true) (HF : HashFaithful o (subterms a ++ subterms b)) :
    (∃ r, patchAll sw a (diffM o a b) = .ok r ∧ equals o r b = true ∧ equivB o r b = true) ∧
    (equals o a b = false → ∃ m, renderMergeDoc (diffM o a b) = .ok m ∧
      equals o (mergePatch a m) b = true ∧ equivB o (mergePatch a m) b = true) := by
  have FH := DES.diffFaithful_of_hashFaithful F (.inr hd) hp (docOk_of_setDoc ha)
    (docOk_of_setDoc hb) HF
  have h := diffNode_eq_ds_mset hd hp FH a b (docOk_of_setDoc ha) (docOk_of_setDoc hb)
    (DES.within_subterms a) (DES.within_subterms b) hbv []
  simp only [List.map_nil, List.nil_append] at h
  have G : GoodS (subterms a ++ subterms b) b := MSet.goodS_of_setDoc hb hbn hbv
  constructor
  · have Sd := DPK.memSound_set F L (.inr hd) hp HF a (docOk_of_setDoc ha)
      (fun z hz => List.mem_append.2 (Or.inl hz)) b G
    refine ⟨_, ?_, Sd.1, Sd.2⟩
    unfold diffM
    rw [hmg, h, patchAll_mh]
  · intro hne
    have Sd := MSet.sound F L (.inr hd) hp HF a (docOk_of_setDoc ha)
      (fun z hz => List.mem_append.2 (Or.inl hz)) b G
    have hr : renderMergeDoc (diffM o a b)
        = .ok (if ds o a b = [] then .obj [] else mapply (MSet.rs o a b) .void) := by
      unfold diffM
      rw [hmg, h, MSet.renderMergeDoc_mh]
      rfl
    rw [hr]
    by_cases hds : ds o a b = []
    · have := (Sd.1 hds).1
      rw [hne] at this
      cases this
    · rw [if_neg hds]
      exact ⟨_, rfl, (Sd.2 hds).2.2.1, (Sd.2 hds).2.2.2⟩

/-- non-vacuity: the pair of JdProofs/MergeSetModes.lean under `[MULTISET, SetKeys(id), MERGE]` -/
theorem ex_hashFaithful_mset_keys :
    HashFaithful [.mset, .setKeys ["id"], .merge]
      (subterms MSet.Example.exA ++ subterms MSet.Example.exB) := by
  intro x hx y hy
  simp only [MSet.Example.exA, MSet.Example.exB, subterms, subtermsList, subtermsKvs,
    List.cons_append, List.nil_append, List.append_nil, List.mem_cons, List.not_mem_nil,
    or_false] at hx hy
  rcases hx with rfl | rfl | rfl | rfl | rfl | rfl | rfl | rfl | rfl | rfl | rfl | rfl | rfl | rfl | rfl | rfl <;>
  rcases hy with rfl | rfl | rfl | rfl | rfl | rfl | rfl | rfl | rfl | rfl | rfl | rfl | rfl | rfl | rfl | rfl <;>
  first
  | (intro _; simp [equivB, dispatchTag, bagSub, removeFirst, equivKvs, alookup]; done)
  | (intro e; exact absurd e (by decide +kernel))

example (F : FloatEq0) (L : FloatLaws) :
    ∃ r, patchM MSet.Example.exA
        (diffM [.mset, .setKeys ["id"], .merge] MSet.Example.exA MSet.Example.exB) = .ok r ∧
      equals [.mset, .setKeys ["id"], .merge] r MSet.Example.exB = true ∧
      equivB [.mset, .setKeys ["id"], .merge] r MSet.Example.exB = true :=
  (merge_diff_then_patch_mset_keys F L true [.mset, .setKeys ["id"], .merge] rfl rfl rfl _ _
    MSet.Example.ex_docs.1 MSet.Example.ex_docs.2.1 MSet.Example.ex_docs.2.2.1
    MSet.Example.ex_docs.2.2.2 ex_hashFaithful_mset_keys).1

end Jd.KM
